(* Proofs/RetainCachesEffects.v — property C17, first half of the agreement between Model/Caches.v
   (WP-A: the cache state machine of LineReader / SyslineReader / BlockReader over the bytes of a
   file) and Model/Retain.v: what ONE call of the stage driver does to the stores of the cache
   machine while it streams a PLAIN file forward, in closed form.
     find_sysline_effect   find_sysline at the offset of the next message: which lines, blocks and
                           which sysline are added, the new high-water counters
     drop_data_effect      SyslineReader::drop_data(bo): which syslines, lines and blocks leave
   (invariants lgood / sgood / sown: the stores while the reader streams forward).
   Proofs/RetainCachesAgree.v puts them beside the steps of Model/Retain.v. *)
From Coq Require Import List NArith ZArith Bool Sorted Lia.
Import ListNotations.
From S4.Base Require Import Bytes Chunk.
From S4.Spec Require Import LinesSpec.
From S4.Model Require Import Lines Syslines Caches.
From S4.Proofs Require Import LinesProofs CachesProofs CachesRunProofs.
From S4.Model Require Retain.
From S4.Proofs Require RetainProofs RetainLayout RetainLag.
Open Scope N_scope.

Ltac splits := repeat match goal with |- _ /\ _ => split end.

(* ------------------------------------------------------------------ consecutive numbers *)
Notation nseq := Retain.nseq.

Lemma in_nseq start cnt x : In x (nseq start cnt) <-> start <= x < start + N.of_nat cnt.
Proof. apply RetainProofs.in_nseq. Qed.

Lemma nseq_app start a b : nseq start (a + b) = nseq start a ++ nseq (start + N.of_nat a) b.
Proof.
  revert start. induction a as [|a IH]; intros start; cbn [nseq plus app].
  - rewrite N.add_0_r. reflexivity.
  - rewrite IH. replace (start + 1 + N.of_nat a) with (start + N.of_nat (S a)) by lia. reflexivity.
Qed.

Lemma nseq_length start n : length (nseq start n) = n.
Proof. revert start. induction n as [|n IH]; intros start; cbn [nseq length]; [reflexivity|rewrite IH; reflexivity]. Qed.

(* ------------------------------------------------------------------ parts of a line: one per block *)
Definition bos (ps : line) : list N := map part_bo ps.
Definition aligned (ps : line) : Prop :=
  match ps with [] => True | p :: _ => bos ps = nseq (part_bo p) (length ps) end.

Lemma fwd_blocks_bos bs (f : file) last fuel : forall bof acc bi_prev e ps,
  fwd_blocks fuel bs f bof last acc bi_prev = Found (e, ps) ->
  exists new, ps = acc ++ new /\ bos new = nseq bof (length new).
Proof.
  induction fuel as [|fuel IH]; intros bof acc bi_prev e ps; cbn [fwd_blocks]; [discriminate|].
  destruct (bof <=? last).
  - destruct (block bs f bof) as [|x0 blk0] eqn:EB; [discriminate|]. rewrite <- EB.
    destruct (find_nl (block bs f bof)) as [d|].
    + intro H; inversion H; subst. exists [(bof, 0, d + 1)]. split; reflexivity.
    + intro H. destruct (IH _ _ _ _ _ H) as (new & -> & B).
      exists ((bof, 0, lenN (block bs f bof)) :: new). split; [rewrite <- app_assoc; reflexivity|].
      cbn [bos map length nseq part_bo fst]. unfold bos in B. rewrite B. reflexivity.
  - destruct bi_prev as [bi|]; [|discriminate]. destruct (bi =? 0); [discriminate|].
    intro H; inversion H; subst. exists []. rewrite app_nil_r. split; reflexivity.
Qed.

Lemma fwd_search_aligned bs (f : file) fuel fo e after bme b0 :
  fwd_search fuel bs f fo = Found (e, after, bme) ->
  aligned ((block_offset_at_file_offset fo bs, b0, bme + 1) :: after).
Proof.
  unfold fwd_search.
  destruct (nthN (block bs f (block_offset_at_file_offset fo bs)) (block_index_at_file_offset fo bs)); [|discriminate].
  destruct (match find_nl _ with Some d => _ | None => _ end) as [[found_b fo_nl_b0] bi_mid_end].
  destruct found_b.
  - intro H; inversion H; subst. reflexivity.
  - destruct (fwd_blocks fuel bs f (block_offset_at_file_offset fo bs + 1) (blockoffset_last (lenN f) bs) [] None)
      as [[e1 ps1]| | |] eqn:FB; try discriminate.
    intro H; inversion H; subst. destruct (fwd_blocks_bos _ _ _ _ _ _ _ _ _ FB) as (new & E & B).
    cbn [app] in E. subst after. unfold aligned. cbn [bos map length nseq part_bo fst]. unfold bos in B. rewrite B. reflexivity.
Qed.

(* the blocks of an aligned chain *)
Lemma aligned_bos bs ps lo hi : 0 < bs -> chain bs ps lo hi -> lo < hi -> aligned ps ->
  bos ps = nseq (lo / bs) (N.to_nat ((hi - 1) / bs + 1 - lo / bs)) /\ lo / bs <= (hi - 1) / bs.
Proof.
  intros H C L A.
  pose proof (chain_first_bo bs ps lo hi H C L) as F. pose proof (chain_last_bo bs ps lo hi H C L) as La.
  destruct ps as [|p r]; [cbn in C; lia|]. unfold aligned in A. cbn [line_bo_first] in F. injection F as F.
  unfold line_bo_last in La.
  assert (Hlast : last (bos (p :: r)) 0 = (hi - 1) / bs).
  { unfold bos. destruct (rev (p :: r)) as [|q t] eqn:ER; [discriminate|]. injection La as La.
    assert (p :: r = rev (q :: t)) as -> by (rewrite <- ER, rev_involutive; reflexivity).
    cbn [rev]. rewrite map_app. cbn [map]. rewrite last_last. exact La. }
  rewrite A in Hlast. rewrite F in *.
  assert (Hl : forall n s, last (nseq s (S n)) 0 = s + N.of_nat n).
  { induction n as [|n IH]; intros s; [cbn; lia|]. change (nseq s (S (S n))) with (s :: nseq (s + 1) (S n)).
    change (last (s :: nseq (s + 1) (S n)) 0) with (last (nseq (s + 1) (S n)) 0). rewrite IH. lia. }
  cbn [length] in *. rewrite Hl in Hlast. split; [|lia].
  rewrite A. f_equal. lia.
Qed.

(* ------------------------------------------------------------------ association lists *)
Lemma alookup_None_keys {V} k (m : list (N * V)) : alookup k m = None <-> ~ In k (map fst m).
Proof.
  induction m as [|[k' v] m IH]; cbn [alookup map fst In]; [tauto|].
  destruct (N.eqb_spec k k').
  - subst. split; [discriminate|]. intros H. exfalso. apply H. left. reflexivity.
  - rewrite IH. split.
    + intros H [E|X]; [congruence|exact (H X)].
    + intros H X. apply H. right. exact X.
Qed.

Lemma ainsert_keys_new {V} k (v : V) m : ~ In k (map fst m) ->
  (forall x, In x (map fst (ainsert k v m)) <-> x = k \/ In x (map fst m)) /\
  length (ainsert k v m) = S (length m) /\ (NoDup (map fst m) -> NoDup (map fst (ainsert k v m))).
Proof.
  induction m as [|[k' v'] m IH]; intros Hn; cbn [ainsert].
  - cbn. splits; auto; [intros x; intuition congruence|]. intros _. constructor; [intros []|constructor].
  - cbn [map fst In] in Hn. destruct (N.ltb_spec k k').
    + cbn [map fst In length]. splits; auto; [intros x; intuition congruence|]. intros Hd. constructor; auto.
    + destruct (N.eqb_spec k k'); [subst; exfalso; apply Hn; left; reflexivity|].
      destruct (IH ltac:(intros X; apply Hn; right; exact X)) as (A & B & C). cbn [map fst In length]. splits; auto.
      * intros x. rewrite A. intuition congruence.
      * intros Hd. inversion Hd; subst. constructor; auto. rewrite A. intros [E|X]; [congruence|auto].
Qed.

Lemma aremove_id {V} k (m : list (N * V)) : ~ In k (map fst m) -> aremove k m = m.
Proof.
  induction m as [|[a b] m IH]; intros Hn; cbn [aremove]; auto. cbn [map fst In] in Hn.
  destruct (N.eqb_spec k a); [subst; exfalso; apply Hn; left; reflexivity|]. rewrite IH; auto.
Qed.

Lemma aremove_keys {V} k (m : list (N * V)) : NoDup (map fst m) -> In k (map fst m) ->
  (forall x, In x (map fst (aremove k m)) <-> x <> k /\ In x (map fst m)) /\
  S (length (aremove k m)) = length m /\ NoDup (map fst (aremove k m)).
Proof.
  induction m as [|[k' v'] m IH]; intros Hd Hin; [destruct Hin|].
  cbn [map fst] in Hd. inversion Hd as [|? ? Hn Hd']; subst. cbn [aremove].
  destruct (N.eqb_spec k k').
  - subst k'. rewrite (aremove_id k m Hn). cbn [map fst In length]. splits; auto.
    intros x. split; [intros X; split; [intros ->; auto|right; exact X]|].
    intros [A [B|B]]; [congruence|exact B].
  - cbn [map fst In] in Hin. destruct Hin as [E|Hin]; [congruence|].
    destruct (IH Hd' Hin) as (A & B & C). cbn [map fst In length]. splits; auto.
    + intros x. rewrite A. intuition congruence.
    + constructor; auto. rewrite A. intros [_ X]. auto.
Qed.

Lemma afirst_ge_all_lt {V} k (m : list (N * V)) : (forall e v, In (e, v) m -> e < k) -> afirst_ge k m = None.
Proof.
  induction m as [|[k' v] m IH]; intros H; cbn [afirst_ge]; [reflexivity|].
  rewrite IH by (intros e w X; apply (H e w); right; exact X).
  pose proof (H k' v (or_introl eq_refl)). destruct (N.leb_spec k k'); [lia|reflexivity].
Qed.

(* LRU lists, element-wise *)
Lemma in_aremove' {V} (x : N * V) k m : In x (aremove k m) -> In x m /\ fst x <> k.
Proof.
  induction m as [|[k' v] m IH]; cbn [aremove]; [intros []|].
  destruct (N.eqb_spec k k').
  - intro H. destruct (IH H). split; [right|]; auto.
  - intros [<-|H]; [split; [left; reflexivity|cbn; congruence]|]. destruct (IH H). split; [right|]; auto.
Qed.

Lemma in_lru_put {V} cap k (v : V) c x : In x (lru_put cap k v c) -> x = (k, v) \/ (In x c /\ fst x <> k).
Proof.
  unfold lru_put. intro H.
  assert (forall n (l : list (N * V)), In x (firstn n l) -> In x l) as Hf.
  { induction n as [|n IH]; intros [|y l]; cbn; try tauto. intros [E|X]; auto. }
  apply Hf in H. destruct H as [<-|H]; [left; reflexivity|right; apply in_aremove'; exact H].
Qed.

Lemma lru_get_Some' {V} k c (v : V) c' : lru_get k c = (Some v, c') -> alookup k c = Some v /\ c' = (k, v) :: aremove k c.
Proof. unfold lru_get. destruct (alookup k c) as [x|] eqn:E; [|discriminate]. intro H; inversion H; subst. auto. Qed.

(* ------------------------------------------------------------------ the BlockReader of a plain file *)
Lemma nmem_In x l : nmem x l = true <-> In x l.
Proof.
  unfold nmem. rewrite existsb_exists. split.
  - intros (y & Hy & E). apply N.eqb_eq in E. subst. exact Hy.
  - intros H. exists x. split; auto. apply N.eqb_refl.
Qed.

Lemma nmem_false x l : nmem x l = false <-> ~ In x l.
Proof. rewrite <- nmem_In. destruct (nmem x l); split; intros; try discriminate; auto. exfalso; auto. Qed.

Record bgood (b : bstate) : Prop := {
  bg_plain : b_stream b = false;
  bg_drop : b_drop b = true;
  bg_lru : forall x, In x (b_lru b) -> In x (b_blocks b);
  bg_read : forall x, In x (b_blocks b) -> In x (b_read b);
  bg_nodup : NoDup (b_blocks b);
  bg_high : lenN (b_blocks b) <= bc_highest (b_cnt b) }.

Lemma bgood_init : bgood (b_init false).
Proof. constructor; cbn; auto; try (intros x H; exact H); try constructor. lia. Qed.

Lemma in_firstn {A} n (x : A) l : In x (firstn n l) -> In x l.
Proof. revert l. induction n as [|n IH]; intros [|y l]; cbn; try tauto. intros [E|H]; auto. Qed.

Lemma in_nrem x y l : In x (nrem y l) <-> In x l /\ x <> y.
Proof.
  unfold nrem. rewrite filter_In. split; intros [A B]; split; auto.
  - apply negb_true_iff, N.eqb_neq in B. exact B.
  - apply negb_true_iff, N.eqb_neq. exact B.
Qed.

Lemma b_read_plain refd filesz last b bo : bgood b -> bo <= last -> 0 < filesz ->
  exists b', b_read_block refd filesz last b bo = (b', BFound) /\ bgood b' /\
    (forall x, In x (b_blocks b') <-> x = bo \/ In x (b_blocks b)) /\
    (forall x, In x (b_read b') -> x = bo \/ In x (b_read b)) /\
    bc_highest (b_cnt b') = N.max (bc_highest (b_cnt b)) (lenN (b_blocks b')) /\
    bc_drop_ok (b_cnt b') = bc_drop_ok (b_cnt b).
Proof.
  intros [G1 G2 G3 G4 G5 G6] L F. unfold b_read_block. destruct (N.ltb_spec last bo); [lia|].
  destruct (nmem bo (b_lru b)) eqn:ML.
  { apply nmem_In in ML. eexists. split; [reflexivity|]. cbn [b_blocks b_read b_cnt bc_upd bc_highest e_lru_hit bc_drop_ok].
    splits.
    - constructor; cbn [b_cnt_up b_stream b_drop b_blocks b_read b_lru b_cnt bc_upd bc_highest bc_drop_ok e_hit e_miss e_lru_put e_lru_miss e_lru_hit e_reread]; auto. intros x [<-|X]; [apply G3; exact ML|]. apply in_nrem in X as [X _]. auto. lia.
    - intros x. split; [auto|]. intros [->|X]; auto.
    - auto.
    - lia.
    - lia. }
  destruct (N.eqb_spec filesz 0); [lia|].
  cbn [b_cnt_up b_read b_blocks b_stream b_lru b_drop b_dec b_cnt]. rewrite G1.
  assert (Hstore : forall st, b_stream st = false -> b_drop st = true -> b_blocks st = b_blocks b ->
            b_lru st = b_lru b -> (forall x, In x (b_read st) -> x = bo \/ In x (b_read b)) ->
            (forall x, In x (b_blocks b) -> In x (b_read st) \/ x = bo) ->
            bc_highest (b_cnt st) = bc_highest (b_cnt b) -> bc_drop_ok (b_cnt st) = bc_drop_ok (b_cnt b) ->
            bgood (b_store bo st) /\
            (forall x, In x (b_blocks (b_store bo st)) <-> x = bo \/ In x (b_blocks b)) /\
            (forall x, In x (b_read (b_store bo st)) -> x = bo \/ In x (b_read b)) /\
            bc_highest (b_cnt (b_store bo st)) = N.max (bc_highest (b_cnt b)) (lenN (b_blocks (b_store bo st))) /\
            bc_drop_ok (b_cnt (b_store bo st)) = bc_drop_ok (b_cnt b)).
  { intros st S1 S2 S3 S4 S5 S5' S6 S7. unfold b_store, b_lru_put.
    cbn [b_stream b_drop b_blocks b_read b_lru b_cnt bc_upd bc_highest bc_drop_ok e_stored e_lru_put].
    rewrite S3, S4, S6, S7. unfold nadd.
    assert (Hb : forall x, In x (if nmem bo (b_blocks b) then b_blocks b else bo :: b_blocks b) <-> x = bo \/ In x (b_blocks b)).
    { intros x. destruct (nmem bo (b_blocks b)) eqn:E; [apply nmem_In in E; split; [auto|intros [->|X]; auto]|].
      cbn [In]. intuition congruence. }
    splits.
    - constructor; cbn [b_stream b_drop b_blocks b_read b_lru b_cnt bc_upd bc_highest]; auto.
      + intros x X. apply in_firstn in X. apply Hb. destruct X as [<-|X]; auto. apply in_nrem in X as [X _]. right. auto.
      + intros x X. apply Hb in X. destruct (nmem bo (b_read st)) eqn:E.
        * destruct X as [->|X]; [apply nmem_In; exact E|]. destruct (S5' x X) as [Y| ->]; auto. apply nmem_In; exact E.
        * destruct X as [->|X]; [left; reflexivity|]. destruct (S5' x X) as [Y| ->]; [right; exact Y|left; reflexivity].
      + destruct (nmem bo (b_blocks b)) eqn:E; auto. constructor; auto. apply nmem_false. exact E.
      + cbn [bc_highest e_stored e_lru_put]. lia.
    - exact Hb.
    - intros x X. destruct (nmem bo (b_read st)); [apply S5; exact X|]. destruct X as [<-|X]; auto.
    - lia.
    - lia. }
  destruct (nmem bo (b_read b)) eqn:MR.
  - cbn [b_cnt_up b_blocks b_read]. destruct (nmem bo (b_blocks b)) eqn:MB.
    + apply nmem_In in MB. eexists. split; [reflexivity|]. unfold b_lru_put.
      cbn [b_blocks b_read b_cnt bc_upd bc_highest bc_drop_ok e_hit e_lru_put e_lru_miss b_stream b_drop b_lru].
      splits.
      * constructor; cbn [b_cnt_up b_stream b_drop b_blocks b_read b_lru b_cnt bc_upd bc_highest bc_drop_ok e_hit e_miss e_lru_put e_lru_miss e_lru_hit e_reread]; auto. intros x X. apply in_firstn in X. destruct X as [<-|X]; auto. apply in_nrem in X as [X _]. auto. lia.
      * intros x. split; [auto|]. intros [->|X]; auto.
      * auto.
      * cbn [b_cnt_up b_stream b_drop b_blocks b_read b_lru b_cnt bc_upd bc_highest bc_drop_ok e_hit e_miss e_lru_put e_lru_miss e_lru_hit e_reread]. lia.
      * cbn [b_cnt_up b_stream b_drop b_blocks b_read b_lru b_cnt bc_upd bc_highest bc_drop_ok e_hit e_miss e_lru_put e_lru_miss e_lru_hit e_reread]. lia.
    + eexists. split; [reflexivity|]. apply Hstore; cbn [b_cnt_up b_stream b_drop b_blocks b_read b_lru b_cnt bc_upd bc_highest bc_drop_ok e_hit e_miss e_lru_put e_lru_miss e_lru_hit e_reread]; auto.
      * intros x X. apply in_nrem in X as [X _]. auto.
      * intros x X. destruct (N.eq_dec x bo); auto. left. apply in_nrem. split; auto.
      * cbn [b_cnt_up b_stream b_drop b_blocks b_read b_lru b_cnt bc_upd bc_highest bc_drop_ok e_hit e_miss e_lru_put e_lru_miss e_lru_hit e_reread]. lia.
      * cbn [b_cnt_up b_stream b_drop b_blocks b_read b_lru b_cnt bc_upd bc_highest bc_drop_ok e_hit e_miss e_lru_put e_lru_miss e_lru_hit e_reread]. lia.
  - eexists. split; [reflexivity|]. apply Hstore; cbn [b_cnt_up b_stream b_drop b_blocks b_read b_lru b_cnt bc_upd bc_highest bc_drop_ok e_hit e_miss e_lru_put e_lru_miss e_lru_hit e_reread]; auto.
    + cbn [b_cnt_up b_stream b_drop b_blocks b_read b_lru b_cnt bc_upd bc_highest bc_drop_ok e_hit e_miss e_lru_put e_lru_miss e_lru_hit e_reread]. lia.
    + cbn [b_cnt_up b_stream b_drop b_blocks b_read b_lru b_cnt bc_upd bc_highest bc_drop_ok e_hit e_miss e_lru_put e_lru_miss e_lru_hit e_reread]. lia.
Qed.

Lemma lenN_NoDup_incl (a b : list N) : NoDup a -> (forall x, In x a -> In x b) -> lenN a <= lenN b.
Proof. intros H1 H2. unfold lenN. pose proof (NoDup_incl_length H1 H2). lia. Qed.

Section Reader.
Variable bs : N.
Variable f : file.
Hypothesis Hbs : 0 < bs.
Hypothesis Hf : 0 < lenN f.

Notation blast := (blockoffset_last (lenN f) bs).

(* everything but the BlockReader *)
Definition same_lr (L L' : lr_state) : Prop :=
  l_lines L' = l_lines L /\ l_foend L' = l_foend L /\ l_lru L' = l_lru L /\ l_on L' = l_on L /\
  l_nid L' = l_nid L /\ l_cnt L' = l_cnt L.

Lemma lr_reads_fwd_plain n : forall L lo b, bgood (l_blk L) -> b + N.of_nat n <= blast + 1 ->
  exists L', lr_reads_fwd n bs f L lo b = (L', BFound) /\ same_lr L L' /\ bgood (l_blk L') /\
    (forall x, In x (b_blocks (l_blk L')) <-> (b <= x /\ x < b + N.of_nat n) \/ In x (b_blocks (l_blk L))) /\
    (forall x, In x (b_read (l_blk L')) -> (b <= x /\ x < b + N.of_nat n) \/ In x (b_read (l_blk L))) /\
    bc_highest (b_cnt (l_blk L')) = N.max (bc_highest (b_cnt (l_blk L))) (lenN (b_blocks (l_blk L'))) /\
    bc_drop_ok (b_cnt (l_blk L')) = bc_drop_ok (b_cnt (l_blk L)).
Proof.
  induction n as [|n IH]; intros L lo b G Hb; cbn [lr_reads_fwd].
  - exists L. splits.
    + reflexivity.
    + unfold same_lr. repeat split.
    + exact G.
    + intros x. split; [auto|]. intros [X|X]; [lia|auto].
    + intros x X. right. exact X.
    + pose proof (bg_high _ G). lia.
    + reflexivity.
  - unfold lr_read.
    destruct (b_read_plain (lr_refd L (fun x => (lo <=? x) && (x <? b))) (lenN f) blast (l_blk L) b G ltac:(lia) Hf)
      as (b1 & E & G1 & B1 & R1 & H1 & D1).
    rewrite E.
    destruct (IH (lr_set_blk b1 L) lo (b + 1) G1 ltac:(cbn [lr_set_blk l_blk]; lia)) as (L' & E' & S' & G' & B' & R' & H' & D').
    exists L'. cbn [lr_set_blk l_blk] in *. splits.
    + exact E'.
    + destruct S' as (S1 & S2 & S3 & S4 & S5 & S6). unfold same_lr. cbn [lr_set_blk l_lines l_foend l_lru l_on l_nid l_cnt] in *. repeat split; assumption.
    + exact G'.
    + intros x. rewrite B', B1. split; [intros [X|[X|X]]; [left; lia|left; lia|right; exact X]|].
      intros [X|X]; [|right; right; exact X]. destruct (N.eq_dec x b); [right; left; auto|left; lia].
    + intros x X. apply R' in X as [X|X]; [left; lia|]. apply R1 in X as [X|X]; [left; lia|right; exact X].
    + rewrite H', H1.
      assert (lenN (b_blocks b1) <= lenN (b_blocks (l_blk L'))).
      { apply lenN_NoDup_incl; [apply (bg_nodup _ G1)|]. intros x X. apply B'. right. exact X. }
      lia.
    + congruence.
Qed.

(* ------------------------------------------------------------------ the LineReader while it streams forward *)
Definition lobj_ok (o : sline) (b e : N) : Prop := line_ok bs f (sl_parts o) b e /\ aligned (sl_parts o).

(* F = the frontier: every byte before F has been read, nothing at or after it *)
Record lgood (F : N) (L : lr_state) : Prop := {
  lg_inv : lr_inv0 bs f L;
  lg_on : l_on L = true;
  lg_blk : bgood (l_blk L);
  lg_keys : NoDup (map fst (l_lines L));
  lg_obj : forall k o, alookup k (l_lines L) = Some o -> sl_id o < l_nid L /\ aligned (sl_parts o) /\ k < F;
  lg_inj : forall k k' o o', alookup k (l_lines L) = Some o -> alookup k' (l_lines L) = Some o' ->
           sl_id o = sl_id o' -> k = k';
  lg_lru : forall k r, In (k, r) (l_lru L) -> exists n o, r = LF n o /\ alookup k (l_lines L) = Some o;
  lg_foend : forall e b, In (e, b) (l_foend L) -> e < F;
  lg_F : F <= lenN f;
  lg_high : lenN (l_lines L) <= lc_highest (l_cnt L)
}.

Lemma stored_span F L k o : lgood F L -> alookup k (l_lines L) = Some o ->
  exists e, line_ok bs f (sl_parts o) k e /\ k <= e /\ e < lenN f.
Proof.
  intros G A. destruct (li0_lines bs f L (lg_inv _ _ G) _ _ A) as (e & S). exists e. split; [exact S|].
  destruct S as [(S1 & S2 & _) _]. auto.
Qed.

Lemma line_ok_unique ps b e b' e' : line_ok bs f ps b e -> line_ok bs f ps b' e' -> b = b' /\ e = e'.
Proof.
  intros A B. destruct (line_ok_facts bs f _ _ _ A) as (A1 & A2 & _).
  destruct (line_ok_facts bs f _ _ _ B) as (B1 & B2 & _). split; congruence.
Qed.

(* the counters of interest and the stores the LRU bookkeeping does not touch *)
Definition lr_quiet (L L' : lr_state) : Prop :=
  l_lines L' = l_lines L /\ l_foend L' = l_foend L /\ l_nid L' = l_nid L /\ l_blk L' = l_blk L /\
  l_on L' = l_on L /\
  lc_highest (l_cnt L') = lc_highest (l_cnt L) /\ lc_drop_ok (l_cnt L') = lc_drop_ok (l_cnt L) /\
  lc_drop_err (l_cnt L') = lc_drop_err (l_cnt L).

Lemma lgood_quiet F L L' : lgood F L -> lr_quiet L L' -> lr_inv0 bs f L' ->
  (forall k r, In (k, r) (l_lru L') -> exists n o, r = LF n o /\ alookup k (l_lines L) = Some o) ->
  lgood F L'.
Proof.
  intros [G1 G2 G3 G4 G5 G6 G7 G8 G9 G10] (Q1 & Q2 & Q3 & Q4 & Q5 & Q6 & _) I Hl.
  constructor; rewrite ?Q1, ?Q2, ?Q3, ?Q4, ?Q5, ?Q6; auto.
Qed.

(* (H) the line is stored: answered from the LRU cache or from `lines`; nothing is read *)
Lemma find_line_hit F L b e o : lgood F L -> alookup b (l_lines L) = Some o -> line_ok bs f (sl_parts o) b e ->
  exists L' p, c_find_line bs f L b = (L', Found (e + 1, o), p) /\ lr_quiet L L' /\ lgood F L'.
Proof.
  intros G A S. pose proof G as [G1 G2 G3 G4 G5 G6 G7 G8 G9 G10].
  assert (Hlt : b < lenN f) by (destruct S as [(S1 & S2 & _) _]; lia).
  destruct (line_ok_facts bs f _ _ _ S) as (LB & LE & _).
  unfold c_find_line, lr_check_lru. rewrite G2.
  destruct (lru_get b (l_lru L)) as [[r|] c] eqn:Eg.
  - (* LRU hit *)
    pose proof (lru_get_Some' _ _ _ _ Eg) as (_ & Ec). apply lru_get_Some in Eg as [Eg1 Eg2].
    destruct (G7 _ _ (alookup_In _ _ _ Eg1)) as (n & o' & -> & A'). rewrite A in A'. injection A' as <-.
    pose proof (li0_lru bs f L G1 _ _ Eg1) as (b0 & e0 & S0 & B1 & B2 & En). cbn [lres_entry_ok] in *.
    destruct (line_ok_unique _ _ _ _ _ S S0) as (<- & <-). subst n.
    eexists _, PLru. split; [reflexivity|]. split; [unfold lr_quiet; cbn; repeat split|].
    apply (lgood_quiet F L _ G).
    + unfold lr_quiet. cbn. repeat split.
    + apply lr_inv0_cnt, lr_inv0_set_lru; auto. intros k x X. apply Eg2 in X. eapply li0_lru; eauto.
    + cbn [lr_cnt lr_set_lru l_lru]. intros k x X. rewrite Ec in X. destruct X as [X|X]; [injection X as <- <-; eauto|].
      apply in_aremove' in X as [X _]. eauto.
  - apply lru_get_None in Eg as [Eg1 ->].
    destruct (N.eqb_spec (lenN f) 0); [lia|]. destruct (N.ltb_spec (lenN f) b); [lia|]. destruct (N.eqb_spec b (lenN f)); [lia|].
    cbn [orb]. unfold lr_check_store. cbn [lr_cnt l_lines]. rewrite A. unfold lr_answer. rewrite LE.
    eexists _, PLines. split; [reflexivity|]. unfold lr_put. cbn [lr_cnt l_on]. rewrite G2.
    split; [unfold lr_quiet; cbn; repeat split|].
    apply (lgood_quiet F L _ G).
    + unfold lr_quiet. cbn. repeat split.
    + repeat apply lr_inv0_cnt. apply lr_inv0_set_lru; [repeat apply lr_inv0_cnt; exact G1|].
      intros k x X. cbn [lr_cnt l_lru] in X. apply lru_put_lookup in X as [[-> ->]|[_ X]]; [|eapply li0_lru; eauto].
      exists b, e. split; [exact S|]. assert (b <= e) by (destruct S as [(S1 & _) _]; exact S1). repeat split; lia.
    + cbn [lr_cnt lr_set_lru l_lru]. intros k x X. apply in_lru_put in X as [X|[X _]]; [injection X as -> ->; eauto|eauto].
Qed.

(* (E) at the end of the file: Done, nothing changes *)
Lemma find_line_eof F L : lgood F L ->
  exists L' p, c_find_line bs f L (lenN f) = (L', Done, p) /\ lr_quiet L L' /\ l_lru L' = l_lru L /\ lgood F L'.
Proof.
  intros G. pose proof G as [G1 G2 G3 G4 G5 G6 G7 G8 G9 G10].
  unfold c_find_line, lr_check_lru. rewrite G2.
  destruct (lru_get (lenN f) (l_lru L)) as [[r|] c] eqn:Eg.
  - apply lru_get_Some in Eg as [Eg1 _]. destruct (G7 _ _ (alookup_In _ _ _ Eg1)) as (n & o & _ & A).
    destruct (G5 _ _ A) as (_ & _ & X). lia.
  - apply lru_get_None in Eg as [_ ->].
    replace ((lenN f =? 0) || (lenN f <? lenN f) || (lenN f =? lenN f)) with true
      by (rewrite N.eqb_refl, orb_true_r; reflexivity).
    eexists _, PEof. split; [reflexivity|]. split; [unfold lr_quiet; cbn; repeat split|]. split; [reflexivity|].
    apply (lgood_quiet F L _ G).
    + unfold lr_quiet. cbn. repeat split.
    + apply lr_inv0_cnt. exact G1.
    + cbn [lr_cnt l_lru]. exact G7.
Qed.

(* (M) the line that begins at the frontier: found by the forward half of the search (the line before
   it is stored, or it is the first line of the file), stored, its blocks read *)
Lemma find_line_fresh F L e : lgood F L -> span f F e ->
  (F = 0 \/ exists bp op, alookup bp (l_lines L) = Some op /\ span f bp (F - 1)) ->
  exists L' ps p, c_find_line bs f L F = (L', Found (e + 1, (l_nid L, ps)), p) /\
    l_lines L' = ainsert F (l_nid L, ps) (l_lines L) /\ lobj_ok (l_nid L, ps) F e /\
    l_nid L' = l_nid L + 1 /\
    lc_highest (l_cnt L') = N.max (lc_highest (l_cnt L)) (lenN (l_lines L')) /\
    lc_drop_ok (l_cnt L') = lc_drop_ok (l_cnt L) /\ lc_drop_err (l_cnt L') = lc_drop_err (l_cnt L) /\
    (forall x, In x (b_blocks (l_blk L')) <-> (F / bs <= x /\ x <= e / bs) \/ In x (b_blocks (l_blk L))) /\
    bc_highest (b_cnt (l_blk L')) = N.max (bc_highest (b_cnt (l_blk L))) (lenN (b_blocks (l_blk L'))) /\
    bc_drop_ok (b_cnt (l_blk L')) = bc_drop_ok (b_cnt (l_blk L)) /\
    lgood (e + 1) L'.
Proof.
  intros G SP Hprev. pose proof G as [G1 G2 G3 G4 G5 G6 G7 G8 G9 G10].
  destruct (c_find_line bs f L F) as [[L' r] p] eqn:EC.
  pose proof (c_find_line_ok0 bs f Hbs L F L' r p G1 EC) as (I' & _ & _).
  revert EC.
  assert (HFlt : F < lenN f) by (destruct SP as (S1 & S2 & _); lia).
  destruct (span_in f F e F SP ltac:(lia) ltac:(destruct SP; lia)) as [HLB HLE].
  assert (Hnokey : alookup F (l_lines L) = None).
  { destruct (alookup F (l_lines L)) as [o|] eqn:A; auto. destruct (G5 _ _ A) as (_ & _ & X). lia. }
  unfold c_find_line, lr_check_lru. rewrite G2.
  destruct (lru_get F (l_lru L)) as [[r0|] c] eqn:Eg.
  { apply lru_get_Some in Eg as [Eg1 _]. destruct (G7 _ _ (alookup_In _ _ _ Eg1)) as (n & o & _ & A). congruence. }
  apply lru_get_None in Eg as [_ ->].
  destruct (N.eqb_spec (lenN f) 0); [lia|]. destruct (N.ltb_spec (lenN f) F); [lia|]. destruct (N.eqb_spec F (lenN f)); [lia|].
  cbn [orb]. unfold lr_check_store. cbn [lr_cnt l_lines]. rewrite Hnokey.
  assert (Hnolinep : forall g, lr_get_linep (lr_cnt g (lr_cnt lc_lru_miss_up L)) F = None).
  { intros g. unfold lr_get_linep. cbn [lr_cnt l_foend]. rewrite afirst_ge_all_lt; [reflexivity|]. intros e0 v X. eapply G8; eauto. }
  rewrite Hnolinep.
  destruct (fwd_search_ok bs f F (S (length f)) Hbs HFlt (fuel_ok bs f Hbs Hf))
    as (e' & after & bme & EF & HE & Hb1 & Hb2 & _ & Hchain & _). cbv zeta in *.
  rewrite EF.
  apply line_end_char in HE. rewrite HLE in HE. subst e'.
  set (bo := block_offset_at_file_offset F bs) in *. set (bi := block_index_at_file_offset F bs) in *.
  specialize (Hchain bi ltac:(lia)).
  assert (HF : bo * bs + bi = F) by (destruct (div_mod_bs F bs Hbs) as [EQ _]; unfold bo, bi, block_offset_at_file_offset; lia).
  rewrite HF in Hchain.
  set (mid := (bo, bi, bme + 1) :: after) in *.
  assert (Hok : line_ok bs f mid F e) by (split; assumption).
  assert (Hal : aligned mid) by (unfold mid, bo; eapply fwd_search_aligned; eauto).
  destruct (line_ok_facts bs f _ _ _ Hok) as (LB & LE & _).
  set (L1 := lr_cnt lc_miss_up (lr_cnt lc_lru_miss_up L)).
  assert (G1' : bgood (l_blk L1)) by exact G3.
  destruct (lr_reads_fwd_plain (S (N.to_nat (block_offset_at_file_offset e bs - bo))) L1 bo bo G1'
              (bfwd_range bs f Hbs F e ltac:(destruct SP; lia) ltac:(destruct SP as (_ & X & _); exact X)))
    as (L2 & ER & (S1 & S2 & S3 & S4 & S5 & S6) & G2' & B2 & _ & H2 & D2).
  rewrite ER.
  (* the store *)
  assert (Hstore : forall X pth, l_lines X = l_lines L -> l_foend X = l_foend L -> l_lru X = l_lru L -> l_on X = true ->
            l_nid X = l_nid L -> l_blk X = l_blk L2 ->
            lc_highest (l_cnt X) = lc_highest (l_cnt L) -> lc_drop_ok (l_cnt X) = lc_drop_ok (l_cnt L) ->
            lc_drop_err (l_cnt X) = lc_drop_err (l_cnt L) ->
            lr_store_found bs X F (e + 1) mid pth = (L', r, p) ->
            r = Found (e + 1, (l_nid L, mid)) /\ l_lines L' = ainsert F (l_nid L, mid) (l_lines L) /\
            l_foend L' = ainsert e F (l_foend L) /\ l_nid L' = l_nid L + 1 /\ l_blk L' = l_blk L2 /\ l_on L' = true /\
            l_lru L' = lru_put LINE_LRU_CAP F (LF (e + 1) (l_nid L, mid)) (l_lru L) /\
            lc_highest (l_cnt L') = N.max (lc_highest (l_cnt L)) (lenN (ainsert F (l_nid L, mid) (l_lines L))) /\
            lc_drop_ok (l_cnt L') = lc_drop_ok (l_cnt L) /\ lc_drop_err (l_cnt L') = lc_drop_err (l_cnt L)).
  { intros X pth X1 X2 X3 X4 X5 X6 X7 X8 X9. unfold lr_store_found, lr_insert_line. rewrite LB, LE.
    unfold lr_put. cbn [l_on]. rewrite X4. intro HH; injection HH as <- <- <-.
    cbn [lr_cnt lr_set_lru l_lines l_foend l_nid l_blk l_on l_lru l_cnt lc_inserted lc_lru_put_up lc_highest lc_drop_ok lc_drop_err].
    rewrite X1, X2, X3, X5, X6, X7, X8, X9. repeat split; reflexivity. }
  assert (Hfin : forall X pth, l_lines X = l_lines L -> l_foend X = l_foend L -> l_lru X = l_lru L -> l_on X = true ->
            l_nid X = l_nid L -> l_blk X = l_blk L2 ->
            lc_highest (l_cnt X) = lc_highest (l_cnt L) -> lc_drop_ok (l_cnt X) = lc_drop_ok (l_cnt L) ->
            lc_drop_err (l_cnt X) = lc_drop_err (l_cnt L) ->
            lr_store_found bs X F (e + 1) mid pth = (L', r, p) ->
            exists (L'0 : lr_state) (ps : line) (p0 : lpath),
              (L', r, p) = (L'0, Found (e + 1, (l_nid L, ps)), p0) /\
              l_lines L'0 = ainsert F (l_nid L, ps) (l_lines L) /\ lobj_ok (l_nid L, ps) F e /\
              l_nid L'0 = l_nid L + 1 /\
              lc_highest (l_cnt L'0) = N.max (lc_highest (l_cnt L)) (lenN (l_lines L'0)) /\
              lc_drop_ok (l_cnt L'0) = lc_drop_ok (l_cnt L) /\ lc_drop_err (l_cnt L'0) = lc_drop_err (l_cnt L) /\
              (forall x, In x (b_blocks (l_blk L'0)) <-> (F / bs <= x /\ x <= e / bs) \/ In x (b_blocks (l_blk L))) /\
              bc_highest (b_cnt (l_blk L'0)) = N.max (bc_highest (b_cnt (l_blk L))) (lenN (b_blocks (l_blk L'0))) /\
              bc_drop_ok (b_cnt (l_blk L'0)) = bc_drop_ok (b_cnt (l_blk L)) /\ lgood (e + 1) L'0).
  { intros X pth X1 X2 X3 X4 X5 X6 X7 X8 X9 ES.
    destruct (Hstore X pth X1 X2 X3 X4 X5 X6 X7 X8 X9 ES) as (-> & T1 & T2 & T3 & T4 & T5 & T6 & T7 & T8 & T9).
    assert (HFe : F <= e) by (destruct SP as (Y & _); exact Y).
    assert (Hnew : ~ In F (map fst (l_lines L))) by (apply alookup_None_keys; exact Hnokey).
    destruct (ainsert_keys_new F (l_nid L, mid) (l_lines L) Hnew) as (K1 & K2 & K3).
    exists L', mid, p. splits; auto.
    - split; assumption.
    - rewrite T1. exact T7.
    - intros x. rewrite T4, B2. unfold bo, block_offset_at_file_offset in *.
      assert (F / bs <= e / bs) by (apply N.div_le_mono; [lia|destruct SP; lia]).
      rewrite Nat2N.inj_succ, N2Nat.id. split; (intros [Y|Y]; [left; lia|right; exact Y]).
    - rewrite T4. exact H2.
    - rewrite T4. exact D2.
    - constructor; auto.
      + rewrite T4. exact G2'.
      + rewrite T1. apply K3. exact G4.
      + intros k o. rewrite T1, T3, alookup_ainsert. destruct (N.eqb_spec k F).
        * intro Y; injection Y as <-. cbn [sl_id fst sl_parts snd]. subst k. splits; auto; lia.
        * intro Y. destruct (G5 _ _ Y) as (Y1 & Y2 & Y3). splits; auto; lia.
      + intros k k' o o'. rewrite T1, !alookup_ainsert.
        destruct (N.eqb_spec k F), (N.eqb_spec k' F); try congruence.
        * intro Y; injection Y as <-. intros Y' E. destruct (G5 _ _ Y') as (Y1 & _). cbn [sl_id fst] in E. lia.
        * intros Y' Y E. injection Y as <-. destruct (G5 _ _ Y') as (Y1 & _). cbn [sl_id fst] in E. lia.
        * apply G6.
      + intros k x. rewrite T6, T1. intro Y. apply in_lru_put in Y as [Y|[Y Yn]].
        * injection Y as -> ->. eexists _, _. split; [reflexivity|]. rewrite alookup_ainsert, N.eqb_refl. reflexivity.
        * cbn [fst] in Yn. destruct (G7 _ _ Y) as (nn & oo & -> & A0). eexists _, _. split; [reflexivity|].
          rewrite alookup_ainsert. destruct (N.eqb_spec k F); [congruence|exact A0].
      + intros e0 b0. rewrite T2. intro Y. apply In_ainsert in Y as [Y|Y]; [injection Y as -> ->; lia|].
        apply G8 in Y. lia.
      + destruct SP as (_ & SP2 & _). lia.
      + rewrite T7, T1. apply N.le_max_r. }
  destruct (N.eqb_spec F 0) as [E0|E0].
  - intro ES.
    replace (block_offset_at_file_offset 0 bs) with bo in ES by (unfold bo; rewrite E0; reflexivity).
    replace (block_index_at_file_offset 0 bs) with bi in ES by (unfold bi; rewrite E0; reflexivity).
    fold mid in ES. apply (Hfin L2 PA0); auto; try congruence; try (rewrite S6; reflexivity).
    rewrite S4. exact G2.
  - destruct (alookup (F - 1) (l_lines L2)) eqn:Ep.
    + intro ES. apply (Hfin (lr_cnt lc_hits_up L2) PA1a); auto; cbn [lr_cnt l_lines l_foend l_lru l_on l_nid l_blk l_cnt lc_hits_up lc_highest lc_drop_ok lc_drop_err]; try congruence.
      * rewrite S4. exact G2.
      * rewrite S6. reflexivity.
      * rewrite S6. reflexivity.
      * rewrite S6. reflexivity.
    + destruct (lr_get_linep (lr_cnt lc_miss_up L2) (F - 1)) eqn:Eq.
      * intro ES. apply (Hfin (lr_cnt lc_miss_up L2) PA1b); auto; cbn [lr_cnt l_lines l_foend l_lru l_on l_nid l_blk l_cnt lc_miss_up lc_highest lc_drop_ok lc_drop_err]; try congruence.
        -- rewrite S4. exact G2.
        -- rewrite S6. reflexivity.
        -- rewrite S6. reflexivity.
        -- rewrite S6. reflexivity.
      * exfalso. destruct Hprev as [->|(bp & op & Ap & SPp)]; [lia|].
        assert (I2 : lr_inv0 bs f (lr_cnt lc_miss_up L2)).
        { apply lr_inv0_cnt. eapply lr_inv0_maps; [exact S1|exact S2|exact S3|]. repeat apply lr_inv0_cnt. exact G1. }
        destruct (get_linep_complete0 bs f Hbs (lr_cnt lc_miss_up L2) (F - 1) bp (F - 1) op I2) as [Y|Y].
        -- cbn [lr_cnt l_lines]. rewrite S1. exact Ap.
        -- exact SPp.
        -- destruct SPp as (Y & _). exact Y.
        -- lia.
        -- cbn [lr_cnt l_lines] in Y. congruence.
        -- congruence.
Qed.

(* ------------------------------------------------------------------ the SyslineReader while it streams forward *)
Variable dated : list N -> option Z.

(* F = frontier of the lines read, MF = offset of the next message to find *)
Record sgood (F MF : N) (C : sr_state) : Prop := {
  sg_l : lgood F (s_lr C);
  sg_on : s_on C = true;
  sg_pon : s_parse_on C = true;
  sg_keys : NoDup (map fst (s_syslines C));
  sg_obj : forall k s, alookup k (s_syslines C) = Some s -> ss_id s < s_nid C /\ k < MF /\ ss_begin bs s = Some k;
  sg_inj : forall k k' s s', alookup k (s_syslines C) = Some s -> alookup k' (s_syslines C) = Some s' ->
           ss_id s = ss_id s' -> k = k';
  sg_lru : forall k r, In (k, r) (s_lru C) -> exists n s, r = SF n s /\ alookup k (s_syslines C) = Some s;
  sg_range : forall x, MF <= x -> range_get (s_range C) x = None;
  sg_parse : forall k z, alookup k (s_parse C) = Some z -> exists e, span f k e /\ dated (slice f k (e + 1)) = Some z;
  sg_MF : MF <= F
}.

(* what the sysline-level bookkeeping leaves alone *)
Definition sr_quiet (C C' : sr_state) : Prop :=
  s_syslines C' = s_syslines C /\ s_range C' = s_range C /\ s_lru C' = s_lru C /\ s_on C' = s_on C /\
  s_parse_on C' = s_parse_on C /\ s_nid C' = s_nid C /\
  sc_highest (s_cnt C') = sc_highest (s_cnt C) /\ sc_drop_ok (s_cnt C') = sc_drop_ok (s_cnt C) /\
  sc_drop_err (s_cnt C') = sc_drop_err (s_cnt C).

Lemma sr_quiet_refl C : sr_quiet C C.
Proof. unfold sr_quiet. repeat split. Qed.

Lemma sr_quiet_trans A B C : sr_quiet A B -> sr_quiet B C -> sr_quiet A C.
Proof.
  intros (A1 & A2 & A3 & A4 & A5 & A6 & A7 & A8 & A9) (B1 & B2 & B3 & B4 & B5 & B6 & B7 & B8 & B9).
  unfold sr_quiet. repeat split; congruence.
Qed.

Lemma sgood_quiet F MF F' C C' : sgood F MF C -> sr_quiet C C' -> lgood F' (s_lr C') -> F <= F' ->
  (forall k z, alookup k (s_parse C') = Some z -> exists e, span f k e /\ dated (slice f k (e + 1)) = Some z) ->
  sgood F' MF C'.
Proof.
  intros [G1 G2 G3 G4 G5 G6 G7 G8 G9 G10] (Q1 & Q2 & Q3 & Q4 & Q5 & Q6 & _) HL HF HP.
  constructor; rewrite ?Q1, ?Q2, ?Q3, ?Q4, ?Q5, ?Q6; auto. lia.
Qed.

(* parse_datetime_in_line_cached on a stored line *)
Lemma sr_parse_effect F MF C o b e : sgood F MF C -> line_ok bs f (sl_parts o) b e ->
  exists C', sr_parse dated bs f C o = (C', dated (slice f b (e + 1))) /\ sr_quiet C C' /\ s_lr C' = s_lr C /\
             sgood F MF C'.
Proof.
  intros G S. pose proof G as [G1 G2 G3 G4 G5 G6 G7 G8 G9 G10].
  destruct (line_ok_facts bs f _ _ _ S) as (LB & _ & BY & _).
  unfold sr_parse. rewrite G3, LB, BY.
  assert (Hq : forall c d, sr_quiet C (sr_cnt d (sr_set_parse c C)) \/ True) by (intros; right; exact I).
  destruct (lru_get b (s_parse C)) as [[z|] c] eqn:Eg.
  - apply lru_get_Some in Eg as [Eg1 Eg2]. destruct (G9 _ _ Eg1) as (e' & SP' & D').
    destruct S as [SP _]. rewrite (span_unique_e f b e' e SP' SP) in D'. rewrite D'.
    eexists. split; [reflexivity|].
    assert (Q : sr_quiet C (sr_cnt d_parse_hit (sr_set_parse c C))) by (unfold sr_quiet; cbn; repeat split; lia).
    split; [exact Q|]. split; [reflexivity|].
    apply (sgood_quiet F MF F C _ G Q).
    + exact G1.
    + lia.
    + cbn [sr_cnt sr_set_parse s_parse]. intros k x X. apply Eg2 in X. eauto.
  - apply lru_get_None in Eg as [Eg1 ->].
    destruct (dated (slice f b (e + 1))) as [z|] eqn:D.
    + eexists. split; [reflexivity|].
      assert (Q : sr_quiet C (sr_set_parse (lru_put PARSE_LRU_CAP b z (s_parse (sr_cnt d_parse_miss C))) (sr_cnt d_parse_miss C)))
        by (unfold sr_quiet; cbn; repeat split; lia).
      split; [exact Q|]. split; [reflexivity|].
      apply (sgood_quiet F MF F C _ G Q).
      * exact G1.
      * lia.
      * cbn [sr_cnt sr_set_parse s_parse]. intros k x X. apply lru_put_lookup in X as [[-> ->]|[_ X]]; eauto.
        exists e. destruct S as [SP _]. auto.
    + eexists. split; [reflexivity|].
      assert (Q : sr_quiet C (sr_cnt d_parse_miss C)) by (unfold sr_quiet; cbn; repeat split; lia).
      split; [exact Q|]. split; [reflexivity|].
      apply (sgood_quiet F MF F C _ G Q); [exact G1|lia|exact G9].
Qed.

Lemma lgood_set_ext F L x : lgood F L -> lgood F (lr_set_ext x L).
Proof. intros [G1 G2 G3 G4 G5 G6 G7 G8 G9 G10]. constructor; auto. destruct G1. split; auto. Qed.

(* ---- what finding the lines `sp` (spans, in file order) does to the LineReader: objs are the objects *)
Record grew (L L' : lr_state) (sp : list (N * N)) (objs : list sline) : Prop := {
  gw_old : forall k o, alookup k (l_lines L) = Some o -> alookup k (l_lines L') = Some o;
  gw_new : Forall2 (fun o be => alookup (fst be) (l_lines L') = Some o /\ lobj_ok o (fst be) (snd be)) objs sp;
  gw_keys : forall x, In x (map fst (l_lines L')) <-> In x (map fst (l_lines L)) \/ In x (map fst sp);
  gw_len : length (l_lines L') = (length (l_lines L) + length sp)%nat;
  gw_hl : lc_highest (l_cnt L') = N.max (lc_highest (l_cnt L)) (lenN (l_lines L'));
  gw_dl : lc_drop_ok (l_cnt L') = lc_drop_ok (l_cnt L) /\ lc_drop_err (l_cnt L') = lc_drop_err (l_cnt L);
  gw_blocks : forall x, In x (b_blocks (l_blk L')) <->
                        In x (b_blocks (l_blk L)) \/ exists be, In be sp /\ fst be / bs <= x /\ x <= snd be / bs;
  gw_hb : bc_highest (b_cnt (l_blk L')) = N.max (bc_highest (b_cnt (l_blk L))) (lenN (b_blocks (l_blk L')));
  gw_db : bc_drop_ok (b_cnt (l_blk L')) = bc_drop_ok (b_cnt (l_blk L))
}.

Lemma Forall2_imp {A B} (P Q : A -> B -> Prop) la lb : (forall a b, P a b -> Q a b) -> Forall2 P la lb -> Forall2 Q la lb.
Proof. intros H. induction 1; constructor; auto. Qed.

Lemma Forall2_len {A B} (P : A -> B -> Prop) la lb : Forall2 P la lb -> length la = length lb.
Proof. induction 1; cbn; auto. Qed.

Lemma grew_refl F L L' : lgood F L -> lr_quiet L L' -> grew L L' [] [].
Proof.
  intros G (Q1 & Q2 & Q3 & Q4 & Q5 & Q6 & Q7 & Q8).
  constructor; rewrite ?Q1, ?Q4, ?Q6, ?Q7, ?Q8.
  - auto.
  - constructor.
  - intros x. cbn. tauto.
  - cbn. lia.
  - pose proof (lg_high _ _ G). lia.
  - auto.
  - intros x. split; [auto|]. intros [X|(be & [] & _)]. exact X.
  - pose proof (bg_high _ (lg_blk _ _ G)). lia.
  - reflexivity.
Qed.

Lemma grew_trans F' A B C s1 o1 s2 o2 : lgood F' B -> grew A B s1 o1 -> grew B C s2 o2 -> grew A C (s1 ++ s2) (o1 ++ o2).
Proof.
  intros GB [A1 A2 A3 A4 A5 (A6 & A6') A7 A8 A9] [B1 B2 B3 B4 B5 (B6 & B6') B7 B8 B9].
  constructor; auto.
  - apply Forall2_app; [|exact B2]. eapply Forall2_imp; [|exact A2]. intros o be (X & Y). split; auto.
  - intros x. rewrite B3, A3, map_app, in_app_iff. tauto.
  - rewrite B4, A4, app_length. lia.
  - rewrite B5, A5. assert (lenN (l_lines B) <= lenN (l_lines C)) by (unfold lenN; rewrite B4; lia). lia.
  - split; congruence.
  - intros x. rewrite B7, A7. split.
    + intros [[X|(be & I1 & I2)]|(be & I1 & I2)]; auto; right; exists be; (split; [apply in_or_app; auto|exact I2]).
    + intros [X|(be & I1 & I2)]; auto. apply in_app_or in I1 as [I1|I1]; [left; right|right]; exists be; auto.
  - rewrite B8, A8.
    assert (lenN (b_blocks (l_blk B)) <= lenN (b_blocks (l_blk C))).
    { apply lenN_NoDup_incl; [apply (bg_nodup _ (lg_blk _ _ GB))|]. intros x X. apply B7. left. exact X. }
    lia.
  - congruence.
Qed.

(* one line found at the frontier, through the SyslineReader *)
Lemma sr_find_fresh F MF C acc e : sgood F MF C -> span f F e ->
  (F = 0 \/ exists bp op, alookup bp (l_lines (s_lr C)) = Some op /\ span f bp (F - 1)) ->
  exists C' o, sr_find_line bs f C acc F = (C', Found (e + 1, o)) /\ sr_quiet C C' /\ s_parse C' = s_parse C /\
    grew (s_lr C) (s_lr C') [(F, e)] [o] /\ sgood (e + 1) MF C'.
Proof.
  intros G SP Hp. pose proof G as [G1 G2 G3 G4 G5 G6 G7 G8 G9 G10].
  unfold sr_find_line.
  destruct (find_line_fresh F (lr_set_ext (sr_held C acc) (s_lr C)) e (lgood_set_ext _ _ _ G1) SP Hp)
    as (L' & ps & p & E & T1 & T2 & T3 & T4 & T5 & T6 & T7 & T8 & T9 & T10).
  rewrite E. exists (sr_set_lr L' C), (l_nid (s_lr C), ps). cbn [lr_set_ext l_lines l_nid l_cnt l_blk] in *.
  assert (Q : sr_quiet C (sr_set_lr L' C)) by (unfold sr_quiet; cbn; repeat split).
  assert (Hnew : ~ In F (map fst (l_lines (s_lr C)))).
  { apply alookup_None_keys. destruct (alookup F (l_lines (s_lr C))) as [o|] eqn:A; auto.
    destruct (lg_obj _ _ G1 _ _ A) as (_ & _ & X). lia. }
  destruct (ainsert_keys_new F (l_nid (s_lr C), ps) (l_lines (s_lr C)) Hnew) as (K1 & K2 & K3).
  splits; auto.
  - constructor; cbn [sr_set_lr s_lr].
    + intros k o A. rewrite T1, alookup_ainsert. destruct (N.eqb_spec k F); [|exact A].
      subst k. exfalso. apply Hnew. pose proof (alookup_In _ _ _ A) as Hin. apply (in_map fst) in Hin. exact Hin.
    + constructor; [|constructor]. cbn [fst snd]. split; [|exact T2]. rewrite T1, alookup_ainsert, N.eqb_refl. reflexivity.
    + intros x. rewrite T1. etransitivity; [apply K1|]. cbn [map fst In]. intuition congruence.
    + rewrite T1. etransitivity; [exact K2|]. cbn [length]. rewrite Nat.add_1_r. reflexivity.
    + exact T4.
    + split; assumption.
    + intros x. rewrite T7. split.
      * intros [X|X]; [right; exists (F, e); cbn; auto|left; exact X].
      * intros [X|(be & [<-|[]] & X)]; auto.
    + exact T8.
    + exact T9.
  - apply (sgood_quiet F MF (e + 1) C _ G Q); auto.
    + destruct SP as (X & _). lia.
Qed.

Lemma sr_find_hit F MF C acc b e o : sgood F MF C -> alookup b (l_lines (s_lr C)) = Some o ->
  line_ok bs f (sl_parts o) b e ->
  exists C', sr_find_line bs f C acc b = (C', Found (e + 1, o)) /\ sr_quiet C C' /\ s_parse C' = s_parse C /\
    grew (s_lr C) (s_lr C') [] [] /\ sgood F MF C'.
Proof.
  intros G A S. pose proof G as [G1 G2 G3 G4 G5 G6 G7 G8 G9 G10].
  unfold sr_find_line.
  destruct (find_line_hit F (lr_set_ext (sr_held C acc) (s_lr C)) b e o (lgood_set_ext _ _ _ G1) A S) as (L' & p & E & Q' & G').
  rewrite E. exists (sr_set_lr L' C).
  assert (Q : sr_quiet C (sr_set_lr L' C)) by (unfold sr_quiet; cbn; repeat split).
  splits; auto.
  - apply (grew_refl F (s_lr C)); auto.
  - apply (sgood_quiet F MF F C _ G Q); auto. lia.
Qed.

Lemma sr_find_eof F MF C acc : sgood F MF C ->
  exists C', sr_find_line bs f C acc (lenN f) = (C', Done) /\ sr_quiet C C' /\ s_parse C' = s_parse C /\
    grew (s_lr C) (s_lr C') [] [] /\ sgood F MF C'.
Proof.
  intros G. pose proof G as [G1 G2 G3 G4 G5 G6 G7 G8 G9 G10].
  unfold sr_find_line.
  destruct (find_line_eof F (lr_set_ext (sr_held C acc) (s_lr C)) (lgood_set_ext _ _ _ G1)) as (L' & p & E & Q' & _ & G').
  rewrite E. exists (sr_set_lr L' C).
  assert (Q : sr_quiet C (sr_set_lr L' C)) by (unfold sr_quiet; cbn; repeat split).
  splits; auto.
  - apply (grew_refl F (s_lr C)); auto.
  - apply (sgood_quiet F MF F C _ G Q); auto. lia.
Qed.

(* ---- loop B over the continuation lines of a message *)
Fixpoint consec (b : N) (sp : list (N * N)) (hi : N) : Prop :=
  match sp with
  | [] => b = hi
  | be :: r => fst be = b /\ span f (fst be) (snd be) /\ consec (snd be + 1) r hi
  end.
Definition undated_sp (sp : list (N * N)) : Prop :=
  Forall (fun be => dated (slice f (fst be) (snd be + 1)) = None) sp.
Definition prev_ok (C : sr_state) (F : N) : Prop :=
  F = 0 \/ exists bp op, alookup bp (l_lines (s_lr C)) = Some op /\ span f bp (F - 1).
(* what ends the message at hi: the end of the file, or a dated line *)
Definition term_sp (hi : N) (t : list (N * N)) (F' : N) : Prop :=
  (t = [] /\ hi = lenN f /\ F' = hi) \/
  (exists en z, t = [(hi, en)] /\ span f hi en /\ dated (slice f hi (en + 1)) = Some z /\ F' = en + 1).

Lemma prev_ok_grew C C' F sp objs b e : grew (s_lr C) (s_lr C') sp objs -> In (b, e) sp -> span f b e -> F = e + 1 ->
  prev_ok C' F.
Proof.
  intros G Hin SP ->. right. destruct (gw_new _ _ _ _ G) as [|]; [destruct Hin|].
  assert (exists o, alookup b (l_lines (s_lr C')) = Some o) as (o & A).
  { pose proof (gw_new _ _ _ _ G) as H2. clear - H2 Hin. induction H2 as [|o be objs sp (A & _) _ IH]; [destruct Hin|].
    destruct Hin as [->|Hin]; [exists o; exact A|auto]. }
  exists b, o. split; auto. replace (e + 1 - 1) with e by lia. exact SP.
Qed.

Lemma loop_b_effect MF body : forall C acc F hi fuel t F',
  sgood F MF C -> consec F body hi -> undated_sp body -> prev_ok C F -> (length body < fuel)%nat ->
  term_sp hi t F' ->
  exists C' objs tobj, c_loop_b dated fuel bs f C F acc = (C', Found (hi, acc ++ objs)) /\ sr_quiet C C' /\
    grew (s_lr C) (s_lr C') (body ++ t) (objs ++ tobj) /\ length objs = length body /\ sgood F' MF C'.
Proof.
  induction body as [|[b e] body IH]; intros C acc F hi fuel t F' G Hc Hu Hp Hfu Ht.
  - cbn [consec] in Hc. subst hi. destruct fuel as [|fuel]; [cbn in Hfu; lia|]. cbn [c_loop_b].
    destruct Ht as [(-> & E & ->)|(en & z & -> & SP & D & ->)].
    + subst F. destruct (sr_find_eof (lenN f) MF C acc G) as (C' & EF & Q & _ & GW & G'). rewrite EF.
      exists C', [], []. rewrite app_nil_r. splits; auto.
    + destruct (sr_find_fresh F MF C acc en G SP Hp) as (C1 & o & EF & Q1 & _ & GW1 & G1). rewrite EF.
      assert (S1 : line_ok bs f (sl_parts o) F en).
      { pose proof (gw_new _ _ _ _ GW1) as H2. inversion H2; subst. cbn [fst snd] in *. destruct H3 as (_ & (X & _)). exact X. }
      destruct (sr_parse_effect (en + 1) MF C1 o F en G1 S1) as (C2 & EP & Q2 & EL & G2). rewrite EP, D.
      exists C2, [], [o]. rewrite app_nil_r. cbn [app]. splits; auto.
      * eapply sr_quiet_trans; eauto.
      * rewrite EL. exact GW1.
  - cbn [consec fst snd] in Hc. destruct Hc as (<- & SP & Hc).
    apply Forall_cons_iff in Hu as [Hu0 Hu]. cbn [fst snd] in Hu0.
    destruct fuel as [|fuel]; [cbn in Hfu; lia|]. cbn [c_loop_b].
    destruct (sr_find_fresh b MF C acc e G SP Hp) as (C1 & o & EF & Q1 & _ & GW1 & G1). rewrite EF.
    assert (S1 : line_ok bs f (sl_parts o) b e).
    { pose proof (gw_new _ _ _ _ GW1) as H2. inversion H2; subst. cbn [fst snd] in *. destruct H3 as (_ & (X & _)). exact X. }
    destruct (sr_parse_effect (e + 1) MF C1 o b e G1 S1) as (C2 & EP & Q2 & EL & G2). rewrite EP, Hu0.
    assert (GW2 : grew (s_lr C) (s_lr C2) [(b, e)] [o]) by (rewrite EL; exact GW1).
    assert (Hp2 : prev_ok C2 (e + 1)).
    { eapply (prev_ok_grew C C2); eauto. left. reflexivity. }
    destruct (IH C2 (acc ++ [o]) (e + 1) hi fuel t F' G2 Hc Hu Hp2 ltac:(cbn in Hfu; lia) Ht)
      as (C' & objs & tobj & EL' & Q' & GW' & Hlen & G').
    rewrite EL'. exists C', (o :: objs), tobj. splits; auto.
    + rewrite <- app_assoc. reflexivity.
    + eapply sr_quiet_trans; [eapply sr_quiet_trans; eauto|exact Q'].
    + apply (grew_trans (e + 1) (s_lr C) (s_lr C2) (s_lr C') [(b, e)] [o] (body ++ t) (objs ++ tobj) (sg_l _ _ _ G2) GW2 GW').
    + cbn [length]. lia.
Qed.

(* ---- find_sysline of the next message *)
Lemma range_cut_get a b m x : range_get (range_cut a b m) x <> None -> range_get m x <> None.
Proof.
  induction m as [|[[s e] v] m IH]; cbn [range_cut range_get]; auto.
  intros H. destruct ((s <=? x) && (x <? e)) eqn:E; [discriminate|].
  apply IH. intro Hn. apply H. clear H.
  apply andb_false_iff in E.
  destruct (s <? N.min e a) eqn:E1; destruct (N.max s b <? e) eqn:E2; cbn [app range_get].
  - replace ((s <=? x) && (x <? N.min e a)) with false by (symmetry; apply andb_false_iff; destruct E as [E|E]; [left; exact E|right; apply N.ltb_ge; apply N.ltb_ge in E; lia]).
    replace ((N.max s b <=? x) && (x <? e)) with false by (symmetry; apply andb_false_iff; destruct E as [E|E]; [left; apply N.leb_gt; apply N.leb_gt in E; lia|right; exact E]).
    exact Hn.
  - replace ((s <=? x) && (x <? N.min e a)) with false by (symmetry; apply andb_false_iff; destruct E as [E|E]; [left; exact E|right; apply N.ltb_ge; apply N.ltb_ge in E; lia]).
    exact Hn.
  - replace ((N.max s b <=? x) && (x <? e)) with false by (symmetry; apply andb_false_iff; destruct E as [E|E]; [left; apply N.leb_gt; apply N.leb_gt in E; lia|right; exact E]).
    exact Hn.
  - exact Hn.
Qed.

Lemma check_store_miss F MF C : sgood F MF C ->
  exists C1, sr_check_store bs f C MF = (None, C1) /\ sr_quiet C C1 /\ s_lr C1 = s_lr C /\ s_parse C1 = s_parse C /\
             sgood F MF C1.
Proof.
  intros G. pose proof G as [G1 G2 G3 G4 G5 G6 G7 G8 G9 G10].
  unfold sr_check_store. rewrite G2.
  assert (Hnk : alookup MF (s_syslines C) = None).
  { destruct (alookup MF (s_syslines C)) as [s|] eqn:A; auto. destruct (G5 _ _ A) as (_ & X & _). lia. }
  destruct (lru_get MF (s_lru C)) as [[r|] c] eqn:Eg.
  { apply lru_get_Some in Eg as [Eg1 _]. destruct (G7 _ _ (alookup_In _ _ _ Eg1)) as (n & s & _ & A). congruence. }
  apply lru_get_None in Eg as [_ ->].
  cbn [sr_cnt s_range s_syslines]. rewrite (G8 MF ltac:(lia)), Hnk.
  eexists. split; [reflexivity|].
  assert (Q : sr_quiet C (sr_cnt d_miss (sr_cnt d_range_miss (sr_cnt d_lru_miss C)))) by (unfold sr_quiet; cbn; repeat split; lia).
  splits; auto. apply (sgood_quiet F MF F C _ G Q); auto. lia.
Qed.

Lemma last_obj_end (objs : list sline) (sp : list (N * N)) b hi :
  Forall2 (fun o be => line_ok bs f (sl_parts o) (fst be) (snd be)) objs sp -> consec b sp hi -> sp <> [] ->
  exists o r, rev objs = o :: r /\ line_fo_end bs (sl_parts o) = Some (hi - 1) /\ 0 < hi.
Proof.
  intros H. revert b. induction H as [|o be objs sp Ho H IH]; intros b Hc Hne; [congruence|].
  cbn [consec] in Hc. destruct Hc as (_ & SP & Hc).
  destruct sp as [|be' sp'].
  - inversion H; subst. cbn [consec] in Hc. subst hi. exists o, []. split; [reflexivity|].
    destruct (line_ok_facts bs f _ _ _ Ho) as (_ & LE & _). rewrite LE. split; [f_equal; lia|lia].
  - destruct (IH _ Hc ltac:(discriminate)) as (o' & r & E & LE & Hp). cbn [rev]. rewrite E. exists o', (r ++ [o]). auto.
Qed.

Lemma find_sysline_effect F MF C e0 z body hi t F' :
  sgood F MF C -> span f MF e0 -> dated (slice f MF (e0 + 1)) = Some z ->
  ((F = MF /\ prev_ok C F) \/ (F = e0 + 1 /\ exists o0, alookup MF (l_lines (s_lr C)) = Some o0)) ->
  consec (e0 + 1) body hi -> undated_sp body -> term_sp hi t F' -> (length body < length f)%nat ->
  exists C' o0 objs tobj z' fsp fobj,
    c_find_sysline dated bs f C MF = (C', Found (hi, (s_nid C, z', o0 :: objs)), QSearch) /\
    s_syslines C' = ainsert MF (s_nid C, z', o0 :: objs) (s_syslines C) /\
    s_nid C' = s_nid C + 1 /\
    sc_highest (s_cnt C') = N.max (sc_highest (s_cnt C)) (lenN (s_syslines C')) /\
    sc_drop_ok (s_cnt C') = sc_drop_ok (s_cnt C) /\ sc_drop_err (s_cnt C') = sc_drop_err (s_cnt C) /\
    grew (s_lr C) (s_lr C') (fsp ++ body ++ t) (fobj ++ objs ++ tobj) /\
    ((F = MF /\ fsp = [(MF, e0)] /\ fobj = [o0]) \/ (F = e0 + 1 /\ fsp = [] /\ fobj = [])) /\
    alookup MF (l_lines (s_lr C')) = Some o0 /\ lobj_ok o0 MF e0 /\ length objs = length body /\
    ss_begin bs (s_nid C, z', o0 :: objs) = Some MF /\ ss_end bs (s_nid C, z', o0 :: objs) = Some (hi - 1) /\ MF < hi /\
    sgood F' hi C'.
Proof.
  intros G SP0 D0 Hfirst Hc Hu Ht Hlen. 
  destruct (check_store_miss F MF C G) as (C1 & E1 & Q1 & EL1 & EP1 & G1).
  unfold c_find_sysline. rewrite E1. cbv zeta.
  remember (2 * length f + 3)%nat as fuel eqn:Efuel.
  destruct fuel as [|fuel']; [lia|]. cbn [c_loop_a]. set (fuel := S fuel') in *.
  (* the head line *)
  assert (Hhead : exists C2 o0 fsp fobj, sr_find_line bs f C1 [] MF = (C2, Found (e0 + 1, o0)) /\ sr_quiet C1 C2 /\
             s_parse C2 = s_parse C1 /\ grew (s_lr C1) (s_lr C2) fsp fobj /\ sgood (e0 + 1) MF C2 /\
             alookup MF (l_lines (s_lr C2)) = Some o0 /\ lobj_ok o0 MF e0 /\
             ((F = MF /\ fsp = [(MF, e0)] /\ fobj = [o0]) \/ (F = e0 + 1 /\ fsp = [] /\ fobj = []))).
  { destruct Hfirst as [(-> & Hp)|(-> & o0 & A0)].
    - assert (Hp1 : prev_ok C1 MF) by (unfold prev_ok in *; rewrite EL1; exact Hp).
      destruct (sr_find_fresh MF MF C1 [] e0 G1 SP0 Hp1) as (C2 & o0 & EF & Q2 & P2 & GW & G2).
      pose proof (gw_new _ _ _ _ GW) as H2. inversion H2; subst. cbn [fst snd] in *. destruct H3 as (A0 & O0).
      exists C2, o0, [(MF, e0)], [o0]. splits; auto.
    - rewrite <- EL1 in A0.
      destruct (stored_span _ _ _ _ (sg_l _ _ _ G1) A0) as (e' & S0 & _).
      assert (e' = e0) as -> by (destruct S0 as [S0 _]; eapply span_unique_e; eauto).
      destruct (sr_find_hit (e0 + 1) MF C1 [] MF e0 o0 G1 A0 S0) as (C2 & EF & Q2 & P2 & GW & G2).
      exists C2, o0, [], []. splits; auto.
      + rewrite <- (gw_old _ _ _ _ GW MF o0 A0). reflexivity.
      + split; [exact S0|]. destruct (lg_obj _ _ (sg_l _ _ _ G1) _ _ A0) as (_ & X & _). exact X. }
  destruct Hhead as (C2 & o0 & fsp & fobj & EF & Q2 & P2 & GW2 & G2 & A0 & O0 & Hcase).
  rewrite EF.
  destruct (sr_parse_effect (e0 + 1) MF C2 o0 MF e0 G2 (proj1 O0)) as (C3 & EP & Q3 & EL3 & G3). rewrite EP, D0.
  destruct (line_ok_facts bs f _ _ _ (proj1 O0)) as (LB0 & LE0 & _). rewrite LE0.
  (* loop B *)
  assert (Hp3 : prev_ok C3 (e0 + 1)).
  { right. exists MF, o0. rewrite EL3. split; [exact A0|]. replace (e0 + 1 - 1) with e0 by lia. exact SP0. }
  destruct (loop_b_effect MF body C3 [o0] (e0 + 1) hi fuel t F' G3 Hc Hu Hp3 ltac:(unfold fuel; lia) Ht)
    as (C4 & objs & tobj & EB & Q4 & GW4 & Hlo & G4).
  rewrite EB. cbn [app].
  (* the store *)
  assert (Hobjs : Forall2 (fun o be => line_ok bs f (sl_parts o) (fst be) (snd be)) objs body).
  { pose proof (gw_new _ _ _ _ GW4) as H2. apply Forall2_app_inv_l in H2 as (s1 & s2 & H21 & H22 & E12).
    assert (length s1 = length body) by (rewrite <- Hlo; symmetry; eapply Forall2_len; eauto).
    assert (s1 = body /\ s2 = t) as (-> & ->).
    { clear - E12 H. revert s1 H E12. induction body as [|x body IH]; intros [|y s1] Hl E; cbn in *; try discriminate; auto.
      injection E as -> E. injection Hl as Hl. destruct (IH s1 Hl E) as (-> & ->). auto. }
    eapply Forall2_imp; [|exact H21]. intros o be (_ & (X & _)). exact X. }
  assert (Hend : ss_end bs (s_nid C4, z, o0 :: objs) = Some (hi - 1) /\ MF < hi).
  { unfold ss_end, sysline_fo_end, ss_sysline. cbn [ss_dt ss_lines snd fst]. rewrite <- map_rev.
    destruct body as [|be body'].
    - inversion Hobjs; subst. cbn [consec] in Hc. subst hi. cbn [rev app map]. rewrite LE0.
      destruct SP0 as (X & _). split; [f_equal; lia|lia].
    - destruct (last_obj_end objs (be :: body') (e0 + 1) hi Hobjs Hc ltac:(discriminate)) as (ol & r & E & LE & Hpos).
      cbn [rev]. rewrite E. cbn [app map]. rewrite LE. split; [reflexivity|].
      cbn [consec] in Hc. destruct Hc as (Hb & SPb & Hc').
      assert (forall sp b h, consec b sp h -> b <= h) as Hmono.
      { induction sp as [|x sp IHs]; intros b0 h Hx; cbn [consec] in Hx; [lia|]. destruct Hx as (<- & (X & _) & Hx). apply IHs in Hx. lia. }
      apply Hmono in Hc'. destruct SP0 as (X & _). destruct SPb as (Y & _). lia. }
  destruct Hend as (Hend & Hlt).
  assert (Hbeg : ss_begin bs (s_nid C4, z, o0 :: objs) = Some MF).
  { unfold ss_begin, sysline_fo_begin, ss_sysline. cbn [ss_dt ss_lines snd fst map]. exact LB0. }
  assert (Hnid : s_nid C4 = s_nid C /\ s_syslines C4 = s_syslines C /\ s_range C4 = s_range C /\ s_lru C4 = s_lru C /\
                 sc_highest (s_cnt C4) = sc_highest (s_cnt C) /\ sc_drop_ok (s_cnt C4) = sc_drop_ok (s_cnt C) /\
                 sc_drop_err (s_cnt C4) = sc_drop_err (s_cnt C)).
  { pose proof (sr_quiet_trans _ _ _ Q1 (sr_quiet_trans _ _ _ Q2 (sr_quiet_trans _ _ _ Q3 Q4))) as (A1 & A2 & A3 & A4 & A5 & A6 & A7 & A8 & A9).
    splits; auto. }
  destruct Hnid as (N1 & N2 & N3 & N4 & N5 & N6 & N7).
  unfold sr_store_found, sr_insert. rewrite Hbeg, Hend. unfold sr_put. cbn [s_on]. rewrite (sg_on _ _ _ G4).
  replace (hi - 1 + 1) with hi by lia.
  assert (Hnk : ~ In MF (map fst (s_syslines C))).
  { apply alookup_None_keys. destruct (alookup MF (s_syslines C)) as [s|] eqn:A; auto.
    destruct (sg_obj _ _ _ G _ _ A) as (_ & X & _). lia. }
  destruct (ainsert_keys_new MF (s_nid C4, z, o0 :: objs) (s_syslines C) Hnk) as (K1 & K2 & K3).
  rewrite N1 in *.
  assert (GWall : grew (s_lr C) (s_lr C4) (fsp ++ body ++ t) (fobj ++ objs ++ tobj)).
  { rewrite <- EL1. apply (grew_trans (e0 + 1) (s_lr C1) (s_lr C3) (s_lr C4)); [apply (sg_l _ _ _ G3)| |exact GW4].
    rewrite EL3. exact GW2. }
  eexists _, o0, objs, tobj, z, fsp, fobj. split; [reflexivity|].
  unfold sr_put_always. cbn [sr_cnt sr_set_lru s_syslines s_nid s_cnt s_lr s_lru s_on s_parse s_parse_on s_range].
  rewrite N2, N4.
  splits; auto.
  - cbn [sc_upd sc_highest d_inserted d_lru_put]. rewrite N5. lia.
  - cbn [sc_upd sc_drop_ok d_inserted d_lru_put]. rewrite N6. lia.
  - cbn [sc_upd sc_drop_err d_inserted d_lru_put]. rewrite N7. lia.
  - apply (gw_old _ _ _ _ GW4). rewrite EL3. exact A0.
  - pose proof G4 as [H1 H2 H3 H4 H5 H6 H7 H8 H9 H10].
    assert (HF' : hi <= F').
    { destruct Ht as [(_ & -> & ->)|(en & z0 & _ & (X & _) & _ & ->)]; lia. }
    constructor; cbn [sr_cnt sr_set_lru s_lr s_on s_parse_on s_syslines s_nid s_lru s_range s_parse].
    + exact H1.
    + reflexivity.
    + exact H3.
    + apply K3. exact (sg_keys _ _ _ G).
    + intros k s. rewrite alookup_ainsert. destruct (N.eqb_spec k MF).
      * intro X; injection X as <-. subst k. cbn [ss_id fst]. splits; auto; lia.
      * intro X. destruct (sg_obj _ _ _ G _ _ X) as (Y1 & Y2 & Y3). splits; auto; lia.
    + intros k k' s s'. rewrite !alookup_ainsert. destruct (N.eqb_spec k MF), (N.eqb_spec k' MF); try congruence.
      * intro X; injection X as <-. intros X' E. destruct (sg_obj _ _ _ G _ _ X') as (Y1 & _). cbn [ss_id fst] in E. lia.
      * intros X' X E. injection X as <-. destruct (sg_obj _ _ _ G _ _ X') as (Y1 & _). cbn [ss_id fst] in E. lia.
      * apply (sg_inj _ _ _ G).
    + intros k r X. apply in_lru_put in X as [X|[X Xn]].
      * injection X as -> ->. eexists _, _. split; [reflexivity|]. rewrite alookup_ainsert, N.eqb_refl. reflexivity.
      * cbn [fst] in Xn. destruct (sg_lru _ _ _ G _ _ X) as (nn & ss & -> & A). eexists _, _. split; [reflexivity|].
        rewrite alookup_ainsert. destruct (N.eqb_spec k MF); [congruence|exact A].
    + intros x Hx. rewrite N3. unfold range_insert. replace (MF <? hi) with true by (symmetry; apply N.ltb_lt; exact Hlt).
      cbn [range_get]. replace ((MF <=? x) && (x <? hi)) with false by (symmetry; apply andb_false_iff; right; apply N.ltb_ge; lia).
      destruct (range_get (range_cut MF hi (s_range C)) x) eqn:ER; auto.
      exfalso. apply (range_cut_get MF hi (s_range C) x); [congruence|]. apply (sg_range _ _ _ G). lia.
    + exact H9.
    + exact HF'.
Qed.

Lemma Forall2_split_len {A B} (P : A -> B -> Prop) a1 : forall a2 b1 b2, length a1 = length b1 ->
  Forall2 P (a1 ++ a2) (b1 ++ b2) -> Forall2 P a1 b1 /\ Forall2 P a2 b2.
Proof.
  induction a1 as [|x a1 IH]; intros a2 [|y b1] b2 Hl H; cbn in *; try discriminate.
  - split; [constructor|exact H].
  - inversion H; subst. injection Hl as Hl. destruct (IH _ _ _ Hl H5) as (A1 & A2). split; [constructor; auto|exact A2].
Qed.

(* the line objects of the message that find_sysline_effect stored *)
Lemma found_objs L L' fsp fobj body t objs tobj (MF e0 : N) o0 :
  grew L L' (fsp ++ body ++ t) (fobj ++ objs ++ tobj) -> length objs = length body -> length fobj = length fsp ->
  alookup MF (l_lines L') = Some o0 -> lobj_ok o0 MF e0 ->
  Forall2 (fun o be => alookup (fst be) (l_lines L') = Some o /\ lobj_ok o (fst be) (snd be)) (o0 :: objs) ((MF, e0) :: body).
Proof.
  intros G H1 H2 A0 O0. constructor; [split; assumption|].
  pose proof (gw_new _ _ _ _ G) as H.
  destruct (Forall2_split_len _ fobj _ fsp _ H2 H) as (_ & H').
  destruct (Forall2_split_len _ objs _ body _ H1 H') as (H'' & _). exact H''.
Qed.

(* ------------------------------------------------------------------ drops *)
Lemma in_dedup l : forall seen x, In x (dedup_ssl l seen) -> In x l.
Proof.
  induction l as [|s l IH]; intros seen x; cbn [dedup_ssl]; [auto|].
  destruct (existsb (N.eqb (ss_id s)) seen); [intro H; right; eapply IH; eauto|].
  intros [<-|H]; [left; reflexivity|right; eapply IH; eauto].
Qed.

Lemma In_alookup {V} k (v : V) m : NoDup (map fst m) -> In (k, v) m -> alookup k m = Some v.
Proof.
  induction m as [|[k' v'] m IH]; intros Hn H; [destruct H|]. cbn [alookup]. cbn [map fst] in Hn. inversion Hn; subst.
  destruct H as [E|H]; [injection E as -> ->; rewrite N.eqb_refl; reflexivity|].
  destruct (N.eqb_spec k k'); [subst; exfalso; apply H2; apply (in_map fst) in H; exact H|auto].
Qed.

Lemma removelast_nseq s n : removelast (nseq s (S n)) = nseq s n.
Proof.
  revert s. induction n as [|n IH]; intros s; [reflexivity|].
  change (nseq s (S (S n))) with (s :: nseq (s + 1) (S n)). cbn [removelast].
  destruct (nseq (s + 1) (S n)) eqn:E; [discriminate|]. rewrite <- E, IH. reflexivity.
Qed.

Lemma removelast_map {A B} (g : A -> B) l : map g (removelast l) = removelast (map g l).
Proof. induction l as [|x [|y l] IH]; cbn; auto. cbn in IH. rewrite IH. reflexivity. Qed.

Lemma filter_len_le {A} (g : A -> bool) l : (length (filter g l) <= length l)%nat.
Proof. induction l as [|x l IH]; cbn; [lia|]. destruct (g x); cbn; lia. Qed.

(* dropping the blocks of the parts of a line *)
Lemma drop_parts_effect ps : forall L, bgood (l_blk L) ->
  let L' := fold_left (fun st p => lr_set_blk (b_drop_block (lr_refd st (fun _ => false)) (l_blk st) (part_bo p)) st) ps L in
  same_lr L L' /\ bgood (l_blk L') /\
  (forall x, In x (b_blocks (l_blk L')) <-> In x (b_blocks (l_blk L)) /\ ~ In x (bos ps)) /\
  bc_highest (b_cnt (l_blk L')) = bc_highest (b_cnt (l_blk L)).
Proof.
  induction ps as [|p ps IH]; intros L G; cbv zeta; cbn [fold_left].
  - splits; auto; [unfold same_lr; repeat split|]. intros x. cbn. tauto.
  - set (L1 := lr_set_blk (b_drop_block (lr_refd L (fun _ => false)) (l_blk L) (part_bo p)) L).
    assert (G1 : bgood (l_blk L1) /\ (forall x, In x (b_blocks (l_blk L1)) <-> In x (b_blocks (l_blk L)) /\ x <> part_bo p) /\
                 bc_highest (b_cnt (l_blk L1)) = bc_highest (b_cnt (l_blk L))).
    { unfold L1. cbn [lr_set_blk l_blk]. unfold b_drop_block. rewrite (bg_drop _ G). cbn [negb].
      cbn [b_blocks b_cnt]. splits.
      - destruct G as [A1 A2 A3 A4 A5 A6]. constructor; cbn [b_stream b_drop b_blocks b_read b_lru b_cnt]; auto.
        + intros x X. apply in_nrem in X as [X Y]. apply in_nrem. split; auto.
        + intros x X. apply in_nrem in X as [X _]. auto.
        + unfold nrem. apply NoDup_filter. exact A5.
        + assert (lenN (nrem (part_bo p) (b_blocks (l_blk L))) <= lenN (b_blocks (l_blk L))).
          { unfold nrem, lenN. pose proof (filter_len_le (fun y => negb (y =? part_bo p)) (b_blocks (l_blk L))). lia. }
          destruct (nmem (part_bo p) (b_blocks (l_blk L)) || nmem (part_bo p) (b_lru (l_blk L)));
            [destruct (lr_refd L (fun _ => false) (part_bo p))|]; cbn [bc_upd bc_highest e_drop_err e_drop_ok]; lia.
      - intros x. apply in_nrem.
      - destruct (nmem (part_bo p) (b_blocks (l_blk L)) || nmem (part_bo p) (b_lru (l_blk L)));
          [destruct (lr_refd L (fun _ => false) (part_bo p))|]; cbn [bc_upd bc_highest e_drop_err e_drop_ok]; lia. }
    destruct G1 as (G1 & B1 & H1).
    destruct (IH L1 G1) as (S' & G' & B' & H'). cbv zeta in *. splits; auto.
    + intros x. rewrite B', B1. cbn [bos map In]. intuition congruence.
    + congruence.
Qed.

(* LineReader::drop_line of a stored line that nothing else references *)
Lemma drop_line_effect F L o b e : lgood F L -> alookup b (l_lines L) = Some o -> lobj_ok o b e ->
  let L' := lr_drop_line bs L o 0 in
  l_lines L' = aremove b (l_lines L) /\ l_nid L' = l_nid L /\
  lc_highest (l_cnt L') = lc_highest (l_cnt L) /\ lc_drop_ok (l_cnt L') = lc_drop_ok (l_cnt L) + 1 /\
  lc_drop_err (l_cnt L') = lc_drop_err (l_cnt L) /\
  (forall x, In x (b_blocks (l_blk L')) <-> In x (b_blocks (l_blk L)) /\ ~ (b / bs <= x /\ x < e / bs)) /\
  bc_highest (b_cnt (l_blk L')) = bc_highest (b_cnt (l_blk L)) /\
  lgood F L'.
Proof.
  intros G A (S & Al). cbv zeta. pose proof G as [G1 G2 G3 G4 G5 G6 G7 G8 G9 G10].
  pose proof (lr_drop_line_inv0 bs f L o 0 G1) as I'.
  destruct (line_ok_facts bs f _ _ _ S) as (LB & LE & _ & NE).
  unfold lr_drop_line in *. rewrite LB in *.
  assert (Hheld : existsb (lres_holds (sl_id o)) (lru_pop b (l_lru L)) ||
                  existsb (fun e0 : N * sline => sl_id (snd e0) =? sl_id o) (aremove b (l_lines L)) || negb (0 =? 0) = false).
  { rewrite N.eqb_refl. cbn [negb]. rewrite orb_false_r. apply orb_false_iff. split.
    - apply not_true_is_false. intro H. apply existsb_exists in H as ((k & r) & Hin & Hh).
      unfold lru_pop in Hin. apply in_aremove' in Hin as [Hin Hk]. cbn [fst] in Hk.
      destruct (G7 _ _ Hin) as (n & o' & -> & A'). unfold lres_holds in Hh. cbn [snd] in Hh. apply N.eqb_eq in Hh.
      apply Hk. eapply G6; eauto.
    - apply not_true_is_false. intro H. apply existsb_exists in H as ((k & o') & Hin & Hh). cbn [snd] in Hh. apply N.eqb_eq in Hh.
      apply in_aremove' in Hin as [Hin Hk]. cbn [fst] in Hk. apply Hk. apply (In_alookup _ _ _ G4) in Hin. eapply G6; eauto. }
  rewrite Hheld in *.
  set (L1 := mkLR (aremove b (l_lines L)) (l_foend L) (lru_pop b (l_lru L)) (l_on L) (l_nid L) (lc_drop_ok_up (l_cnt L)) (l_blk L) (l_ext L)) in *.
  destruct (drop_parts_effect (removelast (sl_parts o)) L1 G3) as ((S1 & S2 & S3 & S4 & S5 & S6) & G' & B' & H'). cbv zeta in *.
  set (L' := fold_left _ (removelast (sl_parts o)) L1) in *.
  assert (Hin : In b (map fst (l_lines L))) by (pose proof (alookup_In _ _ _ A) as Y; apply (in_map fst) in Y; exact Y).
  destruct (aremove_keys b (l_lines L) G4 Hin) as (K1 & K2 & K3).
  destruct S as [SP CH].
  assert (Hlt : b < e + 1) by (destruct SP; lia).
  destruct (aligned_bos bs (sl_parts o) b (e + 1) Hbs CH Hlt Al) as (Hb & Hle). replace (e + 1 - 1) with e in * by lia.
  assert (Hrm : bos (removelast (sl_parts o)) = nseq (b / bs) (N.to_nat (e / bs - b / bs))).
  { unfold bos. rewrite removelast_map. fold (bos (sl_parts o)). rewrite Hb.
    replace (N.to_nat (e / bs + 1 - b / bs)) with (S (N.to_nat (e / bs - b / bs))) by lia. apply removelast_nseq. }
  splits.
  - rewrite S1. reflexivity.
  - rewrite S5. reflexivity.
  - rewrite S6. reflexivity.
  - rewrite S6. cbn. lia.
  - rewrite S6. reflexivity.
  - intros x. rewrite B', Hrm, in_nseq. cbn [L1 l_blk]. split; intros [X Y]; split; auto; lia.
  - rewrite H'. reflexivity.
  - constructor; rewrite ?S1, ?S2, ?S3, ?S4, ?S5, ?S6; cbn [L1 l_lines l_foend l_lru l_on l_nid l_cnt lc_drop_ok_up lc_highest]; auto.
    + intros k o'. rewrite alookup_aremove. destruct (N.eqb_spec k b); [discriminate|]. apply G5.
    + intros k k' o1 o2. rewrite !alookup_aremove. destruct (N.eqb_spec k b); [discriminate|]. destruct (N.eqb_spec k' b); [discriminate|]. apply G6.
    + intros k r X. unfold lru_pop in X. apply in_aremove' in X as [X Xn]. cbn [fst] in Xn. destruct (G7 _ _ X) as (n0 & o0 & -> & A0).
      eexists _, _. split; [reflexivity|]. rewrite alookup_aremove. destruct (N.eqb_spec k b); [congruence|exact A0].
    + unfold lenN in *. lia.
Qed.

(* the Line objects objs are stored at the spans lsp *)
Definition owns (L : lr_state) (objs : list sline) (lsp : list (N * N)) : Prop :=
  Forall2 (fun o be => alookup (fst be) (l_lines L) = Some o /\ lobj_ok o (fst be) (snd be)) objs lsp.

Definition sr_but_lr (C C' : sr_state) : Prop :=
  s_syslines C' = s_syslines C /\ s_range C' = s_range C /\ s_lru C' = s_lru C /\ s_on C' = s_on C /\
  s_parse C' = s_parse C /\ s_parse_on C' = s_parse_on C /\ s_nid C' = s_nid C /\ s_cnt C' = s_cnt C.

Lemma line_refs_lr C L id : line_refs (sr_set_lr L C) id = line_refs C id.
Proof. reflexivity. Qed.

Lemma Forall2_imp_in {A B} (P Q : A -> B -> Prop) la lb :
  (forall a b, In a la -> In b lb -> P a b -> Q a b) -> Forall2 P la lb -> Forall2 Q la lb.
Proof.
  intros H F2. induction F2 as [|a b la lb Hab F2 IH]; constructor.
  - apply H; [left; reflexivity|left; reflexivity|exact Hab].
  - apply IH. intros a' b' Ia Ib. apply H; right; assumption.
Qed.

(* LineReader::drop_lines of the lines of one message *)
Lemma drop_lines_effect F objs : forall lsp C, lgood F (s_lr C) -> owns (s_lr C) objs lsp -> NoDup (map fst lsp) ->
  (forall o, In o objs -> line_refs C (sl_id o) = 0) ->
  let C' := fold_left (fun st l => sr_set_lr (lr_drop_line bs (lr_set_ext (sr_held st []) (s_lr st)) l (line_refs st (sl_id l))) st) objs C in
  sr_but_lr C C' /\ lgood F (s_lr C') /\
  (forall k, alookup k (l_lines (s_lr C')) = if nmem k (map fst lsp) then None else alookup k (l_lines (s_lr C))) /\
  (forall x, In x (map fst (l_lines (s_lr C'))) <-> In x (map fst (l_lines (s_lr C))) /\ ~ In x (map fst lsp)) /\
  l_nid (s_lr C') = l_nid (s_lr C) /\ lc_highest (l_cnt (s_lr C')) = lc_highest (l_cnt (s_lr C)) /\
  (forall x, In x (b_blocks (l_blk (s_lr C'))) <->
             In x (b_blocks (l_blk (s_lr C))) /\ forall be, In be lsp -> ~ (fst be / bs <= x /\ x < snd be / bs)) /\
  bc_highest (b_cnt (l_blk (s_lr C'))) = bc_highest (b_cnt (l_blk (s_lr C))).
Proof.
  induction objs as [|o objs IH]; intros lsp C G Ho Hnd Hr; cbv zeta; cbn [fold_left].
  - inversion Ho; subst. split; [unfold sr_but_lr; repeat split|]. split; [exact G|]. split; [reflexivity|].
    split; [intros x; cbn; tauto|]. split; [reflexivity|]. split; [reflexivity|]. split; [|reflexivity].
    intros x. cbn. split; [intros X; split; auto|tauto].
  - inversion Ho as [|? be ? lsp' (A & O) Ho']; subst. cbn [map fst] in Hnd. inversion Hnd as [|? ? Hn Hnd']; subst.
    rewrite (Hr o (or_introl eq_refl)).
    destruct be as [b e]. cbn [fst snd] in *.
    pose proof (drop_line_effect F (lr_set_ext (sr_held C []) (s_lr C)) o b e (lgood_set_ext _ _ _ G) A O) as D.
    cbv zeta in D. destruct D as (D1 & D2 & D3 & D4 & D5 & D6 & D7 & D8).
    remember (lr_drop_line bs (lr_set_ext (sr_held C []) (s_lr C)) o 0) as L1 eqn:EL1. clear EL1.
    cbn [lr_set_ext l_lines l_nid l_cnt l_blk] in *.
    set (C1 := sr_set_lr L1 C).
    assert (Ho1 : owns (s_lr C1) objs lsp').
    { unfold owns. cbn [C1 sr_set_lr s_lr]. eapply Forall2_imp_in; [|exact Ho']. intros o' be' _ Ib (A' & O'). split; [|exact O'].
      rewrite D1, alookup_aremove. destruct (N.eqb_spec (fst be') b) as [E|E]; [|exact A'].
      exfalso. apply Hn. rewrite <- E. apply in_map. exact Ib. }
    assert (Hr1 : forall o', In o' objs -> line_refs C1 (sl_id o') = 0).
    { intros o' Io. unfold C1. rewrite line_refs_lr. apply Hr. right. exact Io. }
    destruct (IH lsp' C1 D8 Ho1 Hnd' Hr1) as (I1 & I2 & I3 & I4 & I5 & I6 & I7 & I8). cbv zeta in *.
    remember (fold_left (fun st l => sr_set_lr (lr_drop_line bs (lr_set_ext (sr_held st []) (s_lr st)) l (line_refs st (sl_id l))) st) objs C1) as C' eqn:EC'. clear EC'.
    cbn [C1 sr_set_lr s_lr] in *.
    split; [exact I1|]. split; [exact I2|]. split.
    { intros k. rewrite I3, D1, alookup_aremove. cbn [map fst nmem existsb]. fold (nmem k (map fst lsp')).
      destruct (nmem k (map fst lsp')); [rewrite orb_true_r; reflexivity|]. rewrite orb_false_r. reflexivity. }
    assert (Hb : In b (map fst (l_lines (s_lr C)))) by (apply alookup_In in A; apply (in_map fst) in A; exact A).
    destruct (aremove_keys b (l_lines (s_lr C)) (lg_keys _ _ G) Hb) as (K1 & _).
    split.
    { intros x. rewrite I4, D1, K1. cbn [map fst In]. intuition congruence. }
    split; [congruence|]. split; [congruence|]. split; [|congruence].
    intros x. rewrite I7, D6. cbn [In]. split.
    + intros ((X1 & X2) & X3). split; [exact X1|]. intros be [<-|Ibe]; [exact X2|apply X3; exact Ibe].
    + intros (X1 & X2). split; [split; [exact X1|apply (X2 (b, e)); left; reflexivity]|]. intros be Ibe. apply X2. right. exact Ibe.
Qed.

Lemma live_stored C s :
  (forall k r, In (k, r) (s_lru C) -> exists n s', r = SF n s' /\ alookup k (s_syslines C) = Some s') ->
  In s (live_ssl C) -> exists k, In (k, s) (s_syslines C).
Proof.
  intros Hl H. unfold live_ssl in H. apply in_dedup in H. apply in_app_or in H as [H|H].
  - apply in_map_iff in H as ((k & s') & E & H). cbn [snd] in E. subst s'. exists k. exact H.
  - apply in_flat_map in H as ((k & r) & H & X). destruct (Hl _ _ H) as (n & s' & -> & A).
    unfold sres_ssl in X. cbn [snd] in X. destruct X as [<-|[]]. exists k. apply alookup_In. exact A.
Qed.

(* SyslineReader::drop_sysline of a stored message that nothing else references *)
Lemma drop_sysline_effect F MF C fo s lsp : sgood F MF C -> alookup fo (s_syslines C) = Some s ->
  owns (s_lr C) (ss_lines s) lsp -> NoDup (map fst lsp) ->
  (forall k' s', In (k', s') (s_syslines C) -> k' <> fo ->
     forall o o', In o (ss_lines s) -> In o' (ss_lines s') -> sl_id o <> sl_id o') ->
  let C' := c_drop_sysline bs C fo in
  s_syslines C' = aremove fo (s_syslines C) /\ s_nid C' = s_nid C /\
  sc_highest (s_cnt C') = sc_highest (s_cnt C) /\ sc_drop_ok (s_cnt C') = sc_drop_ok (s_cnt C) + 1 /\
  sc_drop_err (s_cnt C') = sc_drop_err (s_cnt C) /\
  (forall k, alookup k (l_lines (s_lr C')) = if nmem k (map fst lsp) then None else alookup k (l_lines (s_lr C))) /\
  (forall x, In x (map fst (l_lines (s_lr C'))) <-> In x (map fst (l_lines (s_lr C))) /\ ~ In x (map fst lsp)) /\
  l_nid (s_lr C') = l_nid (s_lr C) /\ lc_highest (l_cnt (s_lr C')) = lc_highest (l_cnt (s_lr C)) /\
  (forall x, In x (b_blocks (l_blk (s_lr C'))) <->
             In x (b_blocks (l_blk (s_lr C))) /\ forall be, In be lsp -> ~ (fst be / bs <= x /\ x < snd be / bs)) /\
  bc_highest (b_cnt (l_blk (s_lr C'))) = bc_highest (b_cnt (l_blk (s_lr C))) /\
  sgood F MF C'.
Proof.
  intros G A Ho Hnd Hdis. cbv zeta. pose proof G as [G1 G2 G3 G4 G5 G6 G7 G8 G9 G10].
  unfold c_drop_sysline. rewrite A. destruct (G5 _ _ A) as (_ & _ & Hbeg). rewrite Hbeg. cbv zeta.
  set (C1 := mkSR (s_lr C) (aremove fo (s_syslines C)) (s_range C) (lru_pop fo (s_lru C)) (s_on C) (s_parse C) (s_parse_on C) (s_nid C) (s_cnt C)).
  assert (Hfo : In fo (map fst (s_syslines C))) by (apply alookup_In in A; apply (in_map fst) in A; exact A).
  destruct (aremove_keys fo (s_syslines C) G4 Hfo) as (K1 & K2 & K3).
  assert (Hlru1 : forall k r, In (k, r) (s_lru C1) -> exists n s', r = SF n s' /\ alookup k (s_syslines C1) = Some s').
  { cbn [C1 s_lru s_syslines]. intros k r X. unfold lru_pop in X. apply in_aremove' in X as [X Xn]. cbn [fst] in Xn.
    destruct (G7 _ _ X) as (n & s' & -> & A'). eexists _, _. split; [reflexivity|].
    rewrite alookup_aremove. destruct (N.eqb_spec k fo); [congruence|exact A']. }
  assert (Hlive : forall s', In s' (live_ssl C1) -> exists k', k' <> fo /\ In (k', s') (s_syslines C)).
  { intros s' X. destruct (live_stored C1 s' Hlru1 X) as (k' & Y). cbn [C1 s_syslines] in Y.
    apply in_aremove' in Y as [Y Yn]. exists k'. split; auto. }
  assert (Hheld : existsb (fun x => ss_id x =? ss_id s) (live_ssl C1) = false).
  { apply not_true_is_false. intro H. apply existsb_exists in H as (s' & X & E). apply N.eqb_eq in E.
    destruct (Hlive s' X) as (k' & Kn & Y). apply Kn. apply (In_alookup _ _ _ G4) in Y. eapply G6; eauto. }
  rewrite Hheld.
  set (C2 := sr_cnt d_drop_ok C1).
  assert (Hr : forall o, In o (ss_lines s) -> line_refs C2 (sl_id o) = 0).
  { intros o Io. unfold line_refs. change (live_ssl C2) with (live_ssl C1).
    replace (filter _ (live_ssl C1)) with (@nil ssl); [reflexivity|]. symmetry.
    apply RetainLag.filter_none'. intros s' X. apply not_true_is_false. intro H. apply existsb_exists in H as (o' & Io' & E).
    apply N.eqb_eq in E. destruct (Hlive s' X) as (k' & Kn & Y). apply (Hdis k' s' Y Kn o o' Io Io'). congruence. }
  pose proof (drop_lines_effect F (ss_lines s) lsp C2 G1 Ho Hnd Hr) as D. cbv zeta in D.
  destruct D as ((B1 & B2 & B3 & B4 & B5 & B6 & B7 & B8) & D2 & D3 & D4 & D5 & D6 & D7 & D8).
  remember (fold_left (fun st l => sr_set_lr (lr_drop_line bs (lr_set_ext (sr_held st []) (s_lr st)) l (line_refs st (sl_id l))) st) (ss_lines s) C2) as C' eqn:EC'. clear EC'.
  cbn [C2 C1 sr_cnt s_syslines s_range s_lru s_on s_parse s_parse_on s_nid s_cnt s_lr] in *.
  split; [exact B1|]. split; [exact B7|]. rewrite B8. cbn [sc_upd sc_highest sc_drop_ok sc_drop_err d_drop_ok].
  split; [lia|]. split; [reflexivity|]. split; [lia|].
  split; [exact D3|]. split; [exact D4|]. split; [exact D5|]. split; [exact D6|]. split; [exact D7|]. split; [exact D8|].
  constructor; rewrite ?B1, ?B2, ?B3, ?B4, ?B5, ?B6, ?B7; auto.
  - intros k s'. rewrite alookup_aremove. destruct (N.eqb_spec k fo); [discriminate|]. apply G5.
  - intros k k' s1 s2. rewrite !alookup_aremove. destruct (N.eqb_spec k fo); [discriminate|]. destruct (N.eqb_spec k' fo); [discriminate|]. apply G6.
Qed.

(* ---- drop_data: a catalogue says at which spans the lines of each stored message are *)
Lemma Forall2_in_l {A B} (P : A -> B -> Prop) la lb a : Forall2 P la lb -> In a la -> exists b, In b lb /\ P a b.
Proof.
  induction 1 as [|x y la lb Hxy F2 IH]; intros Hin; [destruct Hin|].
  destruct Hin as [<-|Hin]; [exists y; split; [left; reflexivity|exact Hxy]|].
  destruct (IH Hin) as (b & Ib & Pb). exists b. split; [right; exact Ib|exact Pb].
Qed.

Lemma Forall2_in_r {A B} (P : A -> B -> Prop) la lb b : Forall2 P la lb -> In b lb -> exists a, In a la /\ P a b.
Proof.
  induction 1 as [|x y la lb Hxy F2 IH]; intros Hin; [destruct Hin|].
  destruct Hin as [<-|Hin]; [exists x; split; [left; reflexivity|exact Hxy]|].
  destruct (IH Hin) as (a & Ia & Pa). exists a. split; [right; exact Ia|exact Pa].
Qed.

Lemma Forall2_filter {A B} (P : A -> B -> Prop) (p : A -> bool) (q : B -> bool) la lb :
  (forall a b, P a b -> p a = q b) -> Forall2 P la lb -> Forall2 P (filter p la) (filter q lb).
Proof.
  intros H. induction 1 as [|x y la lb Hxy F2 IH]; [constructor|]. cbn [filter]. rewrite (H _ _ Hxy).
  destruct (q y); [constructor; auto|exact IH].
Qed.

Lemma Forall2_filter_in {A B} (P : A -> B -> Prop) (p : A -> bool) (q : B -> bool) la lb :
  (forall a b, In a la -> In b lb -> P a b -> p a = q b) -> Forall2 P la lb -> Forall2 P (filter p la) (filter q lb).
Proof.
  intros H F2. induction F2 as [|x y la lb Hxy F2 IH]; [constructor|]. cbn [filter].
  rewrite (H _ _ (or_introl eq_refl) (or_introl eq_refl) Hxy).
  assert (IH' : Forall2 P (filter p la) (filter q lb)) by (apply IH; intros a b Ia Ib; apply H; right; assumption).
  destruct (q y); [constructor; auto|exact IH'].
Qed.

Lemma Forall2_map_eq {A B C} (P : A -> B -> Prop) (g : A -> C) (h : B -> C) la lb :
  (forall a b, P a b -> g a = h b) -> Forall2 P la lb -> map g la = map h lb.
Proof. intros H. induction 1 as [|x y la lb Hxy F2 IH]; [reflexivity|]. cbn [map]. rewrite (H _ _ Hxy), IH. reflexivity. Qed.

Lemma NoDup_app_disj {A} (a b : list A) x : NoDup (a ++ b) -> In x a -> In x b -> False.
Proof.
  induction a as [|y a IH]; intros Hn Ha Hb; [destruct Ha|]. cbn [app] in Hn. inversion Hn as [|? ? Hy Hn']; subst.
  destruct Ha as [<-|Ha]; [apply Hy; apply in_or_app; right; exact Hb|eauto].
Qed.

Lemma NoDup_app_l {A} (a b : list A) : NoDup (a ++ b) -> NoDup a.
Proof.
  induction a as [|y a IH]; intros Hn; [constructor|]. cbn [app] in Hn. inversion Hn as [|? ? Hy Hn']; subst.
  constructor; [intro X; apply Hy; apply in_or_app; left; exact X|auto].
Qed.

Lemma NoDup_app_r {A} (a b : list A) : NoDup (a ++ b) -> NoDup b.
Proof. induction a as [|y a IH]; intros Hn; [exact Hn|]. cbn [app] in Hn. inversion Hn; subst. auto. Qed.

Lemma NoDup_flat_map_in {A B} (g : A -> list B) l c : NoDup (flat_map g l) -> In c l -> NoDup (g c).
Proof.
  induction l as [|y l IH]; intros Hn Hin; [destruct Hin|]. cbn [flat_map] in Hn.
  destruct Hin as [<-|Hin]; [eapply NoDup_app_l; eauto|apply IH; [eapply NoDup_app_r; eauto|exact Hin]].
Qed.

(* two entries that share an element are at the same place: here, equal *)
Lemma NoDup_flat_map_disj {A B} (g : A -> list B) l c c' x :
  NoDup (flat_map g l) -> In c l -> In c' l -> In x (g c) -> In x (g c') -> c = c'.
Proof.
  induction l as [|y l IH]; intros Hn Hc Hc' Hx Hx'; [destruct Hc|]. cbn [flat_map] in Hn.
  destruct Hc as [<-|Hc], Hc' as [<-|Hc']; auto.
  - exfalso. eapply NoDup_app_disj; [exact Hn|exact Hx|]. apply in_flat_map. eauto.
  - exfalso. eapply NoDup_app_disj; [exact Hn|exact Hx'|]. apply in_flat_map. eauto.
  - apply IH; auto. eapply NoDup_app_r; eauto.
Qed.

Lemma NoDup_flat_map_filter {A B} (g : A -> list B) (p : A -> bool) l : NoDup (flat_map g l) -> NoDup (flat_map g (filter p l)).
Proof.
  induction l as [|y l IH]; intros Hn; [constructor|]. cbn [flat_map filter] in *.
  pose proof (IH (NoDup_app_r _ _ Hn)) as Hr. destruct (p y); [|exact Hr]. cbn [flat_map].
  assert (forall a b b' : list B, NoDup (a ++ b) -> NoDup b' -> (forall x, In x b' -> In x b) -> NoDup (a ++ b')) as Hq.
  { induction a as [|z a IHa]; intros b b' H1 H2 H3; [exact H2|]. cbn [app] in *. inversion H1 as [|? ? Hz H1']; subst.
    constructor; [|eapply IHa; eauto]. intro X. apply Hz. apply in_app_or in X as [X|X]; apply in_or_app; auto. }
  eapply Hq; [exact Hn|exact Hr|]. intros x X. apply in_flat_map in X as (c & Ic & Xc). apply filter_In in Ic as [Ic _].
  apply in_flat_map. eauto.
Qed.

Lemma aremove_filter {V} k (m : list (N * V)) : aremove k m = filter (fun e => negb (fst e =? k)) m.
Proof.
  induction m as [|[k' v] m IH]; [reflexivity|]. cbn [aremove filter fst]. rewrite (N.eqb_sym k' k).
  destruct (k =? k'); cbn [negb]; rewrite IH; reflexivity.
Qed.

Lemma NoDup_fst_inj {V} (m : list (N * V)) c c' : NoDup (map fst m) -> In c m -> In c' m -> fst c = fst c' -> c = c'.
Proof.
  induction m as [|y m IH]; intros Hn Hc Hc' E; [destruct Hc|]. cbn [map] in Hn. inversion Hn as [|? ? Hy Hn']; subst.
  destruct Hc as [<-|Hc], Hc' as [<-|Hc']; auto.
  - exfalso. apply Hy. rewrite E. apply in_map. exact Hc'.
  - exfalso. apply Hy. rewrite <- E. apply in_map. exact Hc.
Qed.

Definition ckeys (c : N * list (N * N)) : list N := map fst (snd c).
Record sown (C : sr_state) (cat : list (N * list (N * N))) : Prop := {
  so_cat : Forall2 (fun e c => fst e = fst c /\ owns (s_lr C) (ss_lines (snd e)) (snd c)) (s_syslines C) cat;
  so_nd : NoDup (flat_map ckeys cat)
}.

Lemma owns_in L objs lsp o : owns L objs lsp -> In o objs -> exists be, In be lsp /\ alookup (fst be) (l_lines L) = Some o.
Proof. intros H Hin. destruct (Forall2_in_l _ _ _ _ H Hin) as (be & Ib & A & _). eauto. Qed.

Lemma sown_keys C cat : sown C cat -> map fst (s_syslines C) = map fst cat.
Proof. intros [H _]. eapply Forall2_map_eq; [|exact H]. intros a b (E & _). exact E. Qed.

Lemma drop_one_effect F MF C cat k : sgood F MF C -> sown C cat -> In k (map fst (s_syslines C)) ->
  let C' := c_drop_sysline bs C k in
  exists lsp, In (k, lsp) cat /\
  s_syslines C' = aremove k (s_syslines C) /\ s_nid C' = s_nid C /\
  sc_highest (s_cnt C') = sc_highest (s_cnt C) /\ sc_drop_ok (s_cnt C') = sc_drop_ok (s_cnt C) + 1 /\
  sc_drop_err (s_cnt C') = sc_drop_err (s_cnt C) /\
  (forall x, In x (map fst (l_lines (s_lr C'))) <-> In x (map fst (l_lines (s_lr C))) /\ ~ In x (map fst lsp)) /\
  l_nid (s_lr C') = l_nid (s_lr C) /\ lc_highest (l_cnt (s_lr C')) = lc_highest (l_cnt (s_lr C)) /\
  (forall x, In x (b_blocks (l_blk (s_lr C'))) <->
             In x (b_blocks (l_blk (s_lr C))) /\ forall be, In be lsp -> ~ (fst be / bs <= x /\ x < snd be / bs)) /\
  bc_highest (b_cnt (l_blk (s_lr C'))) = bc_highest (b_cnt (l_blk (s_lr C))) /\
  sgood F MF C' /\ sown C' (filter (fun c => negb (fst c =? k)) cat).
Proof.
  intros G SO Hk. cbv zeta. pose proof SO as [SO1 SO2].
  apply in_map_iff in Hk as ((k0 & s) & E & Hin). cbn [fst] in E. subst k0.
  pose proof (In_alookup _ _ _ (sg_keys _ _ _ G) Hin) as A.
  destruct (Forall2_in_l _ _ _ _ SO1 Hin) as ((k0 & lsp) & Ic & E & Ho). cbn [fst snd] in E, Ho. subst k0.
  assert (Hcn : NoDup (map fst cat)) by (rewrite <- (sown_keys _ _ SO); apply (sg_keys _ _ _ G)).
  assert (Hnd : NoDup (map fst lsp)) by (apply (NoDup_flat_map_in ckeys cat (k, lsp) SO2 Ic)).
  assert (Hdis : forall k' s', In (k', s') (s_syslines C) -> k' <> k ->
            forall o o', In o (ss_lines s) -> In o' (ss_lines s') -> sl_id o <> sl_id o').
  { intros k' s' Hin' Kn o o' Io Io' Eid.
    destruct (Forall2_in_l _ _ _ _ SO1 Hin') as ((k0 & lsp') & Ic' & E & Ho'). cbn [fst snd] in E, Ho'. subst k0.
    destruct (owns_in _ _ _ _ Ho Io) as (be & Ib & Ab). destruct (owns_in _ _ _ _ Ho' Io') as (be' & Ib' & Ab').
    pose proof (lg_inj _ _ (sg_l _ _ _ G) _ _ _ _ Ab Ab' Eid) as Eb.
    assert (X : (k, lsp) = (k', lsp')).
    { apply (NoDup_flat_map_disj ckeys cat _ _ (fst be) SO2 Ic Ic'); unfold ckeys; cbn [snd]; [apply in_map; exact Ib|rewrite Eb; apply in_map; exact Ib']. }
    congruence. }
  pose proof (drop_sysline_effect F MF C k s lsp G A Ho Hnd Hdis) as D. cbv zeta in D.
  destruct D as (D1 & D2 & D3 & D4 & D5 & D6 & D7 & D8 & D9 & D10 & D11 & D12).
  exists lsp. splits; auto.
  constructor.
  - rewrite D1, aremove_filter.
    assert (SOf : Forall2 (fun e c => fst e = fst c /\ owns (s_lr C) (ss_lines (snd e)) (snd c))
                    (filter (fun e => negb (fst e =? k)) (s_syslines C)) (filter (fun c => negb (fst c =? k)) cat)).
    { apply Forall2_filter; [intros a b (E & _); rewrite E; reflexivity|exact SO1]. }
    eapply Forall2_imp_in; [|exact SOf]. intros e c Ie Icc (E & Ho'). split; [exact E|].
    apply filter_In in Icc as [Icc Kc]. apply negb_true_iff, N.eqb_neq in Kc.
    unfold owns. eapply Forall2_imp_in; [|exact Ho']. intros o be _ Ib (Ab & Ob). split; [|exact Ob].
    rewrite D6. destruct (nmem (fst be) (map fst lsp)) eqn:Em; [|exact Ab].
    apply nmem_In in Em. exfalso. apply Kc.
    assert (X : c = (k, lsp)).
    { apply (NoDup_flat_map_disj ckeys cat _ _ (fst be) SO2 Icc Ic); unfold ckeys; cbn [snd]; [apply in_map; exact Ib|exact Em]. }
    rewrite X. reflexivity.
  - apply NoDup_flat_map_filter. exact SO2.
Qed.

Lemma filter_filter {A} (p q : A -> bool) l : filter p (filter q l) = filter (fun x => q x && p x) l.
Proof. induction l as [|x l IH]; [reflexivity|]. cbn [filter]. destruct (q x); cbn [filter andb]; [destruct (p x)|]; rewrite IH; reflexivity. Qed.

Lemma filter_ext' {A} (p q : A -> bool) l : (forall x, In x l -> p x = q x) -> filter p l = filter q l.
Proof.
  induction l as [|x l IH]; intros H; [reflexivity|]. cbn [filter]. rewrite (H x (or_introl eq_refl)).
  rewrite IH; [reflexivity|]. intros y Hy. apply H. right. exact Hy.
Qed.

Lemma filter_true_all {A} (l : list A) : filter (fun _ => true) l = l.
Proof. induction l as [|x l IH]; [reflexivity|]. cbn [filter]. rewrite IH. reflexivity. Qed.

(* c_drop_sysline over distinct stored keys *)
Lemma drop_keys_effect F MF keys : forall C cat, sgood F MF C -> sown C cat -> NoDup keys ->
  (forall k, In k keys -> In k (map fst (s_syslines C))) ->
  let C' := fold_left (c_drop_sysline bs) keys C in
  let gone := fun c : N * list (N * N) => nmem (fst c) keys in
  s_syslines C' = filter (fun e => negb (nmem (fst e) keys)) (s_syslines C) /\ s_nid C' = s_nid C /\
  sc_highest (s_cnt C') = sc_highest (s_cnt C) /\ sc_drop_ok (s_cnt C') = sc_drop_ok (s_cnt C) + lenN keys /\
  sc_drop_err (s_cnt C') = sc_drop_err (s_cnt C) /\
  (forall x, In x (map fst (l_lines (s_lr C'))) <->
             In x (map fst (l_lines (s_lr C))) /\ forall c, In c cat -> gone c = true -> ~ In x (ckeys c)) /\
  l_nid (s_lr C') = l_nid (s_lr C) /\ lc_highest (l_cnt (s_lr C')) = lc_highest (l_cnt (s_lr C)) /\
  (forall x, In x (b_blocks (l_blk (s_lr C'))) <->
             In x (b_blocks (l_blk (s_lr C))) /\
             forall c be, In c cat -> gone c = true -> In be (snd c) -> ~ (fst be / bs <= x /\ x < snd be / bs)) /\
  bc_highest (b_cnt (l_blk (s_lr C'))) = bc_highest (b_cnt (l_blk (s_lr C))) /\
  sgood F MF C' /\ sown C' (filter (fun c => negb (gone c)) cat).
Proof.
  induction keys as [|k keys IH]; intros C cat G SO Hnd Hin; cbv zeta; cbn [fold_left].
  - cbn [nmem existsb negb]. rewrite !filter_true_all. splits; auto.
    + unfold lenN. cbn. lia.
    + intros x. split; [intros X; split; auto|tauto]. intros c _ E. discriminate.
    + intros x. split; [intros X; split; auto|tauto]. intros c be _ E. discriminate.
  - inversion Hnd as [|? ? Hk Hnd']; subst.
    destruct (drop_one_effect F MF C cat k G SO (Hin k (or_introl eq_refl)))
      as (lsp & Ic & D1 & D2 & D3 & D4 & D5 & D6 & D7 & D8 & D9 & D10 & D11 & D12). cbv zeta in *.
    remember (c_drop_sysline bs C k) as C1 eqn:EC1. clear EC1.
    assert (Hcn : NoDup (map fst cat)) by (rewrite <- (sown_keys _ _ SO); apply (sg_keys _ _ _ G)).
    assert (Hin1 : forall k', In k' keys -> In k' (map fst (s_syslines C1))).
    { intros k' Hk'. rewrite D1. apply (aremove_keys k _ (sg_keys _ _ _ G) (Hin k (or_introl eq_refl))).
      split; [intros ->; auto|apply Hin; right; exact Hk']. }
    destruct (IH C1 _ D11 D12 Hnd' Hin1) as (I1 & I2 & I3 & I4 & I5 & I6 & I7 & I8 & I9 & I10 & I11 & I12). cbv zeta in *.
    remember (fold_left (c_drop_sysline bs) keys C1) as C' eqn:EC'. clear EC'.
    assert (Hone : forall c, In c cat -> fst c = k -> c = (k, lsp)).
    { intros c Icc E. apply (NoDup_fst_inj cat c (k, lsp) Hcn Icc Ic). exact E. }
    splits.
    + rewrite I1, D1, aremove_filter, filter_filter. apply filter_ext'. intros e _. cbn [nmem existsb].
      rewrite (N.eqb_sym (fst e) k). destruct (k =? fst e); reflexivity.
    + congruence.
    + congruence.
    + rewrite I4, D4. unfold lenN. cbn [length]. lia.
    + congruence.
    + intros x. rewrite I6, D6. split.
      * intros ((X1 & X2) & X3). split; [exact X1|]. intros c Icc Eg. cbn [nmem existsb] in Eg.
        destruct (N.eqb_spec (fst c) k) as [E|E].
        -- rewrite (Hone c Icc E). exact X2.
        -- apply X3; [apply filter_In; split; [exact Icc|apply negb_true_iff, N.eqb_neq; exact E]|].
           cbn [orb] in Eg. exact Eg.
      * intros (X1 & X2). split; [split; [exact X1|]|].
        -- apply (X2 (k, lsp) Ic). cbn [nmem existsb fst]. rewrite N.eqb_refl. reflexivity.
        -- intros c Icc Eg. apply filter_In in Icc as [Icc _]. apply X2; auto. unfold nmem in *. cbn [existsb]. rewrite Eg. apply orb_true_r.
    + congruence.
    + congruence.
    + intros x. rewrite I9, D9. split.
      * intros ((X1 & X2) & X3). split; [exact X1|]. intros c be Icc Eg Ib. cbn [nmem existsb] in Eg.
        destruct (N.eqb_spec (fst c) k) as [E|E].
        -- rewrite (Hone c Icc E) in Ib. cbn [snd] in Ib. apply X2. exact Ib.
        -- apply (X3 c be); auto. apply filter_In; split; [exact Icc|apply negb_true_iff, N.eqb_neq; exact E].
      * intros (X1 & X2). split; [split; [exact X1|]|].
        -- intros be Ib. apply (X2 (k, lsp) be Ic); auto. cbn [nmem existsb fst]. rewrite N.eqb_refl. reflexivity.
        -- intros c be Icc Eg Ib. apply filter_In in Icc as [Icc _]. apply (X2 c be); auto. unfold nmem in *. cbn [existsb]. rewrite Eg. apply orb_true_r.
    + congruence.
    + exact I11.
    + rewrite filter_filter in I12. erewrite filter_ext'; [exact I12|]. intros c _. cbn [nmem existsb].
      destruct (fst c =? k); reflexivity.
Qed.

(* ---- drop_data(bo) and drop_data_try *)
Lemma lobj_bo o b e : lobj_ok o b e -> line_bo_first (sl_parts o) = Some (b / bs) /\ line_bo_last (sl_parts o) = Some (e / bs).
Proof.
  intros ((SP & CH) & _). assert (b < e + 1) by (destruct SP; lia). split.
  - eapply chain_first_bo; eauto.
  - pose proof (chain_last_bo bs _ b (e + 1) Hbs CH H) as X. replace (e + 1 - 1) with e in X by lia. exact X.
Qed.

Lemma Forall2_last {A B} (P : A -> B -> Prop) la lb da db : Forall2 P la lb -> la <> [] -> P (last la da) (last lb db).
Proof.
  induction 1 as [|x y la lb Hxy F2 IH]; intros Hne; [congruence|].
  destruct F2 as [|x' y' la lb Hxy' F2]; [exact Hxy|]. cbn [last] in *. apply IH. discriminate.
Qed.

Lemma rev_last {A} (l : list A) d : l <> [] -> exists r, rev l = last l d :: r.
Proof.
  intros Hne. destruct (exists_last Hne) as (q & p & ->). rewrite rev_unit, last_last. eauto.
Qed.

Definition cfirst (c : N * list (N * N)) : N := fst (hd (0, 0) (snd c)) / bs.
Definition clast (c : N * list (N * N)) : N := snd (last (snd c) (0, 0)) / bs.

Lemma owns_bo L s c : owns L (ss_lines s) (snd c) -> snd c <> [] ->
  ss_bo_first s = Some (cfirst c) /\ ss_bo_last s = Some (clast c).
Proof.
  intros Ho Hne. unfold ss_bo_first, ss_bo_last, cfirst, clast. destruct c as [k lsp]. cbn [snd] in *. unfold owns in Ho.
  assert (Hno : ss_lines s <> []) by (intro E; rewrite E in Ho; inversion Ho; congruence).
  split.
  - inversion Ho as [|o be objs lsp' (_ & Ob) Ho' E1 E2]; [congruence|]. cbn [hd]. apply (lobj_bo _ _ _ Ob).
  - destruct (rev_last (ss_lines s) (0, []) Hno) as (r & ->).
    pose proof (Forall2_last _ _ _ (0, []) (0, 0) Ho Hno) as (_ & Ob). apply (lobj_bo _ _ _ Ob).
Qed.

Lemma NoDup_map_filter {A B} (g : A -> B) (p : A -> bool) l : NoDup (map g l) -> NoDup (map g (filter p l)).
Proof.
  induction l as [|x l IH]; intros Hn; [constructor|]. cbn [map filter] in *. inversion Hn as [|? ? Hx Hn']; subst.
  destruct (p x); [|auto]. cbn [map]. constructor; [|auto]. intro X. apply Hx.
  apply in_map_iff in X as (y & E & Iy). apply filter_In in Iy as [Iy _]. rewrite <- E. apply in_map. exact Iy.
Qed.

Lemma drop_data_effect F MF C cat bo : sgood F MF C -> sown C cat -> Forall (fun c => snd c <> []) cat ->
  let C' := c_drop_data bs C bo in
  let gone := fun c : N * list (N * N) => clast c <=? bo in
  s_nid C' = s_nid C /\
  sc_highest (s_cnt C') = sc_highest (s_cnt C) /\ sc_drop_ok (s_cnt C') = sc_drop_ok (s_cnt C) + lenN (filter gone cat) /\
  sc_drop_err (s_cnt C') = sc_drop_err (s_cnt C) /\
  (forall x, In x (map fst (l_lines (s_lr C'))) <->
             In x (map fst (l_lines (s_lr C))) /\ forall c, In c cat -> gone c = true -> ~ In x (ckeys c)) /\
  l_nid (s_lr C') = l_nid (s_lr C) /\ lc_highest (l_cnt (s_lr C')) = lc_highest (l_cnt (s_lr C)) /\
  (forall x, In x (b_blocks (l_blk (s_lr C'))) <->
             In x (b_blocks (l_blk (s_lr C))) /\
             forall c be, In c cat -> gone c = true -> In be (snd c) -> ~ (fst be / bs <= x /\ x < snd be / bs)) /\
  bc_highest (b_cnt (l_blk (s_lr C'))) = bc_highest (b_cnt (l_blk (s_lr C))) /\
  sgood F MF C' /\ sown C' (filter (fun c => negb (gone c)) cat).
Proof.
  intros G SO Hne. cbv zeta. pose proof SO as [SO1 SO2]. unfold c_drop_data.
  set (pe := fun e : N * ssl => match ss_bo_last (snd e) with Some b => b <=? bo | None => false end).
  set (gone := fun c : N * list (N * N) => clast c <=? bo).
  assert (Hpe : forall e c, fst e = fst c /\ owns (s_lr C) (ss_lines (snd e)) (snd c) -> In c cat -> pe e = gone c).
  { intros e c (_ & Ho) Ic. rewrite Forall_forall in Hne. destruct (owns_bo _ _ _ Ho (Hne c Ic)) as (_ & E).
    unfold pe, gone. rewrite E. reflexivity. }
  set (keys := map fst (filter pe (s_syslines C))).
  assert (Hnd : NoDup keys) by (apply NoDup_map_filter; apply (sg_keys _ _ _ G)).
  assert (Hin : forall k, In k keys -> In k (map fst (s_syslines C))).
  { intros k X. apply in_map_iff in X as (e & E & Ie). apply filter_In in Ie as [Ie _]. rewrite <- E. apply in_map. exact Ie. }
  assert (Hcn : NoDup (map fst cat)) by (rewrite <- (sown_keys _ _ SO); apply (sg_keys _ _ _ G)).
  assert (Hg : forall c, In c cat -> nmem (fst c) keys = gone c).
  { intros c Ic. destruct (gone c) eqn:Eg.
    - apply nmem_In. destruct (Forall2_in_r _ _ _ _ SO1 Ic) as (e & Ie & Pe). unfold keys.
      rewrite <- (proj1 Pe). apply in_map. apply filter_In. split; [exact Ie|]. rewrite (Hpe e c Pe Ic). exact Eg.
    - apply nmem_false. intro X. apply in_map_iff in X as (e & E & Ie). apply filter_In in Ie as [Ie Pe].
      destruct (Forall2_in_l _ _ _ _ SO1 Ie) as (c' & Ic' & Pc'). rewrite (Hpe e c' Pc' Ic') in Pe.
      assert (c' = c) by (apply (NoDup_fst_inj cat c' c Hcn Ic' Ic); rewrite <- (proj1 Pc'); exact E). congruence. }
  destruct (drop_keys_effect F MF keys C cat G SO Hnd Hin) as (D1 & D2 & D3 & D4 & D5 & D6 & D7 & D8 & D9 & D10 & D11 & D12).
  cbv zeta in *. remember (fold_left (c_drop_sysline bs) keys C) as C' eqn:EC'. clear EC'.
  splits; auto.
  - rewrite D4. f_equal. unfold keys. unfold lenN. rewrite map_length. f_equal.
    eapply Forall2_len. apply (Forall2_filter_in _ pe gone _ _ (fun a b _ Ib H => Hpe a b H Ib) SO1).
  - intros x. rewrite D6. split; intros (X1 & X2); (split; [exact X1|]); intros c Ic Eg.
    + apply X2; [exact Ic|exact (eq_trans (Hg c Ic) Eg)].
    + apply X2; [exact Ic|exact (eq_trans (eq_sym (Hg c Ic)) Eg)].
  - intros x. rewrite D9. split; intros (X1 & X2); (split; [exact X1|]); intros c be Ic Eg.
    + apply X2; [exact Ic|exact (eq_trans (Hg c Ic) Eg)].
    + apply X2; [exact Ic|exact (eq_trans (eq_sym (Hg c Ic)) Eg)].
  - erewrite filter_ext'; [exact D12|]. intros c Ic. cbv beta. f_equal. symmetry. exact (Hg c Ic).
Qed.

End Reader.
