(* Proofs/RegexExamples.v — C04, regex stage: the hypotheses of the theorems are satisfiable by non-trivial
   cases (all by vm_compute on the regenerated tables). *)
From Coq Require Import Lia String.
From S4.Base Require Import Bytes.
From S4.Model Require Import Calendar Normalise Regex RegexPlan RegexDt.
From S4.Gen Require Import DatetimeTables RegexTables.
From S4.Spec Require Import CalendarSpec TzRef NormaliseSpec.
From S4.Proofs Require Import RegexProofs RegexSim RegexUniv.
Open Scope N_scope.

Definition nth_rx (i : N) : option rx_row := find (fun r => rx_index r =? i) rx_table.
Definition nth_dt (i : N) : option dt_row := find (fun r => r_index r =? i) dt_table.

(* "2024-02-29 23:59:58.123456 PDT message": row 73 (year-month-day time.fraction zone-name) *)
Definition ex_texts : list bytes :=
  [[]; s2b "2024"; s2b "-"; s2b "02"; s2b "-"; s2b "29"; s2b " "; s2b "23"; s2b ":"; s2b "59"; s2b ":"; s2b "58";
   s2b "."; s2b "123456"; s2b " "; s2b "PDT"; s2b " "].
Definition ex_rest : bytes := s2b "message".
Definition ex_line : bytes := (concat ex_texts ++ ex_rest) ++ [].

(* search / soundness: the pattern of row 73 on that line *)
Example search_example :
  exists row st s, nth_rx 73 = Some row /\ search (rx_re row) ex_line = Match (st, s) /\
                   st = 0 /\ c_pos s = 31 /\ cap_lookup 1 (c_caps s) = Some (0, 4) /\ cap_lookup 8 (c_caps s) = Some (27, 30).
Proof.
  destruct (nth_rx 73) as [row|] eqn:E; [|vm_compute in E; discriminate].
  destruct (search (rx_re row) ex_line) as [[st s]| | |] eqn:S.
  - exists row, st, s. vm_compute in E. inversion E; subst row. vm_compute in S. inversion S; subst.
    repeat split; reflexivity.
  - vm_compute in E. inversion E; subst row. vm_compute in S. discriminate.
  - vm_compute in E. inversion E; subst row. vm_compute in S. discriminate.
  - vm_compute in E. inversion E; subst row. vm_compute in S. discriminate.
Qed.

(* the universal theorem's hypotheses: row 73 is covered, the texts fit its plan, they denote
   2024-03-01T06:59:58.123456Z (PDT = -07:00), and the model of bytes_to_regex_to_datetime returns it *)
Example covered_example :
  exists row dr,
    nth_rx 73 = Some row /\ nth_dt 73 = Some dr /\
    In row rx_table /\ In dr dt_table /\ rx_index row = r_index dr /\ ~ In (rx_index row) uncovered_rows /\
    f_epoch (r_dtfs dr) = E_none /\ fallback_ok 3600 = true /\
    slice_of row ex_line = Some (concat ex_texts ++ ex_rest) /\
    texts_ok (row_plan row) ex_texts ex_rest = true /\
    denoted_instant (r_dtfs dr) (plan_caps row (row_plan row) ex_texts) None 3600 = Some 1709276398123456000%Z /\
    option_map (fun x => fst (fst x)) (dated_model month_table tz_table row (r_dtfs dr) ex_line None 3600)
      = Some 1709276398123456000%Z.
Proof.
  destruct (nth_rx 73) as [row|] eqn:E; [|vm_compute in E; discriminate].
  destruct (nth_dt 73) as [dr|] eqn:D; [|vm_compute in D; discriminate].
  exists row, dr.
  assert (Hin : In row rx_table) by (apply (find_some _ _ E)).
  assert (Hid : In dr dt_table) by (apply (find_some _ _ D)).
  split; [reflexivity|]. split; [reflexivity|]. split; [exact Hin|]. split; [exact Hid|].
  vm_compute in E. inversion E; subst row. vm_compute in D. inversion D; subst dr.
  split; [reflexivity|].
  split; [intros H; vm_compute in H; repeat (destruct H as [H|H]; [discriminate|]); exact H|].
  split; [reflexivity|]. split; [reflexivity|].
  split; [vm_compute; reflexivity|]. split; [vm_compute; reflexivity|].
  split; vm_compute; reflexivity.
Qed.
