(* Proofs/CachesYearParam.v — the cached SyslineReader is PARAMETRIC in the instants it stores.

   rdS phi st = the state st with the instant of every stored message (in `syslines` and in the find_sysline LRU cache)
   replaced by phi (its begin offset).  find_sysline looks at stored instants nowhere: it passes stored messages through
   (check_store) and decides with `dated` only whether a line is dated; the parse cache and the LineReader are not touched
   by rdS.  Hence find_sysline COMMUTES with rdS - provided the message it builds gets the instant phi gives its offset,
   which is the case when phi b is what the call's oracle says about the line at b (c_find_sysline_rd). *)
From S4.Base Require Import Bytes Chunk.
From S4.Spec Require Import LinesSpec.
From S4.Model Require Import Lines Syslines Caches.
From S4.Proofs Require Import LinesProofs SyslinesProofs CachesProofs CachesSysProofs CachesRunProofs.
Open Scope N_scope.

Section MapV.
  Context {A B : Type}.
  Variable g : A -> B.
  Definition mapv (m : list (N * A)) : list (N * B) := map (fun kv => (fst kv, g (snd kv))) m.

  Lemma alookup_mapv k m : alookup k (mapv m) = option_map g (alookup k m).
  Proof. unfold mapv. induction m as [|[k' v] m IH]; cbn; [reflexivity|]. destruct (k =? k'); [reflexivity|exact IH]. Qed.
  Lemma aremove_mapv k m : aremove k (mapv m) = mapv (aremove k m).
  Proof. unfold mapv. induction m as [|[k' v] m IH]; cbn; [reflexivity|]. destruct (k =? k'); cbn; [exact IH|rewrite IH; reflexivity]. Qed.
  Lemma ainsert_mapv k v m : ainsert k (g v) (mapv m) = mapv (ainsert k v m).
  Proof.
    unfold mapv. induction m as [|[k' v'] m IH]; cbn; [reflexivity|]. destruct (k <? k'); [reflexivity|].
    destruct (k =? k'); cbn; [reflexivity|]. rewrite IH. reflexivity.
  Qed.
  Lemma firstn_mapv n m : firstn n (mapv m) = mapv (firstn n m).
  Proof. unfold mapv. rewrite firstn_map. reflexivity. Qed.
  Lemma lru_put_mapv cap k v m : lru_put cap k (g v) (mapv m) = mapv (lru_put cap k v m).
  Proof. unfold lru_put. rewrite aremove_mapv. change ((k, g v) :: mapv (aremove k m)) with (mapv ((k, v) :: aremove k m)). apply firstn_mapv. Qed.
  Lemma lru_get_mapv k m : lru_get k (mapv m) = (option_map g (fst (lru_get k m)), mapv (snd (lru_get k m))).
  Proof.
    unfold lru_get. rewrite alookup_mapv. destruct (alookup k m); cbn; [|reflexivity]. rewrite aremove_mapv. reflexivity.
  Qed.
  Lemma lenN_mapv m : lenN (mapv m) = lenN m.
  Proof. unfold mapv, lenN. rewrite map_length. reflexivity. Qed.
  Lemma map_snd_mapv m : map snd (mapv m) = map g (map snd m).
  Proof. unfold mapv. rewrite !map_map. reflexivity. Qed.
End MapV.

Section Redate.
  Variable bs : N.
  Variable f : file.
  Variable phi : N -> Z.

  Definition rd_ssl (s : ssl) : ssl :=
    match ss_begin bs s with Some b => (ss_id s, phi b, ss_lines s) | None => s end.
  Definition rd_sres (r : sres) : sres := match r with SF n s => SF n (rd_ssl s) | SD => SD end.
  Definition rd_res (r : res (N * ssl)) : res (N * ssl) :=
    match r with Found (n, s) => Found (n, rd_ssl s) | Done => Done | OutOfFuel => OutOfFuel | Panic => Panic end.
  Definition rdS (st : sr_state) : sr_state :=
    mkSR (s_lr st) (mapv rd_ssl (s_syslines st)) (s_range st) (mapv rd_sres (s_lru st)) (s_on st) (s_parse st)
         (s_parse_on st) (s_nid st) (s_cnt st).

  Lemma rd_lines s : ss_lines (rd_ssl s) = ss_lines s.
  Proof. unfold rd_ssl. destruct (ss_begin bs s); reflexivity. Qed.
  Lemma rd_id s : ss_id (rd_ssl s) = ss_id s.
  Proof. unfold rd_ssl. destruct (ss_begin bs s); reflexivity. Qed.
  Lemma rd_begin s : ss_begin bs (rd_ssl s) = ss_begin bs s.
  Proof. unfold ss_begin, ss_sysline. cbn [snd]. rewrite rd_lines. reflexivity. Qed.
  Lemma rd_end s : ss_end bs (rd_ssl s) = ss_end bs s.
  Proof. unfold ss_end, ss_sysline. cbn [snd]. rewrite rd_lines. reflexivity. Qed.
  Lemma rd_last s : is_sysline_last bs f (ss_sysline (rd_ssl s)) = is_sysline_last bs f (ss_sysline s).
  Proof. unfold is_sysline_last. change (sysline_fo_end bs (ss_sysline (rd_ssl s))) with (ss_end bs (rd_ssl s)). rewrite rd_end. reflexivity. Qed.
  Lemma rd_bo_last s : ss_bo_last (rd_ssl s) = ss_bo_last s.
  Proof. unfold ss_bo_last. rewrite rd_lines. reflexivity. Qed.
  Lemma rd_bo_first s : ss_bo_first (rd_ssl s) = ss_bo_first s.
  Proof. unfold ss_bo_first. rewrite rd_lines. reflexivity. Qed.
  Lemma rd_idem s : rd_ssl (rd_ssl s) = rd_ssl s.
  Proof. unfold rd_ssl at 1. rewrite rd_begin. unfold rd_ssl. destruct (ss_begin bs s); reflexivity. Qed.

  (* the live Sysline objects *)
  Lemma dedup_rd l : forall seen, dedup_ssl (map rd_ssl l) seen = map rd_ssl (dedup_ssl l seen).
  Proof.
    induction l as [|s l IH]; intro seen; cbn [map dedup_ssl]; [reflexivity|]. rewrite rd_id.
    destruct (existsb (N.eqb (ss_id s)) seen); [apply IH|]. cbn [map]. rewrite IH. reflexivity.
  Qed.
  Lemma sres_ssl_rd lru : flat_map sres_ssl (mapv rd_sres lru) = map rd_ssl (flat_map sres_ssl lru).
  Proof.
    unfold mapv. induction lru as [|[k r] lru IH]; [reflexivity|]. cbn [map flat_map fst snd]. rewrite IH.
    destruct r as [n s|]; reflexivity.
  Qed.
  Lemma live_rd st : live_ssl (rdS st) = map rd_ssl (live_ssl st).
  Proof.
    unfold live_ssl. cbn [rdS s_syslines s_lru]. rewrite map_snd_mapv, sres_ssl_rd, <- map_app. apply dedup_rd.
  Qed.
  Lemma flat_lines_rd l : flat_map ss_lines (map rd_ssl l) = flat_map ss_lines l.
  Proof. induction l as [|s l IH]; cbn; [reflexivity|]. rewrite rd_lines, IH. reflexivity. Qed.
  Lemma held_rd st acc : sr_held (rdS st) acc = sr_held st acc.
  Proof. unfold sr_held. rewrite live_rd, flat_lines_rd. reflexivity. Qed.

  (* ---------------------------------------------------------------- what does not look at the stores *)
  Section Oracle.
    Variable dated : list N -> option Z.

    Lemma parse_rd st s : sr_parse dated bs f (rdS st) s = (rdS (fst (sr_parse dated bs f st s)), snd (sr_parse dated bs f st s)).
    Proof.
      unfold sr_parse. cbn [rdS s_parse_on s_parse]. destruct (s_parse_on st); [|reflexivity].
      destruct (line_fo_begin bs (sl_parts s)) as [key|]; [|reflexivity].
      destruct (lru_get key (s_parse st)) as [[z|] c]; [reflexivity|].
      destruct (dated (bytes_of bs f (sl_parts s))); reflexivity.
    Qed.

    Lemma find_line_rd st acc fo :
      sr_find_line bs f (rdS st) acc fo = (rdS (fst (sr_find_line bs f st acc fo)), snd (sr_find_line bs f st acc fo)).
    Proof.
      unfold sr_find_line. rewrite held_rd. cbn [rdS s_lr].
      destruct (c_find_line bs f (lr_set_ext (sr_held st acc) (s_lr st)) fo) as [[l r] p]. reflexivity.
    Qed.

    Lemma put_rd st fo r : sr_put (rdS st) fo (rd_sres r) = rdS (sr_put st fo r).
    Proof.
      unfold sr_put. cbn [rdS s_on]. destruct (s_on st); [|reflexivity].
      unfold sr_put_always, sr_set_lru, sr_cnt, rdS. cbn [s_lr s_syslines s_range s_lru s_on s_parse s_parse_on s_nid s_cnt]. rewrite lru_put_mapv. reflexivity.
    Qed.
    Lemma put_always_rd st fo r : sr_put_always (rdS st) fo (rd_sres r) = rdS (sr_put_always st fo r).
    Proof. unfold sr_put_always, sr_set_lru, sr_cnt, rdS. cbn [s_lr s_syslines s_range s_lru s_on s_parse s_parse_on s_nid s_cnt]. rewrite lru_put_mapv. reflexivity. Qed.

    Lemma loop_a_rd fuel : forall st fo fo1 tried mx,
      c_loop_a dated fuel bs f (rdS st) fo fo1 tried mx =
      (rdS (fst (c_loop_a dated fuel bs f st fo fo1 tried mx)), snd (c_loop_a dated fuel bs f st fo fo1 tried mx)).
    Proof.
      induction fuel as [|k IH]; intros st fo fo1 tried mx; cbn [c_loop_a]; [reflexivity|].
      rewrite find_line_rd. destruct (sr_find_line bs f st [] fo1) as [st1 r1]. cbn [fst snd].
      destruct r1 as [[fo2 ln]| | |]; try reflexivity.
      - rewrite parse_rd. destruct (sr_parse dated bs f st1 ln) as [st2 o]. cbn [fst snd].
        destruct o as [dt|].
        + destruct (line_fo_end bs (sl_parts ln)); reflexivity.
        + destruct (line_fo_begin bs (sl_parts ln)) as [lb|]; [|reflexivity].
          destruct tried; [apply IH|]. destruct (1 <? lb); [|apply IH].
          cbn [rdS s_range]. destruct (range_get (s_range st2) (lb - 1)); apply IH.
      - change SD with (rd_sres SD). rewrite put_rd. reflexivity.
    Qed.

    Lemma loop_b_rd fuel : forall st fo1 acc,
      c_loop_b dated fuel bs f (rdS st) fo1 acc =
      (rdS (fst (c_loop_b dated fuel bs f st fo1 acc)), snd (c_loop_b dated fuel bs f st fo1 acc)).
    Proof.
      induction fuel as [|k IH]; intros st fo1 acc; cbn [c_loop_b]; [reflexivity|].
      rewrite find_line_rd. destruct (sr_find_line bs f st acc fo1) as [st1 r1]. cbn [fst snd].
      destruct r1 as [[fo2 ln]| | |]; try reflexivity.
      rewrite parse_rd. destruct (sr_parse dated bs f st1 ln) as [st2 o]. cbn [fst snd].
      destruct o; [reflexivity|apply IH].
    Qed.

    Definition rd_ans (a : sr_state * res (N * ssl) * spath) : sr_state * res (N * ssl) * spath :=
      let '(st, r, p) := a in (rdS st, rd_res r, p).

    Lemma cnt_rd d st : sr_cnt d (rdS st) = rdS (sr_cnt d st).
    Proof. reflexivity. Qed.
    Lemma sres_result_rd r : sres_result (rd_sres r) = rd_res (sres_result r).
    Proof. destruct r; reflexivity. Qed.

    Lemma check_store_rd st fo :
      sr_check_store bs f (rdS st) fo =
      (option_map rd_ans (fst (sr_check_store bs f st fo)), rdS (snd (sr_check_store bs f st fo))).
    Proof.
      unfold sr_check_store. cbn [rdS s_on s_lru].
      assert (STEP : (if s_on st
                      then match lru_get fo (mapv rd_sres (s_lru st)) with
                           | (Some r, c) => (Some r, sr_cnt d_lru_hit (sr_set_lru c (rdS st)))
                           | (None, _) => (None, sr_cnt d_lru_miss (rdS st))
                           end
                      else (None, rdS st)) =
                     (option_map rd_sres (fst (if s_on st
                        then match lru_get fo (s_lru st) with
                             | (Some r, c) => (Some r, sr_cnt d_lru_hit (sr_set_lru c st))
                             | (None, _) => (None, sr_cnt d_lru_miss st)
                             end
                        else (None, st))),
                      rdS (snd (if s_on st
                        then match lru_get fo (s_lru st) with
                             | (Some r, c) => (Some r, sr_cnt d_lru_hit (sr_set_lru c st))
                             | (None, _) => (None, sr_cnt d_lru_miss st)
                             end
                        else (None, st))))).
      { destruct (s_on st); [|reflexivity]. rewrite lru_get_mapv.
        destruct (lru_get fo (s_lru st)) as [[r|] c]; reflexivity. }
      change (mkSR (s_lr st) (mapv rd_ssl (s_syslines st)) (s_range st) (mapv rd_sres (s_lru st)) (s_on st)
                   (s_parse st) (s_parse_on st) (s_nid st) (s_cnt st)) with (rdS st).
      rewrite STEP. clear STEP.
      destruct (if s_on st then _ else _) as [[r|] st1]; cbn [fst snd option_map].
      { rewrite sres_result_rd. reflexivity. }
      cbn [rdS s_range s_syslines sr_cnt].
      destruct (range_get (s_range st1) fo) as [v|].
      - rewrite alookup_mapv. destruct (alookup v (s_syslines st1)) as [s|]; cbn [option_map]; [|reflexivity].
        rewrite rd_end. destruct (ss_end bs s) as [e|]; [|reflexivity].
        change (SF (e + 1) (rd_ssl s)) with (rd_sres (SF (e + 1) s)).
        rewrite cnt_rd, put_always_rd. reflexivity.
      - rewrite alookup_mapv. destruct (alookup fo (s_syslines st1)) as [s|]; cbn [option_map]; [|reflexivity].
        rewrite rd_end. destruct (ss_end bs s) as [e|]; [|reflexivity].
        rewrite rd_last.
        change (SF (e + 1) (rd_ssl s)) with (rd_sres (SF (e + 1) s)).
        rewrite !cnt_rd, put_always_rd, put_rd.
        destruct (is_sysline_last bs f (ss_sysline s)); reflexivity.
    Qed.

    (* insert_sysline of a message that gets the instant phi gives its offset *)
    Lemma insert_rd st dt lns st' s : sr_insert bs st dt lns = Some (st', s) ->
      (forall b, ss_begin bs s = Some b -> phi b = dt) ->
      sr_insert bs (rdS st) dt lns = Some (rdS st', s) /\ rd_ssl s = s.
    Proof.
      unfold sr_insert. cbn [rdS s_nid].
      destruct (ss_begin bs (s_nid st, dt, lns)) as [b|] eqn:B; [|discriminate].
      destruct (ss_end bs (s_nid st, dt, lns)) as [e|] eqn:E; [|discriminate].
      intro H; injection H as <- <-. intro P.
      assert (RS : rd_ssl (s_nid st, dt, lns) = (s_nid st, dt, lns)).
      { unfold rd_ssl. rewrite B. rewrite (P b B). reflexivity. }
      split; [|exact RS]. cbn [s_syslines s_range s_lru s_on s_parse s_parse_on s_cnt s_lr].
      set (s0 := (s_nid st, dt, lns)) in *.
      assert (A : @ainsert ssl b s0 (mapv rd_ssl (s_syslines st)) = mapv rd_ssl (@ainsert ssl b s0 (s_syslines st))).
      { rewrite <- ainsert_mapv. rewrite RS. reflexivity. }
      unfold rdS. cbn [s_lr s_syslines s_range s_lru s_on s_parse s_parse_on s_nid s_cnt].
      fold s0. rewrite A, lenN_mapv. reflexivity.
    Qed.

    (* find_sysline: the call on the re-dated state, given what the original call did *)
    Lemma find_sysline_rd st fo st' r p : c_find_sysline dated bs f st fo = (st', r, p) ->
      (forall n s b, p = QSearch -> r = Found (n, s) -> ss_begin bs s = Some b -> phi b = ss_dt s) ->
      c_find_sysline dated bs f (rdS st) fo = (rdS st', rd_res r, p).
    Proof.
      unfold c_find_sysline. rewrite check_store_rd.
      destruct (sr_check_store bs f st fo) as [[[[st1 r1] p1]|] st2]; cbn [fst snd option_map rd_ans].
      { intro H; injection H as <- <- <-. reflexivity. }
      rewrite loop_a_rd. destruct (c_loop_a dated _ bs f st2 fo fo false 0) as [st3 ra]. cbn [fst snd].
      destruct ra as [[[dt ln] fo1]| | |]; try (intro H; injection H as <- <- <-; reflexivity).
      rewrite loop_b_rd. destruct (c_loop_b dated _ bs f st3 fo1 [ln]) as [st4 rb]. cbn [fst snd].
      destruct rb as [[fo_b lns]| | |]; try (intro H; injection H as <- <- <-; reflexivity).
      unfold sr_store_found. destruct (sr_insert bs st4 dt lns) as [[st5 s5]|] eqn:INS.
      - intro H; injection H as <- <- <-. intro P.
        assert (SD5 : ss_dt s5 = dt).
        { revert INS. unfold sr_insert. destruct (ss_begin bs _); [|discriminate]. destruct (ss_end bs _); [|discriminate].
          intro Q; injection Q as _ <-. reflexivity. }
        destruct (insert_rd st4 dt lns st5 s5 INS) as [INS' RS].
        { intros b B. rewrite <- SD5. apply (P fo_b s5 b eq_refl eq_refl B). }
        rewrite INS'. cbn [rd_res]. rewrite RS.
        rewrite <- RS at 1. change (SF fo_b (rd_ssl s5)) with (rd_sres (SF fo_b s5)). rewrite put_rd. reflexivity.
      - intro H; injection H as <- <- <-. intros _.
        assert (N5 : sr_insert bs (rdS st4) dt lns = None).
        { revert INS. unfold sr_insert. cbn [rdS s_nid]. destruct (ss_begin bs _); [|reflexivity]. destruct (ss_end bs _); [discriminate|reflexivity]. }
        rewrite N5. reflexivity.
    Qed.

    Lemma insert_same st dt lns st' s : sr_insert bs st dt lns = Some (st', s) ->
      exists st'', sr_insert bs (rdS st) dt lns = Some (st'', s).
    Proof.
      unfold sr_insert. cbn [rdS s_nid]. destruct (ss_begin bs _); [|discriminate]. destruct (ss_end bs _); [|discriminate].
      intro H; injection H as _ <-. eexists. reflexivity.
    Qed.

    Lemma check_store_path st fo st1 r1 p1 stm : sr_check_store bs f st fo = (Some (st1, r1, p1), stm) -> p1 <> QSearch.
    Proof.
      unfold sr_check_store.
      destruct (if s_on st then _ else _) as [[r|] st0]; [intro H; injection H as _ _ <- _; discriminate|].
      destruct (range_get (s_range st0) fo).
      - destruct (alookup _ _); [destruct (ss_end bs _)|]; intro H; injection H as _ _ <- _; discriminate.
      - destruct (alookup _ _); [destruct (ss_end bs _)|]; intro H; try discriminate H; injection H as _ _ <- _; discriminate.
    Qed.

    (* the same, the condition being on the answer of the call on the re-dated state *)
    Lemma find_sysline_rd2 st fo st' r p st2 r2 p2 :
      c_find_sysline dated bs f st fo = (st', r, p) -> c_find_sysline dated bs f (rdS st) fo = (st2, r2, p2) ->
      (forall n s b, r2 = Found (n, s) -> ss_begin bs s = Some b -> phi b = ss_dt s) ->
      st2 = rdS st' /\ r2 = rd_res r /\ p2 = p /\
      (forall n s b, p = QSearch -> r = Found (n, s) -> ss_begin bs s = Some b -> phi b = ss_dt s).
    Proof.
      intros H1 H2 P.
      enough (FACT : forall n s b, p = QSearch -> r = Found (n, s) -> ss_begin bs s = Some b -> phi b = ss_dt s).
      { pose proof (find_sysline_rd st fo st' r p H1 FACT) as E. rewrite E in H2. injection H2 as <- <- <-. auto. }
      intros n s b -> -> B.
      revert H1 H2. unfold c_find_sysline. rewrite check_store_rd.
      destruct (sr_check_store bs f st fo) as [[[[st1 r1] p1]|] stm] eqn:CS; cbn [fst snd option_map rd_ans].
      { intro H; injection H as _ _ PP. exfalso. exact (check_store_path _ _ _ _ _ _ CS PP). }
      rewrite loop_a_rd. destruct (c_loop_a dated _ bs f stm fo fo false 0) as [st3 ra]. cbn [fst snd].
      destruct ra as [[[dt ln] fo1]| | |]; try (intro H; discriminate H).
      rewrite loop_b_rd. destruct (c_loop_b dated _ bs f st3 fo1 [ln]) as [st4 rb]. cbn [fst snd].
      destruct rb as [[fo_b lns]| | |]; try (intro H; discriminate H).
      unfold sr_store_found. destruct (sr_insert bs st4 dt lns) as [[st5 s5]|] eqn:INS; [|intro H; discriminate H].
      destruct (insert_same _ _ _ _ _ INS) as (st5' & INS'). rewrite INS'.
      intro H; inversion H; subst; clear H. intro H; inversion H; subst; clear H.
      eapply P; [reflexivity|exact B].
    Qed.
  End Oracle.

  Lemma nd_rd st k : dangling_behind (rdS st) k <-> dangling_behind st k.
  Proof.
    unfold dangling_behind. cbn [rdS s_range s_syslines]. split; intros H a b v IN LK; apply (H a b v IN).
    - rewrite alookup_mapv, LK. reflexivity.
    - rewrite alookup_mapv in LK. destruct (alookup v (s_syslines st)); [discriminate|reflexivity].
  Qed.

  Lemma remove_rd st fo : c_remove_sysline bs (rdS st) fo = rdS (c_remove_sysline bs st fo).
  Proof.
    unfold c_remove_sysline, sr_lru_disable, sr_lru_enable.
    cbn [rdS s_lr s_syslines s_range s_lru s_on s_parse s_parse_on s_nid s_cnt].
    rewrite alookup_mapv. destruct (alookup fo (s_syslines st)) as [s|]; cbn [option_map].
    - rewrite rd_begin, rd_end, aremove_mapv. destruct (s_on st); reflexivity.
    - destruct (s_on st); reflexivity.
  Qed.

  Lemma asc_mapv {A B} (g : A -> B) m : asc (mapv g m) <-> asc m.
  Proof.
    unfold mapv. induction m as [|[k v] m IH]; cbn; [tauto|]. rewrite IH. split; intros [H1 H2]; (split; [|exact H2]).
    - intros k' v' IN. apply (H1 k' (g v')). apply in_map_iff. exists (k', v'). auto.
    - intros k' v' IN. apply in_map_iff in IN as ([k2 v2] & E & IN). inversion E; subst. eapply H1; eauto.
  Qed.
End Redate.

(* ---------------------------------------------------------------- what find_sysline does to `syslines` (no invariant
   needed): nothing, or it inserts the message it built and answers with it *)
Section Frame.
  Variable dated : list N -> option Z.
  Variable bs : N.
  Variable f : file.

  Lemma parse_sys st s : s_syslines (fst (sr_parse dated bs f st s)) = s_syslines st.
  Proof.
    unfold sr_parse. destruct (s_parse_on st); [|reflexivity]. destruct (line_fo_begin bs (sl_parts s)); [|reflexivity].
    destruct (lru_get _ _) as [[z|] c]; [reflexivity|]. destruct (dated _); reflexivity.
  Qed.
  Lemma find_line_sys st acc fo : s_syslines (fst (sr_find_line bs f st acc fo)) = s_syslines st.
  Proof. unfold sr_find_line. destruct (c_find_line _ _ _ _) as [[l r] p]. reflexivity. Qed.
  Lemma put_sys st fo r : s_syslines (sr_put st fo r) = s_syslines st.
  Proof. unfold sr_put. destruct (s_on st); reflexivity. Qed.

  Lemma loop_a_sys fuel : forall st fo fo1 tried mx,
    s_syslines (fst (c_loop_a dated fuel bs f st fo fo1 tried mx)) = s_syslines st.
  Proof.
    induction fuel as [|k IH]; intros st fo fo1 tried mx; cbn [c_loop_a]; [reflexivity|].
    pose proof (find_line_sys st [] fo1) as E1. destruct (sr_find_line bs f st [] fo1) as [st1 r1]. cbn [fst] in E1.
    destruct r1 as [[fo2 ln]| | |]; try exact E1; [|cbn [fst]; rewrite put_sys; exact E1].
    pose proof (parse_sys st1 ln) as E2. destruct (sr_parse dated bs f st1 ln) as [st2 o]. cbn [fst] in E2.
    destruct o as [dt|].
    - destruct (line_fo_end bs (sl_parts ln)); cbn [fst]; congruence.
    - destruct (line_fo_begin bs (sl_parts ln)) as [lb|]; [|cbn [fst]; congruence].
      destruct tried; [rewrite IH; congruence|]. destruct (1 <? lb); [|rewrite IH; congruence].
      destruct (range_get (s_range st2) (lb - 1)); rewrite IH; congruence.
  Qed.

  Lemma loop_b_sys fuel : forall st fo1 acc, s_syslines (fst (c_loop_b dated fuel bs f st fo1 acc)) = s_syslines st.
  Proof.
    induction fuel as [|k IH]; intros st fo1 acc; cbn [c_loop_b]; [reflexivity|].
    pose proof (find_line_sys st acc fo1) as E1. destruct (sr_find_line bs f st acc fo1) as [st1 r1]. cbn [fst] in E1.
    destruct r1 as [[fo2 ln]| | |]; try exact E1.
    pose proof (parse_sys st1 ln) as E2. destruct (sr_parse dated bs f st1 ln) as [st2 o]. cbn [fst] in E2.
    destruct o; [cbn [fst]; congruence|rewrite IH; congruence].
  Qed.

  Lemma check_store_sys st fo :
    s_syslines (snd (sr_check_store bs f st fo)) = s_syslines st /\
    match fst (sr_check_store bs f st fo) with Some (st', _, _) => s_syslines st' = s_syslines st | None => True end.
  Proof.
    unfold sr_check_store.
    assert (E0 : s_syslines (snd (if s_on st
                        then match lru_get fo (s_lru st) with
                             | (Some r, c) => (Some r, sr_cnt d_lru_hit (sr_set_lru c st))
                             | (None, _) => (None, sr_cnt d_lru_miss st)
                             end
                        else (None, st))) = s_syslines st).
    { destruct (s_on st); [|reflexivity]. destruct (lru_get fo (s_lru st)) as [[r|] c]; reflexivity. }
    destruct (if s_on st then _ else _) as [[r|] st0]; cbn [fst snd] in *; [auto|].
    destruct (range_get (s_range st0) fo).
    - cbn [s_syslines sr_cnt]. destruct (alookup _ _); [destruct (ss_end bs _)|]; cbn [fst snd]; auto.
    - cbn [s_syslines sr_cnt]. destruct (alookup _ _); [destruct (ss_end bs _)|]; cbn [fst snd]; auto.
      split; [exact E0|]. destruct (is_sysline_last bs f _); [exact E0|]. rewrite put_sys. exact E0.
  Qed.

  Lemma find_sysline_frame st fo st' r p : c_find_sysline dated bs f st fo = (st', r, p) ->
    s_syslines st' = s_syslines st \/
    exists n s b, r = Found (n, s) /\ p = QSearch /\ ss_begin bs s = Some b /\ s_syslines st' = ainsert b s (s_syslines st).
  Proof.
    unfold c_find_sysline. destruct (check_store_sys st fo) as [E0 E1].
    destruct (sr_check_store bs f st fo) as [[[[st1 r1] p1]|] stm]; cbn [fst snd] in *.
    { intro H; injection H as <- _ _. left. exact E1. }
    pose proof (loop_a_sys (2 * length f + 3) stm fo fo false 0) as EA.
    destruct (c_loop_a dated _ bs f stm fo fo false 0) as [st3 ra]. cbn [fst] in EA.
    destruct ra as [[[dt ln] fo1]| | |]; try (intro H; injection H as <- _ _; left; congruence).
    pose proof (loop_b_sys (2 * length f + 3) st3 fo1 [ln]) as EB.
    destruct (c_loop_b dated _ bs f st3 fo1 [ln]) as [st4 rb]. cbn [fst] in EB.
    destruct rb as [[fo_b lns]| | |]; try (intro H; injection H as <- _ _; left; congruence).
    unfold sr_store_found, sr_insert.
    destruct (ss_begin bs (s_nid st4, dt, lns)) as [b|] eqn:B; [|intro H; injection H as <- _ _; left; congruence].
    destruct (ss_end bs (s_nid st4, dt, lns)) as [e|]; [|intro H; injection H as <- _ _; left; congruence].
    intro H; injection H as <- <- <-. right. exists fo_b, (s_nid st4, dt, lns), b.
    split; [reflexivity|]. split; [reflexivity|]. split; [exact B|]. rewrite put_sys. cbn [s_syslines]. congruence.
  Qed.
End Frame.

(* a call that check_store answers does not consult the oracle: stage 3 of a year-less file (oracle: the filler year)
   gets the messages the reverse pass stored, with the instants it gave them *)
Lemma find_sysline_hit_oracle_free (D1 D2 : list N -> option Z) bs (f : file) st fo a stm :
  sr_check_store bs f st fo = (Some a, stm) -> c_find_sysline D1 bs f st fo = c_find_sysline D2 bs f st fo.
Proof. intro H. unfold c_find_sysline. rewrite H. reflexivity. Qed.

