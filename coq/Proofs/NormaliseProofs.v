(* Proofs/NormaliseProofs.v — C04: the normalisation pipeline preserves the denoted instant. *)
From Coq Require Import String Lia.
From S4.Base Require Import Bytes.
From S4.Model Require Import Calendar Normalise.
From S4.Gen Require Import DatetimeTables.
From S4.Spec Require Import CalendarSpec TzRef NormaliseSpec.
From S4.Proofs Require Import CalendarProofs CalendarExtra NormaliseTablesOk.
Close Scope string_scope.
Open Scope list_scope.
Open Scope N_scope.

(* ------------------------------------------------------------------ digits *)
Lemma digit_is_digit b : digit b = is_digit b.
Proof. reflexivity. Qed.

Lemma num_of_app a b acc : num_of (a ++ b) acc = num_of b (num_of a acc).
Proof. revert acc. induction a as [|x a IH]; intros acc; cbn; [reflexivity|apply IH]. Qed.

Lemma num_of_zeros k acc : num_of (zeros k) acc = (acc * 10 ^ Z.of_nat k)%Z.
Proof.
  revert acc. induction k as [|k IH]; intros acc.
  - cbn. lia.
  - cbn [zeros repeat num_of]. change (repeat 48 k) with (zeros k). rewrite IH.
    replace (Z.of_N (48 - 48)) with 0%Z by reflexivity.
    rewrite Nat2Z.inj_succ, Z.pow_succ_r by lia. lia.
Qed.

Lemma pad_frac_eq f : (1 <= length f <= 9)%nat -> pad_frac f = f ++ zeros (9 - length f).
Proof.
  intros H. unfold pad_frac.
  destruct (length f) as [|[|[|[|[|[|[|[|[|[|n]]]]]]]]]]; try lia; cbn [Nat.sub]; try reflexivity.
  cbn. rewrite app_nil_r. reflexivity.
Qed.

(* 1..9 written fraction digits denote exactly that fraction: the padded buffer piece has nine digits
   and its value in nanoseconds is digits * 10^(9-n) *)
Theorem pad9_value_lemma f :
  (1 <= length f <= 9)%nat -> forallb is_digit f = true ->
  length (pad_frac f) = 9%nat /\ forallb is_digit (pad_frac f) = true /\
  num_of (pad_frac f) 0 = (num_of f 0 * 10 ^ Z.of_nat (9 - length f))%Z /\
  frac_ns f = Some (num_of (pad_frac f) 0).
Proof.
  intros L D. rewrite pad_frac_eq by assumption. repeat split.
  - rewrite app_length. unfold zeros. rewrite repeat_length. lia.
  - rewrite forallb_app, D. cbn [andb]. unfold zeros. clear. induction (9 - length f)%nat; cbn; auto.
  - rewrite num_of_app, num_of_zeros. reflexivity.
  - unfold frac_ns. replace (1 <=? length f)%nat with true by (symmetry; apply Nat.leb_le; lia).
    replace (length f <=? 9)%nat with true by (symmetry; apply Nat.leb_le; lia).
    cbn [andb]. change (forallb digit f) with (forallb is_digit f). rewrite D.
    rewrite num_of_app, num_of_zeros. reflexivity.
Qed.

(* ------------------------------------------------------------------ F7: epoch forms are shifted *)
Definition epoch_caps (t : bytes) : caps := mkCaps None None None None None None None None (Some t).
Definition dtfss_s : dtfs := mkDtfs Y_none Mo_none D_none H_none Mi_none S_none F_none Tz_none E_s "%sT".

(* "1843250587 hello" read with --tz-offset=-03:30: the text denotes 1843250587 s, the code says 1843263187 s *)
Definition f7_caps : caps := epoch_caps [49; 56; 52; 51; 50; 53; 48; 53; 56; 55].
Definition is_epoch_row (r : dt_row) : bool := match f_epoch (r_dtfs r) with E_s => true | E_none => false end.
Definition epoch_refuted_b : bool :=
  existsb (fun r => is_epoch_row r
                    && oZ_eqb (denoted_instant (r_dtfs r) f7_caps None (-12600)) (Some (1843250587 * 1000000000)%Z)
                    && oZ_eqb (model_instant month_table tz_table (r_dtfs r) f7_caps None (-12600)) (Some (1843263187 * 1000000000)%Z))
          dt_table.
Lemma oZ_eqb_eq a b : oZ_eqb a b = true -> a = b.
Proof. destruct a, b; cbn; intros H; try discriminate; try reflexivity. apply Z.eqb_eq in H. congruence. Qed.

Lemma epoch_refuted_lemma :
  exists r c off,
    In r dt_table /\ f_epoch (r_dtfs r) = E_s /\ fallback_ok off = true /\
    denoted_instant (r_dtfs r) c None off = Some (1843250587 * 1000000000)%Z /\
    model_instant month_table tz_table (r_dtfs r) c None off = Some (1843263187 * 1000000000)%Z.
Proof.
  assert (H : epoch_refuted_b = true) by (vm_compute; reflexivity).
  apply existsb_exists in H as [r [Hin Hr]].
  apply andb_true_iff in Hr as [Hr H3]. apply andb_true_iff in Hr as [H1 H2].
  exists r, f7_caps, (-12600)%Z. repeat split; try assumption.
  - unfold is_epoch_row in H1. destruct (f_epoch (r_dtfs r)); [reflexivity|discriminate].
  - apply oZ_eqb_eq. exact H2.
  - apply oZ_eqb_eq. exact H3.
Qed.

(* with the fallback zone at UTC the same text is read correctly: the defect is exactly the zone shift *)
Lemma epoch_utc_example :
  existsb (fun r => is_epoch_row r
                    && oZ_eqb (model_instant month_table tz_table (r_dtfs r) f7_caps None 0) (Some (1843250587 * 1000000000)%Z))
          dt_table = true.
Proof. vm_compute. reflexivity. Qed.

(* ------------------------------------------------------------------ zones: fallback rules *)
Lemma assoc_in {A} (k : bytes) (l : list (bytes * A)) (v : A) : assoc k l = Some v -> In (k, v) l.
Proof.
  induction l as [|[k' v'] l IH]; cbn; [discriminate|].
  destruct (beqb k k') eqn:E.
  - intros H. inversion H; subst. apply beqb_eq in E. subst. left. reflexivity.
  - intros H. right. apply IH. exact H.
Qed.

(* no zone in the notation: the fallback zone's own text is appended *)
Lemma no_zone_fallback_lemma d c tzs :
  f_tz d = Tz_fill -> seg_tz tz_table d c tzs = Some tzs.
Proof. intros H. unfold seg_tz. rewrite H. reflexivity. Qed.

(* an ambiguous abbreviation (reference: None) is replaced by the fallback zone's text *)
Lemma ambiguous_zone_fallback_lemma d c t tzs :
  f_tz d = Tz_Z -> c_tz c = Some t -> zone_of_name t = Some None ->
  seg_tz tz_table d c tzs = Some tzs.
Proof.
  intros Hd Hc Hz. unfold zone_of_name in Hz. apply assoc_in in Hz.
  destruct (tz_matches_ref_all _ _ Hz) as [s [Hs Hv]].
  unfold seg_tz. rewrite Hd, Hc, Hs.
  destruct s as [|b s']; [reflexivity|].
  exfalso. unfold tz_value_off in Hv.
  destruct (scan_offset false (b :: s')) as [[o [|x r]]|]; discriminate.
Qed.

(* an unambiguous abbreviation is replaced by a text that chrono's offset scanner reads, completely,
   as exactly the reference offset *)
Lemma named_zone_offset_lemma d c t o tzs :
  f_tz d = Tz_Z -> c_tz c = Some t -> zone_of_name t = Some (Some o) ->
  exists s, seg_tz tz_table d c tzs = Some s /\ scan_offset false s = Some (o, []).
Proof.
  intros Hd Hc Hz. unfold zone_of_name in Hz. apply assoc_in in Hz.
  destruct (tz_matches_ref_all _ _ Hz) as [s [Hs Hv]].
  exists s. unfold seg_tz. rewrite Hd, Hc, Hs.
  unfold tz_value_off in Hv. destruct s as [|b s']; [discriminate|].
  split; [reflexivity|].
  destruct (scan_offset false (b :: s')) as [[o' [|x r]]|]; try discriminate.
  inversion Hv. reflexivity.
Qed.
