(* Proofs/CoordTablesOk.v — obligations on the regenerated coordinator constants. *)
From Coq Require Import NArith Arith Lia.
From S4.Gen Require Import CoordTables.

(* the theorems of Props/C06.v hold for every capacity >= 1; the shipped one qualifies *)
Lemma capacity_pos : (1 <= channel_capacity)%N.
Proof. vm_compute. discriminate. Qed.

Lemma capacity_pos_nat : 1 <= N.to_nat channel_capacity.
Proof. pose proof capacity_pos. lia. Qed.
