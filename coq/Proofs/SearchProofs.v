(* Proofs/SearchProofs.v — property C03: the searches of Model/Search.v meet Spec/WindowSpec.v *)
From Coq Require Import List NArith ZArith Bool Lia.
Import ListNotations.
From S4.Spec Require Import WindowSpec.
From S4.Model Require Import Search.
Open Scope N_scope.

(* ================================================================= comparisons are inclusive *)

Lemma dt_after_or_before_none dt : dt_after_or_before dt None = Pass.
Proof. reflexivity. Qed.

Lemma dt_after_or_before_before dt a :
  dt_after_or_before dt (Some a) = OccursBefore <-> (dt < a)%Z.
Proof.
  unfold dt_after_or_before. destruct (Z.ltb_spec dt a); split; intros; try easy; lia.
Qed.

Lemma dt_after_or_before_at_or_after dt a :
  dt_after_or_before dt (Some a) = OccursAtOrAfter <-> (a <= dt)%Z.
Proof.
  unfold dt_after_or_before. destruct (Z.ltb_spec dt a); split; intros; try easy; lia.
Qed.

Lemma dt_after_or_before_geq dt f :
  dt_after_or_before dt f <> OccursBefore <-> geq_lo f dt = true.
Proof.
  destruct f as [a|]; simpl; [|split; intros; easy].
  destruct (Z.ltb_spec dt a); destruct (Z.leb_spec a dt); split; intros; try easy; lia.
Qed.

Lemma dt_pass_filters_in_range dt a b :
  dt_pass_filters dt a b = InRange <-> in_window a b dt = true.
Proof.
  unfold dt_pass_filters, in_window, geq_lo, leq_hi.
  destruct a as [a|], b as [b|]; simpl;
    repeat match goal with
           | |- context [(?x <? ?y)%Z] => destruct (Z.ltb_spec x y)
           | |- context [(?x <=? ?y)%Z] => destruct (Z.leb_spec x y)
           end; split; intros; try easy; try lia.
Qed.

Lemma dt_pass_filters_before dt a b :
  dt_pass_filters dt a b = BeforeRange <-> geq_lo a dt = false.
Proof.
  unfold dt_pass_filters, geq_lo.
  destruct a as [a|], b as [b|]; simpl;
    repeat match goal with
           | |- context [(?x <? ?y)%Z] => destruct (Z.ltb_spec x y)
           | |- context [(?x <=? ?y)%Z] => destruct (Z.leb_spec x y)
           end; split; intros; try easy; try lia.
Qed.

Lemma dt_pass_filters_after dt a b :
  dt_pass_filters dt a b = AfterRange <-> geq_lo a dt = true /\ leq_hi b dt = false.
Proof.
  unfold dt_pass_filters, geq_lo, leq_hi.
  destruct a as [a|], b as [b|]; simpl;
    repeat match goal with
           | |- context [(?x <? ?y)%Z] => destruct (Z.ltb_spec x y)
           | |- context [(?x <=? ?y)%Z] => destruct (Z.leb_spec x y)
           end; split; intros; try easy; try lia.
Qed.

(* the window test of the code is the window of the spec, on the instant itself (equality included) *)
Lemma dt_pass_filters_on_bound dt : dt_pass_filters dt (Some dt) (Some dt) = InRange.
Proof. apply dt_pass_filters_in_range. unfold in_window; simpl. rewrite Z.leb_refl. reflexivity. Qed.

(* ================================================================= chains of messages *)

Fixpoint chain (b : N) (gs : list sl) (e : N) : Prop :=
  match gs with
  | [] => b = e
  | s :: r => s_beg s = b /\ chain (s_next s) r e
  end.

Lemma s_next_ge s : s_beg s <= s_next s.
Proof. unfold s_next. lia. Qed.

Lemma chain_place b l : chain b (place b l) (b + total l).
Proof.
  revert b. induction l as [|[n t] r IH]; intros b; simpl.
  - lia.
  - split; [reflexivity|]. unfold s_next; simpl. replace (b + (n + total r)) with (b + n + total r) by lia. apply IH.
Qed.

Lemma chain_app b p q e : chain b (p ++ q) e <-> exists m, chain b p m /\ chain m q e.
Proof.
  revert b. induction p as [|s p IH]; intros b; simpl.
  - split.
    + intros H. exists b. split; [reflexivity|exact H].
    + intros [m [-> H]]. exact H.
  - split.
    + intros [Hb H]. apply IH in H. destruct H as [m [H1 H2]]. exists m. tauto.
    + intros [m [[Hb H1] H2]]. split; [exact Hb|]. apply IH. exists m. tauto.
Qed.

Lemma chain_le b gs e : chain b gs e -> b <= e.
Proof.
  revert b. induction gs as [|s r IH]; intros b; simpl.
  - lia.
  - intros [Hb H]. apply IH in H. pose proof (s_next_ge s). lia.
Qed.

Lemma chain_in b gs e s : chain b gs e -> In s gs -> b <= s_beg s /\ s_next s <= e.
Proof.
  revert b. induction gs as [|x r IH]; intros b; simpl; [tauto|].
  intros [Hb H] [->|Hin].
  - apply chain_le in H. lia.
  - destruct (IH _ H Hin). pose proof (s_next_ge x). lia.
Qed.

Lemma chain_snoc b p m s : chain b p m -> s_beg s = m -> chain b (p ++ [s]) (s_next s).
Proof. intros H1 H2. apply chain_app. exists m. simpl. tauto. Qed.

Definition lens_ge (k : N) (gs : list sl) : Prop := Forall (fun s => k <= s_len s) gs.

Lemma place_lens k b l : Forall (fun g => k <= fst g) l -> lens_ge k (place b l).
Proof.
  revert b. induction l as [|[n t] r IH]; intros b H; simpl.
  - constructor.
  - inversion H as [|? ? H1 H2]; subst. constructor; [exact H1|apply IH; exact H2].
Qed.

(* with messages of at least one byte, a chain that ends where it starts is empty *)
Lemma chain_nil_of_eq b gs : lens_ge 1 gs -> chain b gs b -> gs = [].
Proof.
  destruct gs as [|s r]; [reflexivity|]. intros Hl [Hb H]. exfalso.
  inversion Hl; subst. apply chain_le in H. unfold s_next in H. lia.
Qed.

(* ================================================================= the oracle find *)

Lemma find_in_skip p q fo :
  Forall (fun s => s_next s <= fo) p -> find_in (p ++ q) fo = find_in q fo.
Proof.
  induction p as [|s p IH]; intros H; simpl; [reflexivity|].
  inversion H; subst. destruct (N.ltb_spec fo (s_next s)); [lia|]. auto.
Qed.

Lemma find_in_skip_chain b p m q fo :
  chain b p m -> m <= fo -> find_in (p ++ q) fo = find_in q fo.
Proof.
  intros Hc Hm. apply find_in_skip. apply Forall_forall. intros s Hs.
  destruct (chain_in _ _ _ _ Hc Hs). lia.
Qed.

Lemma find_in_split gs fo s :
  find_in gs fo = FFound s ->
  exists p r, gs = p ++ s :: r /\ Forall (fun x => s_next x <= fo) p /\ fo < s_next s.
Proof.
  induction gs as [|x r IH]; simpl; [discriminate|].
  destruct (N.ltb_spec fo (s_next x)).
  - intros E; inversion E; subst. exists [], r. simpl. auto.
  - intros E. destruct (IH E) as [p [r' [-> [Hp Hs]]]].
    exists (x :: p), r'. simpl. auto.
Qed.

Lemma find_in_done gs fo : find_in gs fo = FDone -> Forall (fun x => s_next x <= fo) gs.
Proof.
  induction gs as [|x r IH]; simpl; [constructor|].
  destruct (N.ltb_spec fo (s_next x)); [discriminate|]. intros E. constructor; auto.
Qed.

Lemma find_in_done_mono gs fo fo' : find_in gs fo = FDone -> fo <= fo' -> find_in gs fo' = FDone.
Proof.
  intros H Hle. apply find_in_done in H.
  rewrite <- (app_nil_r gs). rewrite find_in_skip; [reflexivity|].
  eapply Forall_impl; [|exact H]. simpl; intros; lia.
Qed.

(* an offset before the end of a non-empty chain finds one of its messages *)
Lemma find_in_prefix b p m q fo :
  p <> [] -> chain b p m -> fo < m ->
  exists s, find_in (p ++ q) fo = FFound s /\ In s p /\ fo < s_next s.
Proof.
  revert b. induction p as [|s p IH]; intros b Hne Hc Hfo; [congruence|].
  simpl in *. destruct Hc as [Hb Hc].
  destruct (N.ltb_spec fo (s_next s)).
  - exists s. auto.
  - destruct p as [|s' p'].
    + simpl in Hc. lia.
    + destruct (IH (s_next s)) as [x [E [Hin Hx]]]; try easy.
      exists x. auto.
Qed.

(* an offset inside a chain finds the message that contains it *)
Lemma find_in_within m q e fo :
  chain m q e -> m <= fo -> fo < e ->
  exists s, find_in q fo = FFound s /\ In s q /\ s_beg s <= fo /\ fo < s_next s.
Proof.
  revert m. induction q as [|s r IH]; intros m Hc Hm He; simpl in *; [lia|].
  destruct Hc as [Hb Hc]. destruct (N.ltb_spec fo (s_next s)).
  - exists s. repeat split; auto. lia.
  - destruct (IH _ Hc) as [x [E [Hin Hx]]]; try lia. exists x. auto.
Qed.

Lemma find_in_head s r fo : fo < s_next s -> find_in (s :: r) fo = FFound s.
Proof. intros H. simpl. destruct (N.ltb_spec fo (s_next s)); [reflexivity|lia]. Qed.

(* ================================================================= small arithmetic *)

Lemma half_bounds n : 2 * (n / 2) <= n /\ n < 2 * (n / 2) + 2.
Proof.
  pose proof (N.div_mod n 2) as H. pose proof (N.mod_lt n 2) as H2.
  assert (H0 : 2 <> 0) by lia. specialize (H H0). specialize (H2 H0).
  generalize dependent (n / 2). generalize dependent (n mod 2). intros. lia.
Qed.

Lemma half_zero n : n / 2 = 0 <-> n < 2.
Proof. pose proof (half_bounds n) as H. generalize dependent (n / 2). intros. lia. Qed.

(* ================================================================= fuel monotonicity *)

Lemma bloop_mono gs filesz a fo0 fuel k st r :
  bloop gs filesz a fo0 fuel st = r -> r <> SOutOfFuel -> bloop gs filesz a fo0 (fuel + k) st = r.
Proof.
  revert st. induction fuel as [|n IH]; intros st; simpl.
  - intros <- H. congruence.
  - destruct (bstep gs filesz a fo0 st); auto.
Qed.

(* ================================================================= the binary search loop *)

Ltac set_true c := replace c with true by (symmetry; first [apply N.ltb_lt | apply N.leb_le | apply N.eqb_eq | apply Z.ltb_lt | apply Z.leb_le]; lia).
Ltac set_false c := replace c with false by (symmetry; first [apply N.ltb_ge | apply N.leb_gt | apply N.eqb_neq | apply Z.ltb_ge | apply Z.leb_gt]; lia).
(* [x / 2] is hidden from lia behind [half]; its bounds are added on demand *)
Definition half (x : N) : N := x / 2.
Lemma half_eq x : x / 2 = half x.
Proof. reflexivity. Qed.
Lemma half_bounds' x : 2 * half x <= x /\ x < 2 * half x + 2.
Proof. exact (half_bounds x). Qed.
Global Opaque half.
Ltac halve x := let H := fresh "Hh" in pose proof (half_bounds' x) as H.

Section MainLoop.
  (* the file's messages split at the threshold: [pre] all before the filter instant, [post] all
     at or after it; T is the offset where [post] begins (= filesz when [post] is empty) *)
  Variables (gs : list sl) (filesz lead : N) (a : Z) (fo0 : N).
  Variables (pre post : list sl) (T : N).
  Hypothesis Hgs : gs = pre ++ post.
  Hypothesis Hc1 : chain lead pre T.
  Hypothesis Hc2 : chain T post filesz.
  Hypothesis Hpre : Forall (fun s => (s_t s < a)%Z) pre.
  Hypothesis Hpost : Forall (fun s => (a <= s_t s)%Z) post.
  Hypothesis Hlen2 : lens_ge 2 pre.
  Hypothesis Hlen1 : lens_ge 1 post.
  Hypothesis Hne : pre <> [].

  Definition expected : sres := match post with [] => SDone | sn :: _ => found sn end.

  Definition Inv (st : bst) : Prop :=
    fo0 <= fo_a st /\ fo_a st <= try_fo st /\ try_fo st < fo_b st /\
    fo_a st < T /\ T <= fo_b st /\ fo_b st <= filesz.
  Definition Mid (st : bst) : Prop := try_fo st = fo_a st + (fo_b st - fo_a st) / 2.
  Definition width (st : bst) : N := fo_b st - fo_a st.

  Lemma T_le_filesz : T <= filesz.
  Proof. exact (chain_le _ _ _ Hc2). Qed.

  Lemma find_lt x : x < T ->
    exists s, find gs x = FFound s /\ x < s_next s /\ s_next s <= T /\ (s_t s < a)%Z /\ 2 <= s_len s.
  Proof.
    intros Hx. unfold find. rewrite Hgs.
    destruct (find_in_prefix lead pre T post x Hne Hc1 Hx) as [s [E [Hin Hs]]].
    exists s. repeat split; auto.
    - destruct (chain_in _ _ _ _ Hc1 Hin). lia.
    - rewrite Forall_forall in Hpre. auto.
    - unfold lens_ge in Hlen2. rewrite Forall_forall in Hlen2. auto.
  Qed.

  Lemma find_ge x : T <= x -> x < filesz ->
    exists s, find gs x = FFound s /\ s_beg s <= x /\ x < s_next s /\ T <= s_beg s /\ (a <= s_t s)%Z.
  Proof.
    intros Hx He. unfold find. rewrite Hgs. rewrite (find_in_skip_chain _ _ _ _ _ Hc1 Hx).
    destruct (find_in_within _ _ _ _ Hc2 Hx He) as [s [E [Hin [H1 H2]]]].
    exists s. repeat split; auto.
    - destruct (chain_in _ _ _ _ Hc2 Hin). lia.
    - rewrite Forall_forall in Hpost. auto.
  Qed.

  Lemma post_nil_iff : post = [] <-> T = filesz.
  Proof.
    split.
    - intros E. rewrite E in Hc2. exact Hc2.
    - intros E. rewrite <- E in Hc2. apply (chain_nil_of_eq T); assumption.
  Qed.

  Lemma find_T : find gs T = match post with [] => FDone | sn :: _ => FFound sn end.
  Proof.
    unfold find. rewrite Hgs. rewrite (find_in_skip_chain _ _ _ _ _ Hc1 (N.le_refl T)).
    destruct post as [|sn r]; [reflexivity|].
    apply find_in_head. destruct Hc2 as [Hb _]. inversion Hlen1; subst. unfold s_next. lia.
  Qed.

  (* one iteration: either the loop returns the expected message, or it continues with the
     invariant kept, the next probe at the midpoint, and (from the second iteration on) the
     bracket [fo_a, fo_b) at most half as wide (rounded up) and strictly narrower *)
  Lemma bstep_inv st : Inv st ->
    bstep gs filesz (Some a) fo0 st = Return expected \/
    exists st', bstep gs filesz (Some a) fo0 st = Continue st' /\ Inv st' /\ Mid st' /\
                (Mid st -> 2 * width st' <= width st + 1 /\ width st' < width st).
  Proof.
    destruct st as [tf tl fa fb lf]. unfold Inv, Mid, width. cbn [try_fo try_fo_last fo_a fo_b last_found].
    intros (I1 & I2 & I3 & I4 & I5 & I6).
    unfold bstep, bmatch. cbn [try_fo try_fo_last fo_a fo_b last_found].
    destruct (N.ltb_spec tf T) as [Hlt|Hge].
    - (* the probe is before the threshold: OccursBefore *)
      destruct (find_lt tf Hlt) as (s & E & H1 & H2 & H3 & H4).
      rewrite E. unfold dt_after_or_before. set_true (s_t s <? a)%Z.
      assert (Hfoe : s_end s + 1 = s_next s) by (unfold s_end, s_next; lia).
      assert (Hnx : s_next s = s_beg s + s_len s) by reflexivity.
      set_true (tf <=? s_end s).
      replace (N.min (s_end s) fb) with (s_end s) by (symmetry; apply N.min_l; lia).
      unfold endgame. cbn [try_fo try_fo_last fo_a fo_b last_found andb].
      rewrite !half_eq. halve (fb - s_end s). halve (fb - fa).
      destruct (N.eqb_spec (s_end s + half (fb - s_end s)) tf) as [Heq|Hneq]; cbn [negb].
      + (* end game *)
        left. rewrite Heq.
        assert (HT : T = s_next s) by lia.
        assert (Htf : tf = s_end s) by lia.
        set_true (s_beg s <? tf).
        rewrite andb_true_r.
        unfold is_last. destruct (N.eqb_spec (s_end s) (filesz - 1)) as [Hl|Hl].
        * assert (Hp : post = []) by (apply post_nil_iff; lia).
          unfold expected. rewrite Hp. reflexivity.
        * assert (Hp : post <> []) by (intros Hp; apply post_nil_iff in Hp; lia).
          rewrite <- HT, find_T. unfold expected.
          destruct post as [|sn r]; [congruence|].
          inversion Hpost; subst. unfold dt_after_or_before.
          set_true (s_t s <? a)%Z. set_false (s_t sn <? a)%Z. reflexivity.
      + right. eexists. split; [reflexivity|].
        cbn [try_fo try_fo_last fo_a fo_b last_found]. rewrite !half_eq.
        split; [lia|]. split; [reflexivity|]. intros Hm. lia.
    - (* the probe is at or after the threshold: OccursAtOrAfter *)
      destruct (find_ge tf Hge) as (s & E & H1 & H2 & H3 & H4); [lia|].
      rewrite E. unfold dt_after_or_before. set_false (s_t s <? a)%Z.
      set_false (tf =? fo0).
      replace (N.min (s_beg s) tf) with (s_beg s) by (symmetry; apply N.min_l; lia).
      set_true (fa <=? s_beg s).
      unfold endgame. cbn [try_fo try_fo_last fo_a fo_b last_found andb].
      rewrite !half_eq. halve (s_beg s - fa). halve (fb - fa).
      set_false (fa + half (s_beg s - fa) =? tf). cbn [negb].
      right. eexists. split; [reflexivity|].
      cbn [try_fo try_fo_last fo_a fo_b last_found]. rewrite !half_eq.
      split; [lia|]. split; [reflexivity|]. intros Hm. lia.
  Qed.

  Lemma bloop_S dt fo fuel st :
    bloop gs filesz dt fo (S fuel) st =
    match bstep gs filesz dt fo st with Return r => r | Continue st' => bloop gs filesz dt fo fuel st' end.
  Proof. reflexivity. Qed.

  (* from the second iteration on: a bracket of width <= 2^k is decided within k+1 iterations *)
  Lemma bloop_inv k : forall st, Inv st -> Mid st -> width st <= 2 ^ N.of_nat k ->
    bloop gs filesz (Some a) fo0 (S k) st = expected.
  Proof.
    induction k as [|k IH]; intros st HI HM Hw; rewrite bloop_S;
      destruct (bstep_inv st HI) as [E|(st' & E & HI' & HM' & Hd)]; rewrite E; try reflexivity;
      destruct (Hd HM) as [Hhalf Hlt].
    - exfalso. unfold Inv in HI'. unfold width in *. change (2 ^ N.of_nat 0) with 1 in Hw. lia.
    - apply IH; auto.
      rewrite Nat2N.inj_succ, N.pow_succ_r' in Hw. set (p := 2 ^ N.of_nat k) in *. lia.
  Qed.

  Lemma bsearch_inv k : fo0 < T -> filesz - fo0 <= 2 ^ N.of_nat k ->
    bsearch gs filesz (Some a) fo0 (S (S k)) = expected.
  Proof.
    intros Hfo Hw. unfold bsearch. rewrite bloop_S.
    pose proof T_le_filesz as HT.
    assert (HI : Inv (bstart filesz fo0)) by (unfold Inv, bstart; cbn [try_fo fo_a fo_b]; lia).
    destruct (bstep_inv _ HI) as [E|(st' & E & HI' & HM' & _)]; rewrite E; [reflexivity|].
    apply bloop_inv; auto. unfold Inv in HI'. unfold width. lia.
  Qed.
End MainLoop.

(* ================================================================= sorted sources *)

Lemma nondecreasing_tail x r : nondecreasing s_t (x :: r) = true -> nondecreasing s_t r = true.
Proof.
  destruct r as [|y r]; [reflexivity|]. cbn [nondecreasing]. intros H.
  apply andb_true_iff in H. tauto.
Qed.

Lemma nondecreasing_head_le x r :
  nondecreasing s_t (x :: r) = true -> Forall (fun y => (s_t x <= s_t y)%Z) r.
Proof.
  revert x. induction r as [|y r IH]; intros x H; [constructor|].
  cbn [nondecreasing] in H. apply andb_true_iff in H. destruct H as [H1 H2].
  apply Z.leb_le in H1. constructor; [exact H1|].
  eapply Forall_impl; [|apply (IH y H2)]. simpl. intros; lia.
Qed.

Lemma nondecreasing_app_r p q : nondecreasing s_t (p ++ q) = true -> nondecreasing s_t q = true.
Proof.
  induction p as [|x p IH]; [auto|]. intros H. apply IH. exact (nondecreasing_tail _ _ H).
Qed.

(* a chronological source splits into "before a" ++ "at or after a" *)
Lemma sorted_split a gs : nondecreasing s_t gs = true ->
  exists pre post, gs = pre ++ post /\
    Forall (fun s => (s_t s < a)%Z) pre /\ Forall (fun s => (a <= s_t s)%Z) post.
Proof.
  induction gs as [|x r IH]; intros H.
  - exists [], []. repeat split; constructor.
  - destruct (Z.ltb_spec (s_t x) a) as [Hlt|Hge].
    + destruct (IH (nondecreasing_tail _ _ H)) as (pre & post & -> & H1 & H2).
      exists (x :: pre), post. repeat split; auto.
    + exists [], (x :: r). repeat split; [constructor|].
      constructor; [exact Hge|].
      eapply Forall_impl; [|apply (nondecreasing_head_le _ _ H)]. simpl; intros; lia.
Qed.

(* ================================================================= search results vs the spec *)

Definition spec_res (o : option sl) : sres :=
  match o with Some s => found s | None => SDone end.

Lemma find_app_skip {A} (P : A -> bool) (p q : list A) :
  Forall (fun x => P x = false) p -> List.find P (p ++ q) = List.find P q.
Proof.
  induction p as [|x p IH]; intros H; [reflexivity|].
  inversion H as [|? ? H1 H2]; subst. simpl. rewrite H1. auto.
Qed.

Lemma find_none {A} (P : A -> bool) (l : list A) :
  Forall (fun x => P x = false) l -> List.find P l = None.
Proof. intros H. rewrite <- (app_nil_r l). rewrite find_app_skip; auto. Qed.

(* the message found at fo0 is the spec's answer whenever its instant passes the filter *)
Lemma first_at_found gs a fo0 s :
  find_in gs fo0 = FFound s -> geq_lo a (s_t s) = true ->
  first_at_or_after s_t s_next a fo0 gs = Some s.
Proof.
  intros E Hg. destruct (find_in_split _ _ _ E) as (p & r & -> & Hp & Hs).
  unfold first_at_or_after. rewrite find_app_skip.
  - simpl. rewrite Hg. set_true (fo0 <? s_next s). reflexivity.
  - eapply Forall_impl; [|exact Hp]. simpl. intros x Hx. set_false (fo0 <? s_next x). reflexivity.
Qed.

Lemma first_at_done gs a fo0 :
  find_in gs fo0 = FDone -> first_at_or_after s_t s_next a fo0 gs = None.
Proof.
  intros E. apply find_none. eapply Forall_impl; [|apply (find_in_done _ _ E)].
  simpl. intros x Hx. set_false (fo0 <? s_next x). reflexivity.
Qed.

(* first iteration Done (offset at the end of the file, or a file without messages) *)
Lemma bsearch_first_done gs filesz dt fo0 k :
  find gs fo0 = FDone -> fo0 <= filesz -> bsearch gs filesz dt fo0 (S (S k)) = SDone.
Proof.
  intros E Hle. unfold bsearch. rewrite bloop_S. unfold bstep, bmatch, bstart.
  cbn [try_fo try_fo_last fo_a fo_b last_found]. rewrite E. set_true (fo0 <=? filesz).
  unfold endgame. cbn [try_fo try_fo_last fo_a fo_b last_found andb]. rewrite half_eq.
  destruct (N.eqb_spec (fo0 + half (filesz - fo0)) fo0) as [Heq|Hneq]; cbn [negb]; [reflexivity|].
  rewrite bloop_S. unfold bstep, bmatch. cbn [try_fo try_fo_last fo_a fo_b last_found].
  replace (find gs (fo0 + half (filesz - fo0))) with FDone
    by (symmetry; apply (find_in_done_mono gs fo0); [exact E|lia]).
  set_true (fo0 <=? filesz).
  unfold endgame. cbn [try_fo try_fo_last fo_a fo_b last_found andb]. rewrite half_eq.
  rewrite N.eqb_refl. reflexivity.
Qed.

Lemma lens_ge_weaken k k' gs : k' <= k -> lens_ge k gs -> lens_ge k' gs.
Proof. intros H. apply Forall_impl. intros; lia. Qed.

Theorem bsearch_spec gs filesz lead a fo0 k :
  chain lead gs filesz -> lens_ge 2 gs -> nondecreasing s_t gs = true ->
  fo0 <= filesz -> filesz - fo0 <= 2 ^ N.of_nat k ->
  bsearch gs filesz a fo0 (S (S k)) = spec_res (first_at_or_after s_t s_next a fo0 gs).
Proof.
  intros Hc Hl Hs Hfo Hk.
  destruct (find gs fo0) as [s|] eqn:E.
  2:{ rewrite (first_at_done _ _ _ E). apply bsearch_first_done; assumption. }
  assert (Himm : geq_lo a (s_t s) = true ->
                 bsearch gs filesz a fo0 (S (S k)) = spec_res (first_at_or_after s_t s_next a fo0 gs)).
  { intros Hg. rewrite (first_at_found _ _ _ _ E Hg). unfold bsearch. rewrite bloop_S.
    unfold bstep, bmatch, bstart. cbn [try_fo try_fo_last fo_a fo_b last_found]. rewrite E.
    destruct a as [a|]; cbn [dt_after_or_before]; [|reflexivity].
    simpl in Hg. apply Z.leb_le in Hg. set_false (s_t s <? a)%Z. rewrite N.eqb_refl. reflexivity. }
  destruct (geq_lo a (s_t s)) eqn:Hg; [auto|]. clear Himm.
  destruct a as [a|]; [|discriminate]. simpl in Hg. apply Z.leb_gt in Hg.
  destruct (sorted_split a gs Hs) as (pre & post & Hgs & Hpre & Hpost).
  destruct (find_in_split _ _ _ E) as (p & r & Hsp & Hp & Hlt).
  assert (Hin : In s pre).
  { assert (Hi : In s gs) by (rewrite Hsp; apply in_or_app; right; left; reflexivity).
    rewrite Hgs in Hi. apply in_app_or in Hi. destruct Hi as [Hi|Hi]; [exact Hi|].
    rewrite Forall_forall in Hpost. specialize (Hpost _ Hi). lia. }
  assert (Hne : pre <> []) by (intros ->; destruct Hin).
  rewrite Hgs in Hc. apply chain_app in Hc. destruct Hc as (T & Hc1 & Hc2).
  unfold lens_ge in Hl. rewrite Hgs in Hl. apply Forall_app in Hl. destruct Hl as [Hl1 Hl2].
  assert (HT : fo0 < T) by (destruct (chain_in _ _ _ _ Hc1 Hin); lia).
  rewrite (bsearch_inv gs filesz lead a fo0 pre post T Hgs Hc1 Hc2 Hpre Hpost Hl1
             (lens_ge_weaken 2 1 post ltac:(lia) Hl2) Hne k HT Hk).
  unfold first_at_or_after. rewrite Hgs, find_app_skip.
  - unfold expected. destruct post as [|sn r']; [reflexivity|].
    cbn [List.find]. inversion Hpost; subst. destruct Hc2 as [Hb _].
    pose proof (s_next_ge sn).
    set_true (fo0 <? s_next sn). simpl. set_true (a <=? s_t sn)%Z. reflexivity.
  - eapply Forall_impl; [|exact Hpre]. simpl. intros x Hx.
    set_false (a <=? s_t x)%Z. apply andb_false_r.
Qed.

(* ================================================================= layout-level statements *)

Lemma groups_chain lead l : chain lead (groups lead l) (fsize lead l).
Proof. apply chain_place. Qed.

Lemma size_pow filesz fo0 : filesz - fo0 <= 2 ^ N.of_nat (N.to_nat (N.size filesz)).
Proof.
  rewrite N2Nat.id. pose proof (N.size_gt filesz) as H.
  generalize dependent (2 ^ N.size filesz). intros. lia.
Qed.

Theorem bsearch_first_geq lead l a fo0 :
  nondecreasing s_t (groups lead l) = true -> Forall (fun g => 2 <= fst g) l ->
  fo0 <= fsize lead l ->
  l_bsearch lead l a fo0 = spec_res (first_at_or_after s_t s_next a fo0 (groups lead l)).
Proof.
  intros Hs Hl Hfo. unfold l_bsearch, bfuel.
  apply (bsearch_spec _ _ lead); auto.
  - apply groups_chain.
  - apply place_lens; exact Hl.
  - apply size_pow.
Qed.

Lemma spec_res_cases o : (exists s, spec_res o = SFound (s_next s) s) \/ spec_res o = SDone.
Proof. destruct o as [s|]; [left; exists s; reflexivity|right; reflexivity]. Qed.

(* more fuel than 2 + bit-length(file size) never changes the answer; it is never OutOfFuel *)
Theorem bsearch_fuel lead l a fo0 fuel :
  nondecreasing s_t (groups lead l) = true -> Forall (fun g => 2 <= fst g) l ->
  fo0 <= fsize lead l -> (bfuel (fsize lead l) <= fuel)%nat ->
  bsearch (groups lead l) (fsize lead l) a fo0 fuel = l_bsearch lead l a fo0 /\
  bsearch (groups lead l) (fsize lead l) a fo0 fuel <> SOutOfFuel.
Proof.
  intros Hs Hl Hfo Hf.
  assert (E : bsearch (groups lead l) (fsize lead l) a fo0 fuel = l_bsearch lead l a fo0).
  { replace fuel with (bfuel (fsize lead l) + (fuel - bfuel (fsize lead l)))%nat by lia.
    unfold bsearch. apply bloop_mono; [reflexivity|].
    fold (bsearch (groups lead l) (fsize lead l) a fo0 (bfuel (fsize lead l))).
    fold (l_bsearch lead l a fo0). rewrite bsearch_first_geq by assumption.
    destruct (spec_res_cases (first_at_or_after s_t s_next a fo0 (groups lead l))) as [[s ->]| ->]; discriminate. }
  split; [exact E|]. rewrite E, bsearch_first_geq by assumption.
  destruct (spec_res_cases (first_at_or_after s_t s_next a fo0 (groups lead l))) as [[s ->]| ->]; discriminate.
Qed.

(* no assert_le! fails, no subtraction underflows, no "unexpected" error path is taken *)
Theorem bsearch_no_panic lead l a fo0 :
  nondecreasing s_t (groups lead l) = true -> Forall (fun g => 2 <= fst g) l ->
  fo0 <= fsize lead l ->
  forall c, l_bsearch lead l a fo0 <> SPanic c /\ l_bsearch lead l a fo0 <> SDoneErr c /\
            l_bsearch lead l a fo0 <> SOutOfFuel.
Proof.
  intros Hs Hl Hfo c. rewrite bsearch_first_geq by assumption.
  destruct (spec_res_cases (first_at_or_after s_t s_next a fo0 (groups lead l))) as [[s ->]| ->];
    repeat split; discriminate.
Qed.

(* the hypothesis on lengths is necessary: with a 1-byte message the loop returns a too-early one *)
Lemma bsearch_len1_refuted :
  exists lead l a fo0,
    nondecreasing s_t (groups lead l) = true /\ Forall (fun g => 1 <= fst g) l /\ fo0 <= fsize lead l /\
    l_bsearch lead l (Some a) fo0 <> spec_res (first_at_or_after s_t s_next (Some a) fo0 (groups lead l)) /\
    exists s, l_bsearch lead l (Some a) fo0 = found s /\ (s_t s < a)%Z.
Proof.
  exists 0, [(1, 1%Z); (3, 8%Z)], 2%Z, 0.
  split; [reflexivity|].
  split; [repeat (constructor; [simpl; lia|]); constructor|].
  split; [vm_compute; discriminate|].
  split; [vm_compute; discriminate|].
  exists (mkSl 0 1 1%Z). split; [vm_compute; reflexivity|simpl; lia].
Qed.

(* ================================================================= linear search *)

Lemma chain_fun b p m m' : chain b p m -> chain b p m' -> m = m'.
Proof.
  revert b. induction p as [|s p IH]; intros b; simpl.
  - intros <- <-. reflexivity.
  - intros [_ H1] [_ H2]. eauto.
Qed.

Definition at_or_after (a : option Z) (fo0 : N) (x : sl) : bool := (fo0 <? s_next x) && geq_lo a (s_t x).

Lemma cmp1_geq dt a : geq_lo a dt = true ->
  dt_after_or_before dt a = Pass \/ dt_after_or_before dt a = OccursAtOrAfter.
Proof.
  destruct a as [a|]; simpl; [|auto]. intros H. apply Z.leb_le in H. set_false (dt <? a)%Z. auto.
Qed.
Lemma cmp1_lt dt a : geq_lo a dt = false -> dt_after_or_before dt a = OccursBefore.
Proof.
  destruct a as [a|]; simpl; [|discriminate]. intros H. apply Z.leb_gt in H. set_true (dt <? a)%Z. auto.
Qed.

Section Linear.
  Variables (gs : list sl) (lead filesz : N) (a : option Z) (fo0 : N).
  Hypothesis Hc : chain lead gs filesz.
  Hypothesis Hl : lens_ge 1 gs.

  Lemma linear_from_S fuel fo :
    linear_from gs a (S fuel) fo =
    match find gs fo with
    | FDone => SDone
    | FFound s => match dt_after_or_before (s_t s) a with
                  | Pass | OccursAtOrAfter => found s
                  | OccursBefore => linear_from gs a fuel (s_next s)
                  end
    end.
  Proof. reflexivity. Qed.

  (* cursor at the beginning of the remaining messages [r] *)
  Lemma linear_aligned : forall r p m fuel,
    gs = p ++ r -> chain lead p m -> Forall (fun x => at_or_after a fo0 x = false) p -> fo0 <= m ->
    (length r < fuel)%nat ->
    linear_from gs a fuel m = spec_res (List.find (at_or_after a fo0) gs).
  Proof.
    induction r as [|s r IH]; intros p m fuel Hgs Hp HP Hm Hf;
      (destruct fuel as [|fuel]; [simpl in Hf; lia|]); rewrite linear_from_S.
    - unfold find. rewrite Hgs, (find_in_skip_chain _ _ _ _ _ Hp (N.le_refl m)). simpl.
      rewrite find_none; [reflexivity|]. rewrite app_nil_r. exact HP.
    - assert (Hc' := Hc). rewrite Hgs in Hc'. apply chain_app in Hc'. destruct Hc' as (m' & Hp' & Hr).
      assert (m' = m) by (eapply chain_fun; eauto). subst m'. destruct Hr as [Hb Hr].
      assert (Hls : 1 <= s_len s).
      { unfold lens_ge in Hl. rewrite Forall_forall in Hl. apply Hl. rewrite Hgs. apply in_or_app. right. left. reflexivity. }
      assert (Hnx : s_next s = s_beg s + s_len s) by reflexivity.
      unfold find. rewrite Hgs at 1. rewrite (find_in_skip_chain _ _ _ _ _ Hp (N.le_refl m)).
      rewrite find_in_head by lia.
      destruct (geq_lo a (s_t s)) eqn:Hg.
      + assert (Hfound : spec_res (List.find (at_or_after a fo0) gs) = found s).
        { rewrite Hgs, find_app_skip by exact HP. simpl. unfold at_or_after at 1. rewrite Hg.
          set_true (fo0 <? s_next s). reflexivity. }
        rewrite Hfound. destruct (cmp1_geq _ _ Hg) as [-> | ->]; reflexivity.
      + rewrite (cmp1_lt _ _ Hg).
        apply (IH (p ++ [s]) (s_next s)).
        * rewrite <- app_assoc. exact Hgs.
        * apply (chain_snoc _ _ m); auto.
        * apply Forall_app. split; [exact HP|]. constructor; [|constructor].
          unfold at_or_after. rewrite Hg. apply andb_false_r.
        * lia.
        * simpl in Hf. lia.
  Qed.

  Theorem linear_spec :
    linear gs a fo0 (lfuel gs) = spec_res (first_at_or_after s_t s_next a fo0 gs).
  Proof.
    unfold linear, lfuel. rewrite linear_from_S.
    destruct (find gs fo0) as [s|] eqn:E.
    2:{ rewrite (first_at_done _ _ _ E). reflexivity. }
    destruct (geq_lo a (s_t s)) eqn:Hg.
    - rewrite (first_at_found _ _ _ _ E Hg). destruct (cmp1_geq _ _ Hg) as [-> | ->]; reflexivity.
    - rewrite (cmp1_lt _ _ Hg).
      destruct (find_in_split _ _ _ E) as (p & r & Hsp & Hp & Hlt).
      assert (Hc' := Hc). rewrite Hsp in Hc'. apply chain_app in Hc'. destruct Hc' as (m & Hp' & [Hb Hr]).
      apply (linear_aligned r (p ++ [s]) (s_next s)).
      + rewrite <- app_assoc. exact Hsp.
      + apply (chain_snoc _ _ m); auto.
      + apply Forall_app. split.
        * eapply Forall_impl; [|exact Hp]. simpl. intros x Hx. unfold at_or_after.
          set_false (fo0 <? s_next x). reflexivity.
        * constructor; [|constructor]. unfold at_or_after. rewrite Hg. apply andb_false_r.
      + lia.
      + rewrite Hsp, app_length. simpl. lia.
  Qed.
End Linear.

(* the linear search needs NO chronology hypothesis at all *)
Theorem linear_first_geq lead l a fo0 :
  Forall (fun g => 1 <= fst g) l ->
  l_linear lead l a fo0 = spec_res (first_at_or_after s_t s_next a fo0 (groups lead l)).
Proof.
  intros Hl. unfold l_linear. apply (linear_spec _ lead (fsize lead l)).
  - apply groups_chain.
  - apply place_lens; exact Hl.
Qed.

(* ================================================================= find_between and the driver *)

Fixpoint take_while {A} (f : A -> bool) (l : list A) : list A :=
  match l with
  | [] => []
  | x :: r => if f x then x :: take_while f r else []
  end.

Lemma filter_none {A} (f : A -> bool) l : Forall (fun x => f x = false) l -> filter f l = [].
Proof.
  induction l as [|x r IH]; intros H; [reflexivity|].
  inversion H as [|? ? H1 H2]; subst. simpl. rewrite H1. auto.
Qed.

Lemma filter_ext_forall {A} (f g : A -> bool) l :
  Forall (fun x => f x = g x) l -> filter f l = filter g l.
Proof.
  induction l as [|x r IH]; intros H; [reflexivity|].
  inversion H as [|? ? H1 H2]; subst. simpl. rewrite H1, IH by assumption. reflexivity.
Qed.

(* on a chronological list the messages not after B are a prefix *)
Lemma filter_take_while_sorted b q : nondecreasing s_t q = true ->
  filter (fun x => leq_hi b (s_t x)) q = take_while (fun x => leq_hi b (s_t x)) q.
Proof.
  induction q as [|x r IH]; intros H; [reflexivity|]. simpl.
  destruct (leq_hi b (s_t x)) eqn:E.
  - rewrite IH; [reflexivity|]. exact (nondecreasing_tail _ _ H).
  - apply filter_none. eapply Forall_impl; [|apply (nondecreasing_head_le _ _ H)].
    simpl. intros y Hy. destruct b as [b|]; simpl in *; [|discriminate].
    apply Z.leb_gt in E. apply Z.leb_gt. lia.
Qed.

(* split of a chronological source at the lower bound (None: nothing is before it) *)
Lemma geq_split a gs : nondecreasing s_t gs = true ->
  exists pre post, gs = pre ++ post /\
    Forall (fun x => geq_lo a (s_t x) = false) pre /\ Forall (fun x => geq_lo a (s_t x) = true) post.
Proof.
  intros H. destruct a as [a|].
  - destruct (sorted_split a gs H) as (pre & post & E & H1 & H2). exists pre, post.
    repeat split; auto.
    + eapply Forall_impl; [|exact H1]. simpl. intros x Hx. apply Z.leb_gt. exact Hx.
    + eapply Forall_impl; [|exact H2]. simpl. intros x Hx. apply Z.leb_le. exact Hx.
  - exists [], gs. repeat split; [constructor|]. apply Forall_forall. reflexivity.
Qed.

Section Driver.
  Variables (gs : list sl) (lead filesz : N) (streamed : bool) (a b : option Z).
  Hypothesis Hc : chain lead gs filesz.
  Hypothesis Hl : lens_ge 2 gs.
  Hypothesis Hs : nondecreasing s_t gs = true.

  (* both strategies return the same message *)
  Lemma find_at_spec fo0 : fo0 <= filesz ->
    find_at gs filesz streamed a fo0 = spec_res (first_at_or_after s_t s_next a fo0 gs).
  Proof.
    intros Hfo. unfold find_at. destruct streamed.
    - apply (linear_spec gs lead filesz); [exact Hc|]. apply (lens_ge_weaken 2 1); [lia|exact Hl].
    - unfold bfuel. apply (bsearch_spec _ _ lead); auto. apply size_pow.
  Qed.

  Lemma stream_S fuel fo1 :
    stream gs filesz (S fuel) streamed a b fo1 =
    match find_between gs filesz streamed a b fo1 with
    | SFound fo s =>
      if is_last filesz s then ([s], Ok)
      else let '(out, st) := stream gs filesz fuel streamed a b fo in (s :: out, st)
    | SDone => ([], Ok)
    | SDoneErr c => ([], Err c)
    | SPanic c => ([], Panicked c)
    | SOutOfFuel => ([], NoFuel)
    end.
  Proof. reflexivity. Qed.

  (* the stage 3 loop with the cursor at (or, for the first call, before) the remaining messages
     [q], all of which are at or after the lower bound: it sends the prefix of [q] that is not
     after the upper bound *)
  Lemma stream_spec : forall q p m fuel fo1,
    gs = p ++ q -> chain lead p m -> chain m q filesz ->
    Forall (fun x => at_or_after a fo1 x = false) p -> fo1 <= m ->
    Forall (fun x => geq_lo a (s_t x) = true) q ->
    (length q < fuel)%nat ->
    stream gs filesz fuel streamed a b fo1 = (take_while (fun x => leq_hi b (s_t x)) q, Ok).
  Proof.
    induction q as [|s r IH]; intros p m fuel fo1 Hgs Hp Hq HP Hm Hg Hf;
      (destruct fuel as [|fuel]; [simpl in Hf; lia|]); rewrite stream_S;
      assert (Hfo : fo1 <= filesz) by (apply chain_le in Hq; lia);
      unfold find_between; rewrite (find_at_spec fo1 Hfo); unfold first_at_or_after;
      fold (at_or_after a fo1); rewrite Hgs, find_app_skip by exact HP.
    - reflexivity.
    - destruct Hq as [Hb Hr]. inversion Hg as [|? ? Hg1 Hg2]; subst.
      assert (Hls : 2 <= s_len s).
      { unfold lens_ge in Hl. rewrite Forall_forall in Hl. apply Hl. apply in_or_app. right. left. reflexivity. }
      assert (Hnx : s_next s = s_beg s + s_len s) by reflexivity.
      assert (Hend : s_end s + 1 = s_next s) by (unfold s_end, s_next; lia).
      cbn [List.find]. unfold at_or_after at 1. rewrite Hg1. set_true (fo1 <? s_next s).
      cbn [andb spec_res found]. cbn [take_while].
      destruct (leq_hi b (s_t s)) eqn:Eb.
      + replace (dt_pass_filters (s_t s) a b) with InRange
          by (symmetry; apply dt_pass_filters_in_range; unfold in_window; rewrite Hg1, Eb; reflexivity).
        unfold is_last. destruct (N.eqb_spec (s_end s) (filesz - 1)) as [Hlast|Hnl].
        * assert (r = []).
          { apply (chain_nil_of_eq (s_next s)).
            - unfold lens_ge in *. rewrite Forall_forall in *. intros x Hx.
              assert (2 <= s_len x) by (apply Hl; apply in_or_app; right; right; exact Hx). lia.
            - pose proof (chain_le _ _ _ Hr) as Hle. replace (s_next s) with filesz at 2 by lia. exact Hr. }
          subst r. reflexivity.
        * rewrite (IH (p ++ [s]) (s_next s)).
          -- reflexivity.
          -- rewrite <- app_assoc. reflexivity.
          -- apply (chain_snoc _ _ (s_beg s)); auto.
          -- exact Hr.
          -- apply Forall_app. split.
             ++ eapply Forall_impl; [|exact HP]. simpl. unfold at_or_after. intros x Hx.
                destruct (geq_lo a (s_t x)); [|apply andb_false_r].
                rewrite andb_true_r in *. apply N.ltb_ge in Hx. apply N.ltb_ge. lia.
             ++ constructor; [|constructor]. unfold at_or_after.
                set_false (s_next s <? s_next s). reflexivity.
          -- lia.
          -- exact Hg2.
          -- simpl in Hf. lia.
      + replace (dt_pass_filters (s_t s) a b) with AfterRange
          by (symmetry; apply dt_pass_filters_after; auto).
        reflexivity.
  Qed.

  Theorem text_out_spec :
    text_out gs filesz streamed a b = (window s_t a b gs, Ok).
  Proof.
    destruct (geq_split a gs Hs) as (pre & post & Hgs & Hpre & Hpost).
    assert (Hc' := Hc). rewrite Hgs in Hc'. apply chain_app in Hc'. destruct Hc' as (T & Hc1 & Hc2).
    unfold text_out. rewrite (stream_spec post pre T); auto.
    - f_equal. unfold window. rewrite Hgs, filter_app.
      rewrite (filter_none _ pre).
      + simpl. rewrite <- filter_take_while_sorted.
        * apply filter_ext_forall. eapply Forall_impl; [|exact Hpost]. simpl. intros x Hx.
          unfold in_window. rewrite Hx. reflexivity.
        * rewrite Hgs in Hs. exact (nondecreasing_app_r _ _ Hs).
      + eapply Forall_impl; [|exact Hpre]. simpl. intros x Hx. unfold in_window. rewrite Hx. reflexivity.
    - eapply Forall_impl; [|exact Hpre]. simpl. intros x Hx. unfold at_or_after. rewrite Hx. apply andb_false_r.
    - lia.
    - rewrite Hgs, app_length. lia.
  Qed.
End Driver.

Theorem text_out_correct lead l streamed a b :
  nondecreasing s_t (groups lead l) = true -> Forall (fun g => 2 <= fst g) l ->
  l_text_out lead l streamed a b = (window s_t a b (groups lead l), Ok).
Proof.
  intros Hs Hl. unfold l_text_out. apply (text_out_spec _ lead).
  - apply groups_chain.
  - apply place_lens; exact Hl.
  - exact Hs.
Qed.

Theorem empty_selection_ok lead l streamed a b :
  nondecreasing s_t (groups lead l) = true -> Forall (fun g => 2 <= fst g) l ->
  window s_t a b (groups lead l) = [] ->
  l_text_out lead l streamed a b = ([], Ok).
Proof. intros Hs Hl Hw. rewrite text_out_correct by assumption. rewrite Hw. reflexivity. Qed.

(* the output is a sublist of the source in source order: it IS the filter *)
Lemma window_in {M} (t : M -> Z) a b l m : In m (window t a b l) <-> In m l /\ in_window a b (t m) = true.
Proof. unfold window. apply filter_In. Qed.

Lemma window_sublist {M} (t : M -> Z) a b l : sublist (window t a b l) l.
Proof.
  unfold window. induction l as [|x r IH]; simpl; [constructor|].
  destruct (in_window a b (t x)); constructor; exact IH.
Qed.

Lemma example_ok :
  let l := [(20, 100%Z); (35, 200%Z); (21, 200%Z); (64, 300%Z)] in
  nondecreasing s_t (groups 7 l) = true /\ Forall (fun g => 2 <= fst g) l /\
  l_text_out 7 l false (Some 200%Z) (Some 200%Z) = ([mkSl 27 35 200%Z; mkSl 62 21 200%Z], Ok) /\
  l_text_out 7 l true (Some 200%Z) (Some 200%Z) = ([mkSl 27 35 200%Z; mkSl 62 21 200%Z], Ok).
Proof.
  cbv zeta. split; [reflexivity|]. split; [repeat (constructor; [simpl; lia|]); constructor|].
  split; vm_compute; reflexivity.
Qed.

(* ================================================================= the oracle, spelled out *)

Lemma find_oracle_done lead l fo : fsize lead l <= fo -> l_find lead l fo = FDone.
Proof.
  intros H. unfold l_find, find. rewrite <- (app_nil_r (groups lead l)).
  rewrite (find_in_skip_chain lead _ (fsize lead l)); [reflexivity| |exact H].
  apply groups_chain.
Qed.

Lemma find_oracle_contains lead l fo : lead <= fo -> fo < fsize lead l ->
  exists s, l_find lead l fo = FFound s /\ In s (groups lead l) /\ s_beg s <= fo /\ fo < s_next s.
Proof.
  intros H1 H2. unfold l_find, find.
  exact (find_in_within lead (groups lead l) (fsize lead l) fo (groups_chain lead l) H1 H2).
Qed.

Lemma find_oracle_lead lead n t r fo : fo < lead ->
  l_find lead ((n, t) :: r) fo = FFound (mkSl lead n t).
Proof.
  intros H. unfold l_find, find, groups. cbn [place]. apply find_in_head. unfold s_next; simpl. lia.
Qed.

Theorem linear_total lead l a fo0 : Forall (fun g => 1 <= fst g) l ->
  forall c, l_linear lead l a fo0 <> SPanic c /\ l_linear lead l a fo0 <> SDoneErr c /\
            l_linear lead l a fo0 <> SOutOfFuel.
Proof.
  intros Hl c. rewrite linear_first_geq by assumption.
  destruct (spec_res_cases (first_at_or_after s_t s_next a fo0 (groups lead l))) as [[s ->]| ->];
    repeat split; discriminate.
Qed.
