(* Proofs/ProgramCaches.v — work package H, stage 3: the stage driver over the CACHED reader machine
   (Model/Caches.v, work package A), with what the composition needs in addition to Props/C02.v.

   Props/C02.v (cached_driver_complete, gate_then_refines, streamed_driver_complete,
   streamed_window_driver) states what the driver EMITS as bytes: obs_stream ... = Some (groups).  The
   composed program also needs, of every emitted Sysline, (1) its is_sysline_last flag and (2) that each
   of its Lines is a chain of non-empty block slices (what the printer writes).  Both are functions of the
   STORED OBJECT, not of its bytes (two equal messages at different offsets have the same bytes).  The
   lemmas below re-run the two driver inductions of work package A with the stronger conclusion
        the i-th emitted object represents (ssl_ok) the i-th selected message AT ITS OFFSET
   from the same step lemmas (find_step, stream_call, drop_try_ok; c_find_between_fw,
   c_drop_data_try_fw, gate_SFW); the exported theorems of Props/C02.v are instances
   (plain_driver_obs, streamed_driver_obs below re-derive them as a cross-check).  Nothing of work
   package A is modified. *)
From Coq Require Import List NArith ZArith Lia Bool.
Import ListNotations.
From S4.Base Require Import Bytes Chunk.
From S4.Spec Require Import LinesSpec WindowSpec.
From S4.Model Require Import Lines Syslines Caches.
From S4.Proofs Require Import LinesProofs SyslinesProofs CachesProofs CachesSysProofs CachesRunProofs CachesGateProofs
  CachesStreamProofs CachesFwdProofs CachesFwdSysProofs CachesFwdRunProofs.
Open Scope N_scope.

Section PlainDriver.
  Variable dated : list N -> option Z.
  Variable bs : N.
  Variable f : file.
  Hypothesis Hbs : 0 < bs.

  Local Notation rinv := (@rinv dated bs f (lr_inv bs f)).
  Local Notation ssl_ok := (ssl_ok bs f).

  (* the emitted objects represent these (offset, message) pairs, in order *)
  Definition repr_at (sls : list ssl) (bgs : list (N * group)) : Prop :=
    Forall2 (fun s bg => ssl_ok s (fst bg) (snd bg)) sls bgs.

  Lemma loop_struct fuel : forall st o gs plan i prev acc st' l,
    rinv st -> glist_ok dated f o gs -> (length gs < fuel)%nat -> prev_ok dated bs f prev o ->
    c_stream_loop dated fuel bs f plan i st o prev acc = (st', Found l) ->
    exists sls, l = acc ++ sls /\ repr_at sls (with_offsets o gs).
  Proof.
    induction fuel as [|k IH]; intros st o gs plan i prev acc st' l RI GL FU PV; [lia|].
    cbn [c_stream_loop].
    destruct (c_find_sysline dated bs f st o) as [[st1 r1] p1] eqn:CF.
    destruct gs as [|g gs].
    - assert (SP : spec_find_sysline dated f o = None).
      { unfold spec_find_sysline, syslines_at. apply pick_group_none. destruct GL as [_ T].
        pose proof (proj2 (glist_all dated f)). unfold total in *. cbn in T. lia. }
      destruct (find_step dated bs f Hbs _ _ _ _ _ RI CF) as (RI1 & R1 & D1).
      destruct r1 as [[n s]| | |]; cbn in R1.
      + destruct R1 as (? & ? & _ & _ & X). rewrite SP in X. discriminate.
      + intro H; injection H as <- <-. exists []. rewrite app_nil_r. split; [reflexivity|constructor].
      + contradiction.
      + intro H; discriminate.
    - destruct (glist_cons dated bs f Hbs _ _ _ GL) as (G & P & GL' & LAST).
      pose proof (spec_at_group dated f _ _ o G ltac:(lia) ltac:(lia)) as SP.
      destruct (stream_call dated bs f Hbs _ _ _ _ _ _ _ _ RI GL SP CF) as (RI1 & _ & [->|(s & -> & OK & _ & LT)]).
      + intro H; discriminate.
      + rewrite LT. destruct gs as [|g2 gs].
        * intro H; injection H as <- <-. exists [s]. split; [reflexivity|]. constructor; [exact OK|constructor].
        * assert (PV2 : prev_ok dated bs f (Some s) (o + glen g)) by (exists o, g; split; [exact OK|]; split; [exact G|lia]).
          assert (FIN : forall st2 i2, rinv st2 ->
                    c_stream_loop dated k bs f plan i2 st2 (o + glen g) (Some s) (acc ++ [s]) = (st', Found l) ->
                    exists sls, l = acc ++ sls /\ repr_at sls (with_offsets o (g :: g2 :: gs))).
          { intros st2 i2 RI2 H.
            destruct (IH _ _ _ _ _ _ _ _ _ RI2 GL' ltac:(cbn in FU; cbn; lia) PV2 H) as (sls & -> & R).
            exists (s :: sls). rewrite <- app_assoc. split; [reflexivity|]. constructor; [exact OK|exact R]. }
          destruct prev as [pv|].
          -- destruct PV as (pb & pg & POK & PG & PL).
             destruct (drop_try_ok dated bs f Hbs (lr_inv_drop bs f) st1 (o + glen g) pv pb pg RI1 POK PG ltac:(lia)) as (RI2 & _).
             intro H. apply (FIN (if plan_at plan i then c_drop_data_try bs st1 pv else st1) (S i)); [destruct (plan_at plan i); assumption|exact H].
          -- intro H. apply (FIN _ _ RI1 H).
  Qed.

  Lemma c_stream_struct st plan st' l : rinv st -> c_stream dated bs f plan st = (st', Found l) ->
    repr_at l (syslines_at dated f).
  Proof.
    intros RI. unfold c_stream.
    destruct (c_find_sysline dated bs f st 0) as [[st1 r1] p1] eqn:CF.
    pose proof (glist_all dated f) as GL.
    assert (LEN : (length (syslines dated f) < S (S (length f)))%nat).
    { unfold syslines. pose proof (wf_lines_len _ (lines_wf f)) as X. rewrite lines_concat in X.
      assert (forall ls, (length (snd (groups dated ls)) <= length ls)%nat).
      { induction ls as [|x ls IHl]; [cbn; lia|]. rewrite groups_cons. destruct (dated x); cbn [snd length]; lia. }
      specialize (H (lines f)). lia. }
    unfold syslines_at.
    destruct (syslines dated f) as [|g gs] eqn:SY.
    - assert (SP : spec_find_sysline dated f 0 = None).
      { unfold spec_find_sysline, syslines_at. rewrite SY. reflexivity. }
      destruct (find_step dated bs f Hbs _ _ _ _ _ RI CF) as (RI1 & R1 & D1).
      destruct r1 as [[n s]| | |]; cbn in R1.
      + destruct R1 as (? & ? & _ & _ & X). rewrite SP in X. discriminate.
      + intro H; injection H as <- <-. constructor.
      + contradiction.
      + intro H; discriminate.
    - destruct (glist_cons dated bs f Hbs _ _ _ GL) as (G & P & GL' & LAST).
      assert (SP : spec_find_sysline dated f 0 = Some (first_dated_offset dated f + glen g, first_dated_offset dated f, g)).
      { unfold spec_find_sysline, syslines_at. rewrite SY. apply pick_group_first. unfold glen in P. lia. }
      destruct (stream_call dated bs f Hbs _ _ _ _ _ _ _ _ RI GL SP CF) as (RI1 & _ & [->|(s & -> & OK & _ & LT)]).
      + intro H; discriminate.
      + rewrite LT. destruct gs as [|g2 gs].
        * intro H; injection H as <- <-. constructor; [exact OK|constructor].
        * intro H.
          assert (FU2 : (length (g2 :: gs) < S (length f))%nat) by (cbn in LEN; cbn; lia).
          destruct (loop_struct (S (length f)) st1 _ (g2 :: gs) plan 0%nat None [s] st' l RI1 GL' FU2 Logic.I H) as (sls & -> & R).
          constructor; [exact OK|exact R].
  Qed.
End PlainDriver.

(* block-zero analysis, then the driver with any drop plan, on a SEEKABLE file: the driver ends normally and
   the i-th emitted object represents the i-th message of the file at its offset *)
Theorem plain_driver_struct dated bs (f : file) k1 k2 plan : 0 < bs ->
  (forall b z, b < lenN f -> line_beg f b = b ->
     dated (slice f b (b + 1)) = Some z -> dated (slice f b (line_end f b + 1)) = Some z) ->
  exists sls, snd (c_stream dated bs f plan (c_gate dated k1 k2 bs f sr_init)) = Found sls /\
              repr_at bs f sls (syslines_at dated f).
Proof.
  intros H HP.
  destruct (c_gate_ok_plain dated bs f H HP k1 k2) as (RI & NDG & _).
  destruct (c_stream dated bs f plan (c_gate dated k1 k2 bs f sr_init)) as [st' r] eqn:C.
  destruct (c_stream_ok dated bs f H _ _ _ _ RI C) as (_ & E & NP).
  assert (F : exists sls, r = Found sls).
  { destruct E as [E|E]; [exfalso; exact (NP NDG E)|]. destruct r as [sls| | |]; try discriminate. eauto. }
  destruct F as (sls & ->). exists sls. split; [reflexivity|].
  eapply c_stream_struct; eauto.
Qed.

(* ================================================================ streamed containers, with the window *)

(* win_scan (CachesFwdRunProofs) on (offset, message) pairs *)
Fixpoint win_scan_at (fa fb : option Z) (l : list (N * group)) : list (N * group) :=
  match l with
  | [] => []
  | x :: r => if dt_before fa (fst (snd x)) then win_scan_at fa fb r
              else if dt_after fb (fst (snd x)) then [] else x :: win_scan_at fa fb r
  end.

Lemma win_scan_at_groups fa fb l : map snd (win_scan_at fa fb l) = win_scan fa fb (map snd l).
Proof.
  induction l as [|x r IH]; [reflexivity|]. cbn. destruct (dt_before fa (fst (snd x))); [exact IH|].
  destruct (dt_after fb (fst (snd x))); [reflexivity|]. cbn. rewrite IH. reflexivity.
Qed.

Lemma with_offsets_groups gs : forall o, map snd (with_offsets o gs) = gs.
Proof. induction gs as [|g gs IH]; intro o; [reflexivity|]. cbn. rewrite IH. reflexivity. Qed.

Lemma total_cons' g gs : total (g :: gs) = glen g + total gs.
Proof. unfold total, glen. cbn [map concat]. apply lenN_app. Qed.

Lemma skip_total fa gs gk rest : skip_before fa gs = gk :: rest -> total (gk :: rest) <= total gs.
Proof.
  induction gs as [|g gs IH]; cbn; [discriminate|]. destruct (dt_before fa (fst g)).
  - intro E. specialize (IH E). rewrite (total_cons' g gs). lia.
  - intro E. injection E as <- <-. lia.
Qed.

Lemma win_scan_at_skip fa fb gs : forall o,
  win_scan_at fa fb (with_offsets o gs) =
  match skip_before fa gs with
  | [] => []
  | gk :: rest =>
      let ok := o + total gs - total (gk :: rest) in
      if dt_after fb (fst gk) then [] else (ok, gk) :: win_scan_at fa fb (with_offsets (ok + glen gk) rest)
  end.
Proof.
  induction gs as [|g gs IH]; intro o; [reflexivity|].
  cbn [with_offsets win_scan_at skip_before snd fst]. destruct (dt_before fa (fst g)) eqn:B.
  - rewrite IH. destruct (skip_before fa gs) as [|gk rest] eqn:SK; [reflexivity|]. cbv zeta.
    pose proof (skip_total fa gs gk rest SK). rewrite (total_cons' g gs). fold (glen g).
    replace (o + glen g + total gs - total (gk :: rest)) with (o + (glen g + total gs) - total (gk :: rest)) by lia.
    reflexivity.
  - cbv zeta. replace (o + total (g :: gs) - total (g :: gs)) with o by lia. fold (glen g). reflexivity.
Qed.

Section StreamedDriver.
  Variable dated : list N -> option Z.
  Variable bs : N.
  Variable f : file.
  Hypothesis Hbs : 0 < bs.

  (* the block discipline of the container (CachesFwdProofs: KSeq, KXz, KTar instantiate it) *)
  Variable RD : bstate -> N -> Prop.
  Variable DN : bstate -> N -> Prop.
  Hypothesis RD_mono : forall b k k', RD b k -> k <= k' -> RD b k'.
  Hypothesis RD_read : forall refd b k j, RD b k -> k <= j -> j <= blast bs f -> 0 < lenN f ->
    exists b', b_read_block refd (lenN f) (blast bs f) b j = (b', BFound) /\ RD b' j /\ DN b' j /\
               (forall i, DN b i -> DN b' i).
  Hypothesis RD_drop : forall refd b k j bo, RD b k -> DN b j -> j <= k -> bo + 2 <= j ->
    RD (b_drop_block refd b bo) k /\ (forall i, DN b i -> DN (b_drop_block refd b bo) i).
  Variable fa fb : option Z.

  Local Notation SFW := (SFW dated bs f RD DN).
  Local Notation scursor := (scursor dated f).
  Local Notation glist_ok := (glist_ok dated f).
  Local Notation ssl_ok := (ssl_ok bs f).
  Local Notation is_group := (is_group dated f).
  Local Notation repr_at := (repr_at bs f).

  (* the step lemmas of work package A, each with the discipline hypotheses it uses *)
  Ltac pick L := first [ exact (L RD_mono RD_read RD_drop) | exact (L RD_mono RD_read) | exact (L RD_mono RD_drop)
                       | exact (L RD_read RD_drop) | exact (L RD_mono) | exact (L RD_read) | exact (L RD_drop) | exact L ].
  Let find_between_fw := ltac:(pick (c_find_between_fw dated bs f Hbs RD DN)).
  Let drop_try_fw := ltac:(pick (c_drop_data_try_fw dated bs f Hbs RD DN)).
  Let raise_fw := ltac:(pick (SFW_raise dated bs f Hbs RD DN)).
  Let scursor_fw := ltac:(pick (group_scursor dated bs f Hbs RD DN)).

  Lemma win_loop_struct fuel : forall S o gs plan i prev acc d g S' r,
    SFW S d g -> scursor d g o -> glist_ok o gs -> d <= o -> short f gs -> (length gs < fuel)%nat -> prev_fw dated bs f prev d o ->
    c_stream_win_loop dated fuel bs f fa fb plan i S o prev acc = (S', r) ->
    exists sls, r = Found (acc ++ sls) /\ repr_at sls (win_scan_at fa fb (with_offsets o gs)).
  Proof.
    induction fuel as [|k IH]; intros S o gs plan i prev acc d g S' r W SC GL DO SH FU PV; [lia|].
    cbn [c_stream_win_loop].
    destruct (c_find_between dated bs f fa fb S o) as [S1 r1] eqn:CF.
    destruct (find_between_fw fa fb _ _ _ _ _ _ _ _ W SC GL (spec_here_at dated bs f Hbs _ _ GL) DO SH CF) as (g1 & G1 & W1 & R1).
    rewrite (win_scan_at_skip fa fb gs o).
    pose proof (skip_before_len fa gs) as SKL.
    destruct (skip_before fa gs) as [|gk rest] eqn:SK.
    - subst r1. intro H; injection H as <- <-. exists []. rewrite app_nil_r. split; [reflexivity|constructor].
    - cbv zeta. destruct (dt_after fb (fst gk)).
      + subst r1. intro H; injection H as <- <-. exists []. rewrite app_nil_r. split; [reflexivity|constructor].
      + destruct R1 as (ok & s & -> & OK & G & GL1 & OO & NX).
        assert (OKE : o + total gs - total (gk :: rest) = ok).
        { destruct GL as [_ T1]. destruct GL1 as [_ T2]. lia. }
        rewrite OKE.
        destruct (glist_cons dated bs f Hbs _ _ _ GL1) as (_ & P & GL' & LAST).
        destruct (is_group_pos dated f _ _ G) as (_ & LE & _).
        rewrite (last_test bs f Hbs _ _ _ OK P LE).
        destruct (N.eqb_spec (ok + glen gk) (lenN f)) as [E|E].
        * intro H; injection H as <- <-. exists [s]. split; [reflexivity|].
          apply LAST in E. subst rest. constructor; [exact OK|constructor].
        * assert (STN : stored_at (s_lr S1) (ok + glen gk)) by (destruct NX; [contradiction|assumption]).
          pose proof W1 as (_ & _ & FW1 & _). pose proof FW1 as (_ & _ & _ & _ & _ & _ & _ & _ & F9).
          destruct (F9 _ STN) as (NG & _).
          destruct (syslines_at_fact dated f _ _ G) as ((_ & _ & _ & _ & _ & _ & LBok & _) & _).
          assert (SHR : short f rest) by (eapply (short_skip bs f Hbs); eauto).
          assert (FUR : (length rest < k)%nat) by (cbn in SKL; lia).
          assert (FIN : forall S2 d2 i2 pv2,
                    c_stream_win_loop dated k bs f fa fb plan i2 S2 (ok + glen gk) pv2 (acc ++ [s]) = (S', r) ->
                    pv2 = Some s -> SFW S2 d2 g1 -> d2 <= ok -> stored_at (s_lr S2) (ok + glen gk) ->
                    exists sls, r = Found (acc ++ sls) /\
                                repr_at sls ((ok, gk) :: win_scan_at fa fb (with_offsets (ok + glen gk) rest))).
          { intros S2 d2 i2 pv2 H -> W2 D2 ST2.
            assert (SC2 : scursor d2 g1 (ok + glen gk)) by (apply (scursor_fw S2 d2 g1 _ rest W2 GL'); [lia|right; exact ST2]).
            assert (PV2 : prev_fw dated bs f (Some s) d2 (ok + glen gk)) by (exists ok, gk; split; [exact OK|]; split; [exact G|]; lia).
            destruct (IH _ _ _ _ _ _ _ _ _ _ _ W2 SC2 GL' ltac:(lia) SHR FUR PV2 H) as (sls & -> & M).
            exists (s :: sls). rewrite <- app_assoc. split; [reflexivity|]. constructor; [exact OK|exact M]. }
          destruct prev as [pv|].
          -- destruct PV as (pb & pg & POK & PG & PD & PL).
             destruct (plan_at plan i).
             ++ destruct (syslines_at_fact dated f _ _ PG) as ((_ & _ & _ & _ & _ & _ & LBp & _) & _).
                assert (WR : SFW S1 pb g1) by (apply (raise_fw S1 d g1 pb W1 PD ltac:(lia) LBp)).
                pose proof (drop_try_fw S1 pv pb pg g1 WR POK PG) as W2.
                intro H. apply (FIN _ pb _ _ H eq_refl W2 ltac:(lia)).
                pose proof W2 as (_ & _ & FW2 & _). destruct FW2 as (_ & _ & _ & _ & _ & _ & _ & F8 & _).
                apply F8; [lia|exact NG|].
                destruct rest as [|g2 rest']; [exfalso; apply E; apply LAST; reflexivity|].
                destruct (glist_cons dated bs f Hbs _ _ _ GL') as (G2 & _).
                destruct (syslines_at_fact dated f _ _ G2) as ((_ & _ & _ & _ & _ & _ & LB2 & _) & _). exact LB2.
             ++ intro H. apply (FIN _ d _ _ H eq_refl W1 ltac:(lia) STN).
          -- intro H. apply (FIN _ d _ _ H eq_refl W1 ltac:(lia) STN).
  Qed.

  Theorem c_stream_win_struct S plan g S' r : SFW S 0 g ->
    c_stream_win dated bs f fa fb plan S = (S', r) ->
    exists sls, r = Found sls /\ repr_at sls (win_scan_at fa fb (syslines_at dated f)).
  Proof.
    intros W. unfold c_stream_win.
    destruct (c_find_between dated bs f fa fb S 0) as [S1 r1] eqn:CF.
    pose proof (glist_all dated f) as GL. pose proof (groups_len dated bs f Hbs) as GLEN.
    assert (SC0 : scursor 0 g 0).
    { split; [left; split; [lia|]; split; [lia|right; apply (first_line_beg bs f Hbs); reflexivity]|left; reflexivity]. }
    assert (SP0 : spec_here dated f 0 (first_dated_offset dated f) (syslines dated f)).
    { destruct (syslines dated f) as [|gg gs] eqn:SY; cbn.
      - unfold spec_find_sysline, syslines_at. rewrite SY. reflexivity.
      - destruct (glist_cons dated bs f Hbs _ _ _ GL) as (G & P & _).
        unfold spec_find_sysline, syslines_at. rewrite SY. apply pick_group_first. unfold glen in P. lia. }
    destruct (find_between_fw fa fb _ _ _ _ _ _ _ _ W SC0 GL SP0 (N.le_0_l _) GLEN CF) as (g1 & G1 & W1 & R1).
    unfold syslines_at. rewrite (win_scan_at_skip fa fb (syslines dated f)).
    pose proof (skip_before_len fa (syslines dated f)) as SKL.
    destruct (skip_before fa (syslines dated f)) as [|gk rest] eqn:SK.
    - subst r1. intro H; injection H as <- <-. exists []. split; [reflexivity|constructor].
    - cbv zeta. destruct (dt_after fb (fst gk)).
      + subst r1. intro H; injection H as <- <-. exists []. split; [reflexivity|constructor].
      + destruct R1 as (ok & s & -> & OK & G & GL1 & OO & NX).
        assert (OKE : first_dated_offset dated f + total (syslines dated f) - total (gk :: rest) = ok).
        { destruct GL as [_ T1]. destruct GL1 as [_ T2]. lia. }
        rewrite OKE.
        destruct (glist_cons dated bs f Hbs _ _ _ GL1) as (_ & P & GL' & LAST).
        destruct (is_group_pos dated f _ _ G) as (_ & LE & _).
        rewrite (last_test bs f Hbs _ _ _ OK P LE).
        destruct (N.eqb_spec (ok + glen gk) (lenN f)) as [E|E].
        * intro H; injection H as <- <-. exists [s]. split; [reflexivity|].
          apply LAST in E. subst rest. constructor; [exact OK|constructor].
        * assert (STN : stored_at (s_lr S1) (ok + glen gk)) by (destruct NX; [contradiction|assumption]).
          assert (SC2 : scursor 0 g1 (ok + glen gk)) by (apply (scursor_fw S1 0 g1 _ rest W1 GL'); [lia|right; exact STN]).
          assert (SHR : short f rest) by (eapply (short_skip bs f Hbs); [exact GLEN|exact SK]).
          assert (FUR : (length rest < Datatypes.S (length f))%nat) by (cbn in SKL; unfold short in SHR; lia).
          intro H.
          destruct (win_loop_struct _ _ _ _ _ _ None _ _ _ _ _ W1 SC2 GL' (N.le_0_l _) SHR FUR Logic.I H) as (sls & -> & M).
          exists (s :: sls). split; [reflexivity|]. constructor; [exact OK|exact M].
  Qed.

  (* block-zero analysis first (CachesFwdRunProofs.gate_SFW) *)
  Theorem fwd_driver_struct k1 k2 plan b0 : RD b0 0 ->
    (forall b z, b < lenN f -> line_beg f b = b ->
       dated (slice f b (b + 1)) = Some z -> dated (slice f b (line_end f b + 1)) = Some z) ->
    exists sls, snd (c_stream_win dated bs f fa fb plan (c_gate dated k1 k2 bs f (sr_init_b b0))) = Found sls /\
                repr_at sls (win_scan_at fa fb (syslines_at dated f)).
  Proof.
    intros R0 HP.
    assert (GW : exists g, SFW (c_gate dated k1 k2 bs f (sr_init_b b0)) 0 g).
    { eapply gate_SFW; eauto. }
    destruct GW as (g & W).
    destruct (c_stream_win dated bs f fa fb plan _) as [S' r] eqn:C.
    exact (c_stream_win_struct _ _ _ _ _ W C).
  Qed.
End StreamedDriver.

(* block-zero analysis, then the driver with the window and any drop plan, on a STREAMED container of any kind
   (c = KSeq: .gz / .bz2 / .lz4, look-behind drop; KXz; KTar), block drops enabled: the driver ends normally; the i-th
   emitted object represents the i-th message a forward scan selects, at its offset *)
Theorem streamed_driver_struct dated c bs (f : file) k1 k2 fa fb plan : 0 < bs ->
  (forall b z, b < lenN f -> line_beg f b = b ->
     dated (slice f b (b + 1)) = Some z -> dated (slice f b (line_end f b + 1)) = Some z) ->
  exists sls, snd (c_stream_win dated bs f fa fb plan (c_gate dated k1 k2 bs f (sr_init_b (b_open c bs (lenN f))))) = Found sls /\
              repr_at bs f sls (win_scan_at fa fb (syslines_at dated f)).
Proof.
  intros H HP. destruct (open_discipline c bs f H) as (RD & DN & A1 & A2 & A3 & A4).
  exact (fwd_driver_struct dated bs f H RD DN A1 A2 A3 fa fb k1 k2 plan _ A4 HP).
Qed.

(* cross-check: the statements of Props/C02.v are the byte observation of the two theorems above *)
Lemma repr_obs bs (f : file) sls bgs : repr_at bs f sls bgs -> map (sobs bs f) sls = map snd bgs.
Proof.
  induction 1 as [|s bg sls bgs OK _ IH]; [reflexivity|]. cbn [map]. rewrite IH, (sobs_ok bs f _ _ _ OK). reflexivity.
Qed.

Lemma plain_driver_obs dated bs (f : file) k1 k2 plan : 0 < bs ->
  (forall b z, b < lenN f -> line_beg f b = b ->
     dated (slice f b (b + 1)) = Some z -> dated (slice f b (line_end f b + 1)) = Some z) ->
  obs_stream bs f (rmap (snd (c_stream dated bs f plan (c_gate dated k1 k2 bs f sr_init)))) = Some (syslines dated f).
Proof.
  intros H HP. destruct (plain_driver_struct dated bs f k1 k2 plan H HP) as (sls & -> & R).
  rewrite obs_rmap, (repr_obs _ _ _ _ R). unfold syslines_at. rewrite with_offsets_groups. reflexivity.
Qed.

Lemma streamed_driver_obs dated c bs (f : file) k1 k2 fa fb plan : 0 < bs ->
  (forall b z, b < lenN f -> line_beg f b = b ->
     dated (slice f b (b + 1)) = Some z -> dated (slice f b (line_end f b + 1)) = Some z) ->
  obs_stream bs f (rmap (snd (c_stream_win dated bs f fa fb plan (c_gate dated k1 k2 bs f (sr_init_b (b_open c bs (lenN f))))))) =
  Some (win_scan fa fb (syslines dated f)).
Proof.
  intros H HP. destruct (streamed_driver_struct dated c bs f k1 k2 fa fb plan H HP) as (sls & -> & R).
  rewrite obs_rmap, (repr_obs _ _ _ _ R), win_scan_at_groups. unfold syslines_at. rewrite with_offsets_groups. reflexivity.
Qed.
