(* Proofs/CachesYearDriver.v — the year-less path at driver level (Model/Caches.v section YearLess).

   YI y st: the reader state st, its stored instants RE-DATED with the year y (CachesYearParam.rdS), satisfies the cache
   invariant of the oracle of the year y, and no range dangles.  It holds after clear_syslines for every year; a
   find_sysline_year call with the year y keeps it and answers as the spec of year y says (the message it builds
   carries the instant of year y: yi_find); remove_sysline empties both LRU caches, after which the invariant of one
   year is the invariant of every year (yi_change): the datedness of a line does not depend on the year. *)
From S4.Base Require Import Bytes Chunk.
From S4.Spec Require Import LinesSpec.
From S4.Model Require Import Lines Syslines Caches.
From S4.Proofs Require Import LinesProofs SyslinesProofs CachesProofs CachesSysProofs CachesRunProofs CachesYearProofs
  CachesYearParam.
Open Scope N_scope.

Section GroupsRedate.
  Variable D D' : list N -> option Z.
  Hypothesis Hind : forall l, D l = None <-> D' l = None.

  Definition val (o : option Z) : Z := match o with Some z => z | None => 0%Z end.
  Definition rdg (g : group) : group := (match snd g with l :: _ => val (D' l) | [] => 0%Z end, snd g).

  Lemma groups_redate ls : groups D' ls = (fst (groups D ls), map rdg (snd (groups D ls))).
  Proof.
    induction ls as [|l r IH]; [reflexivity|]. rewrite (groups_cons D'), (groups_cons D), IH.
    destruct (D l) as [t|] eqn:E; destruct (D' l) as [t'|] eqn:E'.
    - cbn [fst snd map]. do 2 f_equal. unfold rdg. cbn [snd]. rewrite E'. reflexivity.
    - exfalso. apply Hind in E'. congruence.
    - exfalso. apply Hind in E. congruence.
    - reflexivity.
  Qed.

  Lemma with_offsets_redate gs : forall o, with_offsets o (map rdg gs) = map (fun bg => (fst bg, rdg (snd bg))) (with_offsets o gs).
  Proof. induction gs as [|g gs IH]; intro o; cbn [map with_offsets]; [reflexivity|]. rewrite IH. reflexivity. Qed.

  Lemma is_group_redate (f : file) b g : is_group D f b g -> is_group D' f b (rdg g).
  Proof.
    unfold is_group, syslines_at, first_dated_offset, leading, syslines. rewrite groups_redate. cbn [fst snd].
    rewrite with_offsets_redate. intro IN. apply in_map_iff. exists (b, g). auto.
  Qed.
End GroupsRedate.

Section YearInv.
  Variable dated_y : option Z -> list N -> option Z.
  Variable bs : N.
  Variable f : file.
  Hypothesis Hbs : 0 < bs.
  (* the domain of C11: whether a line carries a timestamp does not depend on the year filled in (Issue #245 - 29 February
     in a common year - is excluded) *)
  Hypothesis Hind : forall y y' l, dated_y (Some y) l = None <-> dated_y (Some y') l = None.

  Definition D (y : Z) : list N -> option Z := dated_y (Some y).
  (* the instant of year y on the message that begins at b *)
  Definition phi (y : Z) (b : N) : Z := val (D y (slice f b (line_end f b + 1))).

  Local Notation lr_inv := (lr_inv bs f).
  Local Notation rinvy y := (@rinv (D y) bs f lr_inv).
  Local Notation rd y := (rdS bs (phi y)).

  Definition YI (y : Z) (st : sr_state) : Prop := rinvy y (rd y st) /\ no_dangling st.

  Lemma group_phi y b g : is_group (D y) f b g -> phi y b = fst g /\ rdg (D y) g = g.
  Proof.
    intro G. destruct (syslines_at_fact (D y) f _ _ G) as ((l & rest & SG & DL & PL & LT & LB & LE & SL) & _).
    unfold phi. rewrite LE. replace (b + lenN l - 1 + 1) with (b + lenN l) by lia. rewrite SL, DL.
    split; [reflexivity|]. unfold rdg. destruct g as [z l0]. cbn [fst snd] in *. subst l0. rewrite DL. reflexivity.
  Qed.

  Lemma is_group_year y y' b g : is_group (D y) f b g -> is_group (D y') f b (phi y' b, snd g).
  Proof.
    intro G. pose proof (is_group_redate (D y) (D y') (Hind y y') f b g G) as G'.
    destruct (group_phi y' _ _ G') as [P _]. unfold rdg in *. cbn [fst snd] in *. rewrite P. exact G'.
  Qed.

  Lemma glen_snd (g g' : group) : snd g = snd g' -> glen g = glen g'.
  Proof. unfold glen, group_bytes. intros ->. reflexivity. Qed.

  (* ---------------------------------------------------------------- clear_syslines, find_sysline_year, remove_sysline *)

  Lemma yi_clear y st : lr_inv (s_lr st) -> YI y (c_clear_syslines st) /\ s_lr (c_clear_syslines st) = s_lr st.
  Proof.
    intro L. destruct (clear_rinv (D y) bs f st L) as (RI & ND & LR).
    assert (E : rd y (c_clear_syslines st) = c_clear_syslines st).
    { unfold c_clear_syslines, sr_lru_disable, sr_lru_enable. destruct (s_on st); reflexivity. }
    split; [split; [rewrite E; exact RI|exact ND]|exact LR].
  Qed.

  Lemma yi_find y st fo st' r p : YI y st -> c_find_sysline (D y) bs f st fo = (st', r, p) ->
    YI y st' /\ r <> Panic /\ sres_ok (D y) bs f (rd y st) fo (rd_res bs (phi y) r) /\
    sys_step (D y) bs f (rd y st) (rd y st') (rd_res bs (phi y) r) /\
    (forall n s, r = Found (n, s) -> p = QSearch -> rd_ssl bs (phi y) s = s).
  Proof.
    intros [RI ND] C.
    destruct (c_find_sysline (D y) bs f (rd y st) fo) as [[st2 r2] p2] eqn:C2.
    assert (ND2 : no_dangling (rd y st)) by (apply nd_rd; exact ND).
    destruct (find_step (D y) bs f Hbs _ _ _ _ _ RI C2) as (RI2 & R2 & _).
    destruct (find_step0 (D y) bs f Hbs _ _ _ _ _ RI ND2 C2) as [NP2 ND2'].
    destruct (c_find_sysline_ok (D y) bs f Hbs _ _ _ _ _ (proj1 RI) C2) as (_ & _ & ST2 & _).
    assert (P : forall n s b, r2 = Found (n, s) -> ss_begin bs s = Some b -> phi y b = ss_dt s).
    { intros n s b -> B. cbn in R2. destruct R2 as (b' & g & G & OK & _).
      destruct (is_group_pos (D y) f _ _ G) as (PG & _).
      destruct (ssl_ok_facts bs f Hbs _ _ _ OK PG) as (BG & _). rewrite BG in B. inversion B; subst b'.
      destruct (group_phi y _ _ G) as [E _]. destruct OK as (DT & _). congruence. }
    destruct (find_sysline_rd2 bs f (phi y) (D y) _ _ _ _ _ _ _ _ C C2 P) as (-> & -> & -> & FACT).
    split; [split; [exact RI2|apply (nd_rd bs (phi y)); exact ND2']|].
    split; [intro E; subst r; apply NP2; reflexivity|]. split; [exact R2|]. split; [exact ST2|].
    intros n s -> Q. unfold rd_ssl. destruct (ss_begin bs s) as [b|] eqn:B; [|reflexivity].
    rewrite (FACT n s b Q eq_refl B). destruct s as [[i d] l]. reflexivity.
  Qed.

  (* with both LRU caches empty, the invariant of one year is the invariant of every year *)
  Lemma yi_change y y' st : YI y st -> s_lru st = [] -> s_parse st = [] -> YI y' st.
  Proof.
    intros [[I AS] ND] LU PA. split; [|exact ND]. split.
    - destruct I as [J1 J2 J3 J4 J5]. split.
      + exact J1.
      + intros k s' X. cbn [rdS s_syslines] in X. rewrite alookup_mapv in X.
        destruct (alookup k (s_syslines st)) as [s|] eqn:LK; [|discriminate]. cbn in X. injection X as <-.
        destruct (J2 k (rd_ssl bs (phi y) s)) as (g & G & OK).
        { cbn [rdS s_syslines]. rewrite alookup_mapv, LK. reflexivity. }
        destruct (is_group_pos (D y) f _ _ G) as (PG & _).
        destruct (ssl_ok_facts bs f Hbs _ _ _ OK PG) as (BG & _). rewrite rd_begin in BG.
        exists (phi y' k, snd g). split; [apply (is_group_year y y'); exact G|].
        destruct OK as (_ & M & C & NE). rewrite rd_lines in M, C, NE.
        unfold CachesSysProofs.ssl_ok. rewrite rd_lines. cbn [fst snd].
        split; [unfold rd_ssl; rewrite BG; reflexivity|]. split; [exact M|]. split; [|exact NE].
        rewrite (glen_snd (phi y' k, snd g) g eq_refl). exact C.
      + intros a b v IN. destruct (J3 a b v IN) as (g & G & -> & ->).
        exists (phi y' v, snd g). split; [apply (is_group_year y y'); exact G|]. split; [reflexivity|].
        rewrite (glen_snd (phi y' v, snd g) g eq_refl). reflexivity.
      + cbn [rdS s_lru]. rewrite LU. intros; discriminate.
      + cbn [rdS s_parse]. rewrite PA. intros; discriminate.
    - cbn [rdS s_syslines]. apply (proj2 (asc_mapv bs (phi y) (rd_ssl bs (phi y')) (s_syslines st))).
      apply (proj1 (asc_mapv bs (phi y) (rd_ssl bs (phi y)) (s_syslines st))). exact AS.
  Qed.

  Lemma remove_empty st b : s_lru (c_remove_sysline bs st b) = [] /\ s_parse (c_remove_sysline bs st b) = [].
  Proof.
    unfold c_remove_sysline, sr_lru_disable, sr_lru_enable. cbn [s_syslines s_on s_lru s_parse s_parse_on].
    destruct (alookup b (s_syslines st)); destruct (s_on st); cbn; auto.
  Qed.

  (* remove_sysline + the change of the year *)
  Lemma yi_remove y y' st b : YI y st ->
    YI y' (c_remove_sysline bs st b) /\ s_lr (c_remove_sysline bs st b) = s_lr st.
  Proof.
    intros [RI ND]. assert (ND2 : no_dangling (rd y st)) by (apply nd_rd; exact ND).
    destruct (remove_rinv (D y) bs f Hbs (rd y st) b RI ND2) as (RI' & ND' & LR').
    rewrite remove_rd in RI', ND', LR'. destruct (remove_empty st b) as [LU PA].
    split; [|exact LR'].
    apply (yi_change y y'); [split; [exact RI'|apply (nd_rd bs (phi y)); exact ND']|exact LU|exact PA].
  Qed.

  (* ---------------------------------------------------------------- the whole reverse pass (process_missing_year):
     whatever the years do, no call panics, the model's defensive Panic / Done outcomes do not occur, and the reader
     ends in the invariant of the year the pass ended with *)
  Theorem year_loop_safe tol fa fuel : forall st y fo prev st' r, YI y st ->
    c_year_loop dated_y fuel bs f tol fa st y fo prev = (st', r) ->
    r <> Panic /\ r <> Done /\ (r = OutOfFuel \/ exists y', r = Found y' /\ YI y' st').
  Proof.
    induction fuel as [|k IH]; intros st y fo prev st' r W; cbn [c_year_loop].
    { intro H; injection H as <- <-. split; [discriminate|]. split; [discriminate|left; reflexivity]. }
    fold (D y). destruct (c_find_sysline (D y) bs f st fo) as [[st1 r1] p1] eqn:C.
    destruct (yi_find y _ _ _ _ _ W C) as (W1 & NP & R1 & _ & _).
    destruct r1 as [[n s]| | |]; [| |intro H; injection H as <- <-; split; [discriminate|split; [discriminate|left; reflexivity]]|congruence].
    - cbn in R1. destruct R1 as (b & g & G & OK & _).
      destruct (is_group_pos (D y) f _ _ G) as (PG & _).
      destruct (ssl_ok_facts bs f Hbs _ _ _ OK PG) as (BG & _). rewrite rd_begin in BG. rewrite BG.
      destruct (match prev with Some p => _ | None => false end).
      + intro H. destruct (yi_remove y (y - 1) st1 b W1) as [W2 _]. exact (IH _ _ _ _ _ _ W2 H).
      + destruct (b <? 1); [intro H; injection H as <- <-; split; [discriminate|split; [discriminate|right; eauto]]|].
        destruct (dt_before fa (ss_dt s)); [intro H; injection H as <- <-; split; [discriminate|split; [discriminate|right; eauto]]|].
        destruct (fo <=? b - 1); [intro H; injection H as <- <-; split; [discriminate|split; [discriminate|right; eauto]]|].
        intro H. exact (IH _ _ _ _ _ _ W1 H).
    - intro H; injection H as <- <-. split; [discriminate|]. split; [discriminate|right; eauto].
  Qed.
End YearInv.

(* the statement in the form Props/C02.v uses: from any reader whose LineReader can read every block (a plain file, a tar
   member, a streamed file after disable_drop_data before anything was dropped) *)
Theorem yearless_reverse_pass_safe dated_y bs (f : file) tol fa fuel st Y fo : 0 < bs ->
  (forall y y' l, dated_y (Some y) l = None <-> dated_y (Some y') l = None) ->
  lr_inv bs f (s_lr st) ->
  let res := c_year_loop dated_y fuel bs f tol fa (c_clear_syslines st) Y fo None in
  snd res <> Panic /\ snd res <> Done /\
  (snd res = OutOfFuel \/ exists y', snd res = Found y' /\ YI dated_y bs f y' (fst res)).
Proof.
  intros H Hind L res. subst res.
  destruct (c_year_loop dated_y fuel bs f tol fa (c_clear_syslines st) Y fo None) as [st' r] eqn:C.
  destruct (yi_clear dated_y bs f Y st L) as [W _].
  exact (year_loop_safe dated_y bs f H Hind tol fa fuel _ _ _ _ _ _ W C).
Qed.


(* the domain hypothesis is satisfiable (the toy oracle dy2 dates a line or not whatever the year), and the conclusion is
   not vacuous: on fyj (a year change at the first message) the reverse pass ends with Found of the earlier year *)
Example dy2_domain : forall y y' l, dy2 (Some y) l = None <-> dy2 (Some y') l = None.
Proof. intros y y' l. unfold dy2. destruct l as [|a [|c l]]; [tauto|destruct a; tauto|].
  destruct (N.eq_dec a 50) as [->|N]; [split; discriminate|].
  assert (E : forall v, match a with 50 => Some (v + Z.of_N c)%Z | _ => None end = None).
  { intro v. destruct a as [|p]; [reflexivity|]. do 6 (destruct p as [p|p|]; try reflexivity). congruence. }
  split; intros _; apply E. Qed.
Example yearless_reverse_pass_safe_example :
  snd (c_year_loop dy2 20 2 fyj 10 None (c_clear_syslines (sr_init_b (b_init false))) 7 5 None) = Found 6%Z.
Proof. vm_compute. reflexivity. Qed.
