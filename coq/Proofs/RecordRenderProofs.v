(* Proofs/RecordRenderProofs.v — C08, the printed text of a record (Model/RecordRender.v):
   - numtoa's decimal text determines the number (dec_val_dec, dec_signed_val_dec_signed);
   - the cursor model of as_bytes returns exactly the concatenation of the items' texts when the
     text fits the buffer (as_bytes_is_render), and it always fits (render_length + the table
     obligation in FixedStructTablesOk.v);
   - a C string is printed from its own field's bytes alone, at most the field's width, whole
     when it has no NUL (cstr_text_length / _local / _full_width); every item reads its own
     field only (item_text_local); a record's line depends on its own bytes only (render_local);
   - reading a line back returns the items' texts (parse_render), so two records with clean values
     that print the same line agree on every shown field (render_injective); numbers, type names
     and addresses are always clean (items_clean_strings). *)
From Coq Require Import List NArith ZArith Bool Lia.
Import ListNotations.
From S4.Base Require Import Bytes.
From S4.Model Require Import Records RecordRender.
Local Open Scope N_scope.


(* ------------------------------------------------------------------ decimal *)
Definition is_digit (b : N) : bool := (48 <=? b) && (b <=? 57).
Definition dstep (a d : N) : N := 10 * a + (d - 48).

Lemma dec_fuel_app fuel n acc : dec_fuel fuel n acc = dec_fuel fuel n [] ++ acc.
Proof.
  revert n acc. induction fuel as [|f IH]; intros n acc; cbn [dec_fuel]; [reflexivity|].
  destruct (n <? 10); [reflexivity|].
  rewrite (IH (n / 10) ((48 + n mod 10) :: acc)), (IH (n / 10) [48 + n mod 10]).
  rewrite <- app_assoc. reflexivity.
Qed.

Lemma dec_fuel_val fuel n :
  n < 10 ^ N.of_nat fuel -> fold_left dstep (dec_fuel fuel n []) 0 = n.
Proof.
  revert n. induction fuel as [|f IH]; intros n H.
  - simpl in H. assert (n = 0) by lia. subst. reflexivity.
  - cbn [dec_fuel]. destruct (n <? 10) eqn:E.
    + apply N.ltb_lt in E. clear H IH. cbn [fold_left]. unfold dstep.
      rewrite (N.mod_small n 10 E). lia.
    + apply N.ltb_ge in E. rewrite dec_fuel_app, fold_left_app.
      rewrite IH.
      * clear H IH. cbn [fold_left]. unfold dstep.
        pose proof (N.div_mod n 10 ltac:(lia)) as Hdm.
        remember (n / 10) as q. remember (n mod 10) as r. lia.
      * rewrite Nat2N.inj_succ, N.pow_succ_r' in H.
        remember (10 ^ N.of_nat f) as p.
        apply N.div_lt_upper_bound; lia.
Qed.

Lemma pow2_le_pow10 k : 2 ^ k <= 10 ^ k.
Proof. apply N.pow_le_mono_l. lia. Qed.

Lemma dec_val_dec n : dec_val (dec n) = n.
Proof.
  unfold dec_val, dec. apply dec_fuel_val.
  rewrite Nat2N.inj_succ, N2Nat.id.
  pose proof (N.size_gt n). pose proof (pow2_le_pow10 (N.size n)).
  rewrite N.pow_succ_r'. remember (10 ^ N.size n) as p. remember (2 ^ N.size n) as q. lia.
Qed.

Lemma dec_fuel_digits fuel n acc :
  Forall (fun b => is_digit b = true) acc -> Forall (fun b => is_digit b = true) (dec_fuel fuel n acc).
Proof.
  revert n acc. induction fuel as [|f IH]; intros n acc H; cbn [dec_fuel]; [exact H|].
  assert (Hd : is_digit (48 + n mod 10) = true).
  { unfold is_digit. pose proof (N.mod_upper_bound n 10 ltac:(lia)).
    remember (n mod 10) as r.
    apply andb_true_iff. split; apply N.leb_le; lia. }
  destruct (n <? 10); [constructor; assumption|]. apply IH. constructor; assumption.
Qed.

Lemma dec_digits n : Forall (fun b => is_digit b = true) (dec n).
Proof. apply dec_fuel_digits. constructor. Qed.

Lemma dec_fuel_nonempty fuel n acc : dec_fuel (S fuel) n acc <> [].
Proof.
  cbn [dec_fuel]. destruct (n <? 10); [discriminate|].
  rewrite dec_fuel_app. intro H. apply app_eq_nil in H as [_ H]. discriminate.
Qed.

Lemma dec_nonempty n : dec n <> [].
Proof. apply dec_fuel_nonempty. Qed.

Lemma dec_inj a b : dec a = dec b -> a = b.
Proof. intro H. rewrite <- (dec_val_dec a), <- (dec_val_dec b), H. reflexivity. Qed.

Lemma dec_head_digit n : exists d r, dec n = d :: r /\ is_digit d = true.
Proof.
  pose proof (dec_nonempty n) as Hn. pose proof (dec_digits n) as Hd.
  destruct (dec n) as [|d r]; [contradiction|]. inversion Hd; subst. eauto.
Qed.

Lemma dsv_nonminus d r : d <> 45 -> dec_signed_val (d :: r) = Z.of_N (dec_val (d :: r)).
Proof.
  intro H. unfold dec_signed_val. destruct d as [|p]; [reflexivity|].
  repeat (destruct p as [p|p|]; try reflexivity).
  exfalso; apply H; reflexivity.
Qed.

Lemma dec_signed_val_dec_signed z : dec_signed_val (dec_signed z) = z.
Proof.
  unfold dec_signed. destruct (z <? 0)%Z eqn:E.
  - apply Z.ltb_lt in E. unfold dec_signed_val. rewrite dec_val_dec. lia.
  - apply Z.ltb_ge in E.
    destruct (dec_head_digit (Z.to_N z)) as [d [r [Hd Hdig]]].
    assert (Hne : d <> 45) by (intro; subst; discriminate).
    rewrite Hd, (dsv_nonminus d r Hne), <- Hd, dec_val_dec. lia.
Qed.

Lemma dec_signed_inj a b : dec_signed a = dec_signed b -> a = b.
Proof. intro H. rewrite <- (dec_signed_val_dec_signed a), <- (dec_signed_val_dec_signed b), H. reflexivity. Qed.

Definition is_numchar (b : N) : bool := is_digit b || (b =? 45).
Lemma dec_signed_chars z : Forall (fun b => is_numchar b = true) (dec_signed z).
Proof.
  unfold dec_signed. destruct (z <? 0)%Z.
  - constructor; [reflexivity|]. eapply Forall_impl; [|apply dec_digits].
    intros a Ha. unfold is_numchar. rewrite Ha. reflexivity.
  - eapply Forall_impl; [|apply dec_digits]. intros a Ha. unfold is_numchar. rewrite Ha. reflexivity.
Qed.


(* ------------------------------------------------------------------ the cursor model writes the text *)
Section Seq.
  Variable f32txt : bytes -> bytes.

  Definition pure_op (rbuf : bytes) (op : wop) : bytes :=
    match op with
    | OpWrite s => rev s ++ rbuf
    | OpBackIfBar => match rbuf with b :: r => if b =? 124 then r else rbuf | [] => rbuf end
    end.
  Definition pure_run (ops : list wop) (rbuf : bytes) : bytes := fold_left pure_op ops rbuf.
  Definition backs (ops : list wop) : nat :=
    length (filter (fun op => match op with OpBackIfBar => true | _ => false end) ops).

  Lemma write_ok cap rbuf s :
    (length rbuf + length s <= cap)%nat -> write cap rbuf s = WOk (rev s ++ rbuf).
  Proof.
    revert rbuf. induction s as [|b r IH]; intros rbuf H; cbn [write]; [reflexivity|].
    simpl in H. destruct (Nat.leb cap (length rbuf)) eqn:E.
    - apply Nat.leb_le in E. lia.
    - rewrite IH by (simpl; lia). simpl. rewrite <- app_assoc. reflexivity.
  Qed.

  Lemma pure_op_len rbuf op :
    (length rbuf <= length (pure_op rbuf op) + match op with OpBackIfBar => 1 | _ => 0 end)%nat.
  Proof.
    destruct op as [s|]; simpl.
    - rewrite app_length. lia.
    - destruct rbuf as [|b r]; simpl; [lia|]. destruct (b =? 124); simpl; lia.
  Qed.

  Lemma pure_run_len ops rbuf : (length rbuf <= length (pure_run ops rbuf) + backs ops)%nat.
  Proof.
    revert rbuf. induction ops as [|op r IH]; intro rbuf; simpl; [lia|].
    pose proof (pure_op_len rbuf op). specialize (IH (pure_op rbuf op)).
    unfold backs in *. simpl. destruct op; simpl in *; lia.
  Qed.

  Lemma run_ops_ok cap ops rbuf :
    (length (pure_run ops rbuf) + backs ops <= cap)%nat ->
    fold_left (run_op cap) ops (WOk rbuf) = WOk (pure_run ops rbuf).
  Proof.
    revert rbuf. induction ops as [|op r IH]; intros rbuf H; cbn [fold_left]; [reflexivity|].
    assert (Hstep : run_op cap (WOk rbuf) op = WOk (pure_op rbuf op)).
    { destruct op as [s|]; simpl.
      - apply write_ok.
        pose proof (pure_run_len r (rev s ++ rbuf)) as Hl. rewrite app_length, rev_length in Hl.
        simpl in H. unfold backs in *. simpl in *. lia.
      - destruct rbuf as [|b t]; [reflexivity|]. destruct (b =? 124); reflexivity. }
    rewrite Hstep. change (pure_run (op :: r) rbuf) with (pure_run r (pure_op rbuf op)) in H.
    apply IH. unfold backs in *. cbn [filter] in H.
    destruct op; cbn [length] in H; lia.
  Qed.

  (* every flag list opens with a non-empty literal: `buffer[at - 1]` is a byte of this item *)
  Definition flag_wf (it : ritem) : bool :=
    match it with RFlagList _ (_ :: _) _ _ => true | RFlagList _ [] _ _ => false | _ => true end.

  Lemma pure_run_app a b rbuf : pure_run (a ++ b) rbuf = pure_run b (pure_run a rbuf).
  Proof. apply fold_left_app. Qed.

  Lemma pure_writes l rbuf :
    pure_run (map (fun mn : N * bytes => OpWrite (snd mn)) l) rbuf = rev (concat (map snd l)) ++ rbuf.
  Proof.
    revert rbuf. induction l as [|x r IH]; intro rbuf; simpl; [reflexivity|].
    unfold pure_run in IH. rewrite IH. rewrite rev_app_distr, <- app_assoc. reflexivity.
  Qed.

  Lemma last_rev_head (t : bytes) d : t <> [] -> exists r, rev t = last t d :: r /\ rev r = removelast t.
  Proof.
    intro H. destruct (exists_last H) as [l' [a ->]].
    rewrite rev_app_distr, last_last, removelast_last. simpl. exists (rev l'). split; [reflexivity|apply rev_involutive].
  Qed.

  Lemma item_ops_text it e rbuf :
    flag_wf it = true ->
    pure_run (item_ops f32txt it e) rbuf = rev (item_text f32txt it e) ++ rbuf.
  Proof.
    intro Hwf. destruct it; try reflexivity.
    cbn [item_ops item_text]. unfold flag_text.
    destruct (byte_at off e =? 0); [reflexivity|].
    destruct opn as [|o opn']; [discriminate|].
    set (nm := filter (flag_set (byte_at off e)) names).
    change (pure_run (OpWrite (o :: opn') :: map (fun mn : N * bytes => OpWrite (snd mn)) nm ++ [OpBackIfBar; OpWrite cls]) rbuf)
      with (pure_run (map (fun mn : N * bytes => OpWrite (snd mn)) nm ++ [OpBackIfBar; OpWrite cls]) (rev (o :: opn') ++ rbuf)).
    rewrite pure_run_app, pure_writes.
    set (t := (o :: opn') ++ concat (map snd nm)).
    assert (Ht : rev (concat (map snd nm)) ++ rev (o :: opn') ++ rbuf = rev t ++ rbuf).
    { unfold t. rewrite rev_app_distr, <- app_assoc. reflexivity. }
    rewrite Ht. assert (Hne : t <> []) by (unfold t; discriminate).
    destruct (last_rev_head t 0 Hne) as [r [Hr Hrl]].
    unfold drop_trailing_bar. rewrite Hr.
    change (pure_run [OpBackIfBar; OpWrite cls] ((last t 0 :: r) ++ rbuf))
      with (rev cls ++ (if last t 0 =? 124 then r ++ rbuf else last t 0 :: r ++ rbuf)).
    destruct (last t 0 =? 124).
    - rewrite rev_app_distr, <- Hrl, rev_involutive, <- app_assoc. reflexivity.
    - rewrite rev_app_distr, <- app_assoc, Hr. reflexivity.
  Qed.

  Lemma items_ops_text items e rbuf :
    forallb flag_wf items = true ->
    pure_run (flat_map (fun it => item_ops f32txt it e) items) rbuf
    = rev (flat_map (fun it => item_text f32txt it e) items) ++ rbuf.
  Proof.
    revert rbuf. induction items as [|it r IH]; intros rbuf H; simpl; [reflexivity|].
    apply andb_true_iff in H as [H1 H2].
    rewrite pure_run_app, item_ops_text by exact H1. rewrite IH by exact H2.
    rewrite rev_app_distr, <- app_assoc. reflexivity.
  Qed.

  Definition count_backs (items : list ritem) : nat :=
    length (filter (fun it => match it with RFlagList _ _ _ _ => true | _ => false end) items).

  Lemma backs_items items e :
    (backs (flat_map (fun it => item_ops f32txt it e) items) <= count_backs items)%nat.
  Proof.
    induction items as [|it r IH]; simpl; [unfold backs; simpl; lia|].
    unfold backs, count_backs in *. rewrite filter_app, app_length.
    destruct it; simpl; try lia.
    destruct (byte_at off e =? 0); simpl; [lia|].
    rewrite filter_app, app_length. simpl.
    assert (length (filter (fun op : wop => match op with OpBackIfBar => true | _ => false end)
                           (map (fun mn : N * bytes => OpWrite (snd mn)) (filter (flag_set (byte_at off e)) names))) = 0)%nat.
    { induction (filter (flag_set (byte_at off e)) names); simpl; auto. }
    lia.
  Qed.

  (* the theorem: when the text fits (one spare byte per flag list, for the '|' that is written
     before it is taken back) the cursor model returns exactly the declarative text *)
  Theorem as_bytes_is_render cap items tail e :
    forallb flag_wf items = true ->
    (length (render f32txt items tail e) + count_backs items <= cap)%nat ->
    as_bytes f32txt cap items tail e = ROk (render f32txt items tail e).
  Proof.
    intros Hwf Hlen. unfold as_bytes.
    set (ops := flat_map (fun it => item_ops f32txt it e) items ++ [OpWrite tail]).
    assert (Hp : pure_run ops [] = rev (render f32txt items tail e)).
    { unfold ops. rewrite pure_run_app, items_ops_text by exact Hwf.
      cbn [pure_run fold_left pure_op]. unfold render. rewrite rev_app_distr, app_nil_r. reflexivity. }
    rewrite run_ops_ok.
    - rewrite Hp, rev_involutive. reflexivity.
    - rewrite Hp, rev_length. unfold ops, backs. rewrite filter_app, app_length. simpl.
      pose proof (backs_items items e). unfold backs in *. lia.
  Qed.
End Seq.


(* ------------------------------------------------------------------ reading a line back *)
Lemma strip_prefix_app p t : strip_prefix p (p ++ t) = Some t.
Proof. induction p as [|a p IH]; simpl; [reflexivity|]. rewrite N.eqb_refl. exact IH. Qed.

Fixpoint differs (p s : bytes) : bool :=
  match p, s with
  | a :: p', b :: s' => if a =? b then differs p' s' else true
  | _, _ => false
  end.

Lemma differs_no_prefix p s x : differs p s = true -> strip_prefix p (s ++ x) = None.
Proof.
  revert s. induction p as [|a p IH]; intros [|b s] H; simpl in *; try discriminate.
  destruct (a =? b); [apply IH; exact H|reflexivity].
Qed.

Definition memN (b : N) (l : bytes) : bool := existsb (N.eqb b) l.

Lemma memN_false_not_in b l : memN b l = false -> ~ In b l.
Proof.
  intros H G. unfold memN in H. assert (existsb (N.eqb b) l = true).
  { apply existsb_exists. exists b. split; [exact G|apply N.eqb_refl]. }
  congruence.
Qed.

Lemma break_at_app stop x y : memN stop x = false -> break_at stop (x ++ stop :: y) = (x, stop :: y).
Proof.
  induction x as [|b x IH]; intro H; simpl.
  - rewrite N.eqb_refl. reflexivity.
  - unfold memN in H. simpl in H. apply orb_false_iff in H as [H1 H2].
    rewrite N.eqb_sym, H1. rewrite IH by exact H2. reflexivity.
Qed.

Lemma span_bits_app x y :
  forallb is_bit x = true -> match y with [] => True | b :: _ => is_bit b = false end ->
  span_bits (x ++ y) = (x, y).
Proof.
  induction x as [|b x IH]; intros Hx Hy; simpl.
  - destruct y as [|c y]; [reflexivity|]. simpl. rewrite Hy. reflexivity.
  - simpl in Hx. apply andb_true_iff in Hx as [H1 H2]. rewrite H1, IH by assumption. reflexivity.
Qed.

(* the text after an item starts with the item's stop byte *)
Lemma render_head f32txt r tail e b :
  stop_of r tail = Some b -> exists t, render f32txt r tail e = b :: t.
Proof.
  unfold render. destruct r as [|it r]; simpl.
  - destruct tail as [|c t]; [discriminate|]. intro H; inversion H; subst. eauto.
  - destruct it; try discriminate.
    + destruct s as [|c s]; [discriminate|]. intro H; inversion H; subst. simpl. eauto.
    + destruct lit4 as [|c4 l4]; [discriminate|]. destruct lit6 as [|c6 l6]; [discriminate|].
      destruct (c4 =? c6) eqn:E; [|discriminate]. apply N.eqb_eq in E. subst c6.
      intro H; inversion H; subst. cbn [flat_map item_text]. unfold addr_text.
      destruct (forallb (N.eqb 0) (skipn 4 (slice off 16 e))); rewrite <- !app_assoc;
        cbn [app]; eexists; reflexivity.
Qed.

(* --- what can be checked on an item list once and for all --- *)
Definition next_lit (r : list ritem) (tail : bytes) : option bytes :=
  match r with
  | RLit s :: _ => Some s
  | [] => Some tail
  | _ => None
  end.

Definition bin4_static (r : list ritem) (tail : bytes) : bool :=
  match r with
  | RFlagList _ (o :: _) _ _ :: r' =>
      negb (is_bit o) && match stop_of r' tail with Some b => negb (is_bit b) | None => false end
  | _ => match stop_of r tail with Some b => negb (is_bit b) | None => false end
  end.

Definition flag_static (opn : bytes) (names : list (N * bytes)) (cls : bytes) (r : list ritem) (tail : bytes) : bool :=
  match opn, cls with
  | _ :: _, c :: _ =>
      negb (last opn 0 =? 124) &&
      forallb (fun mn => negb (memN c (removelast (snd mn))) && (last (snd mn) 0 =? 124)
                         && match snd mn with [] => false | _ => true end) names &&
      negb (c =? 124) &&
      match next_lit r tail with Some s => differs opn s | None => false end
  | _, _ => false
  end.

Definition item_static (it : ritem) (r : list ritem) (tail : bytes) : bool :=
  match it with
  | RLit _ => true
  | RBin4 _ => bin4_static r tail
  | RFlagList _ opn names cls => flag_static opn names cls r tail
  | _ => match stop_of r tail with Some _ => true | None => false end
  end.

Fixpoint static_ok (items : list ritem) (tail : bytes) : bool :=
  match items with
  | [] => true
  | it :: r => item_static it r tail && static_ok r tail
  end.

(* bin4 is made of binary digits *)
Lemma bin_fuel_bits fuel n acc : forallb is_bit acc = true -> forallb is_bit (bin_fuel fuel n acc) = true.
Proof.
  revert n acc. induction fuel as [|f IH]; intros n acc H; cbn [bin_fuel]; [exact H|].
  assert (Hb : is_bit (48 + n mod 2) = true).
  { pose proof (N.mod_upper_bound n 2 ltac:(lia)). remember (n mod 2) as r.
    assert (r = 0 \/ r = 1) as [->| ->] by lia; reflexivity. }
  destruct (n <? 2); [cbn [forallb]; rewrite Hb; exact H|]. apply IH. cbn [forallb]. rewrite Hb. exact H.
Qed.

Lemma bin4_bits n : forallb is_bit (bin4 n) = true.
Proof.
  unfold bin4. rewrite forallb_app. apply andb_true_iff. split.
  - induction (4 - length (bin n))%nat; simpl; auto.
  - apply bin_fuel_bits. reflexivity.
Qed.

Lemma my_last_app {A} (a b : list A) d : b <> [] -> last (a ++ b) d = last b d.
Proof.
  intro H. induction a as [|x a IH]; [reflexivity|].
  simpl. destruct (a ++ b) eqn:E; [apply app_eq_nil in E as [_ E]; contradiction|exact IH].
Qed.

(* the names of the set flags, with the last bar taken off, do not contain the closing byte *)
Lemma concat_names_last (nm : list (N * bytes)) c :
  forallb (fun mn => negb (memN c (removelast (snd mn))) && (last (snd mn) 0 =? 124)
                     && match snd mn with [] => false | _ => true end) nm = true ->
  negb (c =? 124) = true -> nm <> [] ->
  last (concat (map snd nm)) 0 = 124 /\ memN c (removelast (concat (map snd nm))) = false
  /\ concat (map snd nm) <> [].
Proof.
  intros H Hc Hne. induction nm as [|[m s] r IH]; [contradiction|].
  simpl in H. apply andb_true_iff in H as [H1 H2]. apply andb_true_iff in H1 as [H1 H1c].
  apply andb_true_iff in H1 as [H1a H1b]. apply negb_true_iff in H1a. apply N.eqb_eq in H1b.
  assert (Hsne : s <> []) by (destruct s; [discriminate|discriminate]). clear H1c.
  change (concat (map snd ((m, s) :: r))) with (s ++ concat (map snd r)).
  simpl snd in *.
  destruct r as [|x r'].
  - simpl. rewrite app_nil_r. split; [exact H1b|]. split; [exact H1a|exact Hsne].
  - destruct (IH H2 ltac:(discriminate)) as [I1 [I2 I3]].
    set (rest := concat (map snd (x :: r'))) in *.
    split; [|split].
    + rewrite my_last_app by exact I3. exact I1.
    + rewrite removelast_app by exact I3. unfold memN in *. rewrite existsb_app.
      apply orb_false_iff. split; [|exact I2].
      (* c not in s0 :: s' : not in removelast, and the last is 124 <> c *)
      assert (Hs : s = removelast s ++ [last s 0]) by (apply app_removelast_last; exact Hsne).
      rewrite Hs, existsb_app. apply orb_false_iff. split; [exact H1a|].
      simpl. rewrite H1b. apply negb_true_iff in Hc. rewrite Hc. reflexivity.
    + intro G. apply app_eq_nil in G as [G _]. contradiction.
Qed.

Lemma removelast_app_single {A} (l : list A) a : removelast (l ++ [a]) = l.
Proof. apply removelast_last. Qed.

Lemma last_app_ne {A} (a b : list A) d : b <> [] -> last (a ++ b) d = last b d.
Proof. apply my_last_app. Qed.

(* shape of a non-empty flag text: the opening literal, the names joined by bars, the closing
   literal; the first byte of the closing literal does not occur in the middle *)
Lemma flag_text_shape off opn names cls r tail e :
  flag_static opn names cls r tail = true -> (byte_at off e =? 0) = false ->
  exists c cls' mid, cls = c :: cls' /\ flag_text off opn names cls e = opn ++ mid ++ cls /\ memN c mid = false.
Proof.
  intros Hs Hb. unfold flag_static in Hs.
  destruct opn as [|o opn']; [discriminate|]. destruct cls as [|c cls']; [discriminate|].
  apply andb_true_iff in Hs as [Hs _]. apply andb_true_iff in Hs as [Hs Hc].
  apply andb_true_iff in Hs as [Ho Hn]. apply negb_true_iff in Ho.
  exists c, cls'. unfold flag_text. rewrite Hb. unfold drop_trailing_bar.
  set (nm := filter (flag_set (byte_at off e)) names).
  assert (Hnm : forallb (fun mn => negb (memN c (removelast (snd mn))) && (last (snd mn) 0 =? 124)
                     && match snd mn with [] => false | _ => true end) nm = true).
  { apply forallb_forall. intros x Hx. unfold nm in Hx. apply filter_In in Hx as [Hx _].
    apply (proj1 (forallb_forall _ names) Hn x Hx). }
  destruct nm as [|x nm'] eqn:En.
  - exists []. simpl concat. rewrite app_nil_r, Ho. split; [reflexivity|]. split; reflexivity.
  - destruct (concat_names_last (x :: nm') c Hnm Hc ltac:(discriminate)) as [I1 [I2 I3]].
    set (N := concat (map snd (x :: nm'))) in *.
    exists (removelast N). split; [reflexivity|].
    rewrite (last_app_ne (o :: opn') N 0 I3), I1, N.eqb_refl.
    rewrite removelast_app by exact I3. rewrite <- app_assoc. split; [reflexivity|exact I2].
Qed.

Section Parse.
  Variable f32txt : bytes -> bytes.

  Lemma parse_one_generic it r tail e :
    (match it with RLit _ | RBin4 _ | RFlagList _ _ _ _ => false | _ => true end) = true ->
    var_clean f32txt it (stop_of r tail) e = true ->
    parse_one it (stop_of r tail) (item_text f32txt it e ++ render f32txt r tail e)
    = Some (item_text f32txt it e, render f32txt r tail e).
  Proof.
    intros Hk Hc.
    destruct (stop_of r tail) as [b|] eqn:Es.
    - destruct (render_head f32txt r tail e b Es) as [t Ht]. rewrite Ht.
      assert (Hm : memN b (item_text f32txt it e) = false).
      { destruct it; try discriminate; simpl in Hc; apply negb_true_iff in Hc; exact Hc. }
      destruct it; try discriminate; cbn [parse_one]; rewrite break_at_app by exact Hm; reflexivity.
    - destruct it; try discriminate; simpl in Hc; discriminate.
  Qed.

  (* the first byte of the text after a Bin4 item is not a binary digit *)
  Lemma after_bin4 r tail e :
    bin4_static r tail = true -> static_ok r tail = true ->
    match render f32txt r tail e with [] => True | b :: _ => is_bit b = false end.
  Proof.
    intros Hs Hst. unfold bin4_static in Hs.
    assert (Hgen : forall r0, match stop_of r0 tail with Some b => negb (is_bit b) | None => false end = true ->
                   match render f32txt r0 tail e with [] => True | b :: _ => is_bit b = false end).
    { intros r0 H. destruct (stop_of r0 tail) as [b|] eqn:Es; [|discriminate].
      destruct (render_head f32txt r0 tail e b Es) as [t Ht]. rewrite Ht. apply negb_true_iff in H. exact H. }
    destruct r as [|it r']; [apply Hgen; exact Hs|].
    destruct it; try (apply Hgen; exact Hs).
    destruct opn as [|o opn']; [apply Hgen; exact Hs|].
    apply andb_true_iff in Hs as [Ho Hn]. apply negb_true_iff in Ho.
    unfold render. cbn [flat_map item_text].
    destruct (byte_at off e =? 0) eqn:Eb.
    - unfold flag_text. rewrite Eb. cbn [app]. apply (Hgen r' Hn).
    - simpl in Hst. apply andb_true_iff in Hst as [Hf _].
      destruct (flag_text_shape off (o :: opn') names cls r' tail e Hf Eb) as [c [cls' [mid [_ [Ht _]]]]].
      rewrite Ht. simpl. exact Ho.
  Qed.

  Lemma parse_one_bin4 off r tail e :
    bin4_static r tail = true -> static_ok r tail = true ->
    parse_one (RBin4 off) (stop_of r tail) (item_text f32txt (RBin4 off) e ++ render f32txt r tail e)
    = Some (item_text f32txt (RBin4 off) e, render f32txt r tail e).
  Proof.
    intros Hs Hst. cbn [item_text parse_one].
    change (([48; 98] ++ bin4 (byte_at off e)) ++ render f32txt r tail e)
      with ([48; 98] ++ (bin4 (byte_at off e) ++ render f32txt r tail e)).
    rewrite strip_prefix_app, span_bits_app; [reflexivity|apply bin4_bits|].
    apply after_bin4; assumption.
  Qed.

  Lemma render_next_lit r tail e s :
    next_lit r tail = Some s -> exists x, render f32txt r tail e = s ++ x.
  Proof.
    unfold render. destruct r as [|it r']; simpl.
    - intro H; inversion H; subst. exists []. rewrite app_nil_r. reflexivity.
    - destruct it; try discriminate. intro H; inversion H; subst. simpl.
      eexists. rewrite <- app_assoc. reflexivity.
  Qed.

  Lemma parse_one_flags off opn names cls r tail e :
    flag_static opn names cls r tail = true ->
    parse_one (RFlagList off opn names cls) (stop_of r tail)
              (item_text f32txt (RFlagList off opn names cls) e ++ render f32txt r tail e)
    = Some (item_text f32txt (RFlagList off opn names cls) e, render f32txt r tail e).
  Proof.
    intro Hs. cbn [item_text parse_one].
    destruct (byte_at off e =? 0) eqn:Eb.
    - unfold flag_text. rewrite Eb. cbn [app].
      unfold flag_static in Hs. destruct opn as [|o opn']; [discriminate|]. destruct cls as [|c cls']; [discriminate|].
      apply andb_true_iff in Hs as [_ Hd].
      destruct (next_lit r tail) as [s|] eqn:En; [|discriminate].
      destruct (render_next_lit r tail e s En) as [x Hx]. rewrite Hx.
      rewrite differs_no_prefix by exact Hd. reflexivity.
    - destruct (flag_text_shape off opn names cls r tail e Hs Eb) as [c [cls' [mid [Hcls [Ht Hm]]]]].
      rewrite Ht, <- !app_assoc, strip_prefix_app. subst cls.
      change ((c :: cls') ++ render f32txt r tail e) with (c :: (cls' ++ render f32txt r tail e)).
      rewrite break_at_app by exact Hm.
      change (c :: cls' ++ render f32txt r tail e) with ((c :: cls') ++ render f32txt r tail e).
      rewrite strip_prefix_app. reflexivity.
  Qed.

  (* reading back: for every entry whose values are clean the parser returns exactly the texts
     of the items, in order *)
  Theorem parse_render items tail e :
    static_ok items tail = true ->
    items_clean f32txt items tail e = true ->
    parse_items items tail (render f32txt items tail e) = Some (var_texts f32txt items e).
  Proof.
    induction items as [|it r IH]; intros Hst Hcl.
    - unfold render. simpl. rewrite <- (app_nil_r tail) at 2. rewrite strip_prefix_app. reflexivity.
    - simpl in Hst, Hcl. apply andb_true_iff in Hst as [Hi Hst]. apply andb_true_iff in Hcl as [Hc Hcl].
      specialize (IH Hst Hcl).
      assert (Hr : render f32txt (it :: r) tail e = item_text f32txt it e ++ render f32txt r tail e).
      { unfold render. simpl. rewrite <- app_assoc. reflexivity. }
      rewrite Hr.
      destruct it.
      + cbn [parse_items item_text]. rewrite strip_prefix_app, IH. reflexivity.
      + cbn [parse_items]. rewrite parse_one_generic by (reflexivity || exact Hc). rewrite IH. reflexivity.
      + cbn [parse_items]. rewrite parse_one_generic by (reflexivity || exact Hc). rewrite IH. reflexivity.
      + cbn [parse_items]. rewrite parse_one_generic by (reflexivity || exact Hc). rewrite IH. reflexivity.
      + cbn [parse_items]. rewrite parse_one_bin4 by assumption. rewrite IH. reflexivity.
      + cbn [parse_items]. rewrite parse_one_flags by exact Hi. rewrite IH. reflexivity.
      + cbn [parse_items]. rewrite parse_one_generic by (reflexivity || exact Hc). rewrite IH. reflexivity.
      + cbn [parse_items]. rewrite parse_one_generic by (reflexivity || exact Hc). rewrite IH. reflexivity.
  Qed.

  (* two entries with clean values that print the same line agree on the text of every item *)
  Theorem render_injective items tail e1 e2 :
    static_ok items tail = true ->
    items_clean f32txt items tail e1 = true -> items_clean f32txt items tail e2 = true ->
    render f32txt items tail e1 = render f32txt items tail e2 ->
    var_texts f32txt items e1 = var_texts f32txt items e2.
  Proof.
    intros Hs H1 H2 He.
    pose proof (parse_render items tail e1 Hs H1) as P1.
    pose proof (parse_render items tail e2 Hs H2) as P2.
    rewrite He in P1. rewrite P1 in P2. inversion P2. reflexivity.
  Qed.

  Lemma var_texts_in items e1 e2 it :
    var_texts f32txt items e1 = var_texts f32txt items e2 -> In it items -> is_var it = true ->
    item_text f32txt it e1 = item_text f32txt it e2.
  Proof.
    unfold var_texts. induction items as [|x r IH]; intros H Hin Hv; [contradiction|].
    simpl in H. destruct (is_var x) eqn:Ex.
    - simpl in H. inversion H as [[Hh Ht]]. destruct Hin as [->|Hin]; [exact Hh|apply IH; assumption].
    - destruct Hin as [->|Hin]; [congruence|apply IH; assumption].
  Qed.
End Parse.

(* what the texts say about the fields: the text of an integer field determines the integer *)
Lemma num_text_value f32txt off sz sg e :
  dec_signed_val (item_text f32txt (RNum off sz sg) e) = field_int off sz sg e.
Proof. apply dec_signed_val_dec_signed. Qed.


(* ------------------------------------------------------------------ C strings stay inside their field *)
Lemma take_cstr_length l : (length (take_cstr l) <= length l)%nat.
Proof. induction l as [|b r IH]; simpl; [lia|]. destruct (b =? 0); simpl; lia. Qed.

Lemma slice_length off w e : (length (slice off w e) <= N.to_nat w)%nat.
Proof. unfold slice. rewrite firstn_length. lia. Qed.

Lemma take_cstr_no_nul l : ~ In 0 (take_cstr l).
Proof.
  induction l as [|b r IH]; simpl; [tauto|]. destruct (b =? 0) eqn:E; simpl; [tauto|].
  apply N.eqb_neq in E. intros [H|H]; [congruence|tauto].
Qed.

Lemma take_cstr_full l : ~ In 0 l -> take_cstr l = l.
Proof.
  induction l as [|b r IH]; intro H; simpl; [reflexivity|].
  destruct (b =? 0) eqn:E.
  - apply N.eqb_eq in E. subst. exfalso. apply H. left. reflexivity.
  - rewrite IH; [reflexivity|]. intro G. apply H. right. exact G.
Qed.

Lemma take_cstr_prefix l : exists r, l = take_cstr l ++ r.
Proof.
  induction l as [|b t IH]; simpl; [exists []; reflexivity|].
  destruct (b =? 0); [exists (b :: t); reflexivity|]. destruct IH as [r Hr]. exists r. simpl. congruence.
Qed.

(* the printed string of a field never has more bytes than the field *)
Theorem cstr_text_length off w s e : (length (cstr_text off w s e) <= N.to_nat w)%nat.
Proof.
  unfold cstr_text. pose proof (take_cstr_length (slice off w e)). pose proof (slice_length off w e). lia.
Qed.

(* ... and is a function of the field's own bytes alone: whatever follows the field in the
   entry (the next field, the next record) has no influence, NUL-terminated or not *)
Theorem cstr_text_local off w s e1 e2 :
  slice off w e1 = slice off w e2 -> cstr_text off w s e1 = cstr_text off w s e2.
Proof. unfold cstr_text. intros ->. reflexivity. Qed.

(* a field filled to its width without a NUL is printed whole, and nothing more *)
Theorem cstr_text_full_width off w s e :
  ~ In 0 (slice off w e) -> cstr_text off w s e = slice off w e.
Proof. intro H. unfold cstr_text. apply take_cstr_full. exact H. Qed.

(* a field with a NUL is printed up to it *)
Theorem cstr_text_until_nul off w s e a b :
  slice off w e = a ++ 0 :: b -> ~ In 0 a -> cstr_text off w s e = a.
Proof.
  intros H Ha. unfold cstr_text. rewrite H. clear H.
  induction a as [|x a IH]; simpl; [reflexivity|].
  destruct (x =? 0) eqn:E; [apply N.eqb_eq in E; subst; exfalso; apply Ha; left; reflexivity|].
  rewrite IH; [reflexivity|]. intro G. apply Ha. right. exact G.
Qed.

(* ------------------------------------------------------------------ each item shows its own field only *)
Definition item_span (it : ritem) : N * N :=
  match it with
  | RLit _ => (0, 0)
  | RCstr off w _ => (off, w)
  | RNum off sz _ => (off, sz)
  | RUtType off sz _ _ => (off, sz)
  | RBin4 off => (off, 1)
  | RFlagList off _ _ _ => (off, 1)
  | RF32 off => (off, 4)
  | RAddr off _ _ => (off, 16)
  end.

Lemma nth_hd_skipn (n : nat) (e : bytes) : nth n e 0 = hd 0 (firstn 1 (skipn n e)).
Proof.
  revert e. induction n as [|n IH]; intros [|b e]; try reflexivity. simpl. apply IH.
Qed.

Lemma byte_at_slice off e : byte_at off e = hd 0 (slice off 1 e).
Proof. unfold byte_at, slice. change (N.to_nat 1) with 1%nat. apply nth_hd_skipn. Qed.

Theorem item_text_local f32txt it e1 e2 :
  slice (fst (item_span it)) (snd (item_span it)) e1 = slice (fst (item_span it)) (snd (item_span it)) e2 ->
  item_text f32txt it e1 = item_text f32txt it e2.
Proof.
  destruct it; simpl; intro H; try reflexivity.
  - unfold cstr_text. rewrite H. reflexivity.
  - unfold field_int. rewrite H. reflexivity.
  - unfold ut_type_text, field_int. rewrite H. reflexivity.
  - rewrite !byte_at_slice, H. reflexivity.
  - unfold flag_text. rewrite !byte_at_slice, H. reflexivity.
  - rewrite H. reflexivity.
  - unfold addr_text. rewrite H. reflexivity.
Qed.

(* the line of the record at file offset fo of a file of sz-byte entries depends on the bytes
   [fo, fo + sz) of the file and on nothing else *)
Theorem render_local f32txt items tail fo sz file1 file2 :
  slice fo sz file1 = slice fo sz file2 ->
  render f32txt items tail (slice fo sz file1) = render f32txt items tail (slice fo sz file2).
Proof. intros ->. reflexivity. Qed.

(* ------------------------------------------------------------------ numbers never break the line *)
Definition is_hexchar (b : N) : bool := is_digit b || ((65 <=? b) && (b <=? 70)).

Definition auto_clean (it : ritem) (stop : N) : bool :=
  match it with
  | RNum _ _ _ => negb (is_numchar stop)
  | RUtType _ _ _ names => negb (is_numchar stop) && forallb (fun nm => negb (memN stop nm)) names
  | RAddr _ l4 l6 => negb (is_numchar stop) && negb (is_hexchar stop) && negb (stop =? 46) && negb (stop =? 58)
                     && negb (memN stop l4) && negb (memN stop l6)
  | _ => true
  end.

Lemma memN_forall P stop l :
  Forall (fun b => P b = true) l -> P stop = false -> memN stop l = false.
Proof.
  intros H Hs. unfold memN. induction H as [|b l Hb Hl IH]; simpl; [reflexivity|].
  rewrite IH, orb_false_r. destruct (stop =? b) eqn:E; [|reflexivity].
  apply N.eqb_eq in E. subst. congruence.
Qed.

Lemma memN_app stop a b : memN stop (a ++ b) = memN stop a || memN stop b.
Proof. unfold memN. apply existsb_app. Qed.

Lemma hex_fuel_chars fuel n acc :
  Forall (fun b => is_hexchar b = true) acc -> Forall (fun b => is_hexchar b = true) (hex_fuel fuel n acc).
Proof.
  revert n acc. induction fuel as [|f IH]; intros n acc H; cbn [hex_fuel]; [exact H|].
  assert (Hd : is_hexchar (hexdigit (n mod 16)) = true).
  { pose proof (N.mod_upper_bound n 16 ltac:(lia)) as Hm. remember (n mod 16) as r. clear Heqr.
    unfold hexdigit, is_hexchar, is_digit. destruct (r <? 10) eqn:E.
    - apply N.ltb_lt in E. apply orb_true_iff. left. apply andb_true_iff. split; apply N.leb_le; lia.
    - apply N.ltb_ge in E. apply orb_true_iff. right. apply andb_true_iff. split; apply N.leb_le; lia. }
  destruct (n <? 16); [constructor; assumption|]. apply IH. constructor; assumption.
Qed.
Lemma hexU_chars n : Forall (fun b => is_hexchar b = true) (hexU n).
Proof. apply hex_fuel_chars. constructor. Qed.

Lemma dec_numchars n : Forall (fun b => is_numchar b = true) (dec n).
Proof. eapply Forall_impl; [|apply dec_digits]. intros a Ha. unfold is_numchar. rewrite Ha. reflexivity. Qed.

Lemma auto_clean_ok f32txt it stop e :
  (match it with RNum _ _ _ | RUtType _ _ _ _ | RAddr _ _ _ => true | _ => false end) = true ->
  auto_clean it stop = true -> var_clean f32txt it (Some stop) e = true.
Proof.
  intros Hk Ha. destruct it; try discriminate; cbn [var_clean item_text auto_clean] in *; apply negb_true_iff.
  - apply negb_true_iff in Ha. change (existsb (N.eqb stop) ?l) with (memN stop l).
    eapply memN_forall; [apply dec_signed_chars|exact Ha].
  - apply andb_true_iff in Ha as [Ha Hn]. apply negb_true_iff in Ha.
    change (existsb (N.eqb stop) ?l) with (memN stop l). unfold ut_type_text.
    destruct ((0 <=? field_int off sz signed e)%Z && (field_int off sz signed e <? Z.of_nat (length names))%Z).
    + destruct (nth_in_or_default (Z.to_nat (field_int off sz signed e)) names []) as [Hin|Hd].
      * apply (proj1 (forallb_forall _ names) Hn) in Hin. apply negb_true_iff in Hin. exact Hin.
      * rewrite Hd. reflexivity.
    + eapply memN_forall; [apply dec_signed_chars|exact Ha].
  - repeat (apply andb_true_iff in Ha as [Ha ?]).
    repeat match goal with H : negb _ = true |- _ => apply negb_true_iff in H end.
    change (existsb (N.eqb stop) ?l) with (memN stop l). unfold addr_text.
    assert (Hdec : forall n, memN stop (dec n) = false) by (intro n; eapply memN_forall; [apply dec_numchars|assumption]).
    assert (Hhex : forall n, memN stop (hexU n) = false) by (intro n; eapply memN_forall; [apply hexU_chars|assumption]).
    destruct (forallb (N.eqb 0) (skipn 4 (slice off 16 e))); rewrite !memN_app, ?Hdec, ?Hhex; cbn [memN existsb];
      repeat match goal with H : (stop =? _) = false |- _ => rewrite H end;
      repeat match goal with H : memN stop _ = false |- _ => rewrite H end; reflexivity.
Qed.

(* the part of the cleanliness condition that does depend on the values: strings and the f32 text *)
Definition needs_value (it : ritem) : bool :=
  match it with RCstr _ _ _ | RF32 _ => true | _ => false end.

Fixpoint strings_clean (f32txt : bytes -> bytes) (items : list ritem) (tail : bytes) (e : bytes) : bool :=
  match items with
  | [] => true
  | it :: r => (if needs_value it then var_clean f32txt it (stop_of r tail) e else true)
               && strings_clean f32txt r tail e
  end.

Fixpoint all_auto_clean (items : list ritem) (tail : bytes) : bool :=
  match items with
  | [] => true
  | it :: r => match it with
               | RNum _ _ _ | RUtType _ _ _ _ | RAddr _ _ _ =>
                   match stop_of r tail with Some b => auto_clean it b | None => false end
               | _ => true
               end && all_auto_clean r tail
  end.

Theorem items_clean_strings f32txt items tail e :
  all_auto_clean items tail = true ->
  items_clean f32txt items tail e = strings_clean f32txt items tail e.
Proof.
  induction items as [|it r IH]; intro H; [reflexivity|].
  cbn [all_auto_clean] in H. apply andb_true_iff in H as [H1 H2].
  cbn [items_clean strings_clean]. rewrite (IH H2). f_equal.
  destruct it; try reflexivity;
    (destruct (stop_of r tail) as [b|]; [|discriminate]; cbn [needs_value];
     apply auto_clean_ok; [reflexivity|exact H1]).
Qed.


(* ------------------------------------------------------------------ the line fits the print buffer *)
Definition bytes_ok (e : bytes) : Prop := Forall (fun b => b < 256) e.

Lemma Forall_firstn {A} (P : A -> Prop) n l : Forall P l -> Forall P (firstn n l).
Proof. revert l. induction n; intros [|x l] H; simpl; try constructor; inversion H; subst; auto. Qed.
Lemma Forall_skipn {A} (P : A -> Prop) n l : Forall P l -> Forall P (skipn n l).
Proof. revert l. induction n; intros [|x l] H; simpl; auto. inversion H; subst; auto. Qed.

Lemma bytes_ok_slice off w e : bytes_ok e -> bytes_ok (slice off w e).
Proof. unfold bytes_ok, slice. intro H. apply Forall_firstn, Forall_skipn. exact H. Qed.

Lemma le_unsigned_bound bs : bytes_ok bs -> le_unsigned bs < 2 ^ (8 * N.of_nat (length bs)).
Proof.
  induction 1 as [|b r Hb Hr IH]; [simpl; lia|].
  cbn [le_unsigned length]. rewrite Nat2N.inj_succ.
  replace (8 * N.succ (N.of_nat (length r))) with (8 + 8 * N.of_nat (length r)) by lia.
  rewrite N.pow_add_r. change (2 ^ 8) with 256.
  cbv beta in Hb. remember (2 ^ (8 * N.of_nat (length r))) as p. remember (le_unsigned r) as u. clear Heqp Hequ Hr. lia.
Qed.

Lemma size_le_of_lt n k : n < 2 ^ k -> N.size n <= k.
Proof.
  intro H. destruct (N.eq_dec n 0) as [->|Hn]; [simpl; lia|].
  rewrite N.size_log2 by exact Hn.
  assert (N.log2 n < k) by (apply N.log2_lt_pow2; lia). lia.
Qed.

Lemma dec_fuel_len fuel n acc : (length (dec_fuel fuel n acc) <= fuel + length acc)%nat.
Proof.
  revert n acc. induction fuel as [|f IH]; intros n acc; cbn [dec_fuel]; [lia|].
  destruct (n <? 10); [cbn [length]; lia|]. specialize (IH (n / 10) ((48 + n mod 10) :: acc)). cbn [length] in IH.
  remember (dec_fuel f (n / 10) ((48 + n mod 10) :: acc)) as l. clear Heql. lia.
Qed.
Lemma bin_fuel_len fuel n acc : (length (bin_fuel fuel n acc) <= fuel + length acc)%nat.
Proof.
  revert n acc. induction fuel as [|f IH]; intros n acc; cbn [bin_fuel]; [lia|].
  destruct (n <? 2); [cbn [length]; lia|]. specialize (IH (n / 2) ((48 + n mod 2) :: acc)). cbn [length] in IH.
  remember (bin_fuel f (n / 2) ((48 + n mod 2) :: acc)) as l. clear Heql. lia.
Qed.
Lemma hex_fuel_len fuel n acc : (length (hex_fuel fuel n acc) <= fuel + length acc)%nat.
Proof.
  revert n acc. induction fuel as [|f IH]; intros n acc; cbn [hex_fuel]; [lia|].
  destruct (n <? 16); [cbn [length]; lia|]. specialize (IH (n / 16) (hexdigit (n mod 16) :: acc)). cbn [length] in IH.
  remember (hex_fuel f (n / 16) (hexdigit (n mod 16) :: acc)) as l. clear Heql. lia.
Qed.

Lemma dec_len n k : n < 2 ^ k -> (length (dec n) <= S (N.to_nat k))%nat.
Proof.
  intro H. unfold dec. pose proof (dec_fuel_len (S (N.to_nat (N.size n))) n []).
  pose proof (size_le_of_lt n k H). simpl in *. lia.
Qed.
Lemma bin_len n k : n < 2 ^ k -> (length (bin n) <= S (N.to_nat k))%nat.
Proof.
  intro H. unfold bin. pose proof (bin_fuel_len (S (N.to_nat (N.size n))) n []).
  pose proof (size_le_of_lt n k H). simpl in *. lia.
Qed.
Lemma hexU_len n k : n < 2 ^ k -> (length (hexU n) <= S (N.to_nat k))%nat.
Proof.
  intro H. unfold hexU. pose proof (hex_fuel_len (S (N.to_nat (N.size n))) n []).
  pose proof (size_le_of_lt n k H). simpl in *. lia.
Qed.

Lemma pow2_mono a b : a <= b -> 2 ^ a <= 2 ^ b.
Proof. intro H. apply N.pow_le_mono_r; lia. Qed.

Lemma field_unsigned_bound off sz e :
  bytes_ok e -> le_unsigned (slice off sz e) < 2 ^ (8 * sz).
Proof.
  intro H. pose proof (le_unsigned_bound _ (bytes_ok_slice off sz e H)) as Hb.
  pose proof (slice_length off sz e) as Hl.
  assert (2 ^ (8 * N.of_nat (length (slice off sz e))) <= 2 ^ (8 * sz)) by (apply pow2_mono; lia).
  lia.
Qed.

Lemma dec_signed_len z k : (Z.abs z < 2 ^ Z.of_N k)%Z -> (length (dec_signed z) <= 2 + N.to_nat k)%nat.
Proof.
  intro H. unfold dec_signed.
  assert (Hn : forall m, (Z.of_N m < 2 ^ Z.of_N k)%Z -> m < 2 ^ k).
  { intros m Hm. apply N2Z.inj_lt. rewrite N2Z.inj_pow. exact Hm. }
  destruct (z <? 0)%Z eqn:E.
  - apply Z.ltb_lt in E. simpl. pose proof (dec_len (Z.to_N (- z)) k) as Hd.
    assert (Z.to_N (- z) < 2 ^ k) by (apply Hn; rewrite Z2N.id; lia). specialize (Hd H0). lia.
  - apply Z.ltb_ge in E. pose proof (dec_len (Z.to_N z) k) as Hd.
    assert (Z.to_N z < 2 ^ k) by (apply Hn; rewrite Z2N.id; lia). specialize (Hd H0). lia.
Qed.

Lemma field_int_abs off sz sg e :
  bytes_ok e -> (Z.abs (field_int off sz sg e) < 2 ^ Z.of_N (8 * sz))%Z.
Proof.
  intro H. pose proof (le_unsigned_bound _ (bytes_ok_slice off sz e H)) as Hb.
  pose proof (slice_length off sz e) as Hl.
  assert (Hp : 2 ^ (8 * N.of_nat (length (slice off sz e))) <= 2 ^ (8 * sz)) by (apply pow2_mono; lia).
  set (bs := slice off sz e) in *.
  assert (HZ : (Z.of_N (le_unsigned bs) < 2 ^ (8 * Z.of_nat (length bs)))%Z).
  { apply N2Z.inj_lt in Hb. rewrite N2Z.inj_pow, N2Z.inj_mul, nat_N_Z in Hb. exact Hb. }
  assert (HP : (2 ^ (8 * Z.of_nat (length bs)) <= 2 ^ Z.of_N (8 * sz))%Z).
  { apply N2Z.inj_le in Hp. rewrite !N2Z.inj_pow, N2Z.inj_mul, nat_N_Z in Hp. exact Hp. }
  assert (H0 : (0 <= Z.of_N (le_unsigned bs))%Z) by apply N2Z.is_nonneg.
  clear Hb Hp Hl. unfold field_int. fold bs.
  remember (2 ^ Z.of_N (8 * sz))%Z as W. clear HeqW.
  destruct sg.
  - unfold le_signed. remember (Z.of_N (le_unsigned bs)) as u. remember (2 ^ (8 * Z.of_nat (length bs)))%Z as w.
    assert (Hw : (0 < w)%Z) by (subst w; apply Z.pow_pos_nonneg; lia).
    clear Hequ Heqw.
    destruct (2 * u <? w)%Z eqn:E; [lia|]. apply Z.ltb_ge in E. lia.
  - remember (Z.of_N (le_unsigned bs)) as u. remember (2 ^ (8 * Z.of_nat (length bs)))%Z as w.
    clear Hequ Heqw. lia.
Qed.

Definition list_max_len (l : list bytes) : nat := fold_right (fun x m => Nat.max (length x) m) 0%nat l.

Lemma nth_len_le_max l i : (length (nth i l []) <= list_max_len l)%nat.
Proof.
  revert i. induction l as [|x r IH]; intros [|i]; simpl; try lia. specialize (IH i). lia.
Qed.

Definition item_max (f32max : nat) (it : ritem) : nat :=
  match it with
  | RLit s => length s
  | RCstr _ w _ => N.to_nat w
  | RNum _ sz _ => 2 + 8 * N.to_nat sz
  | RUtType _ sz _ names => Nat.max (list_max_len names) (2 + 8 * N.to_nat sz)
  | RBin4 _ => 11
  | RFlagList _ opn names cls => length opn + length (concat (map snd names)) + length cls
  | RF32 _ => f32max
  | RAddr _ l4 l6 => Nat.max (length l4 + 39) (length l6 + 135)
  end.

Lemma filter_concat_len (f : N * bytes -> bool) names :
  (length (concat (map snd (filter f names))) <= length (concat (map snd names)))%nat.
Proof.
  induction names as [|x r IH]; simpl; [lia|]. destruct (f x); simpl; rewrite ?app_length; lia.
Qed.

Lemma removelast_len {A} (l : list A) : (length (removelast l) <= length l)%nat.
Proof. induction l as [|x r IH]; simpl; [lia|]. destruct r; simpl in *; lia. Qed.

Lemma byte_at_ok off e : bytes_ok e -> byte_at off e < 256.
Proof.
  intro H. unfold byte_at. destruct (nth_in_or_default (N.to_nat off) e 0) as [Hin|Hd].
  - unfold bytes_ok in H. rewrite Forall_forall in H. apply H. exact Hin.
  - rewrite Hd. lia.
Qed.

Lemma nth_ok i l : bytes_ok l -> nth i l 0 < 256.
Proof.
  intro H. destruct (nth_in_or_default i l 0) as [Hin|Hd].
  - unfold bytes_ok in H. rewrite Forall_forall in H. apply H. exact Hin.
  - rewrite Hd. lia.
Qed.

Section Fits.
  Variable f32txt : bytes -> bytes.
  Variable f32max : nat.
  Hypothesis f32_len : forall b, (length (f32txt b) <= f32max)%nat.

  Lemma item_text_len it e : bytes_ok e -> (length (item_text f32txt it e) <= item_max f32max it)%nat.
  Proof.
    intro He. destruct it; cbn [item_text item_max].
    - lia.
    - apply cstr_text_length.
    - pose proof (dec_signed_len _ (8 * sz) (field_int_abs off sz signed e He)). lia.
    - unfold ut_type_text.
      destruct ((0 <=? field_int off sz signed e)%Z && (field_int off sz signed e <? Z.of_nat (length names))%Z).
      + pose proof (nth_len_le_max names (Z.to_nat (field_int off sz signed e))) as Hm.
        eapply Nat.le_trans; [exact Hm|apply Nat.le_max_l].
      + pose proof (dec_signed_len _ (8 * sz) (field_int_abs off sz signed e He)).
        eapply Nat.le_trans; [|apply Nat.le_max_r]. lia.
    - rewrite app_length. unfold bin4. rewrite app_length, repeat_length.
      pose proof (bin_len (byte_at off e) 8 (byte_at_ok off e He)) as Hbl. change (N.to_nat 8) with 8%nat in Hbl.
      change (length [48; 98]) with 2%nat. remember (length (bin (byte_at off e))) as k. clear Heqk. lia.
    - unfold flag_text. destruct (byte_at off e =? 0); [simpl; lia|].
      rewrite app_length. unfold drop_trailing_bar.
      set (t := opn ++ concat (map snd (filter (flag_set (byte_at off e)) names))).
      assert (length t <= length opn + length (concat (map snd names)))%nat.
      { unfold t. rewrite app_length. pose proof (filter_concat_len (flag_set (byte_at off e)) names). lia. }
      pose proof (removelast_len t). destruct (last t 0 =? 124); lia.
    - apply f32_len.
    - unfold addr_text.
      pose proof (bytes_ok_slice off 16 e He) as Ha. set (a := slice off 16 e) in *.
      destruct (forallb (N.eqb 0) (skipn 4 a)).
      + rewrite !app_length.
        pose proof (dec_len (nth 0 a 0) 8 (nth_ok 0 a Ha)). pose proof (dec_len (nth 1 a 0) 8 (nth_ok 1 a Ha)).
        pose proof (dec_len (nth 2 a 0) 8 (nth_ok 2 a Ha)). pose proof (dec_len (nth 3 a 0) 8 (nth_ok 3 a Ha)).
        change (N.to_nat 8) with 8%nat in *. simpl length.
        eapply Nat.le_trans; [|apply Nat.le_max_l]. lia.
      + rewrite !app_length.
        pose proof (hexU_len _ 32 (field_unsigned_bound 0 4 a Ha)). pose proof (hexU_len _ 32 (field_unsigned_bound 4 4 a Ha)).
        pose proof (hexU_len _ 32 (field_unsigned_bound 8 4 a Ha)). pose proof (hexU_len _ 32 (field_unsigned_bound 12 4 a Ha)).
        change (8 * 4) with 32 in *. change (N.to_nat 32) with 32%nat in *. simpl length.
        eapply Nat.le_trans; [|apply Nat.le_max_r]. lia.
  Qed.

  Definition items_max (items : list ritem) : nat := fold_right (fun it m => item_max f32max it + m)%nat 0%nat items.

  Theorem render_length items tail e :
    bytes_ok e -> (length (render f32txt items tail e) <= items_max items + length tail)%nat.
  Proof.
    intro He. unfold render. rewrite app_length.
    assert (length (flat_map (fun it => item_text f32txt it e) items) <= items_max items)%nat.
    { induction items as [|it r IH]; simpl; [lia|]. rewrite app_length.
      pose proof (item_text_len it e He). lia. }
    lia.
  Qed.
End Fits.

(* ------------------------------------------------------------------ one record, one line *)
Definition line_static (it : ritem) : bool :=
  match it with
  | RLit s => negb (memN 10 s)
  | RNum _ _ _ | RUtType _ _ _ _ | RAddr _ _ _ => auto_clean it 10
  | RFlagList _ opn names cls => negb (memN 10 opn) && forallb (fun mn => negb (memN 10 (snd mn))) names && negb (memN 10 cls)
  | _ => true
  end.

Lemma memN_concat_false b (ls : list bytes) : forallb (fun l => negb (memN b l)) ls = true -> memN b (concat ls) = false.
Proof.
  induction ls as [|l r IH]; intro H; [reflexivity|]. simpl in H. apply andb_true_iff in H as [H1 H2].
  simpl. rewrite memN_app, IH by exact H2. apply negb_true_iff in H1. rewrite H1. reflexivity.
Qed.

Lemma forallb_map_eq {A B} (f : B -> bool) (g : A -> B) l : forallb f (map g l) = forallb (fun x => f (g x)) l.
Proof. induction l as [|x r IH]; simpl; [reflexivity|]. rewrite IH. reflexivity. Qed.

Lemma memN_removelast b l : memN b l = false -> memN b (removelast l) = false.
Proof.
  induction l as [|x r IH]; intro H; [reflexivity|]. unfold memN in *. simpl in H. apply orb_false_iff in H as [H1 H2].
  simpl. destruct r as [|y r']; [reflexivity|]. simpl. simpl in IH. rewrite H1. apply IH. exact H2.
Qed.

Lemma bits_no_newline l : forallb is_bit l = true -> memN 10 l = false.
Proof.
  induction l as [|b r IH]; intro H; [reflexivity|]. cbn [forallb] in H. apply andb_true_iff in H as [H1 H2].
  unfold memN. cbn [existsb]. fold (memN 10 r). rewrite IH by exact H2. unfold is_bit in H1.
  destruct (10 =? b) eqn:E; [|reflexivity]. apply N.eqb_eq in E. subst b. discriminate.
Qed.

Theorem item_single_line f32txt it e :
  line_static it = true ->
  (needs_value it = true -> memN 10 (item_text f32txt it e) = false) ->
  memN 10 (item_text f32txt it e) = false.
Proof.
  intros Hs Hv. destruct it; cbn [line_static needs_value] in *.
  - apply negb_true_iff in Hs. exact Hs.
  - apply Hv. reflexivity.
  - pose proof (auto_clean_ok f32txt (RNum off sz signed) 10 e eq_refl Hs) as H. cbn [var_clean] in H.
    apply negb_true_iff in H. exact H.
  - pose proof (auto_clean_ok f32txt (RUtType off sz signed names) 10 e eq_refl Hs) as H. cbn [var_clean] in H.
    apply negb_true_iff in H. exact H.
  - cbn [item_text]. rewrite memN_app. rewrite (bits_no_newline _ (bin4_bits (byte_at off e))). reflexivity.
  - apply andb_true_iff in Hs as [Hs Hc]. apply andb_true_iff in Hs as [Ho Hn].
    apply negb_true_iff in Ho. apply negb_true_iff in Hc.
    cbn [item_text]. unfold flag_text. destruct (byte_at off e =? 0); [reflexivity|].
    rewrite memN_app, Hc, orb_false_r. unfold drop_trailing_bar.
    assert (Ht : memN 10 (opn ++ concat (map snd (filter (flag_set (byte_at off e)) names))) = false).
    { rewrite memN_app, Ho. apply memN_concat_false. rewrite forallb_map_eq.
      apply forallb_forall. intros x Hx. apply filter_In in Hx as [Hx _].
      apply (proj1 (forallb_forall _ names) Hn x Hx). }
    destruct (last _ 0 =? 124); [apply memN_removelast; exact Ht|exact Ht].
  - apply Hv. reflexivity.
  - pose proof (auto_clean_ok f32txt (RAddr off lit4 lit6) 10 e eq_refl Hs) as H. cbn [var_clean] in H.
    apply negb_true_iff in H. exact H.
Qed.

(* the text of a record before the final "\n\0" contains no newline, provided its strings (and
   the f32 text) contain none: one record is one line *)
Theorem record_is_one_line f32txt items e :
  forallb line_static items = true ->
  (forall it, In it items -> needs_value it = true -> memN 10 (item_text f32txt it e) = false) ->
  memN 10 (flat_map (fun it => item_text f32txt it e) items) = false.
Proof.
  induction items as [|it r IH]; intros Hs Hv; [reflexivity|].
  simpl in Hs. apply andb_true_iff in Hs as [H1 H2]. simpl. rewrite memN_app.
  rewrite (item_single_line f32txt it e H1 (Hv it (or_introl eq_refl))).
  apply IH; [exact H2|]. intros it' Hin. apply Hv. right. exact Hin.
Qed.
