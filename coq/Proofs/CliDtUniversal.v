(* Proofs/CliDtUniversal.v — C14, universal theorems for the two families that the 76 absolute
   patterns do not describe by a fixed-length skeleton:
     "+epoch"   : for EVERY non-empty digit string (any length, leading zeros),
     relative   : for EVERY non-empty sequence of (count, unit) items, any order and multiplicity,
                  both signs, with and without '@', with the exact guards of i64::from_str_radix,
                  TimeDelta::try_* and `TimeDelta + TimeDelta`.
   Method: general lemmas about the scanner on digit runs of arbitrary length
   (Proofs/CliDtScanLemmas.v) + finite obligations over the regenerated table (the SHAPE of every
   row: what follows %Y), discharged by vm_compute and lifted with forallb_forall. *)

From Coq Require Import String ZArith Lia List Bool.
From S4.Base Require Import Bytes.
From S4.Model Require Import Calendar CliDt.
From S4.Gen Require Import CliDtTables.
From S4.Spec Require Import CalendarSpec CliDtRef CliDtSpec.
From S4.Proofs Require Import CalendarProofs CliDtSpecProofs CliDtAbsInfra CliDtMiscProofs CliDtScanLemmas.
Import ListNotations.
Open Scope Z_scope.

(* ------------------------------------------------------------------ rows: generic facts *)
Definition row_tail (rw : row) : list sym := if r_has_time rw then [] else classify append_value.

Lemma scan_row_nonZ rw arg :
  r_has_tzZ rw = false ->
  m_scan_row rw arg =
  if issue660_ok (map sym_ws_class (arg ++ row_tail rw)) (map ws_class (final_pattern append_pattern rw))
  then scan (tokenize (final_pattern append_pattern rw)) (arg ++ row_tail rw) else None.
Proof.
  intros HZ. unfold m_scan_row, scan_row, prepare_row, final_pattern, row_tail. rewrite HZ.
  destruct (r_has_time rw); [rewrite app_nil_r|]; reflexivity.
Qed.

Lemma try_row_none_scan tz arg rw :
  m_scan_row rw arg = None -> try_row append_value append_pattern tz_table epoch_utc tz arg rw = None.
Proof. unfold try_row, m_scan_row. intros ->. reflexivity. Qed.

Lemma scan_row_nonZ_none rw arg :
  r_has_tzZ rw = false ->
  scan (tokenize (final_pattern append_pattern rw)) (arg ++ row_tail rw) = None ->
  m_scan_row rw arg = None.
Proof. intros HZ H. rewrite scan_row_nonZ by assumption. rewrite H. destruct (issue660_ok _ _); reflexivity. Qed.

(* pop_alpha on texts ending in a digit / in one letter after a digit *)
Lemma pop_alpha_digit s v : pop_alpha (s ++ [Dg v]) = (s ++ [Dg v], []).
Proof.
  unfold pop_alpha. rewrite rev_app_distr. cbn [rev app pop_alpha_rev sym_alpha].
  rewrite rev_involutive. reflexivity.
Qed.

Lemma pop_alpha_digit_letter s v c :
  is_alpha_c c = true -> pop_alpha (s ++ [Dg v; Ch c]) = (s ++ [Dg v], [Ch c]).
Proof.
  intros H. unfold pop_alpha. rewrite rev_app_distr. cbn [rev app pop_alpha_rev sym_alpha]. rewrite H.
  cbn [pop_alpha_rev sym_alpha rev]. rewrite rev_involutive. reflexivity.
Qed.

Lemma scan_row_Z_none rw arg body name :
  r_has_tzZ rw = true -> pop_alpha arg = (body, name) -> assoc (map sym_byte name) tz_table = None ->
  m_scan_row rw arg = None.
Proof.
  intros HZ HP HA. unfold m_scan_row, scan_row, prepare_row. rewrite HZ, HP, HA. reflexivity.
Qed.

(* %Y with an explicit sign takes every digit that follows *)
Lemma scan_year_signed rest sg ds s' :
  (sg = 43 \/ sg = 45)%N -> ds <> [] -> head_nondigit s' ->
  scan (INum NYear :: rest) (Ch sg :: map Dg ds ++ s')
  = cons_opt (RNum NYear (sg =? 45)%N ds) (scan rest s').
Proof.
  intros Hsg Hds Hs. cbn [scan]. unfold scan_num.
  assert (W : trim_ws (Ch sg :: map Dg ds ++ s') = Ch sg :: map Dg ds ++ s')
    by (destruct Hsg; subst; reflexivity).
  rewrite W. cbn [is_year andb sym_is].
  rewrite take_digits_all by (rewrite ?app_length, ?map_length; lia || assumption).
  destruct Hsg; subst; cbn [N.eqb Pos.eqb]; destruct ds; try contradiction; reflexivity.
Qed.

(* a numeric field other than a signed year needs a digit *)
Lemma scan_num_nodigit k rest s :
  head_nondigit (trim_ws s) ->
  (k = NYear -> match trim_ws s with x :: _ => sym_is x 45 = false /\ sym_is x 43 = false | [] => True end) ->
  scan (INum k :: rest) s = None.
Proof.
  intros H HY. cbn [scan]. unfold scan_num.
  destruct (trim_ws s) as [|x t] eqn:E; [reflexivity|].
  assert (T : forall n, take_digits n (x :: t) = ([], x :: t)).
  { intros n. destruct n; [reflexivity|]. destruct x; [destruct H|reflexivity]. }
  destruct k; cbn [is_year andb]; try (rewrite T; reflexivity).
  destruct (HY eq_refl) as [A B]. rewrite A, B. rewrite T. reflexivity.
Qed.

Lemma scan_lit_mismatch c rest x t : sym_is x c = false -> scan (ILit c :: rest) (x :: t) = None.
Proof. intros H. cbn [scan]. rewrite H. reflexivity. Qed.
Lemma scan_lit_nil c rest : scan (ILit c :: rest) [] = None.
Proof. reflexivity. Qed.

(* ------------------------------------------------------------------ "+epoch" *)
Definition epoch_arg (ds : list N) : list sym := Ch 43 :: map Dg ds.

Definition is_none {A} (o : option A) : bool := match o with None => true | Some _ => false end.

(* table obligation: every row but the last rejects '+' digits (after %Y took all the digits, the
   next item finds nothing it accepts); computed on the concrete remainder *)
Definition row_rejects_epoch (rw : row) : bool :=
  if r_has_tzZ rw then true
  else match tokenize (final_pattern append_pattern rw) with
       | INum NYear :: rest => is_none (scan rest (row_tail rw))
       | _ => false
       end.

Lemma rows_split : cli_rows = removelast cli_rows ++ [mkrow (s2b "+%s") false false false true].
Proof. vm_compute. reflexivity. Qed.

Lemma front_rows_reject_epoch : forallb row_rejects_epoch (removelast cli_rows) = true.
Proof. vm_compute. reflexivity. Qed.

Lemma no_empty_zone_name : assoc [] tz_table = None.
Proof. vm_compute. reflexivity. Qed.

Lemma epoch_arg_snoc ds : ds <> [] -> exists s v, epoch_arg ds = s ++ [Dg v].
Proof.
  intros H. destruct (exists_last H) as [l [v ->]]. exists (Ch 43 :: map Dg l), v.
  unfold epoch_arg. rewrite map_app. reflexivity.
Qed.

Lemma front_row_epoch_none tz ds rw :
  ds <> [] -> In rw (removelast cli_rows) ->
  try_row append_value append_pattern tz_table epoch_utc tz (epoch_arg ds) rw = None.
Proof.
  intros Hds Hin. apply try_row_none_scan.
  pose proof (proj1 (forallb_forall _ _) front_rows_reject_epoch rw Hin) as R.
  unfold row_rejects_epoch in R.
  destruct (r_has_tzZ rw) eqn:HZ.
  - destruct (epoch_arg_snoc ds Hds) as [s [v E]]. rewrite E.
    eapply scan_row_Z_none; [exact HZ|apply pop_alpha_digit|exact no_empty_zone_name].
  - apply scan_row_nonZ_none; [exact HZ|].
    destruct (tokenize (final_pattern append_pattern rw)) as [|[| |[]| | | | | |] rest]; try discriminate.
    unfold epoch_arg. cbn [app]. rewrite scan_year_signed.
    + destruct (scan rest (row_tail rw)); [discriminate|reflexivity].
    + left; reflexivity.
    + exact Hds.
    + unfold row_tail. destruct (r_has_time rw); exact I.
Qed.

Lemma rev_map_dg_head ds : ds <> [] -> exists v r, rev (map Dg ds) = Dg v :: r.
Proof.
  intros H. destruct (exists_last H) as [l [v ->]]. rewrite map_app, rev_app_distr. cbn. eauto.
Qed.

Lemma epoch_row_scan ds :
  ds <> [] ->
  m_scan_row (mkrow (s2b "+%s") false false false true) (epoch_arg ds) = Some [RNum NTimestamp false ds].
Proof.
  intros Hds. rewrite scan_row_nonZ by reflexivity.
  unfold row_tail. cbn [r_has_time]. rewrite app_nil_r.
  assert (I6 : issue660_ok (map sym_ws_class (epoch_arg ds))
                 (map ws_class (final_pattern append_pattern (mkrow (s2b "+%s") false false false true))) = true).
  { change (map ws_class (final_pattern append_pattern (mkrow (s2b "+%s") false false false true)))
      with [0%N; 0%N; 0%N].
    unfold issue660_ok, epoch_arg. cbn [map sym_ws_class ws_class N.eqb Pos.eqb lead_counts orb].
    cbn [lead_counts N.eqb eq3 negb andb rev app].
    replace (rev (0%N :: map sym_ws_class (map Dg ds))) with (rev (map sym_ws_class (map Dg ds)) ++ [0%N]) by reflexivity.
    destruct (exists_last Hds) as [l [v ->]]. rewrite !map_app, rev_app_distr. reflexivity. }
  rewrite I6.
  change (tokenize (final_pattern append_pattern (mkrow (s2b "+%s") false false false true)))
    with [ILit 43; INum NTimestamp].
  unfold epoch_arg. cbn [scan sym_is N.eqb Pos.eqb]. unfold scan_num.
  destruct ds as [|d r]; [contradiction|].
  cbn [map trim_ws sym_ws is_year andb num_width].
  pose proof (take_digits_all (d :: r) [] (length (Dg d :: map Dg r))) as T.
  rewrite app_nil_r in T. cbn [map] in T. rewrite T by (cbn [length]; rewrite ?map_length; lia || exact I).
  reflexivity.
Qed.

(* the instant of "+" digits: read through the last row only; independent of the --tz-offset zone *)
Theorem plus_epoch_abs ds tz :
  ds <> [] ->
  m_resolve_abs (epoch_arg ds) tz = if dnum ds <=? TS_MAX then Some (dnum ds * NS) else None.
Proof.
  intros Hds. unfold m_resolve_abs, resolve_abs. rewrite rows_split.
  rewrite first_some_app by (apply first_some_none; intros rw Hin; apply front_row_epoch_none; assumption).
  cbn [first_some]. unfold try_row. fold m_scan_row. rewrite epoch_row_scan by assumption.
  change (epoch_utc && contains_pct_s (final_pattern append_pattern (mkrow (s2b "+%s") false false false true))) with true.
  cbv iota. cbn [r_has_tz]. unfold validate. cbn [forallb field_ok andb].
  pose proof (dnum_nonneg ds) as Hn.
  destruct (Z.leb_spec (dnum ds) TS_MAX) as [L|L].
  - replace (dnum ds <=? I64_MAX) with true by (symmetry; apply Z.leb_le; unfold I64_MAX, TS_MAX in *; lia).
    cbn [negb]. unfold naive_of. cbn [find_num numkind_eqb].
    replace ((TS_MIN <=? dnum ds + 0) && (dnum ds + 0 <=? TS_MAX)) with true
      by (symmetry; apply andb_true_iff; split; apply Z.leb_le; unfold TS_MIN, TS_MAX in *; lia).
    cbn [andb negb]. f_equal. unfold NS. lia.
  - destruct (Z.leb_spec (dnum ds) I64_MAX); cbn [negb]; [|reflexivity].
    unfold naive_of. cbn [find_num numkind_eqb].
    replace ((TS_MIN <=? dnum ds + 0) && (dnum ds + 0 <=? TS_MAX)) with false; [reflexivity|].
    cbn [andb negb].
    symmetry. apply andb_false_iff. right. apply Z.leb_gt. lia.
Qed.

(* ------------------------------------------------------------------ relative forms: the text *)
Definition unit_code (u : unit_) : N := match u with US => 0 | UM => 1 | UH => 2 | UD => 3 | UW => 4 end%N.

Definition ritem (it : list N * unit_) : list sym := map Dg (fst it) ++ [Ch (unit_letter (snd it))].
Definition ritems (items : list (list N * unit_)) : list sym := flat_map ritem items.
Definition rel_arg (at_ neg : bool) (items : list (list N * unit_)) : list sym :=
  (if at_ then [Ch 64] else []) ++ Ch (if neg then 45 else 43) :: ritems items.

Definition item_ok (it : list N * unit_) : Prop := fst it <> [] /\ Forall (fun d => (d < 10)%N) (fst it).
(* the matcher itself only needs a non-empty count (symbols Dg v of any value) *)
Definition item_ne (it : list N * unit_) : Prop := fst it <> [].
Lemma item_ok_ne items : Forall item_ok items -> Forall item_ne items.
Proof. apply Forall_impl. intros it [H _]. exact H. Qed.

Lemma digits_ok_item ds u : digits_ok ds = true -> item_ok (ds, u).
Proof.
  unfold digits_ok, item_ok. cbn [fst]. destruct ds as [|d r]; [discriminate|]. intros H. split; [discriminate|].
  apply Forall_forall. intros x Hx. apply (proj1 (forallb_forall _ _) H) in Hx. apply N.ltb_lt. exact Hx.
Qed.

Lemma classify_unit_letter u : classify1 (unit_letter u) = Ch (unit_letter u).
Proof. destruct u; reflexivity. Qed.

Lemma classify_render_items items :
  Forall item_ok items -> classify (render_items items) = ritems items.
Proof.
  induction 1 as [|[ds u] r [_ Hd] _ IH]; [reflexivity|].
  cbn [render_items ritems flat_map]. rewrite !classify_app. cbn [fst snd] in *.
  change (digs ds) with (map digit_byte ds). rewrite classify_digits by assumption.
  unfold ritem. cbn [fst snd classify map]. rewrite classify_unit_letter. rewrite IH.
  rewrite <- app_assoc. reflexivity.
Qed.

Lemma classify_render_rel at_ neg items :
  Forall item_ok items -> classify (render (FRel at_ neg items)) = rel_arg at_ neg items.
Proof.
  intros H. unfold rel_arg. cbn [render]. rewrite !classify_app. cbn [classify map].
  rewrite <- (classify_render_items items H). destruct at_, neg; reflexivity.
Qed.

(* ------------------------------------------------------------------ the matcher on a rendered form *)
Definition m_loop := rel_loop dur_units.

Lemma rel_loop_digits ds t bnd cur caps :
  m_loop (map Dg ds ++ t) bnd cur caps = m_loop t bnd (cur ++ ds) caps.
Proof.
  revert cur. induction ds as [|d r IH]; intros cur.
  - rewrite app_nil_r. reflexivity.
  - cbn [map app]. unfold m_loop. cbn [rel_loop]. fold m_loop. rewrite IH. rewrite <- app_assoc. reflexivity.
Qed.

Lemma unit_of_letter u : unit_of dur_units (unit_letter u) = Some (unit_code u).
Proof. destruct u; reflexivity. Qed.

Lemma rel_loop_item it t bnd caps :
  fst it <> [] ->
  m_loop (ritem it ++ t) bnd [] caps = m_loop t t [] (caps ++ [(unit_code (snd it), fst it)]).
Proof.
  destruct it as [ds u]. cbn [fst snd]. intros H. unfold ritem. cbn [fst snd]. rewrite <- app_assoc. cbn [app].
  rewrite rel_loop_digits. cbn [app]. unfold m_loop. cbn [rel_loop]. rewrite unit_of_letter.
  destruct ds; [contradiction|]. reflexivity.
Qed.

Definition caps_of (items : list (list N * unit_)) : list (N * list N) :=
  map (fun it => (unit_code (snd it), fst it)) items.

Lemma rel_loop_items items bnd caps :
  Forall item_ne items ->
  m_loop (ritems items) bnd [] caps
  = (caps ++ caps_of items, match items with [] => bnd | _ :: _ => [] end).
Proof.
  intros H. revert bnd caps. induction H as [|it r Hn _ IH]; intros bnd caps.
  - cbn. rewrite app_nil_r. reflexivity.
  - cbn [ritems flat_map]. fold (ritems r). rewrite rel_loop_item by assumption. rewrite IH.
    cbn [caps_of map]. rewrite <- app_assoc. cbn [app]. f_equal. destruct r; reflexivity.
Qed.

Lemma rel_search_rendered at_ neg items :
  items <> [] -> Forall item_ne items ->
  m_search true true (rel_arg at_ neg items) = Some (at_, neg, caps_of items).
Proof.
  intros Hne Hok. unfold m_search.
  assert (E : rel_here_anch dur_at dur_plus dur_minus dur_units true (rel_arg at_ neg items)
              = Some (at_, neg, caps_of items)).
  { unfold rel_here_anch, rel_match_here, rel_arg.
    destruct at_, neg; cbn [app sym_is dur_at dur_plus dur_minus N.eqb Pos.eqb];
      fold m_loop; rewrite rel_loop_items by assumption; cbn [app];
      destruct items; try contradiction; reflexivity. }
  destruct (rel_arg at_ neg items) eqn:A; cbn [rel_search]; rewrite E; reflexivity.
Qed.

(* ------------------------------------------------------------------ what the counts mean *)
(* a unit that occurs several times keeps its LAST count (a named capture group that takes part
   in several iterations of the repetition keeps its last match) *)
Fixpoint last_digits (u : unit_) (items : list (list N * unit_)) (acc : option (list N)) : option (list N) :=
  match items with
  | [] => acc
  | (ds, u') :: r => if unit_eqb u' u then last_digits u r (Some ds) else last_digits u r acc
  end.

Definition eff (u : unit_) (items : list (list N * unit_)) : Z :=
  match last_digits u items None with Some ds => dval ds | None => 0 end.

Lemma unit_code_eqb a b : (unit_code a =? unit_code b)%N = unit_eqb a b.
Proof. destruct a, b; reflexivity. Qed.

Lemma last_cap_caps u items acc :
  last_cap (unit_code u) (caps_of items) acc = last_digits u items acc.
Proof.
  revert acc. induction items as [|[ds u'] r IH]; intros acc; [reflexivity|].
  cbn [caps_of map last_cap last_digits fst snd]. rewrite unit_code_eqb. fold (caps_of r).
  destruct (unit_eqb u' u); apply IH.
Qed.

Definition all_units : list unit_ := [US; UM; UH; UD; UW].

(* string_wdhms_to_duration on a rendered form, with the exact guards:
   a count above i64::MAX: from_str_radix fails, the process exits;
   count * unit above TimeDelta::MAX seconds (or i64 overflow): try_* is None, "not parseable";
   the sum above TimeDelta::MAX: checked_add gives None, "not parseable"
   ([sum_panics] = true: the code before the repair added with `+`, which panics) *)
Definition rel_dur_gen (sum_panics : bool) (at_ neg : bool) (items : list (list N * unit_)) : durres :=
  let vs := map (fun u => eff u items) all_units in
  if negb (forallb (fun v => v <=? I64_MAX) vs) then DurExit
  else
    let secs := map (fun u => CliDtSpec.unit_secs u * eff u items) all_units in
    if negb (forallb (fun v => v <=? DUR_MAX_SECS) secs) then DurNone
    else
      let total := fold_left Z.add secs 0 in
      if negb (total <=? DUR_MAX_SECS) then (if sum_panics then DurExit else DurNone)
      else DurOk (if neg then - total else total) at_.
Definition rel_dur := rel_dur_gen false.

Lemma rel_arg_nonempty at_ neg items : rel_arg at_ neg items <> [].
Proof. unfold rel_arg. destruct at_; discriminate. Qed.

Theorem wdhms_rendered at_ neg items :
  items <> [] -> Forall item_ne items -> m_wdhms (rel_arg at_ neg items) = rel_dur at_ neg items.
Proof.
  intros Hne Hok. unfold m_wdhms, wdhms, wdhms_gen.
  destruct (rel_arg at_ neg items) eqn:A; [exfalso; eapply rel_arg_nonempty; exact A|]. rewrite <- A.
  change dur_anchor_start with true. change dur_anchor_end with true.
  fold (m_search true true). rewrite rel_search_rendered by assumption.
  pose proof (last_cap_caps US items None) as E0. pose proof (last_cap_caps UM items None) as E1.
  pose proof (last_cap_caps UH items None) as E2. pose proof (last_cap_caps UD items None) as E3.
  pose proof (last_cap_caps UW items None) as E4. cbn [unit_code] in E0, E1, E2, E3, E4.
  cbn [map combine]. rewrite E0, E1, E2, E3, E4.
  unfold rel_dur, rel_dur_gen, eff, all_units. cbn [map]. reflexivity.
Qed.

(* ------------------------------------------------------------------ no absolute row reads a relative form *)
Definition is_unit_letter (c : N) : bool := existsb (fun lu => (fst lu =? c)%N) dur_units.

Definition rest_rejects_letter (rest : list item) : bool :=
  match rest with
  | [] => true
  | INum _ :: _ => true
  | ILit c0 :: _ => negb (is_unit_letter c0)
  | _ => false
  end.

Definition row_rejects_rel (rw : row) : bool :=
  if r_has_tzZ rw then true
  else match tokenize (final_pattern append_pattern rw) with
       | INum NYear :: rest => rest_rejects_letter rest
       | ILit c :: INum NTimestamp :: [] => (c =? 43)%N
       | _ => false
       end.

Lemma rows_reject_rel : forallb row_rejects_rel cli_rows = true.
Proof. vm_compute. reflexivity. Qed.

Lemma unit_letter_is_unit u : is_unit_letter (unit_letter u) = true.
Proof. destruct u; reflexivity. Qed.
Lemma unit_letter_alpha u : is_alpha_c (unit_letter u) = true.
Proof. destruct u; reflexivity. Qed.
Lemma unit_letter_not_zone u : assoc [unit_letter u] tz_table = None.
Proof. destruct u; vm_compute; reflexivity. Qed.
Lemma unit_letter_plain u :
  is_ws_c (unit_letter u) = false /\ (unit_letter u =? 45)%N = false /\ (unit_letter u =? 43)%N = false.
Proof. destruct u; repeat split; reflexivity. Qed.

Lemma rest_rejects_letter_ok rest u more :
  rest_rejects_letter rest = true -> scan rest (Ch (unit_letter u) :: more) = None.
Proof.
  destruct (unit_letter_plain u) as [W [M P]].
  destruct rest as [|[c0| |k| | | | | |] rest']; try discriminate; intros H.
  - reflexivity.
  - apply scan_lit_mismatch. cbn [sym_is]. cbn [rest_rejects_letter] in H. apply negb_true_iff in H.
    destruct (N.eqb_spec (unit_letter u) c0) as [E|E]; [|reflexivity]. subst c0.
    rewrite unit_letter_is_unit in H. discriminate.
  - apply scan_num_nodigit.
    + cbn [trim_ws sym_ws]. rewrite W. exact I.
    + intros _. cbn [trim_ws sym_ws]. rewrite W. cbn [sym_is]. split; assumption.
Qed.

Lemma rel_arg_tail at_ neg items :
  items <> [] -> Forall item_ne items ->
  exists pre v u, rel_arg at_ neg items = pre ++ [Dg v; Ch (unit_letter u)].
Proof.
  intros Hne Hok. destruct (exists_last Hne) as [init [[ds u] ->]].
  apply Forall_app in Hok as [_ Hl]. inversion Hl as [|? ? Hn _]; subst. unfold item_ne in Hn. cbn [fst] in Hn.
  destruct (exists_last Hn) as [l [v ->]].
  exists ((if at_ then [Ch 64] else []) ++ Ch (if neg then 45 else 43)%N :: ritems init ++ map Dg l), v, u.
  unfold rel_arg, ritems. rewrite flat_map_app. cbn [flat_map]. unfold ritem. cbn [fst snd].
  rewrite map_app. cbn [map]. rewrite app_nil_r, <- !app_assoc. cbn [app]. rewrite <- !app_assoc. reflexivity.
Qed.

Lemma rel_row_none tz at_ neg items rw :
  items <> [] -> Forall item_ne items -> In rw cli_rows ->
  try_row append_value append_pattern tz_table epoch_utc tz (rel_arg at_ neg items) rw = None.
Proof.
  intros Hne Hok Hin. apply try_row_none_scan.
  pose proof (proj1 (forallb_forall _ _) rows_reject_rel rw Hin) as R. unfold row_rejects_rel in R.
  destruct (r_has_tzZ rw) eqn:HZ.
  - destruct (rel_arg_tail at_ neg items Hne Hok) as [pre [v [u E]]]. rewrite E.
    eapply scan_row_Z_none; [exact HZ|apply pop_alpha_digit_letter; apply unit_letter_alpha|].
    cbn [map sym_byte]. apply unit_letter_not_zone.
  - apply scan_row_nonZ_none; [exact HZ|].
    destruct items as [|[ds u] r]; [contradiction|].
    inversion Hok as [|? ? Hn _]; subst. unfold item_ne in Hn. cbn [fst] in Hn.
    assert (A : rel_arg at_ neg ((ds, u) :: r) ++ row_tail rw
                = (if at_ then [Ch 64] else []) ++ Ch (if neg then 45 else 43)%N :: map Dg ds
                  ++ Ch (unit_letter u) :: (ritems r ++ row_tail rw)).
    { unfold rel_arg, ritems. cbn [flat_map]. unfold ritem at 1. cbn [fst snd].
      rewrite <- !app_assoc. cbn [app]. rewrite <- !app_assoc. reflexivity. }
    rewrite A. clear A.
    destruct (tokenize (final_pattern append_pattern rw)) as [|it1 rest]; [discriminate|].
    destruct at_.
    + (* '@' first: neither %Y nor the literal '+' accepts it *)
      cbn [app]. destruct it1 as [c| |k| | | | | |]; try discriminate.
      * destruct rest as [|[| |[]| | | | | |] [|? ?]]; try discriminate.
        apply N.eqb_eq in R. subst c. apply scan_lit_mismatch. reflexivity.
      * apply scan_num_nodigit; [exact I|]. intros _. cbn [trim_ws sym_ws is_ws_c]. split; reflexivity.
    + cbn [app]. destruct it1 as [c| |k| | | | | |]; try discriminate.
      * (* the "+%s" row *)
        destruct rest as [|[| |[]| | | | | |] [|? ?]]; try discriminate.
        apply N.eqb_eq in R. subst c.
        destruct neg; [apply scan_lit_mismatch; reflexivity|].
        cbn [scan sym_is N.eqb Pos.eqb]. unfold scan_num.
        destruct ds as [|d ds']; [contradiction|].
        cbn [map app trim_ws sym_ws is_year andb num_width].
        change (Dg d :: map Dg ds' ++ Ch (unit_letter u) :: ritems r ++ row_tail rw)
          with (map Dg (d :: ds') ++ Ch (unit_letter u) :: ritems r ++ row_tail rw).
        rewrite take_digits_all by (rewrite ?app_length, ?map_length; cbn [length]; rewrite ?map_length; lia || exact I).
        reflexivity.
      * destruct k; try discriminate.
        rewrite scan_year_signed; [|destruct neg; auto|exact Hn|exact I].
        rewrite rest_rejects_letter_ok by exact R. reflexivity.
Qed.

Theorem rel_abs_none at_ neg items tz :
  items <> [] -> Forall item_ne items -> m_resolve_abs (rel_arg at_ neg items) tz = None.
Proof.
  intros Hne Hok. unfold m_resolve_abs, resolve_abs. apply first_some_none.
  intros rw Hin. apply rel_row_none; assumption.
Qed.

(* ------------------------------------------------------------------ "+epoch", every digit string *)
Lemma classify_render_epoch ds :
  Forall (fun d => (d < 10)%N) ds -> classify (render (FEpoch ds)) = epoch_arg ds.
Proof.
  intros H. cbn [render]. unfold epoch_arg. cbn [classify map]. change (digs ds) with (map digit_byte ds).
  fold (classify (map digit_byte ds)). rewrite classify_digits by assumption. reflexivity.
Qed.

Lemma digits_ok_inv ds : digits_ok ds = true -> ds <> [] /\ Forall (fun d => (d < 10)%N) ds.
Proof. intros H. apply (digits_ok_item ds US) in H. exact H. Qed.

Lemma wdhms_epoch ds : m_wdhms (epoch_arg ds) = DurNone.
Proof.
  unfold m_wdhms, wdhms, wdhms_gen, epoch_arg. change dur_anchor_start with true.
  cbn [rel_search]. unfold rel_here_anch, rel_match_here.
  cbn [sym_is dur_at dur_plus dur_minus N.eqb Pos.eqb]. fold m_loop.
  rewrite <- (app_nil_r (map Dg ds)) at 1. rewrite rel_loop_digits. reflexivity.
Qed.

(* "+" followed by ANY non-empty digit string (leading zeros, any length): the count of seconds
   since the Unix epoch in UTC, whatever --tz-offset, the other bound and the clock; accepted
   exactly up to chrono's last representable second, +262142-12-31T23:59:59Z *)
Theorem plus_epoch_universal ds tz other now :
  digits_ok ds = true ->
  m_resolve (classify (render (FEpoch ds))) tz other now
  = if dval ds <=? TS_MAX then Some (dval ds * NS) else None.
Proof.
  intros H. destruct (digits_ok_inv ds H) as [Hne Hd]. rewrite classify_render_epoch by assumption.
  unfold m_resolve, resolve_with, resolve. fold m_resolve_abs. rewrite plus_epoch_abs by assumption.
  change (dval ds) with (dnum ds).
  destruct (dnum ds <=? TS_MAX); [reflexivity|].
  fold m_wdhms. rewrite wdhms_epoch. reflexivity.
Qed.

Corollary plus_epoch_is_denoted ds tz other now :
  digits_ok ds = true -> dval ds <= TS_MAX ->
  m_resolve (classify (render (FEpoch ds))) tz other now = denote (FEpoch ds) tz now other.
Proof.
  intros H L. rewrite plus_epoch_universal by assumption.
  replace (dval ds <=? TS_MAX) with true by (symmetry; apply Z.leb_le; assumption). reflexivity.
Qed.

Example plus_epoch_hyps_satisfiable :
  digits_ok [0;0;1;7]%N = true /\ dval [0;0;1;7]%N <= TS_MAX
  /\ digits_ok [8;2;1;0;2;6;6;8;7;6;8;0;0]%N = true /\ ~ dval [8;2;1;0;2;6;6;8;7;6;8;0;0]%N <= TS_MAX.
Proof. repeat split; try reflexivity; vm_compute; congruence. Qed.

(* ------------------------------------------------------------------ relative forms, every item sequence *)
Definition rel_value (d : durres) (other : option Z) (now : Z) : option Z :=
  match d with
  | DurOk d false =>
    let r := now + d in if (TS_MIN <=? r) && (r <=? TS_MAX) then Some (r * NS) else None
  | DurOk d true =>
    match other with
    | Some o => let r := o + d * NS in
                if (TS_MIN * NS <=? r) && (r <=? TS_MAX * NS + (NS - 1)) then Some r else None
    | None => None
    end
  | _ => None
  end.

Theorem relative_universal at_ neg items tz other now :
  items <> [] -> Forall item_ne items ->
  m_resolve (rel_arg at_ neg items) tz other now = rel_value (rel_dur at_ neg items) other now.
Proof.
  intros Hne Hok. unfold m_resolve, resolve_with, resolve. fold m_resolve_abs.
  rewrite rel_abs_none by assumption.
  pose proof (wdhms_rendered at_ neg items Hne Hok) as W. unfold m_wdhms in W. rewrite W.
  unfold rel_value. destruct (rel_dur at_ neg items) as [| |d [|]]; reflexivity.
Qed.

(* units that occur once: the effective count of a unit is its count, the total is the documented sum *)
Lemma last_digits_absent u r acc :
  existsb (fun x => unit_eqb u (snd x)) r = false -> last_digits u r acc = acc.
Proof.
  revert acc. induction r as [|[ds u'] r IH]; intros acc H; [reflexivity|].
  cbn [existsb snd] in H. apply orb_false_iff in H as [A B]. cbn [last_digits].
  replace (unit_eqb u' u) with false by (destruct u, u'; try reflexivity; discriminate). apply IH. exact B.
Qed.

Definition unit_total (items : list (list N * unit_)) : Z :=
  fold_left Z.add (map (fun u => CliDtSpec.unit_secs u * eff u items) all_units) 0.

Lemma eff_nonneg u items : 0 <= eff u items.
Proof. unfold eff. destruct (last_digits u items None); [apply dnum_nonneg|lia]. Qed.

Lemma eff_cons_same ds u r :
  existsb (fun x => unit_eqb u (snd x)) r = false -> eff u ((ds, u) :: r) = dval ds.
Proof.
  intros H. unfold eff. cbn [last_digits]. replace (unit_eqb u u) with true by (destruct u; reflexivity).
  rewrite last_digits_absent by assumption. reflexivity.
Qed.
Lemma eff_cons_other ds u' u r : unit_eqb u' u = false -> eff u ((ds, u') :: r) = eff u r.
Proof. intros H. unfold eff. cbn [last_digits]. rewrite H. reflexivity. Qed.
Lemma eff_absent u r : existsb (fun x => unit_eqb u (snd x)) r = false -> eff u r = 0.
Proof. intros H. unfold eff. rewrite last_digits_absent by assumption. reflexivity. Qed.

Lemma unit_total_distinct items : units_distinct items = true -> unit_total items = rel_sum items.
Proof.
  induction items as [|[ds u] r IH]; intros H; [reflexivity|].
  cbn [units_distinct] in H. apply andb_true_iff in H as [A B]. apply negb_true_iff in A.
  cbn [rel_sum]. rewrite <- (IH B). unfold unit_total, all_units. cbn [map fold_left].
  pose proof (eff_absent u r A) as Z0.
  destruct u; rewrite (eff_cons_same _ _ _ A);
    rewrite ?(eff_cons_other ds _ _ r) by reflexivity; rewrite Z0; cbn [CliDtSpec.unit_secs]; lia.
Qed.

Lemma rel_dur_small at_ neg items :
  unit_total items <= DUR_BOUND ->
  rel_dur at_ neg items = DurOk (if neg then - unit_total items else unit_total items) at_.
Proof.
  intros H. unfold rel_dur, rel_dur_gen. fold (unit_total items).
  pose proof (eff_nonneg US items). pose proof (eff_nonneg UM items). pose proof (eff_nonneg UH items).
  pose proof (eff_nonneg UD items). pose proof (eff_nonneg UW items).
  unfold unit_total, all_units, DUR_BOUND in *. cbn [map fold_left forallb CliDtSpec.unit_secs] in *.
  unfold I64_MAX, DUR_MAX_SECS.
  repeat match goal with |- context [?a <=? ?b] =>
    replace (a <=? b) with true by (symmetry; apply Z.leb_le; lia) end.
  reflexivity.
Qed.

(* the documented relative forms (each unit at most once, sum within the bound the spec speaks
   about): now (whole seconds) or the other bound, plus/minus the sum of the units *)
Theorem relative_documented at_ neg items tz other now :
  form_ok (FRel at_ neg items) = true ->
  TS_MIN + DUR_BOUND <= now <= TS_MAX - DUR_BOUND ->
  (forall o, other = Some o -> TS_MIN * NS + DUR_BOUND * NS <= o <= TS_MAX * NS - DUR_BOUND * NS) ->
  m_resolve (classify (render (FRel at_ neg items))) tz other now = denote (FRel at_ neg items) tz now other.
Proof.
  intros Hok Hnow Hother. cbn [form_ok] in Hok. rewrite !andb_true_iff in Hok.
  destruct Hok as [[[Hne Hdig] Hdist] Hsum]. apply Z.leb_le in Hsum.
  assert (Hne' : items <> []) by (destruct items; [discriminate|discriminate]).
  assert (Hio : Forall item_ok items).
  { apply Forall_forall. intros [ds u] Hin. apply digits_ok_item.
    exact (proj1 (forallb_forall _ _) Hdig (ds, u) Hin). }
  rewrite classify_render_rel by assumption. rewrite relative_universal by (try assumption; apply item_ok_ne; assumption).
  pose proof (unit_total_distinct items Hdist) as ET.
  rewrite rel_dur_small by (rewrite ET; exact Hsum). rewrite ET.
  assert (0 <= rel_sum items) by (rewrite <- ET; unfold unit_total, all_units; cbn [map fold_left CliDtSpec.unit_secs];
    pose proof (eff_nonneg US items); pose proof (eff_nonneg UM items); pose proof (eff_nonneg UH items);
    pose proof (eff_nonneg UD items); pose proof (eff_nonneg UW items); lia).
  unfold rel_value, denote, denote_with, NSs. unfold DUR_BOUND, TS_MIN, TS_MAX, NS in *.
  destruct at_.
  - destruct other as [o|]; [|reflexivity]. specialize (Hother o eq_refl).
    destruct neg; cbv zeta;
      match goal with |- context [(?a <=? ?b) && (?c <=? ?d)] =>
        replace ((a <=? b) && (c <=? d)) with true by (symmetry; apply andb_true_iff; split; apply Z.leb_le; lia) end;
      f_equal; lia.
  - destruct neg; cbv zeta;
      match goal with |- context [(?a <=? ?b) && (?c <=? ?d)] =>
        replace ((a <=? b) && (c <=? d)) with true by (symmetry; apply andb_true_iff; split; apply Z.leb_le; lia) end;
      f_equal; lia.
Qed.

Example relative_documented_satisfiable :
  form_ok (FRel true true [([1;2]%N, UD); ([0;3;4;5]%N, UM)]) = true
  /\ TS_MIN + DUR_BOUND <= 1700000000 <= TS_MAX - DUR_BOUND.
Proof. split; [reflexivity|]. vm_compute. split; discriminate. Qed.

(* repeated units, what the code does: only the LAST count of a unit is used *)
Example repeated_units_last_wins :
  m_resolve (cs "+1d2d") 0 None 1700000000 = Some ((1700000000 + 2 * 86400) * NS)
  /\ rel_dur false false [([1]%N, UD); ([2]%N, UD)] = DurOk (2 * 86400) false
  /\ m_resolve (cs "-6w5w4w") 0 None 1700000000 = Some ((1700000000 - 4 * 604800) * NS)
  /\ m_resolve (cs "+1d1h1d") 0 None 1700000000 = Some ((1700000000 + 86400 + 3600) * NS).
Proof. vm_compute. repeat split; reflexivity. Qed.

(* the overflow guards, on the boundary *)
Example relative_guards :
  rel_dur false false [([9;2;2;3;3;7;2;0;3;6;8;5;4;7;7;5]%N, US)] = DurOk 9223372036854775 false
  /\ rel_dur false false [([9;2;2;3;3;7;2;0;3;6;8;5;4;7;7;6]%N, US)] = DurNone
  /\ rel_dur false false [([9;2;2;3;3;7;2;0;3;6;8;5;4;7;7;5;8;0;8]%N, US)] = DurExit
  /\ rel_dur false true [([9;2;2;3;3;7;2;0;3;6;8;5;4;7;7;5]%N, US); ([1]%N, UM)] = DurNone
  /\ rel_dur true false [([1;5;2;5;0;2;8;4;4;5;2]%N, UW)] = DurOk (15250284452 * 604800) true
  /\ rel_dur true false [([1;5;2;5;0;2;8;4;4;5;3]%N, UW)] = DurNone.
Proof. vm_compute. repeat split; reflexivity. Qed.

(* regression lemma for the repaired defect: the code before the repair added the five TimeDelta
   values with `+`, which panicked (the process aborted) when the sum exceeded TimeDelta::MAX *)
Lemma sum_overflow_before_fix :
  wdhms_gen dur_at dur_plus dur_minus dur_units dur_anchor_start dur_anchor_end true (cs "+9223372036854775s1m") = DurExit
  /\ m_wdhms (cs "+9223372036854775s1m") = DurNone
  /\ rel_dur_gen true false false [([9;2;2;3;3;7;2;0;3;6;8;5;4;7;7;5]%N, US); ([1]%N, UM)] = DurExit.
Proof. vm_compute. repeat split; reflexivity. Qed.
