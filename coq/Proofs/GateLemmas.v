(* Proofs/GateLemmas.v — lemmas about the complete block-zero analysis (Model/Gate.v, gate2) used by
   Proofs/GateProofs.v.  For every oracle, every file, every block size > 0. *)
From S4.Base Require Import Bytes Chunk.
From S4.Spec Require Import LinesSpec.
From S4.Gen Require Import BlockConsts.
From S4.Model Require Import Lines Gate GateSpec.
From S4.Proofs Require Import LinesProofs.
Open Scope N_scope.

(* ====================================================================================== *)
(* find_line_in_block (sequential use) by the line end of the spec *)

(* ---------------------------------------------------------------- line_end facts *)
Lemma line_end_is_end (f : file) fo : fo < lenN f -> is_end f fo (line_end f fo).
Proof.
  intro L. unfold line_end, is_end.
  destruct (find_nl (skipnN fo f)) as [d|] eqn:F.
  - apply find_nl_Some in F as [A B]. rewrite nthN_skipnN in A.
    split; [lia|]. split; [apply nthN_Some_lt in A; exact A|]. split.
    + intros k K1 K2 E. apply (B (k - fo)); [lia|]. rewrite nthN_skipnN. replace (fo + (k - fo)) with k by lia. exact E.
    + left. exact A.
  - split; [lia|]. split; [lia|]. split.
    + intros k K1 K2 E. apply (find_nl_None _ F (k - fo)). rewrite nthN_skipnN. replace (fo + (k - fo)) with k by lia. exact E.
    + right. reflexivity.
Qed.

Lemma line_end_ge (f : file) fo : fo < lenN f -> fo <= line_end f fo < lenN f.
Proof. intro L. destruct (line_end_is_end f fo L) as (A & B & _). lia. Qed.

(* ---------------------------------------------------------------- find_line_in_block, by line_end *)
Definition flb_form (bs : N) (f : file) (fo : N) : lineres :=
  let e := line_end f fo in
  if e / bs =? fo / bs then LFound fo e
  else if (block_index_at_file_offset fo bs =? 0) && negb (fo =? 0) then LNone
  else LPartial fo fo.

Lemma flb_spec bs (f : file) fo : 0 < bs -> fo < lenN f ->
  find_line_in_block_seq bs f fo = flb_form bs f fo.
Proof.
  intros HB L. unfold find_line_in_block_seq, flb_form.
  destruct (N.leb_spec (lenN f) fo); [lia|].
  unfold block_offset_at_file_offset.
  pose proof (div_mod_bs fo bs HB) as [E1 E2].
  set (bo := fo / bs) in *. set (bi := block_index_at_file_offset fo bs) in *.
  pose proof (line_end_is_end f fo L) as IE.
  destruct (find_nl (skipnN bi (block bs f bo))) as [d|] eqn:F.
  - apply find_nl_Some in F as [A B]. rewrite nthN_skipnN in A.
    assert (BD : bi + d < bs).
    { pose proof (nthN_Some_lt _ _ _ A) as X. pose proof (lenN_block_le bs f bo). lia. }
    rewrite byte_at_block in A by exact BD.
    assert (EE : line_end f fo = fo + d).
    { apply line_end_char. split; [lia|]. split; [apply nthN_Some_lt in A; lia|]. split.
      - intros k K1 K2 X. apply (B (k - fo)); [lia|]. rewrite nthN_skipnN.
        rewrite byte_at_block by lia. replace (bo * bs + (bi + (k - fo))) with k by lia. exact X.
      - left. replace (fo + d) with (bo * bs + (bi + d)) by lia. exact A. }
    rewrite EE.
    assert (Q : (fo + d) / bs = bo).
    { replace (fo + d) with (bo * bs + (bi + d)) by lia. apply div_unique_bs. exact BD. }
    rewrite Q, N.eqb_refl. reflexivity.
  - assert (F0 : 0 < lenN f) by lia.
    pose proof (blockoffset_last_spec (lenN f) bs HB F0) as LS.
    destruct (N.eqb_spec bo (blockoffset_last (lenN f) bs)) as [Q|Q].
    + (* last block: end of file is the line end *)
      assert (EE : line_end f fo = lenN f - 1).
      { apply line_end_char. split; [lia|]. split; [lia|]. split.
        - intros k K1 K2 X. apply (find_nl_None _ F (k - fo)). rewrite nthN_skipnN.
          assert (KB : bi + (k - fo) < bs).
          { pose proof (div_lt_next (lenN f - 1) bs HB). rewrite <- LS, <- Q in H0. lia. }
          rewrite byte_at_block by exact KB.
          replace (bo * bs + (bi + (k - fo))) with k by lia. exact X.
        - right. reflexivity. }
      rewrite EE, <- LS, <- Q, N.eqb_refl. reflexivity.
    + (* not the last block: the line end lies in a later block *)
      assert (BL : bo < blockoffset_last (lenN f) bs).
      { pose proof (blockoffset_last_ge (lenN f) bs fo HB L). fold bo in H0. lia. }
      assert (FULL : bo * bs + bs <= lenN f).
      { pose proof (lenN_block_not_last bs f bo HB F0 BL) as X. rewrite lenN_block in X. lia. }
      assert (GE : bo * bs + bs <= line_end f fo).
      { destruct IE as (I1 & I2 & I3 & I4).
        destruct (N.lt_ge_cases (line_end f fo) (bo * bs + bs)) as [C|C]; [|exact C].
        exfalso. destruct I4 as [I4|I4].
        - apply (find_nl_None _ F (line_end f fo - fo)). rewrite nthN_skipnN.
          rewrite byte_at_block by lia.
          replace (bo * bs + (bi + (line_end f fo - fo))) with (line_end f fo) by lia. exact I4.
        - assert ((lenN f - 1) / bs = bo) by (apply div_eq_iff; [exact HB | lia]). lia. }
      assert (NQ : line_end f fo / bs <> bo).
      { intro X. apply div_eq_iff in X; [|exact HB]. lia. }
      destruct (N.eqb_spec (line_end f fo / bs) bo); [contradiction|]. reflexivity.
Qed.

Lemma flb_done bs (f : file) fo : lenN f <= fo -> find_line_in_block_seq bs f fo = LNone.
Proof. intro L. unfold find_line_in_block_seq. destruct (N.leb_spec (lenN f) fo); [reflexivity|lia]. Qed.

(* ====================================================================================== *)
(* dt_patterns_counts: try order, increments *)

(* ---------------------------------------------------------------- counts, try order *)
Lemma ins_desc_In x y l : In y (ins_desc x l) <-> y = x \/ In y l.
Proof.
  induction l as [|z l IH]; cbn [ins_desc].
  - cbn. intuition.
  - destruct (snd x <? snd z); cbn [In]; [rewrite IH|]; intuition.
Qed.

Lemma sort_desc_In y c : In y (sort_desc c) <-> In y c.
Proof.
  induction c as [|x c IH]; cbn [sort_desc]; [reflexivity|].
  rewrite ins_desc_In, IH. cbn. intuition.
Qed.

Lemma try_order_In r c : In r (try_order c) <-> In r (map fst c).
Proof.
  unfold try_order. rewrite !in_map_iff. split; intros (x & E & I); exists x; split; auto; apply sort_desc_In; exact I.
Qed.

(* all counts equal zero: the order is the key order *)
Lemma sort_desc_zero c : (forall x, In x c -> snd x = 0) -> sort_desc c = c.
Proof.
  induction c as [|x c IH]; intro Z; [reflexivity|].
  cbn [sort_desc]. rewrite IH by (intros y I; apply Z; right; exact I).
  destruct c as [|y c]; [reflexivity|]. cbn [ins_desc].
  rewrite (Z x (or_introl eq_refl)), (Z y (or_intror (or_introl eq_refl))). reflexivity.
Qed.

(* one entry strictly above all others: it comes first *)
Lemma sort_desc_head c r n :
  In (r, n) c -> (forall x, In x c -> x <> (r, n) -> snd x < n) ->
  exists t, sort_desc c = (r, n) :: t.
Proof.
  induction c as [|x c IH]; intros I M; [destruct I|].
  cbn [sort_desc].
  destruct (N.eq_dec (snd x) n) as [E|E].
  - (* x must be (r, n) *)
    assert (X : x = (r, n)).
    { destruct (N.eq_dec (fst x) r) as [E2|E2].
      - destruct x; cbn in *; subst; reflexivity.
      - exfalso. assert (snd x < n); [|lia]. apply M; [left; reflexivity|].
        intro Q. subst x. cbn in E2. contradiction. }
    subst x. destruct (sort_desc c) as [|y t] eqn:S; [eexists; reflexivity|].
    cbn [ins_desc]. cbn [snd].
    destruct (N.ltb_spec n (snd y)) as [L|L]; [|eexists; reflexivity].
    exfalso. assert (Iy : In y c) by (apply sort_desc_In; rewrite S; left; reflexivity).
    assert (snd y < n) by (apply M; [right; exact Iy | intro Q; subst y; cbn in L; lia]). lia.
  - assert (X : x <> (r, n)) by (intro Q; subst x; cbn in E; contradiction).
    destruct I as [I|I]; [contradiction|].
    destruct (IH I) as (t & S).
    { intros y Iy Ny. apply M; [right; exact Iy|exact Ny]. }
    rewrite S. cbn [ins_desc snd].
    assert (L : snd x < n) by (apply M; [left; reflexivity|exact X]).
    destruct (N.ltb_spec (snd x) n); [|lia]. eexists; reflexivity.
Qed.

(* keys of the map *)
Definition keys (c : counts) : list N := map fst c.
Definition cnt (c : counts) (r : N) : N :=
  match find (fun x => fst x =? r) c with Some x => snd x | None => 0 end.

Lemma keys_init rows : keys (counts_init rows) = rows.
Proof. unfold keys, counts_init. rewrite map_map. cbn. apply map_id. Qed.

Lemma counts_init_zero rows x : In x (counts_init rows) -> snd x = 0.
Proof. unfold counts_init. rewrite in_map_iff. intros (r & E & _). subst x. reflexivity. Qed.

Lemma counts_incr_spec c r : In r (keys c) -> NoDup (keys c) ->
  exists c', counts_incr c r = Some c' /\ keys c' = keys c /\
    (forall k n, In (k, n) c' -> k <> r -> In (k, n) c) /\
    (forall n, In (r, n) c' -> exists m, In (r, m) c /\ n = m + 1) /\
    (exists m, In (r, m) c /\ In (r, m + 1) c').
Proof.
  induction c as [|[k n] c IH]; intros I ND; [destruct I|].
  cbn [counts_incr]. cbn [keys map fst] in *. inversion ND as [|? ? NI ND']; subst.
  destruct (N.eqb_spec k r) as [E|E].
  - subst k. eexists. split; [reflexivity|]. split; [reflexivity|]. split; [|split].
    + intros k' n' [Q|Q] D; [inversion Q; subst; contradiction|right; exact Q].
    + intros n' [Q|Q].
      * inversion Q; subst. exists n. split; [left; reflexivity|reflexivity].
      * exfalso. apply NI. change (In r (keys c)). unfold keys. apply in_map_iff. exists (r, n'). split; [reflexivity|exact Q].
    + exists n. split; left; reflexivity.
  - destruct I as [I|I]; [contradiction|].
    destruct (IH I ND') as (c' & S & K & A & B & C). rewrite S.
    eexists. split; [reflexivity|]. split; [cbn; f_equal; exact K|]. split; [|split].
    + intros k' n' [Q|Q] D; [left; exact Q|right; apply A; assumption].
    + intros n' [Q|Q]; [inversion Q; subst; contradiction|].
      destruct (B n' Q) as (m & M1 & M2). exists m. split; [right; exact M1|exact M2].
    + destruct C as (m & M1 & M2). exists m. split; right; assumption.
Qed.

(* ====================================================================================== *)
(* the LRU cache, find_dt, parse_plain *)

(* ---------------------------------------------------------------- lru *)
Lemma lru_find_del {V} k b (l : lru V) : lru_find k (lru_del b l) = if b =? k then None else lru_find k l.
Proof.
  unfold lru_del. induction l as [|[k' v] l IH]; cbn [filter lru_find fst].
  - destruct (b =? k); reflexivity.
  - destruct (N.eqb_spec k' b) as [E|E]; cbn [negb].
    + rewrite IH. subst k'. destruct (N.eqb_spec b k); reflexivity.
    + cbn [lru_find]. rewrite IH. destruct (N.eqb_spec k' k) as [E2|E2]; [|reflexivity].
      subst k'. destruct (N.eqb_spec b k); [congruence|reflexivity].
Qed.

Lemma lru_find_firstn_None {V} k n (l : lru V) : lru_find k l = None -> lru_find k (firstn n l) = None.
Proof.
  revert n; induction l as [|[k' v] l IH]; intros n H; destruct n; try reflexivity.
  cbn [firstn lru_find] in *. destruct (k' =? k); [discriminate|]. apply IH. exact H.
Qed.

Lemma lru_find_put_same {V} cap k (v : V) l : 0 < cap -> lru_find k (lru_put cap k v l) = Some v.
Proof.
  intro C. unfold lru_put, firstnN. destruct (N.to_nat cap) as [|n] eqn:E; [lia|].
  cbn [firstn lru_find]. rewrite N.eqb_refl. reflexivity.
Qed.

Lemma lru_find_put_other {V} cap k b (v : V) l : k <> b -> lru_find k l = None -> lru_find k (lru_put cap b v l) = None.
Proof.
  intros D H. unfold lru_put, firstnN. apply lru_find_firstn_None.
  cbn [lru_find]. destruct (N.eqb_spec b k); [congruence|].
  rewrite lru_find_del. destruct (b =? k); [reflexivity|exact H].
Qed.

Lemma lru_get_None {V} k (l : lru V) : lru_find k l = None -> lru_get k l = None.
Proof. intro H. unfold lru_get. rewrite H. reflexivity. Qed.

(* ---------------------------------------------------------------- find_dt *)
Section P.
  Variable dbr : N -> list N -> option Z.
  Variable rows : list N.
  Hypothesis ND : NoDup rows.

  Notation parse := (parse_plain dbr).
  Notation dany := (dated_any dbr rows).

  Lemma find_dt_None order l : find_dt dbr order l = None <-> forall r, In r order -> dbr r l = None.
  Proof.
    induction order as [|r t IH]; cbn [find_dt].
    - split; [intros _ r []|reflexivity].
    - destruct (dbr r l) eqn:E.
      + split; [discriminate|]. intro H. specialize (H r (or_introl eq_refl)). congruence.
      + rewrite IH. split.
        * intros H r' [<-|I]; [exact E|apply H; exact I].
        * intros H r' I. apply H. right. exact I.
  Qed.

  Lemma find_dt_Some order l dt r : find_dt dbr order l = Some (dt, r) -> In r order /\ dbr r l = Some dt.
  Proof.
    induction order as [|r' t IH]; cbn [find_dt]; [discriminate|].
    destruct (dbr r' l) eqn:E.
    - intro H. inversion H; subst. split; [left; reflexivity|exact E].
    - intro H. destruct (IH H). split; [right|]; assumption.
  Qed.

  Lemma find_dt_perm_None o1 o2 l : (forall r, In r o1 <-> In r o2) ->
    find_dt dbr o1 l = None -> find_dt dbr o2 l = None.
  Proof.
    intros P H. rewrite find_dt_None in *. intros r I. apply H. apply P. exact I.
  Qed.

  (* ---------------------------------------------------------------- parse_plain *)
  Lemma pp_zero l : parse (counts_init rows) l = dany l.
  Proof.
    unfold parse_plain, dated_any, try_order.
    rewrite sort_desc_zero by apply counts_init_zero.
    fold (keys (counts_init rows)). rewrite keys_init. reflexivity.
  Qed.

  Lemma pp_none_iff c l : keys c = rows -> (parse c l = None <-> dany l = None).
  Proof.
    intro K. unfold parse_plain, dated_any. destruct (lenN l <? datetime_str_min); [tauto|].
    split; apply find_dt_perm_None; intro r; rewrite try_order_In; fold (keys c); rewrite K; tauto.
  Qed.

  Lemma pp_some_in c l dt r : keys c = rows -> parse c l = Some (dt, r) -> In r rows /\ dbr r l = Some dt.
  Proof.
    intro K. unfold parse_plain. destruct (lenN l <? datetime_str_min); [discriminate|].
    intro H. apply find_dt_Some in H as [I E]. split; [|exact E].
    apply (proj1 (try_order_In r c)) in I. unfold keys in K. rewrite K in I. exact I.
  Qed.

  (* the counts while only row r has been counted *)
  Definition only (r : N) (c : counts) : Prop :=
    keys c = rows /\ In r rows /\ (forall k n, In (k, n) c -> k <> r -> n = 0) /\ (exists n, In (r, n) c /\ 0 < n).

  Lemma keys_unique c k n m : NoDup (keys c) -> In (k, n) c -> In (k, m) c -> n = m.
  Proof.
    induction c as [|[k' n'] c IH]; intros N1 I1 I2; [destruct I1|].
    cbn [keys map fst] in N1. inversion N1 as [|? ? NI N2]; subst.
    assert (X : forall x, In (k', x) c -> False).
    { intros x I. apply NI. unfold keys. apply in_map_iff. exists (k', x). split; [reflexivity|exact I]. }
    destruct I1 as [I1|I1], I2 as [I2|I2].
    - congruence.
    - inversion I1; subst. exfalso. eapply X; eauto.
    - inversion I2; subst. exfalso. eapply X; eauto.
    - apply IH; assumption.
  Qed.

  Lemma pp_only c r l dt : only r c -> datetime_str_min <= lenN l -> dbr r l = Some dt ->
    parse c l = Some (dt, r).
  Proof.
    intros (K & I & Z & n & In_ & P) L E. unfold parse_plain.
    destruct (N.ltb_spec (lenN l) datetime_str_min); [lia|].
    destruct (sort_desc_head c r n In_) as (t & S).
    { intros [k m] Ix Nx. cbn [snd]. destruct (N.eq_dec k r) as [->|D].
      - exfalso. apply Nx. f_equal. apply (keys_unique c r m n); [rewrite K; exact ND|exact Ix|exact In_].
      - rewrite (Z k m Ix D). exact P. }
    unfold try_order. rewrite S. cbn [map fst find_dt]. rewrite E. reflexivity.
  Qed.

  Lemma only_incr_zero r : In r rows -> exists c', counts_incr (counts_init rows) r = Some c' /\ only r c'.
  Proof.
    intro I.
    destruct (counts_incr_spec (counts_init rows) r) as (c' & S & K & A & B & C).
    { rewrite keys_init. exact I. } { rewrite keys_init. exact ND. }
    exists c'. split; [exact S|]. split; [rewrite K; apply keys_init|]. split; [exact I|]. split.
    - intros k n Ik D. apply (counts_init_zero rows (k, n)). apply A; assumption.
    - destruct C as (m & M1 & M2). exists (m + 1). split; [exact M2|lia].
  Qed.

  Lemma only_incr r c : only r c -> exists c', counts_incr c r = Some c' /\ only r c'.
  Proof.
    intros (K & I & Z & n & In_ & P).
    destruct (counts_incr_spec c r) as (c' & S & K' & A & B & C).
    { rewrite K. exact I. } { rewrite K. exact ND. }
    exists c'. split; [exact S|]. split; [congruence|]. split; [exact I|]. split.
    - intros k m Ik D. apply (Z k m); [apply A; assumption|exact D].
    - destruct C as (m & M1 & M2). exists (m + 1). split; [exact M2|lia].
  Qed.
End P.

(* ====================================================================================== *)
(* fuel irrelevance; fuel-free unfolding equations of the loops and of next_dated *)

Lemma flb_found_inv bs (f : file) fo b e : 0 < bs ->
  find_line_in_block_seq bs f fo = LFound b e ->
  b = fo /\ fo <= e /\ e < lenN f /\ e = line_end f fo /\ e / bs = fo / bs.
Proof.
  intros HB H. destruct (N.lt_ge_cases fo (lenN f)) as [L|L].
  - rewrite flb_spec in H by assumption. unfold flb_form in H.
    destruct (N.eqb_spec (line_end f fo / bs) (fo / bs)) as [E|E].
    + injection H as X Y. subst b e. pose proof (line_end_ge f fo L). repeat split; try lia; exact E.
    + destruct (_ && _); discriminate.
  - rewrite flb_done in H by exact L. discriminate.
Qed.

Lemma flb_partial_inv bs (f : file) fo b e : 0 < bs ->
  find_line_in_block_seq bs f fo = LPartial b e -> b = fo /\ e = fo /\ fo < lenN f /\ line_end f fo / bs <> fo / bs.
Proof.
  intros HB H. destruct (N.lt_ge_cases fo (lenN f)) as [L|L].
  - rewrite flb_spec in H by assumption. unfold flb_form in H.
    destruct (N.eqb_spec (line_end f fo / bs) (fo / bs)) as [E|E]; [discriminate|].
    destruct (_ && _); [discriminate|]. injection H as X Y. subst b e. repeat split; auto.
  - rewrite flb_done in H by exact L. discriminate.
Qed.

Definition meas (f : file) (fo : N) : nat := N.to_nat (lenN f - fo).
Lemma meas_step (f : file) fo e k : fo <= e -> e < lenN f -> (meas f fo < S k)%nat -> (meas f (e + 1) < k)%nat.
Proof. unfold meas. lia. Qed.
Lemma meas_len (f : file) fo e : fo <= e -> e < lenN f -> (meas f (e + 1) < length f)%nat.
Proof. unfold meas, lenN. lia. Qed.
Lemma meas_len0 (f : file) fo : (meas f fo < S (length f))%nat.
Proof. unfold meas, lenN. lia. Qed.

Section Loops.
  Variable P : counts -> list N -> option (Z * N).
  Variables (bs : N) (f : file).
  Hypothesis HB : 0 < bs.
  Notation PC := (parse_cached P f).
  Notation meas := (meas f).

  Lemma lb_fuel k1 : forall k2 st fo sl, (meas fo < k1)%nat -> (meas fo < k2)%nat ->
    sib2_loop_b P k1 bs f st fo sl = sib2_loop_b P k2 bs f st fo sl.
  Proof.
    induction k1 as [|k1 IH]; intros k2 st fo sl M1 M2; [lia|]. destruct k2 as [|k2]; [lia|].
    cbn [sib2_loop_b].
    destruct (find_line_in_block_seq bs f fo) as [b e| |] eqn:F; try reflexivity.
    apply flb_found_inv in F as (-> & A & B & _); [|exact HB].
    destruct (PC st fo (e + 1)) as [st' [v|]]; [reflexivity|].
    apply IH; eapply meas_step; eauto.
  Qed.

  Definition LB (st : pst) (fo sl : N) := sib2_loop_b P (S (length f)) bs f st fo sl.

  Lemma LB_eq st fo sl :
    LB st fo sl =
    match find_line_in_block_seq bs f fo with
    | LFound b e =>
        match PC st b (e + 1) with
        | (st', None) => LB st' (e + 1) e
        | (st', Some _) => (st', Some fo)
        end
    | _ => (st, if fo <? lenN f - 1 then None else Some (sl + 1))
    end.
  Proof.
    unfold LB at 1. cbn [sib2_loop_b].
    destruct (find_line_in_block_seq bs f fo) as [b e| |] eqn:F; try reflexivity.
    apply flb_found_inv in F as (-> & A & B & _); [|exact HB].
    destruct (PC st fo (e + 1)) as [st' [v|]]; [reflexivity|].
    unfold LB. apply lb_fuel; [eapply meas_len; eauto|apply meas_len0].
  Qed.

  Lemma la_fuel k1 : forall k2 st fo, (meas fo < k1)%nat -> (meas fo < k2)%nat ->
    sib2_loop_a P k1 bs f st fo = sib2_loop_a P k2 bs f st fo.
  Proof.
    induction k1 as [|k1 IH]; intros k2 st fo M1 M2; [lia|]. destruct k2 as [|k2]; [lia|].
    cbn [sib2_loop_a].
    destruct (find_line_in_block_seq bs f fo) as [b e| |] eqn:F; try reflexivity.
    apply flb_found_inv in F as (-> & A & B & _); [|exact HB].
    destruct (PC st fo (e + 1)) as [st' [v|]].
    - destruct (e =? lenN f - 1); [reflexivity|].
      rewrite (lb_fuel (S k1) (S k2)); [reflexivity| |]; unfold meas in *; lia.
    - apply IH; eapply meas_step; eauto.
  Qed.

  Definition LA (st : pst) (fo : N) := sib2_loop_a P (S (length f)) bs f st fo.

  Lemma LA_eq st fo :
    LA st fo =
    match find_line_in_block_seq bs f fo with
    | LFound b e =>
        match PC st b (e + 1) with
        | (st', Some _) =>
            if e =? lenN f - 1 then (st', SFound (e + 1))
            else match LB st' (e + 1) e with
                 | (st'', Some fo_b) => (st'', SFound fo_b)
                 | (st'', None) => (st'', SDone true)
                 end
        | (st', None) => LA st' (e + 1)
        end
    | LPartial b e =>
        match PC st b (e + 1) with
        | (st', Some _) => (st', SDone true)
        | (st', None) => (st', SDone false)
        end
    | LNone => (st, SDone false)
    end.
  Proof.
    unfold LA at 1. cbn [sib2_loop_a].
    destruct (find_line_in_block_seq bs f fo) as [b e| |] eqn:F; try reflexivity.
    apply flb_found_inv in F as (-> & A & B & _); [|exact HB].
    destruct (PC st fo (e + 1)) as [st' [v|]].
    - reflexivity.
    - unfold LA. apply la_fuel; [eapply meas_len; eauto|apply meas_len0].
  Qed.
End Loops.

(* next_dated: fuel-free unfolding *)
Section ND.
  Variable dbr : N -> list N -> option Z.
  Variable rows : list N.
  Notation dany := (dated_any dbr rows).

  Lemma nd_fuel (f : file) k1 : forall k2 fo, (meas f fo < k1)%nat -> (meas f fo < k2)%nat ->
    next_dated_fuel dbr rows k1 f fo = next_dated_fuel dbr rows k2 f fo.
  Proof.
    induction k1 as [|k1 IH]; intros k2 fo M1 M2; [lia|]. destruct k2 as [|k2]; [lia|].
    cbn [next_dated_fuel]. destruct (N.leb_spec (lenN f) fo) as [L|L]; [reflexivity|].
    destruct (dany _) as [[dt r]|]; [reflexivity|].
    pose proof (line_end_ge f fo L). apply IH; [apply (meas_step f fo _ k1)|apply (meas_step f fo _ k2)]; try lia; assumption.
  Qed.

  Lemma nd_eq (f : file) fo :
    next_dated dbr rows f fo =
    if lenN f <=? fo then None
    else let e := line_end f fo in
         match dany (slice f fo (e + 1)) with
         | Some (dt, r) => Some (fo, e, dt, r)
         | None => next_dated dbr rows f (e + 1)
         end.
  Proof.
    unfold next_dated at 1. cbn [next_dated_fuel]. destruct (N.leb_spec (lenN f) fo) as [L|L]; [reflexivity|].
    cbv zeta. destruct (dany _) as [[dt r]|]; [reflexivity|].
    pose proof (line_end_ge f fo L). unfold next_dated.
    apply nd_fuel; [apply (meas_len f fo); lia|apply meas_len0].
  Qed.
End ND.

(* ====================================================================================== *)
(* runs of find_sysline_in_block: loop A / loop B, in any geometry and inside block zero *)

Lemma flb_in_b0 bs (f : file) fo : 0 < bs -> fo < lenN f -> line_end f fo < N.min bs (lenN f) ->
  find_line_in_block_seq bs f fo = LFound fo (line_end f fo).
Proof.
  intros HB L E. rewrite flb_spec by assumption. unfold flb_form.
  pose proof (line_end_ge f fo L).
  rewrite (N.div_small (line_end f fo) bs) by lia. rewrite (N.div_small fo bs) by lia. reflexivity.
Qed.

Lemma str_min_pos : 1 < datetime_str_min. Proof. reflexivity. Qed.
Lemma lru_sz_pos : 0 < parse_lru_sz. Proof. reflexivity. Qed.

Section Run.
  Variable dbr : N -> list N -> option Z.
  Variable rows : list N.
  Hypothesis ND : NoDup rows.
  Variables (bs : N) (f : file).
  Hypothesis HB : 0 < bs.

  Notation P := (parse_plain dbr).
  Notation PC := (parse_cached P f).
  Notation LA := (LA P bs f).
  Notation LB := (LB P bs f).
  Notation nd := (next_dated dbr rows f).
  Notation dany := (dated_any dbr rows).
  Notation only := (only rows).
  Notation meas := (meas f).

  Definition same (st st' : pst) : Prop :=
    p_counts st' = p_counts st /\ p_lru st' = p_lru st /\ p_panic st' = p_panic st.
  Definition lru_above (st : pst) (fo : N) : Prop := forall k, fo <= k -> lru_find k (p_lru st) = None.
  Definition CZ (st : pst) : Prop := p_counts st = counts_init rows /\ p_panic st = false.
  Definition Inv (r : N) (st : pst) : Prop := p_panic st = false /\ only r (p_counts st).

  Lemma lru_above_mono st fo fo' : lru_above st fo -> fo <= fo' -> lru_above st fo'.
  Proof. intros A L k K. apply A. lia. Qed.
  Lemma lru_above_same st st' fo : same st st' -> lru_above st fo -> lru_above st' fo.
  Proof. intros (_ & E & _) A k K. rewrite E. apply A. exact K. Qed.

  (* ---------------------------------------------------------------- parse_cached *)
  Lemma pc_none st b e1 : lru_find b (p_lru st) = None -> P (p_counts st) (slice f b e1) = None ->
    exists st', PC st b e1 = (st', None) /\ same st st'.
  Proof.
    intros M N_. unfold parse_cached. rewrite (lru_get_None _ _ M), N_.
    eexists. split; [reflexivity|]. repeat split.
  Qed.

  Lemma pc_some st b e1 dt r c' : lru_find b (p_lru st) = None ->
    P (p_counts st) (slice f b e1) = Some (dt, r) -> counts_incr (p_counts st) r = Some c' ->
    exists st', PC st b e1 = (st', Some (dt, r)) /\ p_counts st' = c' /\
                p_lru st' = lru_put parse_lru_sz b (dt, r) (p_lru st) /\ p_panic st' = p_panic st.
  Proof.
    intros M S I. unfold parse_cached. rewrite (lru_get_None _ _ M), S, I.
    eexists. split; [reflexivity|]. repeat split.
  Qed.

  Lemma pc_hit st b e1 v : lru_find b (p_lru st) = Some v ->
    exists st', PC st b e1 = (st', Some v) /\ p_counts st' = p_counts st /\ p_panic st' = p_panic st /\
                p_lru st' = (b, v) :: lru_del b (p_lru st).
  Proof.
    intro H. unfold parse_cached, lru_get. rewrite H. eexists. split; [reflexivity|]. repeat split.
  Qed.

  Lemma pp_short c l : lenN l < datetime_str_min -> P c l = None.
  Proof. intro L. unfold parse_plain. destruct (N.ltb_spec (lenN l) datetime_str_min); [reflexivity|lia]. Qed.

  Lemma pp_some_long c l x : P c l = Some x -> datetime_str_min <= lenN l.
  Proof. unfold parse_plain. destruct (N.ltb_spec (lenN l) datetime_str_min); [discriminate|auto]. Qed.

  Lemma dany_some_long l x : dany l = Some x -> datetime_str_min <= lenN l.
  Proof. unfold dated_any. destruct (N.ltb_spec (lenN l) datetime_str_min); [discriminate|auto]. Qed.

  Lemma dany_some_in l dt r : dany l = Some (dt, r) -> In r rows /\ dbr r l = Some dt.
  Proof.
    unfold dated_any. destruct (lenN l <? datetime_str_min); [discriminate|]. apply find_dt_Some.
  Qed.

  Lemma slice1_short fo : lenN (slice f fo (fo + 1)) < datetime_str_min.
  Proof.
    unfold slice. rewrite lenN_firstnN. pose proof str_min_pos. lia.
  Qed.

  (* ---------------------------------------------------------------- next_dated facts *)
  Lemma nd_bounds : forall n fo b e dt r, (meas fo < n)%nat -> nd fo = Some (b, e, dt, r) ->
    fo <= b /\ b <= e /\ e < lenN f /\ e = line_end f b /\ dany (slice f b (e + 1)) = Some (dt, r) /\
    nd b = Some (b, e, dt, r).
  Proof.
    induction n as [|n IH]; intros fo b e dt r M H; [lia|].
    pose proof H as H0. rewrite nd_eq in H. destruct (N.leb_spec (lenN f) fo) as [L|L]; [discriminate|].
    cbv zeta in H. pose proof (line_end_ge f fo L) as G.
    destruct (dany (slice f fo (line_end f fo + 1))) as [[dt' r']|] eqn:D.
    - injection H as <- <- <- <-. repeat split; try lia; assumption.
    - apply IH in H; [|apply (meas_step f fo); [lia|lia|exact M]]. destruct H as (A & B & C & E & F & G2).
      repeat split; try lia; assumption.
  Qed.

  Lemma nd_facts fo b e dt r : nd fo = Some (b, e, dt, r) ->
    fo <= b /\ b <= e /\ e < lenN f /\ e = line_end f b /\ dany (slice f b (e + 1)) = Some (dt, r) /\
    nd b = Some (b, e, dt, r).
  Proof. apply (nd_bounds (S (length f))). apply meas_len0. Qed.

  (* stepping the scan over an undated line *)
  Lemma nd_step fo : fo < lenN f -> dany (slice f fo (line_end f fo + 1)) = None ->
    nd fo = nd (line_end f fo + 1).
  Proof.
    intros L D. rewrite nd_eq at 1. destruct (N.leb_spec (lenN f) fo); [lia|]. cbv zeta. rewrite D. reflexivity.
  Qed.
  Lemma nd_here fo dt r : fo < lenN f -> dany (slice f fo (line_end f fo + 1)) = Some (dt, r) ->
    nd fo = Some (fo, line_end f fo, dt, r).
  Proof.
    intros L D. rewrite nd_eq. destruct (N.leb_spec (lenN f) fo); [lia|]. cbv zeta. rewrite D. reflexivity.
  Qed.

  (* ---------------------------------------------------------------- loop A, no dated line, ANY geometry *)
  Lemma LA_none : forall n fo st, (meas fo < n)%nat -> nd fo = None -> keys (p_counts st) = rows ->
    lru_above st fo -> exists st', LA st fo = (st', SDone false) /\ same st st'.
  Proof.
    induction n as [|n IH]; intros fo st M H K A; [lia|].
    rewrite LA_eq by exact HB.
    destruct (find_line_in_block_seq bs f fo) as [b e| b e |] eqn:F.
    - apply flb_found_inv in F as (-> & L1 & L2 & -> & _); [|exact HB].
      assert (L : fo < lenN f) by lia.
      destruct (dany (slice f fo (line_end f fo + 1))) as [[dt r]|] eqn:D.
      { rewrite (nd_here fo dt r L D) in H. discriminate. }
      rewrite (nd_step fo L D) in H.
      destruct (pc_none st fo (line_end f fo + 1)) as (st1 & E & S).
      { apply A. lia. } { apply (proj2 (pp_none_iff dbr rows _ _ K)). exact D. }
      rewrite E. cbv beta iota.
      destruct (IH (line_end f fo + 1) st1) as (st2 & E2 & S2).
      { apply (meas_step f fo); [lia|lia|exact M]. } { exact H. }
      { destruct S as (S1 & _). rewrite S1. exact K. }
      { apply (lru_above_same st); [exact S|]. apply (lru_above_mono st fo); [exact A|lia]. }
      exists st2. split; [exact E2|]. destruct S as (a & b & c), S2 as (a2 & b2 & c2). repeat split; congruence.
    - apply flb_partial_inv in F as (-> & -> & L & _); [|exact HB].
      destruct (pc_none st fo (fo + 1)) as (st1 & E & S).
      { apply A. lia. } { apply pp_short. apply slice1_short. }
      rewrite E. cbv beta iota. exists st1. split; [reflexivity|exact S].
    - exists st. split; [reflexivity|]. repeat split.
  Qed.

  (* ---------------------------------------------------------------- loop B, ANY geometry: only row r is ever counted *)
  Lemma LB_inv r : forall n fo st sl, (meas fo < n)%nat -> Inv r st -> lru_above st fo ->
    (forall b2 e2 dt2 r2, nd fo = Some (b2, e2, dt2, r2) -> dbr r (slice f b2 (e2 + 1)) <> None) ->
    exists st' o, LB st fo sl = (st', o) /\ Inv r st'.
  Proof.
    induction n as [|n IH]; intros fo st sl M I A U; [lia|].
    rewrite LB_eq by exact HB.
    destruct (find_line_in_block_seq bs f fo) as [b e| b e |] eqn:F.
    2,3: (eexists; eexists; split; [reflexivity|exact I]).
    apply flb_found_inv in F as (-> & L1 & L2 & -> & _); [|exact HB].
    assert (L : fo < lenN f) by lia.
    destruct I as (IP & IO). pose proof IO as (K & Ir & _).
    destruct (P (p_counts st) (slice f fo (line_end f fo + 1))) as [[dt r']|] eqn:PP.
    - (* a dated line: it is the next dated line of the scan, hence matched by r *)
      assert (D : dany (slice f fo (line_end f fo + 1)) <> None).
      { intro X. apply (proj2 (pp_none_iff dbr rows _ _ K)) in X. congruence. }
      destruct (dany (slice f fo (line_end f fo + 1))) as [[dt0 r0]|] eqn:D0; [|congruence].
      pose proof (U _ _ _ _ (nd_here fo dt0 r0 L D0)) as UR.
      destruct (dbr r (slice f fo (line_end f fo + 1))) as [dtr|] eqn:DR; [|congruence].
      pose proof (pp_only dbr rows ND _ r _ dtr IO (pp_some_long _ _ _ PP) DR) as PR.
      rewrite PR in PP. injection PP as <- <-.
      destruct (only_incr rows ND r _ IO) as (c' & CI & O').
      destruct (pc_some st fo (line_end f fo + 1) dtr r c') as (st1 & E & S1 & S2 & S3); try assumption.
      { apply A. lia. }
      rewrite E. cbv beta iota. exists st1, (Some fo). split; [reflexivity|].
      split; [congruence|rewrite S1; exact O'].
    - destruct (pc_none st fo (line_end f fo + 1)) as (st1 & E & S); [apply A; lia|exact PP|].
      rewrite E. cbv beta iota.
      assert (D : dany (slice f fo (line_end f fo + 1)) = None) by (apply (proj1 (pp_none_iff dbr rows _ _ K)); exact PP).
      apply IH.
      + apply (meas_step f fo); [lia|lia|exact M].
      + destruct S as (a & b & c). split; [congruence|rewrite a; exact IO].
      + apply (lru_above_same st); [exact S|]. apply (lru_above_mono st fo); [exact A|lia].
      + intros b2 e2 dt2 r2 H. apply (U b2 e2 dt2 r2). rewrite (nd_step fo L D). exact H.
  Qed.

  Definition bz := N.min bs (lenN f).

  (* ---------------------------------------------------------------- loop B inside block zero: reaches the next dated line *)
  Lemma LB_reach r : forall n fo st sl b2 e2 dt2 r2 dtr, (meas fo < n)%nat ->
    nd fo = Some (b2, e2, dt2, r2) -> e2 < bz -> Inv r st -> lru_above st fo ->
    dbr r (slice f b2 (e2 + 1)) = Some dtr ->
    exists st', LB st fo sl = (st', Some b2) /\ Inv r st' /\
                lru_find b2 (p_lru st') = Some (dtr, r) /\ lru_above st' (b2 + 1).
  Proof.
    induction n as [|n IH]; intros fo st sl b2 e2 dt2 r2 dtr M H E2 I A DR; [lia|].
    destruct (nd_facts _ _ _ _ _ H) as (G1 & G2 & G3 & G4 & G5 & G6).
    assert (L : fo < lenN f) by lia.
    destruct I as (IP & IO). pose proof IO as (K & Ir & _).
    rewrite LB_eq by exact HB.
    destruct (dany (slice f fo (line_end f fo + 1))) as [[dt0 r0]|] eqn:D.
    - (* fo is the dated line *)
      rewrite (nd_here fo dt0 r0 L D) in H. injection H as <- <- <- <-.
      rewrite flb_in_b0 by (assumption || (unfold bz in E2; exact E2)).
      pose proof (pp_only dbr rows ND _ r _ dtr IO (dany_some_long _ _ D) DR) as PR.
      destruct (only_incr rows ND r _ IO) as (c' & CI & O').
      destruct (pc_some st fo (line_end f fo + 1) dtr r c') as (st1 & E & S1 & S2 & S3); try assumption.
      { apply A. lia. }
      rewrite E. cbv beta iota. exists st1. split; [reflexivity|]. split; [split; [congruence|rewrite S1; exact O']|].
      split.
      + rewrite S2. apply lru_find_put_same. exact lru_sz_pos.
      + intros k Kk. rewrite S2. apply lru_find_put_other; [lia|]. apply A. lia.
    - (* an undated line inside block zero *)
      pose proof (line_end_ge f fo L) as LG.
      rewrite (nd_step fo L D) in H.
      destruct (nd_facts _ _ _ _ _ H) as (H1 & _).
      rewrite flb_in_b0; [|exact HB|exact L|unfold bz in E2; lia].
      destruct (pc_none st fo (line_end f fo + 1)) as (st1 & E & S);
        [apply A; lia|apply (proj2 (pp_none_iff dbr rows _ _ K)); exact D|].
      rewrite E. cbv beta iota.
      apply (IH _ _ _ b2 e2 dt2 r2 dtr); try assumption.
      + apply (meas_step f fo); [lia|lia|exact M].
      + destruct S as (a & b & c). split; [congruence|rewrite a; exact IO].
      + apply (lru_above_same st); [exact S|]. apply (lru_above_mono st fo); [exact A|lia].
  Qed.

  (* ---------------------------------------------------------------- loop A inside block zero: skip the undated prefix *)
  Lemma LA_skip : forall n fo st b1 e1 dt1 r, (meas fo < n)%nat ->
    nd fo = Some (b1, e1, dt1, r) -> e1 < bz -> keys (p_counts st) = rows -> lru_above st fo ->
    exists st1, same st st1 /\ LA st fo = LA st1 b1.
  Proof.
    induction n as [|n IH]; intros fo st b1 e1 dt1 r M H E1 K A; [lia|].
    destruct (nd_facts _ _ _ _ _ H) as (G1 & G2 & G3 & G4 & G5 & G6).
    assert (L : fo < lenN f) by lia.
    destruct (dany (slice f fo (line_end f fo + 1))) as [[dt0 r0]|] eqn:D.
    - rewrite (nd_here fo dt0 r0 L D) in H. injection H as <- <- <- <-.
      exists st. split; [repeat split|reflexivity].
    - pose proof (line_end_ge f fo L) as LG.
      rewrite (nd_step fo L D) in H.
      destruct (nd_facts _ _ _ _ _ H) as (H1 & _).
      rewrite LA_eq by exact HB.
      rewrite flb_in_b0; [|exact HB|exact L|unfold bz in E1; lia].
      destruct (pc_none st fo (line_end f fo + 1)) as (st1 & E & S);
        [apply A; lia|apply (proj2 (pp_none_iff dbr rows _ _ K)); exact D|].
      rewrite E. cbv beta iota.
      destruct (IH (line_end f fo + 1) st1 b1 e1 dt1 r) as (st2 & S2 & E2); try assumption.
      + apply (meas_step f fo); [lia|lia|exact M].
      + destruct S as (a & _). rewrite a. exact K.
      + apply (lru_above_same st); [exact S|]. apply (lru_above_mono st fo); [exact A|lia].
      + exists st2. split; [|exact E2].
        destruct S as (a & b & c), S2 as (a2 & b2 & c2). repeat split; congruence.
  Qed.

  Definition okres (R : sibres) : Prop := R = SDone true \/ exists x, R = SFound x.

  (* the first dated line, complete inside block zero, with all-zero counts *)
  Lemma LA_first st fo b1 e1 dt1 r : nd fo = Some (b1, e1, dt1, r) -> e1 < bz -> CZ st -> lru_above st fo ->
    (forall b2 e2 dt2 r2, nd (e1 + 1) = Some (b2, e2, dt2, r2) -> dbr r (slice f b2 (e2 + 1)) <> None) ->
    exists st' R, LA st fo = (st', R) /\ okres R /\ Inv r st'.
  Proof.
    intros H E1 (C1 & C2) A U.
    destruct (nd_facts _ _ _ _ _ H) as (G1 & G2 & G3 & G4 & G5 & G6).
    destruct (LA_skip (S (length f)) fo st b1 e1 dt1 r) as (st1 & S & E); try assumption.
    { apply meas_len0. } { rewrite C1. apply keys_init. }
    rewrite E. rewrite LA_eq by exact HB.
    assert (L : b1 < lenN f) by lia.
    rewrite flb_in_b0; [|exact HB|exact L|unfold bz in E1; rewrite <- G4; exact E1].
    rewrite <- G4.
    destruct S as (S1 & S2 & S3).
    destruct (dany_some_in _ _ _ G5) as (Ir & Dr).
    destruct (only_incr_zero rows ND r Ir) as (c' & CI & O').
    destruct (pc_some st1 b1 (e1 + 1) dt1 r c') as (st2 & E2 & T1 & T2 & T3).
    { rewrite S2. apply A. lia. }
    { rewrite S1, C1, pp_zero. exact G5. }
    { rewrite S1, C1. exact CI. }
    rewrite E2. cbv beta iota.
    assert (I2 : Inv r st2) by (split; [congruence|rewrite T1; exact O']).
    destruct (e1 =? lenN f - 1).
    - exists st2, (SFound (e1 + 1)). split; [reflexivity|]. split; [right; eexists; reflexivity|exact I2].
    - destruct (LB_inv r (S (length f)) (e1 + 1) st2 e1) as (st3 & o & E3 & I3); try assumption.
      { apply meas_len0. }
      { intros k Kk. rewrite T2. apply lru_find_put_other; [lia|]. rewrite S2. apply A. lia. }
      rewrite E3. destruct o as [x|].
      + exists st3, (SFound x). split; [reflexivity|]. split; [right; eexists; reflexivity|exact I3].
      + exists st3, (SDone true). split; [reflexivity|]. split; [left; reflexivity|exact I3].
  Qed.

  (* the same, when the second dated line is complete inside block zero too: Found, at its offset *)
  Lemma LA_first2 st fo b1 e1 dt1 r b2 e2 dt2 r2 dtr :
    nd fo = Some (b1, e1, dt1, r) -> CZ st -> lru_above st fo ->
    nd (e1 + 1) = Some (b2, e2, dt2, r2) -> e2 < bz -> dbr r (slice f b2 (e2 + 1)) = Some dtr ->
    exists st', LA st fo = (st', SFound b2) /\ Inv r st' /\
                lru_find b2 (p_lru st') = Some (dtr, r) /\ lru_above st' (b2 + 1).
  Proof.
    intros H (C1 & C2) A H2 E2 DR.
    destruct (nd_facts _ _ _ _ _ H) as (G1 & G2 & G3 & G4 & G5 & G6).
    destruct (nd_facts _ _ _ _ _ H2) as (F1 & F2 & F3 & F4 & F5 & F6).
    assert (E1 : e1 < bz) by lia.
    destruct (LA_skip (S (length f)) fo st b1 e1 dt1 r) as (st1 & S & E); try assumption.
    { apply meas_len0. } { rewrite C1. apply keys_init. }
    rewrite E. rewrite LA_eq by exact HB.
    assert (L : b1 < lenN f) by lia.
    rewrite flb_in_b0; [|exact HB|exact L|unfold bz in E1; rewrite <- G4; exact E1].
    rewrite <- G4.
    destruct S as (S1 & S2 & S3).
    destruct (dany_some_in _ _ _ G5) as (Ir & Dr).
    destruct (only_incr_zero rows ND r Ir) as (c' & CI & O').
    destruct (pc_some st1 b1 (e1 + 1) dt1 r c') as (st2 & E3 & T1 & T2 & T3).
    { rewrite S2. apply A. lia. }
    { rewrite S1, C1, pp_zero. exact G5. }
    { rewrite S1, C1. exact CI. }
    rewrite E3. cbv beta iota.
    assert (I2 : Inv r st2) by (split; [congruence|rewrite T1; exact O']).
    destruct (N.eqb_spec e1 (lenN f - 1)) as [X|X]; [lia|].
    destruct (LB_reach r (S (length f)) (e1 + 1) st2 e1 b2 e2 dt2 r2 dtr) as (st3 & E4 & I3 & Q1 & Q2); try assumption.
    { apply meas_len0. }
    { intros k Kk. rewrite T2. apply lru_find_put_other; [lia|]. rewrite S2. apply A. lia. }
    rewrite E4. exists st3. split; [reflexivity|]. split; [exact I3|]. split; [exact Q1|exact Q2].
  Qed.

  (* the second message: its head line was parsed as the line that ended the first message (cache hit) *)
  Lemma LA_hit r st b2 v : b2 < lenN f -> line_end f b2 < bz -> lru_find b2 (p_lru st) = Some v ->
    Inv r st -> lru_above st (b2 + 1) ->
    (forall b3 e3 dt3 r3, nd (line_end f b2 + 1) = Some (b3, e3, dt3, r3) -> dbr r (slice f b3 (e3 + 1)) <> None) ->
    exists st' R, LA st b2 = (st', R) /\ okres R /\ Inv r st'.
  Proof.
    intros L E2 Hh I A U.
    pose proof (line_end_ge f b2 L) as LG.
    rewrite LA_eq by exact HB.
    rewrite flb_in_b0; [|exact HB|exact L|exact E2].
    destruct (pc_hit st b2 (line_end f b2 + 1) v Hh) as (st1 & E & S1 & S2 & S3).
    rewrite E. cbv beta iota.
    assert (I1 : Inv r st1) by (destruct I as (a & b); split; [congruence|rewrite S1; exact b]).
    destruct (line_end f b2 =? lenN f - 1).
    - exists st1, (SFound (line_end f b2 + 1)). split; [reflexivity|]. split; [right; eexists; reflexivity|exact I1].
    - destruct (LB_inv r (S (length f)) (line_end f b2 + 1) st1 (line_end f b2)) as (st3 & o & E3 & I3); try assumption.
      { apply meas_len0. }
      { intros k Kk. rewrite S3. cbn [lru_find]. destruct (N.eqb_spec b2 k); [lia|].
        rewrite lru_find_del. destruct (b2 =? k); [reflexivity|]. apply A. lia. }
      rewrite E3. destruct o as [x|].
      + exists st3, (SFound x). split; [reflexivity|]. split; [right; eexists; reflexivity|exact I3].
      + exists st3, (SDone true). split; [reflexivity|]. split; [left; reflexivity|exact I3].
  Qed.
End Run.

(* ====================================================================================== *)
(* thresholds, line count, NUL rule, dt_patterns_analysis on single-row counts *)

(* ---------------------------------------------------------------- thresholds (regenerated tables) *)
Ltac cmp_all := repeat match goal with
  | |- context [?a <=? ?b] => destruct (N.leb_spec a b)
  | |- context [?a <? ?b] => destruct (N.ltb_spec a b)
  end.

Lemma thresholds_small x : x < syslog_sz_max ->
  range_lookup line_min_map x = Some 1 /\ range_lookup sysline_min_map x = Some 1.
Proof.
  unfold line_min_map, sysline_min_map, syslog_sz_max. intro H. cbn [range_lookup].
  cmp_all; cbn [andb]; try lia; split; reflexivity.
Qed.

Lemma thresholds_big x : syslog_sz_max <= x -> x <= blocksz_max ->
  range_lookup line_min_map x = Some 3 /\ range_lookup sysline_min_map x = Some 2.
Proof.
  unfold line_min_map, sysline_min_map, syslog_sz_max, blocksz_max. intros H1 H2. cbn [range_lookup].
  cmp_all; cbn [andb]; try lia; split; reflexivity.
Qed.

Lemma consts_ok : bytes_min <= sp_blocksz_min /\ 0 < bytes_min /\ 0 < sp_blocksz_min /\ N.to_nat dt_pattern_max = 1%nat.
Proof. repeat split. all: vm_compute; congruence. Qed.

(* ---------------------------------------------------------------- the line count *)
Lemma bzl_done k bs f fo n : bz_lines k bs f fo n n = n.
Proof. destruct k; cbn [bz_lines]; [reflexivity|]. rewrite N.leb_refl. reflexivity. Qed.

Lemma bzl_small k bs (f : file) : 0 < bs -> 0 < lenN f -> bz_lines (S k) bs f 0 0 1 = 1.
Proof.
  intros HB L. cbn [bz_lines]. change (1 <=? 0) with false. cbv iota.
  rewrite flb_spec by assumption. unfold flb_form.
  destruct (_ =? _).
  - destruct (negb _); [reflexivity|]. apply bzl_done.
  - unfold block_index_at_file_offset, block_offset_at_file_offset, file_offset_at_block_offset.
    rewrite N.eqb_refl. rewrite Bool.andb_false_r. reflexivity.
Qed.

Lemma bzl_big k bs (f : file) : 0 < bs ->
  line_end f 0 + 1 < lenN f -> line_end f (line_end f 0 + 1) + 1 < N.min bs (lenN f) ->
  bz_lines (S (S (S k))) bs f 0 0 3 = 3.
Proof.
  intros HB L1 L2.
  set (e0 := line_end f 0) in *. set (e1 := line_end f (e0 + 1)) in *.
  assert (G0 : 0 < lenN f) by lia.
  pose proof (line_end_ge f (e0 + 1) L1) as G1. fold e1 in G1.
  cbn [bz_lines]. change (3 <=? 0) with false. cbv iota.
  rewrite flb_in_b0; [|exact HB|exact G0|fold e0; lia]. fold e0.
  unfold block_offset_at_file_offset.
  rewrite (N.div_small (e0 + 1) bs) by lia. rewrite N.eqb_refl. cbn [negb].
  change (3 <=? 0 + 1) with false. cbv iota.
  rewrite flb_in_b0; [|exact HB|exact L1|fold e1; lia]. fold e1.
  rewrite (N.div_small (e1 + 1) bs) by lia. rewrite N.eqb_refl. cbn [negb].
  change (3 <=? 0 + 1 + 1) with false. cbv iota.
  assert (L3 : e1 + 1 < lenN f) by lia.
  rewrite flb_spec by assumption. unfold flb_form.
  destruct (_ =? _).
  - destruct (negb _); [reflexivity|]. apply bzl_done.
  - unfold block_index_at_file_offset, block_offset_at_file_offset, file_offset_at_block_offset.
    rewrite (N.div_small (e1 + 1) bs) by lia.
    destruct (N.eqb_spec (e1 + 1 - 0 * bs) 0); [lia|]. reflexivity.
Qed.

(* ---------------------------------------------------------------- the NUL-bytes rule *)
Lemma all_zero_nth l i x : nthN l i = Some x -> x <> 0 -> all_zero l = false.
Proof.
  unfold all_zero, nthN. revert i. induction l as [|y l IH]; intros i H D.
  - destruct (N.to_nat i); discriminate.
  - cbn [forallb]. destruct (N.to_nat i) as [|j] eqn:E.
    + cbn in H. injection H as ->. destruct (N.eqb_spec x 0); [contradiction|reflexivity].
    + cbn in H. rewrite (IH (N.of_nat j)); [apply Bool.andb_false_r|rewrite Nnat.Nat2N.id; exact H|exact D].
Qed.

Lemma firstnN_firstnN {A} (l : list A) a b : firstnN a (firstnN b l) = firstnN (N.min a b) l.
Proof.
  unfold firstnN. rewrite firstn_firstn. f_equal. lia.
Qed.

(* the dated line [.. e] complete inside block zero: both prefixes agree on "all zero" *)
Lemma null_rule_agrees bs (f : file) e : 0 < bs -> e < N.min bs (lenN f) ->
  (nthN f e = Some NL \/ e = lenN f - 1) ->
  all_zero (firstnN bytes_null_max (block bs f 0)) = all_zero (firstnN bytes_null_max f).
Proof.
  intros HB E X. unfold block. rewrite N.mul_0_l, skipnN_0, firstnN_firstnN.
  destruct (N.le_gt_cases bytes_null_max bs) as [C|C]; [rewrite N.min_l by exact C; reflexivity|].
  rewrite N.min_r by lia.
  destruct (N.le_gt_cases (lenN f) bs) as [C2|C2].
  - rewrite !firstnN_all by lia. reflexivity.
  - destruct X as [X|X]; [|lia].
    rewrite (all_zero_nth (firstnN bs f) e NL); [|rewrite nthN_firstnN; destruct (N.ltb_spec e bs); [exact X|lia]|discriminate].
    rewrite (all_zero_nth (firstnN bytes_null_max f) e NL); [reflexivity| |discriminate].
    rewrite nthN_firstnN. destruct (N.ltb_spec e bytes_null_max); [exact X|lia].
Qed.

(* ---------------------------------------------------------------- dt_patterns_analysis on single-row counts *)
Lemma filter_none {A} (p : A -> bool) l : (forall x, In x l -> p x = false) -> filter p l = [].
Proof.
  induction l as [|x l IH]; intro H; [reflexivity|]. cbn [filter].
  rewrite (H x (or_introl eq_refl)). apply IH. intros y I. apply H. right. exact I.
Qed.

Lemma filter_single (p : N * N -> bool) c r n : NoDup (keys c) -> In (r, n) c -> p (r, n) = true ->
  (forall x, In x c -> x <> (r, n) -> p x = false) -> filter p c = [(r, n)].
Proof.
  induction c as [|[k m] c IH]; intros ND I PT PF; [destruct I|].
  cbn [keys map fst] in ND. inversion ND as [|? ? NI ND']; subst.
  cbn [filter]. destruct I as [I|I].
  - injection I as -> ->. rewrite PT. f_equal. apply filter_none.
    intros x Ix. apply PF; [right; exact Ix|]. intro Q. subst x. apply NI.
    unfold keys. apply in_map_iff. exists (r, n). split; [reflexivity|exact Ix].
  - assert (D : (k, m) <> (r, n)).
    { intro Q. injection Q as -> ->. apply NI. unfold keys. apply in_map_iff. exists (r, n). split; [reflexivity|exact I]. }
    rewrite (PF (k, m) (or_introl eq_refl) D). apply IH; try assumption.
    intros x Ix. apply PF. right. exact Ix.
Qed.

Lemma fold_max_spec (c : counts) : forall a m, (forall x, In x c -> snd x <= m) -> a <= m ->
  (a = m \/ exists x, In x c /\ snd x = m) -> fold_left (fun (a : N) (x : N * N) => N.max a (snd x)) c a = m.
Proof.
  induction c as [|x c IH]; intros a m U A E; cbn [fold_left].
  - destruct E as [E|(x & [] & _)]. exact E.
  - apply IH.
    + intros y I. apply U. right. exact I.
    + pose proof (U x (or_introl eq_refl)). lia.
    + destruct E as [E|(y & [I|I] & Ey)].
      * left. pose proof (U x (or_introl eq_refl)). lia.
      * subst y. left. lia.
      * right. exists y. split; assumption.
Qed.

Section An.
  Variable rows : list N.
  Hypothesis ND : NoDup rows.

  Lemma only_analysis r c : only rows r c ->
    exists n, 0 < n /\ in_use c = 1 /\ analysis c = Some [(r, n)] /\ chosen_row [(r, n)] = Some r.
  Proof.
    intros (K & I & Z & n & In_ & P). exists n. split; [exact P|].
    assert (NDk : NoDup (keys c)) by (rewrite K; exact ND).
    assert (OTH : forall x, In x c -> x <> (r, n) -> snd x = 0).
    { intros [k m] Ix Nx. cbn [snd]. destruct (N.eq_dec k r) as [->|D].
      - exfalso. apply Nx. f_equal. apply (keys_unique c r m n NDk Ix In_).
      - apply (Z k m Ix D). }
    split; [|split].
    - unfold in_use. rewrite (filter_single _ c r n NDk In_).
      + reflexivity.
      + cbn [snd]. destruct (N.ltb_spec 0 n); [reflexivity|lia].
      + intros x Ix Nx. rewrite (OTH x Ix Nx). reflexivity.
    - unfold analysis.
      assert (M : counts_max c = n).
      { unfold counts_max. apply fold_max_spec.
        - intros x Ix. assert (DX : x = (r, n) \/ x <> (r, n)).
          { destruct x as [k m]. destruct (N.eq_dec k r) as [->|]; [destruct (N.eq_dec m n) as [->|]|]; [left; reflexivity|right; congruence|right; congruence]. }
          destruct DX as [->|Nx]; [cbn; lia|rewrite (OTH x Ix Nx); lia].
        - lia.
        - right. exists (r, n). split; [exact In_|reflexivity]. }
      rewrite M. destruct (N.eqb_spec n 0); [lia|].
      rewrite (filter_single _ c r n NDk In_).
      + destruct consts_ok as (_ & _ & _ & ->). reflexivity.
      + cbn [snd]. apply N.leb_refl.
      + intros x Ix Nx. rewrite (OTH x Ix Nx). destruct (N.leb_spec n 0); [lia|reflexivity].
    - reflexivity.
  Qed.
End An.

(* ====================================================================================== *)
(* the sysline-count loop in the three regimes *)

Section Main.
  Variable dbr : N -> list N -> option Z.
  Variable rows : list N.
  Hypothesis ND : NoDup rows.
  Variables (bs : N) (f : file).
  Hypothesis HB : 0 < bs.

  Notation P := (parse_plain dbr).
  Notation BZ := (bz2_syslines P).
  Notation nd := (next_dated dbr rows f).
  Notation LA := (LA P bs f).
  Notation Inv := (Inv rows).
  Notation CZ := (CZ rows).
  Notation bz := (bz bs f).

  Lemma bz2_done k st fo n : BZ k bs f st fo n n = (st, n).
  Proof. destruct k; cbn [bz2_syslines]; [reflexivity|]. rewrite N.ltb_irrefl. reflexivity. Qed.

  Lemma bo0 : block_offset_at_file_offset 0 bs =? 0 = true.
  Proof. unfold block_offset_at_file_offset. rewrite N.div_0_l by lia. reflexivity. Qed.

  Lemma bz2_none k smin st : nd 0 = None -> keys (p_counts st) = rows -> lru_above st 0 ->
    exists st', BZ (S k) bs f st 0 0 smin = (st', 0).
  Proof.
    intros H K A. cbn [bz2_syslines]. destruct (0 <? smin); [|eexists; reflexivity].
    rewrite bo0. cbn [andb].
    change (sib2_loop_a P (S (length f)) bs f st 0) with (LA st 0).
    destruct (LA_none dbr rows bs f HB (S (length f)) 0 st) as (st' & E & _); try assumption.
    { apply meas_len0. }
    rewrite E. eexists; reflexivity.
  Qed.

  Lemma bz2_one k st b1 e1 dt1 r : nd 0 = Some (b1, e1, dt1, r) -> e1 < bz -> CZ st -> lru_above st 0 ->
    (forall b2 e2 dt2 r2, nd (e1 + 1) = Some (b2, e2, dt2, r2) -> dbr r (slice f b2 (e2 + 1)) <> None) ->
    exists st', BZ (S k) bs f st 0 0 1 = (st', 1) /\ Inv r st'.
  Proof.
    intros H E1 C A U. cbn [bz2_syslines]. change (0 <? 1) with true. rewrite bo0. cbn [andb].
    change (sib2_loop_a P (S (length f)) bs f st 0) with (LA st 0).
    destruct (LA_first dbr rows ND bs f HB st 0 b1 e1 dt1 r) as (st' & R & E & O & I); try assumption.
    rewrite E. destruct O as [->|(x & ->)].
    - exists st'. split; [reflexivity|exact I].
    - change (0 + 1) with 1. rewrite bz2_done. exists st'. split; [reflexivity|exact I].
  Qed.

  Lemma bz2_two k st b1 e1 dt1 r b2 e2 dt2 r2 dtr : nd 0 = Some (b1, e1, dt1, r) -> CZ st -> lru_above st 0 ->
    nd (e1 + 1) = Some (b2, e2, dt2, r2) -> e2 < bz -> dbr r (slice f b2 (e2 + 1)) = Some dtr ->
    (forall b3 e3 dt3 r3, nd (e2 + 1) = Some (b3, e3, dt3, r3) -> dbr r (slice f b3 (e3 + 1)) <> None) ->
    exists st', BZ (S (S k)) bs f st 0 0 2 = (st', 2) /\ Inv r st'.
  Proof.
    intros H C A H2 E2 DR U.
    destruct (nd_facts dbr rows bs f HB _ _ _ _ _ H2) as (F1 & F2 & F3 & F4 & F5 & F6).
    cbn [bz2_syslines]. change (0 <? 2) with true. rewrite bo0. cbn [andb].
    change (sib2_loop_a P (S (length f)) bs f st 0) with (LA st 0).
    destruct (LA_first2 dbr rows ND bs f HB st 0 b1 e1 dt1 r b2 e2 dt2 r2 dtr) as (st1 & E & I & Q1 & Q2); try assumption.
    rewrite E. change (0 + 1 <? 2) with true.
    assert (B2 : block_offset_at_file_offset b2 bs =? 0 = true).
    { unfold block_offset_at_file_offset. rewrite N.div_small; [reflexivity|]. unfold bz in E2. lia. }
    rewrite B2. cbn [andb].
    change (sib2_loop_a P (S (length f)) bs f st1 b2) with (LA st1 b2).
    destruct (LA_hit dbr rows ND bs f HB r st1 b2 (dtr, r)) as (st2 & R & E3 & O & I2); try assumption.
    { lia. } { rewrite <- F4. exact E2. } { rewrite <- F4. exact U. }
    rewrite E3. destruct O as [->|(x & ->)].
    - exists st2. split; [reflexivity|exact I2].
    - change (0 + 1 + 1) with 2. rewrite bz2_done. exists st2. split; [reflexivity|exact I2].
  Qed.
End Main.
