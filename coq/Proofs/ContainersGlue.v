(* Proofs/ContainersGlue.v — what BlockReader::new derives for bz2 / lz4 / xz / tar, what
   process_path_tar lists, what decompress_to_ntf extracts; mtime rules.  Decoders and the tar
   crate's entry list are oracles (Section variables / universally quantified lists). *)
From Coq Require Import String Lia ZArith ZifyN ZifyNat ZifyBool.
From S4.Base Require Import Bytes.
From S4.Spec Require Import AssembleSpec ContainersSpec.
From S4.Model Require Import Assemble Containers.
From S4.Proofs Require Import AssembleProofs AssembleTheorems.
Open Scope N_scope.

(* ------------------------------------------------------------------ bz2 / lz4: the size pre-pass *)
Section Prepass.
  Variable dstate : Type.
  Variable read : dstate -> N -> dstate * list N.
  Variable remaining : dstate -> list N.
  Variable mkdec : bytes -> dstate.
  Hypothesis HC : contract dstate read remaining.

  Theorem prepass_new_thm : forall f,
    prepass_new dstate read mkdec (S (length (remaining (mkdec f)))) f = COk (len (remaining (mkdec f))).
  Proof.
    intro f. unfold prepass_new.
    destruct (drain_thm dstate read remaining HC PREPASS_BUF (mkdec f) ltac:(unfold PREPASS_BUF; lia)) as [_ H].
    rewrite H. reflexivity.
  Qed.

  (* bz2: files under 12 bytes are refused, otherwise the size is the decoder's output length *)
  Theorem bz2_new_thm : forall f,
    bz2_new dstate read mkdec (S (length (remaining (mkdec f)))) f
    = if lenN f <? 12 then CErr CBz2TooSmall else COk (len (remaining (mkdec f))).
  Proof. intro f. unfold bz2_new. destruct (lenN f <? 12); [reflexivity|apply prepass_new_thm]. Qed.

  Theorem lz4_new_thm : forall f,
    lz4_new dstate read mkdec (S (length (remaining (mkdec f)))) f = COk (len (remaining (mkdec f))).
  Proof. intro f. apply prepass_new_thm. Qed.

  (* decompress_to_ntf: the temporary file holds exactly the decoder's output; its length is the size
     returned; the mtime is the header's when there is one and it is not 0, else the file's *)
  Theorem ntf_copy_thm : forall src,
    ntf_copy dstate read mkdec (S (length (remaining (mkdec src)))) src = COk (remaining (mkdec src)).
  Proof.
    intro src. unfold ntf_copy.
    destruct (drain_thm dstate read remaining HC NTF_BUF (mkdec src) ltac:(unfold NTF_BUF; lia)) as [H _].
    rewrite H. reflexivity.
  Qed.
End Prepass.

(* ------------------------------------------------------------------------------------------- xz *)
(* the 14 bytes s4 inspects itself *)
Theorem xz_precheck_ok_thm : forall s0 s1 c0 c1 c2 c3 b0 b1 rest,
  N.land s1 0xF0 = 0 ->
  xz_precheck (XZ_MAGIC ++ [s0; s1; c0; c1; c2; c3; b0; b1] ++ rest) = None.
Proof.
  intros. unfold xz_precheck, XZ_MAGIC. cbn [app firstn].
  unfold take. cbn [length Nat.ltb Nat.leb firstn skipn beqb N.eqb Pos.eqb andb negb byte_at nth].
  rewrite H. reflexivity.
Qed.

Theorem xz_precheck_reserved_thm : forall s0 s1 rest,
  N.land s1 0xF0 <> 0 -> xz_precheck (XZ_MAGIC ++ [s0; s1] ++ rest) = Some CXzReserved.
Proof.
  intros. unfold xz_precheck, XZ_MAGIC. cbn [app firstn].
  unfold take. cbn [length Nat.ltb Nat.leb firstn skipn beqb N.eqb Pos.eqb andb negb byte_at nth].
  apply N.eqb_neq in H. rewrite H. reflexivity.
Qed.

Theorem xz_precheck_short_thm : forall f, (length f < 6)%nat -> xz_precheck f = Some CXzShort.
Proof.
  intros f H. unfold xz_precheck, take. rewrite firstn_length.
  replace (Nat.min 1024 (length f) <? 6)%nat with true by (symmetry; apply Nat.ltb_lt; lia). reflexivity.
Qed.

(* one stream, then end of input: the pre-sliced blocks are the xz_slices of the plain bytes (see
   theorem xz_slices) and filesz_actual = |plain| *)
Theorem xz_new_single_stream_thm : forall bs f plain,
  0 < bs -> xz_precheck f = None ->
  exists sl, Assemble.xz_slices bs plain = Some sl
             /\ xz_new bs f [XzOk plain; XzEofErr] = COk (sl, len plain).
Proof.
  intros bs f plain Hbs Hpre.
  destruct (xz_slices_thm bs plain Hbs) as (sl & Hsl & _ & _ & _ & Hsz & _).
  exists sl. split; [exact Hsl|].
  unfold xz_new. rewrite Hpre. cbn [xz_new_loop app].
  destruct (is_nil plain) eqn:En.
  - destruct plain; [|discriminate]. unfold Assemble.xz_slices in Hsl. cbn in Hsl. inversion Hsl. reflexivity.
  - rewrite Hsl. rewrite app_nil_r, N.add_0_l, Hsz. reflexivity.
Qed.

(* any failure of the decoder other than "input exhausted" makes new fail — this is what happens
   to a multi-stream file with lzma-rs 0.3.0 ("Unexpected data after last XZ block") *)
Theorem xz_new_decoder_error_thm : forall bs f outs,
  xz_precheck f = None -> xz_new bs f (XzOtherErr :: outs) = CErr CDecoder.
Proof. intros. unfold xz_new. rewrite H. reflexivity. Qed.

(* ------------------------------------------------------------------------------------ mtime() *)
Theorem mtime_of_header_thm : forall m,
  mtime_of_header m = if m =? 0 then MFile else if I64_MAX <? m then MPanic else MSecs m.
Proof. reflexivity. Qed.

(* tar (after the repair): whatever a header's mtime field holds, mtime() never panics; a time that
   SystemTime / chrono cannot represent is treated like "no time in the header" *)
Theorem tar_mtime_total_thm : forall m,
  tar_mtime_of_header m = if (m =? 0) || (CHRONO_MAX_SECS <? m + 86400) then MFile else MSecs m.
Proof.
  intro m. unfold tar_mtime_of_header, seconds_to_systemtime_checked.
  destruct (m =? 0); [reflexivity|]. destruct (CHRONO_MAX_SECS <? m + 86400); reflexivity.
Qed.
Theorem tar_mtime_never_panics_thm : forall m, tar_mtime_of_header m <> MPanic.
Proof. intro m. rewrite tar_mtime_total_thm. destruct ((m =? 0) || (CHRONO_MAX_SECS <? m + 86400)); discriminate. Qed.
(* the gz arm cannot panic either: MTIME is a u32 *)
Theorem gz_mtime_never_panics_thm : forall m, m < 2 ^ 32 -> mtime_of_header m <> MPanic.
Proof.
  intros m H. unfold mtime_of_header, seconds_to_systemtime. destruct (m =? 0); [discriminate|].
  replace (I64_MAX <? m) with false; [discriminate|]. symmetry. apply N.ltb_ge. unfold I64_MAX. change (2 ^ 32) with 4294967296 in H. lia.
Qed.

(* ------------------------------------------------------------------------------------------ tar *)
Definition item_path (it : tar_item) : option bytes :=
  match it with TItem e => toe_path e | TItemErr => None end.

Lemma tar_find_first sub : forall es base last idx e sz,
  nth_error es idx = Some (TItem e) -> toe_path e = Some sub -> toe_hsize e = Some sz ->
  (forall j it, (j < idx)%nat -> nth_error es j = Some it -> item_path it <> Some sub) ->
  tar_find sub base last es
  = COk (base + N.of_nat idx, sz, match toe_mtime e with Some m => m | None => 0 end).
Proof.
  induction es as [|it es IH]; intros base last idx e sz Hn Hp Hs Hfirst.
  - destruct idx; discriminate.
  - destruct idx as [|idx].
    + cbn in Hn. inversion Hn; subst it. cbn [tar_find]. rewrite Hp, beqb_refl, Hs.
      rewrite N.add_0_r. reflexivity.
    + cbn in Hn.
      assert (Hne : item_path it <> Some sub) by (apply (Hfirst 0%nat it); [lia|reflexivity]).
      assert (Hrec : tar_find sub (base + 1) base es
                     = COk (base + 1 + N.of_nat idx, sz, match toe_mtime e with Some m => m | None => 0 end)).
      { apply IH; try assumption. intros j it' Hj Hit'. apply (Hfirst (S j) it'); [lia|exact Hit']. }
      replace (base + N.of_nat (S idx)) with (base + 1 + N.of_nat idx) by lia.
      destruct it as [e0|]; cbn [tar_find]; [|exact Hrec].
      cbn [item_path] in Hne. destruct (toe_path e0) as [p|]; [|exact Hrec].
      destruct (beqb sub p) eqn:Eb; [|exact Hrec].
      apply beqb_eq in Eb. subst p. congruence.
Qed.

(* member addressing: "archive|member" selects the FIRST entry whose path equals the text after the
   last '|', whatever the kinds of the entries before it (directories, links, unreadable entries);
   its index, the size from its header and its mtime are what the reader keeps *)
Theorem tar_new_selects_first_thm : forall archive member es idx e sz,
  ~ In SUBPATH_SEP member ->
  nth_error es idx = Some (TItem e) -> toe_path e = Some member -> toe_hsize e = Some sz ->
  (forall j it, (j < idx)%nat -> nth_error es j = Some it -> item_path it <> Some member) ->
  tar_new (archive ++ SUBPATH_SEP :: member) es
  = COk (mk_tard archive (N.of_nat idx) sz (match toe_mtime e with Some m => m | None => 0 end)).
Proof.
  intros archive member es idx e sz Hsep Hn Hp Hs Hfirst.
  unfold tar_new. rewrite rsplit_once_last by exact Hsep.
  rewrite (tar_find_first member es 0 0 idx e sz Hn Hp Hs Hfirst). rewrite N.add_0_l. reflexivity.
Qed.

(* no entry with that path: size 0 (the reader then answers Done everywhere), mtime 0 *)
Lemma tar_find_none sub : forall es base last,
  (forall it, In it es -> item_path it <> Some sub) ->
  exists idx, tar_find sub base last es = COk (idx, 0, 0).
Proof.
  induction es as [|it es IH]; intros base last Hno.
  - exists last. reflexivity.
  - assert (Hit : item_path it <> Some sub) by (apply Hno; left; reflexivity).
    destruct (IH (base + 1) base) as [idx Hidx]; [intros it' Hin; apply Hno; right; exact Hin|].
    exists idx. destruct it as [e0|]; cbn [tar_find]; [|exact Hidx].
    cbn [item_path] in Hit. destruct (toe_path e0) as [p|]; [|exact Hidx].
    destruct (beqb sub p) eqn:Eb; [|exact Hidx]. apply beqb_eq in Eb. subst p. congruence.
Qed.

Theorem tar_new_no_member_thm : forall archive member es,
  ~ In SUBPATH_SEP member -> (forall it, In it es -> item_path it <> Some member) ->
  exists idx, tar_new (archive ++ SUBPATH_SEP :: member) es = COk (mk_tard archive idx 0 0).
Proof.
  intros archive member es Hsep Hno. unfold tar_new. rewrite rsplit_once_last by exact Hsep.
  destruct (tar_find_none member es 0 0 Hno) as [idx H]. exists idx. rewrite H. reflexivity.
Qed.

(* the richer model agrees with Model/Assemble.tar_open on entry lists without unreadable entries *)
Definition item_of_entry (e : tar_entry) : tar_item :=
  TItem (mk_toe (Some (fst e)) 48 (lenN (snd e)) (Some (lenN (snd e))) None (snd e)).
Lemma tar_find_select sub : forall es base last,
  last = base - 1 ->
  tar_find sub base last (map item_of_entry es)
  = let '(idx, sz) := tar_select sub base es in COk (idx, sz, 0).
Proof.
  induction es as [|[name content] es IH]; intros base last Hl.
  - cbn. subst last. reflexivity.
  - cbn [map item_of_entry tar_find toe_path toe_hsize toe_mtime fst snd tar_select].
    destruct (beqb sub name); [reflexivity|]. apply IH. lia.
Qed.
Theorem tar_new_refines_tar_open_thm : forall ps es,
  match tar_open ps es with
  | AOk (path, idx, sz) => tar_new ps (map item_of_entry es) = COk (mk_tard path idx sz 0)
  | AErr _ => tar_new ps (map item_of_entry es) = CErr CNoSeparator
  | _ => False
  end.
Proof.
  intros ps es. unfold tar_open, tar_new. destruct (rsplit_once SUBPATH_SEP ps) as [[path sub]|]; [|reflexivity].
  rewrite (tar_find_select sub es 0 0) by reflexivity.
  destruct (tar_select sub 0 es) as [idx sz]. reflexivity.
Qed.

(* process_path_tar: exactly the regular entries (typeflag '0' or NUL) with a readable path are
   listed, in archive order, as archive|path — directories, links, devices, fifos are skipped *)
Definition listed_of (archive : bytes) (it : tar_item) : list ppr :=
  match it with
  | TItemErr => [PFileErr]
  | TItem e =>
      if tar_is_file (toe_type e) then
        match toe_path e with
        | None => [PFileErr]
        | Some p => [if toe_esize e =? 0 then PEmpty (archive ++ SUBPATH_SEP :: p)
                     else PListed (archive ++ SUBPATH_SEP :: p)]
        end
      else []
  end.
Theorem process_path_tar_thm : forall archive es,
  process_path_tar_m archive es = flat_map (listed_of archive) es.
Proof.
  intros archive es. induction es as [|it es IH]; [reflexivity|].
  cbn [flat_map]. rewrite <- IH. destruct it as [e|]; cbn [process_path_tar_m listed_of]; [|reflexivity].
  destruct (tar_is_file (toe_type e)); cbn [negb]; [|reflexivity].
  destruct (toe_path e); reflexivity.
Qed.

Theorem process_path_tar_lists_thm : forall archive es p,
  In (PListed (archive ++ SUBPATH_SEP :: p)) (process_path_tar_m archive es)
  <-> exists e, In (TItem e) es /\ tar_is_file (toe_type e) = true /\ toe_path e = Some p /\ toe_esize e <> 0.
Proof.
  intros archive es p. rewrite process_path_tar_thm, in_flat_map. split.
  - intros [it [Hin Hl]]. destruct it as [e|]; cbn [listed_of] in Hl.
    + destruct (tar_is_file (toe_type e)) eqn:Ef; [|destruct Hl].
      destruct (toe_path e) as [q|] eqn:Ep; [|destruct Hl as [Hl|[]]; discriminate].
      destruct (toe_esize e =? 0) eqn:Ez; destruct Hl as [Hl|[]]; try discriminate.
      inversion Hl as [Happ]. apply app_inv_head in Happ. inversion Happ; subst q.
      exists e. repeat split; try assumption. apply N.eqb_neq. exact Ez.
    + destruct Hl as [Hl|[]]; discriminate.
  - intros [e [Hin [Hf [Hp Hz]]]]. exists (TItem e). split; [exact Hin|].
    cbn [listed_of]. rewrite Hf, Hp. apply N.eqb_neq in Hz. rewrite Hz. left. reflexivity.
Qed.

Section TarWhole.
  Variable dstate : Type.
  Variable read : dstate -> N -> dstate * list N.
  Variable remaining : dstate -> list N.
  Variable mkdec : bytes -> dstate.
  Hypothesis HC : contract dstate read remaining.
  Hypothesis Hdec : forall data, remaining (mkdec data) = data.   (* tar::Entry reads the member's data *)

  (* the member's bytes are exactly its data: for every entry list, the member that new selects is
     read as chunk bs data, provided the header size is the data length (the crate hands out
     exactly `size` bytes and skips the padding) *)
  Theorem tar_member_blocks_thm : forall archive member es idx e bs,
    ~ In SUBPATH_SEP member -> 0 < bs ->
    nth_error es idx = Some (TItem e) -> toe_path e = Some member ->
    toe_hsize e = Some (len (toe_data e)) ->
    (forall j it, (j < idx)%nat -> nth_error es j = Some it -> item_path it <> Some member) ->
    exists d, tar_new (archive ++ SUBPATH_SEP :: member) es = COk d
      /\ td_path d = archive /\ td_filesz d = len (toe_data e)
      /\ forall i, tar_read_block dstate read mkdec bs es d i
                   = if (N.to_nat i <? length (chunk bs (toe_data e)))%nat
                     then BFound (nth (N.to_nat i) (chunk bs (toe_data e)) []) else BDone.
  Proof.
    intros archive member es idx e bs Hsep Hbs Hn Hp Hs Hfirst.
    eexists. split; [apply (tar_new_selects_first_thm archive member es idx e _ Hsep Hn Hp Hs Hfirst)|].
    cbn [td_path td_filesz td_index]. split; [reflexivity|]. split; [reflexivity|].
    intro i. unfold tar_read_block. cbn [td_filesz td_index]. rewrite Nat2N.id, Hn.
    set (data := toe_data e). set (n := len data).
    pose proof (assemble_tar_member_thm dstate read remaining HC bs n (mkdec data) data Hbs (Hdec data) eq_refl i) as Ht.
    rewrite Ht. unfold in_range.
    destruct (N.to_nat i <? length (chunk bs data))%nat eqn:E.
    - apply Nat.ltb_lt in E. apply chunk_index_range in E; [|exact Hbs]. fold n in E.
      assert (0 < n) by lia.
      assert (Hi : i <= blockoffset_last n bs) by (apply last_index_range; lia).
      replace (blockoffset_last n bs <? i) with false by (symmetry; apply N.ltb_ge; exact Hi).
      replace (n =? 0) with false by (symmetry; apply N.eqb_neq; lia).
      replace (0 <? n) with true by (symmetry; apply N.ltb_lt; lia).
      replace (i <=? blockoffset_last n bs) with true by (symmetry; apply N.leb_le; exact Hi).
      cbn [andb bres_of]. rewrite nth_chunk by exact Hbs. reflexivity.
    - apply Nat.ltb_ge in E.
      assert (Hno : ~ i * bs < n) by (intro Hc; apply (chunk_index_range bs data i Hbs) in Hc; lia).
      destruct (blockoffset_last n bs <? i) eqn:E1; [reflexivity|].
      destruct (n =? 0) eqn:E0; [reflexivity|]. apply N.eqb_neq in E0. apply N.ltb_ge in E1.
      exfalso. apply Hno. apply last_index_range; lia.
  Qed.

  (* decompress_to_ntf on a tar member: the extracted bytes are the member's data *)
  Theorem ntf_tar_thm : forall archive member es idx e,
    ~ In SUBPATH_SEP member ->
    nth_error es idx = Some (TItem e) -> toe_path e = Some member -> toe_hsize e <> None ->
    (forall j it, (j < idx)%nat -> nth_error es j = Some it -> item_path it <> Some member) ->
    ntf_tar dstate read mkdec (S (length (toe_data e))) (archive ++ SUBPATH_SEP :: member) es
    = COk (Some (toe_data e,
                 let m := match toe_mtime e with Some m => m | None => 0 end in
                 if m =? 0 then None
                 else match seconds_to_systemtime_checked m with Some s => Some (MSecs s) | None => None end)).
  Proof.
    intros archive member es idx e Hsep Hn Hp Hs Hfirst.
    unfold ntf_tar. rewrite rsplit_once_last by exact Hsep.
    assert (Hf : tar_first member es = Some e).
    { clear Hs. revert idx Hn Hfirst. induction es as [|it es IH]; intros idx Hn Hfirst; [destruct idx; discriminate|].
      destruct idx as [|idx].
      - cbn in Hn. inversion Hn; subst it. cbn [tar_first]. rewrite Hp, beqb_refl. reflexivity.
      - cbn in Hn. assert (Hne : item_path it <> Some member) by (apply (Hfirst 0%nat it); [lia|reflexivity]).
        assert (Hrec : tar_first member es = Some e).
        { apply (IH idx Hn). intros j it' Hj Hit'. apply (Hfirst (S j) it'); [lia|exact Hit']. }
        destruct it as [e0|]; cbn [tar_first]; [|exact Hrec].
        cbn [item_path] in Hne. destruct (toe_path e0) as [p|]; [|exact Hrec].
        destruct (beqb member p) eqn:Eb; [|exact Hrec]. apply beqb_eq in Eb. exfalso. apply Hne. rewrite Eb. reflexivity. }
    rewrite Hf. destruct (toe_hsize e); [|congruence].
    pose proof (ntf_copy_thm dstate read remaining mkdec HC (toe_data e)) as Hc.
    rewrite Hdec in Hc. rewrite Hc. reflexivity.
  Qed.
End TarWhole.

(* two members with the same path: both are listed under the same name, both readers select the
   FIRST — the second member's bytes can never be read (tar -r / --append archives) *)
Theorem tar_duplicate_path_refuted_thm :
  exists (archive p : bytes) (e1 e2 : tar_oent),
    let es := [TItem e1; TItem e2] in
    toe_data e1 <> toe_data e2
    /\ process_path_tar_m archive es = [PListed (archive ++ SUBPATH_SEP :: p); PListed (archive ++ SUBPATH_SEP :: p)]
    /\ exists d, tar_new (archive ++ SUBPATH_SEP :: p) es = COk d /\ td_index d = 0 /\ td_filesz d = len (toe_data e1).
Proof.
  exists [97], [120],
         (mk_toe (Some [120]) 48 1 (Some 1) (Some 100) [49]),
         (mk_toe (Some [120]) 48 2 (Some 2) (Some 200) [50; 50]).
  cbv zeta. split; [discriminate|]. split; [reflexivity|].
  eexists. split; [reflexivity|]. split; reflexivity.
Qed.

(* the hypotheses of tar_new_selects_first / tar_member_blocks are satisfiable: a directory, a link
   and an unreadable entry before the wanted member *)
Example tar_glue_example :
  let es := [TItem (mk_toe (Some [100; 47]) 53 0 (Some 0) (Some 5) []);
             TItem (mk_toe (Some [108]) 50 0 (Some 0) (Some 5) []);
             TItem (mk_toe None 48 3 (Some 3) (Some 5) [1; 2; 3]);
             TItem (mk_toe (Some [100; 47; 120]) 48 5 (Some 5) (Some 77) [10; 11; 12; 13; 14])] in
  tar_new ([97; 124; 100; 47; 120]) es = COk (mk_tard [97] 3 5 77)
  /\ process_path_tar_m [97] es = [PFileErr; PListed [97; 124; 100; 47; 120]]
  /\ map (tar_read_block sched_state sched_read (fun d => (d, [1; 1])) 2 es (mk_tard [97] 3 5 77)) [0; 1; 2; 3]
     = [BFound [10; 11]; BFound [12; 13]; BFound [14]; BDone].
Proof. cbv zeta. repeat split; vm_compute; reflexivity. Qed.
