(* Proofs/RegexComp.v — C04, regex stage: pattern competition in the useful direction.
   [refuted r' fs] (Model/RegexNum.v, decidable on the regenerated ASTs) is sound: a refuted row matches NO
   line whose timestamp items are texts of the family fs.  Hence, for the lines of a numeric row r, only the
   rows listed by [competitors] can date a line before r does; when that list is empty, the first row (in any
   try order whose rows before r are earlier rows) that dates each line is r itself — the row block-zero
   analysis (Model/Gate.find_dt / chosen_row: highest count, lowest index) then keeps. *)
From Coq Require Import Lia String.
From S4.Base Require Import Bytes.
From S4.Model Require Import Calendar Normalise Regex RegexPlan RegexDt RegexNum.
From S4.Model Require Gate.
From S4.Gen Require Import DatetimeTables RegexTables.
From S4.Proofs Require Import RegexProofs RegexSim RegexUniv RegexNumProofs.
Close Scope string_scope.
Open Scope list_scope.
Open Scope N_scope.

(* ---- an anchored pattern cannot match away from offset 0 *)
Lemma anchored_nomatch A F : forall r s (k : cst -> res A),
  starts_bol r = true -> c_pos s <> 0 -> cm A F r s k = NoMatch.
Proof.
  unfold cm. induction r; intros s k H Hp; simpl in H; try discriminate; simpl.
  - unfold do_test, c_at_bol. destruct (c_pos s =? 0) eqn:E; [apply N.eqb_eq in E; contradiction|reflexivity].
  - apply IHr1; auto.
  - destruct (starts_bol r1) eqn:E1; [|discriminate]. rewrite (IHr1 s k eq_refl Hp). apply IHr2; auto.
  - apply IHr; auto.
Qed.

Lemma search_from_anchored F r : starts_bol r = true -> forall rem0 pos, pos <> 0 ->
  search_from F r pos rem0 = NoMatch.
Proof.
  intros H. induction rem0 as [|b l IH]; intros pos Hp; simpl; unfold match_at;
    rewrite (anchored_nomatch cst F r _ accept H) by (simpl; exact Hp); auto.
  apply IH. lia.
Qed.

(* ---- splitting a set keeps every concretisation *)
Lemma conc_split : forall sh vs t, split_first sh = Some vs -> conc sh TAny t -> exists v, In v vs /\ conc v TAny t.
Proof.
  induction sh as [|y sh IH]; intros vs t H C; simpl in H; [discriminate|].
  inversion C as [| | |y' l' tl' b t' Hin C' E1 E2 E3]; subst.
  destruct y as [x|set].
  - destruct (split_first sh) as [vs0|] eqn:E; [|discriminate]. inversion H; subst.
    destruct (IH vs0 t' eq_refl C') as (v & Hv & Cv). exists (SyB x :: v). split; [apply in_map; auto|].
    constructor; auto.
  - destruct set as [|a [|b0 s]].
    + destruct (split_first sh) as [vs0|] eqn:E; [|discriminate]. inversion H; subst.
      destruct (IH vs0 t' eq_refl C') as (v & Hv & Cv). exists (SyS [] :: v). split; [apply in_map; auto|].
      constructor; auto.
    + destruct (split_first sh) as [vs0|] eqn:E; [|discriminate]. inversion H; subst.
      destruct (IH vs0 t' eq_refl C') as (v & Hv & Cv). exists (SyS [a] :: v). split; [apply in_map; auto|].
      constructor; auto.
    + injection H as H. subst vs. exists (SyB b :: sh). split.
      * change ((SyB a :: sh) :: (SyB b0 :: sh) :: map (fun x : N => SyB x :: sh) s)
          with (map (fun x : N => SyB x :: sh) (a :: b0 :: s)).
        apply in_map_iff. exists b. split; auto. cbn [sym_inb] in Hin.
        apply existsb_exists in Hin as (z & Hz & Ez). apply N.eqb_eq in Ez. subst. exact Hz.
      * constructor; auto. simpl. apply N.eqb_refl.
Qed.

Lemma conc_length sh tl t : conc sh tl t -> (length sh <= length t)%nat.
Proof. induction 1; simpl; lia. Qed.

Lemma refute_sh_sound r' : forall fuel sh s F,
  refute_sh fuel r' sh = true -> c_pos s = 0 -> conc sh TAny (c_rem s) -> (length (c_rem s) < F)%nat ->
  cm cst F r' s accept = NoMatch.
Proof.
  induction fuel as [|f IH]; intros sh s F H Hp C HF; cbn [refute_sh] in H.
  - destruct (sm sst (S (length sh)) r' (mkS 0 OAbs sh TAny []) s_accept) eqn:E; try discriminate.
    apply (win_dead_sound r' OAbs sh TAny s F);
      [unfold win_dead; rewrite E; reflexivity | exact C | simpl; exact Hp | pose proof (conc_length _ _ _ C); lia].
  - destruct (sm sst (S (length sh)) r' (mkS 0 OAbs sh TAny []) s_accept) eqn:E; try discriminate.
    + apply (win_dead_sound r' OAbs sh TAny s F);
        [unfold win_dead; rewrite E; reflexivity | exact C | simpl; exact Hp | pose proof (conc_length _ _ _ C); lia].
    + destruct (split_first sh) as [vs|] eqn:Es; [|discriminate].
      destruct (conc_split sh vs _ Es C) as (v & Hv & Cv).
      rewrite forallb_forall in H. apply (IH v s F (H v Hv) Hp Cv HF).
Qed.

(* ---- the leading items of a line of the family *)
Lemma in_shape_conc_any sh : forall t rest, in_shape sh t = true -> conc sh TAny (t ++ rest).
Proof.
  induction sh as [|y sh IH]; intros [|b t] rest H; simpl in H; try discriminate.
  - simpl. constructor.
  - apply andb_true_iff in H as [H1 H2]. simpl. constructor; auto.
Qed.
Lemma in_shape_app a : forall b ta tb, in_shape a ta = true -> in_shape b tb = true -> in_shape (a ++ b) (ta ++ tb) = true.
Proof.
  induction a as [|y a IH]; intros b [|x ta] tb Ha Hb; simpl in Ha; try discriminate; auto.
  apply andb_true_iff in Ha as [H1 H2]. simpl. rewrite H1. simpl. auto.
Qed.
Lemma heads_n_in n : forall fs texts, in_family fs texts = true ->
  exists sh t1 t2, In sh (heads_n n fs) /\ concat texts = t1 ++ t2 /\ in_shape sh t1 = true.
Proof.
  induction n as [|n IH]; intros fs texts H.
  - exists [], [], (concat texts). simpl. auto.
  - destruct fs as [|fj fs].
    + exists [], [], (concat texts). simpl. auto.
    + destruct texts as [|t ts]; [discriminate|]. simpl in H. apply andb_true_iff in H as [Ht Hts].
      unfold in_fam in Ht. apply existsb_exists in Ht as (st & Hst & Hin).
      destruct (IH fs ts Hts) as (sh & t1 & t2 & Hsh & Hc & Hs).
      exists (st ++ sh), (t ++ t1), t2. split; [|split].
      * simpl. apply in_flat_map. exists st. split; auto. apply in_map. exact Hsh.
      * simpl. rewrite Hc, app_assoc. reflexivity.
      * apply in_shape_app; auto.
Qed.

Lemma search_from_skip F r pos rem0 : match_at F r pos rem0 = NoMatch ->
  search_from F r pos rem0 = match rem0 with [] => NoMatch | _ :: l => search_from F r (pos + 1) l end.
Proof. intros H. destruct rem0; simpl; rewrite H; reflexivity. Qed.

(* THEOREM: a refuted row matches no line of the family *)
Theorem refuted_sound r' fs texts rest :
  refuted r' fs = true -> in_family fs texts = true ->
  search r' (concat texts ++ rest) = NoMatch.
Proof.
  unfold refuted. destruct (starts_bol r') eqn:Hb; [|discriminate]. intros H Hf.
  apply existsb_exists in H as (n & _ & H).
  destruct (Nat.leb (heads_count n fs) HEAD_BUDGET); [|discriminate].
  destruct (heads_n_in n fs texts Hf) as (sh & t1 & t2 & Hsh & Hc & Hs).
  rewrite forallb_forall in H. specialize (H _ Hsh).
  unfold search, fuel_for. set (text := concat texts ++ rest).
  assert (C : conc sh TAny text).
  { unfold text. rewrite Hc, <- app_assoc. apply in_shape_conc_any. exact Hs. }
  assert (E0 : match_at (S (length text)) r' 0 text = NoMatch).
  { unfold match_at. apply (refute_sh_sound r' _ sh (mkC 0 text []) _ H); simpl; auto. }
  rewrite (search_from_skip _ _ _ _ E0). destruct text as [|b l]; auto.
  apply search_from_anchored; auto. lia.
Qed.

(* row level: the refuted row's regex, on ITS slice of the line, finds nothing *)
Theorem refuted_row r' fs texts rest line :
  refuted (rx_re r') fs = true -> in_family fs texts = true ->
  slice_of r' line = Some (concat texts ++ rest) ->
  row_spans r' line = Match None.
Proof.
  intros H Hf Hs. unfold row_spans. rewrite Hs, (refuted_sound _ _ _ _ H Hf). reflexivity.
Qed.

(* ---- the tie to block-zero analysis: Gate.find_dt returns the first row of the try order that dates the
   line; if no row before r in the order dates it and r does, the line is counted for r *)
Lemma find_dt_first (dated : N -> list N -> option Z) (l : list N) r t :
  forall l1 l2, (forall x, In x l1 -> dated x l = None) -> dated r l = Some t ->
  Gate.find_dt dated (l1 ++ r :: l2) l = Some (t, r).
Proof.
  induction l1 as [|x l1 IH]; intros l2 Hn Hr; simpl.
  - rewrite Hr. reflexivity.
  - rewrite (Hn x (or_introl eq_refl)). apply IH; auto. intros y Hy. apply Hn. right; auto.
Qed.

(* ---- rows outside [competitors] never date a line of the row's family *)
Theorem not_competitor_never_matches row r' texts rest line :
  In r' rx_table -> rx_index r' < rx_index row ->
  ~ In (rx_index r') (competitors rx_table row) ->
  in_family (row_fam row) texts = true ->
  slice_of r' line = Some (concat texts ++ rest) ->
  row_spans r' line = Match None.
Proof.
  intros Hin Hlt Hn Hf Hs.
  assert (Hr : refuted (rx_re r') (row_fam row) = true).
  { destruct (refuted (rx_re r') (row_fam row)) eqn:E; auto. exfalso. apply Hn.
    unfold competitors. apply in_map. apply filter_In. split; auto.
    apply N.ltb_lt in Hlt. rewrite Hlt, E. reflexivity. }
  apply (refuted_row r' (row_fam row) texts rest line Hr Hf Hs).
Qed.

Corollary not_competitor_never_dates mt tzt row r' d texts rest line yo off :
  In r' rx_table -> rx_index r' < rx_index row ->
  ~ In (rx_index r') (competitors rx_table row) ->
  in_family (row_fam row) texts = true ->
  slice_of r' line = Some (concat texts ++ rest) ->
  dated_model mt tzt r' d line yo off = None.
Proof.
  intros. unfold dated_model. rewrite (not_competitor_never_matches row r' texts rest line); auto.
Qed.

(* the slice another row takes of the same line still begins with the timestamp items when they fit its range *)
Lemma slice_keeps_timestamp r' (ts rest tail : bytes) :
  rx_start r' = 0 -> ts <> [] -> N.of_nat (length ts) <= rx_end r' ->
  exists rest', slice_of r' ((ts ++ rest) ++ tail) = Some (ts ++ rest').
Proof.
  intros H0 Hne Hle. unfold slice_of. rewrite H0.
  set (line := (ts ++ rest) ++ tail).
  assert (Ll : (length ts <= length line)%nat) by (unfold line; rewrite !app_length; lia).
  assert (Lp : (0 < length ts)%nat) by (destruct ts; [contradiction|simpl; lia]).
  destruct (N.of_nat (length line) <=? 0) eqn:E0; [apply N.leb_le in E0; lia|].
  destruct (N.min (N.of_nat (length line)) (rx_end r') <=? 0) eqn:E1; [apply N.leb_le in E1; lia|].
  rewrite N.sub_0_r. change (N.to_nat 0) with 0%nat. cbn [skipn].
  set (e := N.to_nat (N.min (N.of_nat (length line)) (rx_end r'))).
  assert (Le : (length ts <= e)%nat) by (unfold e; lia).
  exists (firstn (e - length ts) (rest ++ tail)). f_equal.
  unfold line. rewrite <- app_assoc, firstn_app.
  rewrite (firstn_all2 ts) by lia. reflexivity.
Qed.
