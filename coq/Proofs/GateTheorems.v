(* Proofs/GateTheorems.v — corollaries of gate_accept_spec (block-size independence of the acceptance analysis
   outside the four classes), for the plain analysis and for the analysis as coded (EZCHECK on); the witnesses
   that the classes are inhabited by block-size dependent files (F3a, F3b, F3c and the new F3d). *)
From S4.Base Require Import Bytes Chunk.
From S4.Spec Require Import LinesSpec.
From S4.Gen Require Import BlockConsts.
From S4.Model Require Import Lines Gate GateSpec.
From S4.Proofs Require Import LinesProofs GateLemmas GateProofs GateRefuted EzcheckProofs.
Require Import String.
Open Scope N_scope.

(* ---------------------------------------------------------------- block-size independence *)
Theorem gate_independent dbr rows bs1 bs2 (f : file) : NoDup rows ->
  sp_blocksz_min <= bs1 -> bs1 <= blocksz_max -> sp_blocksz_min <= bs2 -> bs2 <= blocksz_max ->
  in_classes dbr rows bs1 f = false -> in_classes dbr rows bs2 f = false ->
  accepted (gate_rows dbr rows bs1 f) = accepted (gate_rows dbr rows bs2 f).
Proof.
  intros ND A1 A2 B1 B2 C1 C2.
  rewrite (gate_accept_spec dbr rows ND bs1 f A1 A2 C1), (gate_accept_spec dbr rows ND bs2 f B1 B2 C2). reflexivity.
Qed.

Lemma def_in_range : sp_blocksz_min <= blocksz_def /\ blocksz_def <= blocksz_max.
Proof. split; vm_compute; congruence. Qed.

Theorem gate_independent_def dbr rows bs (f : file) : NoDup rows ->
  sp_blocksz_min <= bs -> bs <= blocksz_max ->
  in_classes dbr rows bs f = false -> in_classes dbr rows blocksz_def f = false ->
  accepted (gate_rows dbr rows bs f) = accepted (gate_rows dbr rows blocksz_def f).
Proof.
  intros ND A1 A2 C1 C2. destruct def_in_range. apply gate_independent; assumption.
Qed.

(* the same for the analysis AS CODED (EZCHECK pre-filters on), under the hypotheses that make them sound *)
Theorem gate_ez_accept_spec match_slice info rows bs (f : file) : NoDup rows ->
  (forall r, ri_start (info r) = 0) ->
  (forall r s dt, ri_year4 (info r) = true -> match_slice r s = Some dt -> contains_12 s = true) ->
  (forall r s dt, ri_d2 (info r) = true -> match_slice r s = Some dt -> contains_d2 s = true) ->
  sp_blocksz_min <= bs -> bs <= blocksz_max ->
  in_classes (dated_by_row_of match_slice info) rows bs f = false ->
  accepted (gate_ez match_slice info rows bs f) = spec_accept (dated_by_row_of match_slice info) rows f.
Proof.
  intros ND H0 H12 Hd2 A1 A2 C. rewrite gate_ez_rows by assumption. apply gate_accept_spec; assumption.
Qed.

(* ---------------------------------------------------------------- a concrete two-row oracle for examples and witnesses *)
(* row 79: a line that begins "2020-" (>= 19 bytes); row 0: a line that begins "[2020/" *)
Definition dbr_w (r : N) (l : list N) : option Z :=
  if r =? 79 then dated_w l
  else if r =? 0 then match l with 91 :: 50 :: 48 :: 50 :: 48 :: 47 :: _ => Some 1%Z | _ => None end
  else None.
Definition rows_w : list N := [0; 79].
Lemma rows_w_nodup : NoDup rows_w.
Proof. repeat constructor; cbn; intuition discriminate. Qed.

Definition lineA (i : N) : list N :=
  s2b "2020-01-01T00:00:0" ++ [48 + i] ++ s2b " hello world, this line is fifty bytes long" ++ [10].
Definition lineB (i : N) : list N := s2b "[2020/01/01 00:00:1" ++ [48 + i] ++ s2b ".123] hello" ++ [10].

(* the hypotheses of gate_independent are satisfiable by non-trivial files *)
Definition file_uniform : file := lineA 1 ++ s2b " continuation" ++ [10] ++ lineA 2 ++ lineA 3 ++ lineA 4.
Example gate_independent_example :
  in_classes dbr_w rows_w 64 file_uniform = false /\ in_classes dbr_w rows_w blocksz_def file_uniform = false /\
  accepted (gate_rows dbr_w rows_w 64 file_uniform) = Some 79 /\
  accepted (gate_rows dbr_w rows_w blocksz_def file_uniform) = Some 79 /\
  spec_accept dbr_w rows_w file_uniform = Some 79.
Proof. vm_compute. repeat split. Qed.

(* F3d: outside the three recorded classes the CHOSEN ROW still depends on the block size *)
Definition file_f3d : file := lineA 1 ++ lineB 1 ++ lineA 2 ++ lineB 2 ++ lineA 3.

Lemma gate_row_refuted_F3d :
  cls_first_dated_incomplete dbr_w rows_w 64 file_f3d = false /\ cls_count_minimum dbr_w rows_w 64 file_f3d = false /\
  cls_first_dated_incomplete dbr_w rows_w blocksz_def file_f3d = false /\ cls_count_minimum dbr_w rows_w blocksz_def file_f3d = false /\
  cls_mixed_notation dbr_w rows_w file_f3d = true /\
  gate_rows dbr_w rows_w 64 file_f3d = (FileOk, Some 79) /\
  gate_rows dbr_w rows_w 128 file_f3d = (FileOk, Some 0) /\
  gate_rows dbr_w rows_w blocksz_def file_f3d = (FileOk, Some 0).
Proof. vm_compute. repeat split. Qed.

Theorem gate_row_refuted : exists dbr rows (f : file) bs, NoDup rows /\
  sp_blocksz_min <= bs /\ bs <= blocksz_max /\
  cls_first_dated_incomplete dbr rows bs f = false /\ cls_count_minimum dbr rows bs f = false /\
  cls_first_dated_incomplete dbr rows blocksz_def f = false /\ cls_count_minimum dbr rows blocksz_def f = false /\
  accepted (gate_rows dbr rows bs f) <> accepted (gate_rows dbr rows blocksz_def f).
Proof.
  exists dbr_w, rows_w, file_f3d, 64. split; [exact rows_w_nodup|].
  destruct gate_row_refuted_F3d as (A & B & C & D & _ & E & _ & F).
  split; [vm_compute; congruence|]. split; [vm_compute; congruence|].
  repeat (split; [assumption|]). rewrite E, F. cbn. congruence.
Qed.

(* the three recorded witnesses, seen by the complete model: each lies in its class and is block-size dependent *)
Lemma gate_rows_F3a :
  cls_first_dated_incomplete dbr_w rows_w 64 file_f3a = true /\ in_classes dbr_w rows_w blocksz_def file_f3a = false /\
  accepted (gate_rows dbr_w rows_w 64 file_f3a) = None /\ accepted (gate_rows dbr_w rows_w blocksz_def file_f3a) = Some 79.
Proof. vm_compute. repeat split. Qed.

Lemma gate_rows_F3b :
  cls_first_dated_incomplete dbr_w rows_w 64 file_f3b = true /\ in_classes dbr_w rows_w blocksz_def file_f3b = false /\
  accepted (gate_rows dbr_w rows_w 64 file_f3b) = None /\ accepted (gate_rows dbr_w rows_w blocksz_def file_f3b) = Some 79.
Proof. vm_compute. repeat split. Qed.

Lemma gate_rows_F3c :
  cls_count_minimum dbr_w rows_w blocksz_def file_f3c = true /\ in_classes dbr_w rows_w 4096 file_f3c = false /\
  accepted (gate_rows dbr_w rows_w 4096 file_f3c) = Some 79 /\ accepted (gate_rows dbr_w rows_w blocksz_def file_f3c) = None.
Proof. vm_compute. repeat split. Qed.

(* the classes are sufficient for dependence to be POSSIBLE, not necessary conditions of it: a file in the
   first class whose undated first line ends exactly on the block edge is analysed alike at both sizes
   (loop A of find_sysline_in_block walks into block one) *)
Definition file_edge : file := repeat 117 63 ++ [10] ++ short_line 0 ++ short_line 1.
Lemma classes_not_exact :
  cls_first_dated_incomplete dbr_w rows_w 64 file_edge = true /\
  accepted (gate_rows dbr_w rows_w 64 file_edge) = Some 79 /\
  accepted (gate_rows dbr_w rows_w blocksz_def file_edge) = Some 79.
Proof. vm_compute. repeat split. Qed.
