(* Proofs/RegexSim.v — C04, regex stage: the symbolic instance of the engine is sound for every
   concretisation, matching priority makes items compose ("cut" lemma), hence a checked plan
   (Model/RegexPlan.chain_ok) determines what the concrete search returns on every text of the plan. *)
From Coq Require Import Lia.
From S4.Base Require Import Bytes.
From S4.Model Require Import Regex RegexPlan.
From S4.Proofs Require Import RegexProofs.
Open Scope N_scope.

(* ------------------------------------------------------------------ concretisation *)
Inductive conc : list sym -> stail -> bytes -> Prop :=
| conc_end : conc [] TEnd []
| conc_any t : conc [] TAny t
| conc_star set t : Forall (fun b => In b set) t -> conc [] (TStar set) t
| conc_cons y l tl b t : sym_inb y b = true -> conc l tl t -> conc (y :: l) tl (b :: t).

Section Rel.
  Variable d : N.                           (* offset of the symbolic origin in the haystack *)
  Variable c0 : list (N * (N * N)).         (* captures recorded before the symbolic run started *)

  Definition org_ok (o : org) : Prop := match o with OAbs => d = 0 | ONz => 0 < d | OUnk => True end.
  Definition R (a : sst) (s : cst) : Prop :=
    c_pos s = s_pos a + d /\ org_ok (s_org a) /\
    conc (s_rem a) (s_tail a) (c_rem s) /\ c_caps s = shift_caps d (s_caps a) ++ c0.

  (* ---- UTF-8 decoding only looks at the bytes the lead byte announces *)
  Lemma decode_app s c len r t : decode s = Some (c, len, r) -> decode (s ++ t) = Some (c, len, r ++ t).
  Proof.
    unfold decode. destruct s as [|b0 s]; [discriminate|]. simpl.
    destruct (b0 <? 128). { intros H; inversion H; reflexivity. }
    destruct (b0 <? 194); [discriminate|].
    destruct (b0 <? 224).
    { destruct s as [|b1 s]; [discriminate|]. simpl. destruct (cont b1); [|discriminate].
      intros H; inversion H; reflexivity. }
    destruct (b0 <? 240).
    { destruct s as [|b1 [|b2 s]]; try discriminate. simpl.
      match goal with |- (if ?c then _ else _) = _ -> _ => destruct c; [|discriminate] end.
      intros H; inversion H; reflexivity. }
    destruct (b0 <? 245); [|discriminate].
    destruct s as [|b1 [|b2 [|b3 s]]]; try discriminate. simpl.
    match goal with |- (if ?c then _ else _) = _ -> _ => destruct c; [|discriminate] end.
    intros H; inversion H; reflexivity.
  Qed.

  Lemma decode_none_app b0 s t : decode (b0 :: s) = None -> length (b0 :: s) = lead_len b0 ->
    decode ((b0 :: s) ++ t) = None.
  Proof.
    unfold decode, lead_len. simpl.
    destruct (b0 <? 128); [discriminate|].
    destruct (b0 <? 194) eqn:E1; [reflexivity|].
    destruct (b0 <? 224).
    { destruct s as [|b1 [|b2 s]]; simpl; try discriminate. destruct (cont b1); [discriminate|reflexivity]. }
    destruct (b0 <? 240).
    { destruct s as [|b1 [|b2 [|b3 s]]]; simpl; try discriminate.
      match goal with |- (if ?c then _ else _) = _ -> _ => destruct c; [discriminate|reflexivity] end. }
    destruct (b0 <? 245); [|reflexivity].
    destruct s as [|b1 [|b2 [|b3 [|b4 s]]]]; simpl; try discriminate.
    match goal with |- (if ?c then _ else _) = _ -> _ => destruct c; [discriminate|reflexivity] end.
  Qed.

  Lemma decode_exact b0 s c len r : decode (b0 :: s) = Some (c, len, r) -> length (b0 :: s) = lead_len b0 ->
    N.to_nat len = lead_len b0 /\ r = [].
  Proof.
    unfold decode, lead_len. simpl.
    destruct (b0 <? 128). { destruct s; simpl; [|discriminate]. intros H; inversion H; auto. }
    destruct (b0 <? 194); [discriminate|].
    destruct (b0 <? 224).
    { destruct s as [|b1 [|b2 s]]; simpl; try discriminate. destruct (cont b1); [|discriminate].
      intros H; inversion H; auto. }
    destruct (b0 <? 240).
    { destruct s as [|b1 [|b2 [|b3 s]]]; simpl; try discriminate.
      match goal with |- (if ?c then _ else _) = _ -> _ => destruct c; [|discriminate] end.
      intros H; inversion H; auto. }
    destruct (b0 <? 245); [|discriminate].
    destruct s as [|b1 [|b2 [|b3 [|b4 s]]]]; simpl; try discriminate.
    match goal with |- (if ?c then _ else _) = _ -> _ => destruct c; [|discriminate] end.
    intros H; inversion H; auto.
  Qed.

  Lemma sym_bytes_conc n : forall l tl bs t, sym_bytes n l = Some bs -> conc l tl t ->
    length bs = n /\ exists t', t = bs ++ t' /\ conc (skipn n l) tl t'.
  Proof.
    induction n as [|n IH]; intros l tl bs t H C; simpl in *.
    - inversion H; subst. split; auto. exists t; auto.
    - destruct l as [|[b|set] l]; try discriminate.
      destruct (sym_bytes n l) as [bs'|] eqn:E; [|discriminate]. inversion H; subst; clear H.
      inversion C as [| | |y' l' tl' b' t0 Hin C0 E1 E2 E3]; subst. simpl in Hin. apply N.eqb_eq in Hin; subst.
      destruct (IH _ _ _ _ E C0) as (Hl & t' & -> & C'). split; [simpl; congruence|].
      exists t'; auto.
  Qed.

  Lemma forallb_in {X} (f : X -> bool) l x : forallb f l = true -> In x l -> f x = true.
  Proof. intros H I. rewrite forallb_forall in H. auto. Qed.
  Lemma existsb_eqb_in b set : existsb (N.eqb b) set = true -> In b set.
  Proof. intros H. apply existsb_exists in H as (x & I & E). apply N.eqb_eq in E; subst; auto. Qed.

  Definition srel (x : sres sst) (y : sres cst) : Prop :=
    match x with
    | SOk a' => exists s', y = SOk s' /\ R a' s'
    | SFail => y = SFail
    | SUnk => True
    end.

  Lemma decode_ascii b t : (b <? 128) = true -> decode (b :: t) = Some (b, 1, t).
  Proof. intros H. unfold decode. rewrite H. reflexivity. Qed.

  Local Opaque decode.
  Lemma sim_step_cp p a s : R a s -> srel (s_step_cp p a) (c_step_cp p s).
  Proof.
    destruct a as [pa aa ra ta ca]. destruct s as [ps rs cs].
    intros (Hp & Ha & Hc & Hk). unfold s_step_cp, c_step_cp. simpl in *.
    destruct ra as [|y r].
    - destruct ta as [| |set]; simpl; auto.
      + inversion Hc; subst. reflexivity.
      + destruct (forallb (fun b => (b <? 128) && negb (p b)) set) eqn:Ef; simpl; auto.
        inversion Hc as [| |set' t Hall E1 E2 E3|]; subst.
        destruct rs as [|b t']; [reflexivity|].
        inversion Hall as [|b' t'' Hb Ht]; subst.
        pose proof (forallb_in _ _ _ Ef Hb) as Q. simpl in Q. apply andb_true_iff in Q as [Q1 Q2].
        rewrite (decode_ascii _ _ Q1). apply negb_true_iff in Q2. rewrite Q2. reflexivity.
    - inversion Hc as [| | |y' l' tl' b t Hin Hc' E1 E2 E3]; subst. destruct y as [b0|set].
      + simpl in Hin. apply N.eqb_eq in Hin; subst b.
        destruct (b0 <? 128) eqn:E128.
        * rewrite (decode_ascii _ _ E128).
          destruct (p b0); simpl; auto.
          eexists; split; [reflexivity|]. repeat split; simpl; auto. lia.
        * destruct (sym_bytes (lead_len b0) (SyB b0 :: r)) as [bs|] eqn:Eb; [|exact I].
          destruct (sym_bytes_conc _ _ _ _ _ Eb Hc) as (Hl & t' & Et & C').
          destruct bs as [|b0' bs].
          { exfalso. simpl in Hl. unfold lead_len in Hl. rewrite E128 in Hl.
            destruct (b0 <? 224); [discriminate|]. destruct (b0 <? 240); discriminate. }
          assert (b0' = b0).
          { simpl in Et. inversion Et; reflexivity. }
          subst b0'. rewrite Et.
          destruct (decode (b0 :: bs)) as [[[c len] r0]|] eqn:D.
          -- destruct (decode_exact _ _ _ _ _ D Hl) as (Hlen & ->).
             rewrite (decode_app _ _ _ _ t' D). simpl.
             destruct (p c); simpl; auto.
             eexists; split; [reflexivity|]. repeat split; simpl; auto; try lia.
             rewrite Hlen. exact C'.
          -- rewrite (decode_none_app _ _ t' D Hl). simpl. reflexivity.
      + simpl in Hin. apply existsb_eqb_in in Hin.
        destruct (forallb (fun b1 => b1 <? 128) set) eqn:Ea; simpl; auto.
        pose proof (forallb_in _ _ _ Ea Hin) as E128. simpl in E128.
        destruct set as [|x set']; [exact I|]. cbv beta iota.
        rewrite (decode_ascii _ _ E128).
        destruct (forallb p (x :: set')) eqn:Ep.
        * rewrite (forallb_in _ _ _ Ep Hin). simpl.
          eexists; split; [reflexivity|]. repeat split; simpl; auto. lia.
        * destruct (forallb (fun b1 => negb (p b1)) (x :: set')) eqn:En; simpl; auto.
          pose proof (forallb_in _ _ _ En Hin) as Q. simpl in Q. apply negb_true_iff in Q. rewrite Q. reflexivity.
  Qed.

  Local Transparent decode.

  Lemma sim_eat l : forall syms tl rem0 pos,
    conc syms tl rem0 ->
    match s_eat l syms tl pos with
    | SOk (p, r) => exists r', eat l rem0 (pos + d) = Some (p + d, r') /\ conc r tl r'
    | SFail => eat l rem0 (pos + d) = None
    | SUnk => True
    end.
  Proof.
    induction l as [|x l IH]; intros syms tl rem0 pos C; simpl.
    - exists rem0; auto.
    - inversion C as [|t|set t Hall|y l' tl' b t Hin C' E1 E2 E3]; subst; simpl; auto.
      { destruct (forallb (fun b => negb (x =? b)) set) eqn:Ef; auto.
        destruct rem0 as [|b t]; [reflexivity|]. inversion Hall as [|b' t'' Hb Ht]; subst.
        pose proof (forallb_in _ _ _ Ef Hb) as Q. simpl in Q. apply negb_true_iff in Q. rewrite Q. reflexivity. }
      destruct y as [y|set]; simpl in Hin.
      + apply N.eqb_eq in Hin; subst b. destruct (x =? y); auto.
        specialize (IH _ _ _ (pos + 1) C').
        replace (pos + d + 1) with (pos + 1 + d) by lia. exact IH.
      + apply existsb_eqb_in in Hin. destruct set as [|z set']; auto.
        destruct (forallb (N.eqb x) (z :: set')) eqn:Ef.
        * pose proof (forallb_in _ _ _ Ef Hin) as Q. simpl in Q. rewrite Q.
          specialize (IH _ _ _ (pos + 1) C').
          replace (pos + d + 1) with (pos + 1 + d) by lia. exact IH.
        * destruct (forallb (fun b0 => negb (x =? b0)) (z :: set')) eqn:En; auto.
          pose proof (forallb_in _ _ _ En Hin) as Q. simpl in Q. apply negb_true_iff in Q. rewrite Q. reflexivity.
  Qed.

  Lemma sim_step_bytes l a s : R a s -> srel (s_step_bytes l a) (c_step_bytes l s).
  Proof.
    intros (Hp & Ha & Hc & Hk). unfold s_step_bytes, c_step_bytes.
    pose proof (sim_eat l _ _ _ (s_pos a) Hc) as H. rewrite Hp.
    destruct (s_eat l (s_rem a) (s_tail a) (s_pos a)) as [[p r]| |]; simpl; auto.
    - destruct H as (r' & -> & C). eexists; split; [reflexivity|]. repeat split; simpl; auto.
    - rewrite H. reflexivity.
  Qed.

  Definition trel (x y : tri) : Prop := match x with TU => True | _ => y = x end.
  Lemma sim_bol a s : R a s -> trel (s_at_bol a) (c_at_bol s).
  Proof.
    intros (Hp & Ha & Hc & Hk). unfold s_at_bol, c_at_bol.
    unfold org_ok in Ha. destruct (s_org a); simpl; auto.
    - rewrite Hp, Ha, N.add_0_r. destruct (s_pos a =? 0); reflexivity.
    - destruct (c_pos s =? 0) eqn:E; [apply N.eqb_eq in E; lia|reflexivity].
  Qed.
  Lemma sim_eol a s : R a s -> trel (s_at_eol a) (c_at_eol s).
  Proof.
    intros (Hp & Ha & Hc & Hk). unfold s_at_eol, c_at_eol.
    inversion Hc; subst; simpl; auto.
  Qed.
  Lemma sim_group g a0 a1 s0 s1 : R a0 s0 -> R a1 s1 -> R (s_set_group g a0 a1) (c_set_group g s0 s1).
  Proof.
    intros (Hp0 & _) (Hp & Ha & Hc & Hk). repeat split; simpl; auto.
    rewrite Hk, Hp0, Hp. reflexivity.
  Qed.
  Lemma sim_progressed a0 a1 s0 s1 : R a0 s0 -> R a1 s1 -> c_progressed s0 s1 = s_progressed a0 a1.
  Proof.
    intros (Hp0 & _) (Hp & _). unfold c_progressed, s_progressed. rewrite Hp0, Hp.
    destruct (s_pos a0 <? s_pos a1) eqn:E.
    - apply N.ltb_lt in E. apply N.ltb_lt. lia.
    - apply N.ltb_ge in E. apply N.ltb_ge. lia.
  Qed.

  (* ---- the engine: symbolic answers, when definite, are the concrete answers *)
  Section Sim.
    Variables A1 A2 : Type.
    Variable Ra : A1 -> A2 -> Prop.
    Definition rrel (x : res A1) (y : res A2) : Prop :=
      match x with
      | Match a => exists b, y = Match b /\ Ra a b
      | NoMatch => y = NoMatch
      | _ => True
      end.
    Definition krel (k1 : sst -> res A1) (k2 : cst -> res A2) : Prop :=
      forall a s, R a s -> rrel (k1 a) (k2 s).
    Definition brel (b1 : sst -> (sst -> res A1) -> res A1) (b2 : cst -> (cst -> res A2) -> res A2) : Prop :=
      forall a s k1 k2, R a s -> krel k1 k2 -> rrel (b1 a k1) (b2 s k2).

    Lemma rrel_orelse x y x' y' : rrel x y -> rrel x' y' ->
      rrel (match x with Match a => Match a | NoMatch => x' | OutOfFuel => OutOfFuel | Unknown => Unknown end)
           (match y with Match a => Match a | NoMatch => y' | OutOfFuel => OutOfFuel | Unknown => Unknown end).
    Proof.
      intros H H'. destruct x; simpl in *; auto.
      - destruct H as (b & -> & ?). simpl. eauto.
      - subst y. exact H'.
    Qed.

    Lemma sim_seqn b1 b2 : brel b1 b2 -> forall n, brel (seqn sst A1 n b1) (seqn cst A2 n b2).
    Proof.
      intros Hb. induction n as [|n IH]; intros a s k1 k2 HR Hk; simpl.
      - apply Hk; auto.
      - apply Hb; auto. intros a' s' HR'. apply IH; auto.
    Qed.
    Lemma sim_optn b1 b2 g : brel b1 b2 -> forall n, brel (optn sst A1 n g b1) (optn cst A2 n g b2).
    Proof.
      intros Hb. induction n as [|n IH]; intros a s k1 k2 HR Hk; simpl.
      - apply Hk; auto.
      - assert (H1 : rrel (b1 a (fun s' => optn sst A1 n g b1 s' k1)) (b2 s (fun s' => optn cst A2 n g b2 s' k2))).
        { apply Hb; auto. intros a' s' HR'. apply IH; auto. }
        assert (H2 : rrel (k1 a) (k2 s)) by (apply Hk; auto).
        destruct g; [exact (rrel_orelse _ _ _ _ H1 H2) | exact (rrel_orelse _ _ _ _ H2 H1)].
    Qed.
    Lemma sim_star b1 b2 g : brel b1 b2 -> forall f f', (f <= f')%nat ->
      brel (star sst A1 s_progressed f g b1) (star cst A2 c_progressed f' g b2).
    Proof.
      intros Hb. induction f as [|f IH]; intros f' Hf a s k1 k2 HR Hk; simpl; auto.
      destruct f' as [|f']; [lia|]. simpl.
      assert (H1 : rrel (b1 a (fun s' => if s_progressed a s' then star sst A1 s_progressed f g b1 s' k1 else NoMatch))
                        (b2 s (fun s' => if c_progressed s s' then star cst A2 c_progressed f' g b2 s' k2 else NoMatch))).
      { apply Hb; auto. intros a' s' HR'. rewrite (sim_progressed _ _ _ _ HR HR').
        destruct (s_progressed a a'); simpl; auto. apply IH; auto. lia. }
      assert (H2 : rrel (k1 a) (k2 s)) by (apply Hk; auto).
      destruct g; [exact (rrel_orelse _ _ _ _ H1 H2) | exact (rrel_orelse _ _ _ _ H2 H1)].
    Qed.

    Lemma rrel_step x y k1 k2 : srel x y -> krel k1 k2 -> rrel (do_step sst A1 x k1) (do_step cst A2 y k2).
    Proof.
      intros H Hk. destruct x; simpl in *; auto.
      - destruct H as (s' & -> & HR). simpl. apply Hk; auto.
      - subst y. reflexivity.
    Qed.
    Lemma rrel_test x y a s k1 k2 : trel x y -> R a s -> krel k1 k2 ->
      rrel (do_test sst A1 x a k1) (do_test cst A2 y s k2).
    Proof.
      intros H HR Hk. destruct x; simpl in *; auto; subst y; simpl; auto.
    Qed.

    Lemma sim_m f f' : (f <= f')%nat -> forall r, brel (sm A1 f r) (cm A2 f' r).
    Proof.
      intros Hf. unfold sm, cm. induction r; intros a s k1 k2 HR Hk; simpl.
      - apply Hk; auto.
      - apply rrel_test; auto. apply sim_bol; auto.
      - apply rrel_test; auto. apply sim_eol; auto.
      - apply rrel_step; auto. apply sim_step_cp; auto.
      - apply rrel_step; auto. apply sim_step_cp; auto.
      - apply rrel_step; auto. apply sim_step_bytes; auto.
      - apply rrel_step; auto. apply sim_step_cp; auto.
      - apply IHr1; auto. intros a' s' HR'. apply IHr2; auto.
      - exact (rrel_orelse _ _ _ _ (IHr1 a s k1 k2 HR Hk) (IHr2 a s k1 k2 HR Hk)).
      - apply (sim_seqn _ _ IHr); auto. intros a' s' HR'. destruct mx.
        + apply (sim_optn _ _ _ IHr); auto.
        + apply (sim_star _ _ _ IHr); auto.
      - apply IHr; auto. intros a' s' HR'. apply Hk. apply sim_group; auto.
    Qed.
  End Sim.
End Rel.

(* ------------------------------------------------------------------ priority: the first way an item matches
   is the way the whole pattern uses it, provided the rest then succeeds ("cut") *)
Section Cut.
  Variables A B : Type.
  Variable K : B -> res A.
  (* k0 answers in B, k in A; wherever k0 says no, k says no; wherever k0 says Match b, k says K b if that is not a refusal *)
  Definition cc (x0 : res B) (x : res A) : Prop :=
    match x0 with
    | NoMatch => x = NoMatch
    | Match b => K b <> NoMatch -> x = K b
    | _ => True
    end.
  Definition ext (k0 : cst -> res B) (k : cst -> res A) : Prop := forall s, cc (k0 s) (k s).
  Definition bext (b0 : cst -> (cst -> res B) -> res B) (b : cst -> (cst -> res A) -> res A) : Prop :=
    forall s k0 k, ext k0 k -> cc (b0 s k0) (b s k).

  Lemma cc_orelse x0 x y0 y : cc x0 x -> cc y0 y ->
    cc (match x0 with Match a => Match a | NoMatch => y0 | OutOfFuel => OutOfFuel | Unknown => Unknown end)
       (match x with Match a => Match a | NoMatch => y | OutOfFuel => OutOfFuel | Unknown => Unknown end).
  Proof.
    intros H H'. destruct x0; simpl in *; auto.
    - intros Hn. rewrite (H Hn). destruct (K a); auto; congruence.
    - subst x. exact H'.
  Qed.

  Lemma cut_seqn b0 b : bext b0 b -> forall n, bext (seqn cst B n b0) (seqn cst A n b).
  Proof.
    intros Hb. induction n as [|n IH]; intros s k0 k He; simpl.
    - apply He.
    - apply Hb. intros s'. apply IH; auto.
  Qed.
  Lemma cut_optn b0 b g : bext b0 b -> forall n, bext (optn cst B n g b0) (optn cst A n g b).
  Proof.
    intros Hb. induction n as [|n IH]; intros s k0 k He; simpl.
    - apply He.
    - assert (H1 : cc (b0 s (fun s' => optn cst B n g b0 s' k0)) (b s (fun s' => optn cst A n g b s' k))).
      { apply Hb. intros s'. apply IH; auto. }
      pose proof (He s) as H2.
      destruct g; [exact (cc_orelse _ _ _ _ H1 H2) | exact (cc_orelse _ _ _ _ H2 H1)].
  Qed.
  Lemma cut_star b0 b g : bext b0 b -> forall f, bext (star cst B c_progressed f g b0) (star cst A c_progressed f g b).
  Proof.
    intros Hb. induction f as [|f IH]; intros s k0 k He; simpl; auto.
    assert (H1 : cc (b0 s (fun s' => if c_progressed s s' then star cst B c_progressed f g b0 s' k0 else NoMatch))
                    (b s (fun s' => if c_progressed s s' then star cst A c_progressed f g b s' k else NoMatch))).
    { apply Hb. intros s'. destruct (c_progressed s s'); [apply IH; auto | reflexivity]. }
    pose proof (He s) as H2.
    destruct g; [exact (cc_orelse _ _ _ _ H1 H2) | exact (cc_orelse _ _ _ _ H2 H1)].
  Qed.

  Lemma cc_step x k0 k : ext k0 k -> cc (do_step cst B x k0) (do_step cst A x k).
  Proof. intros He. destruct x; simpl; auto. Qed.
  Lemma cc_test x s k0 k : ext k0 k -> cc (do_test cst B x s k0) (do_test cst A x s k).
  Proof. intros He. destruct x; simpl; auto. Qed.

  Lemma cut_m f : forall r, bext (cm B f r) (cm A f r).
  Proof.
    unfold cm. induction r; intros s k0 k He; simpl.
    - apply He.
    - apply cc_test; auto.
    - apply cc_test; auto.
    - apply cc_step; auto.
    - apply cc_step; auto.
    - apply cc_step; auto.
    - apply cc_step; auto.
    - apply IHr1. intros s'. apply IHr2; auto.
    - exact (cc_orelse _ _ _ _ (IHr1 s k0 k He) (IHr2 s k0 k He)).
    - apply (cut_seqn _ _ IHr). intros s'. destruct mx.
      + apply (cut_optn _ _ _ IHr); auto.
      + apply (cut_star _ _ _ IHr); auto.
    - apply IHr. intros s'. apply He.
  Qed.
End Cut.

(* the form used below: if the item alone (accepting continuation) first matches up to s1, and the
   continuation succeeds there, the item followed by the continuation returns exactly that *)
Lemma first_way A f r s s1 (k : cst -> res A) :
  cm cst f r s accept = Match s1 -> k s1 <> NoMatch -> cm A f r s k = k s1.
Proof.
  intros H Hk. pose proof (cut_m A cst k f r s accept k) as C.
  assert (E : ext A cst k accept k). { intros s'. unfold accept. simpl. auto. }
  specialize (C E). rewrite H in C. simpl in C. auto.
Qed.
Lemma no_way A f r s (k : cst -> res A) :
  cm cst f r s accept = NoMatch -> cm A f r s k = NoMatch.
Proof.
  intros H. pose proof (cut_m A cst k f r s accept k) as C.
  assert (E : ext A cst k accept k). { intros s'. unfold accept. simpl. auto. }
  specialize (C E). rewrite H in C. simpl in C. auto.
Qed.

(* ------------------------------------------------------------------ one checked alternative *)
Lemma in_shape_conc sh : forall t la rest,
  in_shape sh t = true -> la_holds la rest = true ->
  conc (sh ++ fst (la_syms la)) (snd (la_syms la)) (t ++ rest) /\ length t = length sh.
Proof.
  induction sh as [|y sh IH]; intros t la rest Hs Hl; destruct t as [|b t]; simpl in Hs; try discriminate.
  - simpl. split; auto. destruct la as [| |F]; simpl in *.
    + constructor.
    + destruct rest; [constructor|discriminate].
    + destruct rest as [|b rest]; [discriminate|]. constructor; [exact Hl|constructor].
  - apply andb_true_iff in Hs as [H1 H2]. destruct (IH _ _ _ H2 Hl) as [C L].
    split; [|simpl; congruence]. simpl. constructor; auto.
Qed.

Lemma caps_eqb_eq a : forall b, caps_eqb a b = true -> a = b.
Proof.
  induction a as [|[g [x y]] a IH]; intros [|[g' [x' y']] b]; simpl; try discriminate; auto.
  intros H. repeat (apply andb_true_iff in H as [H ?]).
  apply N.eqb_eq in H. apply N.eqb_eq in H1. apply N.eqb_eq in H2. subst. f_equal. auto.
Qed.

Lemma cm_inv text F r s s1 : inv text s -> cm cst F r s accept = Match s1 -> inv text s1.
Proof.
  intros Hi H. apply m_sound in H as (s' & HM & E). unfold accept in E. inversion E; subst.
  apply (M_grows text _ _ _ Hi HM).
Qed.

Lemma skipn_app_exact {X} (a b : list X) n : n = length a -> skipn n (a ++ b) = b.
Proof. intros ->. revert b. induction a; simpl; auto. Qed.

Lemma item_sound abs i al : alt_ok abs i al = true ->
  forall text s t rest F,
    inv text s -> c_rem s = t ++ rest ->
    alt_fits t rest al = true -> org_ok (c_pos s) abs -> (length (c_rem s) < F)%nat ->
    cm cst F i s accept =
      Match (mkC (c_pos s + N.of_nat (length t)) rest (shift_caps (c_pos s) (a_caps al) ++ c_caps s)).
Proof.
  unfold alt_ok, run_item, alt_fits. intros Hok text s t rest F Hi Hr Hfit Habs HF.
  apply andb_true_iff in Hfit as [Hs Hl].
  destruct (in_shape_conc _ _ _ _ Hs Hl) as [C Len].
  set (ls := fst (la_syms (a_la al))) in *. set (tl := snd (la_syms (a_la al))) in *.
  set (a0 := mkS 0 abs (a_shape al ++ ls) tl []) in *.
  destruct (sm sst (S (length (a_shape al) + length ls)) i a0 s_accept) as [s1| | |] eqn:E; try discriminate.
  apply andb_true_iff in Hok as [Hpos Hcaps]. apply N.eqb_eq in Hpos. apply caps_eqb_eq in Hcaps.
  assert (HR : R (c_pos s) (c_caps s) a0 s).
  { unfold a0; repeat split; simpl; auto. rewrite Hr. exact C. }
  assert (Hfuel : (S (length (a_shape al) + length ls) <= F)%nat).
  { rewrite Hr, app_length in HF. rewrite <- Len.
    assert (length ls <= length rest)%nat.
    { unfold ls. destruct (a_la al); simpl; try lia. destruct rest; [discriminate|simpl; lia]. }
    lia. }
  pose proof (sim_m (c_pos s) (c_caps s) sst cst (R (c_pos s) (c_caps s)) _ _ Hfuel i a0 s s_accept accept HR) as S.
  assert (Hk : krel (c_pos s) (c_caps s) sst cst (R (c_pos s) (c_caps s)) s_accept accept).
  { intros a' s' HR'. simpl. eauto. }
  specialize (S Hk). rewrite E in S. simpl in S. destruct S as (s' & Es & (Hp & _ & _ & Hc)).
  rewrite Es. f_equal.
  pose proof (cm_inv text F i s s' Hi Es) as [_ Hrem].
  destruct Hi as [_ Hrem0].
  destruct s' as [p' r' c']; simpl in *. subst p' c'. f_equal.
  - rewrite Hpos, Len. lia.
  - rewrite Hrem. rewrite Hpos.
    replace (N.to_nat (N.of_nat (length (a_shape al)) + c_pos s)) with (N.to_nat (c_pos s) + length t)%nat by lia.
    rewrite <- skipn_skipn_add, <- Hrem0, Hr. apply skipn_app_exact; reflexivity.
  - rewrite Hcaps. reflexivity.
Qed.

(* ------------------------------------------------------------------ the whole pattern *)
Lemma find_fits sg t rest a : pick sg t rest = Some a -> In a sg /\ alt_fits t rest a = true.
Proof. unfold pick. intros H. apply find_some in H. exact H. Qed.

Lemma chain_sound : forall p r abs, chain_ok abs r p = true ->
  forall text texts rest s F,
    inv text s -> c_rem s = concat texts ++ rest -> texts_ok p texts rest = true ->
    org_ok (c_pos s) abs -> (length (c_rem s) < F)%nat ->
    cm cst F r s accept =
      Match (mkC (c_pos s + N.of_nat (length (concat texts))) rest
                 (final_caps p texts rest (c_pos s) ++ c_caps s)).
Proof.
  induction p as [|sg p IH]; intros r abs Hc text texts rest s F Hi Hr Ht Habs HF; [simpl in Hc; discriminate|].
  destruct texts as [|t ts]; [simpl in Ht; discriminate|]. simpl in Ht.
  destruct (pick sg t (concat ts ++ rest)) as [al|] eqn:Ep; [|discriminate].
  destruct (find_fits _ _ _ _ Ep) as [Hin Hfit].
  destruct p as [|sg' p'].
  - (* last item *)
    destruct ts; [|discriminate]. simpl in Hc. simpl in *.
    pose proof (forallb_in _ _ _ Hc Hin) as Hok. rewrite app_nil_r in *.
    rewrite (item_sound abs r al Hok text s t rest F Hi Hr Hfit Habs HF).
    simpl in Ep. rewrite Ep. reflexivity.
  - destruct r; simpl in Hc; try discriminate.
    apply andb_true_iff in Hc as [Hc1 Hc2].
    pose proof (forallb_in _ _ _ Hc1 Hin) as Hok.
    assert (Hr' : c_rem s = t ++ (concat ts ++ rest)) by (rewrite Hr; simpl; rewrite app_assoc; reflexivity).
    pose proof (item_sound abs r1 al Hok text s t (concat ts ++ rest) F Hi Hr' Hfit Habs HF) as E1.
    set (s1 := mkC (c_pos s + N.of_nat (length t)) (concat ts ++ rest) (shift_caps (c_pos s) (a_caps al) ++ c_caps s)) in *.
    assert (Hi1 : inv text s1) by (apply (cm_inv text F r1 s s1 Hi E1)).
    assert (HF1 : (length (c_rem s1) < F)%nat).
    { unfold s1; simpl. rewrite Hr' in HF. rewrite app_length in HF. lia. }
    assert (Ho1 : org_ok (c_pos s1) (next_org abs)).
    { unfold s1; simpl. destruct abs; simpl in *; auto. lia. }
    assert (E2 := IH r2 (next_org abs) Hc2 text ts rest s1 F Hi1 eq_refl Ht Ho1 HF1).
    change (cm cst F (RSeq r1 r2) s accept) with (cm cst F r1 s (fun s' => cm cst F r2 s' accept)).
    rewrite (first_way cst F r1 s s1 (fun s' => cm cst F r2 s' accept) E1); [|rewrite E2; discriminate].
    rewrite E2. f_equal. unfold s1; simpl. f_equal.
    + rewrite app_length. lia.
    + rewrite Ep. rewrite app_assoc. reflexivity.
Qed.

Lemma search_from_hit F r pos rem0 s : match_at F r pos rem0 = Match s -> search_from F r pos rem0 = Match (pos, s).
Proof. intros H. destruct rem0; simpl; rewrite H; reflexivity. Qed.

(* THEOREM: a checked plan determines the leftmost-first search on every text of the plan *)
Theorem plan_search r p texts rest :
  chain_ok OAbs r p = true -> texts_ok p texts rest = true ->
  search r (concat texts ++ rest) =
    Match (0, mkC (N.of_nat (length (concat texts))) rest (final_caps p texts rest 0)).
Proof.
  intros Hc Ht. unfold search, fuel_for.
  set (text := concat texts ++ rest).
  assert (Hi : inv text (mkC 0 text [])) by (apply inv_start; [lia|reflexivity]).
  pose proof (chain_sound p r OAbs Hc text texts rest (mkC 0 text []) (S (length text)) Hi eq_refl Ht
                          ltac:(reflexivity) ltac:(simpl; lia)) as E.
  simpl in E. rewrite app_nil_r in E.
  apply search_from_hit. unfold match_at. exact E.
Qed.

(* the same at any offset: a match attempt that starts at [pos] (origin known to be 0 / >= 1 / unknown) *)
Theorem plan_match_at o r p text texts rest pos F :
  chain_ok o r p = true -> texts_ok p texts rest = true ->
  inv text (mkC pos (concat texts ++ rest) []) -> org_ok pos o -> (length (concat texts ++ rest) < F)%nat ->
  match_at F r pos (concat texts ++ rest) =
    Match (mkC (pos + N.of_nat (length (concat texts))) rest (final_caps p texts rest pos)).
Proof.
  intros Hc Ht Hi Ho HF. unfold match_at.
  pose proof (chain_sound p r o Hc text texts rest (mkC pos (concat texts ++ rest) []) F Hi eq_refl Ht Ho HF) as E.
  simpl in E. rewrite app_nil_r in E. exact E.
Qed.

(* ------------------------------------------------------------------ text in front of the timestamp *)
Lemma win_dead_sound r o w tl s F :
  win_dead r o w tl = true -> conc w tl (c_rem s) -> org_ok (c_pos s) o -> (S (length w) <= F)%nat ->
  cm cst F r s accept = NoMatch.
Proof.
  unfold win_dead. intros H C Ho HF.
  set (a0 := mkS 0 o w tl []) in *.
  assert (HR : R (c_pos s) (c_caps s) a0 s) by (unfold a0; repeat split; simpl; auto).
  pose proof (sim_m (c_pos s) (c_caps s) sst cst (R (c_pos s) (c_caps s)) _ _ HF r a0 s s_accept accept HR) as S.
  assert (Hk : krel (c_pos s) (c_caps s) sst cst (R (c_pos s) (c_caps s)) s_accept accept).
  { intros a' s' HR'. simpl. eauto. }
  specialize (S Hk). destruct (sm sst (Datatypes.S (length w)) r a0 s_accept); try discriminate. exact S.
Qed.

Lemma sym_inb_refl b : sym_inb (SyB b) b = true.
Proof. simpl. apply N.eqb_refl. Qed.

Lemma dead_at_sound r o b1 rest F pos :
  dead_at r o b1 (hd_opt rest) = true -> org_ok pos o -> (length (b1 :: rest) < F)%nat ->
  match_at F r pos (b1 :: rest) = NoMatch.
Proof.
  unfold dead_at, match_at. intros H Ho HF. simpl in HF.
  destruct (win_dead r o [SyB b1] TAny) eqn:E1.
  - apply (win_dead_sound r o [SyB b1] TAny); simpl; auto; try lia.
    constructor; [apply sym_inb_refl|constructor].
  - destruct rest as [|b2 rest]; simpl in H.
    + apply (win_dead_sound r o [SyB b1] TEnd); simpl; auto; try lia.
      constructor; [apply sym_inb_refl|constructor].
    + apply (win_dead_sound r o [SyB b1; SyB b2] TAny); simpl; auto; try (simpl in HF; lia).
      constructor; [apply sym_inb_refl|]. constructor; [apply sym_inb_refl|constructor].
Qed.

(* THEOREM: a prefix every offset of which is dead is skipped by the leftmost search *)
Theorem pre_ok_search r : forall pre o pos body F,
  pre_ok r o pre (hd_opt body) = true -> org_ok pos o -> (length (pre ++ body) < F)%nat ->
  search_from F r pos (pre ++ body) = search_from F r (pos + N.of_nat (length pre)) body.
Proof.
  induction pre as [|b1 l IH]; intros o pos body F H Ho HF.
  - simpl. rewrite N.add_0_r. reflexivity.
  - cbn [pre_ok] in H.
    destruct (dead_at r o b1 (match l with b2 :: _ => Some b2 | [] => hd_opt body end)) eqn:E; [|discriminate].
    assert (E' : dead_at r o b1 (hd_opt (l ++ body)) = true) by (destruct l; exact E).
    pose proof (dead_at_sound r o b1 (l ++ body) F pos E' Ho HF) as Hm.
    change ((b1 :: l) ++ body) with (b1 :: (l ++ body)). cbn [search_from]. rewrite Hm.
    rewrite (IH ONz (pos + 1) body F H); [|simpl; lia|simpl in HF; lia].
    f_equal. simpl length. lia.
Qed.


(* a stated class of prefixes: bytes that are dead on their own at every offset *)
Lemma dead_bytes_spec r b : In b (dead_bytes r) ->
  win_dead r OAbs [SyB b] TAny = true /\ win_dead r ONz [SyB b] TAny = true.
Proof.
  unfold dead_bytes. intros H. apply filter_In in H as [_ H].
  destruct (win_dead r OAbs [SyB b] TAny); [split; auto|discriminate].
Qed.
Lemma dead_set_pre r (D : list N) :
  (forall b, In b D -> win_dead r OAbs [SyB b] TAny = true /\ win_dead r ONz [SyB b] TAny = true) ->
  forall pre o nxt, (o = OAbs \/ o = ONz) ->
  (forall b, In b pre -> In b D) -> pre_ok r o pre nxt = true.
Proof.
  intros HD. induction pre as [|b l IH]; intros o nxt Ho H; [reflexivity|].
  change (pre_ok r o (b :: l) nxt) with
    (if dead_at r o b (match l with b2 :: _ => Some b2 | [] => nxt end) then pre_ok r ONz l nxt else false).
  destruct (HD b (H b (or_introl eq_refl))) as [E1 E2].
  assert (Hd : dead_at r o b (match l with b2 :: _ => Some b2 | [] => nxt end) = true).
  { unfold dead_at. destruct Ho as [-> | ->]; [rewrite E1|rewrite E2]; reflexivity. }
  rewrite Hd. apply IH; auto. intros b' Hb'. apply H. right; auto.
Qed.
Theorem dead_bytes_pre r pre nxt :
  (forall b, In b pre -> In b (dead_bytes r)) -> pre_ok r OAbs pre nxt = true.
Proof. intros H. apply (dead_set_pre r (dead_bytes r) (dead_bytes_spec r)); auto. Qed.
