(* Proofs/FixedStructTablesOk.v — finite obligations on the regenerated layout table
   (Gen/FixedStructTables.v), by vm_compute over the table and lifted with forallb_forall. *)
From Coq Require Import List NArith ZArith Bool Lia String Permutation.
Import ListNotations.
From S4.Base Require Import Bytes.
From S4.Spec Require Import RecordsSpec.
From S4.Model Require Import Records RecordRender LayoutDetect.
From S4.Gen Require Import FixedStructTables.
From S4.Proofs Require Import RecordRenderProofs LayoutDetectProofs.
Open Scope N_scope.

Definition layout_wfb (l : layout) : bool :=
  (0 <? l_size l) &&
  (l_offset_tv l + l_size_tv l <=? l_size l) &&
  (l_sec_off l + l_sec_len l <=? l_size_tv l) &&
  ((l_sec_len l =? 4) || (l_sec_len l =? 8)) &&
  ((l_usec_len l =? 0) ||
   (((l_usec_len l =? 4) || (l_usec_len l =? 8)) &&
    (l_sec_off l + l_sec_len l <=? l_usec_off l) &&
    (l_usec_off l + l_usec_len l <=? l_size_tv l))) &&
  (l_size_tv l <=? timeval_sz_max) &&
  (entry_sz_min <=? l_size l) && (l_size l <=? entry_sz_max).

Record layout_wf (l : layout) : Prop := {
  wf_size_pos : 0 < l_size l;
  wf_tv_inside : l_offset_tv l + l_size_tv l <= l_size l;
  wf_sec_inside : l_sec_off l + l_sec_len l <= l_size_tv l;
  wf_sec_len : l_sec_len l = 4 \/ l_sec_len l = 8;
  wf_usec : l_usec_len l = 0 \/
            ((l_usec_len l = 4 \/ l_usec_len l = 8) /\
             l_sec_off l + l_sec_len l <= l_usec_off l /\
             l_usec_off l + l_usec_len l <= l_size_tv l);
  wf_tv_buf : l_size_tv l <= timeval_sz_max;
  wf_entry_min : entry_sz_min <= l_size l;
  wf_entry_max : l_size l <= entry_sz_max
}.

Lemma layout_wfb_ok l : layout_wfb l = true -> layout_wf l.
Proof.
  unfold layout_wfb. rewrite !andb_true_iff, !orb_true_iff, !andb_true_iff, !orb_true_iff.
  rewrite !N.ltb_lt, !N.leb_le, !N.eqb_eq. intros [[[[[[[H1 H2] H3] H4] H5] H6] H7] H8].
  constructor; try assumption. intuition.
Qed.

Lemma layouts_wfb : forallb layout_wfb fixedstruct_layouts = true.
Proof. vm_compute. reflexivity. Qed.

(* every supported layout: positive size, the time field inside the entry, the seconds and
   microseconds bytes inside the time field and disjoint, the time field fits the
   TIMEVAL_SZ_MAX stack buffer of preprocess_timevalues, the entry fits ENTRY_SZ_MAX *)
Theorem layouts_wf : forall l, In l fixedstruct_layouts -> layout_wf l.
Proof.
  intros l H. apply layout_wfb_ok.
  apply (proj1 (forallb_forall layout_wfb fixedstruct_layouts) layouts_wfb l H).
Qed.

(* ENTRY_SZ_MIN / ENTRY_SZ_MAX are attained *)
Theorem entry_sz_attained :
  existsb (fun l => l_size l =? entry_sz_min) fixedstruct_layouts = true /\
  existsb (fun l => l_size l =? entry_sz_max) fixedstruct_layouts = true.
Proof. split; vm_compute; reflexivity. Qed.

Fixpoint memb (x : bytes) (l : list bytes) : bool :=
  match l with [] => false | y :: r => beqb x y || memb x r end.
Fixpoint nodupb (l : list bytes) : bool :=
  match l with [] => true | x :: r => negb (memb x r) && nodupb r end.

Theorem layout_names_distinct : nodupb (map l_name fixedstruct_layouts) = true.
Proof. vm_compute. reflexivity. Qed.

(* filesz_to_types: each `filesz % module::NAME_SZ_FO == 0` guard inserts the type of the
   same module and struct (names compared case-insensitively, without the "Fs_" prefix) *)
Theorem filesz_guards_consistent :
  forallb (fun gt => beqb (lower_bytes (fst gt)) (lower_bytes (skipn 3 (snd gt)))) filesz_guards = true.
Proof. vm_compute. reflexivity. Qed.

(* every type named by filesz_to_types is a layout of the table *)
Theorem filesz_types_are_layouts :
  forallb (fun t => memb t (map l_name fixedstruct_layouts)) (filesz_try_all ++ map snd filesz_bonus) = true.
Proof. vm_compute. reflexivity. Qed.

(* a type that receives the name bonus is also in the try-all list *)
Theorem filesz_bonus_subset : forallb (fun kt => memb (snd kt) filesz_try_all) filesz_bonus = true.
Proof. vm_compute. reflexivity. Qed.

(* reachability: every layout is offered by filesz_to_types (try-all list) and receives the
   name bonus under some file kind *)
Theorem layouts_reachable :
  forallb (fun l => memb (l_name l) filesz_try_all) fixedstruct_layouts = true.
Proof. vm_compute. reflexivity. Qed.

Theorem layouts_have_bonus :
  forallb (fun l => memb (l_name l) (map snd filesz_bonus)) fixedstruct_layouts = true.
Proof. vm_compute. reflexivity. Qed.

(* regression statement about the OLD try-all list (frozen snapshot of filesz_to_types before
   commit dd987c74): the NetBSD amd64 lastlogx layout was never offered, so such a file could
   not be read.  Says nothing about the regenerated table. *)
Definition try_all_snapshot : list bytes := map s2b
  ["Fs_Freebsd_x8664_Utmpx"; "Fs_Linux_Arm64Aarch64_Lastlog"; "Fs_Linux_Arm64Aarch64_Utmpx";
   "Fs_Linux_x86_Acct"; "Fs_Linux_x86_Acct_v3"; "Fs_Linux_x86_Lastlog"; "Fs_Linux_x86_Utmpx";
   "Fs_Netbsd_x8632_Acct"; "Fs_Netbsd_x8632_Lastlogx"; "Fs_Netbsd_x8632_Utmpx";
   "Fs_Netbsd_x8664_Lastlog"; "Fs_Netbsd_x8664_Utmp"; "Fs_Netbsd_x8664_Utmpx";
   "Fs_Openbsd_x86_Lastlog"; "Fs_Openbsd_x86_Utmp"]%string.
Definition layout_names_snapshot : list bytes := try_all_snapshot ++ [s2b "Fs_Netbsd_x8664_Lastlogx"].

Theorem layout_reachability_refuted :
  exists n, In n layout_names_snapshot /\ memb n try_all_snapshot = false.
Proof.
  exists (s2b "Fs_Netbsd_x8664_Lastlogx"). split; [|vm_compute; reflexivity].
  unfold layout_names_snapshot. apply in_or_app. right. left. reflexivity.
Qed.

(* ---- decode_tv reads what an encoder of the same layout writes (example per table row is
   evaluated in the correspondence run; here: a closed example) *)
Example decode_tv_example :
  decode_tv (mklayout (s2b "x") 16 4 8 0 4 true 4 4)
            [9; 9; 9; 9;  0x00; 0xF1; 0x53; 0x65;  0x40; 0xE2; 0x01; 0x00;  7; 7; 7; 7]
  = (1700000000, 123456)%Z.
Proof. vm_compute. reflexivity. Qed.

(* ================================================================== rendering and layout detection:
   obligations on the regenerated as_bytes / score_fixedstruct tables, the detection function of
   the code as it is, and the witnesses of the recorded findings *)
Local Open Scope string_scope.
Local Open Scope N_scope.
Local Open Scope list_scope.

(* ------------------------------------------------------------------ the code's iteration order is one order of the set *)
Lemma flat_map_app_perm {A B} (f g : A -> list B) l :
  Permutation (flat_map (fun x => f x ++ g x) l) (flat_map f l ++ flat_map g l).
Proof.
  induction l as [|x r IH]; simpl; [constructor|].
  (* (f x ++ g x) ++ FG r  ~  (f x ++ F r) ++ (g x ++ G r) *)
  rewrite <- !app_assoc. apply Permutation_app_head.
  eapply Permutation_trans; [apply Permutation_app_head; exact IH|].
  rewrite !app_assoc. apply Permutation_app_tail. apply Permutation_app_comm.
Qed.

Lemma flat_map_single_once (order : list bytes) (c : cand) :
  NoDup order -> In (cname c) order ->
  flat_map (fun n => if beqb n (cname c) then [c] else []) order = [c].
Proof.
  induction order as [|n r IH]; intros Hnd Hin; [contradiction|].
  inversion Hnd as [|? ? Hn Hr]; subst. simpl. destruct (beqb n (cname c)) eqn:E.
  - apply beqb_eq in E. subst n. simpl. f_equal.
    clear IH Hin Hnd. induction r as [|m r IH]; [reflexivity|]. simpl.
    destruct (beqb m (cname c)) eqn:E2.
    + apply beqb_eq in E2. subst. exfalso. apply Hn. left. reflexivity.
    + apply IH. * intro G. apply Hn. right. exact G. * inversion Hr; assumption.
  - destruct Hin as [->|Hin]; [rewrite beqb_refl in E; discriminate|]. simpl. apply IH; assumption.
Qed.

Theorem order_cands_perm order cands :
  NoDup order -> (forall c, In c cands -> In (cname c) order) ->
  Permutation cands (order_cands order cands).
Proof.
  intros Hnd. unfold order_cands. induction cands as [|c r IH]; intro Hin.
  - assert (He : flat_map (fun n : bytes => filter (fun c : cand => beqb n (fst (fst (fst c)))) []) order = []).
    { clear. induction order as [|n r IH]; simpl; [reflexivity|exact IH]. }
    rewrite He. apply perm_nil.
  - assert (Heq : forall n, filter (fun c0 : cand => beqb n (fst (fst (fst c0)))) (c :: r)
                          = (if beqb n (cname c) then [c] else []) ++ filter (fun c0 : cand => beqb n (fst (fst (fst c0)))) r).
    { intro n. simpl. unfold cname. destruct (beqb n (fst (fst (fst c)))); reflexivity. }
    rewrite (flat_map_ext _ _ Heq).
    apply Permutation_sym.
    eapply Permutation_trans;
      [apply (flat_map_app_perm (fun n => if beqb n (cname c) then [c] else [])
                                (fun n => filter (fun c0 : cand => beqb n (fst (fst (fst c0)))) r) order)|].
    rewrite flat_map_single_once by (try assumption; apply Hin; left; reflexivity).
    simpl. constructor. apply Permutation_sym. apply IH. intros c0 H0. apply Hin. right. exact H0.
Qed.

(* ------------------------------------------------------------------ filesz_to_types guards *)
(* the constant each `filesz % module::NAME_SZ_FO == 0` guard tests IS the entry size of the type
   inserted under it (the defect repaired by commit dd987c74 was a wrong constant) *)
Theorem filesz_guard_consts_are_sizes :
  forallb (fun gt => match assoc (fst gt) filesz_guard_consts, find_size (snd gt) fixedstruct_layouts with
                     | Some a, Some b => a =? b
                     | _, _ => false
                     end) filesz_guards = true.
Proof. vm_compute. reflexivity. Qed.

(* ------------------------------------------------------------------ the render table *)
Definition render_row_ok (p : bytes * list ritem) : bool :=
  static_ok (snd p) as_bytes_tail && forallb flag_wf (snd p) && all_auto_clean (snd p) as_bytes_tail
  && Nat.leb (items_max 64 (snd p) + length as_bytes_tail + count_backs (snd p)) print_buffer_cap
  && match find_size (fst p) fixedstruct_layouts with
     | Some sz => forallb (fun it => fst (item_span it) + snd (item_span it) <=? sz) (snd p)
     | None => false
     end.

(* every row: can be read back (static_ok), flag lists open with a literal, numbers / type names /
   addresses never contain their stop byte, the longest possible line fits the print buffer
   (f32 text at most 64 bytes), every printed field lies inside the entry *)
Theorem render_rows_ok : forallb render_row_ok fixedstruct_render = true.
Proof. vm_compute. reflexivity. Qed.

Theorem render_covers_layouts :
  forallb (fun l => match assoc (l_name l) fixedstruct_render with Some _ => true | None => false end)
          fixedstruct_layouts = true
  /\ length fixedstruct_render = length fixedstruct_layouts.
Proof. split; vm_compute; reflexivity. Qed.

Lemma render_row n items : In (n, items) fixedstruct_render -> render_row_ok (n, items) = true.
Proof. intro H. apply (proj1 (forallb_forall render_row_ok fixedstruct_render) render_rows_ok _ H). Qed.

Lemma render_row_facts n items :
  In (n, items) fixedstruct_render ->
  static_ok items as_bytes_tail = true /\ forallb flag_wf items = true /\ all_auto_clean items as_bytes_tail = true
  /\ (items_max 64 items + length as_bytes_tail + count_backs items <= print_buffer_cap)%nat.
Proof.
  intro H. apply render_row in H. unfold render_row_ok in H. cbn [fst snd] in H.
  apply andb_true_iff in H as [H _]. apply andb_true_iff in H as [H Hfit].
  apply andb_true_iff in H as [H Hauto]. apply andb_true_iff in H as [Hst Hwf].
  apply Nat.leb_le in Hfit. auto.
Qed.

(* the text the printer writes for a record = the concatenation of the items of ITS layout over
   ITS bytes, followed by "\n\0": no truncation ever (the buffer is large enough for every entry) *)
Theorem table_as_bytes_is_render f32txt n items e :
  In (n, items) fixedstruct_render -> (forall b, (length (f32txt b) <= 64)%nat) -> bytes_ok e ->
  as_bytes f32txt print_buffer_cap items as_bytes_tail e = ROk (render f32txt items as_bytes_tail e).
Proof.
  intros H Hf He. destruct (render_row_facts n items H) as [_ [Hwf [_ Hfit]]].
  apply as_bytes_is_render; [assumption|].
  pose proof (render_length f32txt 64 Hf items as_bytes_tail e He) as Hl. lia.
Qed.

Theorem table_parse_render f32txt n items e :
  In (n, items) fixedstruct_render ->
  items_clean f32txt items as_bytes_tail e = true ->
  parse_items items as_bytes_tail (render f32txt items as_bytes_tail e) = Some (var_texts f32txt items e).
Proof. intros H Hc. destruct (render_row_facts n items H) as [Hst _]. apply parse_render; assumption. Qed.

Theorem table_render_injective f32txt n items e1 e2 :
  In (n, items) fixedstruct_render ->
  items_clean f32txt items as_bytes_tail e1 = true -> items_clean f32txt items as_bytes_tail e2 = true ->
  render f32txt items as_bytes_tail e1 = render f32txt items as_bytes_tail e2 ->
  forall it, In it items -> is_var it = true -> item_text f32txt it e1 = item_text f32txt it e2.
Proof.
  intros H H1 H2 He it Hin Hv. destruct (render_row_facts n items H) as [Hst _].
  eapply var_texts_in; [eapply render_injective; eassumption|exact Hin|exact Hv].
Qed.

(* the cleanliness condition is a condition on the strings (and the f32 text) only *)
Theorem table_clean_is_strings_clean f32txt n items e :
  In (n, items) fixedstruct_render ->
  items_clean f32txt items as_bytes_tail e = strings_clean f32txt items as_bytes_tail e.
Proof. intro H. destruct (render_row_facts n items H) as [_ [_ [Ha _]]]. apply items_clean_strings. assumption. Qed.

(* ------------------------------------------------------------------ the score table *)
Definition score_row_ok (p : bytes * list sitem) : bool :=
  Nat.eqb (length (filter is_time (snd p))) 1
  && match find_size (fst p) fixedstruct_layouts with Some _ => true | None => false end.

Theorem score_rows_ok : forallb score_row_ok fixedstruct_score = true.
Proof. vm_compute. reflexivity. Qed.

Theorem score_covers_layouts :
  forallb (fun l => match assoc (l_name l) fixedstruct_score with Some _ => true | None => false end)
          fixedstruct_layouts = true
  /\ length fixedstruct_score = length fixedstruct_layouts.
Proof. split; vm_compute; reflexivity. Qed.

Theorem candidate_order_is_the_layouts :
  nodupb candidate_order = true /\ forallb (fun l => memb (l_name l) candidate_order) fixedstruct_layouts = true
  /\ length candidate_order = length fixedstruct_layouts.
Proof. repeat split; vm_compute; reflexivity. Qed.

(* ------------------------------------------------------------------ detection as the code runs it *)
(* the candidate SET of filesz_to_types for a file kind and size *)
Definition candidate_set (kind : N) (file : bytes) : list cand :=
  filesz_candidates fixedstruct_layouts filesz_bonus filesz_try_all fixedstruct_score score_bonus
                    kind (N.of_nat (length file)).
(* ... in the order score_file walks it (ascending discriminant, commit a9566a30) *)
Definition candidate_seq (kind : N) (file : bytes) : list cand := order_cands candidate_order (candidate_set kind file).

Definition detect (mem : bytes -> nat -> bytes) (kind : N) (file : bytes) : option (option bytes * Z) :=
  score_file mem count_found_entries_max (candidate_seq kind file) file.

Lemma nodupb_NoDup l : nodupb l = true -> NoDup l.
Proof.
  induction l as [|x r IH]; intro H; [constructor|]. simpl in H. apply andb_true_iff in H as [H1 H2].
  constructor; [|apply IH; exact H2]. intro G. apply negb_true_iff in H1.
  assert (memb x r = true); [|congruence]. clear -G. induction r as [|y r IH]; [contradiction|].
  simpl. destruct G as [->|G]; [rewrite beqb_refl; reflexivity|rewrite IH by exact G; apply orb_true_r].
Qed.

Lemma memb_In x l : memb x l = true -> In x l.
Proof.
  induction l as [|y r IH]; simpl; [discriminate|]. intro H. apply orb_true_iff in H as [H|H].
  - apply beqb_eq in H. left. congruence.
  - right. apply IH. exact H.
Qed.

Lemma try_all_in_order : forallb (fun n => memb n candidate_order) filesz_try_all = true.
Proof. vm_compute. reflexivity. Qed.

(* the sequence the code walks is a permutation of the candidate set *)
Theorem candidate_seq_perm kind file : Permutation (candidate_set kind file) (candidate_seq kind file).
Proof.
  apply order_cands_perm.
  - apply nodupb_NoDup. apply candidate_order_is_the_layouts.
  - intros [[[n sz] it] b] H. unfold candidate_set in H. apply filesz_candidates_sound in H.
    destruct H as [_ [_ [_ [Hn _]]]]. unfold cname. cbn [fst].
    apply memb_In. apply (proj1 (forallb_forall _ filesz_try_all) try_all_in_order n Hn).
Qed.

(* POSITIVE detection theorem for the code as it is: if one candidate's high score is positive and
   strictly above every other candidate's, detect returns it *)
Theorem detect_unique_maximum mem kind file l n s :
  cand_scores mem count_found_entries_max (candidate_set kind file) file = Some l ->
  NoDup (map fst l) -> In (n, s) l -> (0 < s)%Z -> (forall m t, In (m, t) l -> m <> n -> (t < s)%Z) ->
  detect mem kind file = Some (Some n, s).
Proof.
  intros Hl Hnd Hin Hs Hlt. unfold detect.
  eapply score_file_order_independent; try eassumption. apply candidate_seq_perm.
Qed.

(* ------------------------------------------------------------------ witnesses *)
Definition pad (n : nat) (l : bytes) : bytes := firstn n (l ++ repeat 0 n).
Fixpoint le_bytes (k : nat) (v : N) : bytes :=
  match k with O => [] | S k' => (v mod 256) :: le_bytes k' (v / 256) end.

(* one NetBSD amd64 utmpx record (520 bytes): user u0, id i0, line pts/0, host h0.example,
   session 1, USER_PROCESS, pid 1000, time 1700000000.000005 *)
Definition nb64_utmpx_rec : bytes :=
  pad 32 (s2b "u0") ++ pad 4 (s2b "i0") ++ pad 32 (s2b "pts/0") ++ pad 256 (s2b "h0.example")
  ++ le_bytes 2 1 ++ le_bytes 2 7 ++ le_bytes 4 1000 ++ le_bytes 4 0 ++ repeat 0 128
  ++ le_bytes 8 1700000000 ++ le_bytes 4 5 ++ le_bytes 4 0 ++ repeat 0 40.
(* 129 of them: 67080 bytes = 129 x 520 = 130 x 516 *)
Definition tie_file : bytes := concat (repeat nb64_utmpx_rec 129).

Definition items_of (n : string) : list sitem :=
  match assoc (s2b n) fixedstruct_score with Some i => i | None => [] end.

(* KNOWN FINDING layout_score_tie: a file of plausible NetBSD-amd64 utmpx records whose size is
   also a multiple of the NetBSD-i386 utmpx entry size: both layouts reach the same high score;
   the code's order (ascending discriminant) picks the i386 layout; the reverse order picks the
   right one: the choice is decided by the iteration order, not by the file *)
Theorem layout_score_tie_refuted :
  plausible (items_of "Fs_Netbsd_x8664_Utmpx") nb64_utmpx_rec = true /\
  cand_scores no_mem count_found_entries_max (candidate_seq 5 tie_file) tie_file
  = Some [(s2b "Fs_Netbsd_x8632_Utmpx", 122%Z); (s2b "Fs_Netbsd_x8664_Utmp", 0%Z); (s2b "Fs_Netbsd_x8664_Utmpx", 122%Z)] /\
  detect no_mem 5 tie_file = Some (Some (s2b "Fs_Netbsd_x8632_Utmpx"), 122%Z) /\
  score_file no_mem count_found_entries_max (rev (candidate_seq 5 tie_file)) tie_file
  = Some (Some (s2b "Fs_Netbsd_x8664_Utmpx"), 122%Z).
Proof. repeat split; vm_compute; reflexivity. Qed.

(* one NetBSD amd64 lastlog record (32 bytes): time 1700485188 (bytes 44 58 5b 65 = "DX[e"),
   line pts/1, host h1.example; 25 of them = 800 bytes = 20 x 40 *)
Definition nb64_lastlog_rec : bytes := le_bytes 8 1700485188 ++ pad 8 (s2b "pts/1") ++ pad 16 (s2b "h1.example").
Definition ll_file : bytes := concat (repeat nb64_lastlog_rec 25).

(* KNOWN FINDING netbsd_lastlog_size_multiple_of_40_with_printable_time_bytes: plausible lastlog
   records, yet the utmp(40) reading outscores the lastlog(32) reading, name bonus included — and
   therefore under EVERY iteration order *)
Theorem lastlog_read_as_utmp_refuted :
  plausible (items_of "Fs_Netbsd_x8664_Lastlog") nb64_lastlog_rec = true /\
  forall cands', Permutation (candidate_set 2 ll_file) cands' ->
    score_file no_mem count_found_entries_max cands' ll_file = Some (Some (s2b "Fs_Netbsd_x8664_Utmp"), 71%Z).
Proof.
  split; [vm_compute; reflexivity|].
  assert (Hl : cand_scores no_mem count_found_entries_max (candidate_set 2 ll_file) ll_file
               = Some [(s2b "Fs_Linux_Arm64Aarch64_Utmpx", 0%Z); (s2b "Fs_Netbsd_x8664_Lastlog", 67%Z); (s2b "Fs_Netbsd_x8664_Utmp", 71%Z)])
    by (vm_compute; reflexivity).
  apply (score_file_order_independent _ _ _ _ _ _ _ Hl).
  - apply nodupb_NoDup. vm_compute. reflexivity.
  - right. right. left. reflexivity.
  - lia.
  - intros m t [H|[H|[H|[]]]] Hne; inversion H; subst; try lia. exfalso. apply Hne. reflexivity.
Qed.

(* the hypotheses of detect_unique_maximum are satisfiable: three of the utmpx records above
   (1560 bytes: candidates NetBSD amd64 utmpx 520 and NetBSD amd64 utmp 40) *)
Definition ok_file : bytes := concat (repeat nb64_utmpx_rec 3).
Example detect_unique_maximum_example :
  detect no_mem 5 ok_file = Some (Some (s2b "Fs_Netbsd_x8664_Utmpx"), 122%Z).
Proof.
  assert (Hl : cand_scores no_mem count_found_entries_max (candidate_set 5 ok_file) ok_file
               = Some [(s2b "Fs_Netbsd_x8664_Utmp", 0%Z); (s2b "Fs_Netbsd_x8664_Utmpx", 122%Z)])
    by (vm_compute; reflexivity).
  apply (detect_unique_maximum _ _ _ _ _ _ Hl).
  - apply nodupb_NoDup. vm_compute. reflexivity.
  - right. left. reflexivity.
  - lia.
  - intros m t [H|[H|[]]] Hne; inversion H; subst; try lia. exfalso. apply Hne. reflexivity.
Qed.

(* a string field without a NUL up to the end of the struct: the score is not a function of the
   entry (KNOWN FINDING score_reads_past_struct_end); witness: a Linux x86 lastlog entry whose
   256-byte ll_host is full *)
Definition lx86_lastlog_full : bytes := le_bytes 4 1700000000 ++ pad 32 (s2b "pts/1") ++ repeat 104 256.
Theorem score_reads_past_struct_end_refuted :
  items_closed (items_of "Fs_Linux_x86_Lastlog") lx86_lastlog_full = false /\
  score_entry [0] (items_of "Fs_Linux_x86_Lastlog") 15 lx86_lastlog_full = Some 549%Z /\
  score_entry [65; 0] (items_of "Fs_Linux_x86_Lastlog") 15 lx86_lastlog_full = Some 551%Z.
Proof. repeat split; vm_compute; reflexivity. Qed.

(* render examples: full-width ut_user (32 bytes, no NUL) followed directly by ut_host bytes: the
   printed ut_user is exactly the 32 bytes *)
Definition lx86_items : list ritem :=
  match assoc (s2b "Fs_Linux_x86_Utmpx") fixedstruct_render with Some i => i | None => [] end.
Definition lx86_utmpx_full_user : bytes :=
  le_bytes 2 7 ++ le_bytes 2 0 ++ le_bytes 4 1000 ++ pad 32 (s2b "pts/3") ++ pad 4 (s2b "ts/3")
  ++ s2b "firstname.lastname@corporate.org" ++ pad 256 (s2b "gateway.corp.example")
  ++ le_bytes 2 0 ++ le_bytes 2 0 ++ le_bytes 4 3 ++ le_bytes 4 1700000000 ++ le_bytes 4 5 ++ repeat 0 36.
Example full_width_user_example :
  render f32_int_text lx86_items as_bytes_tail lx86_utmpx_full_user
  = s2b "ut_type USER_PROCESS ut_pid 1000 ut_line 'pts/3' ut_id 'ts/3' ut_user 'firstname.lastname@corporate.org' ut_host 'gateway.corp.example' e_termination 0 e_exit 0 ut_session '3' ut_xtime 1700000000.5 ut_addr 0.0.0.0"
    ++ [10; 0]
  /\ items_clean f32_int_text lx86_items as_bytes_tail lx86_utmpx_full_user = true
  /\ length lx86_utmpx_full_user = 384%nat.
Proof. repeat split; vm_compute; reflexivity. Qed.

(* ------------------------------------------------------------------ one record, one line *)
Theorem render_rows_single_line : forallb (fun p => forallb line_static (snd p)) fixedstruct_render = true.
Proof. vm_compute. reflexivity. Qed.

Theorem table_record_is_one_line f32txt n items e :
  In (n, items) fixedstruct_render ->
  (forall it, In it items -> needs_value it = true -> memN 10 (item_text f32txt it e) = false) ->
  memN 10 (flat_map (fun it => item_text f32txt it e) items) = false.
Proof.
  intros H Hv. apply record_is_one_line; [|exact Hv].
  apply (proj1 (forallb_forall _ fixedstruct_render) render_rows_single_line (n, items) H).
Qed.

(* KNOWN FINDING netbsd_ss_field_with_newline: the sockaddr bytes of a NetBSD-i386 utmpx record are
   written raw up to their first NUL; sockaddr_in {len 16, AF_INET, port 50000, 10.0.0.5} puts a
   newline byte inside the record's text: the record is printed as two lines *)
Definition nb32_items : list ritem :=
  match assoc (s2b "Fs_Netbsd_x8632_Utmpx") fixedstruct_render with Some i => i | None => [] end.
Definition nb32_utmpx_ss : bytes :=
  pad 32 (s2b "u0") ++ pad 4 (s2b "i0") ++ pad 32 (s2b "pts/0") ++ pad 256 (s2b "h0.example")
  ++ le_bytes 2 1 ++ le_bytes 2 7 ++ le_bytes 4 1000 ++ le_bytes 4 0 ++ pad 128 [16; 2; 195; 80; 10; 0; 0; 5]
  ++ le_bytes 8 1700000000 ++ le_bytes 4 0 ++ repeat 0 40.
Theorem ss_newline_refuted :
  length nb32_utmpx_ss = 516%nat /\
  memN 10 (flat_map (fun it => item_text f32_int_text it nb32_utmpx_ss) nb32_items) = true /\
  item_text f32_int_text (RCstr 336 128 false) nb32_utmpx_ss = [16; 2; 195; 80; 10].
Proof. repeat split; vm_compute; reflexivity. Qed.

(* REGRESSION (fixed by commit b0611f28): set_buffer_at_or_err_i8 as it was wrote a byte >= 0x80 of a
   c_char string as NUL: the UTF-8 name "j\195\188rgen" (6a c3 bc 72 67 65 6e) was shown as
   6a 00 00 72 67 65 6e.  The current code prints the field's bytes (cstr_text_is_field_bytes). *)
Theorem high_byte_printed_as_nul_refuted :
  exists off w e, cstr_text_old off w true e <> take_cstr (slice off w e)
                  /\ cstr_text_old off w true e = [106; 0; 0; 114; 103; 101; 110]
                  /\ take_cstr (slice off w e) = [106; 195; 188; 114; 103; 101; 110]
                  /\ cstr_text off w true e = [106; 195; 188; 114; 103; 101; 110].
Proof.
  exists 0, 32, (pad 32 [106; 195; 188; 114; 103; 101; 110]).
  split; [vm_compute; discriminate|]. repeat split; vm_compute; reflexivity.
Qed.

Theorem cstr_text_is_field_bytes off w s e : cstr_text off w s e = take_cstr (slice off w e).
Proof. reflexivity. Qed.

(* POSITIVE, the unambiguous sizes: when no other layout's entry size divides the file size (the
   candidate set is the file's own layout alone), every read stays inside the struct and one of
   the first COUNT_FOUND_ENTRIES_MAX convertible entries is plausible, that layout is detected,
   with a high score of at least 20 *)
Theorem detect_alone_plausible mem kind file n sz items b e :
  candidate_set kind file = [(n, sz, items, b)] ->
  Forall (fun e => items_closed items e = true) (chunks (length file) (N.to_nat sz) file) ->
  In e (take_conv count_found_entries_max (chunks (length file) (N.to_nat sz) file)) ->
  plausible items e = true -> existsb is_time items = true ->
  exists h, detect mem kind file = Some (Some n, h) /\ (20 <= h)%Z.
Proof.
  intros Hc Hcl Hin Hp Ht.
  destruct (type_high_plausible (mem n) count_found_entries_max sz items b file e Hcl Hin Hp Ht) as [h [Hh [L1 _]]].
  exists h. split; [|exact L1]. unfold detect.
  pose proof (candidate_seq_perm kind file) as P. rewrite Hc in P.
  apply Permutation_length_1_inv in P. rewrite P.
  pose proof (score_file_single mem count_found_entries_max (n, sz, items, b) file h Hh) as Hs.
  unfold cname in Hs. cbn [fst] in Hs.
  assert (E : (0 <? h)%Z = true) by (apply Z.ltb_lt; lia). rewrite E in Hs. exact Hs.
Qed.

(* its hypotheses are satisfiable: one Linux x86 lastlog record (292 bytes; no other entry size
   divides 292) *)
Definition lx86_lastlog_rec : bytes := le_bytes 4 1700000000 ++ pad 32 (s2b "pts/1") ++ pad 256 (s2b "h1.example").
Example detect_alone_plausible_example :
  candidate_set 2 lx86_lastlog_rec = [(s2b "Fs_Linux_x86_Lastlog", 292, items_of "Fs_Linux_x86_Lastlog", 15%Z)] /\
  forallb (items_closed (items_of "Fs_Linux_x86_Lastlog")) (chunks (length lx86_lastlog_rec) 292 lx86_lastlog_rec) = true /\
  take_conv count_found_entries_max (chunks (length lx86_lastlog_rec) 292 lx86_lastlog_rec) = [lx86_lastlog_rec] /\
  plausible (items_of "Fs_Linux_x86_Lastlog") lx86_lastlog_rec = true /\
  existsb is_time (items_of "Fs_Linux_x86_Lastlog") = true /\
  detect no_mem 2 lx86_lastlog_rec = Some (Some (s2b "Fs_Linux_x86_Lastlog"), 77%Z).
Proof. repeat split; vm_compute; reflexivity. Qed.

(* the hypotheses of table_as_bytes_is_render are satisfiable: the f32 formatter of the
   correspondence run is short, the example entry consists of bytes, its layout is in the table *)
Lemma f32_int_text_len b : (length (f32_int_text b) <= 64)%nat.
Proof.
  unfold f32_int_text.
  destruct (le_unsigned b =? 0); [simpl; lia|].
  destruct ((le_unsigned b / 2147483648 =? 0) && (127 <=? le_unsigned b / 8388608 mod 256) && (le_unsigned b / 8388608 mod 256 <=? 150));
    [|simpl; lia].
  set (m := 8388608 + le_unsigned b mod 8388608). set (sh := 150 - le_unsigned b / 8388608 mod 256).
  destruct (m mod 2 ^ sh =? 0); [|simpl; lia].
  assert (Hm : m < 2 ^ 24).
  { unfold m. pose proof (N.mod_upper_bound (le_unsigned b) 8388608 ltac:(lia)) as H.
    remember (le_unsigned b mod 8388608) as r. clear Heqr. change (2 ^ 24) with 16777216. lia. }
  assert (Hd : m / 2 ^ sh < 2 ^ 24).
  { apply N.le_lt_trans with m; [|exact Hm]. apply N.div_le_upper_bound.
    - apply N.pow_nonzero. lia.
    - assert (1 <= 2 ^ sh) by (apply N.lt_succ_r, N.lt_0_succ || (pose proof (N.pow_nonzero 2 sh ltac:(lia)); lia)).
      remember (2 ^ sh) as p. clear Heqp. nia. }
  pose proof (dec_len _ 24 Hd). change (N.to_nat 24) with 24%nat in H. lia.
Qed.

Example as_bytes_example :
  In (s2b "Fs_Linux_x86_Utmpx", lx86_items) fixedstruct_render /\
  bytes_ok lx86_utmpx_full_user /\
  as_bytes f32_int_text print_buffer_cap lx86_items as_bytes_tail lx86_utmpx_full_user
  = ROk (render f32_int_text lx86_items as_bytes_tail lx86_utmpx_full_user).
Proof.
  split; [|split].
  - unfold lx86_items. vm_compute. do 6 right. left. reflexivity.
  - unfold bytes_ok. apply Forall_forall. intros x Hx.
    assert (H : forallb (fun b => b <? 256) lx86_utmpx_full_user = true) by (vm_compute; reflexivity).
    apply N.ltb_lt. apply (proj1 (forallb_forall _ _) H x Hx).
  - vm_compute. reflexivity.
Qed.
