(* Proofs/FixedStructTablesOk.v — finite obligations on the regenerated layout table
   (Gen/FixedStructTables.v), by vm_compute over the table and lifted with forallb_forall. *)
From Coq Require Import List NArith ZArith Bool Lia String.
Import ListNotations.
From S4.Base Require Import Bytes.
From S4.Spec Require Import RecordsSpec.
From S4.Model Require Import Records.
From S4.Gen Require Import FixedStructTables.
Open Scope N_scope.

Definition layout_wfb (l : layout) : bool :=
  (0 <? l_size l) &&
  (l_offset_tv l + l_size_tv l <=? l_size l) &&
  (l_sec_off l + l_sec_len l <=? l_size_tv l) &&
  ((l_sec_len l =? 4) || (l_sec_len l =? 8)) &&
  ((l_usec_len l =? 0) ||
   (((l_usec_len l =? 4) || (l_usec_len l =? 8)) &&
    (l_sec_off l + l_sec_len l <=? l_usec_off l) &&
    (l_usec_off l + l_usec_len l <=? l_size_tv l))) &&
  (l_size_tv l <=? timeval_sz_max) &&
  (entry_sz_min <=? l_size l) && (l_size l <=? entry_sz_max).

Record layout_wf (l : layout) : Prop := {
  wf_size_pos : 0 < l_size l;
  wf_tv_inside : l_offset_tv l + l_size_tv l <= l_size l;
  wf_sec_inside : l_sec_off l + l_sec_len l <= l_size_tv l;
  wf_sec_len : l_sec_len l = 4 \/ l_sec_len l = 8;
  wf_usec : l_usec_len l = 0 \/
            ((l_usec_len l = 4 \/ l_usec_len l = 8) /\
             l_sec_off l + l_sec_len l <= l_usec_off l /\
             l_usec_off l + l_usec_len l <= l_size_tv l);
  wf_tv_buf : l_size_tv l <= timeval_sz_max;
  wf_entry_min : entry_sz_min <= l_size l;
  wf_entry_max : l_size l <= entry_sz_max
}.

Lemma layout_wfb_ok l : layout_wfb l = true -> layout_wf l.
Proof.
  unfold layout_wfb. rewrite !andb_true_iff, !orb_true_iff, !andb_true_iff, !orb_true_iff.
  rewrite !N.ltb_lt, !N.leb_le, !N.eqb_eq. intros [[[[[[[H1 H2] H3] H4] H5] H6] H7] H8].
  constructor; try assumption. intuition.
Qed.

Lemma layouts_wfb : forallb layout_wfb fixedstruct_layouts = true.
Proof. vm_compute. reflexivity. Qed.

(* every supported layout: positive size, the time field inside the entry, the seconds and
   microseconds bytes inside the time field and disjoint, the time field fits the
   TIMEVAL_SZ_MAX stack buffer of preprocess_timevalues, the entry fits ENTRY_SZ_MAX *)
Theorem layouts_wf : forall l, In l fixedstruct_layouts -> layout_wf l.
Proof.
  intros l H. apply layout_wfb_ok.
  apply (proj1 (forallb_forall layout_wfb fixedstruct_layouts) layouts_wfb l H).
Qed.

(* ENTRY_SZ_MIN / ENTRY_SZ_MAX are attained *)
Theorem entry_sz_attained :
  existsb (fun l => l_size l =? entry_sz_min) fixedstruct_layouts = true /\
  existsb (fun l => l_size l =? entry_sz_max) fixedstruct_layouts = true.
Proof. split; vm_compute; reflexivity. Qed.

Fixpoint memb (x : bytes) (l : list bytes) : bool :=
  match l with [] => false | y :: r => beqb x y || memb x r end.
Fixpoint nodupb (l : list bytes) : bool :=
  match l with [] => true | x :: r => negb (memb x r) && nodupb r end.

Theorem layout_names_distinct : nodupb (map l_name fixedstruct_layouts) = true.
Proof. vm_compute. reflexivity. Qed.

(* filesz_to_types: each `filesz % module::NAME_SZ_FO == 0` guard inserts the type of the
   same module and struct (names compared case-insensitively, without the "Fs_" prefix) *)
Theorem filesz_guards_consistent :
  forallb (fun gt => beqb (lower_bytes (fst gt)) (lower_bytes (skipn 3 (snd gt)))) filesz_guards = true.
Proof. vm_compute. reflexivity. Qed.

(* every type named by filesz_to_types is a layout of the table *)
Theorem filesz_types_are_layouts :
  forallb (fun t => memb t (map l_name fixedstruct_layouts)) (filesz_try_all ++ map snd filesz_bonus) = true.
Proof. vm_compute. reflexivity. Qed.

(* a type that receives the name bonus is also in the try-all list *)
Theorem filesz_bonus_subset : forallb (fun kt => memb (snd kt) filesz_try_all) filesz_bonus = true.
Proof. vm_compute. reflexivity. Qed.

(* reachability: every layout is offered by filesz_to_types (try-all list) and receives the
   name bonus under some file kind *)
Theorem layouts_reachable :
  forallb (fun l => memb (l_name l) filesz_try_all) fixedstruct_layouts = true.
Proof. vm_compute. reflexivity. Qed.

Theorem layouts_have_bonus :
  forallb (fun l => memb (l_name l) (map snd filesz_bonus)) fixedstruct_layouts = true.
Proof. vm_compute. reflexivity. Qed.

(* regression statement about the OLD try-all list (frozen snapshot of filesz_to_types before
   commit dd987c74): the NetBSD amd64 lastlogx layout was never offered, so such a file could
   not be read.  Says nothing about the regenerated table. *)
Definition try_all_snapshot : list bytes := map s2b
  ["Fs_Freebsd_x8664_Utmpx"; "Fs_Linux_Arm64Aarch64_Lastlog"; "Fs_Linux_Arm64Aarch64_Utmpx";
   "Fs_Linux_x86_Acct"; "Fs_Linux_x86_Acct_v3"; "Fs_Linux_x86_Lastlog"; "Fs_Linux_x86_Utmpx";
   "Fs_Netbsd_x8632_Acct"; "Fs_Netbsd_x8632_Lastlogx"; "Fs_Netbsd_x8632_Utmpx";
   "Fs_Netbsd_x8664_Lastlog"; "Fs_Netbsd_x8664_Utmp"; "Fs_Netbsd_x8664_Utmpx";
   "Fs_Openbsd_x86_Lastlog"; "Fs_Openbsd_x86_Utmp"]%string.
Definition layout_names_snapshot : list bytes := try_all_snapshot ++ [s2b "Fs_Netbsd_x8664_Lastlogx"].

Theorem layout_reachability_refuted :
  exists n, In n layout_names_snapshot /\ memb n try_all_snapshot = false.
Proof.
  exists (s2b "Fs_Netbsd_x8664_Lastlogx"). split; [|vm_compute; reflexivity].
  unfold layout_names_snapshot. apply in_or_app. right. left. reflexivity.
Qed.

(* ---- decode_tv reads what an encoder of the same layout writes (example per table row is
   evaluated in the correspondence run; here: a closed example) *)
Example decode_tv_example :
  decode_tv (mklayout (s2b "x") 16 4 8 0 4 true 4 4)
            [9; 9; 9; 9;  0x00; 0xF1; 0x53; 0x65;  0x40; 0xE2; 0x01; 0x00;  7; 7; 7; 7]
  = (1700000000, 123456)%Z.
Proof. vm_compute. reflexivity. Qed.
