(* Proofs/RetainFarFifo.v — property C17, OUTSIDE finding F9a, for EVERY first-in-first-out schedule.
   RetainFar.cur_far_no_err is about the canonical schedule `sched_lag lag n`; here the consumer may
   release at any moment, as long as it releases the messages in the order they were sent, never a
   message that has not been sent yet, and the schedule respects the bound `lag` on the number of
   messages the consumer side references (sched_ok).  Then `far lag ms` (the drop distance is at
   least lag) implies that no release ever fails, for either policy.

   CHANGE with respect to the requested statement: `fifo` has a SECOND counter `sent` (the number of
   EW events so far) and `ER j` requires `j < sent`.  With the single-counter definition (the j-th ER
   event is ER j, nothing else) the theorem is FALSE: a release of a message that is not yet sent
   does nothing to `held`, but uses up its turn, so that message is never released; Example
   `fifo_needs_sent` below: [ER 0; EW; EW; ER 1; EW; ER 2; EW; ...] is single-counter fifo, never has
   more than 3 messages referenced, `far 7` holds, and derr = 1 (message 0 is still held when the
   drop reaches it).  Worker iterations after the last message (more EW events than messages) are
   allowed: they do nothing. *)
From Coq Require Import List Arith NArith Bool Sorted Lia.
Import ListNotations.
From S4.Model Require Import Retain.
From S4.Proofs Require Import RetainProofs RetainLayout RetainLag RetainKeepsUp RetainNoErr RetainFar.
Open Scope N_scope.

(* the consumer releases the messages in the order they were sent (the j-th ER event is ER j), and
   only messages the worker has already sent (at least j+1 EW events precede ER j) *)
Fixpoint fifo_from (next sent : N) (evs : list event) : Prop :=
  match evs with
  | [] => True
  | EW :: r => fifo_from next (sent + 1) r
  | ER j :: r => j = next /\ j < sent /\ fifo_from (next + 1) sent r
  end.
Definition fifo (evs : list event) : Prop := fifo_from 0 0 evs.

Fixpoint fifob_from (next sent : N) (evs : list event) : bool :=
  match evs with
  | [] => true
  | EW :: r => fifob_from next (sent + 1) r
  | ER j :: r => (j =? next) && (j <? sent) && fifob_from (next + 1) sent r
  end.
Definition fifob (evs : list event) : bool := fifob_from 0 0 evs.

Lemma fifob_from_sound evs : forall next sent, fifob_from next sent evs = true -> fifo_from next sent evs.
Proof.
  induction evs as [|e r IH]; intros next sent Hb; cbn [fifo_from fifob_from] in *; [exact I|].
  destruct e as [|j]; [apply IH; exact Hb|].
  apply andb_true_iff in Hb as [Hb H3]. apply andb_true_iff in Hb as [H1 H2].
  apply N.eqb_eq in H1. apply N.ltb_lt in H2. splits; auto.
Qed.

Lemma fifob_sound evs : fifob evs = true -> fifo evs.
Proof. apply fifob_from_sound. Qed.

(* the single-counter version of the request, kept for the counterexample *)
Fixpoint fifo1_from (next : N) (evs : list event) : Prop :=
  match evs with
  | [] => True
  | EW :: r => fifo1_from next r
  | ER j :: r => j = next /\ fifo1_from (next + 1) r
  end.

Lemma fifo_fifo1 evs : forall next sent, fifo_from next sent evs -> fifo1_from next evs.
Proof.
  induction evs as [|e r IH]; intros next sent H; cbn [fifo_from fifo1_from] in *; [exact I|].
  destruct e as [|j]; [eapply IH; exact H|]. destruct H as (A & _ & B). split; [exact A|eapply IH; exact B].
Qed.

(* the canonical schedules are first-in-first-out *)
Lemma sched_lag_fifo_from lag : 1 <= lag -> forall cnt k,
  fifo_from (k - lag) k (flat_map (fun k => (if lag <=? k then [ER (k - lag)] else []) ++ [EW]) (nseq k cnt)).
Proof.
  intros Hlag. induction cnt as [|cnt IH]; intros k; cbn [nseq flat_map]; [exact I|].
  specialize (IH (k + 1)).
  destruct (N.leb_spec lag k) as [Hle|Hgt]; cbn [app fifo_from].
  - splits; [reflexivity|lia|]. replace (k - lag + 1) with (k + 1 - lag) by lia. exact IH.
  - replace (k - lag) with (k + 1 - lag) by lia. exact IH.
Qed.

Lemma sched_lag_fifo : forall lag n, 1 <= lag -> fifo (sched_lag lag n).
Proof. intros lag n Hlag. exact (sched_lag_fifo_from lag Hlag n 0). Qed.

(* once every message is found, nothing is dropped any more *)
Lemma done_frozen c evs : forall s, todo s = [] -> derr (run c s evs) = derr s.
Proof.
  induction evs as [|e r IH]; intros s Ht; [reflexivity|]. cbn [run fold_left]. fold (run c (step c s e) r).
  destruct e as [|j]; cbn [step].
  - unfold wstep. rewrite Ht. apply IH. exact Ht.
  - rewrite IH; [reflexivity|exact Ht].
Qed.

Section FarFifo.
Variables (c : cfg) (lag : N) (ms : list msg).
Hypothesis Hlag : 1 <= lag.
Hypothesis Hkeys : map mkey ms = nseq 0 (length ms).
Hypothesis Hfar : far lag ms.

Let n := length ms.

(* the worker has found messages 0..k-1, the consumer has released 0..a-1 *)
Record Inv (k : nat) (a : N) (s : st) : Prop := {
  i_split : exists done, ms = done ++ todo s /\ length done = k;
  i_stage : stage2 s = Nat.eqb k 0;
  i_prev0 : (k <= 1)%nat -> wprev s = None;
  i_prev : (2 <= k)%nat -> (k < n)%nat ->
           exists p, wprev s = Some p /\ In p ms /\ mkey p + 1 = N.of_nat k;
  i_le : a <= N.of_nat k;
  i_held : held s = nseq a (N.to_nat (N.of_nat k - a));
  i_pending : pending s = [];
  i_sys : forall m, In m (syslines s) -> In m ms;
  i_derr : derr s = 0
}.

Lemma not_held_lt s a cnt m : held s = nseq a cnt -> mkey m < a -> is_held s m = false.
Proof.
  intros Hh H1. unfold is_held. destruct (memN (mkey m) (held s)) eqn:E; [|reflexivity].
  apply memN_In in E. rewrite Hh in E. apply in_nseq in E. lia.
Qed.

Lemma Inv_init : Inv 0 0 (init ms).
Proof.
  constructor; cbn [init todo stage2 wprev held pending syslines derr].
  - exists []. split; reflexivity.
  - reflexivity.
  - auto.
  - intros H; inversion H.
  - cbn. lia.
  - reflexivity.
  - reflexivity.
  - intros m [].
  - reflexivity.
Qed.

(* the consumer releases the oldest message it references *)
Lemma Inv_release k a s : Inv k a s -> a < N.of_nat k -> Inv k (a + 1) (release s a).
Proof.
  intros [Hsp Hst Hp0 Hp Hle Hh Hpe Hsys Hde] Ha.
  constructor; cbn [release todo stage2 wprev held pending syslines derr]; auto; [lia|].
  rewrite Hh. replace (N.to_nat (N.of_nat k - a)) with (S (N.to_nat (N.of_nat k - (a + 1)))) by lia.
  apply filter_nseq_head.
Qed.

(* one worker iteration that respects the bound *)
Lemma Inv_find k a s q rest : Inv k a s -> todo s = q :: rest ->
  lenN (held (wstep c s)) <= lag -> Inv (S k) a (wstep c s).
Proof.
  intros [(done & E & Hlen) Hst Hp0 Hp Hle Hh Hpe Hsys Hde] Et Hroom.
  set (K := N.of_nat k) in *.
  rewrite Et in E.
  assert (Hq : In q ms) by (rewrite E; apply in_or_app; right; left; reflexivity).
  pose proof (key_of_split 3 ms ltac:(lia) Hkeys done q rest E) as Hkq. rewrite Hlen in Hkq. fold K in Hkq.
  assert (Hn : n = (k + S (length rest))%nat) by (unfold n; rewrite E, app_length; cbn [length]; lia).
  assert (Hsnoc : nseq a (N.to_nat (K - a)) ++ [mkey q] = nseq a (N.to_nat (K + 1 - a))).
  { replace (N.to_nat (K + 1 - a)) with (S (N.to_nat (K - a))) by lia. rewrite nseq_snoc.
    f_equal. f_equal. lia. }
  (* the room the bound leaves: k + 1 - a <= lag *)
  assert (Hr : K + 1 <= a + lag).
  { destruct (wstep_frame c s q rest Et) as (W1 & _). rewrite W1, Hh, Hsnoc, lenN_nseq in Hroom. lia. }
  unfold wstep. rewrite Et.
  set (s1 := do_find c s (stage2 s) q).
  pose proof (read_lines_grows c (mread (stage2 s) q) s) as (_ & _ & RG). cbv zeta in RG.
  destruct RG as (RI & _).
  destruct RI as (I1 & I2 & I3 & I4 & I5 & I6 & I7 & I8 & I9).
  assert (F1 : syslines s1 = syslines s ++ [q] /\ pending s1 = [] /\
               held s1 = nseq a (N.to_nat (K + 1 - a)) /\ derr s1 = 0).
  { unfold s1, do_find. cbn [store_msg syslines pending held derr].
    splits.
    - rewrite I1. reflexivity.
    - rewrite I2. exact Hpe.
    - rewrite I3, Hh. exact Hsnoc.
    - rewrite I9. exact Hde. }
  destruct F1 as (FS & FP & FH & FD).
  assert (Hsys1 : forall m, In m (syslines s1) -> In m ms).
  { rewrite FS. intros m Hm. apply in_app_or in Hm as [Hm|[<-|[]]]; auto. }
  assert (Hsplit1 : ms = (done ++ [q]) ++ rest) by (rewrite E, <- app_assoc; reflexivity).
  assert (Hlen1 : length (done ++ [q]) = S k) by (rewrite app_length; cbn [length]; lia).
  assert (HK1 : N.of_nat (S k) = K + 1) by lia.
  assert (Hnodrop : forall wp,
            ((S k <= 1)%nat -> wp = None) ->
            ((2 <= S k)%nat -> (S k < n)%nat -> exists p, wp = Some p /\ In p ms /\ mkey p + 1 = N.of_nat (S k)) ->
            Inv (S k) a (set_worker s1 rest false wp)).
  { intros wp Hw0 Hw. constructor; cbn [set_worker todo stage2 wprev held pending syslines derr]; auto.
    - exists (done ++ [q]). split; auto.
    - lia.
    - rewrite FH, HK1. reflexivity. }
  destruct (stage2 s) eqn:Es2.
  - (* k = 0 *)
    assert (k = 0)%nat as Hk0 by (destruct k; [reflexivity|rewrite Hst in Es2; discriminate]).
    apply Hnodrop; auto. intros; lia.
  - assert (0 < k)%nat as Hk0 by (destruct k; [rewrite Hst in Es2; discriminate|lia]).
    destruct rest as [|q' r].
    + (* the last message *)
      apply Hnodrop; auto.
      * intros; lia.
      * intros _ Hlt. cbn [length] in Hn. lia.
    + assert (Hk : (k < n)%nat) by lia.
      destruct (wprev s) as [p|] eqn:Ewp.
      * (* the drop: every candidate has been released by the consumer *)
        assert (2 <= k)%nat as Hk2.
        { destruct (Nat.le_gt_cases 2 k); auto. specialize (Hp0 ltac:(lia)). discriminate. }
        destruct (Hp Hk2 Hk) as (p0 & Ep & Hpin & Hpk). injection Ep as Ep. subst p0.
        fold K in Hpk.
        set (s2 := do_try_drop c s1 p).
        assert (Hs2 : held s2 = held s1 /\ pending s2 = [] /\ derr s2 = 0 /\
                      (forall m, In m (syslines s2) -> In m (syslines s1))).
        { split; [apply try_drop_held|].
          unfold s2, do_try_drop. destruct (mfb p <? 3) eqn:E3; [splits; auto|].
          apply N.ltb_ge in E3.
          rewrite FP. cbn [filter app].
          assert (filter (is_held s1) (filter (fun m => mlb m <=? mfb p - 2) (syslines s1)) = []) as ->.
          { apply filter_none'. intros m Hm. apply filter_In in Hm as [Hm Hc]. apply N.leb_le in Hc.
            apply (not_held_lt s1 a _ m FH).
            pose proof (Hfar m p (Hsys1 m Hm) Hpin E3 ltac:(lia)). lia. }
          cbn [set_index held pending derr syslines]. rewrite FD.
          splits.
          - destruct (pol c); reflexivity.
          - reflexivity.
          - intros m Hm. apply filter_In in Hm as [Hm _]. exact Hm. }
        destruct Hs2 as (H2h & H2p & H2d & H2s).
        constructor; cbn [set_worker todo stage2 wprev held pending syslines derr]; auto.
        -- exists (done ++ [q]). split; auto.
        -- intros; lia.
        -- intros _ _. exists q. splits; auto. rewrite Hkq. lia.
        -- lia.
        -- rewrite H2h, FH, HK1. reflexivity.
      * (* the second message *)
        assert (k = 1)%nat as Hk1.
        { destruct (Nat.le_gt_cases 2 k) as [H2|H2]; [|lia].
          destruct (Hp H2 Hk) as (p & Ep & _). discriminate. }
        apply Hnodrop; auto.
        -- intros; lia.
        -- intros _ _. exists q. splits; auto. rewrite Hkq. lia.
Qed.

Lemma fifo_run evs : forall s k a, Inv k a s -> fifo_from a (N.of_nat k) evs ->
  sched_ok lag c s evs = true -> derr (run c s evs) = 0.
Proof.
  induction evs as [|e r IH]; intros s k a Hi Hf Hok.
  - cbn [run fold_left]. destruct Hi. assumption.
  - cbn [sched_ok] in Hok. apply andb_true_iff in Hok as [Hroom Hok]. apply N.leb_le in Hroom.
    cbn [run fold_left]. fold (run c (step c s e) r).
    destruct e as [|j]; cbn [step fifo_from] in *.
    + destruct (todo s) as [|q rest] eqn:Et.
      * rewrite done_frozen; [|unfold wstep; rewrite Et; exact Et].
        unfold wstep. rewrite Et. destruct Hi. assumption.
      * apply (IH _ (S k) a); [eapply Inv_find; eauto| |exact Hok].
        replace (N.of_nat (S k)) with (N.of_nat k + 1) by lia. exact Hf.
    + destruct Hf as (-> & Hlt & Hf).
      apply (IH _ k (a + 1)); [apply Inv_release; auto|exact Hf|exact Hok].
Qed.

Theorem cur_far_no_err_fifo_sec evs : fifo evs -> sched_ok lag c (init ms) evs = true ->
  derr (run c (init ms) evs) = 0.
Proof. intros Hf Hok. exact (fifo_run evs (init ms) 0%nat 0 Inv_init Hf Hok). Qed.

End FarFifo.

(* when the drop distance is at least the bound on the consumer's references, no release fails under
   ANY first-in-first-out schedule respecting that bound: either policy, plain or streamed *)
Theorem cur_far_no_err_fifo : forall c lag ms evs, 1 <= lag -> map mkey ms = nseq 0 (length ms) -> far lag ms ->
  fifo evs -> sched_ok lag c (init ms) evs = true ->
  derr (run c (init ms) evs) = 0.
Proof. intros c lag ms evs H1 Hk Hf Hfi Hok. exact (cur_far_no_err_fifo_sec c lag ms H1 Hk Hf evs Hfi Hok). Qed.

Theorem cur_far_bounded_fifo : forall bs span ml lag ms c evs, pol c = P_cur -> wf bs span ml ms -> 1 <= lag ->
  map mkey ms = nseq 0 (length ms) -> far lag ms -> fifo evs -> sched_ok lag c (init ms) evs = true ->
  let s := run c (init ms) evs in
  derr s = 0 /\ hs s <= bound_syslines bs span /\ hl s <= bound_lines bs span ml lag.
Proof.
  intros bs span ml lag ms c evs Hc Hwf H1 Hk Hf Hfi Hok. cbv zeta.
  pose proof (cur_far_no_err_fifo c lag ms evs H1 Hk Hf Hfi Hok) as B.
  pose proof (cur_no_err_bounded bs span ml lag ms c evs Hc Hwf Hok B) as (_ & B2 & _ & B4 & _).
  splits; auto.
Qed.

(* ------------------------------------------------------------------ examples *)
(* an irregular first-in-first-out schedule: the consumer is `lo` behind during eight messages, then
   `hi` behind during the next eight, and so on (catching up in one burst) *)
Fixpoint irregular (lo hi k next : N) (cnt : nat) : list event :=
  match cnt with
  | O => []
  | S c' => let tgt := if N.even (k / 8) then lo else hi in
            let rel := nseq next (N.to_nat (k + 1 - tgt - next)) in
            map ER rel ++ [EW] ++ irregular lo hi (k + 1) (next + lenN rel) c'
  end.

Example far_fifo_example :
  let ms := layout_msgs 512 RetainNoErr.far_layout in
  let evs := irregular 1 7 0 0 (length ms) in
  firstn 24 evs = [EW; ER 0; EW; ER 1; EW; ER 2; EW; ER 3; EW; ER 4; EW; ER 5; EW; ER 6; EW;
                   EW; EW; EW; EW; EW; EW; ER 7; EW; ER 8] /\
  fifob evs = true /\ farb 7 ms = true /\
  sched_ok 7 cur_plain (init ms) evs = true /\ derr (run cur_plain (init ms) evs) = 0 /\
  (* worker iterations after the last message are allowed *)
  fifob (evs ++ [EW; EW]) = true /\ derr (run cur_plain (init ms) (evs ++ [EW; EW])) = 0.
Proof. vm_compute. repeat split; reflexivity. Qed.

(* the side condition `j < sent` is needed: a release before the send uses up the message's turn *)
Definition premature (n : nat) : list event :=
  [ER 0; EW; EW] ++ flat_map (fun k => [ER (k - 1); EW]) (nseq 2 (n - 2)).

Example fifo_needs_sent :
  let ms := layout_msgs 512 RetainNoErr.far_layout in
  let evs := premature (length ms) in
  farb 7 ms = true /\ fifob evs = false /\
  sched_ok 3 cur_plain (init ms) evs = true /\ sched_ok 7 cur_plain (init ms) evs = true /\
  derr (run cur_plain (init ms) evs) = 1.
Proof. vm_compute. repeat split; reflexivity. Qed.

Lemma premature_fifo1 : fifo1_from 0 (premature (length (layout_msgs 512 RetainNoErr.far_layout))).
Proof.
  assert (forall cnt k, 1 <= k -> fifo1_from (k - 1) (flat_map (fun k => [ER (k - 1); EW]) (nseq k cnt))) as H.
  { induction cnt as [|cnt IH]; intros k Hk; cbn [nseq flat_map app fifo1_from]; [exact I|].
    split; [reflexivity|]. replace (k - 1 + 1) with (k + 1 - 1) by lia. apply IH. lia. }
  unfold premature. cbn [app fifo1_from]. split; [reflexivity|]. exact (H _ 2 ltac:(lia)).
Qed.

Print Assumptions cur_far_no_err_fifo.
Print Assumptions cur_far_bounded_fifo.
