(* Proofs/PrintStrip.v — what a printed message consists of (payload bytes, byte count,
   field order), SGR stripping, positional stripping. *)
From S4.Base Require Import Bytes.
From S4.Model Require Import Strftime Print.
From S4.Proofs Require Import PrintSem PrintVariants.
Open Scope nat_scope.

(* the decorated bytes of a message: file field, date field, line — for every line *)
Definition dec_bytes (o : popts) (m : msg) : bytes :=
  concat (map (fun l => prefix o m ++ l) (flat_lines m)).

Lemma wbytes_guarded c s : wbytes (guarded c s) = s.
Proof. destruct s; simpl; [reflexivity|]. rewrite app_nil_r. reflexivity. Qed.

Lemma split3 (l : bytes) b e : b <= e -> firstn b l ++ slice l b e ++ skipn e l = l.
Proof.
  unfold slice. revert l e. induction b as [|b IH]; intros l e H.
  - simpl. rewrite Nat.sub_0_r. apply firstn_skipn.
  - destruct l as [|a l].
    + rewrite skipn_nil, !firstn_nil, skipn_nil. reflexivity.
    + destruct e as [|e]; [lia|]. simpl. f_equal. apply IH. lia.
Qed.

Lemma wbytes_hl_flat m l : m_beg m <= m_end m -> wbytes (hl_flat m l) = l.
Proof.
  intro H. unfold hl_flat. rewrite !wbytes_app, !wbytes_guarded, slice_0. apply split3, H.
Qed.

Lemma slice_to_end (l : bytes) e : slice l e (length l) = skipn e l.
Proof. unfold slice. apply firstn_all2. rewrite skipn_length. lia. Qed.

Lemma wbytes_fx_colored m : m_beg m <= m_end m -> wbytes (fx_colored m) = m_data m.
Proof.
  intro H. unfold fx_colored. simpl. rewrite app_nil_r, slice_0, slice_to_end. apply split3, H.
Qed.

Lemma wbytes_data_colored m d : m_beg m <= m_end m -> wbytes (data_colored m d) = d.
Proof. intro H. unfold data_colored. simpl. rewrite app_nil_r, slice_0. apply split3, H. Qed.

Lemma wbytes_line_colored m a l : m_beg m <= m_end m -> wbytes (line_colored m a l) = l.
Proof.
  intro H. unfold line_colored. destruct (_ && _); simpl; rewrite app_nil_r; [|reflexivity].
  rewrite slice_0. apply split3. lia.
Qed.

Lemma wbytes_flat_map {A} (f : A -> prog) ls : wbytes (flat_map f ls) = concat (map (fun x => wbytes (f x)) ls).
Proof. induction ls; simpl; [reflexivity|]. rewrite wbytes_app, IHls. reflexivity. Qed.

Lemma wbytes_map_first {A} (f : bool -> A -> prog) (g : A -> bytes) ls :
  (forall b x, wbytes (f b x) = g x) -> wbytes (map_first f ls) = concat (map g ls).
Proof.
  intro H. destruct ls as [|x ls]; simpl; [reflexivity|].
  rewrite wbytes_app, H, wbytes_flat_map. f_equal. f_equal.
  apply map_ext. intro; apply H.
Qed.

Lemma wbytes_loop_at (f : nat -> bytes -> prog) (g : bytes -> bytes) ls :
  (forall a x, wbytes (f a x) = g x) -> forall a, wbytes (loop_at f a ls) = concat (map g ls).
Proof.
  intro H. induction ls; intro a0; simpl; [reflexivity|]. rewrite wbytes_app, H, IHls. reflexivity.
Qed.

Lemma concat_map_nilpre (ls : list bytes) : concat (map (fun l => [] ++ l) ls) = concat ls.
Proof. induction ls as [|a ls IH]; simpl in *; [reflexivity | rewrite IH; reflexivity]. Qed.

Lemma wbytes_decorate o m : wf_msg m -> m_beg m <= m_end m -> wbytes (decorate o m) = dec_bytes o m.
Proof.
  intros Hwf Hbe. unfold decorate, dec_bytes.
  destruct (o_colour o).
  - unfold decorate_colour. unfold wf_msg in Hwf. destruct (m_kind m).
    + (* KSys *)
      rewrite !wbytes_app. simpl (wbytes [C CDefault]). rewrite app_nil_r.
      destruct (has_prefix o) eqn:Hp; simpl (wbytes _) at 1; simpl app at 1.
      * apply wbytes_map_first. intros b x. simpl. destruct b.
        -- rewrite wbytes_hl_flat by assumption. reflexivity.
        -- simpl. rewrite app_nil_r. reflexivity.
      * assert (Hn : prefix o m = []).
        { unfold has_prefix in Hp. unfold prefix. apply orb_false_iff in Hp as [H1 H2]. rewrite H1, H2. reflexivity. }
        rewrite Hn. apply wbytes_map_first. intros b x. simpl. destruct b.
        -- apply wbytes_hl_flat; assumption.
        -- simpl. apply app_nil_r.
    + (* KFixed *)
      destruct Hwf as [l Hl]. rewrite wbytes_app, wbytes_fx_colored by assumption.
      unfold m_data, flat_lines. rewrite Hl. simpl. rewrite !app_nil_r.
      destruct (has_prefix o) eqn:Hp; simpl; rewrite ?app_nil_r; [reflexivity|].
      unfold has_prefix in Hp. unfold prefix. apply orb_false_iff in Hp as [H1 H2]. rewrite H1, H2. reflexivity.
    + (* KEvtx *)
      destruct (has_prefix o) eqn:Hp.
      * rewrite wbytes_app. simpl (wbytes [C CDefault]). rewrite app_nil_r.
        apply wbytes_loop_at. intros a x. simpl. rewrite wbytes_line_colored by assumption. reflexivity.
      * rewrite wbytes_data_colored by assumption.
        unfold has_prefix in Hp. unfold prefix. apply orb_false_iff in Hp as [H1 H2]. rewrite H1, H2.
        simpl. symmetry. apply concat_map_nilpre.
    + (* KJournal *)
      destruct (has_prefix o) eqn:Hp.
      * rewrite wbytes_app. simpl (wbytes [C CDefault]). rewrite app_nil_r.
        apply wbytes_loop_at. intros a x. simpl. rewrite wbytes_line_colored by assumption. reflexivity.
      * rewrite wbytes_data_colored by assumption.
        unfold has_prefix in Hp. unfold prefix. apply orb_false_iff in Hp as [H1 H2]. rewrite H1, H2.
        simpl. symmetry. apply concat_map_nilpre.
  - unfold decorate_plain. induction (flat_lines m); simpl; congruence.
Qed.

(* C13 field order + "only the requested bytes": the payload of what any non-excluded variant
   writes is, line by line, file field ++ date field ++ line; and that is what is counted *)
Theorem print_msg_payload o m last :
  wf_full m -> m_beg m <= m_end m ->
  payload (sem_out (print_msg o m) last) = dec_bytes o m /\ printed_of (print_msg o m) = blen (dec_bytes o m).
Proof.
  intros Hwf Hbe.
  assert (H : wbytes (print_msg o m) = dec_bytes o m).
  { rewrite <- (payload_sem (print_msg o m) last). unfold sem_out.
    rewrite (variants_agree_peq o m Hwf last). fold (sem_out (decorate o m) last).
    rewrite payload_sem. apply wbytes_decorate; [apply Hwf | assumption]. }
  split.
  - rewrite payload_sem. exact H.
  - unfold printed_of. rewrite H. reflexivity.
Qed.

(* with colour off nothing but payload is written *)
Lemma decorate_plain_no_C o m : no_C (decorate_plain o m) = true.
Proof. unfold decorate_plain. apply no_C_map_Wf. Qed.

Theorem print_msg_plain_out o m last :
  wf_full m -> m_beg m <= m_end m -> o_colour o = false ->
  sem_out (print_msg o m) last = obs (dec_bytes o m) /\ sem_last (print_msg o m) last = last.
Proof.
  intros Hwf Hbe Hc. unfold sem_out, sem_last.
  rewrite (variants_agree_peq o m Hwf last). unfold decorate. rewrite Hc.
  rewrite (sem_no_C _ last (decorate_plain_no_C o m)). simpl.
  pose proof (wbytes_decorate o m (proj1 Hwf) Hbe) as H. unfold decorate in H. rewrite Hc in H.
  rewrite H. auto.
Qed.

(* every dispatched program ends with a flush or a colour change: the buffer is empty afterwards *)
Lemma print_msg_ends_flushed o m : ends_flushed (print_msg o m) = true.
Proof.
  unfold print_msg, print_sysline, print_fixedstruct, print_evtx, print_journalentry.
  destruct (m_kind m), (o_colour o), (o_file o), (o_date o);
    unfold print_sysline_, print_sysline_prependdate, print_sysline_prependfile,
      print_sysline_prependfile_prependdate, print_sysline_color, print_sysline_prependdate_color,
      print_sysline_prependfile_color, print_sysline_prependfile_prependdate_color,
      print_fixedstruct_, print_fixedstruct_prependdate, print_fixedstruct_prependfile,
      print_fixedstruct_prependfile_prependdate, print_fixedstruct_color, print_fixedstruct_prependdate_color,
      print_fixedstruct_prependfile_color, print_fixedstruct_prependfile_prependdate_color, fx_colored,
      print_evtx_, print_evtx_prepend, print_evtx_color, print_evtx_prepend_color, data_colored,
      print_journalentry_, print_journalentry_prepend, print_journalentry_color, print_journalentry_prepend_color;
    rewrite ?app_assoc;
    try (apply ends_flushed_app; reflexivity); reflexivity.
Qed.

(* ---------------------------------------------------------------- SGR stripping *)
Definition sgr_ok (g : cls -> bytes) : Prop :=
  forall c rest, strip_go None (g c ++ rest) = strip_go None rest.

Definition no_esc (l : bytes) : Prop := ~ In 27%N l.

Lemma strip_sgr_concr g os : sgr_ok g -> no_esc (payload os) -> strip_sgr (concr g os) = payload os.
Proof.
  intros Hg. unfold strip_sgr. induction os as [|x os IH]; intro Hn; [reflexivity|].
  destruct x as [b|c]; simpl in *.
  - destruct (N.eqb_spec b 27) as [E|E].
    + exfalso. apply Hn. left. exact E.
    + f_equal. apply IH. intro Hin. apply Hn. right. exact Hin.
  - rewrite Hg. apply IH. exact Hn.
Qed.

Example termcolor_sgr_ok : sgr_ok (termcolor_sgr 102 230 102).
Proof. intros c rest. destruct c; reflexivity. Qed.

(* ---------------------------------------------------------------- positional stripping *)
Lemma drop_prefix_app p r : drop_prefix p (p ++ r) = Some r.
Proof. induction p as [|x p IH]; simpl; [reflexivity|]. rewrite N.eqb_refl. exact IH. Qed.

Lemma strip_lines_ok pre ls rest :
  strip_lines pre (map (@length N) ls) (concat (map (fun l => pre ++ l) ls) ++ rest) = Some (concat ls, rest).
Proof.
  induction ls as [|l ls IH]; simpl; [reflexivity|].
  rewrite <- !app_assoc, drop_prefix_app.
  destruct (Nat.ltb_spec (length (l ++ concat (map (fun l0 => pre ++ l0) ls) ++ rest)) (length l)) as [H|H].
  - rewrite app_length in H. lia.
  - rewrite skipn_app, skipn_all, Nat.sub_diag. simpl. rewrite IH.
    rewrite firstn_app, firstn_all, Nat.sub_diag. simpl. rewrite app_nil_r. reflexivity.
Qed.

Lemma strip_msgs_cons pre ls del keep sh rest q :
  strip_msgs sh rest = Some q ->
  strip_msgs ((pre, map (@length N) ls, del, keep) :: sh)
             (concat (map (fun l => pre ++ l) ls) ++ del ++ keep ++ rest) = Some (concat ls ++ keep ++ q).
Proof.
  intro H. simpl. rewrite strip_lines_ok, drop_prefix_app, drop_prefix_app, H. reflexivity.
Qed.

Lemma no_esc_app a b : no_esc a -> no_esc b -> no_esc (a ++ b).
Proof. unfold no_esc. intros Ha Hb H. apply in_app_iff in H as [H|H]; auto. Qed.

Lemma no_esc_dec_bytes o m :
  no_esc (prefix o m) -> Forall no_esc (flat_lines m) -> no_esc (dec_bytes o m).
Proof.
  intros Hp Hl. unfold dec_bytes. induction Hl as [|l ls H1 H2 IH]; simpl.
  - intro H; exact H.
  - apply no_esc_app; [apply no_esc_app; assumption | exact IH].
Qed.

(* C13 strip_decorate, one printed message followed by the separator *)
Theorem strip_decorate g o m last del :
  wf_full m -> m_beg m <= m_end m ->
  (o_colour o = true -> sgr_ok g /\ no_esc (prefix o m) /\ Forall no_esc (flat_lines m) /\ no_esc del) ->
  strip o m del (concr g (sem_out (print_msg o m) last ++ obs del)) = Some (plain m).
Proof.
  intros Hwf Hbe Hcol. unfold strip.
  destruct (print_msg_payload o m last Hwf Hbe) as [Hpay _].
  assert (Hstr : (if o_colour o then strip_sgr (concr g (sem_out (print_msg o m) last ++ obs del))
                  else concr g (sem_out (print_msg o m) last ++ obs del)) = dec_bytes o m ++ del).
  { destruct (o_colour o) eqn:Hc.
    - destruct (Hcol eq_refl) as (Hg & Hp & Hl & Hd).
      rewrite strip_sgr_concr; [rewrite payload_app, payload_obs, Hpay; reflexivity | exact Hg |].
      rewrite payload_app, payload_obs, Hpay. apply no_esc_app; [apply no_esc_dec_bytes; assumption | exact Hd].
    - destruct (print_msg_plain_out o m last Hwf Hbe Hc) as [Ho _].
      rewrite Ho, concr_app, !concr_obs. reflexivity. }
  rewrite Hstr. unfold shape_of_msg, dec_bytes.
  pose proof (strip_msgs_cons (prefix o m) (flat_lines m) del [] [] [] [] eq_refl) as H.
  change ([] ++ []) with (@nil N) in H. rewrite !app_nil_r in H. exact H.
Qed.

(* the hypotheses of strip_decorate are satisfiable, colour on *)
Example strip_decorate_example :
  let o := {| o_colour := true; o_file := true; o_date := true; o_ff := [102;58]%N;
              o_fmt := default_fmt ++ [58%N]; o_off := 19800%Z |} in
  let m := {| m_kind := KSys; m_t := 1704164645123456789%Z;
              m_lines := [[[50;48;50;52]%N; [32;120;10]%N]; [[32;121;10]%N]]; m_beg := 0; m_end := 4 |} in
  strip o m [124%N] (concr (termcolor_sgr 102 230 102) (sem_out (print_msg o m) None ++ obs [124%N]))
  = Some (plain m).
Proof. vm_compute. reflexivity. Qed.
