(* Proofs/CliDtSpecProofs.v — the spec evaluated with the closed-form day count is the spec.
   (Corr/C14.v evaluates [spec_bounds_fast]; this file is why that is legitimate.) *)
From Coq Require Import ZArith Bool Lia.
From S4.Base Require Import Bytes.
From S4.Spec Require Import CalendarSpec CliDtRef CliDtSpec.
From S4.Proofs Require Import CalendarProofs.
Open Scope Z_scope.

Definition spec_bounds_fast := spec_bounds_with spec_days_fast.

Lemma instant_with_fast y m d h mi s fr off :
  instant_with spec_days_fast y m d h mi s fr off = instant_with spec_days y m d h mi s fr off.
Proof. unfold instant_with. rewrite spec_days_fast_eq. reflexivity. Qed.

Lemma denote_with_fast f tz now o : denote_with spec_days_fast f tz now o = denote f tz now o.
Proof.
  unfold denote. destruct f; cbn [denote_with]; rewrite ?instant_with_fast; try reflexivity.
  destruct (zone_secs z tz); rewrite ?instant_with_fast; reflexivity.
Qed.

Lemma denote_opt_with_fast f tz now o : denote_opt_with spec_days_fast f tz now o = denote_opt f tz now o.
Proof. unfold denote_opt, denote_opt_with. destruct f; [rewrite denote_with_fast|]; reflexivity. Qed.

Theorem spec_bounds_fast_eq fa fb tz now : spec_bounds_fast fa fb tz now = spec_bounds fa fb tz now.
Proof.
  unfold spec_bounds_fast, spec_bounds, spec_bounds_with.
  destruct (is_at fa && is_at fb); [reflexivity|].
  destruct (is_at fa).
  - rewrite (denote_opt_with_fast fb). unfold denote_opt.
    destruct (denote_opt_with spec_days fb tz now None); [|reflexivity].
    rewrite (denote_opt_with_fast fa). unfold denote_opt. reflexivity.
  - rewrite (denote_opt_with_fast fa). unfold denote_opt.
    destruct (denote_opt_with spec_days fa tz now None); [|reflexivity].
    rewrite (denote_opt_with_fast fb). unfold denote_opt. reflexivity.
Qed.
