(* Proofs/WalkStdin.v — C15, work package L: the path list on stdin, at the BYTE level
   (Model/Walk.v stdin_lines = BufRead::lines as cli_process_args consumes it). *)
From Coq Require Import Lia.
From S4.Base Require Import Bytes.
From S4.Model Require Import Classify Walk.
From S4.Proofs Require Import WalkProofs.
Open Scope N_scope.

(* ------------------------------------------------------------ UTF-8 and an ASCII byte at the end *)
Lemma cont_ascii c : (c <? 128) = true -> cont c = false.
Proof. intro H. unfold cont. apply N.ltb_lt in H. destruct (128 <=? c) eqn:E; [apply N.leb_le in E; lia | reflexivity]. Qed.

Lemma utf8_valid_snoc_ascii c : (c <? 128) = true ->
  forall n a, (length a <= n)%nat -> utf8_valid (a ++ [c]) = utf8_valid a.
Proof.
  intros Hc. pose proof (cont_ascii c Hc) as Hcc.
  induction n as [|n IH]; intros a Hlen.
  - destruct a; [|simpl in Hlen; lia]. cbn [app utf8_valid]. now rewrite Hc.
  - destruct a as [|b0 r]; [cbn [app utf8_valid]; now rewrite Hc|].
    simpl in Hlen. cbn [app utf8_valid].
    destruct (b0 <? 128); [apply IH; lia|].
    destruct (in_range 194 223 b0).
    { destruct r as [|b1 r1]; cbn [app].
      - now rewrite Hcc.
      - simpl in Hlen. rewrite IH by lia. reflexivity. }
    destruct (in_range 224 239 b0).
    { destruct r as [|b1 [|b2 r2]]; cbn [app].
      - reflexivity.
      - rewrite Hcc. now rewrite Bool.andb_false_r.
      - simpl in Hlen. rewrite IH by lia. reflexivity. }
    destruct (in_range 240 244 b0); [|reflexivity].
    destruct r as [|b1 [|b2 [|b3 r3]]]; cbn [app].
    + reflexivity.
    + reflexivity.
    + rewrite Hcc. now rewrite Bool.andb_false_r.
    + simpl in Hlen. rewrite IH by lia. reflexivity.
Qed.

Lemma utf8_valid_snoc c a : (c <? 128) = true -> utf8_valid (a ++ [c]) = utf8_valid a.
Proof. intro H. now apply (utf8_valid_snoc_ascii c H (length a)). Qed.

(* ------------------------------------------------------------ chunks *)
Definition no_nl (p : bytes) : Prop := existsb (N.eqb nl) p = false.

Lemma no_nl_cons c p : no_nl (c :: p) -> (c =? nl) = false /\ no_nl p.
Proof.
  unfold no_nl. cbn [existsb]. intro H. apply Bool.orb_false_iff in H. destruct H as [H1 H2].
  split; [now rewrite N.eqb_sym | exact H2].
Qed.

Lemma raw_lines_line p : forall rest, no_nl p -> raw_lines (p ++ nl :: rest) = (p, true) :: raw_lines rest.
Proof.
  induction p as [|c p IH]; intros rest H.
  - reflexivity.
  - apply no_nl_cons in H. destruct H as [Hc Hp]. cbn [app raw_lines]. rewrite Hc, (IH rest Hp). reflexivity.
Qed.

Lemma raw_lines_tail p : no_nl p -> p <> [] -> raw_lines p = [(p, false)].
Proof.
  induction p as [|c p IH]; intros H Hne; [contradiction|].
  apply no_nl_cons in H. destruct H as [Hc Hp]. cbn [raw_lines]. rewrite Hc.
  destruct p as [|d p]; [reflexivity|]. rewrite IH; [reflexivity | exact Hp | discriminate].
Qed.

Lemma chunk_valid lt : utf8_valid (chunk_of lt) = utf8_valid (fst lt).
Proof.
  destruct lt as [l [|]]; unfold chunk_of; cbn [fst snd].
  - now apply utf8_valid_snoc.
  - now rewrite app_nil_r.
Qed.

Lemma until_invalid_cons lt r :
  until_invalid (lt :: r) = if utf8_valid (fst lt) then strip_line lt :: until_invalid r else [].
Proof. cbn [until_invalid]. now rewrite chunk_valid. Qed.

Lemma strip_keep p : (last p 0 =? cr) = false -> strip_line (p, true) = p.
Proof.
  intro H. unfold strip_line. destruct (rev p) as [|c r] eqn:E; [reflexivity|].
  assert (Hp : p = rev r ++ [c]) by (rewrite <- (rev_involutive p), E; reflexivity).
  rewrite Hp in H. rewrite last_last in H. now rewrite H.
Qed.

Lemma strip_crlf p : strip_line (p ++ [cr], true) = p.
Proof. unfold strip_line. rewrite rev_app_distr. simpl. now rewrite rev_involutive. Qed.

Lemma line_safe_spec p :
  line_safe p = true <-> utf8_valid p = true /\ no_nl p /\ (last p 0 =? cr) = false.
Proof.
  unfold line_safe, no_nl. rewrite !Bool.andb_true_iff, !Bool.negb_true_iff. tauto.
Qed.

(* ------------------------------------------------------------ the theorem on bytes *)
(* the lines read from the byte stream "paths joined by \n, with or without a final \n" are the
   paths — nothing trimmed, empty lines kept — for all paths that are valid UTF-8, hold no "\n"
   and do not end in "\r"; without the final "\n" the last path must not be empty *)
Theorem stdin_lines_join_thm : forall paths final,
  Forall (fun p => line_safe p = true) paths ->
  (final = false -> last paths [0] <> []) ->
  stdin_lines (join_lines paths final) = paths.
Proof.
  induction paths as [|p r IH]; intros final Hs Hf; [reflexivity|].
  inversion Hs as [|? ? Hp Hr]; subst. apply line_safe_spec in Hp. destruct Hp as (Hu & Hn & Hc).
  cbn [join_lines]. destruct r as [|q r].
  - destruct final.
    + unfold stdin_lines. rewrite raw_lines_line by exact Hn. cbn [raw_lines]. rewrite until_invalid_cons. cbn [fst].
      rewrite Hu, strip_keep by exact Hc. reflexivity.
    + rewrite app_nil_r. unfold stdin_lines. rewrite raw_lines_tail; [|exact Hn|now apply Hf].
      rewrite until_invalid_cons. cbn [fst]. rewrite Hu. reflexivity.
  - unfold stdin_lines in *. rewrite raw_lines_line by exact Hn. rewrite until_invalid_cons. cbn [fst].
    rewrite Hu, strip_keep by exact Hc. f_equal.
    apply IH; [exact Hr|]. intro E. specialize (Hf E). exact Hf.
Qed.

(* CRLF: a list whose lines end in "\r\n" yields the same paths (ONE "\r" is removed) *)
Theorem stdin_lines_crlf_thm : forall paths,
  Forall (fun p => utf8_valid p = true /\ no_nl p) paths ->
  stdin_lines (join_lines (map (fun p => p ++ [cr]) paths) true) = paths.
Proof.
  induction paths as [|p r IH]; intro Hs; [reflexivity|].
  inversion Hs as [|? ? [Hu Hn] Hr]; subst.
  assert (Hn' : no_nl (p ++ [cr])).
  { unfold no_nl in *. rewrite existsb_app, Hn. reflexivity. }
  cbn [map join_lines]. destruct r as [|q r].
  - cbn [map]. unfold stdin_lines. rewrite raw_lines_line by exact Hn'.
    cbn [raw_lines]. rewrite until_invalid_cons. cbn [fst].
    rewrite utf8_valid_snoc by reflexivity. rewrite Hu, strip_crlf. reflexivity.
  - cbn [map]. cbn [map] in IH. unfold stdin_lines in *. rewrite raw_lines_line by exact Hn'.
    rewrite until_invalid_cons. cbn [fst].
    rewrite utf8_valid_snoc by reflexivity. rewrite Hu, strip_crlf. f_equal. now apply IH.
Qed.

(* ... hence a legal path that itself ends in "\r" is read WITHOUT it when a "\n" follows *)
Theorem stdin_trailing_cr_lost_thm : forall p,
  utf8_valid p = true -> no_nl p -> stdin_lines ((p ++ [cr]) ++ [nl]) = [p].
Proof.
  intros p Hu Hn. apply (stdin_lines_crlf_thm [p]). constructor; [split; assumption | constructor].
Qed.

Theorem stdin_trailing_cr_refuted_thm :
  exists p, utf8_valid p = true /\ no_nl p /\ stdin_lines (p ++ [nl]) <> [p].
Proof. exists [120; 13]. repeat split. vm_compute. discriminate. Qed.

(* the first line that is not valid UTF-8 ends the list: it and everything after it are dropped *)
Theorem stdin_invalid_truncates_thm : forall good bad rest,
  Forall (fun p => line_safe p = true) good ->
  utf8_valid bad = false -> no_nl bad ->
  stdin_lines (flat_map (fun p => p ++ [nl]) good ++ bad ++ nl :: rest) = good.
Proof.
  induction good as [|p r IH]; intros bad rest Hs Hb Hn.
  - cbn [flat_map app]. unfold stdin_lines. rewrite raw_lines_line by exact Hn.
    rewrite until_invalid_cons. cbn [fst]. now rewrite Hb.
  - inversion Hs as [|? ? Hp Hr]; subst. apply line_safe_spec in Hp. destruct Hp as (Hu & Hnp & Hc).
    cbn [flat_map]. rewrite <- !app_assoc. cbn [app]. unfold stdin_lines in *.
    rewrite raw_lines_line by exact Hnp. rewrite until_invalid_cons. cbn [fst].
    rewrite Hu, strip_keep by exact Hc. f_equal. now apply IH.
Qed.

(* ------------------------------------------------------------ argv with "-" and the bytes of stdin *)
Theorem stdin_equiv_bytes_thm : forall l1 l2 l3 final,
  (forall a, In a l1 -> is_dash_b a = false) -> (forall a, In a l3 -> is_dash_b a = false) ->
  Forall (fun p => line_safe p = true) l2 ->
  (final = false -> last l2 [0] <> []) ->
  args_of (l1 ++ dash :: l3) (join_lines l2 final) = l1 ++ l2 ++ l3.
Proof.
  intros l1 l2 l3 final H1 H3 Hs Hf. unfold args_of. rewrite stdin_lines_join_thm by assumption.
  now apply (proj1 (stdin_equiv_thm bytes is_dash_b l1 l2 l3 dash eq_refl H1 H3)).
Qed.

(* without "-" stdin is not read *)
Lemma args_of_nodash l stdin : (forall a, In a l -> is_dash_b a = false) -> args_of l stdin = l.
Proof. intro H. unfold args_of, main_paths. now apply main_paths_aux_nodash. Qed.

(* nothing is trimmed, empty lines are paths: " a \n\n\tb" *)
Example stdin_blanks_example :
  stdin_lines [32; 97; 32; 10; 10; 9; 98] = [[32; 97; 32]; []; [9; 98]]
  /\ line_safe [32; 97; 32] = true /\ line_safe [] = true /\ line_safe [9; 98] = true
  /\ args_of [[120]; dash; [121]] (join_lines [[32; 97; 32]; []; [9; 98]] false) = [[120]; [32; 97; 32]; []; [9; 98]; [121]].
Proof. repeat split; vm_compute; reflexivity. Qed.
