(* Proofs/CachesFwdProofs.v — streamed containers with block drops ENABLED: the LineReader in a FORWARD sweep.

   The section is generic in the BLOCK DISCIPLINE of the container (RD b k: every block from k on can be read, in
   ascending order; DN b j: block j was reached, so a block at least two below it may be dropped), instantiated at
   the end of the file for
     gz / bz2 / lz4   a sequential decoder with the look-behind drop: RD b k = SI b /\ b_dec b <= k + 1
     xz               pre-sliced at open: RD b k = every block from k on is still stored
     tar members, plain files   every miss reads the block (all blocks) again: RD = reads_total.

   The invariant FWD l d g of a LineReader l:
     g  the frontier: every line that begins in d .. g-1 is stored in `lines`, nothing at or beyond g is
        stored, every block from the block of g on can be read and every stored line begins in a block that
        was reached;
     d  the horizon below which lines may have been dropped (drop_data_try).
   A call of find_line / find_line_in_block at a line begin x with d <= x <= g (or at the end of the file)
   is answered without any block that is gone: x < g is a cache hit (no read at all), x = g reads
   blk g, blk g + 1, ... forward (the preceding line is stored: shortcuts A0 / A1a / A1b, no backward
   search) - theorems find_line_fw, find_line_in_block_fw.  drop_line of a line that ends before d in a
   block at least two below the decoder keeps the invariant - lr_drop_line_fw. *)
From S4.Base Require Import Bytes Chunk.
From S4.Spec Require Import LinesSpec.
From S4.Model Require Import Lines Syslines Caches.
From S4.Proofs Require Import LinesProofs SyslinesProofs CachesProofs CachesSysProofs CachesRunProofs
  CachesGateProofs CachesExamples CachesStreamProofs.
Open Scope N_scope.

(* ---------------------------------------------------------------- line begins *)

Section LineBegins.
  Variable f : file.

  (* a line begin at or before x is at or before the begin of the line of x *)
  Lemma line_beg_ge d x : x <= lenN f -> line_beg f d = d -> d <= x -> d <= line_beg f x.
  Proof.
    intros LX LD DX. destruct (line_beg_is_beg f x LX) as (B1 & B2 & B3).
    destruct (N.le_gt_cases d (line_beg f x)) as [C|C]; [exact C|exfalso].
    destruct (line_beg_is_beg f d ltac:(lia)) as (_ & _ & D3). rewrite LD in D3.
    destruct D3 as [D3|D3]; [lia|]. apply (B2 (d - 1)); [lia|lia|exact D3].
  Qed.

  (* the line before a line begin (or before the end of the file) ends right before it *)
  Lemma prev_line_span x : 0 < x -> x <= lenN f -> (x = lenN f \/ line_beg f x = x) ->
    span f (line_beg f (x - 1)) (x - 1).
  Proof.
    intros P LX BX. destruct (span_of f (x - 1) ltac:(lia)) as (SP & _ & _).
    assert (E : line_end f (x - 1) = x - 1).
    { apply line_end_char. unfold is_end. split; [lia|]. split; [lia|]. split; [intros k K1 K2; lia|].
      destruct BX as [->|BX]; [right; reflexivity|left].
      destruct (line_beg_is_beg f x LX) as (_ & _ & B3). rewrite BX in B3. destruct B3 as [B3|B3]; [lia|exact B3]. }
    rewrite E in SP. exact SP.
  Qed.

  (* the line that begins at x < g ends before the line begin g *)
  Lemma next_begin_le x g : x < g -> g <= lenN f -> (g = lenN f \/ line_beg f g = g) -> line_end f x + 1 <= g.
  Proof.
    intros XG GL BG. destruct (line_end_is_end f x ltac:(lia)) as (E1 & E2 & E3 & E4).
    destruct BG as [->|BG]; [lia|].
    destruct (N.le_gt_cases (line_end f x + 1) g) as [C|C]; [exact C|exfalso].
    destruct (line_beg_is_beg f g GL) as (_ & _ & B3). rewrite BG in B3. destruct B3 as [B3|B3]; [lia|].
    apply (E3 (g - 1)); [lia|lia|exact B3].
  Qed.
End LineBegins.

(* ================================================================ the LineReader *)

Section FwdLines.
  Variable bs : N.
  Variable f : file.
  Hypothesis Hbs : 0 < bs.

  Local Notation lr_inv0 := (lr_inv0 bs f).
  Local Notation sline_ok := (sline_ok bs f).
  Local Notation blk := (blk bs).

  (* the block discipline of the container *)
  Variable RD : bstate -> N -> Prop.
  Variable DN : bstate -> N -> Prop.
  Hypothesis RD_mono : forall b k k', RD b k -> k <= k' -> RD b k'.
  Hypothesis RD_read : forall refd b k j, RD b k -> k <= j -> j <= blast bs f -> 0 < lenN f ->
    exists b', b_read_block refd (lenN f) (blast bs f) b j = (b', BFound) /\ RD b' j /\ DN b' j /\
               (forall i, DN b i -> DN b' i).
  Hypothesis RD_drop : forall refd b k j bo, RD b k -> DN b j -> j <= k -> bo + 2 <= j ->
    RD (b_drop_block refd b bo) k /\ (forall i, DN b i -> DN (b_drop_block refd b bo) i).

  Definition FWD (l : lr_state) (d g : N) : Prop :=
    lr_inv0 l /\ RD (l_blk l) (blk g) /\ d <= g /\ g <= lenN f /\ line_beg f d = d /\
    (g = lenN f \/ line_beg f g = g) /\ (g = 0 \/ d < g) /\
    (forall x, d <= x -> x < g -> line_beg f x = x -> stored_at l x) /\
    (forall x, stored_at l x -> x < g /\ DN (l_blk l) (blk x)).

  (* where the next call may be: a line begin between the horizon and the frontier, or the end of the file *)
  Definition cursor (d g x : N) : Prop :=
    (d <= x /\ x <= g /\ (x = lenN f \/ line_beg f x = x)) \/ x = lenN f.

  Lemma blk_mono x y : x <= y -> blk x <= blk y.
  Proof. intro L. unfold CachesStreamProofs.blk, block_offset_at_file_offset. apply div_mono; assumption. Qed.

  Lemma FWD_init b : RD b 0 -> FWD (lr_init_b b) 0 0.
  Proof.
    intro R0. assert (B0 : blk 0 = 0) by (unfold CachesStreamProofs.blk, block_offset_at_file_offset; apply N.div_0_l; lia).
    split; [split; cbn; intros; try discriminate; contradiction|]. split; [rewrite B0; exact R0|].
    split; [lia|]. split; [lia|]. split; [apply (first_line_beg bs f Hbs); reflexivity|].
    split; [right; apply (first_line_beg bs f Hbs); reflexivity|]. split; [left; reflexivity|].
    split; [intros x X1 X2; lia|]. intros x X. exfalso. apply X. reflexivity.
  Qed.

  (* reads through the LineReader *)
  Lemma lr_read_rd l ip k bo l' r : RD (l_blk l) k -> k <= bo -> bo <= blast bs f -> 0 < lenN f ->
    lr_read bs f l ip bo = (l', r) ->
    r = BFound /\ same_maps l l' /\ RD (l_blk l') bo /\ DN (l_blk l') bo /\ (forall i, DN (l_blk l) i -> DN (l_blk l') i).
  Proof.
    intros R K B F. unfold lr_read. destruct (b_read_block _ _ _ _ _) as [b x] eqn:E. intro H; injection H as <- <-.
    destruct (RD_read (lr_refd l ip) (l_blk l) k bo R K B F) as (b' & E' & R' & D' & M').
    unfold blast in E'. rewrite E in E'. injection E' as -> ->. split; [reflexivity|]. split; [repeat split|]. auto.
  Qed.

  Lemma lr_reads_fwd_rd n : forall l lo b k l' r, RD (l_blk l) k -> k <= b ->
    b + N.of_nat n <= blast bs f -> 0 < lenN f -> lr_reads_fwd (S n) bs f l lo b = (l', r) ->
    r = BFound /\ same_maps l l' /\ RD (l_blk l') (b + N.of_nat n) /\ DN (l_blk l') b /\
    (forall i, DN (l_blk l) i -> DN (l_blk l') i).
  Proof.
    induction n as [|n IH]; intros l lo b k l' r R K L F; cbn [lr_reads_fwd].
    - destruct (lr_read bs f l _ b) as [l1 r1] eqn:RD1.
      destruct (lr_read_rd _ _ _ _ _ _ R K ltac:(lia) F RD1) as (-> & M1 & R1 & D1 & MO1).
      intro H; injection H as <- <-. replace (b + N.of_nat 0) with b by lia. auto.
    - destruct (lr_read bs f l _ b) as [l1 r1] eqn:RD1.
      rewrite Nat2N.inj_succ in L.
      destruct (lr_read_rd _ _ _ _ _ _ R K ltac:(lia) F RD1) as (-> & M1 & R1 & D1 & MO1).
      intro H. destruct (IH l1 lo (b + 1) b l' r R1 ltac:(lia) ltac:(lia) F H) as (-> & M2 & R2 & D2 & MO2).
      split; [reflexivity|]. split; [eapply same_maps_trans; eauto|].
      split; [rewrite Nat2N.inj_succ; replace (b + N.succ (N.of_nat n)) with (b + 1 + N.of_nat n) by lia; exact R2|].
      split; [apply MO2; exact D1|]. intros i Di. apply MO2. apply MO1. exact Di.
  Qed.

  (* the invariant looks at `lines`, `foend_to_fobeg`, the LRU cache (through lr_inv0) and the BlockReader *)
  Lemma FWD_upd l l' d g : lr_inv0 l' -> l_lines l' = l_lines l -> l_blk l' = l_blk l -> FWD l d g -> FWD l' d g.
  Proof.
    intros I A B (_ & F2 & F3 & F4 & F5 & F6 & F7 & F8 & F9).
    unfold FWD, stored_at in *. rewrite A, B. auto 12.
  Qed.

  (* the predecessor of a line begin above the horizon is stored *)
  Lemma fwd_pred l d g x : FWD l d g -> d < x -> x <= g -> (x = lenN f \/ line_beg f x = x) -> pred_stored l x.
  Proof.
    intros (I & _ & F3 & F4 & F5 & _ & _ & F8 & _) DX XG BX.
    pose proof (prev_line_span f x ltac:(lia) ltac:(lia) BX) as SP.
    assert (ST : stored_at l (line_beg f (x - 1))).
    { apply F8; [apply line_beg_ge; [lia|exact F5|lia]| |].
      - destruct SP as (? & _). lia.
      - destruct (span_in f _ _ (line_beg f (x - 1)) SP ltac:(lia) ltac:(destruct SP; lia)) as [Q _]. exact Q. }
    pose proof (stored_pred bs f Hbs l _ _ I ST SP) as X. replace (x - 1 + 1) with x in X by lia. exact X.
  Qed.

  (* below the frontier everything is a cache hit; at the frontier the line is read forward *)
  Theorem find_line_fw l ex d g x l' r p : FWD l d g -> lru_stored l -> cursor d g x ->
    c_find_line bs f (lr_set_ext ex l) x = (l', r, p) ->
    lres_ok bs f x r /\ lru_stored l' /\ (forall y, stored_at l y -> stored_at l' y) /\
    exists g', g <= g' /\ FWD l' d g' /\ (x < lenN f -> stored_at l' x /\ line_end f x + 1 <= g').
  Proof.
    intros FW SS CU.
    pose proof FW as (I & RDl & F3 & F4 & F5 & F6 & F7 & F8 & F9).
    set (l0 := lr_set_ext ex l).
    assert (I0 : lr_inv0 l0) by (eapply lr_inv0_maps; [| | |exact I]; reflexivity).
    assert (S0 : lru_stored l0) by (apply (lru_stored_same l); auto).
    unfold c_find_line.
    destruct (lr_check_lru l0 x) as [l1 [y|]] eqn:CL.
    { (* LRU hit: the key is a stored line begin *)
      destruct (lr_check_lru_ok0 bs f _ _ _ _ I0 CL) as [I1 R]. pose proof (blk_check_lru _ _ _ _ CL) as B1.
      destruct (check_lru_seq _ _ _ _ S0 CL) as (S1 & L1 & _ & X).
      change (l_lines l0) with (l_lines l) in L1. change (l_blk l0) with (l_blk l) in B1.
      pose proof (entry_lt bs f Hbs _ _ R) as LT.
      pose proof (entry_result bs f Hbs x y R LT) as RR.
      intro H; injection H as <- <- <-.
      destruct y as [n s|]; [|destruct R].
      assert (XG : x < g) by (apply F9; exact X).
      split; [exact RR|]. split; [exact S1|]. split; [unfold stored_at; rewrite L1; auto|].
      exists g. split; [lia|]. split; [apply (FWD_upd l); [exact I1|rewrite L1; reflexivity|rewrite B1; reflexivity|exact FW]|].
      intros _. split; [unfold stored_at; rewrite L1; exact X|]. apply next_begin_le; assumption. }
    destruct (lr_check_lru_ok0 bs f _ _ _ _ I0 CL) as [I1 _]. pose proof (blk_check_lru _ _ _ _ CL) as B1.
    destruct (check_lru_seq _ _ _ _ S0 CL) as (S1 & L1 & E1 & _).
    change (l_lines l0) with (l_lines l) in L1. change (l_foend l0) with (l_foend l) in E1.
    change (l_blk l0) with (l_blk l) in B1.
    assert (FW1 : FWD l1 d g) by (apply (FWD_upd l); [exact I1|rewrite L1; reflexivity|rewrite B1; reflexivity|exact FW]).
    assert (EOF : lenN f <= x -> lres_ok bs f x Done).
    { intro Q. unfold lres_ok. destruct (N.ltb_spec x (lenN f)); [lia|reflexivity]. }
    assert (ATEOF : lenN f <= x ->
      lres_ok bs f x Done /\ lru_stored l1 /\ (forall y, stored_at l y -> stored_at l1 y) /\
      exists g', g <= g' /\ FWD l1 d g' /\ (x < lenN f -> stored_at l1 x /\ line_end f x + 1 <= g')).
    { intro Q. split; [apply EOF; exact Q|]. split; [exact S1|]. split; [unfold stored_at; rewrite L1; auto|].
      exists g. split; [lia|]. split; [exact FW1|]. intro. lia. }
    destruct (N.eqb_spec (lenN f) 0) as [Z|Z]; cbn [orb].
    { intro H; injection H as <- <- <-. apply ATEOF. lia. }
    destruct (N.ltb_spec (lenN f) x) as [Z2|Z2]; cbn [orb].
    { intro H; injection H as <- <- <-. apply ATEOF. lia. }
    destruct (N.eqb_spec x (lenN f)) as [Z3|Z3].
    { intro H; injection H as <- <- <-. apply ATEOF. lia. }
    assert (L : x < lenN f) by lia.
    destruct CU as [(DX & XG & BX)|CU]; [|lia].
    assert (LB : line_beg f x = x) by (destruct BX; [lia|assumption]).
    destruct (span_of f x L) as (SPx & _ & _). rewrite LB in SPx.
    unfold lr_check_store.
    destruct (alookup x (l_lines l1)) as [s|] eqn:LK.
    { (* the line is in `lines` *)
      destruct (lr_answer _ _ _ _ _) as [[l2 r2] p2] eqn:AN.
      destruct (li0_lines bs f _ I1 _ _ LK) as (e & OK).
      assert (STq : stored_at (lr_cnt lc_hits_up l1) x) by (unfold stored_at; cbn; congruence).
      destruct (answer_seq bs _ _ _ _ _ _ _ (cnt_seq _ _ S1) STq AN) as (S2 & L2 & _). cbn in L2.
      assert (XE : x <= e) by (destruct OK as [(? & _) _]; assumption).
      destruct (lr_answer_ok bs f Hbs _ x _ _ _ _ _ x e (lr_inv0_cnt bs f _ _ I1) OK (N.le_refl x) XE AN) as [I2 R2].
      pose proof (blk_answer _ _ _ _ _ _ _ _ AN) as B2. cbn in B2.
      intro H; injection H as <- <- <-.
      assert (ST : stored_at l x) by (unfold stored_at; rewrite <- L1; congruence).
      assert (XG' : x < g) by (apply F9; exact ST).
      split; [exact R2|]. split; [exact S2|]. split; [unfold stored_at; rewrite L2, L1; auto|].
      exists g. split; [lia|]. split; [apply (FWD_upd l); [exact I2|rewrite L2, L1; reflexivity|rewrite B2, B1; reflexivity|exact FW]|].
      intros _. split; [unfold stored_at; rewrite L2, L1; exact ST|]. apply next_begin_le; assumption. }
    destruct (lr_get_linep (lr_cnt lc_miss_up l1) x) as [s|] eqn:GL.
    { (* a stored line contains the offset: it begins there *)
      exfalso. destruct (get_linep_sound0 bs f _ _ _ (lr_inv0_cnt bs f _ _ I1) GL) as (b & e & OK & B1' & B2' & LKB & _).
      destruct OK as [SP _]. destruct (span_in f b e x SP B1' B2') as [Q _]. rewrite LB in Q. subst b.
      cbn in LKB. congruence. }
    (* miss: x is the frontier *)
    set (l3 := lr_cnt lc_miss_up l1).
    assert (I3 : lr_inv0 l3) by (apply lr_inv0_cnt; exact I1).
    assert (S3 : lru_stored l3) by (apply cnt_seq; exact S1).
    assert (NS : ~ stored_at l x) by (unfold stored_at; rewrite <- L1, LK; intro Q; apply Q; reflexivity).
    assert (XG' : x = g).
    { destruct (N.eq_dec x g) as [Q|Q]; [exact Q|exfalso]. apply NS. apply F8; [exact DX|lia|exact LB]. }
    subst g.
    assert (PK : x <> 0 -> alookup (x - 1) (l_lines l3) <> None \/ lr_get_linep l3 (x - 1) <> None).
    { intro NZ. destruct F7 as [F7|F7]; [lia|].
      destruct (fwd_pred l d x x FW F7 ltac:(lia) BX) as [PS|[PS|PS]]; [contradiction|left|right].
      - cbn. rewrite L1. exact PS.
      - unfold lr_get_linep in *. cbn. rewrite L1, E1. exact PS. }
    destruct (fwd_search_ok bs f x (S (length f)) Hbs L (fuel_ok bs f Hbs ltac:(lia)))
      as (e & after & bme & FWS & E & _ & _ & _ & MID & _). rewrite FWS.
    assert (LE : e = line_end f x) by (symmetry; apply line_end_char; exact E).
    assert (EE : x <= e /\ e < lenN f) by (destruct E as (? & ? & _); split; assumption).
    destruct (lr_reads_fwd _ bs f l3 _ _) as [l4 rf] eqn:RF.
    assert (RD3 : RD (l_blk l3) (blk x)) by (cbn; rewrite B1; exact RDl).
    pose proof (blk_mono x e (proj1 EE)) as BXE.
    assert (RNG : blk x + N.of_nat (N.to_nat (blk e - blk x)) <= blast bs f).
    { pose proof (bfwd_range bs f Hbs x e (proj1 EE) (proj2 EE)) as Q. rewrite Nat2N.inj_succ in Q.
      unfold CachesStreamProofs.blk. lia. }
    destruct (lr_reads_fwd_rd _ _ _ _ _ _ _ RD3 (N.le_refl _) RNG ltac:(lia) RF) as (-> & SM & RD4 & DN4 & MO4).
    rewrite N2Nat.id in RD4. replace (blk x + (blk e - blk x)) with (blk e) in RD4 by lia.
    pose proof (same_maps_inv bs f _ _ SM I3) as I4.
    assert (MO4' : forall i, DN (l_blk l) i -> DN (l_blk l4) i) by (intros i Di; apply MO4; cbn; rewrite B1; exact Di).
    destruct SM as (A1 & A2 & A3 & _).
    assert (S4 : lru_stored l4) by (apply (lru_stored_same l3); [exact A1|rewrite A3; auto|exact S3]).
    assert (L4 : l_lines l4 = l_lines l) by (rewrite A1; cbn; exact L1).
    assert (FIN : forall l5 l6 r6 p6 ps, lr_inv0 l5 -> lru_stored l5 -> l_blk l5 = l_blk l4 -> l_lines l5 = l_lines l ->
              line_ok bs f ps x (line_end f x) ->
              lr_store_found bs l5 x (line_end f x + 1) ps p6 = (l6, r6, p) ->
              lres_ok bs f x r6 /\ lru_stored l6 /\ (forall y, stored_at l y -> stored_at l6 y) /\
              exists g', x <= g' /\ FWD l6 d g' /\ (x < lenN f -> stored_at l6 x /\ line_end f x + 1 <= g')).
    { intros l5 l6 r6 p6 ps I5 S5 B5 L5 OK SF.
      assert (OK' : line_ok bs f ps (line_beg f x) (line_end f x)) by (rewrite LB; exact OK).
      destruct (lr_store_found_ok bs f Hbs _ _ _ _ _ _ _ I5 L OK' SF) as [I6 R6].
      destruct (store_found_seq bs f _ _ _ _ _ _ _ _ _ I5 S5 OK SF) as (S6 & M6 & ST6 & _ & FR6 & B6).
      assert (M6' : forall y, stored_at l y -> stored_at l6 y) by (intros y Y; apply M6; unfold stored_at in *; rewrite L5; exact Y).
      split; [exact R6|]. split; [exact S6|]. split; [exact M6'|].
      exists (line_end f x + 1). split; [lia|]. split; [|intros _; split; [exact ST6|lia]].
      assert (B65 : l_blk l6 = l_blk l4) by (rewrite B6, B5; reflexivity).
      rewrite <- LE.
      split; [exact I6|]. split; [rewrite B65; apply (RD_mono _ (blk e)); [exact RD4|apply blk_mono; lia]|].
      split; [lia|]. split; [lia|]. split; [exact F5|].
      split; [destruct (N.eq_dec (e + 1) (lenN f)) as [Q|Q]; [left; exact Q|right; rewrite LE; apply (span_next_beg f x _ SPx); lia]|].
      split; [right; lia|]. split.
      - intros y Y1 Y2 Y3. destruct (N.lt_ge_cases y x) as [C|C]; [apply M6'; apply F8; assumption|].
        rewrite LE in Y2. destruct (span_in f _ _ y SPx C ltac:(lia)) as [Q _]. rewrite Y3 in Q. subst y. exact ST6.
      - intros y Y. rewrite B65. destruct (FR6 y Y) as [Q|Q].
        + unfold stored_at in Q. rewrite L5 in Q. destruct (F9 y Q) as [Q1 Q2]. split; [lia|]. apply MO4'. exact Q2.
        + subst y. split; [lia|exact DN4]. }
    destruct (N.eqb_spec x 0) as [Z0|Z0].
    - (* A0 *)
      specialize (MID (block_index_at_file_offset x bs) ltac:(lia)).
      destruct (mid_line_ok bs f Hbs x e after bme L LB E MID) as [_ OK]. rewrite LB in OK.
      rewrite LE. subst x. intro H. eapply (FIN l4); eauto.
    - assert (MIDOK : line_ok bs f ((block_offset_at_file_offset x bs, block_index_at_file_offset x bs, bme + 1) :: after)
                                x (line_end f x)).
      { destruct (mid_line_ok bs f Hbs x e after bme L LB E (MID (block_index_at_file_offset x bs) ltac:(lia))) as [_ OK]. rewrite LB in OK. exact OK. }
      rewrite LE.
      destruct (alookup (x - 1) (l_lines l4)) as [sp|] eqn:Q1.
      + intro H. eapply (FIN (lr_cnt lc_hits_up l4)); [apply lr_inv0_cnt; exact I4|apply cnt_seq; exact S4|reflexivity|exact L4|exact MIDOK|exact H].
      + destruct (lr_get_linep (lr_cnt lc_miss_up l4) (x - 1)) as [sp|] eqn:Q2.
        * intro H. eapply (FIN (lr_cnt lc_miss_up l4)); [apply lr_inv0_cnt; exact I4|apply cnt_seq; exact S4|reflexivity|exact L4|exact MIDOK|exact H].
        * exfalso. destruct (PK Z0) as [Q|Q].
          -- apply Q. rewrite <- A1. exact Q1.
          -- apply Q. unfold lr_get_linep in *. cbn in Q2. rewrite A1, A2 in Q2. exact Q2.
  Qed.

  (* reading a block from the readable range succeeds, whatever the reference counts *)
  Lemma reads_ok_rd l k bo : RD (l_blk l) k -> k <= bo -> bo <= blast bs f -> 0 < lenN f -> reads_ok bs f l bo.
  Proof.
    intros R K B F l2 ip E. destruct (lr_read bs f l2 ip bo) as [l3 rr] eqn:RDq.
    assert (R2 : RD (l_blk l2) k) by (rewrite E; exact R).
    destruct (lr_read_rd _ _ _ _ _ _ R2 K B F RDq) as (-> & _). reflexivity.
  Qed.

  (* find_line_in_block in the same situation (block-zero analysis; horizon 0): the line is found and stored, or
     it does not end inside the block (Done) and nothing changes but the decoder position *)
  Theorem find_line_in_block_fw l ex g x l' r part p : FWD l 0 g -> lru_stored l -> x <= g -> x < lenN f ->
    line_beg f x = x -> c_find_line_in_block bs f (lr_set_ext ex l) x = (l', (r, part), p) ->
    lru_stored l' /\ (forall y, stored_at l y -> stored_at l' y) /\
    exists g', g <= g' /\ FWD l' 0 g' /\
    ((exists s, r = Found (line_end f x + 1, s) /\ sline_ok s x (line_end f x) /\ stored_at l' x /\
                line_end f x + 1 <= g') \/
     (r = Done /\ x + 1 < lenN f /\
      match part with
      | None => True
      | Some s => bytes_of bs f (sl_parts s) = slice f x (x + 1) /\ line_fo_begin bs (sl_parts s) = Some x
      end)).
  Proof.
    intros FW SS XG L LB C.
    pose proof FW as (I & RDl & F3 & F4 & F5 & F6 & F7 & F8 & F9).
    set (l0 := lr_set_ext ex l) in *.
    assert (I0 : lr_inv0 l0) by (eapply lr_inv0_maps; [| | |exact I]; reflexivity).
    assert (S0 : lru_stored l0) by (apply (lru_stored_same l); auto).
    assert (PS : pred_stored l0 x).
    { destruct (N.eq_dec x 0) as [Z|Z]; [left; exact Z|].
      apply (fwd_pred l 0 g x FW ltac:(lia) XG (or_intror LB)). }
    assert (BL : blk x <= blast bs f) by (apply (blockoffset_last_ge (lenN f) bs x Hbs L)).
    assert (RD0 : ~ stored_at l0 x -> reads_ok bs f l0 (block_offset_at_file_offset x bs)).
    { intro NS. assert (x = g).
      { destruct (N.eq_dec x g) as [Q|Q]; [exact Q|exfalso]. apply NS. apply F8; [lia|lia|exact LB]. }
      subst g. apply (reads_ok_rd l0 (blk x)); [exact RDl|apply N.le_refl|exact BL|lia]. }
    destruct (lb_seq0 bs f Hbs _ _ _ _ _ _ I0 S0 L LB PS RD0 C) as (I' & S' & MONO & FR & BK & R).
    change (l_lines l0) with (l_lines l) in BK. change (l_blk l0) with (l_blk l) in BK.
    change (stored_at l0 x) with (stored_at l x) in BK.
    assert (FR' : forall y, stored_at l' y -> stored_at l y \/ (y = x /\ exists n s, r = Found (n, s))) by exact FR.
    assert (MONO' : forall y, stored_at l y -> stored_at l' y) by exact MONO.
    clear FR MONO. rename FR' into FR. rename MONO' into MONO.
    split; [exact S'|]. split; [exact MONO|].
    destruct (N.lt_ge_cases x g) as [LT|GE].
    - (* below the frontier: a hit *)
      assert (ST : stored_at l x) by (apply F8; [lia|exact LT|exact LB]).
      destruct BK as [[B LL]|(NS & _)]; [|contradiction].
      exists g. split; [lia|]. split.
      + apply (FWD_upd l); [exact I'|exact LL|exact B|exact FW].
      + destruct R as [(s & A1 & A2 & A3)|R]; [left|right; exact R].
        exists s. split; [exact A1|]. split; [exact A2|]. split; [exact A3|]. apply next_begin_le; assumption.
    - assert (x = g) by lia. subst g.
      assert (NS : ~ stored_at l x) by (intro Q; destruct (F9 x Q); lia).
      destruct BK as [[B LL]|(_ & l2 & ip & E2 & E)].
      + (* no read: nothing was stored, the answer is Done *)
        destruct R as [(s & A1 & A2 & A3)|R].
        * exfalso. apply NS. unfold stored_at in *. rewrite <- LL. exact A3.
        * exists x. split; [lia|]. split; [apply (FWD_upd l); [exact I'|exact LL|exact B|exact FW]|right; exact R].
      + destruct (lr_read bs f l2 ip (block_offset_at_file_offset x bs)) as [l3 rr] eqn:RDq. cbn [fst] in E.
        assert (R2 : RD (l_blk l2) (blk x)) by (rewrite E2; exact RDl).
        destruct (lr_read_rd _ _ _ _ _ _ R2 (N.le_refl _) BL ltac:(lia) RDq) as (_ & _ & R3 & D3 & MO3).
        assert (RD' : RD (l_blk l') (blk x)) by (rewrite E; exact R3).
        assert (DN' : DN (l_blk l') (blk x)) by (rewrite E; exact D3).
        assert (OLD : forall y, stored_at l y -> y < x /\ DN (l_blk l') (blk y)).
        { intros y Y. destruct (F9 y Y) as [Q1 Q2]. split; [exact Q1|]. rewrite E. apply MO3. rewrite E2. exact Q2. }
        destruct R as [(s & A1 & A2 & A3)|R].
        * (* found inside the block, stored: the frontier moves behind the line *)
          destruct A2 as [SP CH]. pose proof SP as (SP1 & SP2 & _).
          exists (line_end f x + 1). split; [lia|]. split; [|left; exists s; split; [exact A1|]; split; [split; assumption|]; split; [exact A3|lia]].
          split; [exact I'|]. split; [apply (RD_mono _ (blk x)); [exact RD'|apply blk_mono; lia]|].
          split; [lia|]. split; [lia|]. split; [exact F5|].
          split; [destruct (N.eq_dec (line_end f x + 1) (lenN f)) as [Q|Q]; [left; exact Q|right; apply (span_next_beg f x _ SP); lia]|].
          split; [right; lia|]. split.
          -- intros y Y1 Y2 Y3. destruct (N.lt_ge_cases y x) as [Q|Q]; [apply MONO; apply F8; assumption|].
             destruct (span_in f _ _ y SP Q ltac:(lia)) as [Q1 _]. rewrite Y3 in Q1. subst y. exact A3.
          -- intros y Y. destruct (FR y Y) as [Q|[-> _]].
             ++ destruct (OLD y Q). split; [lia|assumption].
             ++ split; [lia|exact DN'].
        * (* the line does not end inside the block *)
          exists x. split; [lia|]. split; [|right; exact R].
          split; [exact I'|]. split; [exact RD'|]. split; [lia|]. split; [lia|]. split; [exact F5|]. split; [exact F6|].
          split; [exact F7|]. split.
          -- intros y Y1 Y2 Y3. apply MONO. apply F8; assumption.
          -- intros y Y. destruct (FR y Y) as [Q|[_ (n & s & Q)]]; [apply OLD; exact Q|].
             destruct R as [Q' _]. rewrite Q' in Q. discriminate.
  Qed.

  Lemma find_line_in_block_eof l ex g l' r part p : FWD l 0 g -> lru_stored l ->
    c_find_line_in_block bs f (lr_set_ext ex l) (lenN f) = (l', (r, part), p) ->
    r = Done /\ part = None /\ lru_stored l' /\ (forall y, stored_at l y -> stored_at l' y) /\ FWD l' 0 g.
  Proof.
    intros FW SS C. pose proof FW as (I & _).
    set (l0 := lr_set_ext ex l) in *.
    assert (I0 : lr_inv0 l0) by (eapply lr_inv0_maps; [| | |exact I]; reflexivity).
    assert (S0 : lru_stored l0) by (apply (lru_stored_same l); auto).
    destruct (lb_eof0 bs f Hbs _ _ _ _ _ I0 S0 C) as (A & B & I' & S' & M & LL).
    destruct (lb_eof_blk bs f _ _ _ _ C) as [E|E]; [|lia].
    split; [exact A|]. split; [exact B|]. split; [exact S'|]. split; [exact M|].
    apply (FWD_upd l); [exact I'|exact LL|exact E|exact FW].
  Qed.

  (* ---------------------------------------------------------------- LineReader::drop_line
     of a line that ends below the horizon, in a block at least two below a block that was reached (jp) *)

  Lemma fold_drop_blocks (refdf : lr_state -> N -> bool) k jp (ps : list part) : forall st,
    RD (l_blk st) k -> DN (l_blk st) jp -> jp <= k -> (forall q, In q ps -> part_bo q + 2 <= jp) ->
    let st' := fold_left (fun st q => lr_set_blk (b_drop_block (refdf st) (l_blk st) (part_bo q)) st) ps st in
    RD (l_blk st') k /\ (forall i, DN (l_blk st) i -> DN (l_blk st') i) /\
    l_lines st' = l_lines st /\ l_foend st' = l_foend st /\ l_lru st' = l_lru st.
  Proof.
    induction ps as [|q ps IH]; intros st R D JK B; cbn [fold_left]; [auto|].
    set (st1 := lr_set_blk _ st).
    destruct (RD_drop (refdf st) (l_blk st) k jp (part_bo q) R D JK (B q (or_introl eq_refl))) as (R1 & M1).
    destruct (IH st1 R1 (M1 _ D) JK (fun q' Q => B q' (or_intror Q))) as (A1 & A2 & A3 & A4 & A5).
    cbv zeta in *. split; [exact A1|]. split; [intros i Di; apply A2; apply M1; exact Di|]. auto.
  Qed.

  Lemma in_removelast {A} (x : A) l : In x (removelast l) -> In x l.
  Proof.
    induction l as [|a l IH]; cbn; [auto|]. destruct l as [|b l]; [intros []|].
    intros [E|E]; [left; exact E|right; apply IH; exact E].
  Qed.

  Lemma part_bo_chain ps lo hi : chain bs ps lo hi -> forall q, In q ps -> part_bo q <= blk (hi - 1).
  Proof.
    revert lo; induction ps as [|q0 ps IH]; intros lo C q IN; [contradiction|].
    destruct C as (C1 & C2 & C3 & C4). destruct IN as [<-|IN].
    - assert (LE : part_bo q0 * bs + part_end q0 <= hi).
      { clear -C4 Hbs. revert C4. generalize (part_bo q0 * bs + part_end q0). induction ps as [|q1 ps IH2]; intros lo2 C; cbn in C; [lia|].
        destruct C as (D1 & D2 & D3 & D4). specialize (IH2 _ D4).
        unfold part_fo, file_offset_at_block_offset_index, file_offset_at_block_offset in D1. lia. }
      unfold CachesStreamProofs.blk, block_offset_at_file_offset.
      assert (part_bo q0 = (part_bo q0 * bs + (part_end q0 - 1)) / bs) by (symmetry; apply div_unique_bs; lia).
      rewrite H. apply div_mono; [exact Hbs|lia].
    - eapply IH; eauto.
  Qed.

  Theorem lr_drop_line_fw l ex s extra b e d g jp : FWD l d g -> lru_stored l -> sline_ok s b e -> e < d ->
    DN (l_blk l) jp -> jp <= blk g -> blk e + 2 <= jp ->
    FWD (lr_drop_line bs (lr_set_ext ex l) s extra) d g /\ lru_stored (lr_drop_line bs (lr_set_ext ex l) s extra) /\
    (forall y, d <= y -> stored_at l y -> stored_at (lr_drop_line bs (lr_set_ext ex l) s extra) y) /\
    (forall y, stored_at (lr_drop_line bs (lr_set_ext ex l) s extra) y -> stored_at l y) /\
    (forall i, DN (l_blk l) i -> DN (l_blk (lr_drop_line bs (lr_set_ext ex l) s extra)) i).
  Proof.
    intros FW SS OK ED DJ JG BD. pose proof FW as (I & RDl & F3 & F4 & F5 & F6 & F7 & F8 & F9).
    destruct (line_ok_facts bs f _ _ _ OK) as (LB & _). destruct OK as [SP CH]. pose proof SP as (SP1 & _).
    unfold lr_drop_line. unfold sl_parts in *. rewrite LB.
    set (l0 := lr_set_ext ex l).
    set (st1 := mkLR (aremove b (l_lines l0)) (l_foend l0) (lru_pop b (l_lru l0)) (l_on l0) (l_nid l0) _ (l_blk l0) (l_ext l0)).
    assert (I1 : lr_inv0 st1).
    { destruct I as [I1 I2 I3 I4]. split; cbn.
      - intros k x X. apply alookup_aremove_Some in X. eauto.
      - exact I2.
      - intros k x e0 X. apply alookup_aremove_Some in X. eauto.
      - intros k x X. apply lru_pop_lookup in X. eauto. }
    assert (ST1 : forall y, stored_at st1 y <-> stored_at l y /\ y <> b).
    { intro y. unfold stored_at, st1. cbn. rewrite alookup_aremove. destruct (N.eqb_spec y b); split.
      - intro Q; exfalso; apply Q; reflexivity.
      - intros [_ Q]; contradiction.
      - intro Q; split; assumption.
      - intros [Q _]; exact Q. }
    assert (S1 : lru_stored st1).
    { intros k n x X. cbn in X. unfold lru_pop in X. rewrite alookup_aremove in X.
      destruct (N.eqb_spec k b) as [E|E]; [discriminate|]. apply ST1. split; [exact (SS _ _ _ X)|exact E]. }
    assert (FW1 : FWD st1 d g).
    { split; [exact I1|]. split; [exact RDl|]. split; [exact F3|]. split; [exact F4|]. split; [exact F5|]. split; [exact F6|].
      split; [exact F7|]. split.
      - intros y Y1 Y2 Y3. apply ST1. split; [apply F8; assumption|lia].
      - intros y Y. apply ST1 in Y as [Y _]. apply F9. exact Y. }
    assert (RES1 : FWD st1 d g /\ lru_stored st1 /\ (forall y, d <= y -> stored_at l y -> stored_at st1 y) /\
                   (forall y, stored_at st1 y -> stored_at l y) /\ (forall i, DN (l_blk l) i -> DN (l_blk st1) i)).
    { split; [exact FW1|]. split; [exact S1|]. split; [intros y Y1 Y2; apply ST1; split; [exact Y2|lia]|].
      split; [intros y Y; apply ST1 in Y as [Y _]; exact Y|auto]. }
    match goal with |- context [if ?h then _ else _] => destruct h end; [exact RES1|].
    match goal with |- context [fold_left ?gg ?ps st1] =>
      destruct (fold_drop_blocks (fun st => lr_refd st (fun _ => false)) (blk g) jp ps st1 RDl DJ JG) as (A1 & A2 & A3 & A4 & A5) end.
    { intros q Q. apply in_removelast in Q.
      pose proof (part_bo_chain _ _ _ CH q Q) as X. replace (e + 1 - 1) with e in X by lia. lia. }
    cbv zeta in *.
    match goal with |- context [fold_left ?gg ?ps st1] => set (st2 := fold_left gg ps st1) in * end.
    assert (I2 : lr_inv0 st2) by (eapply lr_inv0_maps; [exact A3|exact A4|exact A5|exact I1]).
    split; [|split; [|split; [|split]]].
    - destruct FW1 as (_ & _ & G3 & G4 & G5 & G6 & G7 & G8 & G9).
      split; [exact I2|]. split; [exact A1|]. split; [exact G3|]. split; [exact G4|]. split; [exact G5|]. split; [exact G6|].
      split; [exact G7|]. split.
      + intros y Y1 Y2 Y3. unfold stored_at. rewrite A3. apply G8; assumption.
      + intros y Y. unfold stored_at in Y. rewrite A3 in Y. destruct (G9 y Y) as [Q1 Q2]. split; [exact Q1|apply A2; exact Q2].
    - apply (lru_stored_same st1); [exact A3|rewrite A5; auto|exact S1].
    - intros y Y1 Y2. unfold stored_at. rewrite A3. apply ST1. split; [exact Y2|lia].
    - intros y Y. unfold stored_at in Y. rewrite A3 in Y. apply ST1 in Y as [Y _]. exact Y.
    - intros i Di. apply A2. exact Di.
  Qed.
End FwdLines.

(* ================================================================ the block disciplines of the containers *)

Section Disciplines.
  Variable bs : N.
  Variable f : file.

  (* ---------------- gz / bz2 / lz4: a sequential decoder; decoding a block drops the block visited before *)
  Definition RDs (b : bstate) (k : N) : Prop := SI b /\ b_dec b <= k + 1.
  Definition DNs (b : bstate) (j : N) : Prop := j < b_dec b.

  Lemma RDs_mono b k k' : RDs b k -> k <= k' -> RDs b k'.
  Proof. intros [S D] L. split; [exact S|lia]. Qed.

  Lemma RDs_read refd b k j : RDs b k -> k <= j -> j <= blast bs f -> 0 < lenN f ->
    exists b', b_read_block refd (lenN f) (blast bs f) b j = (b', BFound) /\ RDs b' j /\ DNs b' j /\
               (forall i, DNs b i -> DNs b' i).
  Proof.
    intros [S D] K L F. destruct (b_read_block_fwd refd (lenN f) (blast bs f) b j S ltac:(lia) L F) as (b' & E & S' & D').
    exists b'. split; [exact E|]. unfold RDs, DNs. rewrite D'. split; [split; [exact S'|lia]|]. split; [lia|intros i Di; lia].
  Qed.

  Lemma b_drop_block_dec refd b bo : b_dec (b_drop_block refd b bo) = b_dec b.
  Proof. unfold b_drop_block. destruct (negb (b_drop b)); reflexivity. Qed.

  Lemma RDs_drop refd b k j bo : RDs b k -> DNs b j -> j <= k -> bo + 2 <= j ->
    RDs (b_drop_block refd b bo) k /\ (forall i, DNs b i -> DNs (b_drop_block refd b bo) i).
  Proof.
    intros [S D] DJ JK B. unfold RDs, DNs in *. rewrite b_drop_block_dec.
    split; [split; [apply SI_drop_block; [exact S|lia]|exact D]|auto].
  Qed.

  Lemma RDs_init : RDs (b_init true) 0.
  Proof. split; [apply SI_init|cbn; lia]. Qed.

  (* ---------------- xz: BlockReader::new decompressed and sliced the whole file; a block that is dropped is gone,
     the others stay *)
  Definition RDx (b : bstate) (k : N) : Prop :=
    b_stream b = true /\ b_kind b = 1 /\
    forall i, 0 < lenN f -> k <= i -> i <= blast bs f -> nmem i (b_read b) = true /\ nmem i (b_blocks b) = true.
  Definition DNx (b : bstate) (j : N) : Prop := True.

  Lemma RDx_mono b k k' : RDx b k -> k <= k' -> RDx b k'.
  Proof. intros (A & B & C) L. split; [exact A|]. split; [exact B|]. intros i F0 I1 I2. apply C; [exact F0|lia|lia]. Qed.

  Lemma RDx_read refd b k j : RDx b k -> k <= j -> j <= blast bs f -> 0 < lenN f ->
    exists b', b_read_block refd (lenN f) (blast bs f) b j = (b', BFound) /\ RDx b' j /\ DNx b' j /\
               (forall i, DNx b i -> DNx b' i).
  Proof.
    intros (A & B & C) K L F. unfold b_read_block. destruct (N.ltb_spec (blast bs f) j); [lia|].
    destruct (nmem j (b_lru b)) eqn:ML.
    { eexists. split; [reflexivity|]. split; [|split; [exact I|auto]].
      split; [exact A|]. split; [exact B|]. intros i F0 I1 I2. apply C; [exact F0|lia|lia]. }
    destruct (N.eqb_spec (lenN f) 0); [lia|].
    destruct (C j F K L) as [MR MB]. cbn [b_cnt_up b_read b_blocks]. rewrite MR, MB.
    eexists. split; [reflexivity|]. split; [|split; [exact I|auto]].
    split; [exact A|]. split; [exact B|]. intros i F0 I1 I2. apply C; [exact F0|lia|lia].
  Qed.

  Lemma RDx_drop refd b k j bo : RDx b k -> DNx b j -> j <= k -> bo + 2 <= j ->
    RDx (b_drop_block refd b bo) k /\ (forall i, DNx b i -> DNx (b_drop_block refd b bo) i).
  Proof.
    intros (A & B & C) _ JK BJ. split; [|auto]. unfold b_drop_block. destruct (negb (b_drop b)); [split; auto|].
    split; [exact A|]. split; [exact B|]. intros i F0 I1 I2. cbn [b_read b_blocks]. destruct (C i F0 I1 I2) as [Q1 Q2].
    split; [exact Q1|]. rewrite nmem_nrem, Q2. destruct (N.eqb_spec i bo); [lia|reflexivity].
  Qed.

  Lemma nmem_seqN n i : nmem i (seqN n) = (i <? N.of_nat n).
  Proof.
    induction n as [|n IH]; [cbn; destruct (N.ltb_spec i 0); [lia|reflexivity]|].
    cbn [seqN]. unfold nmem in *. rewrite existsb_app, IH. cbn [existsb]. rewrite orb_false_r, Nat2N.inj_succ.
    destruct (N.ltb_spec i (N.of_nat n)); destruct (N.eqb_spec i (N.of_nat n)); destruct (N.ltb_spec i (N.succ (N.of_nat n))); cbn; auto; lia.
  Qed.

  Lemma RDx_init : 0 < bs -> RDx (b_init_xz bs (lenN f)) 0.
  Proof.
    intro Hbs. unfold b_init_xz. destruct (N.eqb_spec (lenN f) 0) as [Z|Z].
    - split; [reflexivity|]. split; [reflexivity|]. intros i F0. lia.
    - split; [reflexivity|]. split; [reflexivity|]. intros i _ _ I2. cbn [b_read b_blocks]. rewrite nmem_seqN, N2Nat.id.
      assert (i < lenN f / bs + 1).
      { unfold blast in I2. rewrite blockoffset_last_spec in I2 by lia.
        pose proof (div_mono (lenN f - 1) (lenN f) bs Hbs ltac:(lia)). lia. }
      destruct (N.ltb_spec i (lenN f / bs + 1)); [auto|lia].
  Qed.

  (* ---------------- a tar member (every miss reads all its blocks again), a plain file (any block at any time) *)
  Definition RDt (b : bstate) (k : N) : Prop := reads_total b.
  Definition DNt (b : bstate) (j : N) : Prop := True.

  Lemma RDt_mono b k k' : RDt b k -> k <= k' -> RDt b k'.
  Proof. auto. Qed.

  Lemma RDt_read refd b k j : RDt b k -> k <= j -> j <= blast bs f -> 0 < lenN f ->
    exists b', b_read_block refd (lenN f) (blast bs f) b j = (b', BFound) /\ RDt b' j /\ DNt b' j /\
               (forall i, DNt b i -> DNt b' i).
  Proof.
    intros T _ L F. destruct (b_read_block_total refd (lenN f) (blast bs f) b j T L F) as (b' & E & T').
    exists b'. unfold RDt, DNt. auto.
  Qed.

  Lemma RDt_drop refd b k j bo : RDt b k -> DNt b j -> j <= k -> bo + 2 <= j ->
    RDt (b_drop_block refd b bo) k /\ (forall i, DNt b i -> DNt (b_drop_block refd b bo) i).
  Proof. intros T _ _ _. split; [apply b_drop_block_total; exact T|auto]. Qed.
End Disciplines.
