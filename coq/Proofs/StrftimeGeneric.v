(* Proofs/StrftimeGeneric.v — C13: print then parse, for EVERY complete format of the supported
   specifiers (%Y %m %d %H %M %S %.3f %.6f %.9f %3f %6f %9f %f %z %:z %s %T %F %% and literals).
   Printing: Model/Strftime.v (chrono format).  Parsing: Model/StrftimeParse.v [chrono_parse] =
   chrono parse_from_str with the SAME format text + the Issue-660 check (the scanner of
   Model/CliDt.v).  Theorem strftime_generic_roundtrip: the text parses back to the instant
   truncated to the printed precision.  Structure of the proof:
     parse_fmt fmt = Some its  ==>  Fmt fmt its (relation)  ==>  tokenize fmt = flat_map pitem its;
     per item: its parse items read exactly its printed text and yield its fields (scan_item),
     whitespace literals handled by an invariant "up to leading-whitespace trimming" (scan_items);
     the fields validate to the calendar formula (validate_fields: Calendar round trip of
     CalendarExtra.v through civil_of_spec); leading/trailing whitespace counts of text and format
     agree (issue660_Fmt).
   The side condition rt_ok is decidable; each excluded class is shown to fail by a witness
   (roundtrip_refuted_classes). *)
From Coq Require Import ZArith Lia List Bool String.
From S4.Base Require Import Bytes.
From S4.Model Require Import Calendar PrintCal Strftime CliDt StrftimeParse StrftimeRt.
From S4.Proofs Require Import CalendarExtra CliDtScanLemmas CliDtAbsInfra CliDtMiscProofs StrftimeRoundtrip.
Import ListNotations.
Open Scope Z_scope.
Ltac Zify.zify_post_hook ::= Z.div_mod_to_equations.

(* ------------------------------------------------------------------ printed digits as symbols *)
Lemma digits_n_bytes k v : digits_n k v = map digit_byte (dvals k v).
Proof.
  revert v. induction k as [|k IH]; intros v; [reflexivity|].
  cbn [digits_n dvals]. rewrite map_app, IH. cbn [map]. f_equal. f_equal. unfold digit_byte.
  pose proof (Z.mod_pos_bound v 10 ltac:(lia)). lia.
Qed.

Lemma classify_digits_n k v : classify (digits_n k v) = map Dg (dvals k v).
Proof. rewrite digits_n_bytes. apply classify_digits. apply dvals_lt10. Qed.

Lemma map_classify1_digits_n k v : map classify1 (digits_n k v) = map Dg (dvals k v).
Proof. exact (classify_digits_n k v). Qed.

Fixpoint dropzN (l : list N) : list N :=
  match l with
  | [] => []
  | d :: r => match r with [] => l | _ :: _ => if (d =? 0)%N then dropzN r else l end
  end.

Lemma drop_zeros_bytes l : drop_zeros (map digit_byte l) = map digit_byte (dropzN l).
Proof.
  induction l as [|d r IH]; [reflexivity|]. cbn [map drop_zeros dropzN].
  destruct r as [|d2 r2]; [reflexivity|]. cbn [map].
  replace (digit_byte d =? 48)%N with (d =? 0)%N by (unfold digit_byte; destruct (N.eqb_spec d 0), (N.eqb_spec (48 + d) 48); try reflexivity; lia).
  destruct (d =? 0)%N; [exact IH|reflexivity].
Qed.

Lemma dropzN_forall (P : N -> Prop) l : Forall P l -> Forall P (dropzN l).
Proof.
  induction 1 as [|d r Hd Hr IH]; [constructor|]. cbn [dropzN].
  destruct r; [constructor; assumption|]. destruct (d =? 0)%N; [exact IH|constructor; assumption].
Qed.

Lemma dropzN_nonempty l : l <> [] -> dropzN l <> [].
Proof.
  induction l as [|d r IH]; [contradiction|]. intros _. cbn [dropzN].
  destruct r; [discriminate|]. destruct (d =? 0)%N; [apply IH; discriminate|discriminate].
Qed.

Lemma dnum_dropzN l : dnum (dropzN l) = dnum l.
Proof.
  induction l as [|d r IH]; [reflexivity|]. cbn [dropzN]. destruct r; [reflexivity|].
  destruct (N.eqb_spec d 0); [subst; rewrite dnum_zero_cons; exact IH|reflexivity].
Qed.

Definition dec_width (v : Z) : nat := S (Z.to_nat (Z.log2 v)).
Definition ddec (v : Z) : list N := dropzN (dvals (dec_width v) v).

Lemma dec_width_bound v : 0 <= v -> v < 10 ^ Z.of_nat (dec_width v).
Proof.
  intros H. unfold dec_width. rewrite Nat2Z.inj_succ, Z2Nat.id by apply Z.log2_nonneg.
  destruct (Z.eq_dec v 0) as [->|N0]; [reflexivity|].
  pose proof (Z.log2_spec v ltac:(lia)) as [_ U].
  assert (2 ^ Z.succ (Z.log2 v) <= 10 ^ Z.succ (Z.log2 v))
    by (apply Z.pow_le_mono_l; lia).
  lia.
Qed.

Lemma dec_spec v : 0 <= v ->
  classify (dec v) = map Dg (ddec v) /\ ddec v <> [] /\ dnum (ddec v) = v.
Proof.
  intros H. unfold dec, ddec. fold (dec_width v). repeat split.
  - rewrite digits_n_bytes, drop_zeros_bytes. apply classify_digits. apply dropzN_forall, dvals_lt10.
  - apply dropzN_nonempty. intros E. pose proof (dvals_length (dec_width v) v) as L. rewrite E in L. discriminate.
  - rewrite dnum_dropzN. apply dnum_dvals_small. split; [assumption|apply dec_width_bound; assumption].
Qed.

(* ------------------------------------------------------------------ format items -> parse items, fields *)



Lemma pitem_expand its : flat_map pitem (expand its) = flat_map pitem its.
Proof.
  induction its as [|it r IH]; [reflexivity|]. unfold expand in *. cbn [flat_map]. rewrite flat_map_app, IH.
  destruct it; reflexivity.
Qed.

Lemma fmt_expand t off its : fmt_items t off (expand its) = fmt_items t off its.
Proof.
  unfold fmt_items. induction its as [|it r IH]; [reflexivity|]. unfold expand in *. cbn [flat_map].
  rewrite flat_map_app, IH. f_equal.
  destruct it; cbn [expand1 flat_map fmt_item]; rewrite ?app_nil_r, <- ?app_assoc; reflexivity.
Qed.

(* items left after expansion *)
Lemma expand_simple its : forallb simple (expand its) = true.
Proof.
  induction its as [|it r IH]; [reflexivity|]. unfold expand in *. cbn [flat_map]. rewrite forallb_app, IH.
  destruct it; reflexivity.
Qed.


Definition fields (t off : Z) (it : fitem) : list rawfield :=
  let c := civil_of t off in
  match it with
  | FY => [RNum NYear false (dvals 4 (c_year c))]
  | Fm => [RNum NMonth false (dvals 2 (c_mon c))]
  | Fd => [RNum NDay false (dvals 2 (c_day c))]
  | FH => [RNum NHour false (dvals 2 (c_hour c))]
  | FM => [RNum NMinute false (dvals 2 (c_min c))]
  | FS => [RNum NSecond false (dvals 2 (c_sec c))]
  | FDot3 | F3 => [RFrac 3 (dvals 3 (c_nano c / 1000000))]
  | FDot6 | F6 => [RFrac 6 (dvals 6 (c_nano c / 1000))]
  | FDot9 | F9 | Ff => [RFrac 9 (dvals 9 (c_nano c))]
  | Fz | Fcz =>
    let hh := off_min off / 60 in let mm := off_min off mod 60 in
    [ROff (off <? 0) (Z.to_N ((hh / 10) mod 10)) (Z.to_N (hh mod 10))
          (Some (Z.to_N ((mm / 10) mod 10), Z.to_N (mm mod 10)))]
  | Fs => [RNum NTimestamp false (ddec (t / 1000000000))]
  | _ => []
  end.

Definition prep (fs : list rawfield) (o : option (list rawfield)) : option (list rawfield) :=
  match o with Some l => Some (fs ++ l) | None => None end.


Lemma take_digits_exact' n ds s : length ds = n -> take_digits n (map Dg ds ++ s) = (ds, s).
Proof. intros <-. apply take_digits_exact. Qed.

Lemma drop_digits_nondigit s : head_nondigit s -> drop_digits s = s.
Proof. destruct s as [|[v|c] r]; cbn; tauto. Qed.

Lemma drop_cs_digit v r : drop_cs (Dg v :: r) = Dg v :: r.
Proof. reflexivity. Qed.
Lemma drop_cs_colon r : drop_cs (Ch 58 :: r) = drop_cs r.
Proof. reflexivity. Qed.
Lemma scan_tz_signed (neg : bool) h1 h0 m1 m0 (colon : bool) S :
  scan_tz false false (Ch (if neg then 45 else 43)%N :: Dg h1 :: Dg h0 :: (if colon then [Ch 58%N] else @nil sym) ++ Dg m1 :: Dg m0 :: S)
  = Some (ROff neg h1 h0 (Some (m1, m0)), S).
Proof. destruct neg, colon; reflexivity. Qed.

(* one item: its parse items read exactly its printed text and produce its fields *)
Lemma scan_item t off it K S :
  simple it = true -> (forall b, it = FLit b -> is_ws_c b = false) ->
  (it = FY -> 0 <= c_year (civil_of t off) <= 9999) ->
  (it = Fs -> 0 <= t) ->
  (needs_nondigit_after it = true -> head_nondigit S) ->
  scan (pitem it ++ K) (classify (fmt_item t off (civil_of t off) it) ++ S)
  = prep (fields t off it) (scan K S).
Proof.
  intros Hs Hl Hy Ht Hn.
  destruct it; try discriminate; cbn [pitem app fmt_item fields].
  - (* FLit *) rewrite (Hl b eq_refl). cbn [classify map app scan]. rewrite sym_is_classify1.
    destruct (scan K S); reflexivity.
  - (* FY *) specialize (Hy eq_refl). unfold fmt_year.
    replace ((0 <=? c_year (civil_of t off)) && (c_year (civil_of t off) <=? 9999)) with true
      by (symmetry; apply andb_true_iff; split; apply Z.leb_le; lia).
    rewrite classify_digits_n. cbn [scan]. unfold scan_num.
    cbn [dvals app map trim_ws sym_ws is_year andb sym_is num_width take_digits].
    change ((48 <=? 45)%N) with false. change ((48 <=? 43)%N) with false. cbn [andb].
    destruct (scan K S); reflexivity.
  - rewrite classify_digits_n. cbn [scan]. unfold scan_num.
    cbn [dvals app map trim_ws sym_ws is_year andb num_width take_digits]. destruct (scan K S); reflexivity.
  - rewrite classify_digits_n. cbn [scan]. unfold scan_num.
    cbn [dvals app map trim_ws sym_ws is_year andb num_width take_digits]. destruct (scan K S); reflexivity.
  - rewrite classify_digits_n. cbn [scan]. unfold scan_num.
    cbn [dvals app map trim_ws sym_ws is_year andb num_width take_digits]. destruct (scan K S); reflexivity.
  - rewrite classify_digits_n. cbn [scan]. unfold scan_num.
    cbn [dvals app map trim_ws sym_ws is_year andb num_width take_digits]. destruct (scan K S); reflexivity.
  - rewrite classify_digits_n. cbn [scan]. unfold scan_num.
    cbn [dvals app map trim_ws sym_ws is_year andb num_width take_digits]. destruct (scan K S); reflexivity.
  - (* FDot3 *) cbn [classify map]. fold (classify (digits_n 3 (c_nano (civil_of t off) / 1000000))). rewrite classify_digits_n.
    change (classify1 46%N) with (Ch 46%N). cbn [app scan sym_is N.eqb Pos.eqb].
    rewrite take_digits_all by (rewrite ?dvals_length; auto; lia).
    rewrite drop_digits_nondigit by auto.
    pose proof (dvals_length 3 (c_nano (civil_of t off) / 1000000)) as L. rewrite L.
    destruct (dvals 3 (c_nano (civil_of t off) / 1000000)); [discriminate L|]. destruct (scan K S); reflexivity.
  - cbn [classify map]. fold (classify (digits_n 6 (c_nano (civil_of t off) / 1000))). rewrite classify_digits_n.
    change (classify1 46%N) with (Ch 46%N). cbn [app scan sym_is N.eqb Pos.eqb].
    rewrite take_digits_all by (rewrite ?dvals_length; auto; lia).
    rewrite drop_digits_nondigit by auto.
    pose proof (dvals_length 6 (c_nano (civil_of t off) / 1000)) as L. rewrite L.
    destruct (dvals 6 (c_nano (civil_of t off) / 1000)); [discriminate L|]. destruct (scan K S); reflexivity.
  - cbn [classify map]. fold (classify (digits_n 9 (c_nano (civil_of t off)))). rewrite classify_digits_n.
    change (classify1 46%N) with (Ch 46%N). cbn [app scan sym_is N.eqb Pos.eqb].
    rewrite take_digits_all by (rewrite ?dvals_length; auto; lia).
    rewrite drop_digits_nondigit by auto.
    pose proof (dvals_length 9 (c_nano (civil_of t off))) as L. rewrite L.
    destruct (dvals 9 (c_nano (civil_of t off))); [discriminate L|]. destruct (scan K S); reflexivity.
  - (* F3 *) rewrite classify_digits_n. cbn [scan]. rewrite take_digits_exact' by apply dvals_length.
    rewrite dvals_length. cbn [Nat.eqb]. destruct (scan K S); reflexivity.
  - rewrite classify_digits_n. cbn [scan]. rewrite take_digits_exact' by apply dvals_length.
    rewrite dvals_length. cbn [Nat.eqb]. destruct (scan K S); reflexivity.
  - rewrite classify_digits_n. cbn [scan]. rewrite take_digits_exact' by apply dvals_length.
    rewrite dvals_length. cbn [Nat.eqb]. destruct (scan K S); reflexivity.
  - (* Ff *) rewrite classify_digits_n. cbn [scan].
    pose proof (dvals_length 9 (c_nano (civil_of t off))) as L.
    destruct (dvals 9 (c_nano (civil_of t off))) as [|d0 r0] eqn:E; [discriminate|]. cbn [map app trim_ws sym_ws].
    change (Dg d0 :: map Dg r0 ++ S) with (map Dg (d0 :: r0) ++ S). rewrite take_digits_exact' by exact L.
    destruct (scan K S); reflexivity.
  - (* Fz *) unfold fmt_off. fold (off_min off). unfold classify. cbn [map app]. rewrite !map_app. cbn [map app].
    rewrite !map_classify1_digits_n. cbn [dvals app map]. cbn [scan].
    pose proof (scan_tz_signed (off <? 0) (Z.to_N ((off_min off / 60 / 10) mod 10)) (Z.to_N ((off_min off / 60) mod 10))
                 (Z.to_N ((off_min off mod 60 / 10) mod 10)) (Z.to_N ((off_min off mod 60) mod 10)) false S) as E.
    cbn [app] in E. destruct (off <? 0); change (classify1 45%N) with (Ch 45%N); change (classify1 43%N) with (Ch 43%N);
      rewrite E; destruct (scan K S); reflexivity.
  - (* Fcz *) unfold fmt_off. fold (off_min off). unfold classify. cbn [map app]. rewrite !map_app. cbn [map app].
    rewrite !map_classify1_digits_n. cbn [dvals app map]. cbn [scan].
    pose proof (scan_tz_signed (off <? 0) (Z.to_N ((off_min off / 60 / 10) mod 10)) (Z.to_N ((off_min off / 60) mod 10))
                 (Z.to_N ((off_min off mod 60 / 10) mod 10)) (Z.to_N ((off_min off mod 60) mod 10)) true S) as E.
    cbn [app] in E. destruct (off <? 0); change (classify1 45%N) with (Ch 45%N); change (classify1 43%N) with (Ch 43%N);
      change (classify1 58%N) with (Ch 58%N); rewrite E; destruct (scan K S); reflexivity.
  - (* Fs *) specialize (Ht eq_refl). unfold dec_signed. change PrintCal.NS with 1000000000.
    assert (T0 : 0 <= t / 1000000000) by lia.
    replace (t / 1000000000 <? 0) with false by (symmetry; apply Z.ltb_ge; lia).
    destruct (dec_spec _ T0) as [E1 [E2 _]]. rewrite E1. cbn [scan]. unfold scan_num.
    destruct (ddec (t / 1000000000)) as [|d0 r0] eqn:E; [contradiction|]. cbn [map app trim_ws sym_ws is_year andb num_width].
    change (Dg d0 :: map Dg r0 ++ S) with (map Dg (d0 :: r0) ++ S).
    rewrite take_digits_all by (rewrite ?app_length, ?map_length; auto; lia).
    destruct (scan K S); reflexivity.
Qed.




Lemma fmt_items_cons t off it r :
  fmt_items t off (it :: r) = fmt_item t off (civil_of t off) it ++ fmt_items t off r.
Proof. reflexivity. Qed.

Lemma classify1_nondigit_b b : is_digit_b b = false -> classify1 b = Ch b.
Proof. unfold is_digit_b, classify1. intros ->. reflexivity. Qed.

Lemma starts_nondigit_ok t off r :
  starts_nondigit r = true -> head_nondigit (classify (fmt_items t off r)).
Proof.
  destruct r as [|it r']; [intros _; exact I|]. rewrite fmt_items_cons.
  destruct it; cbn [starts_nondigit]; try discriminate; intros H; cbn [fmt_item app classify map].
  - apply negb_true_iff in H. rewrite classify1_nondigit_b by exact H. exact I.
  - exact I.
  - exact I.
  - exact I.
  - unfold fmt_off. cbn [app map]. destruct (off <? 0); exact I.
  - unfold fmt_off. cbn [app map]. destruct (off <? 0); exact I.
Qed.

Lemma ws_not_digit b : is_ws_c b = true -> classify1 b = Ch b.
Proof.
  intros H. apply classify1_nondigit. unfold is_ws_c in H.
  apply orb_true_iff in H as [H|H]; [apply N.eqb_eq in H; lia|].
  apply andb_true_iff in H as [_ H]. apply N.leb_le in H. lia.
Qed.

Lemma map_dg_head_nonws ds s : ds <> [] -> head_nonws (map Dg ds ++ s).
Proof. destruct ds; [contradiction|]. intros _. reflexivity. Qed.

Lemma dvals_nonempty k v : dvals (S k) v <> [].
Proof. intros E. pose proof (dvals_length (S k) v) as L. rewrite E in L. discriminate. Qed.

Lemma item_head_nonws t off it s :
  simple it = true -> (forall b, it = FLit b -> is_ws_c b = false) -> (it = Fs -> 0 <= t) ->
  head_nonws (classify (fmt_item t off (civil_of t off) it) ++ s).
Proof.
  intros Hs Hl Ht. destruct it; try discriminate; cbn [fmt_item].
  - specialize (Hl b eq_refl). cbn [classify map app]. unfold classify1.
    destruct ((48 <=? b)%N && (b <=? 57)%N); [reflexivity|]. cbn [head_nonws sym_ws]. exact Hl.
  - unfold fmt_year. destruct ((0 <=? _) && _).
    + rewrite classify_digits_n. apply map_dg_head_nonws, dvals_nonempty.
    + cbn [classify map app]. destruct (_ <? 0); reflexivity.
  - rewrite classify_digits_n. apply map_dg_head_nonws, dvals_nonempty.
  - rewrite classify_digits_n. apply map_dg_head_nonws, dvals_nonempty.
  - rewrite classify_digits_n. apply map_dg_head_nonws, dvals_nonempty.
  - rewrite classify_digits_n. apply map_dg_head_nonws, dvals_nonempty.
  - rewrite classify_digits_n. apply map_dg_head_nonws, dvals_nonempty.
  - reflexivity.
  - reflexivity.
  - reflexivity.
  - rewrite classify_digits_n. apply map_dg_head_nonws, dvals_nonempty.
  - rewrite classify_digits_n. apply map_dg_head_nonws, dvals_nonempty.
  - rewrite classify_digits_n. apply map_dg_head_nonws, dvals_nonempty.
  - rewrite classify_digits_n. apply map_dg_head_nonws, dvals_nonempty.
  - unfold fmt_off. cbn [classify map app]. destruct (off <? 0); reflexivity.
  - unfold fmt_off. cbn [classify map app]. destruct (off <? 0); reflexivity.
  - specialize (Ht eq_refl). unfold dec_signed. change PrintCal.NS with 1000000000.
    replace (t / 1000000000 <? 0) with false by (symmetry; apply Z.ltb_ge; lia).
    destruct (dec_spec (t / 1000000000) ltac:(lia)) as [E1 [E2 _]]. rewrite E1.
    apply map_dg_head_nonws. exact E2.
Qed.


Theorem scan_items t off its :
  forallb simple its = true -> adj_ok its = true ->
  (In FY its -> 0 <= c_year (civil_of t off) <= 9999) -> (In Fs its -> 0 <= t) ->
  forall S', S' = classify (fmt_items t off its) \/ S' = trim_ws (classify (fmt_items t off its)) ->
  scan (flat_map pitem its) S' = Some (flat_map (fields t off) its).
Proof.
  induction its as [|it r IH]; intros Hs Ha Hy Ht S' HS.
  - destruct HS as [->| ->]; reflexivity.
  - cbn [forallb] in Hs. apply andb_true_iff in Hs as [Hs1 Hs2].
    cbn [adj_ok] in Ha. apply andb_true_iff in Ha as [Ha1 Ha2].
    assert (IHr := IH Hs2 Ha2 (fun H => Hy (or_intror H)) (fun H => Ht (or_intror H))).
    destruct (is_ws_lit it) eqn:W.
    + destruct it; try discriminate. cbn [is_ws_lit] in W.
      cbn [flat_map pitem fields app]. rewrite W. cbn [scan].
      rewrite fmt_items_cons in HS. cbn [fmt_item app classify map] in HS. rewrite (ws_not_digit _ W) in HS.
      fold (classify (fmt_items t off r)) in HS.
      apply IHr. right.
      destruct HS as [->| ->]; cbn [trim_ws sym_ws]; rewrite W; [reflexivity|apply trim_ws_idem].
    + assert (Hl : forall b, it = FLit b -> is_ws_c b = false) by (intros b ->; exact W).
      rewrite fmt_items_cons, classify_app in HS.
      pose proof (item_head_nonws t off it (classify (fmt_items t off r)) Hs1 Hl (fun E => Ht (or_introl E))) as NW.
      rewrite (trim_ws_nonws _ NW) in HS. assert (S' = classify (fmt_item t off (civil_of t off) it) ++ classify (fmt_items t off r)) as -> by (destruct HS; assumption).
      cbn [flat_map]. rewrite scan_item; try assumption.
      * rewrite IHr by (left; reflexivity). reflexivity.
      * intros E. apply Hy. left. exact E.
      * intros E. apply Ht. left. exact E.
      * intros E. rewrite E in Ha1. apply starts_nondigit_ok. exact Ha1.
Qed.


(* ------------------------------------------------------------------ what a format contains *)


Definition val (t off : Z) (k : numkind) : Z :=
  let c := civil_of t off in
  match k with
  | NYear => c_year c | NMonth => c_mon c | NDay => c_day c | NHour => c_hour c
  | NMinute => c_min c | NSecond => c_sec c | NTimestamp => t / 1000000000
  end.


(* ------------------------------------------------------------------ the hypotheses, once *)
Record rt_hyps (t off : Z) : Prop := {
  h_off60 : off mod 60 = 0;
  h_offr : -86400 < off < 86400;
  h_range : LOCAL_LO * 1000000000 <= t + off * 1000000000 < LOCAL_HI * 1000000000
}.

Lemma civ_facts t off : rt_hyps t off ->
  let c := civil_of t off in
  0 <= c_year c <= 9999 /\ 1 <= c_mon c <= 12 /\ 1 <= c_day c <= 31 /\ 0 <= c_hour c <= 23 /\
  0 <= c_min c <= 59 /\ 0 <= c_sec c <= 59 /\ 0 <= c_nano c < 1000000000 /\
  valid_date (c_year c) (c_mon c) (c_day c) = true /\
  Calendar.days_from_civil (c_year c) (c_mon c) (c_day c) * 86400 + c_hour c * 3600 + c_min c * 60 + c_sec c
    = t / 1000000000 + off /\
  c_nano c = t mod 1000000000.
Proof.
  intros [H60 Hr Hrg]. cbv zeta. pose proof (civil_of_year t off Hrg) as Hy.
  pose proof (civil_of_spec t off) as S. cbv zeta in S. destruct S as [V [Ed [Es [Hh [Hmi [Hs En]]]]]].
  destruct (valid_date_month_len _ _ _ V) as [Hmo Hd].
  pose proof (CliDtAbsInfra.month_len_le31 (c_year (civil_of t off)) (c_mon (civil_of t off))).
  repeat split; try lia; try assumption.
Qed.

(* ------------------------------------------------------------------ fields of one item *)
Lemma dn2 v : 0 <= v <= 99 -> dnum (dvals 2 v) = v.
Proof. intros. apply dnum_dvals_small. change (10 ^ Z.of_nat 2) with 100. lia. Qed.
Lemma dn4 v : 0 <= v <= 9999 -> dnum (dvals 4 v) = v.
Proof. intros. apply dnum_dvals_small. change (10 ^ Z.of_nat 4) with 10000. lia. Qed.
Lemma dn3 v : 0 <= v <= 999 -> dnum (dvals 3 v) = v.
Proof. intros. apply dnum_dvals_small. change (10 ^ Z.of_nat 3) with 1000. lia. Qed.
Lemma dn6 v : 0 <= v <= 999999 -> dnum (dvals 6 v) = v.
Proof. intros. apply dnum_dvals_small. change (10 ^ Z.of_nat 6) with 1000000. lia. Qed.
Lemma dn9 v : 0 <= v <= 999999999 -> dnum (dvals 9 v) = v.
Proof. intros. apply dnum_dvals_small. change (10 ^ Z.of_nat 9) with 1000000000. lia. Qed.

Lemma find_num_app k a b acc : find_num k (a ++ b) acc = find_num k b (find_num k a acc).
Proof.
  revert acc. induction a as [|f r IH]; intros acc; [reflexivity|].
  destruct f; cbn [app find_num]; try apply IH. destruct (numkind_eqb k k0); apply IH.
Qed.
Lemma find_nano_app a b acc : find_nano (a ++ b) acc = find_nano b (find_nano a acc).
Proof. revert acc. induction a as [|f r IH]; intros acc; [reflexivity|]. destruct f; cbn [app find_nano]; apply IH. Qed.
Lemma find_off_app a b acc : find_off (a ++ b) acc = find_off b (find_off a acc).
Proof. revert acc. induction a as [|f r IH]; intros acc; [reflexivity|]. destruct f; cbn [app find_off]; apply IH. Qed.

Section Fields.
Variables t off : Z.
Hypothesis H : rt_hyps t off.

Let F := civ_facts t off H.

Lemma item_find_num it k acc :
  simple it = true -> (it = Fs -> 0 <= t) ->
  find_num k (fields t off it) acc = if is_kind k it then Some (val t off k) else acc.
Proof.
  pose proof F as X. cbv zeta in X. clear F. destruct X as [Hy [Hmo [Hd [Hh [Hmi [Hs [Hn _]]]]]]].
  intros Hs' Ht. destruct it; try discriminate; cbn [fields find_num is_kind item_kind]; try reflexivity;
    destruct k; cbn [numkind_eqb val]; try reflexivity; f_equal; rewrite ?dn2, ?dn4 by lia; try reflexivity.
  specialize (Ht eq_refl). destruct (dec_spec (t / 1000000000) ltac:(lia)) as [_ [_ E]]. exact E.
Qed.

Lemma items_find_num e k acc :
  forallb simple e = true -> (In Fs e -> 0 <= t) ->
  find_num k (flat_map (fields t off) e) acc = if has k e then Some (val t off k) else find_num k [] acc.
Proof.
  revert acc. induction e as [|it r IH]; intros acc Hs Ht; [reflexivity|].
  cbn [forallb] in Hs. apply andb_true_iff in Hs as [A B].
  cbn [flat_map]. rewrite find_num_app, item_find_num by (try exact A; intros E; apply Ht; left; exact E).
  unfold has. cbn [existsb]. fold (has k r).
  rewrite IH by (try exact B; intros E; apply Ht; right; exact E). destruct (is_kind k it); cbn [orb find_num]; destruct (has k r); reflexivity.
Qed.

Lemma item_nanos p it :
  simple it = true -> match prec_of it with Some q => Nat.eqb q p | None => true end = true ->
  Forall (fun v => v = trunc_nano p (t mod 1000000000)) (nanos_of (fields t off it))
  /\ (forall acc, find_nano (fields t off it) acc = if is_frac it then Some (trunc_nano p (t mod 1000000000)) else acc).
Proof.
  pose proof F as X. cbv zeta in X. clear F. destruct X as [_ [_ [_ [_ [_ [_ [Hn [_ [_ En]]]]]]]]].
  intros Hs' Hp. destruct it; try discriminate; cbn [fields nanos_of flat_map app find_nano is_frac prec_of] in *;
    try (split; [constructor|reflexivity]);
    apply Nat.eqb_eq in Hp; subst p; unfold trunc_nano, unit_of_prec; cbn [Nat.sub Z.of_nat Pos.of_succ_nat Pos.succ];
    rewrite <- En;
    (split; [constructor; [|constructor]|intros acc; f_equal]);
    rewrite ?dn3, ?dn6, ?dn9 by lia; unfold pow10; cbn [Nat.sub Z.of_nat Pos.of_succ_nat Pos.succ]; lia.
Qed.

Lemma off_value_printed :
  off_value (off <? 0) (Z.to_N ((off_min off / 60 / 10) mod 10)) (Z.to_N ((off_min off / 60) mod 10))
            (Some (Z.to_N ((off_min off mod 60 / 10) mod 10), Z.to_N ((off_min off mod 60) mod 10))) = off.
Proof.
  pose proof (h_off60 _ _ H) as H60. pose proof (h_offr _ _ H) as Hr. clear F.
  unfold off_value, off_min. rewrite !dgv_id.
  destruct (Z.ltb_spec off 0); lia.
Qed.

Lemma item_offs it :
  simple it = true ->
  Forall (fun v => v = off) (offs_of (fields t off it))
  /\ (forall acc, find_off (fields t off it) acc = if is_zone it then Some off else acc).
Proof.
  intros Hs'. destruct it; try discriminate; cbn [fields offs_of flat_map app find_off is_zone];
    try (split; [constructor|reflexivity]);
    rewrite off_value_printed; (split; [constructor; [reflexivity|constructor]|reflexivity]).
Qed.

Lemma item_nums it k :
  simple it = true -> (it = Fs -> 0 <= t) -> Forall (fun v => v = val t off k) (nums_of k (fields t off it)).
Proof.
  pose proof F as X. cbv zeta in X. clear F. destruct X as [Hy [Hmo [Hd [Hh [Hmi [Hs [Hn _]]]]]]].
  intros Hs' Ht. destruct it; try discriminate; cbn [fields nums_of flat_map app]; try constructor;
    destruct k; cbn [numkind_eqb]; try constructor; try constructor; unfold num_value, val;
    rewrite ?dn2, ?dn4 by lia; try reflexivity.
  specialize (Ht eq_refl). destruct (dec_spec (t / 1000000000) ltac:(lia)) as [_ [_ E]]. exact E.
Qed.

Lemma item_range it : simple it = true -> (it = Fs -> 0 <= t) -> forallb set_range_ok (fields t off it) = true.
Proof.
  pose proof F as X. cbv zeta in X. clear F. destruct X as [Hy [Hmo [Hd [Hh [Hmi [Hs [Hn _]]]]]]].
  pose proof (h_off60 _ _ H) as H60. pose proof (h_offr _ _ H) as Hr. pose proof (h_range _ _ H) as Hrg.
  intros Hs' Ht. destruct it; try discriminate; cbn [fields forallb set_range_ok]; try reflexivity;
    unfold num_value, I64_MAX; rewrite ?dn2, ?dn4 by lia;
    rewrite ?andb_true_r; rewrite ?andb_true_iff, ?Z.leb_le; try lia.
  specialize (Ht eq_refl). destruct (dec_spec (t / 1000000000) ltac:(lia)) as [_ [_ E]]. rewrite E.
    unfold LOCAL_LO, LOCAL_HI in *. lia.
Qed.
End Fields.

Lemma all_same_forall v l : Forall (fun x => x = v) l -> all_same l = true.
Proof.
  induction 1 as [|a r Ha Hr IH]; [reflexivity|]. cbn [all_same]. destruct r as [|b r']; [reflexivity|].
  inversion Hr; subst. rewrite Z.eqb_refl. exact IH.
Qed.


Section Lists.
Variables t off : Z.
Hypothesis H : rt_hyps t off.

Lemma nums_of_app k a b : nums_of k (a ++ b) = nums_of k a ++ nums_of k b.
Proof. unfold nums_of. apply flat_map_app. Qed.
Lemma nanos_of_app a b : nanos_of (a ++ b) = nanos_of a ++ nanos_of b.
Proof. unfold nanos_of. apply flat_map_app. Qed.
Lemma offs_of_app a b : offs_of (a ++ b) = offs_of a ++ offs_of b.
Proof. unfold offs_of. apply flat_map_app. Qed.

Lemma items_nums e k :
  forallb simple e = true -> (In Fs e -> 0 <= t) ->
  Forall (fun v => v = val t off k) (nums_of k (flat_map (fields t off) e)).
Proof.
  induction e as [|it r IH]; intros Hs Ht; [constructor|].
  cbn [forallb] in Hs. apply andb_true_iff in Hs as [A B]. cbn [flat_map]. rewrite nums_of_app.
  apply Forall_app. split.
  - apply item_nums; [exact H|exact A|intros E; apply Ht; left; exact E].
  - apply IH; [exact B|intros E; apply Ht; right; exact E].
Qed.

Lemma items_range e :
  forallb simple e = true -> (In Fs e -> 0 <= t) -> forallb set_range_ok (flat_map (fields t off) e) = true.
Proof.
  induction e as [|it r IH]; intros Hs Ht; [reflexivity|].
  cbn [forallb] in Hs. apply andb_true_iff in Hs as [A B]. cbn [flat_map]. rewrite forallb_app.
  rewrite item_range by (try exact H; try exact A; intros E; apply Ht; left; exact E).
  apply IH; [exact B|intros E; apply Ht; right; exact E].
Qed.

Lemma items_nanos p e :
  forallb simple e = true -> frac_prec_ok p e = true ->
  Forall (fun v => v = trunc_nano p (t mod 1000000000)) (nanos_of (flat_map (fields t off) e))
  /\ (forall acc, find_nano (flat_map (fields t off) e) acc
                  = if has_frac e then Some (trunc_nano p (t mod 1000000000)) else acc).
Proof.
  induction e as [|it r IH]; intros Hs Hp; [split; [constructor|reflexivity]|].
  cbn [forallb] in Hs. apply andb_true_iff in Hs as [A B].
  unfold frac_prec_ok in Hp. cbn [forallb] in Hp. apply andb_true_iff in Hp as [P Q].
  destruct (IH B Q) as [I1 I2]. destruct (item_nanos t off H p it A P) as [J1 J2].
  cbn [flat_map]. split.
  - rewrite nanos_of_app. apply Forall_app. split; assumption.
  - intros acc. rewrite find_nano_app, J2, I2. unfold has_frac. cbn [existsb]. fold (has_frac r).
    destruct (is_frac it), (has_frac r); reflexivity.
Qed.

Lemma items_offs e :
  forallb simple e = true ->
  Forall (fun v => v = off) (offs_of (flat_map (fields t off) e))
  /\ (forall acc, find_off (flat_map (fields t off) e) acc = if has_z e then Some off else acc).
Proof.
  induction e as [|it r IH]; intros Hs; [split; [constructor|reflexivity]|].
  cbn [forallb] in Hs. apply andb_true_iff in Hs as [A B].
  destruct (IH B) as [I1 I2]. destruct (item_offs t off H it A) as [J1 J2].
  cbn [flat_map]. split.
  - rewrite offs_of_app. apply Forall_app. split; assumption.
  - intros acc. rewrite find_off_app, J2, I2. unfold has_z. cbn [existsb]. fold (has_z r).
    destruct (is_zone it), (has_z r); reflexivity.
Qed.

Lemma fields_sets_ok p e :
  forallb simple e = true -> frac_prec_ok p e = true -> (In Fs e -> 0 <= t) ->
  forallb set_range_ok (flat_map (fields t off) e) && sets_consistent (flat_map (fields t off) e) = true.
Proof.
  intros Hs Hp Ht. rewrite items_range by assumption. cbn [andb]. unfold sets_consistent, all_kinds.
  cbn [forallb]. rewrite !(all_same_forall _ _ (items_nums e _ Hs Ht)).
  rewrite (all_same_forall _ _ (proj1 (items_nanos p e Hs Hp))).
  rewrite (all_same_forall _ _ (proj1 (items_offs e Hs))). reflexivity.
Qed.


Lemma prec_cases p e : has_frac e = true -> frac_prec_ok p e = true -> p = 3%nat \/ p = 6%nat \/ p = 9%nat.
Proof.
  unfold has_frac, frac_prec_ok. intros Hf Hp. apply existsb_exists in Hf as [it [Hin Hi]].
  pose proof (proj1 (forallb_forall _ _) Hp it Hin) as Q. cbv beta in Q. unfold is_frac in Hi.
  destruct (prec_of it) as [q|] eqn:E; [|discriminate]. apply Nat.eqb_eq in Q. subst q.
  destruct it; cbn in E; inversion E; auto.
Qed.


(* the fields of a complete format validate to the instant truncated to the printed precision *)
Theorem validate_fields p e :
  forallb simple e = true -> frac_prec_ok p e = true -> (In Fs e -> 0 <= t) ->
  (fam_full e && (negb (has NTimestamp e) || has_z e)) || fam_epoch e = true ->
  validate2 (has_z e) (if has NTimestamp e then 0 else off) (flat_map (fields t off) e)
  = POk (t / result_unit p e * result_unit p e).
Proof.
  intros Hs Hp Ht Hfam.
  pose proof (civ_facts t off H) as X. cbv zeta in X.
  destruct X as [Hy [Hmo [Hd [Hh [Hmi [Hsec [Hn [V [Eloc En]]]]]]]]].
  pose proof (h_offr _ _ H) as Hr. pose proof (h_range _ _ H) as Hrg.
  unfold validate2. rewrite (fields_sets_ok p e Hs Hp Ht). cbn [negb].
  destruct (items_offs e Hs) as [_ FO]. destruct (items_nanos p e Hs Hp) as [_ FN].
  assert (FNum : forall k, find_num k (flat_map (fields t off) e) None = if has k e then Some (val t off k) else None)
    by (intros k; rewrite items_find_num by assumption; reflexivity).
  assert (TN : forall q, q = 3%nat \/ q = 6%nat \/ q = 9%nat ->
               t / 1000000000 * 1000000000 + trunc_nano q (t mod 1000000000) = t / unit_of_prec q * unit_of_prec q).
  { intros q [->|[->| ->]]; unfold trunc_nano, unit_of_prec; cbn [Nat.sub Z.of_nat Pos.of_succ_nat Pos.succ];
      [change (10 ^ 6) with 1000000|change (10 ^ 3) with 1000|change (10 ^ 0) with 1]; lia. }
  assert (RES : t / 1000000000 * 1000000000 + (if has_frac e then trunc_nano p (t mod 1000000000) else 0)
                = t / result_unit p e * result_unit p e).
  { unfold result_unit. destruct (has_frac e) eqn:HF; [apply TN; eapply prec_cases; eassumption|lia]. }
  unfold naive2. rewrite !FNum, FO, (FN None).
  apply orb_true_iff in Hfam as [Hfull|Hep].
  - apply andb_true_iff in Hfull as [Hfull Hts]. unfold fam_full in Hfull.
    repeat (apply andb_true_iff in Hfull as [Hfull ?]).
    repeat match goal with Hx : has _ e = true |- _ => rewrite Hx; clear Hx end.
    unfold val. fold (civil_of t off).
    replace ((YEAR_MIN <=? c_year (civil_of t off)) && (c_year (civil_of t off) <=? YEAR_MAX)
             && valid_date (c_year (civil_of t off)) (c_mon (civil_of t off)) (c_day (civil_of t off))
             && (0 <=? c_hour (civil_of t off)) && (c_hour (civil_of t off) <=? 23)
             && (0 <=? c_min (civil_of t off)) && (c_min (civil_of t off) <=? 59)
             && (0 <=? c_sec (civil_of t off)) && (c_sec (civil_of t off) <=? 60)) with true
      by (symmetry; rewrite V; unfold YEAR_MIN, YEAR_MAX; rewrite !andb_true_iff, !Z.leb_le; lia).
    rewrite Eloc.
    destruct (has_z e) eqn:HZ.
    + replace ((-86400 <? off) && (off <? 86400)) with true
        by (symmetry; apply andb_true_iff; split; apply Z.ltb_lt; lia).
      destruct (has NTimestamp e);
        [replace (t / 1000000000 =? t / 1000000000 + off - off) with true by (symmetry; apply Z.eqb_eq; lia)|];
        destruct (has_frac e); f_equal; rewrite <- RES; unfold Calendar.NS; lia.
    + destruct (has NTimestamp e) eqn:HT; [discriminate|].
      destruct (has_frac e); f_equal; rewrite <- RES; unfold Calendar.NS; lia.
  - unfold fam_epoch in Hep. apply andb_true_iff in Hep as [Hts Hno]. apply negb_true_iff in Hno.
    repeat (apply orb_false_iff in Hno as [Hno ?]).
    repeat match goal with Hx : has _ e = false |- _ => rewrite Hx; clear Hx end. rewrite Hts.
    cbn [is_some orb].
    destruct (has_z e) eqn:HZ.
    + replace ((-86400 <? off) && (off <? 86400)) with true
        by (symmetry; apply andb_true_iff; split; apply Z.ltb_lt; lia).
      replace ((TS_MIN <=? val t off NTimestamp + off) && (val t off NTimestamp + off <=? TS_MAX)) with true
        by (symmetry; unfold val, TS_MIN, TS_MAX, LOCAL_LO, LOCAL_HI in *; apply andb_true_iff; split; apply Z.leb_le; lia).
      unfold val. destruct (has_frac e); f_equal; rewrite <- RES; unfold Calendar.NS; lia.
    + replace ((TS_MIN <=? val t off NTimestamp + 0) && (val t off NTimestamp + 0 <=? TS_MAX)) with true
        by (symmetry; unfold val, TS_MIN, TS_MAX, LOCAL_LO, LOCAL_HI in *; apply andb_true_iff; split; apply Z.leb_le; lia).
      unfold val. destruct (has_frac e); f_equal; rewrite <- RES; unfold Calendar.NS; lia.
Qed.
End Lists.


(* ------------------------------------------------------------------ the format text, as a relation *)
Definition spec_bytes (it : fitem) : option bytes :=
  match it with
  | FLit _ => None
  | FY => Some [89] | Fm => Some [109] | Fd => Some [100] | FH => Some [72] | FM => Some [77] | FS => Some [83]
  | FDot3 => Some [46; 51; 102] | FDot6 => Some [46; 54; 102] | FDot9 => Some [46; 57; 102]
  | F3 => Some [51; 102] | F6 => Some [54; 102] | F9 => Some [57; 102]
  | Ff => Some [102] | Fz => Some [122] | Fcz => Some [58; 122] | Fs => Some [115]
  | FT => Some [84] | FF => Some [70] | FPct => Some [37]
  end%N.

Inductive Fmt : bytes -> list fitem -> Prop :=
| Fmt_nil : Fmt [] []
| Fmt_lit b r its : b <> 37%N -> Fmt r its -> Fmt (b :: r) (FLit b :: its)
| Fmt_spec it ch r its : spec_bytes it = Some ch -> Fmt r its -> Fmt (37%N :: ch ++ r) (it :: its).

Lemma ocons_inv {A} (x : A) o l : ocons x o = Some l -> exists l', o = Some l' /\ l = x :: l'.
Proof. destruct o; cbn; intros E; inversion E; eauto. Qed.

Lemma simple_spec_bytes c it : simple_spec c = Some it -> spec_bytes it = Some [c].
Proof.
  unfold simple_spec.
  repeat match goal with |- (if (?x =? ?k)%N then _ else _) = _ -> _ =>
    destruct (N.eqb_spec x k); [subst; intros E; inversion E; reflexivity|] end.
  discriminate.
Qed.
Lemma dotf_bytes d it : dotf d = Some it -> spec_bytes it = Some [46%N; d; 102%N].
Proof.
  unfold dotf.
  repeat match goal with |- (if (?x =? ?k)%N then _ else _) = _ -> _ =>
    destruct (N.eqb_spec x k); [subst; intros E; inversion E; reflexivity|] end.
  discriminate.
Qed.
Lemma nf_bytes d it : nf d = Some it -> spec_bytes it = Some [d; 102%N].
Proof.
  unfold nf.
  repeat match goal with |- (if (?x =? ?k)%N then _ else _) = _ -> _ =>
    destruct (N.eqb_spec x k); [subst; intros E; inversion E; reflexivity|] end.
  discriminate.
Qed.

Lemma parse_fmt_Fmt_n n : forall fmt its, (length fmt <= n)%nat -> parse_fmt fmt = Some its -> Fmt fmt its.
Proof.
  induction n as [|n IH]; intros fmt its L P.
  - destruct fmt; [|cbn in L; lia]. cbn in P. inversion P. constructor.
  - destruct fmt as [|b r]; [cbn in P; inversion P; constructor|]. cbn [length] in L. cbn [parse_fmt] in P.
    destruct (N.eqb_spec b 37) as [->|NE]; cbn [negb] in P.
    + destruct r as [|c r1]; [discriminate|].
      destruct (simple_spec c) as [it|] eqn:SS.
      * apply ocons_inv in P as [l' [P' ->]].
        apply (Fmt_spec it [c] r1 l' (simple_spec_bytes _ _ SS)). apply IH; [cbn [length] in L; lia|exact P'].
      * destruct r1 as [|d r2]; [discriminate|].
        destruct (N.eqb_spec c 46) as [->|N46].
        { destruct r2 as [|e r3]; [discriminate|]. destruct (N.eqb_spec e 102) as [->|]; [|discriminate].
          destruct (dotf d) as [it|] eqn:DF; [|discriminate]. apply ocons_inv in P as [l' [P' ->]].
          apply (Fmt_spec it [46%N; d; 102%N] r3 l' (dotf_bytes _ _ DF)). apply IH; [cbn [length] in L; lia|exact P']. }
        destruct (N.eqb_spec c 58) as [->|N58].
        { destruct (N.eqb_spec d 122) as [->|]; [|discriminate]. apply ocons_inv in P as [l' [P' ->]].
          apply (Fmt_spec Fcz [58%N; 122%N] r2 l' eq_refl). apply IH; [cbn [length] in L; lia|exact P']. }
        destruct (N.eqb_spec d 102) as [->|]; [|discriminate].
        destruct (nf c) as [it|] eqn:NF; [|discriminate]. apply ocons_inv in P as [l' [P' ->]].
        apply (Fmt_spec it [c; 102%N] r2 l' (nf_bytes _ _ NF)). apply IH; [cbn [length] in L; lia|exact P'].
    + apply ocons_inv in P as [l' [P' ->]]. apply Fmt_lit; [exact NE|]. apply IH; [lia|exact P'].
Qed.

Lemma parse_fmt_Fmt fmt its : parse_fmt fmt = Some its -> Fmt fmt its.
Proof. apply (parse_fmt_Fmt_n (length fmt)). lia. Qed.

(* the parse-side tokenizer reads the same text as the items the print side produced *)
Lemma tokenize_Fmt fmt its : Fmt fmt its -> tokenize fmt = flat_map pitem its.
Proof.
  induction 1 as [|b r its NE _ IH|it ch r its SB _ IH]; [reflexivity| |].
  - cbn [tokenize flat_map pitem app]. rewrite (proj2 (N.eqb_neq b 37) NE). rewrite IH.
    destruct (is_ws_c b); reflexivity.
  - destruct it; cbn in SB; inversion SB; subst ch; cbn [app flat_map pitem]; simpl tokenize; rewrite IH; reflexivity.
Qed.

(* ------------------------------------------------------------------ the Issue-660 whitespace comparison *)
Definition step3 (acc : N * N * N) (k : N) : N * N * N :=
  let '(a, b, c) := acc in
  if (k =? 1)%N then ((a + 1)%N, b, c) else if (k =? 2)%N then (a, (b + 1)%N, c)
  else if (k =? 3)%N then (a, b, (c + 1)%N) else (0, 0, 0)%N.

Definition add3 (x y : N * N * N) : N * N * N :=
  let '(a, b, c) := x in let '(a', b', c') := y in ((a + a')%N, (b + b')%N, (c + c')%N).

Lemma lead_counts_acc l a b c :
  fst (lead_counts l a b c) = add3 (fst (lead_counts l 0 0 0)) (a, b, c).
Proof.
  revert a b c. induction l as [|k r IH]; intros a b c; [reflexivity|]. cbn [lead_counts].
  destruct (k =? 1)%N; [rewrite IH, (IH (0 + 1)%N); destruct (fst (lead_counts r 0 0 0)) as [[x y] z]; cbn; repeat (f_equal; try lia)|].
  destruct (k =? 2)%N; [rewrite IH, (IH 0%N (0 + 1)%N); destruct (fst (lead_counts r 0 0 0)) as [[x y] z]; cbn; repeat (f_equal; try lia)|].
  destruct (k =? 3)%N; [rewrite IH, (IH 0%N 0%N (0 + 1)%N); destruct (fst (lead_counts r 0 0 0)) as [[x y] z]; cbn; repeat (f_equal; try lia)|].
  reflexivity.
Qed.

Lemma trail_fold l : fst (lead_counts (rev l) 0 0 0) = fold_left step3 l (0, 0, 0)%N.
Proof.
  induction l as [|k r IH] using rev_ind; [reflexivity|].
  rewrite rev_app_distr, fold_left_app. cbn [rev app fold_left lead_counts]. rewrite <- IH.
  unfold step3.
  destruct (k =? 1)%N; [rewrite lead_counts_acc; destruct (fst (lead_counts (rev r) 0 0 0)) as [[x y] z]; cbn; repeat (f_equal; try lia)|].
  destruct (k =? 2)%N; [rewrite lead_counts_acc; destruct (fst (lead_counts (rev r) 0 0 0)) as [[x y] z]; cbn; repeat (f_equal; try lia)|].
  destruct (k =? 3)%N; [rewrite lead_counts_acc; destruct (fst (lead_counts (rev r) 0 0 0)) as [[x y] z]; cbn; repeat (f_equal; try lia)|].
  destruct (fst (lead_counts (rev r) 0 0 0)) as [[x y] z]. reflexivity.
Qed.

Definition class0 (l : bytes) : Prop := Forall (fun b => ws_class b = 0%N) l.

Lemma fold_class0 l s : class0 l -> l <> [] -> fold_left step3 (map ws_class l) s = (0, 0, 0)%N.
Proof.
  intros Hc. revert s. induction Hc as [|b r Hb _ IH]; intros s Hne; [contradiction|].
  cbn [map fold_left]. rewrite Hb. destruct s as [[x y] z]. cbn [step3 N.eqb].
  destruct r; [reflexivity|]. apply IH. discriminate.
Qed.

Lemma ws_class_digit d : ws_class (digit_byte d) = 0%N.
Proof.
  unfold ws_class, digit_byte.
  destruct (N.eqb_spec (48 + d) 32); [lia|]. destruct (N.eqb_spec (48 + d) 9); [lia|].
  destruct (N.eqb_spec (48 + d) 10); [lia|]. destruct (N.eqb_spec (48 + d) 13); [lia|]. reflexivity.
Qed.

Lemma class0_digits l : class0 (map digit_byte l).
Proof. induction l; constructor; [apply ws_class_digit|assumption]. Qed.

Lemma item_out_class0 t off it ch :
  spec_bytes it = Some ch ->
  class0 (fmt_item t off (civil_of t off) it) /\ fmt_item t off (civil_of t off) it <> [] /\ class0 ch.
Proof.
  assert (D : forall k v, class0 (digits_n k v)) by (intros; rewrite digits_n_bytes; apply class0_digits).
  assert (Dn : forall k v, digits_n (S k) v <> [])
    by (intros k v E; pose proof (f_equal (@length _) E) as L; rewrite digits_n_bytes, map_length, dvals_length in L; discriminate).
  assert (DE : forall v, class0 (dec v) /\ dec v <> []).
  { intros v. unfold dec. rewrite digits_n_bytes, drop_zeros_bytes. split; [apply class0_digits|].
    intros E. apply map_eq_nil in E. revert E. apply dropzN_nonempty.
    intros E. pose proof (dvals_length (S (Z.to_nat (Z.log2 v))) v) as L. rewrite E in L. discriminate. }
  intros SB. unfold class0 in *. destruct it; cbn in SB; inversion SB; subst ch; cbn [fmt_item];
    (split; [|split; [|repeat constructor]]);
    try apply D; try apply Dn;
    unfold fmt_year, fmt_off, dec_signed;
    repeat match goal with
           | |- context [if ?b then _ else _] => destruct b
           | |- Forall _ (_ :: _) => constructor; [reflexivity|]
           | |- Forall _ (_ ++ _) => apply Forall_app; split
           | |- Forall _ [] => constructor
           | |- Forall _ (digits_n _ _) => apply D
           | |- Forall _ (dec _) => apply DE
           | |- _ :: _ <> [] => discriminate
           | |- digits_n (S _) _ <> [] => apply Dn
           | |- dec _ <> [] => apply DE
           end;
    try (intros E; apply app_eq_nil in E as [E _]; revert E; try apply Dn; discriminate).
Qed.

Lemma sym_ws_class_classify v : map sym_ws_class (classify v) = map ws_class v.
Proof.
  unfold classify. rewrite map_map. apply map_ext. intros b. unfold classify1.
  destruct (N.leb_spec 48 b), (N.leb_spec b 57); cbn [andb sym_ws_class]; try reflexivity.
  replace b with (digit_byte (b - 48)) by (unfold digit_byte; lia). rewrite ws_class_digit. reflexivity.
Qed.

Lemma lead_Fmt t off fmt its : Fmt fmt its ->
  forall a b c, lead_counts (map ws_class (fmt_items t off its)) a b c = lead_counts (map ws_class fmt) a b c.
Proof.
  induction 1 as [|b r its NE _ IH|it ch r its SB _ IH]; intros x y z; [reflexivity| |].
  - rewrite fmt_items_cons. cbn [fmt_item app map lead_counts]. rewrite !IH. reflexivity.
  - rewrite fmt_items_cons. destruct (item_out_class0 t off it ch SB) as [C0 [NE _]].
    destruct (fmt_item t off (civil_of t off) it) as [|o1 orest]; [contradiction|].
    inversion C0; subst. cbn [app map lead_counts]. rewrite H1. reflexivity.
Qed.

Lemma trail_Fmt t off fmt its : Fmt fmt its ->
  forall s, fold_left step3 (map ws_class (fmt_items t off its)) s = fold_left step3 (map ws_class fmt) s.
Proof.
  induction 1 as [|b r its NE _ IH|it ch r its SB _ IH]; intros s; [reflexivity| |].
  - rewrite fmt_items_cons. cbn [fmt_item app map fold_left]. apply IH.
  - rewrite fmt_items_cons. destruct (item_out_class0 t off it ch SB) as [C0 [NE C1]].
    rewrite !map_app, !fold_left_app. rewrite (fold_class0 _ s C0 NE).
    change (37%N :: ch ++ r) with ((37%N :: ch) ++ r). rewrite map_app, fold_left_app.
    rewrite (fold_class0 (37%N :: ch) s); [apply IH|constructor; [reflexivity|exact C1]|discriminate].
Qed.

Lemma issue660_Fmt t off fmt its :
  Fmt fmt its ->
  issue660_ok (map sym_ws_class (classify (fmt_items t off its))) (map ws_class fmt) = true.
Proof.
  intros HF. rewrite sym_ws_class_classify.
  unfold issue660_ok. rewrite (lead_Fmt t off fmt its HF). destruct (lead_counts (map ws_class fmt) 0 0 0) as [cp pb].
  assert (E3 : forall x, eq3 x x = true) by (intros [[a b] c]; cbn; rewrite !N.eqb_refl; reflexivity).
  rewrite E3. cbn [negb]. rewrite !trail_fold, (trail_Fmt t off fmt its HF). destruct pb; apply E3.
Qed.


(* a format is "complete and unambiguous" when, after expanding %T %F %%:
   - what follows %s or %.3f/%.6f/%.9f does not print a digit first (chrono's parser of these
     items takes every digit that follows),
   - every fraction item has the same precision p (a field set twice must get the same value),
   - it has year, month, day, hour, minute, second (and, if it also has %s, an offset), or it is
     an epoch format: %s without any date or time-of-day field *)

Lemma in_has k it e : In it e -> is_kind k it = true -> has k e = true.
Proof. intros Hin Hk. unfold has. apply existsb_exists. exists it. split; assumption. Qed.

(* print with format fmt, parse the text back with the same format (chrono parse_from_str + the
   Issue-660 check; has_tz = the format has %z/%:z; a format without offset is read in the zone it
   was printed in, an epoch format in UTC as process_dt does): the instant truncated to the
   printed precision *)
Theorem strftime_generic_roundtrip fmt its p t off :
  parse_fmt fmt = Some its ->
  rt_ok (expand its) p = true ->
  off mod 60 = 0 -> -86400 < off < 86400 ->
  LOCAL_LO * 1000000000 <= t + off * 1000000000 < LOCAL_HI * 1000000000 ->
  (has NTimestamp (expand its) = true -> 0 <= t) ->
  exists s, strftime fmt t off = Some s /\
    chrono_parse fmt (has_z (expand its)) (if has NTimestamp (expand its) then 0 else off) (classify s)
    = POk (t / result_unit p (expand its) * result_unit p (expand its)).
Proof.
  intros HP Hrt H60 Hor Hrg Hts.
  assert (H : rt_hyps t off) by (constructor; assumption).
  exists (fmt_items t off its). split; [unfold strftime; rewrite HP; reflexivity|].
  pose proof (parse_fmt_Fmt fmt its HP) as HF.
  unfold rt_ok in Hrt. apply andb_true_iff in Hrt as [Hrt Hfam]. apply andb_true_iff in Hrt as [Hadj Hprec].
  set (e := expand its) in *.
  assert (Hs : forallb simple e = true) by apply expand_simple.
  assert (Ht : In Fs e -> 0 <= t) by (intros Hin; apply Hts; eapply in_has; [exact Hin|reflexivity]).
  unfold chrono_parse. rewrite (tokenize_Fmt fmt its HF), <- (pitem_expand its). fold e.
  rewrite <- (fmt_expand t off its). fold e.
  rewrite (scan_items t off e Hs Hadj) by
    (try (left; reflexivity); try exact Ht; intros _; pose proof (civ_facts t off H) as X; cbv zeta in X; tauto).
  rewrite (validate_fields t off H p e Hs Hprec Ht Hfam).
  unfold e. rewrite (fmt_expand t off its). rewrite (issue660_Fmt t off fmt its HF). reflexivity.
Qed.

(* the formats named in the task, as instances *)
Definition bytes_of (s : string) : bytes := s2b s.

Example rt_ok_instances :
  (exists its, parse_fmt default_fmt = Some its /\ rt_ok (expand its) 3 = true /\ has_z (expand its) = true
               /\ has NTimestamp (expand its) = false /\ result_unit 3 (expand its) = 1000000)
  /\ (exists its, parse_fmt (s2b "%Y%m%dT%H%M%S%.9f") = Some its /\ rt_ok (expand its) 9 = true /\ has_z (expand its) = false
               /\ has NTimestamp (expand its) = false /\ result_unit 9 (expand its) = 1)
  /\ (exists its, parse_fmt (s2b "%s%.9f") = Some its /\ rt_ok (expand its) 9 = true /\ has_z (expand its) = false
               /\ has NTimestamp (expand its) = true /\ result_unit 9 (expand its) = 1)
  /\ (exists its, parse_fmt (s2b "[%F_%T.%3f] %s|%:z") = Some its /\ rt_ok (expand its) 3 = true /\ has_z (expand its) = true
               /\ has NTimestamp (expand its) = true /\ result_unit 3 (expand its) = 1000000).
Proof. repeat split; eexists; (split; [vm_compute; reflexivity|]); vm_compute; repeat split; reflexivity. Qed.

Corollary roundtrip_compact_nanos t off :
  off mod 60 = 0 -> -86400 < off < 86400 ->
  LOCAL_LO * 1000000000 <= t + off * 1000000000 < LOCAL_HI * 1000000000 ->
  exists s, strftime (s2b "%Y%m%dT%H%M%S%.9f") t off = Some s /\
            chrono_parse (s2b "%Y%m%dT%H%M%S%.9f") false off (classify s) = POk t.
Proof.
  intros A B C.
  destruct (strftime_generic_roundtrip (s2b "%Y%m%dT%H%M%S%.9f") _ 9 t off eq_refl eq_refl A B C) as [s [E1 E2]];
    [discriminate|].
  exists s. split; [exact E1|].
  change (chrono_parse (s2b "%Y%m%dT%H%M%S%.9f") false off (classify s) = POk (t / 1 * 1)) in E2.
  rewrite E2. f_equal. lia.
Qed.

Corollary roundtrip_epoch_nanos t off :
  off mod 60 = 0 -> -86400 < off < 86400 -> 0 <= t ->
  LOCAL_LO * 1000000000 <= t + off * 1000000000 < LOCAL_HI * 1000000000 ->
  exists s, strftime (s2b "%s%.9f") t off = Some s /\
            chrono_parse (s2b "%s%.9f") false 0 (classify s) = POk t.
Proof.
  intros A B T C.
  destruct (strftime_generic_roundtrip (s2b "%s%.9f") _ 9 t off eq_refl eq_refl A B C (fun _ => T)) as [s [E1 E2]].
  exists s. split; [exact E1|].
  change (chrono_parse (s2b "%s%.9f") false 0 (classify s) = POk (t / 1 * 1)) in E2.
  rewrite E2. f_equal. lia.
Qed.

(* what the excluded classes do (chrono reads its own output differently or not at all) *)
Example roundtrip_refuted_classes :
  (* %s before 1970 prints a '-' that the parser of %s does not accept *)
  strftime (s2b "%s%.9f") (-1500000000) 0 = Some (s2b "-2.500000000")
  /\ chrono_parse (s2b "%s%.9f") false 0 (cs "-2.500000000") = PErr
  (* a digit directly after %s is taken as part of the timestamp *)
  /\ strftime (s2b "%s%f") 1704164645123456789 0 = Some (s2b "1704164645123456789")
  /\ chrono_parse (s2b "%s%f") false 0 (cs "1704164645123456789") = PErr
  (* a digit directly after %.3f is swallowed by the fraction *)
  /\ strftime (s2b "%Y%m%d%.3f%H%M%S") 1704164645123456789 0 = Some (s2b "20240102.123030405")
  /\ chrono_parse (s2b "%Y%m%d%.3f%H%M%S") false 0 (cs "20240102.123030405") = PErr
  (* two precisions: the second setting of the nanosecond field disagrees with the first *)
  /\ strftime (s2b "%F %T%.3f %6f") 1704164645123456789 0 = Some (s2b "2024-01-02 03:04:05.123 123456")
  /\ chrono_parse (s2b "%F %T%.3f %6f") false 0 (cs "2024-01-02 03:04:05.123 123456") = PErr
  (* %s with date and time but without offset, printed in a zone other than UTC: inconsistent *)
  /\ strftime (s2b "%s %F %T") 1704164645000000000 3600 = Some (s2b "1704164645 2024-01-02 04:04:05")
  /\ chrono_parse (s2b "%s %F %T") false 0 (cs "1704164645 2024-01-02 04:04:05") = PErr.
Proof. vm_compute. repeat split; reflexivity. Qed.

