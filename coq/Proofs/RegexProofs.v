(* Proofs/RegexProofs.v — C04, regex stage: theorems about the matcher of Model/Regex.v, for EVERY
   pattern of the AST and every text:
     * totality: with fuel |text|+1 the search never runs out of fuel (and the concrete instance never
       answers Unknown);
     * soundness with respect to the declarative relation [M] (a denotational reading of the AST:
       concatenation, union, bounded/unbounded iteration, group = span of the sub-match);
     * a match and all its group spans lie inside the text, groups inside the overall span.  *)
From Coq Require Import Lia.
From S4.Base Require Import Bytes.
From S4.Model Require Import Regex.
Open Scope N_scope.

(* ------------------------------------------------------------------ the declarative relation *)
Inductive iter (R : cst -> cst -> Prop) : nat -> cst -> cst -> Prop :=
| iter_O s : iter R O s s
| iter_S n s s1 s2 : R s s1 -> iter R n s1 s2 -> iter R (S n) s s2.

Fixpoint M (r : re) (s s' : cst) : Prop :=
  match r with
  | REps => s' = s
  | RBol => c_pos s = 0 /\ s' = s
  | REol => c_rem s = [] /\ s' = s
  | RDot => c_step_cp is_dot s = SOk s'
  | RChar ci c => c_step_cp (is_char ci c) s = SOk s'
  | RBytes l => c_step_bytes l s = SOk s'
  | RClass ci c => c_step_cp (in_cls ci c) s = SOk s'
  | RSeq a b => exists s1, M a s s1 /\ M b s1 s'
  | RAlt a b => M a s s' \/ M b s s'
  | RRep mn mx g a =>
      exists n, (mn <= n)%nat /\ match mx with None => True | Some x => (n <= Nat.max mn x)%nat end /\
                iter (M a) n s s'
  | RGroup g a => exists s1, M a s s1 /\ s' = c_set_group g s s1
  end.

(* [matches r text st en caps]: r matches text[st..en) and records the group spans caps (latest first) *)
Definition matches (r : re) (text : bytes) (st en : N) (caps : list (N * (N * N))) : Prop :=
  M r (mkC st (skipn (N.to_nat st) text) []) (mkC en (skipn (N.to_nat en) text) caps).

Lemma iter_app R n1 n2 s s1 s2 : iter R n1 s s1 -> iter R n2 s1 s2 -> iter R (n1 + n2) s s2.
Proof. induction 1; simpl; auto. intros. econstructor; eauto. Qed.

(* ------------------------------------------------------------------ state invariant *)
Definition inv (text : bytes) (s : cst) : Prop :=
  c_pos s <= N.of_nat (length text) /\ c_rem s = skipn (N.to_nat (c_pos s)) text.
Definition rem (s : cst) : nat := length (c_rem s).

Lemma inv_rem text s : inv text s -> N.of_nat (rem s) + c_pos s = N.of_nat (length text).
Proof. intros [H1 H2]. unfold rem. rewrite H2, skipn_length. lia. Qed.

Lemma skipn_skipn_add {A} (n k : nat) (l : list A) : skipn k (skipn n l) = skipn (n + k) l.
Proof. revert l; induction n; intros l; simpl; auto. destruct l; simpl; auto. destruct k; reflexivity. Qed.

Lemma decode_len s c len r : decode s = Some (c, len, r) ->
  0 < len /\ r = skipn (N.to_nat len) s /\ (N.to_nat len <= length s)%nat.
Proof.
  unfold decode. destruct s as [|b0 s]; [discriminate|].
  destruct (b0 <? 128). { intros H; inversion H; subst; simpl. repeat split; lia. }
  destruct (b0 <? 194); [discriminate|].
  destruct (b0 <? 224).
  { destruct s as [|b1 s]; [discriminate|]. destruct (cont b1); [|discriminate].
    intros H; inversion H; subst; simpl. repeat split; lia. }
  destruct (b0 <? 240).
  { destruct s as [|b1 [|b2 s]]; try discriminate.
    match goal with |- (if ?c then _ else _) = _ -> _ => destruct c; [|discriminate] end.
    intros H; inversion H; subst; simpl. repeat split; lia. }
  destruct (b0 <? 245); [|discriminate].
  destruct s as [|b1 [|b2 [|b3 s]]]; try discriminate.
  match goal with |- (if ?c then _ else _) = _ -> _ => destruct c; [|discriminate] end.
  intros H; inversion H; subst; simpl. repeat split; lia.
Qed.

Lemma inv_advance text s (len : N) r :
  inv text s -> r = skipn (N.to_nat len) (c_rem s) -> (N.to_nat len <= length (c_rem s))%nat ->
  inv text (mkC (c_pos s + len) r (c_caps s)).
Proof.
  intros Hi Hr Hl. pose proof (inv_rem _ _ Hi) as E. destruct Hi as [H1 H2]. unfold rem in E.
  split; simpl.
  - lia.
  - rewrite Hr, H2, skipn_skipn_add. f_equal. lia.
Qed.

Lemma step_cp_ok text p s s' : c_step_cp p s = SOk s' -> inv text s ->
  inv text s' /\ c_pos s < c_pos s' /\ c_caps s' = c_caps s /\ (rem s' < rem s)%nat.
Proof.
  unfold c_step_cp. destruct (decode (c_rem s)) as [[[c len] r]|] eqn:D; [|discriminate].
  destruct (p c); [|discriminate]. intros H Hi; inversion H; subst; clear H.
  apply decode_len in D as (Hl & Hr & Hn).
  repeat split; simpl; try lia.
  - apply (inv_advance text s len r Hi Hr Hn).
  - apply (inv_advance text s len r Hi Hr Hn).
  - unfold rem; simpl. rewrite Hr, skipn_length. lia.
Qed.

Lemma eat_ok l : forall rem0 pos p r, eat l rem0 pos = Some (p, r) ->
  p = pos + N.of_nat (length l) /\ r = skipn (length l) rem0 /\ (length l <= length rem0)%nat.
Proof.
  induction l as [|x l IH]; intros rem0 pos p r; simpl.
  - intros H; inversion H; subst. repeat split; lia.
  - destruct rem0 as [|y rem']; [discriminate|]. destruct (x =? y); [|discriminate].
    intros H. apply IH in H as (Hp & Hr & Hl). simpl. repeat split; try lia; auto.
Qed.

Lemma step_bytes_ok text l s s' : c_step_bytes l s = SOk s' -> inv text s ->
  inv text s' /\ c_pos s <= c_pos s' /\ c_caps s' = c_caps s /\ (rem s' <= rem s)%nat.
Proof.
  unfold c_step_bytes. destruct (eat l (c_rem s) (c_pos s)) as [[p r]|] eqn:E; [|discriminate].
  intros H Hi; inversion H; subst; clear H. apply eat_ok in E as (Hp & Hr & Hl). subst p.
  assert (Hinv : inv text (mkC (c_pos s + N.of_nat (length l)) r (c_caps s))).
  { apply (inv_advance text s (N.of_nat (length l)) r Hi); rewrite Nat2N.id; auto. }
  repeat split; simpl; try lia; try apply Hinv.
  unfold rem; simpl. rewrite Hr, skipn_length. lia.
Qed.

Lemma set_group_ok text g s0 s1 : inv text s1 -> inv text (c_set_group g s0 s1).
Proof. intros [H1 H2]. split; simpl; auto. Qed.

(* ------------------------------------------------------------------ totality *)
Section Total.
  Variable A : Type.
  Variable text : bytes.
  Variable fuel : nat.

  Definition kok (n : nat) (k : cst -> res A) : Prop :=
    forall s', inv text s' -> (rem s' <= n)%nat -> k s' <> OutOfFuel.
  Definition body_ok (body : cst -> (cst -> res A) -> res A) : Prop :=
    forall s k, inv text s -> (rem s < fuel)%nat -> kok (rem s) k -> body s k <> OutOfFuel.

  Lemma kok_le n n' k : kok n k -> (n' <= n)%nat -> kok n' k.
  Proof. intros H L s' Hi Hr. apply H; auto. lia. Qed.

  Lemma seqn_total body : body_ok body -> forall n s k,
    inv text s -> (rem s < fuel)%nat -> kok (rem s) k ->
    seqn cst A n body s k <> OutOfFuel.
  Proof.
    intros Hb. induction n as [|n IH]; intros s k Hi Hf Hk; simpl.
    - apply Hk; auto.
    - apply Hb; auto. intros s' Hi' Hr'. apply IH; auto; try lia. eapply kok_le; eauto.
  Qed.

  Lemma optn_total body : body_ok body -> forall g n s k,
    inv text s -> (rem s < fuel)%nat -> kok (rem s) k ->
    optn cst A n g body s k <> OutOfFuel.
  Proof.
    intros Hb g. induction n as [|n IH]; intros s k Hi Hf Hk; simpl.
    - apply Hk; auto.
    - assert (Hbody : body s (fun s' => optn cst A n g body s' k) <> OutOfFuel).
      { apply Hb; auto. intros s' Hi' Hr'. apply IH; auto; try lia. eapply kok_le; eauto. }
      assert (Hks : k s <> OutOfFuel) by (apply Hk; auto).
      destruct g.
      + destruct (body s (fun s' => optn cst A n true body s' k)); congruence.
      + destruct (k s); congruence.
  Qed.

  Lemma progressed_rem s s' : inv text s -> inv text s' -> c_progressed s s' = true -> (rem s' < rem s)%nat.
  Proof.
    intros H1 H2 P. unfold c_progressed in P. apply N.ltb_lt in P.
    apply inv_rem in H1. apply inv_rem in H2. lia.
  Qed.

  Lemma star_total body : body_ok body -> forall g f s k,
    inv text s -> (rem s < f)%nat -> (rem s < fuel)%nat -> kok (rem s) k ->
    star cst A c_progressed f g body s k <> OutOfFuel.
  Proof.
    intros Hb g. induction f as [|f IH]; intros s k Hi Hf Hfu Hk; [lia|]. simpl.
    assert (Hbody : body s (fun s' => if c_progressed s s' then star cst A c_progressed f g body s' k else NoMatch) <> OutOfFuel).
    { apply Hb; auto. intros s' Hi' Hr'. destruct (c_progressed s s') eqn:P; [|discriminate].
      pose proof (progressed_rem _ _ Hi Hi' P). apply IH; auto; try lia. eapply kok_le; eauto. }
    assert (Hks : k s <> OutOfFuel) by (apply Hk; auto).
    destruct g.
    - destruct (body s (fun s' => if c_progressed s s' then star cst A c_progressed f true body s' k else NoMatch)); congruence.
    - destruct (k s); congruence.
  Qed.

  Lemma m_total : forall r, body_ok (cm A fuel r).
  Proof.
    unfold cm. induction r; intros s k Hi Hf Hk; simpl.
    - apply Hk; auto.
    - unfold do_test. destruct (c_at_bol s); try discriminate. apply Hk; auto.
    - unfold do_test. destruct (c_at_eol s); try discriminate. apply Hk; auto.
    - unfold do_step. destruct (c_step_cp is_dot s) eqn:E; try discriminate.
      apply (step_cp_ok text) in E as (? & ? & ? & ?); [|assumption]. apply Hk; auto; lia.
    - unfold do_step. destruct (c_step_cp (is_char ci c) s) eqn:E; try discriminate.
      apply (step_cp_ok text) in E as (? & ? & ? & ?); [|assumption]. apply Hk; auto; lia.
    - unfold do_step. destruct (c_step_bytes l s) eqn:E; try discriminate.
      apply (step_bytes_ok text) in E as (? & ? & ? & ?); [|assumption]. apply Hk; auto; lia.
    - unfold do_step. destruct (c_step_cp (in_cls ci c) s) eqn:E; try discriminate.
      apply (step_cp_ok text) in E as (? & ? & ? & ?); [|assumption]. apply Hk; auto; lia.
    - apply IHr1; auto. intros s' Hi' Hr'. apply IHr2; auto; try lia. eapply kok_le; eauto.
    - pose proof (IHr1 s k Hi Hf Hk). pose proof (IHr2 s k Hi Hf Hk).
      match goal with |- match ?x with _ => _ end <> _ => destruct x end; congruence.
    - apply (seqn_total _ IHr); auto. intros s' Hi' Hr'.
      destruct mx.
      + apply (optn_total _ IHr); auto; try lia. eapply kok_le; eauto.
      + apply (star_total _ IHr); auto; try lia. eapply kok_le; eauto.
    - apply IHr; auto. intros s' Hi' Hr'. apply Hk; [apply set_group_ok; auto | exact Hr'].
  Qed.
End Total.

(* the concrete instance never answers Unknown *)
Section Known.
  Variable A : Type.
  Variable fuel : nat.
  Definition knows (k : cst -> res A) : Prop := forall s, k s <> Unknown.
  Definition body_knows (body : cst -> (cst -> res A) -> res A) : Prop :=
    forall s k, knows k -> body s k <> Unknown.

  Lemma seqn_knows body : body_knows body -> forall n, body_knows (seqn cst A n body).
  Proof.
    intros Hb. induction n as [|n IH]; intros s k Hk; simpl; auto.
    apply Hb. intros s'. apply IH; auto.
  Qed.
  Lemma optn_knows body g : body_knows body -> forall n, body_knows (optn cst A n g body).
  Proof.
    intros Hb. induction n as [|n IH]; intros s k Hk; simpl; auto.
    assert (H1 : body s (fun s' => optn cst A n g body s' k) <> Unknown) by (apply Hb; intros s'; apply IH; auto).
    pose proof (Hk s). destruct g.
    - destruct (body s (fun s' => optn cst A n true body s' k)); congruence.
    - destruct (k s); congruence.
  Qed.
  Lemma star_knows body g : body_knows body -> forall f, body_knows (star cst A c_progressed f g body).
  Proof.
    intros Hb. induction f as [|f IH]; intros s k Hk; simpl; [discriminate|].
    assert (H1 : body s (fun s' => if c_progressed s s' then star cst A c_progressed f g body s' k else NoMatch) <> Unknown).
    { apply Hb. intros s'. destruct (c_progressed s s'); [apply IH; auto|discriminate]. }
    pose proof (Hk s). destruct g.
    - destruct (body s (fun s' => if c_progressed s s' then star cst A c_progressed f true body s' k else NoMatch)); congruence.
    - destruct (k s); congruence.
  Qed.
  Lemma m_knows : forall r, body_knows (cm A fuel r).
  Proof.
    unfold cm. induction r; intros s k Hk; simpl; auto.
    - unfold do_test, c_at_bol. destruct (c_pos s =? 0); auto; discriminate.
    - unfold do_test, c_at_eol. destruct (c_rem s); auto; discriminate.
    - unfold do_step, c_step_cp. destruct (decode (c_rem s)) as [[[c len] r]|]; try discriminate.
      destruct (is_dot c); auto; discriminate.
    - unfold do_step, c_step_cp. destruct (decode (c_rem s)) as [[[c0 len] r]|]; try discriminate.
      destruct (is_char ci c c0); auto; discriminate.
    - unfold do_step, c_step_bytes. destruct (eat l (c_rem s) (c_pos s)) as [[p r]|]; auto; discriminate.
    - unfold do_step, c_step_cp. destruct (decode (c_rem s)) as [[[c0 len] r]|]; try discriminate.
      destruct (in_cls ci c c0); auto; discriminate.
    - apply IHr1. intros s'. apply IHr2; auto.
    - pose proof (IHr1 s k Hk). pose proof (IHr2 s k Hk).
      match goal with |- match ?x with _ => _ end <> _ => destruct x end; congruence.
    - apply (seqn_knows _ IHr). intros s'. destruct mx.
      + apply (optn_knows _ _ IHr); auto.
      + apply (star_knows _ _ IHr); auto.
    - apply IHr. intros s'. apply Hk.
  Qed.
End Known.

Lemma inv_start text pos rem0 : pos <= N.of_nat (length text) -> rem0 = skipn (N.to_nat pos) text ->
  inv text (mkC pos rem0 []).
Proof. intros; split; simpl; auto. Qed.

Lemma inv_next text pos b rem0 caps : inv text (mkC pos (b :: rem0) caps) -> inv text (mkC (pos + 1) rem0 caps).
Proof.
  intros Hi. pose proof (inv_rem _ _ Hi) as E. unfold rem in E. cbn [c_rem c_pos length] in E.
  rewrite Nat2N.inj_succ in E. destruct Hi as [Ha Hb]. cbn [c_rem c_pos] in *.
  split; cbn [c_rem c_pos]; [lia|].
  replace (N.to_nat (pos + 1)) with (N.to_nat pos + 1)%nat by lia.
  rewrite <- skipn_skipn_add, <- Hb. reflexivity.
Qed.

Lemma match_at_total text fuel r pos rem0 :
  inv text (mkC pos rem0 []) -> (length rem0 < fuel)%nat ->
  match_at fuel r pos rem0 <> OutOfFuel /\ match_at fuel r pos rem0 <> Unknown.
Proof.
  intros Hi Hf. split.
  - unfold match_at. apply (m_total cst text fuel r); auto. intros s' _ _. discriminate.
  - unfold match_at. apply m_knows. intros s'. discriminate.
Qed.

Lemma search_from_total text fuel r : forall rem0 pos,
  inv text (mkC pos rem0 []) -> (length rem0 < fuel)%nat ->
  search_from fuel r pos rem0 <> OutOfFuel /\ search_from fuel r pos rem0 <> Unknown.
Proof.
  induction rem0 as [|b rem0 IH]; intros pos Hi Hf; simpl;
    destruct (match_at_total text fuel r pos _ Hi Hf) as [H1 H2].
  - destruct (match_at fuel r pos []); split; congruence.
  - pose proof (inv_next _ _ _ _ _ Hi) as Hi'.
    simpl in Hf. destruct (IH (pos + 1) Hi' ltac:(lia)) as [H3 H4].
    destruct (match_at fuel r pos (b :: rem0)); split; congruence.
Qed.

(* THEOREM (totality): the search on any text with the fuel the model uses terminates with a verdict *)
Theorem search_total r text : search r text = NoMatch \/ exists mt, search r text = Match mt.
Proof.
  unfold search, fuel_for.
  destruct (search_from_total text (S (length text)) r text 0) as [H1 H2].
  - apply inv_start; [lia|reflexivity].
  - lia.
  - destruct (search_from (S (length text)) r 0 text); eauto; congruence.
Qed.

Theorem row_spans_total row line : exists x, row_spans row line = Match x.
Proof.
  unfold row_spans. destruct (slice_of row line) as [sl|]; eauto.
  destruct (search_total (rx_re row) sl) as [H|[mt H]]; rewrite H; eauto.
Qed.

(* ------------------------------------------------------------------ soundness *)
Section Sound.
  Variable A : Type.
  Variable fuel : nat.
  Definition body_sound (R : cst -> cst -> Prop) (body : cst -> (cst -> res A) -> res A) : Prop :=
    forall s k x, body s k = Match x -> exists s', R s s' /\ k s' = Match x.

  Lemma seqn_sound R body : body_sound R body -> forall n s k x,
    seqn cst A n body s k = Match x -> exists s', iter R n s s' /\ k s' = Match x.
  Proof.
    intros Hb. induction n as [|n IH]; intros s k x H; simpl in H.
    - exists s; split; auto. constructor.
    - apply Hb in H as (s1 & H1 & H2). apply IH in H2 as (s2 & H3 & H4).
      exists s2; split; auto. econstructor; eauto.
  Qed.

  Lemma optn_sound R body g : body_sound R body -> forall n s k x,
    optn cst A n g body s k = Match x -> exists j s', (j <= n)%nat /\ iter R j s s' /\ k s' = Match x.
  Proof.
    intros Hb. induction n as [|n IH]; intros s k x H; simpl in H.
    - exists O, s; repeat split; auto. constructor.
    - assert (Hbody : body s (fun s' => optn cst A n g body s' k) = Match x ->
                      exists j s', (j <= S n)%nat /\ iter R j s s' /\ k s' = Match x).
      { intros Hm. apply Hb in Hm as (s1 & H1 & H2). apply IH in H2 as (j & s2 & Hj & H3 & H4).
        exists (S j), s2; repeat split; auto; try lia. econstructor; eauto. }
      assert (Hskip : k s = Match x -> exists j s', (j <= S n)%nat /\ iter R j s s' /\ k s' = Match x).
      { intros Hm. exists O, s; repeat split; auto; try lia. constructor. }
      destruct g.
      + destruct (body s (fun s' => optn cst A n true body s' k)) eqn:E; try discriminate; auto.
      + destruct (k s) eqn:E; try discriminate; auto.
  Qed.

  Lemma star_sound R body g : body_sound R body -> forall f s k x,
    star cst A c_progressed f g body s k = Match x -> exists j s', iter R j s s' /\ k s' = Match x.
  Proof.
    intros Hb. induction f as [|f IH]; intros s k x H; simpl in H; [discriminate|].
    assert (Hbody : body s (fun s' => if c_progressed s s' then star cst A c_progressed f g body s' k else NoMatch) = Match x ->
                    exists j s', iter R j s s' /\ k s' = Match x).
    { intros Hm. apply Hb in Hm as (s1 & H1 & H2). destruct (c_progressed s s1); [|discriminate].
      apply IH in H2 as (j & s2 & H3 & H4). exists (S j), s2; split; auto. econstructor; eauto. }
    assert (Hskip : k s = Match x -> exists j s', iter R j s s' /\ k s' = Match x).
    { intros Hm. exists O, s; split; auto. constructor. }
    destruct g.
    - destruct (body s (fun s' => if c_progressed s s' then star cst A c_progressed f true body s' k else NoMatch)) eqn:E;
        try discriminate; auto.
    - destruct (k s) eqn:E; try discriminate; auto.
  Qed.

  Lemma m_sound : forall r, body_sound (M r) (cm A fuel r).
  Proof.
    unfold cm. induction r; intros s k x H; simpl in H.
    - exists s; simpl; auto.
    - unfold do_test, c_at_bol in H. destruct (c_pos s =? 0) eqn:E; [|discriminate].
      apply N.eqb_eq in E. exists s; simpl; auto.
    - unfold do_test, c_at_eol in H. destruct (c_rem s) eqn:E; [|discriminate]. exists s; simpl; auto.
    - unfold do_step in H. destruct (c_step_cp is_dot s) eqn:E; try discriminate. exists s0; simpl; auto.
    - unfold do_step in H. destruct (c_step_cp (is_char ci c) s) eqn:E; try discriminate. exists s0; simpl; auto.
    - unfold do_step in H. destruct (c_step_bytes l s) eqn:E; try discriminate. exists s0; simpl; auto.
    - unfold do_step in H. destruct (c_step_cp (in_cls ci c) s) eqn:E; try discriminate. exists s0; simpl; auto.
    - apply IHr1 in H as (s1 & H1 & H2). apply IHr2 in H2 as (s2 & H3 & H4).
      exists s2; split; auto. simpl. eauto.
    - match type of H with match ?e with _ => _ end = _ => destruct e eqn:E end; try discriminate.
      + inversion H; subst. apply IHr1 in E as (s1 & H1 & H2). exists s1; simpl; auto.
      + apply IHr2 in H as (s1 & H1 & H2). exists s1; simpl; auto.
    - apply (seqn_sound _ _ IHr) in H as (s1 & H1 & H2). destruct mx as [x0|].
      + apply (optn_sound _ _ _ IHr) in H2 as (j & s2 & Hj & H3 & H4).
        exists s2; split; auto. simpl. exists (mn + j)%nat. repeat split; try lia.
        eapply iter_app; eauto.
      + apply (star_sound _ _ _ IHr) in H2 as (j & s2 & H3 & H4).
        exists s2; split; auto. simpl. exists (mn + j)%nat. repeat split; try lia.
        eapply iter_app; eauto.
    - apply IHr in H as (s1 & H1 & H2). exists (c_set_group g s s1); split; auto. simpl. eauto.
  Qed.
End Sound.

(* ------------------------------------------------------------------ M stays inside the text; spans nest *)
Definition span_in (lo hi : N) (e : N * (N * N)) : Prop :=
  lo <= fst (snd e) /\ fst (snd e) <= snd (snd e) /\ snd (snd e) <= hi.
Definition grows (text : bytes) (s s' : cst) : Prop :=
  inv text s' /\ c_pos s <= c_pos s' /\
  exists new, c_caps s' = new ++ c_caps s /\ Forall (span_in (c_pos s) (c_pos s')) new.

Lemma span_in_weaken lo hi lo' hi' e : span_in lo hi e -> lo' <= lo -> hi <= hi' -> span_in lo' hi' e.
Proof. unfold span_in; intros (a & b & c) ? ?; repeat split; lia. Qed.

Lemma grows_refl text s : inv text s -> grows text s s.
Proof. intros Hi. split; auto. split; [lia|]. exists []; split; auto. Qed.

Lemma grows_trans text s s1 s2 : grows text s s1 -> grows text s1 s2 -> grows text s s2.
Proof.
  intros (Hi1 & Hp1 & n1 & Hc1 & Hf1) (Hi2 & Hp2 & n2 & Hc2 & Hf2).
  split; auto. split; [lia|]. exists (n2 ++ n1). split.
  - rewrite Hc2, Hc1, app_assoc. reflexivity.
  - apply Forall_app; split; eapply Forall_impl; try eassumption; intros e He;
      eapply span_in_weaken; eauto; lia.
Qed.

Lemma iter_grows text (R : cst -> cst -> Prop) : (forall s s', inv text s -> R s s' -> grows text s s') ->
  forall n s s', inv text s -> iter R n s s' -> grows text s s'.
Proof.
  intros HR. induction n; intros s s' Hi H; inversion H; subst.
  - apply grows_refl; auto.
  - pose proof (HR _ _ Hi H1) as G1. eapply grows_trans; eauto. apply IHn; auto. apply G1.
Qed.

Lemma M_grows text : forall r s s', inv text s -> M r s s' -> grows text s s'.
Proof.
  induction r; intros s s' Hi H; simpl in H.
  - subst. apply grows_refl; auto.
  - destruct H; subst. apply grows_refl; auto.
  - destruct H; subst. apply grows_refl; auto.
  - apply (step_cp_ok text) in H as (? & ? & Hc & ?); auto. split; auto. split; [lia|]. exists []; rewrite Hc; auto.
  - apply (step_cp_ok text) in H as (? & ? & Hc & ?); auto. split; auto. split; [lia|]. exists []; rewrite Hc; auto.
  - apply (step_bytes_ok text) in H as (? & ? & Hc & ?); auto. split; auto. split; [lia|]. exists []; rewrite Hc; auto.
  - apply (step_cp_ok text) in H as (? & ? & Hc & ?); auto. split; auto. split; [lia|]. exists []; rewrite Hc; auto.
  - destruct H as (s1 & H1 & H2). pose proof (IHr1 _ _ Hi H1) as G1.
    eapply grows_trans; eauto. apply IHr2; auto. apply G1.
  - destruct H; auto.
  - destruct H as (n & _ & _ & H). eapply iter_grows; eauto.
  - destruct H as (s1 & H1 & ->). pose proof (IHr _ _ Hi H1) as (Hi1 & Hp & new & Hc & Hf).
    split; [apply set_group_ok; auto|]. split; [simpl; lia|].
    exists ((g, (c_pos s, c_pos s1)) :: new). simpl. split; [rewrite Hc; reflexivity|].
    constructor; auto. unfold span_in; simpl. repeat split; lia.
Qed.

Lemma cap_lookup_in g caps sp : cap_lookup g caps = Some sp -> In (g, sp) caps.
Proof.
  induction caps as [|[g' sp'] caps IH]; simpl; [discriminate|].
  destruct (g' =? g) eqn:E.
  - intros H; inversion H; subst. apply N.eqb_eq in E; subst. auto.
  - auto.
Qed.

Lemma search_from_sound text fuel r : forall rem0 pos st s,
  inv text (mkC pos rem0 []) -> search_from fuel r pos rem0 = Match (st, s) ->
  pos <= st /\ inv text (mkC st (skipn (N.to_nat st) text) []) /\
  M r (mkC st (skipn (N.to_nat st) text) []) s.
Proof.
  induction rem0 as [|b rem0 IH]; intros pos st s Hi H; simpl in H.
  - destruct (match_at fuel r pos []) eqn:E; try discriminate. inversion H; subst.
    unfold match_at in E. apply m_sound in E as (s' & H1 & H2). unfold accept in H2. inversion H2; subst.
    destruct Hi as [Ha Hb]; simpl in *. rewrite <- Hb. repeat split; simpl; auto; lia.
  - destruct (match_at fuel r pos (b :: rem0)) eqn:E; try discriminate.
    + inversion H; subst. unfold match_at in E. apply m_sound in E as (s' & H1 & H2).
      unfold accept in H2. inversion H2; subst.
      destruct Hi as [Ha Hb]; simpl in *. rewrite <- Hb. repeat split; simpl; auto; lia.
    + pose proof (inv_next _ _ _ _ _ Hi) as Hi'.
      apply IH in H as (? & ? & ?); auto. split; [lia|]. split; assumption.
Qed.

(* THEOREM (soundness): what the search returns is a match in the declarative sense, inside the text,
   and every recorded group span lies inside the overall span *)
Theorem search_sound r text st s :
  search r text = Match (st, s) ->
  st <= c_pos s /\ c_pos s <= N.of_nat (length text) /\
  matches r text st (c_pos s) (c_caps s) /\
  (forall g a b, cap_lookup g (c_caps s) = Some (a, b) -> st <= a /\ a <= b /\ b <= c_pos s).
Proof.
  unfold search. intros H.
  apply (search_from_sound text) in H as (_ & Hi & HM); [|apply inv_start; [lia|reflexivity]].
  pose proof (M_grows text _ _ _ Hi HM) as (Hi' & Hp & new & Hc & Hf). simpl in *.
  repeat split; auto.
  - apply Hi'.
  - unfold matches. destruct s as [p rm cs]; simpl in *. destruct Hi' as [_ Hr]; simpl in Hr. rewrite <- Hr. exact HM.
  - rewrite app_nil_r in Hc. apply cap_lookup_in in H. rewrite Hc in H.
    rewrite Forall_forall in Hf. apply Hf in H. apply H.
  - rewrite app_nil_r in Hc. apply cap_lookup_in in H. rewrite Hc in H.
    rewrite Forall_forall in Hf. apply Hf in H. apply H.
  - rewrite app_nil_r in Hc. apply cap_lookup_in in H. rewrite Hc in H.
    rewrite Forall_forall in Hf. apply Hf in H. apply H.
Qed.
