(* Proofs/RetainKeepsUp.v — property C17: the only way the current policy (P_cur) departs from the
   repaired one (P_retry) in what it stores of messages and lines is a FAILED release
   (drop_sysline Err, finding F9a).  For every input, every schedule: if the run of the current
   policy ends with derr = 0, then its syslines, lines and their high-water marks are those of
   the repaired policy under the same schedule (the blocks may differ: finding F9b), so the bounds
   of the repaired policy hold for them.  A consumer that keeps up (sched_lag 1) never has more
   than one message referenced. *)
From Coq Require Import List Arith NArith Bool Sorted Lia.
Import ListNotations.
From S4.Model Require Import Retain.
From S4.Proofs Require Import RetainProofs RetainLayout RetainLag.
Open Scope N_scope.

(* everything but the blocks and their mark *)
Definition eqx (s s' : st) : Prop :=
  lines s' = lines s /\ syslines s' = syslines s /\ pending s' = pending s /\ held s' = held s /\
  hl s' = hl s /\ hs s' = hs s /\ nread s' = nread s /\ front s' = front s /\ todo s' = todo s /\
  stage2 s' = stage2 s /\ wprev s' = wprev s /\ dok s' = dok s /\ derr s' = derr s.

Lemma eqx_refl s : eqx s s.
Proof. unfold eqx. tauto. Qed.

Lemma eqx_read_line c c' s s' l : eqx s s' -> eqx (read_line c s l) (read_line c' s' l).
Proof.
  intros (E1 & E2 & E3 & E4 & E5 & E6 & E7 & E8 & E9 & E10 & E11 & E12 & E13).
  pose proof (read_blocks_spec c (N.to_nat (llb l + 1 - nread s)) (nread s) s eq_refl) as (A & An & _).
  pose proof (read_blocks_spec c' (N.to_nat (llb l + 1 - nread s')) (nread s') s' eq_refl) as (B & Bn & _).
  cbv zeta in *.
  destruct A as (A1 & A2 & A3 & A4 & A5 & A6 & A7 & A8 & A9 & A10 & A11 & A12).
  destruct B as (B1 & B2 & B3 & B4 & B5 & B6 & B7 & B8 & B9 & B10 & B11 & B12).
  unfold read_line, add_line, eqx. cbn.
  rewrite A1, A2, A3, A4, A5, A6, A8, A9, A10, A11, A12, B1, B2, B3, B4, B5, B6, B8, B9, B10, B11, B12, An, Bn.
  rewrite E1, E2, E3, E4, E5, E6, E7, E9, E10, E11, E12, E13. tauto.
Qed.

Lemma eqx_read_lines c c' ls : forall s s', eqx s s' -> eqx (fold_left (read_line c) ls s) (fold_left (read_line c') ls s').
Proof. induction ls as [|l ls IH]; intros s s' E; cbn [fold_left]; [exact E|]. apply IH. apply eqx_read_line. exact E. Qed.

Lemma eqx_do_find c c' s s' first m : eqx s s' -> eqx (do_find c s first m) (do_find c' s' first m).
Proof.
  intros E. pose proof (eqx_read_lines c c' (mread first m) s s' E) as (E1 & E2 & E3 & E4 & E5 & E6 & E7 & E8 & E9 & E10 & E11 & E12 & E13).
  unfold do_find, store_msg, eqx. cbn. rewrite E1, E2, E3, E4, E5, E6, E7, E8, E9, E10, E11, E12, E13. tauto.
Qed.

Lemma eqx_release s s' j : eqx s s' -> eqx (release s j) (release s' j).
Proof. intros (E1 & E2 & E3 & E4 & E5 & E6 & E7 & E8 & E9 & E10 & E11 & E12 & E13). unfold release, eqx. cbn. rewrite E4. tauto. Qed.

Lemma eqx_set_worker s s' td st2 wp : eqx s s' -> eqx (set_worker s td st2 wp) (set_worker s' td st2 wp).
Proof. intros (E1 & E2 & E3 & E4 & E5 & E6 & E7 & E8 & E9 & E10 & E11 & E12 & E13). unfold set_worker, eqx. cbn. tauto. Qed.

(* the lines after a series of releases do not depend on the policy nor on the blocks *)
Lemma release_lines p rel : forall s,
  lines (fold_left (release_msg p) rel s) =
  fold_left (fun ls m => filter (fun l => negb (line_of m l)) ls) rel (lines s).
Proof. induction rel as [|m rel IH]; intros s; cbn [fold_left]; [reflexivity|]. rewrite IH. reflexivity. Qed.

Lemma release_frame p rel s : same_but_data s (fold_left (release_msg p) rel s).
Proof. pose proof (release_msgs_spec p rel s) as X. cbv zeta in X. apply X. Qed.

(* ------------------------------------------------------------------ derr only grows *)
Lemma derr_try_drop c s p : derr s <= derr (do_try_drop c s p).
Proof. unfold do_try_drop. destruct (mfb p <? 3); [lia|]. cbn. lia. Qed.

Lemma derr_do_find c s first m : derr (do_find c s first m) = derr s.
Proof.
  pose proof (read_lines_grows c (mread first m) s) as (_ & _ & ((_ & _ & _ & _ & _ & _ & _ & _ & X) & _)).
  unfold do_find, store_msg. cbn. exact X.
Qed.

Lemma derr_step c s e : derr s <= derr (step c s e).
Proof.
  destruct e as [|j]; cbn [step]; [|cbn; lia]. unfold wstep. destruct (todo s) as [|m rest]; [lia|].
  destruct (stage2 s); [cbn [set_worker derr]; rewrite derr_do_find; lia|]. destruct rest as [|m' r]; [cbn [set_worker derr]; rewrite derr_do_find; lia|].
  cbn [set_worker derr]. destruct (wprev s) as [p|]; [|rewrite derr_do_find; lia].
  etransitivity; [|apply derr_try_drop]. rewrite derr_do_find. lia.
Qed.

Lemma derr_run c evs : forall s, derr s <= derr (run c s evs).
Proof.
  induction evs as [|e evs IH]; intros s; [cbn; lia|]. change (run c s (e :: evs)) with (run c (step c s e) evs).
  etransitivity; [apply derr_step|apply IH].
Qed.

(* ------------------------------------------------------------------ a drop without a failed release *)
Lemma eqx_try_drop cc cr sc sr p : pol cc = P_cur -> pol cr = P_retry -> eqx sc sr -> pending sc = [] ->
  derr (do_try_drop cc sc p) = derr sc ->
  eqx (do_try_drop cc sc p) (do_try_drop cr sr p) /\ pending (do_try_drop cc sc p) = [].
Proof.
  intros Hc Hr E Hp Hd. pose proof E as (E1 & E2 & E3 & E4 & E5 & E6 & E7 & E8 & E9 & E10 & E11 & E12 & E13).
  unfold do_try_drop in *. destruct (mfb p <? 3); [split; [exact E|exact Hp]|].
  rewrite Hc in *. rewrite Hr. unfold is_held in *. rewrite E2, E3, E4, E12, E13. rewrite Hp in *. cbn [filter app] in *.
  set (cand := filter (fun m => mlb m <=? mfb p - 2) (syslines sc)) in *.
  set (ok := filter (fun m => negb (memN (mkey m) (held sc))) cand) in *.
  set (fail := filter (fun m => memN (mkey m) (held sc)) cand) in *.
  cbn [set_index derr] in Hd.
  assert (Hf : fail = []) by (destruct fail; [reflexivity|unfold lenN in Hd; cbn [length] in Hd; lia]).
  rewrite Hf. split; [|reflexivity].
  destruct (release_frame P_cur ok sc) as (A1 & A2 & A3 & A4 & A5 & A6 & A7 & A8 & A9 & A10 & A11 & A12 & A13).
  destruct (release_frame P_retry ok sr) as (B1 & B2 & B3 & B4 & B5 & B6 & B7 & B8 & B9 & B10 & B11 & B12 & B13).
  unfold eqx. cbn [set_index lines syslines pending held hl hs nread front todo stage2 wprev dok derr].
  rewrite !release_lines, E1. splits; congruence.
Qed.

(* ------------------------------------------------------------------ the two policies side by side *)
Lemma eqx_step cc cr sc sr e : pol cc = P_cur -> pol cr = P_retry -> eqx sc sr -> pending sc = [] ->
  derr (step cc sc e) = derr sc ->
  eqx (step cc sc e) (step cr sr e) /\ pending (step cc sc e) = [].
Proof.
  intros Hc Hr E Hp Hd. destruct e as [|j]; cbn [step] in *; [|split; [apply eqx_release; exact E|exact Hp]].
  pose proof E as (E1 & E2 & E3 & E4 & E5 & E6 & E7 & E8 & E9 & E10 & E11 & E12 & E13).
  unfold wstep in *. rewrite E9, E10, E11. destruct (todo sc) as [|m rest]; [split; [exact E|exact Hp]|].
  pose proof (eqx_do_find cc cr sc sr (stage2 sc) m E) as E'.
  assert (Hp' : pending (do_find cc sc (stage2 sc) m) = []).
  { pose proof (read_lines_grows cc (mread (stage2 sc) m) sc) as (_ & _ & ((_ & X & _) & _)). unfold do_find, store_msg. cbn. rewrite X. exact Hp. }
  destruct (stage2 sc).
  - split; [apply eqx_set_worker; exact E'|exact Hp'].
  - destruct rest as [|m' r].
    + split; [apply eqx_set_worker; exact E'|exact Hp'].
    + destruct (wprev sc) as [p|]; [|split; [apply eqx_set_worker; exact E'|exact Hp']].
      cbn [set_worker derr] in Hd. rewrite <- (derr_do_find cc sc false m) in Hd.
      destruct (eqx_try_drop cc cr _ _ p Hc Hr E' Hp' Hd) as (X1 & X2).
      split; [apply eqx_set_worker; exact X1|exact X2].
Qed.

(* for every input and every schedule *)
Theorem cur_is_retry_without_err cc cr evs : pol cc = P_cur -> pol cr = P_retry -> forall sc sr,
  eqx sc sr -> pending sc = [] -> derr (run cc sc evs) = derr sc ->
  eqx (run cc sc evs) (run cr sr evs).
Proof.
  intros Hc Hr. induction evs as [|e evs IH]; intros sc sr E Hp Hd; [exact E|].
  change (run cc sc (e :: evs)) with (run cc (step cc sc e) evs) in *.
  change (run cr sr (e :: evs)) with (run cr (step cr sr e) evs).
  pose proof (derr_step cc sc e) as M1. pose proof (derr_run cc evs (step cc sc e)) as M2.
  assert (Hd1 : derr (step cc sc e) = derr sc) by lia.
  destruct (eqx_step cc cr sc sr e Hc Hr E Hp Hd1) as (X1 & X2).
  apply IH; auto. lia.
Qed.

Lemma eqx_sched_ok H cc cr evs : pol cc = P_cur -> pol cr = P_retry -> forall sc sr,
  eqx sc sr -> pending sc = [] -> derr (run cc sc evs) = derr sc ->
  sched_ok H cr sr evs = sched_ok H cc sc evs.
Proof.
  intros Hc Hr. induction evs as [|e evs IH]; intros sc sr E Hp Hd; [reflexivity|].
  change (run cc sc (e :: evs)) with (run cc (step cc sc e) evs) in *. cbn [sched_ok].
  pose proof (derr_step cc sc e) as M1. pose proof (derr_run cc evs (step cc sc e)) as M2.
  assert (Hd1 : derr (step cc sc e) = derr sc) by lia.
  destruct (eqx_step cc cr sc sr e Hc Hr E Hp Hd1) as (X1 & X2).
  pose proof X1 as (_ & _ & _ & X4 & _). rewrite X4. f_equal. apply IH; auto. lia.
Qed.

(* ------------------------------------------------------------------ a consumer that keeps up *)
Lemma try_drop_held c s p : held (do_try_drop c s p) = held s.
Proof.
  unfold do_try_drop. destruct (mfb p <? 3); [reflexivity|]. cbn [set_index held].
  match goal with |- held (fold_left (release_msg ?pp) ?rel s) = _ => destruct (release_frame pp rel s) as (_ & _ & X & _) end.
  exact X.
Qed.

Lemma wstep_frame c s q rest : todo s = q :: rest -> held (wstep c s) = held s ++ [mkey q] /\ todo (wstep c s) = rest.
Proof.
  intros Ht. unfold wstep. rewrite Ht.
  assert (Hh : held (do_find c s (stage2 s) q) = held s ++ [mkey q]).
  { pose proof (read_lines_grows c (mread (stage2 s) q) s) as (_ & _ & ((_ & _ & X & _) & _)). unfold do_find, store_msg. cbn. rewrite X. reflexivity. }
  destruct (stage2 s); [split; [exact Hh|reflexivity]|]. destruct rest as [|m' r]; [split; [exact Hh|reflexivity]|].
  cbn [set_worker held todo]. split; [|reflexivity]. destruct (wprev s); [rewrite try_drop_held|]; exact Hh.
Qed.

Section KeepsUp.
Variables (c : cfg) (ms : list msg).
Hypothesis Hkeys : map mkey ms = nseq 0 (length ms).

Definition evs1 (k : N) (cnt : nat) : list event :=
  flat_map (fun j => (if 1 <=? j then [ER (j - 1)] else []) ++ [EW]) (nseq k cnt).

Lemma keeps_up_iter : forall rest dn s, ms = dn ++ rest -> todo s = rest ->
  held s = match dn with [] => [] | d :: _ => [mkey (last dn d)] end ->
  sched_ok 1 c s (evs1 (N.of_nat (length dn)) (length rest)) = true.
Proof.
  induction rest as [|q rest IH]; intros dn s E Ht Hh; [reflexivity|].
  cbn [length evs1 nseq flat_map]. fold (evs1 (N.of_nat (length dn) + 1) (length rest)).
  assert (Hnext : forall s1, todo s1 = q :: rest -> held s1 = [] ->
            sched_ok 1 c s1 (EW :: evs1 (N.of_nat (length dn) + 1) (length rest)) = true).
  { intros s1 Ht1 Hh1. cbn [sched_ok step]. destruct (wstep_frame c s1 q rest Ht1) as (W1 & W2).
    rewrite W1, Hh1. cbn [app]. unfold lenN at 1. cbn [length N.of_nat N.leb N.compare Pos.compare Pos.compare_cont andb].
    replace (N.of_nat (length dn) + 1) with (N.of_nat (length (dn ++ [q]))) by (rewrite app_length; cbn [length]; lia).
    apply IH.
    - rewrite <- app_assoc. exact E.
    - exact W2.
    - rewrite W1, Hh1. cbn [app]. destruct (dn ++ [q]) as [|d l] eqn:Ed; [destruct dn; discriminate|]. rewrite <- Ed, last_last. reflexivity. }
  destruct dn as [|d dn'].
  - cbn [length N.of_nat N.leb N.compare app]. apply Hnext; assumption.
  - replace (1 <=? N.of_nat (length (d :: dn'))) with true by (symmetry; apply N.leb_le; cbn [length]; lia).
    cbn [app sched_ok step].
    assert (Hk : mkey (last (d :: dn') d) = N.of_nat (length (d :: dn')) - 1).
    { destruct (@exists_last _ (d :: dn') ltac:(discriminate)) as (dn0 & p & Ep). rewrite Ep, last_last.
      rewrite (key_of_split 3 ms ltac:(lia) Hkeys dn0 p (q :: rest)); [rewrite app_length; cbn [length]; lia|].
      rewrite E, Ep, <- app_assoc. reflexivity. }
    rewrite <- Hk.
    assert (Hr : held (release s (mkey (last (d :: dn') d))) = []) by (cbn [release held]; rewrite Hh; cbn [filter]; rewrite N.eqb_refl; reflexivity).
    rewrite Hr. cbn [lenN length N.of_nat N.leb N.compare andb]. apply Hnext; [exact Ht|exact Hr].
Qed.

Lemma keeps_up_sched_ok : sched_ok 1 c (init ms) (sched_lag 1 (length ms)) = true.
Proof. apply (keeps_up_iter ms [] (init ms)); reflexivity. Qed.
End KeepsUp.

(* the marks of messages and lines of the current policy under a consumer that keeps up, when no
   release failed, obey the bounds of the repaired policy with H = 1 *)
Theorem cur_keeps_up_bounded bs span ml ms c : pol c = P_cur -> wf bs span ml ms ->
  map mkey ms = nseq 0 (length ms) ->
  let s := run c (init ms) (sched_lag 1 (length ms)) in
  derr s = 0 ->
  lenN (syslines s) <= hs s /\ hs s <= bound_syslines bs span /\
  lenN (lines s) <= hl s /\ hl s <= bound_lines bs span ml 1.
Proof.
  intros Hc Hwf Hk. cbv zeta. intros Hd.
  set (cr := {| pol := P_retry; streamed := streamed c |}).
  set (evs := sched_lag 1 (length ms)) in *.
  pose proof (cur_is_retry_without_err c cr evs Hc eq_refl (init ms) (init ms) (eqx_refl _) eq_refl Hd)
    as (E1 & E2 & _ & _ & E5 & E6 & _).
  assert (Hs : sched_ok 1 cr (init ms) evs = true).
  { rewrite (eqx_sched_ok 1 c cr evs Hc eq_refl (init ms) (init ms) (eqx_refl _) eq_refl Hd). apply keeps_up_sched_ok. exact Hk. }
  pose proof (retry_bounded bs span ml 1 ms cr evs eq_refl Hwf Hs) as B. cbv zeta in B.
  destruct B as (B1 & B2 & B3 & B4 & _). rewrite E1, E2, E5, E6 in *. auto.
Qed.

(* the hypotheses are satisfiable, and derr = 0 is needed: the example layout of RetainProofs (163
   messages, block size 64).  With a consumer that keeps up no release fails and the marks of lines
   and messages are those of the repaired policy (the blocks differ: F9b); with the consumer 7
   messages behind 159 releases fail and the lines high mark is 283 instead of 15. *)
Lemma keeps_up_example :
  let ms := layout_msgs 64 ex_layout in
  let n := length ms in
  wfb 64 (max_span ms) (max_lines ms) ms = true /\
  derr (run cur_plain (init ms) (sched_lag 1 n)) = 0 /\
  marks (run cur_plain (init ms) (sched_lag 1 n)) = (13, 12, 6) /\
  marks (run retry_plain (init ms) (sched_lag 1 n)) = (11, 12, 6) /\
  bound_syslines 64 (max_span ms) = 769 /\ bound_lines 64 (max_span ms) (max_lines ms) 1 = 2315 /\
  derr (run cur_plain (init ms) (sched_lag 7 n)) = 159 /\
  marks (run cur_plain (init ms) (sched_lag 7 n)) = (216, 283, 6) /\
  marks (run retry_plain (init ms) (sched_lag 7 n)) = (13, 15, 6).
Proof. vm_compute. repeat split. Qed.
