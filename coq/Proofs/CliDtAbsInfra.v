From Coq Require Import String ZArith Lia.
From S4.Base Require Import Bytes.
From S4.Model Require Import Calendar CliDt.
From S4.Gen Require Import CliDtTables.
From S4.Spec Require Import CalendarSpec CliDtRef CliDtSpec.
From S4.Proofs Require Import CalendarProofs.
Open Scope Z_scope.

(* Proofs/CliDtAbsInfra.v (+ CliDtAbsL1..L4.v, CliDtAbsProofs.v) — every documented absolute form resolves to the documented instant.

   Method: the model's structural pass ([scan_row], over pre-classified symbols) never looks
   at digit VALUES, so it can be run by vm_compute on the rendered text with all digits left
   symbolic: one kernel computation per family yields, for each of the 76 regenerated rows,
   whether it matches and the raw digit groups.  The value pass ([validate]) of the first
   matching row is then discharged by a general lemma ([validate_dt]) plus arithmetic, using
   CalendarProofs.days_from_civil_spec to reach the definitional calendar of the spec.
   The theorems are universal in every field value (year 0000-9999, valid dates, times,
   fractions, numeric offsets, --tz-offset). *)
Definition m_resolve_abs := resolve_abs cli_rows append_value append_pattern tz_table epoch_utc.
Definition m_scan_row := scan_row append_value append_pattern tz_table.

(* per row: (has_tz, read in UTC, scan result) *)
Definition row_info (arg : list sym) (rw : row) : bool * bool * option (list rawfield) :=
  (r_has_tz rw, epoch_utc && contains_pct_s (final_pattern append_pattern rw), m_scan_row rw arg).

Fixpoint first_valid (tz : Z) (l : list (bool * bool * option (list rawfield))) : option Z :=
  match l with
  | [] => None
  | (ht, utc, Some fs) :: r =>
    match validate ht (if utc then 0 else tz) fs with Some v => Some v | None => first_valid tz r end
  | (_, _, None) :: r => first_valid tz r
  end.

Lemma first_some_rows arg tz rows :
  first_some (try_row append_value append_pattern tz_table epoch_utc tz arg) rows
  = first_valid tz (map (row_info arg) rows).
Proof.
  induction rows as [|rw r IH]; [reflexivity|].
  cbn [first_some map first_valid]. unfold row_info at 1, try_row at 1, m_scan_row.
  destruct (scan_row append_value append_pattern tz_table rw arg) as [fs|]; [|exact IH].
  destruct (validate _ _ fs); [reflexivity|exact IH].
Qed.

Lemma classify1_dg v : classify1 (dg v) = Dg (Z.to_N (v mod 10)).
Proof.
  unfold classify1, dg.
  assert (0 <= v mod 10 < 10) by (apply Z.mod_pos_bound; lia).
  replace ((48 <=? 48 + Z.to_N (v mod 10))%N && (48 + Z.to_N (v mod 10) <=? 57)%N) with true.
  - f_equal. lia.
  - symmetry. apply andb_true_iff. split; apply N.leb_le; lia.
Qed.

Lemma resolve_via_list arg tz L :
  map (row_info arg) cli_rows = L -> m_resolve_abs arg tz = first_valid tz L.
Proof. intros <-. unfold m_resolve_abs, resolve_abs. apply first_some_rows. Qed.


Ltac Zify.zify_post_hook ::= Z.div_mod_to_equations.

Definition nonum (f : rawfield) : bool := match f with RNum _ _ _ => false | _ => true end.

Lemma find_num_nonum k tail acc : forallb nonum tail = true -> find_num k tail acc = acc.
Proof.
  revert acc. induction tail as [|f r IH]; intros acc H; [reflexivity|].
  cbn [forallb] in H. apply andb_true_iff in H as [H1 H2].
  destruct f; try discriminate; cbn [find_num]; apply IH; assumption.
Qed.

Lemma dnum_nonneg_aux ds a : 0 <= a -> 0 <= fold_left (fun a d => 10 * a + Z.of_N d) ds a.
Proof. revert a. induction ds as [|d r IH]; intros a Ha; cbn [fold_left]; [assumption|]. apply IH. lia. Qed.
Lemma dnum_nonneg ds : 0 <= dnum ds.
Proof. apply dnum_nonneg_aux. lia. Qed.

Definition dt_fields yd md dd hd mid sd tail :=
  RNum NYear false yd :: RNum NMonth false md :: RNum NDay false dd :: RNum NHour false hd
  :: RNum NMinute false mid :: RNum NSecond false sd :: tail.

Lemma validate_dt ht tz yd md dd hd mid sd tail :
  forallb nonum tail = true -> forallb field_ok tail = true ->
  0 <= dnum yd <= 9999 -> valid_date (dnum yd) (dnum md) (dnum dd) = true ->
  0 <= dnum hd <= 23 -> 0 <= dnum mid <= 59 -> 0 <= dnum sd <= 59 ->
  validate ht tz (dt_fields yd md dd hd mid sd tail)
  = let n := match find_nano tail None with Some n => n | None => 0 end in
    let loc := days_from_civil (dnum yd) (dnum md) (dnum dd) * 86400 + dnum hd * 3600 + dnum mid * 60 + dnum sd in
    if ht then
      match find_off tail None with
      | Some o => if (-86400 <? o) && (o <? 86400) then Some ((loc - o) * NS + n) else None
      | None => None
      end
    else Some ((loc - tz) * NS + n).
Proof.
  intros Hn Hf Hy Hv Hh Hmi Hs.
  assert (Hmd : 1 <= dnum md <= 12 /\ 1 <= dnum dd <= 31).
  { unfold valid_date in Hv. rewrite !andb_true_iff, !Z.leb_le in Hv.
    destruct Hv as [[[? ?] ?] Hd]. split; [lia|]. split; [lia|].
    unfold days_in_month in Hd. destruct (dnum md); try lia.
    repeat (destruct p; try lia); destruct (is_leap _); lia. }
  unfold validate, dt_fields.
  assert (Hok : forallb field_ok
            (RNum NYear false yd :: RNum NMonth false md :: RNum NDay false dd :: RNum NHour false hd
             :: RNum NMinute false mid :: RNum NSecond false sd :: tail) = true).
  { cbn [forallb field_ok]. rewrite Hf. unfold I64_MAX.
    rewrite !andb_true_iff, !Z.leb_le. lia. }
  rewrite Hok. cbn [negb].
  unfold naive_of. cbn [find_num numkind_eqb]. rewrite !find_num_nonum by assumption.
  cbn [find_nano find_off].
  replace ((YEAR_MIN <=? dnum yd) && (dnum yd <=? YEAR_MAX) && valid_date (dnum yd) (dnum md) (dnum dd)
           && (0 <=? dnum hd) && (dnum hd <=? 23) && (0 <=? dnum mid) && (dnum mid <=? 59)
           && (0 <=? dnum sd) && (dnum sd <=? 60)) with true.
  2:{ symmetry. rewrite Hv. unfold YEAR_MIN, YEAR_MAX. rewrite !andb_true_iff, !Z.leb_le. lia. }
  destruct ht.
  - destruct (find_off tail None) as [o|]; [|reflexivity].
    destruct ((-86400 <? o) && (o <? 86400)); [|reflexivity].
    destruct (find_nano tail None); reflexivity.
  - destruct (find_nano tail None); reflexivity.
Qed.

Lemma dgv_id e : Z.of_N (Z.to_N (e mod 10)) = e mod 10.
Proof. apply Z2N.id. apply Z.mod_pos_bound. lia. Qed.

Lemma month_len_le31 y m : month_len y m <= 31.
Proof. unfold month_len. destruct m; try lia. repeat (destruct p; try lia); destruct (leap y); lia. Qed.




Lemma Ey4 y : 0 <= y <= 9999 ->
  dnum [Z.to_N ((y / 1000) mod 10); Z.to_N ((y / 100) mod 10); Z.to_N ((y / 10) mod 10); Z.to_N (y mod 10)] = y.
Proof. intros. cbv [dnum fold_left]. rewrite !dgv_id. lia. Qed.
Lemma Ey2 v : 0 <= v <= 99 -> dnum [Z.to_N ((v / 10) mod 10); Z.to_N (v mod 10)] = v.
Proof. intros. cbv [dnum fold_left]. rewrite !dgv_id. lia. Qed.
Lemma Ey3 v : 0 <= v <= 999 ->
  dnum [Z.to_N ((v / 100) mod 10); Z.to_N ((v / 10) mod 10); Z.to_N (v mod 10)] = v.
Proof. intros. cbv [dnum fold_left]. rewrite !dgv_id. lia. Qed.
Lemma Ey6 v : 0 <= v <= 999999 ->
  dnum [Z.to_N ((v / 100000) mod 10); Z.to_N ((v / 10000) mod 10); Z.to_N ((v / 1000) mod 10);
        Z.to_N ((v / 100) mod 10); Z.to_N ((v / 10) mod 10); Z.to_N (v mod 10)] = v.
Proof. intros. cbv [dnum fold_left]. rewrite !dgv_id. lia. Qed.
Lemma Eh2 v : 0 <= v <= 99 -> 10 * Z.of_N (Z.to_N ((v / 10) mod 10)) + Z.of_N (Z.to_N (v mod 10)) = v.
Proof. intros. rewrite !dgv_id. lia. Qed.
Lemma Em5 v : 0 <= v <= 59 -> (Z.of_N (Z.to_N ((v / 10) mod 10)) <=? 5) = true.
Proof. intros. rewrite dgv_id. apply Z.leb_le. lia. Qed.

Ltac prep H :=
  cbn [form_ok frac_okb zone_okb zone_space_ok negb] in H; unfold date_okb, time_okb in H;
  rewrite ?andb_true_r, ?andb_true_l in H; rewrite ?andb_false_l, ?andb_false_r in H;
  try discriminate H;
  rewrite !andb_true_iff, ?Z.leb_le, ?Z.eqb_eq in H.

Ltac skeleton :=
  cbv [render render_datetime render_date render_time_colon render_frac render_zone pad2 pad3 pad4 pad6 app classify map];
  rewrite ?classify1_dg;
  change (classify1 45%N) with (Ch 45%N); change (classify1 84%N) with (Ch 84%N);
  change (classify1 58%N) with (Ch 58%N); change (classify1 47%N) with (Ch 47%N);
  change (classify1 32%N) with (Ch 32%N); change (classify1 46%N) with (Ch 46%N);
  change (classify1 43%N) with (Ch 43%N);
  repeat match goal with |- context [Dg (Z.to_N ?e)] => let n := fresh "g" in remember (Z.to_N e) as n end;
  (erewrite resolve_via_list; [|vm_compute; reflexivity]);
  cbn [first_valid];
  match goal with |- context [validate ?ht ?tz (RNum NYear false ?yd :: RNum NMonth false ?md :: RNum NDay false ?dd :: RNum NHour false ?hd :: RNum NMinute false ?mid :: RNum NSecond false ?sd :: ?tail)] =>
    change (RNum NYear false yd :: RNum NMonth false md :: RNum NDay false dd :: RNum NHour false hd :: RNum NMinute false mid :: RNum NSecond false sd :: tail)
      with (dt_fields yd md dd hd mid sd tail) end;
  subst.

Ltac finish y m :=
  pose proof (month_len_le31 y m);
  rewrite validate_dt; rewrite ?Ey4, ?Ey2 by lia;
  [ cbv beta zeta iota; cbn [find_nano find_off off_value]; change (pow10 (9 - 3)) with 1000000; change (pow10 (9 - 6)) with 1000;
    rewrite ?Ey3, ?Ey6, ?Eh2 by lia;
    unfold denote, denote_with, zone_secs, instant_with, frac_ns, NS;
    rewrite <- days_from_civil_spec by lia;
    try match goal with |- context [(?a <? ?b) && (?c <? ?d)] =>
          destruct (Z.ltb_spec a b); destruct (Z.ltb_spec c d); cbn [andb]; try (exfalso; lia) end;
    first [reflexivity | f_equal; lia]
  | reflexivity
  | cbn [forallb field_ok]; rewrite ?Em5 by lia; reflexivity
  | lia
  | unfold valid_date; rewrite <- month_len_days_in_month; rewrite !andb_true_iff, !Z.leb_le; lia
  | lia | lia | lia ].

