(* Proofs/CalendarExtra.v — calendar lemmas for C04 / C11 on top of Model/Calendar.v:
   year starts, position within the year, strict monotonicity, both inverse directions of
   days_from_civil / civil_from_days.  For EVERY year in Z (floor division), by arithmetic. *)
From Coq Require Import ZArith Bool Lia.
From S4.Model Require Import Calendar.
Open Scope Z_scope.

Lemma month_cases m : 1 <= m <= 12 ->
  m = 1 \/ m = 2 \/ m = 3 \/ m = 4 \/ m = 5 \/ m = 6 \/ m = 7 \/ m = 8 \/ m = 9 \/ m = 10 \/ m = 11 \/ m = 12.
Proof. lia. Qed.

Definition ystart (y : Z) : Z := days_from_civil y 1 1.
Definition ylen (y : Z) : Z := if is_leap y then 366 else 365.

Lemma ystart_next y : ystart (y + 1) = ystart y + ylen y.
Proof.
  unfold ystart, ylen, days_from_civil, is_leap.
  change (1 <=? 2) with true. cbv iota.
  change ((1 + 9) mod 12) with 10. change ((153 * 10 + 2) / 5) with 306.
  replace (y + 1 - 1) with y by lia.
  destruct (Z.eqb_spec (y mod 4) 0), (Z.eqb_spec (y mod 100) 0), (Z.eqb_spec (y mod 400) 0); cbn [andb orb negb];
  Z.div_mod_to_equations; lia.
Qed.

Lemma ylen_bounds y : 365 <= ylen y <= 366.
Proof. unfold ylen. destruct (is_leap y); lia. Qed.

(* days before month m in a (non-)leap year *)
Definition bm (lp : bool) (m : Z) : Z :=
  match m with
  | 1 => 0 | 2 => 31 | 3 => 59 | 4 => 90 | 5 => 120 | 6 => 151 | 7 => 181 | 8 => 212
  | 9 => 243 | 10 => 273 | 11 => 304 | 12 => 334 | _ => 0
  end + (if lp && (3 <=? m) then 1 else 0).

Lemma dfc_decomp y m d : 1 <= m <= 12 ->
  days_from_civil y m d = ystart y + bm (is_leap y) m + d - 1.
Proof.
  intros Hm. pose proof (month_cases m Hm) as H.
  unfold ystart, days_from_civil, is_leap, bm.
  destruct H as [->|[->|[->|[->|[->|[->|[->|[->|[->|[->|[->| ->]]]]]]]]]]];
    cbn [Z.leb Z.compare Pos.compare Pos.compare_cont CompOpp andb];
    destruct (Z.eqb_spec (y mod 4) 0), (Z.eqb_spec (y mod 100) 0), (Z.eqb_spec (y mod 400) 0);
    cbn [andb orb negb]; Z.div_mod_to_equations; lia.
Qed.

Lemma valid_date_inv y m d : valid_date y m d = true -> 1 <= m <= 12 /\ 1 <= d <= days_in_month y m.
Proof. unfold valid_date. intros H. repeat (apply andb_true_iff in H as [H ?]). lia. Qed.

(* position within the year: 0 .. ylen-1 *)
Lemma in_year_bounds y m d : valid_date y m d = true ->
  0 <= bm (is_leap y) m + d - 1 < ylen y.
Proof.
  intros H. apply valid_date_inv in H as [Hm Hd]. pose proof (month_cases m Hm) as C.
  unfold ylen, bm, days_in_month in *.
  destruct C as [->|[->|[->|[->|[->|[->|[->|[->|[->|[->|[->| ->]]]]]]]]]]];
    destruct (is_leap y); cbn [andb orb negb Z.leb Z.ltb Z.compare Pos.compare Pos.compare_cont CompOpp] in *; lia.
Qed.

Lemma dfc_in_year y m d : valid_date y m d = true ->
  ystart y <= days_from_civil y m d < ystart (y + 1).
Proof.
  intros H. pose proof (in_year_bounds y m d H). apply valid_date_inv in H as [Hm _].
  rewrite dfc_decomp by assumption. rewrite ystart_next. lia.
Qed.

Lemma ystart_mono_nat (k : nat) y : ystart y + 365 * Z.of_nat k <= ystart (y + Z.of_nat k).
Proof.
  induction k as [|k IH].
  - cbn. replace (y + 0) with y by lia. lia.
  - replace (y + Z.of_nat (S k)) with (y + Z.of_nat k + 1) by lia.
    rewrite ystart_next. pose proof (ylen_bounds (y + Z.of_nat k)). lia.
Qed.

Lemma ystart_mono y y' : y <= y' -> ystart y + 365 * (y' - y) <= ystart y'.
Proof.
  intros H. pose proof (ystart_mono_nat (Z.to_nat (y' - y)) y) as P.
  rewrite Z2Nat.id in P by lia. replace (y + (y' - y)) with y' in P by lia. exact P.
Qed.

(* a date of an earlier year is an earlier day *)
Lemma dfc_year_lt y m d y' m' d' :
  valid_date y m d = true -> valid_date y' m' d' = true -> y < y' ->
  days_from_civil y m d < days_from_civil y' m' d'.
Proof.
  intros H H' L. pose proof (dfc_in_year _ _ _ H). pose proof (dfc_in_year _ _ _ H').
  pose proof (ystart_mono (y + 1) y' ltac:(lia)). lia.
Qed.

Lemma bm_mono lp m m' : 1 <= m -> m < m' -> m' <= 12 ->
  bm lp m + (match m with 2 => if lp then 29 else 28 | 4 | 6 | 9 | 11 => 30 | _ => 31 end) <= bm lp m'.
Proof.
  intros A B C.
  assert (Hm : 1 <= m <= 12) by lia. assert (Hm' : 1 <= m' <= 12) by lia.
  pose proof (month_cases m Hm) as X. pose proof (month_cases m' Hm') as X'.
  unfold bm.
  destruct X as [->|[->|[->|[->|[->|[->|[->|[->|[->|[->|[->| ->]]]]]]]]]]];
  destruct X' as [->|[->|[->|[->|[->|[->|[->|[->|[->|[->|[->| ->]]]]]]]]]]]; try lia;
  destruct lp; cbn [andb orb negb Z.leb Z.ltb Z.compare Pos.compare Pos.compare_cont CompOpp]; lia.
Qed.

(* strict monotonicity in the lexicographic order of valid dates *)
Definition date_lt (y m d y' m' d' : Z) : Prop :=
  y < y' \/ (y = y' /\ (m < m' \/ (m = m' /\ d < d'))).

Theorem dfc_strict_mono y m d y' m' d' :
  valid_date y m d = true -> valid_date y' m' d' = true ->
  date_lt y m d y' m' d' -> days_from_civil y m d < days_from_civil y' m' d'.
Proof.
  intros H H' [L | [-> [L | [-> L]]]].
  - eapply dfc_year_lt; eassumption.
  - apply valid_date_inv in H as [Hm Hd]. apply valid_date_inv in H' as [Hm' Hd'].
    rewrite !dfc_decomp by assumption.
    pose proof (bm_mono (is_leap y') m m' ltac:(lia) L ltac:(lia)) as P.
    unfold days_in_month in Hd.
    pose proof (month_cases m Hm) as X.
    destruct X as [->|[->|[->|[->|[->|[->|[->|[->|[->|[->|[->| ->]]]]]]]]]]];
      cbn [andb orb negb Z.leb Z.ltb Z.compare Pos.compare Pos.compare_cont CompOpp] in P, Hd; try (destruct (is_leap y')); cbn [andb orb negb Z.leb Z.ltb Z.compare Pos.compare Pos.compare_cont CompOpp] in P; lia.
  - apply valid_date_inv in H as [Hm Hd].
    rewrite !dfc_decomp by assumption. lia.
Qed.

Corollary dfc_injective y m d y' m' d' :
  valid_date y m d = true -> valid_date y' m' d' = true ->
  days_from_civil y m d = days_from_civil y' m' d' -> y = y' /\ m = m' /\ d = d'.
Proof.
  intros H H' E.
  destruct (Z.lt_trichotomy y y') as [L | [-> | L]].
  - pose proof (dfc_strict_mono _ _ _ _ _ _ H H' (or_introl L)). lia.
  - destruct (Z.lt_trichotomy m m') as [Lm | [-> | Lm]].
    + pose proof (dfc_strict_mono _ _ _ _ _ _ H H' (or_intror (conj eq_refl (or_introl Lm)))). lia.
    + destruct (Z.lt_trichotomy d d') as [Ld | [-> | Ld]]; [|auto|].
      * pose proof (dfc_strict_mono _ _ _ _ _ _ H H' (or_intror (conj eq_refl (or_intror (conj eq_refl Ld))))). lia.
      * pose proof (dfc_strict_mono _ _ _ _ _ _ H' H (or_intror (conj eq_refl (or_intror (conj eq_refl Ld))))). lia.
    + pose proof (dfc_strict_mono _ _ _ _ _ _ H' H (or_intror (conj eq_refl (or_introl Lm)))). lia.
  - pose proof (dfc_strict_mono _ _ _ _ _ _ H' H (or_introl L)). lia.
Qed.

(* the same calendar date one year later is 365 or 366 days later *)
Lemma dfc_shift_year y m d :
  valid_date y m d = true -> valid_date (y + 1) m d = true ->
  365 <= days_from_civil (y + 1) m d - days_from_civil y m d <= 366.
Proof.
  intros H H'. apply valid_date_inv in H as [Hm Hd]. apply valid_date_inv in H' as [_ Hd'].
  rewrite !dfc_decomp by assumption. rewrite ystart_next.
  pose proof (month_cases m Hm) as X. unfold ylen, bm, days_in_month in *.
  destruct X as [->|[->|[->|[->|[->|[->|[->|[->|[->|[->|[->| ->]]]]]]]]]]];
    destruct (is_leap y) eqn:E1; destruct (is_leap (y + 1)) eqn:E2; cbn [andb orb negb Z.leb Z.ltb Z.compare Pos.compare Pos.compare_cont CompOpp] in *; try lia;
    (* consecutive years are never both leap *)
    exfalso; unfold is_leap in E1, E2;
    destruct (Z.eqb_spec (y mod 4) 0), (Z.eqb_spec ((y + 1) mod 4) 0); cbn in E1, E2;
    try discriminate;
    destruct (Z.eqb_spec (y mod 400) 0), (Z.eqb_spec ((y + 1) mod 400) 0); cbn in E1, E2;
    try discriminate; Z.div_mod_to_equations; lia.
Qed.

(* ------------------------------------------------------------------ civil_from_days *)
Lemma yoe_ok doe :
  0 <= doe <= 146096 ->
  let yoe := (doe - doe / 1460 + doe / 36524 - doe / 146096) / 365 in
  let doy := doe - (365 * yoe + yoe / 4 - yoe / 100) in
  0 <= yoe <= 399 /\ 0 <= doy /\
  doy <= (if ((yoe + 1) mod 4 =? 0) && (negb ((yoe + 1) mod 100 =? 0) || (yoe =? 399)) then 365 else 364).
Proof.
  intros H yoe doy. subst yoe doy.
  destruct (Z.eqb_spec (((doe - doe / 1460 + doe / 36524 - doe / 146096) / 365 + 1) mod 4) 0),
           (Z.eqb_spec (((doe - doe / 1460 + doe / 36524 - doe / 146096) / 365 + 1) mod 100) 0),
           (Z.eqb_spec ((doe - doe / 1460 + doe / 36524 - doe / 146096) / 365) 399);
  cbn [andb orb negb]; Z.div_mod_to_equations; lia.
Qed.

(* month (March-based) and day from the day of the March-based year *)
Lemma md_ok doy :
  0 <= doy <= 365 ->
  let mp := (5 * doy + 2) / 153 in
  let d := doy - (153 * mp + 2) / 5 + 1 in
  0 <= mp <= 11 /\ 1 <= d /\
  d <= (match mp with 0 => 31 | 1 => 30 | 2 => 31 | 3 => 30 | 4 => 31 | 5 => 31 | 6 => 30 | 7 => 31
                 | 8 => 30 | 9 => 31 | 10 => 31 | _ => 29 end) /\
  (mp = 11 -> d = 29 -> doy = 365).
Proof.
  intros H mp d.
  assert (0 <= mp <= 11) as Hmp by (subst mp; Z.div_mod_to_equations; lia).
  assert (mp = 0 \/ mp = 1 \/ mp = 2 \/ mp = 3 \/ mp = 4 \/ mp = 5 \/ mp = 6 \/ mp = 7 \/ mp = 8 \/ mp = 9
          \/ mp = 10 \/ mp = 11) as C by lia.
  split; [exact Hmp|].
  subst d.
  destruct C as [E|[E|[E|[E|[E|[E|[E|[E|[E|[E|[E|E]]]]]]]]]]]; rewrite E; cbn;
    subst mp; Z.div_mod_to_equations; lia.
Qed.

Theorem civil_from_days_right_inverse z :
  let '(y, m, d) := civil_from_days z in
  valid_date y m d = true /\ days_from_civil y m d = z.
Proof.
  unfold civil_from_days.
  set (z' := z + 719468).
  set (era := z' / 146097).
  set (doe := z' - era * 146097).
  assert (Hdoe : 0 <= doe <= 146096) by (subst doe era; Z.div_mod_to_equations; lia).
  pose proof (yoe_ok doe Hdoe) as Y. cbv zeta in Y.
  set (yoe := (doe - doe / 1460 + doe / 36524 - doe / 146096) / 365) in *.
  set (doy := doe - (365 * yoe + yoe / 4 - yoe / 100)) in *.
  destruct Y as [Hyoe [Hdoy0 Hdoy1]].
  assert (Hdoy : 0 <= doy <= 365) by (destruct (((yoe + 1) mod 4 =? 0) && (negb ((yoe + 1) mod 100 =? 0) || (yoe =? 399))); lia).
  pose proof (md_ok doy Hdoy) as M. cbv zeta in M.
  set (mp := (5 * doy + 2) / 153) in *.
  set (d := doy - (153 * mp + 2) / 5 + 1) in *.
  destruct M as [Hmp [Hd1 [Hd2 Hfeb]]].
  assert (mp = 0 \/ mp = 1 \/ mp = 2 \/ mp = 3 \/ mp = 4 \/ mp = 5 \/ mp = 6 \/ mp = 7 \/ mp = 8 \/ mp = 9
          \/ mp = 10 \/ mp = 11) as C by lia.
  assert (Hera : (yoe + era * 400) / 400 = era) by (Z.div_mod_to_equations; lia).
  assert (Hz : z = era * 146097 + doe - 719468) by (subst doe z'; lia).
  assert (Hdoe2 : doe = yoe * 365 + yoe / 4 - yoe / 100 + doy) by (subst doy; lia).
  assert (Hdoy2 : doy = (153 * mp + 2) / 5 + d - 1) by (subst d; lia).
  clearbody d doy yoe doe era mp. clear z'.
  set (m := if mp <? 10 then mp + 3 else mp - 9).
  assert (Em : m = if mp <? 10 then mp + 3 else mp - 9) by reflexivity. clearbody m.
  destruct C as [E|[E|[E|[E|[E|[E|[E|[E|[E|[E|[E|E]]]]]]]]]]]; subst mp;
    vm_compute in Em; subst m;
    cbn [Z.ltb Z.leb Z.compare Pos.compare Pos.compare_cont CompOpp] in *.
  1-10: (split;
    [ unfold valid_date, days_in_month; cbn in Hd2 |- *;
      repeat (apply andb_true_iff; split); try (apply Z.leb_le; lia); apply Z.leb_le; lia
    | unfold days_from_civil; cbn [Z.leb Z.compare Pos.compare Pos.compare_cont CompOpp];
      rewrite Hera; replace (yoe + era * 400 - era * 400) with yoe by lia;
      Z.div_mod_to_equations; lia ]).
  - (* mp = 10 : January of the next civil year *)
    split.
    + unfold valid_date, days_in_month; cbn in Hd2 |- *.
      repeat (apply andb_true_iff; split); try (apply Z.leb_le; lia); apply Z.leb_le; lia.
    + unfold days_from_civil; cbn [Z.leb Z.compare Pos.compare Pos.compare_cont CompOpp].
      replace (yoe + era * 400 + 1 - 1) with (yoe + era * 400) by lia.
      rewrite Hera. replace (yoe + era * 400 - era * 400) with yoe by lia.
      Z.div_mod_to_equations; lia.
  - (* mp = 11 : February of the next civil year *)
    split.
    + unfold valid_date, days_in_month; cbn in Hd2 |- *.
      repeat (apply andb_true_iff; split); try (apply Z.leb_le; lia).
      apply Z.leb_le. unfold is_leap.
      assert (M4 : (yoe + era * 400 + 1) mod 4 = (yoe + 1) mod 4)
        by (replace (yoe + era * 400 + 1) with (yoe + 1 + (100 * era) * 4) by lia; apply Z_mod_plus_full).
      assert (M100 : (yoe + era * 400 + 1) mod 100 = (yoe + 1) mod 100)
        by (replace (yoe + era * 400 + 1) with (yoe + 1 + (4 * era) * 100) by lia; apply Z_mod_plus_full).
      assert (M400 : (yoe + era * 400 + 1) mod 400 = (yoe + 1) mod 400)
        by (replace (yoe + era * 400 + 1) with (yoe + 1 + era * 400) by lia; apply Z_mod_plus_full).
      rewrite M4, M100, M400.
      destruct (Z.eq_dec d 29) as [D|D]; [|destruct ((_ && _) || _); lia].
      specialize (Hfeb eq_refl D). rewrite Hfeb in Hdoy1.
      destruct (Z.eqb_spec ((yoe + 1) mod 4) 0) as [A|A]; cbn [andb] in Hdoy1; [|lia].
      destruct (Z.eqb_spec ((yoe + 1) mod 100) 0) as [B|B]; cbn [negb orb andb] in Hdoy1 |- *; [|lia].
      destruct (Z.eqb_spec yoe 399) as [F|F]; [|lia].
      subst yoe. replace ((399 + 1) mod 400 =? 0) with true by reflexivity. rewrite ?orb_true_r. cbv iota. lia.
    + unfold days_from_civil; cbn [Z.leb Z.compare Pos.compare Pos.compare_cont CompOpp].
      replace (yoe + era * 400 + 1 - 1) with (yoe + era * 400) by lia.
      rewrite Hera. replace (yoe + era * 400 - era * 400) with yoe by lia.
      Z.div_mod_to_equations; lia.
Qed.

Theorem civil_from_days_left_inverse y m d :
  valid_date y m d = true -> civil_from_days (days_from_civil y m d) = (y, m, d).
Proof.
  intros H. pose proof (civil_from_days_right_inverse (days_from_civil y m d)) as R.
  destruct (civil_from_days (days_from_civil y m d)) as [[y' m'] d'].
  destruct R as [V E]. destruct (dfc_injective _ _ _ _ _ _ V H E) as [-> [-> ->]]. reflexivity.
Qed.

(* the year of a day number is the year whose start is the last one not after it *)
Lemma year_of_day z y m d :
  civil_from_days z = (y, m, d) -> ystart y <= z < ystart (y + 1).
Proof.
  intros E. pose proof (civil_from_days_right_inverse z) as R. rewrite E in R.
  destruct R as [V <-]. apply dfc_in_year. exact V.
Qed.
