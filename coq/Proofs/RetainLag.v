(* Proofs/RetainLag.v — property C17, finding F9a for ALL file lengths.
   The current policy (P_cur) forgets a message that is still referenced by the consumer side when
   drop_data_try reaches it.  General theorem: for every message sequence in which a message is
   reached by the drop while the consumer, `lag` messages behind, still references it (hypothesis
   `reached_while_held`, a statement about block numbers only), the schedule `sched_lag lag`
   — which never has more than `lag` messages referenced — makes the current policy release
   NOTHING: at the end every line of the file is still stored (and, in a plain file, every block).
   Instance: the family lag_layout n (block size 64, three short lines, then n messages of 70
   bytes), lag 7 = CHANNEL_CAPACITY + 2, for EVERY n. *)
From Coq Require Import List Arith NArith Bool Sorted Lia.
Import ListNotations.
From S4.Model Require Import Retain.
From S4.Proofs Require Import RetainProofs RetainLayout.
Open Scope N_scope.

(* ------------------------------------------------------------------ runs and schedules over ++ *)
Lemma run_app c s a b : run c s (a ++ b) = run c (run c s a) b.
Proof. unfold run. apply fold_left_app. Qed.

Lemma sched_ok_app H c a : forall s b,
  sched_ok H c s (a ++ b) = sched_ok H c s a && sched_ok H c (run c s a) b.
Proof.
  induction a as [|e a IH]; intros s b; cbn [app sched_ok run fold_left]; [reflexivity|].
  rewrite IH. unfold run. rewrite andb_assoc. reflexivity.
Qed.

Lemma nseq_snoc start cnt : nseq start (S cnt) = nseq start cnt ++ [start + N.of_nat cnt].
Proof.
  revert start. induction cnt as [|cnt IH]; intros start.
  - cbn. rewrite N.add_0_r. reflexivity.
  - change (nseq start (S (S cnt))) with (start :: nseq (start + 1) (S cnt)).
    rewrite IH. replace (start + N.of_nat (S cnt)) with (start + 1 + N.of_nat cnt) by lia. reflexivity.
Qed.

Lemma filter_nseq_head start cnt :
  filter (fun x => negb (x =? start)) (nseq start (S cnt)) = nseq (start + 1) cnt.
Proof.
  cbn [nseq filter]. rewrite N.eqb_refl. cbn [negb].
  assert (forall a, start < a -> filter (fun x => negb (x =? start)) (nseq a cnt) = nseq a cnt) as Hf.
  { induction cnt as [|cnt IH]; intros a Ha; [reflexivity|]. cbn [nseq filter].
    destruct (N.eqb_spec a start); [lia|]. cbn [negb]. rewrite IH by lia. reflexivity. }
  apply Hf. lia.
Qed.

Lemma filter_none' {A} (f : A -> bool) l : (forall x, In x l -> f x = false) -> filter f l = [].
Proof.
  induction l as [|x l IH]; intros H; [reflexivity|]. cbn [filter].
  rewrite (H x (or_introl eq_refl)). apply IH. intros y Hy. apply H. right. exact Hy.
Qed.

(* ------------------------------------------------------------------ reading moves the cursor forward *)
Lemma read_lines_nread c ls : forall s,
  nread s <= nread (fold_left (read_line c) ls s) /\
  forall l, In l ls -> llb l + 1 <= nread (fold_left (read_line c) ls s).
Proof.
  induction ls as [|x ls IH]; intros s; cbn [fold_left]; [split; [lia|intros l []]|].
  destruct (IH (read_line c s x)) as (A & B). rewrite read_line_nread in A.
  split; [lia|]. intros l [<-|Hl]; [lia|auto].
Qed.

(* ------------------------------------------------------------------ the general theorem *)
Section Lag.
Variables (c : cfg) (lag : N) (ms : list msg).
Hypothesis Hpol : pol c = P_cur.
Hypothesis Hlag : 3 <= lag.
Hypothesis Hkeys : map mkey ms = nseq 0 (length ms).
Hypothesis Hlinked : linked ms.
(* when the worker has just found message q (so the drop looks at p, the message before q), every
   message at least lag - 2 positions before p is at least two blocks behind p *)
Definition reached_while_held : Prop :=
  forall m p, In m ms -> In p ms -> mkey m + lag <= mkey p + 2 -> 3 <= mfb p /\ mlb m + 2 <= mfb p.
Hypothesis Hgeo : reached_while_held.

Let n := length ms.

Definition iter_events (k : N) : list event := (if lag <=? k then [ER (k - lag)] else []) ++ [EW].

Record Q (k : nat) (s : st) : Prop := {
  q_split : exists done, ms = done ++ todo s /\ length done = k /\
            lenN (lines s) = lenN (file_lines done) + (if (Nat.ltb 0 k && Nat.ltb k n) then 1 else 0) /\
            (forall m, In m done -> mlb m + 1 <= nread s) /\
            ((0 < k)%nat -> match todo s with q :: _ => llb (mfirst q) + 1 <= nread s | [] => True end);
  q_stage : stage2 s = Nat.eqb k 0;
  q_prev0 : (k <= 1)%nat -> wprev s = None;
  q_prev : (2 <= k)%nat -> (k < n)%nat ->
           exists p, wprev s = Some p /\ In p ms /\ mkey p + 1 = N.of_nat k;
  q_held : held s = nseq (N.of_nat k - lag) (N.to_nat (N.min (N.of_nat k) lag));
  q_pending : pending s = [];
  q_sys : forall m, In m (syslines s) ->
          In m ms /\ mkey m < N.of_nat k /\ ((k < n)%nat -> N.of_nat k + 1 <= mkey m + lag);
  q_dok : dok s = 0;
  q_hl : lenN (lines s) <= hl s;
  q_blocks : streamed c = false -> lenN (blocks s) = nread s;
  q_hb : lenN (blocks s) <= hb s
}.

Lemma key_of_split done q rest : ms = done ++ q :: rest -> mkey q = N.of_nat (length done).
Proof.
  intros E. pose proof Hkeys as Hk. rewrite E, map_app in Hk. cbn [map] in Hk.
  assert (nth (length done) (map mkey done ++ mkey q :: map mkey rest) 0 = mkey q) as H1.
  { rewrite app_nth2; rewrite map_length; [|lia]. rewrite Nat.sub_diag. reflexivity. }
  rewrite Hk in H1. rewrite <- H1.
  assert (forall cnt start i, (i < cnt)%nat -> nth i (nseq start cnt) 0 = start + N.of_nat i) as Hn.
  { induction cnt as [|cnt IH]; intros start i Hi; [lia|]. destruct i as [|i]; cbn [nseq nth]; [lia|].
    rewrite IH by lia. lia. }
  rewrite Hn; [lia|]. rewrite app_length. cbn [length]. lia.
Qed.

Lemma held_range s k m : held s = nseq (N.of_nat k + 1 - lag) (N.to_nat (N.min (N.of_nat k + 1) lag)) ->
  mkey m <= N.of_nat k -> N.of_nat k + 1 <= mkey m + lag -> is_held s m = true.
Proof.
  intros Hh H1 H2. unfold is_held. apply memN_In. rewrite Hh. apply in_nseq. rewrite N2Nat.id. lia.
Qed.

(* one iteration: the consumer lets go of message k - lag, the worker finds message k, sends it and
   tries to drop *)
Lemma Q_step k s : (k < n)%nat -> Q k s ->
  sched_ok lag c s (iter_events (N.of_nat k)) = true /\ Q (S k) (run c s (iter_events (N.of_nat k))).
Proof.
  intros Hk [(done & E & Hlen & Hlines & Hnr & Hnext) Hst Hp0 Hp Hh Hpe Hsys Hdok Hhl Hbl Hhb].
  set (K := N.of_nat k) in *.
  (* the release *)
  set (s0 := run c s (if lag <=? K then [ER (K - lag)] else [])).
  assert (Hs0 : held s0 = nseq (K + 1 - lag) (N.to_nat (N.min K (lag - 1))) /\
                lenN (held s0) <= lag /\
                sched_ok lag c s (if lag <=? K then [ER (K - lag)] else []) = true /\
                blocks s0 = blocks s /\ lines s0 = lines s /\ syslines s0 = syslines s /\
                pending s0 = pending s /\ hl s0 = hl s /\ hb s0 = hb s /\ nread s0 = nread s /\ todo s0 = todo s /\
                stage2 s0 = stage2 s /\ wprev s0 = wprev s /\ dok s0 = dok s /\ front s0 = front s).
  { unfold s0. destruct (N.leb_spec lag K) as [Hle|Hgt].
    - cbn [run fold_left step release held blocks lines syslines pending hl hb nread todo stage2 wprev dok front].
      rewrite Hh. replace (N.min K lag) with lag by lia.
      replace (N.to_nat lag) with (S (N.to_nat (lag - 1))) by lia.
      rewrite filter_nseq_head. replace (N.min K (lag - 1)) with (lag - 1) by lia.
      replace (K - lag + 1) with (K + 1 - lag) by lia.
      splits; auto; [rewrite lenN_nseq; lia|].
      cbn [sched_ok step release held]. rewrite Hh. replace (N.min K lag) with lag by lia.
      replace (N.to_nat lag) with (S (N.to_nat (lag - 1))) by lia.
      rewrite filter_nseq_head, lenN_nseq, andb_true_r. apply N.leb_le. lia.
    - cbn [run fold_left]. rewrite Hh. replace (K - lag) with 0 by lia. replace (K + 1 - lag) with 0 by lia.
      replace (N.min K lag) with K by lia. replace (N.min K (lag - 1)) with K by lia.
      splits; auto. rewrite lenN_nseq. lia. }
  destruct Hs0 as (Hh0 & Hhl0 & Hrel & B0 & L0 & S0' & P0 & HL0 & HB0 & N0 & T0 & St0 & W0 & D0 & F0).
  assert (Hrun : run c s (iter_events K) = wstep c s0).
  { unfold iter_events. rewrite run_app. fold s0. reflexivity. }
  assert (Hsched : lenN (held (wstep c s0)) <= lag -> sched_ok lag c s (iter_events K) = true).
  { intros Hw. unfold iter_events. rewrite sched_ok_app. fold s0. rewrite Hrel. cbn [sched_ok step andb].
    rewrite andb_true_r. apply N.leb_le. exact Hw. }
  (* the worker iteration *)
  destruct (todo s) as [|q rest] eqn:Et.
  { exfalso. rewrite app_nil_r in E. subst done. unfold n in Hk. lia. }
  assert (Hq : In q ms) by (rewrite E; apply in_or_app; right; left; reflexivity).
  pose proof (key_of_split _ _ _ E) as Hkq. rewrite Hlen in Hkq. fold K in Hkq.
  assert (Hnx : mnext q = match rest with [] => None | q' :: _ => Some (mfirst q') end).
  { pose proof Hlinked as Hl. rewrite E in Hl. eapply linked_app; exact Hl. }
  assert (Hn : n = (k + S (length rest))%nat) by (unfold n; rewrite E, app_length; cbn [length]; lia).
  rewrite Hrun. unfold wstep. rewrite T0, St0, W0.
  set (s1 := do_find c s0 (stage2 s) q).
  pose proof (read_lines_grows c (mread (stage2 s) q) s0) as (RL & RF & RG). cbv zeta in RL, RF, RG.
  pose proof (read_lines_nread c (mread (stage2 s) q) s0) as (RN1 & RN2).
  destruct RG as (RI & RG1 & RG2 & RG3 & RG4 & RG5 & RG6 & RG7 & RG8).
  destruct RI as (I1 & I2 & I3 & I4 & I5 & I6 & I7 & I8 & I9).
  assert (F1 : syslines s1 = syslines s ++ [q] /\ pending s1 = [] /\
               held s1 = nseq (K + 1 - lag) (N.to_nat (N.min (K + 1) lag)) /\
               lines s1 = lines s ++ mread (stage2 s) q /\ dok s1 = 0 /\ lenN (lines s1) <= hl s1 /\
               nread s <= nread s1 /\ (forall l, In l (mread (stage2 s) q) -> llb l + 1 <= nread s1) /\
               (streamed c = false -> lenN (blocks s1) = nread s1) /\ lenN (blocks s1) <= hb s1).
  { unfold s1, do_find. cbn [store_msg syslines pending held lines dok hl hb nread blocks].
    splits.
    - rewrite I1, S0'. reflexivity.
    - rewrite I2, P0. exact Hpe.
    - rewrite I3, Hh0, Hkq.
      replace K with (K + 1 - lag + N.of_nat (N.to_nat (N.min K (lag - 1)))) at 3 by lia.
      rewrite <- nseq_snoc. f_equal. lia.
    - rewrite RL, L0. reflexivity.
    - rewrite I8, D0. exact Hdok.
    - apply RG8. rewrite L0, HL0. exact Hhl.
    - rewrite <- N0. exact RN1.
    - exact RN2.
    - intros Hc. apply keeps_read_lines; auto. rewrite B0, N0. auto.
    - apply RG5. rewrite B0, HB0. exact Hhb. }
  destruct F1 as (FS & FP & FH & FL & FD & FHL & FN & FNl & FB & FHB).
  assert (Hheld1 : lenN (held s1) <= lag) by (rewrite FH, lenN_nseq; lia).
  assert (Hsys1 : forall m, In m (syslines s1) -> In m ms /\ mkey m <= K /\ K + 1 <= mkey m + lag).
  { rewrite FS. intros m Hm. apply in_app_or in Hm as [Hm|[<-|[]]].
    - destruct (Hsys m Hm) as (A & B & C). specialize (C Hk). splits; auto. lia.
    - splits; auto; lia. }
  (* the lines count after the find *)
  assert (Hcount : lenN (lines s1) = lenN (file_lines (done ++ [q])) +
                                     (if (Nat.ltb 0 (S k) && Nat.ltb (S k) n) then 1 else 0)).
  { rewrite FL, lenN_app, Hlines, file_lines_app, lenN_app.
    change (file_lines [q]) with (mlines q ++ []). rewrite app_nil_r. unfold mlines. rewrite lenN_cons. unfold mread. rewrite !lenN_app, Hnx, Hst.
    assert (lenN (opt_list (match rest with [] => None | q' :: _ => Some (mfirst q') end)) =
            if Nat.ltb (S k) n then 1 else 0) as ->.
    { destruct rest as [|q' r]; cbn [opt_list length] in *.
      - replace (Nat.ltb (S k) n) with false by (symmetry; apply Nat.ltb_ge; lia). reflexivity.
      - replace (Nat.ltb (S k) n) with true by (symmetry; apply Nat.ltb_lt; lia). reflexivity. }
    destruct k as [|k'].
    - change (Nat.eqb 0 0) with true. change (Nat.ltb 0 0) with false. change (Nat.ltb 0 1) with true.
      cbn [andb]. change (lenN [mfirst q]) with 1. lia.
    - change (Nat.eqb (S k') 0) with false. change (Nat.ltb 0 (S k')) with true.
      change (Nat.ltb 0 (S (S k'))) with true.
      replace (Nat.ltb (S k') n) with true by (symmetry; apply Nat.ltb_lt; lia).
      cbn [andb]. change (lenN (@nil lspan)) with 0. lia. }
  assert (Hnread1 : forall m, In m (done ++ [q]) -> mlb m + 1 <= nread s1).
  { intros m Hm. apply in_app_or in Hm as [Hm|[<-|[]]]; [specialize (Hnr m Hm); lia|].
    unfold mlb, mlast. destruct (mbody q) as [|b0 body] eqn:Eb.
    - cbn [last]. destruct k as [|k'].
      + apply FNl. unfold mread. rewrite Hst. cbn [Nat.eqb]. left. reflexivity.
      + specialize (Hnext ltac:(lia)). cbn in Hnext. lia.
    - apply FNl. unfold mread. apply in_or_app. right. apply in_or_app. left. rewrite Eb.
      pose proof (@last_in _ body b0) as Hin. rewrite last_cons. exact Hin. }
  assert (Hnext1 : match rest with q' :: _ => llb (mfirst q') + 1 <= nread s1 | [] => True end).
  { destruct rest as [|q' r]; [exact I|]. apply FNl. unfold mread. rewrite Hnx.
    apply in_or_app. right. apply in_or_app. right. left. reflexivity. }
  assert (Hsplit1 : ms = (done ++ [q]) ++ rest) by (rewrite E, <- app_assoc; reflexivity).
  assert (Hlen1 : length (done ++ [q]) = S k) by (rewrite app_length; cbn [length]; lia).
  (* the three shapes of the iteration *)
  assert (Hnodrop : forall wp,
            ((S k <= 1)%nat -> wp = None) ->
            ((2 <= S k)%nat -> (S k < n)%nat -> exists p, wp = Some p /\ In p ms /\ mkey p + 1 = N.of_nat (S k)) ->
            ((S k < n)%nat -> forall m, In m (syslines s1) -> N.of_nat (S k) + 1 <= mkey m + lag) ->
            Q (S k) (set_worker s1 rest false wp)).
  { intros wp Hw0 Hw Hnew. constructor; cbn [set_worker todo stage2 wprev held pending syslines dok lines hl hb blocks nread]; auto.
    - exists (done ++ [q]). splits; auto; try (intros _; exact Hnext1).
    - rewrite FH. f_equal; [lia|]. f_equal. lia.
    - intros m Hm. destruct (Hsys1 m Hm) as (A & B & C). splits; auto; try lia. }
  destruct (stage2 s) eqn:Es2.
  - (* k = 0 *)
    assert (k = 0)%nat as -> by (destruct k; [reflexivity|rewrite Hst in Es2; discriminate]).
    split.
    + apply Hsched. unfold wstep. rewrite T0, St0. cbn [set_worker held]. auto.
    + apply Hnodrop; auto.
      * intros; lia.
      * intros _ m Hm. destruct (Hsys1 m Hm) as (_ & B & _). cbn in *. lia.
  - assert (0 < k)%nat as Hk0 by (destruct k; [rewrite Hst in Es2; discriminate|lia]).
    destruct rest as [|q' r].
    + (* the last message *)
      split.
      * apply Hsched. unfold wstep. rewrite T0, St0, W0. cbn [set_worker held]. auto.
      * apply Hnodrop; auto.
        -- intros; lia.
        -- intros _ Hlt. cbn [length] in Hn. lia.
        -- intros Hlt. cbn [length] in Hn. lia.
    + destruct (wprev s) as [p|] eqn:Ewp.
      * (* the drop: nothing can be released *)
        assert (2 <= k)%nat as Hk2.
        { destruct (Nat.le_gt_cases 2 k); auto. specialize (Hp0 ltac:(lia)). discriminate. }
        destruct (Hp Hk2 Hk) as (p0 & Ep & Hpin & Hpk). injection Ep as Ep. subst p0.
        fold K in Hpk.
        set (s2 := do_try_drop c s1 p).
        assert (Hs2 : held s2 = held s1 /\ pending s2 = [] /\ dok s2 = 0 /\ lines s2 = lines s1 /\
                      hl s2 = hl s1 /\ hb s2 = hb s1 /\ blocks s2 = blocks s1 /\ nread s2 = nread s1 /\
                      (forall m, In m (syslines s2) -> In m (syslines s1) /\ (mfb p <? 3 = true \/ mfb p - 2 < mlb m))).
        { unfold s2, do_try_drop. destruct (mfb p <? 3) eqn:E3.
          - splits; auto.
          - rewrite Hpol, FP. cbn [filter app].
            assert (filter (fun m => negb (is_held s1 m)) (filter (fun m => mlb m <=? mfb p - 2) (syslines s1)) = []) as ->.
            { apply filter_none'. intros m Hm. apply filter_In in Hm as [Hm _].
              destruct (Hsys1 m Hm) as (_ & B & C). rewrite (held_range s1 k m); auto. }
            cbn [fold_left set_index held pending dok lines hl hb blocks nread syslines]. rewrite FD.
            splits; auto.
            intros m Hm. apply filter_In in Hm as [Hm Hc]. split; auto. right.
            apply negb_true_iff, N.leb_gt in Hc. exact Hc. }
        destruct Hs2 as (H2h & H2p & H2d & H2l & H2hl & H2hb & H2b & H2n & H2s).
        split.
        -- apply Hsched. unfold wstep. rewrite T0, St0, W0. cbn [set_worker held]. fold s1. fold s2. rewrite H2h. auto.
        -- constructor; cbn [set_worker todo stage2 wprev held pending syslines dok lines hl hb blocks nread]; auto.
           ++ exists (done ++ [q]). rewrite H2l, H2n. splits; auto; try (intros _; exact Hnext1).
           ++ intros; lia.
           ++ intros _ _. exists q. splits; auto. rewrite Hkq. lia.
           ++ rewrite H2h, FH. f_equal; [lia|]. f_equal. lia.
           ++ intros m Hm. destruct (H2s m Hm) as (Hm1 & Hkeep). destruct (Hsys1 m Hm1) as (A & B & C).
              splits; auto; [lia|]. intros Hlt.
              destruct (N.eq_dec (mkey m + lag) (K + 1)) as [Eold|]; [|lia].
              exfalso. destruct (Hgeo m p A Hpin ltac:(lia)) as (G1 & G2).
              destruct Hkeep as [Hc|Hc]; [apply N.ltb_lt in Hc|]; lia.
           ++ rewrite H2l, H2hl. exact FHL.
           ++ intros Hc. rewrite H2b, H2n. auto.
           ++ rewrite H2b, H2hb. exact FHB.
      * (* the second message *)
        assert (k = 1)%nat as ->.
        { destruct (Nat.le_gt_cases 2 k) as [H2|H2]; [|lia].
          destruct (Hp H2 Hk) as (p & Ep & _). discriminate. }
        split.
        -- apply Hsched. unfold wstep. rewrite T0, St0, W0. cbn [set_worker held]. auto.
        -- apply Hnodrop; auto.
           ++ intros; lia.
           ++ intros _ _. exists q. splits; auto. rewrite Hkq. reflexivity.
           ++ intros _ m Hm. destruct (Hsys1 m Hm) as (_ & B & _). cbn in *. lia.
Qed.

Lemma Q_init : Q 0 (init ms).
Proof.
  constructor; cbn [init todo stage2 wprev held pending syslines dok lines hl hb blocks nread].
  - exists []. splits; auto; try (intros m []); try (intros H; inversion H).
  - reflexivity.
  - auto.
  - intros H; inversion H.
  - rewrite N.min_0_l. reflexivity.
  - reflexivity.
  - intros m [].
  - reflexivity.
  - cbn. lia.
  - reflexivity.
  - cbn. lia.
Qed.

Lemma Q_iter cnt : forall k s, (k + cnt = n)%nat -> Q k s ->
  sched_ok lag c s (flat_map iter_events (nseq (N.of_nat k) cnt)) = true /\
  Q n (run c s (flat_map iter_events (nseq (N.of_nat k) cnt))).
Proof.
  induction cnt as [|cnt IH]; intros k s Hk Hq.
  - cbn [nseq flat_map sched_ok run fold_left]. replace n with k by lia. auto.
  - cbn [nseq flat_map]. rewrite sched_ok_app, run_app.
    destruct (Q_step k s ltac:(lia) Hq) as (A & B).
    replace (N.of_nat k + 1) with (N.of_nat (S k)) by lia.
    destruct (IH (S k) _ ltac:(lia) B) as (C & D). rewrite A, C. auto.
Qed.

(* F9a, general form: the schedule respects the bound `lag`, yet nothing is ever released *)
Theorem cur_lag_keeps_everything :
  let evs := sched_lag lag n in
  let s := run c (init ms) evs in
  sched_ok lag c (init ms) evs = true /\ dok s = 0 /\
  lenN (lines s) = lenN (file_lines ms) /\ lenN (file_lines ms) <= hl s /\
  lenN (blocks s) <= hb s /\
  (streamed c = false -> lenN (blocks s) = nread s /\ forall m, In m ms -> mlb m + 1 <= nread s).
Proof.
  cbv zeta. destruct (Q_iter n 0%nat (init ms) ltac:(lia) Q_init) as (A & B).
  change (flat_map iter_events (nseq (N.of_nat 0) n)) with (sched_lag lag n) in *.
  destruct B as [(done & E & Hlen & Hlines & Hnr & _) _ _ _ _ _ _ Hdok Hhl Hbl Hhb].
  assert (done = ms) as ->.
  { assert (length (todo (run c (init ms) (sched_lag lag n))) = 0%nat) as H0.
    { assert (length ms = (length done + length (todo (run c (init ms) (sched_lag lag n))))%nat) as H1
        by (rewrite E at 1; apply app_length). fold n in H1. lia. }
    destruct (todo (run c (init ms) (sched_lag lag n))); [|discriminate]. rewrite app_nil_r in E. auto. }
  rewrite Nat.ltb_irrefl, andb_false_r, N.add_0_r in Hlines.
  splits; auto. rewrite <- Hlines. exact Hhl.
Qed.

End Lag.

(* ------------------------------------------------------------------ one-line messages *)
Definition all_dated (layout : list (N * bool)) : Prop := Forall (fun x => snd x = true) layout.

Lemma spans_dated bs layout : forall off key x, In x (spans bs off key layout) -> In (snd x) (map snd layout).
Proof.
  induction layout as [|[len d] r IH]; intros off key x Hx; [destruct Hx|].
  rewrite spans_head in Hx. destruct Hx as [<-|Hx]; [left; reflexivity|right; eapply IH; eauto].
Qed.

Lemma group_all_dated (l : list (lspan * bool)) : Forall (fun x => snd x = true) l ->
  group l = ([], map (fun x => (fst x, [])) l).
Proof.
  induction 1 as [|x r Hx Hr IH]; [reflexivity|].
  change (group (x :: r)) with (group_step x (group r)). unfold group_step. rewrite Hx, IH. reflexivity.
Qed.

Lemma link_one_line sp : forall k m, In m (link k (map (fun x : lspan * bool => (fst x, @nil lspan)) sp)) ->
  mbody m = [] /\ In (mfirst m) (map fst sp).
Proof.
  induction sp as [|x r IH]; intros k m Hm; [destruct Hm|].
  cbn [map link fst] in Hm. destruct Hm as [<-|Hm].
  - cbn. auto.
  - apply IH in Hm as (A & B). split; auto. right. exact B.
Qed.

Lemma link_keys g : forall k, map mkey (link k g) = nseq k (length g) /\ length (link k g) = length g.
Proof.
  induction g as [|[f b] r IH]; intros k; [split; reflexivity|].
  cbn [link map length nseq mkey]. destruct (IH (k + 1)) as (A & B). rewrite A, B. auto.
Qed.

Lemma link_line_key sp : forall k,
  map (fun x => lkey (fst x)) sp = nseq k (length sp) ->
  forall m, In m (link k (map (fun x : lspan * bool => (fst x, @nil lspan)) sp)) -> mkey m = lkey (mfirst m).
Proof.
  induction sp as [|x r IH]; intros k Hk m Hm; [destruct Hm|].
  cbn [map link fst length nseq] in *. injection Hk as Hk1 Hk2.
  destruct Hm as [<-|Hm]; [cbn; auto|]. eapply IH; eauto.
Qed.

Lemma spans_keys bs layout : forall off key,
  map (fun x => lkey (fst x)) (spans bs off key layout) = nseq key (length (spans bs off key layout)).
Proof.
  induction layout as [|[len d] r IH]; intros off key; [reflexivity|].
  rewrite spans_head. cbn [map length nseq fst lkey]. rewrite IH. reflexivity.
Qed.

Lemma spans_blocks bs layout : forall off key x, In x (spans bs off key layout) ->
  lfb (fst x) = lbeg (fst x) / bs /\ llb (fst x) = lend (fst x) / bs.
Proof.
  induction layout as [|[len d] r IH]; intros off key x Hx; [destruct Hx|].
  rewrite spans_head in Hx. destruct Hx as [<-|Hx]; [cbn; auto|eapply IH; eauto].
Qed.

Lemma spans_app bs a : forall b off key,
  spans bs off key (a ++ b) =
  spans bs off key a ++ spans bs (off + fold_right (fun x t => fst x + t) 0 a) (key + lenN a) b.
Proof.
  induction a as [|[len d] a IH]; intros b off key.
  - cbn [app spans fold_right]. change (lenN (@nil (N * bool))) with 0. rewrite !N.add_0_r. reflexivity.
  - cbn [app]. rewrite !spans_head, IH. cbn [app fold_right fst]. rewrite lenN_cons.
    replace (off + (len + fold_right (fun x t => fst x + t) 0 a)) with (off + len + fold_right (fun x t => fst x + t) 0 a) by lia.
    replace (key + (lenN a + 1)) with (key + 1 + lenN a) by lia. reflexivity.
Qed.

(* ------------------------------------------------------------------ the family, every n *)
Lemma rep_lines n : forall off key x, In x (spans 64 off key (repeat_list [(70, true)] n)) ->
  exists i, i < N.of_nat n /\ lkey (fst x) = key + i /\ lbeg (fst x) = off + 70 * i /\
            lend (fst x) = off + 70 * i + 69.
Proof.
  induction n as [|n IH]; intros off key x Hx; [destruct Hx|].
  cbn [repeat_list app] in Hx. rewrite spans_head in Hx. destruct Hx as [<-|Hx].
  - exists 0. cbn [fst lkey lbeg lend]. lia.
  - apply IH in Hx as (i & A & B & C & D). exists (i + 1). lia.
Qed.

Lemma rep_last n : forall off key, exists x, In x (spans 64 off key (repeat_list [(70, true)] (S n))) /\
  lend (fst x) = off + 70 * N.of_nat n + 69.
Proof.
  induction n as [|n IH]; intros off key.
  - eexists. split; [left; reflexivity|]. cbn [fst lend]. lia.
  - destruct (IH (off + 70) (key + 1)) as (x & A & B). exists x. split.
    + change (repeat_list [(70, true)] (S (S n))) with ((70, true) :: repeat_list [(70, true)] (S n)).
      rewrite spans_head. right. exact A.
    + rewrite B. lia.
Qed.

Lemma lag_layout_dated n : all_dated (lag_layout n).
Proof.
  unfold all_dated, lag_layout. apply Forall_app. split; [repeat constructor|].
  induction n as [|n IH]; [constructor|]. cbn [repeat_list app]. constructor; auto.
Qed.

Lemma lag_spans n : spans 64 0 0 (lag_layout n) =
  spans 64 0 0 [(21, true); (21, true); (21, true)] ++ spans 64 63 3 (repeat_list [(70, true)] n).
Proof. unfold lag_layout. rewrite spans_app. reflexivity. Qed.

Definition lag_msgs (n : nat) : list msg := layout_msgs 64 (lag_layout n).

Lemma lag_msgs_link n : lag_msgs n = link 0 (map (fun x => (fst x, [])) (spans 64 0 0 (lag_layout n))).
Proof.
  unfold lag_msgs, layout_msgs. rewrite group_all_dated; [reflexivity|].
  apply Forall_forall. intros x Hx. apply spans_dated in Hx.
  pose proof (lag_layout_dated n) as Hd. unfold all_dated in Hd. rewrite Forall_forall in Hd.
  apply in_map_iff in Hx as (y & <- & Hy). auto.
Qed.

(* every message of the family is one line; its offsets in closed form *)
Lemma lag_msg_shape n m : In m (lag_msgs n) ->
  mfb m = lbeg (mfirst m) / 64 /\ mlb m = lend (mfirst m) / 64 /\
  ((mkey m < 3 /\ lbeg (mfirst m) = 21 * mkey m /\ lend (mfirst m) = 21 * mkey m + 20) \/
   (3 <= mkey m /\ mkey m < 3 + N.of_nat n /\ lbeg (mfirst m) = 63 + 70 * (mkey m - 3) /\
    lend (mfirst m) = 63 + 70 * (mkey m - 3) + 69)).
Proof.
  intros Hm. rewrite lag_msgs_link in Hm.
  pose proof (link_line_key _ 0 (spans_keys 64 (lag_layout n) 0 0) m Hm) as Hk.
  apply link_one_line in Hm as (Hb & Hf). unfold mfb, mlb, mlast. rewrite Hb. cbn [last].
  apply in_map_iff in Hf as (x & Ex & Hx).
  destruct (spans_blocks _ _ _ _ _ Hx) as (B1 & B2). rewrite Ex in B1, B2.
  splits; auto. rewrite Hk, <- Ex. rewrite lag_spans in Hx. apply in_app_or in Hx as [Hx|Hx].
  - left. cbn in Hx. destruct Hx as [<-|[<-|[<-|[]]]]; cbn; lia.
  - right. apply rep_lines in Hx as (i & A & B & C & D). rewrite B, C, D.
    replace (3 + i - 3) with i by lia. splits; lia.
Qed.

Lemma div64_shift a b : a + 128 <= b -> a / 64 + 2 <= b / 64.
Proof.
  intros H. replace (a / 64 + 2) with ((a + 2 * 64) / 64) by (rewrite N.div_add by lia; reflexivity).
  apply N.div_le_mono; lia.
Qed.

Lemma lag_family_reached n : reached_while_held 7 (lag_msgs n).
Proof.
  intros m p Hm Hp Hk.
  destruct (lag_msg_shape n m Hm) as (M1 & M2 & Mc).
  destruct (lag_msg_shape n p Hp) as (P1 & P2 & Pc).
  rewrite M2, P1.
  destruct Pc as [(Pk & _)|(Pk1 & Pk2 & Pb & Pe)]; [lia|]. rewrite Pb.
  split.
  - apply N.div_le_lower_bound; lia.
  - apply div64_shift. destruct Mc as [(Mk & Mb & Me)|(Mk1 & Mk2 & Mb & Me)]; rewrite Me; lia.
Qed.

(* FINDING F9a for EVERY n: block size 64, three short lines and n messages of 70 bytes, the
   consumer 7 = CHANNEL_CAPACITY + 2 messages behind.  The schedule never has more than 7 messages
   referenced by the consumer side, no release ever succeeds, and at the end all n + 3 lines and
   at least n blocks are still stored. *)
Theorem retain_lag_all_n n :
  let ms := lag_msgs n in
  let evs := sched_lag 7 (length ms) in
  let s := run cur_plain (init ms) evs in
  sched_ok 7 cur_plain (init ms) evs = true /\
  lenN ms = N.of_nat n + 3 /\ dok s = 0 /\
  lenN (lines s) = N.of_nat n + 3 /\ N.of_nat n + 3 <= hl s /\
  N.of_nat n <= lenN (blocks s) /\ N.of_nat n <= hb s.
Proof.
  cbv zeta.
  assert (Hkeys : map mkey (lag_msgs n) = nseq 0 (length (lag_msgs n))).
  { rewrite lag_msgs_link. destruct (link_keys (map (fun x => (fst x, [])) (spans 64 0 0 (lag_layout n))) 0) as (A & B).
    rewrite A, B. reflexivity. }
  assert (Hlinked : linked (lag_msgs n)) by (unfold lag_msgs, layout_msgs; apply link_linked).
  pose proof (cur_lag_keeps_everything cur_plain 7 (lag_msgs n) eq_refl ltac:(lia) Hkeys Hlinked
                (lag_family_reached n)) as H. cbv zeta in H.
  destruct H as (A & B & C & D & E & F). destruct (F eq_refl) as (F1 & F2).
  assert (Hlen : lenN (lag_msgs n) = N.of_nat n + 3).
  { unfold lenN. rewrite lag_msgs_link. destruct (link_keys (map (fun x => (fst x, [])) (spans 64 0 0 (lag_layout n))) 0) as (_ & ->).
    rewrite map_length, lag_spans, app_length. cbn [spans length].
    assert (forall k off key, length (spans 64 off key (repeat_list [(70, true)] k)) = k) as Hl.
    { induction k as [|k IH]; intros off key; [reflexivity|]. cbn [repeat_list app]. rewrite spans_head. cbn [length]. rewrite IH. reflexivity. }
    rewrite Hl. lia. }
  assert (Hfl : lenN (file_lines (lag_msgs n)) = N.of_nat n + 3).
  { rewrite <- Hlen. unfold file_lines.
    assert (forall l, (forall m, In m l -> mbody m = []) -> lenN (flat_map mlines l) = lenN l) as Hone.
    { induction l as [|m l IH]; intros Hb; [reflexivity|]. cbn [flat_map]. unfold mlines at 1.
      rewrite (Hb m (or_introl eq_refl)). cbn [app]. rewrite !lenN_cons, IH; auto. intros m' Hm'. apply Hb. right. auto. }
    apply Hone. intros m Hm. rewrite lag_msgs_link in Hm. apply link_one_line in Hm. tauto. }
  assert (Hblocks : N.of_nat n <= nread (run cur_plain (init (lag_msgs n)) (sched_lag 7 (length (lag_msgs n))))).
  { destruct n as [|n']; [lia|].
    destruct (rep_last n' 63 3) as (x & Hx & Hxe).
    assert (exists m, In m (lag_msgs (S n')) /\ mfirst m = fst x /\ mbody m = []) as (m & Hm & Hmf & Hmb).
    { rewrite lag_msgs_link.
      assert (In x (spans 64 0 0 (lag_layout (S n')))) as Hin by (rewrite lag_spans; apply in_or_app; right; exact Hx).
      revert Hin. generalize (spans 64 0 0 (lag_layout (S n'))). generalize 0.
      intros k sp. revert k. induction sp as [|y sp IH]; intros k Hin; [destruct Hin|].
      cbn [map link fst]. destruct Hin as [->|Hin].
      - eexists. split; [left; reflexivity|]. cbn. auto.
      - destruct (IH (k + 1) Hin) as (m & A1 & A2). exists m. split; [right; exact A1|exact A2]. }
    specialize (F2 m Hm). destruct (lag_msg_shape _ m Hm) as (_ & M2 & _).
    rewrite M2, Hmf, Hxe in F2.
    assert (N.of_nat (S n') <= (63 + 70 * N.of_nat n' + 69) / 64) by (apply N.div_le_lower_bound; lia).
    lia. }
  rewrite Hfl in C, D. splits; auto; lia.
Qed.
