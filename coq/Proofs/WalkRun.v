(* Proofs/WalkRun.v — C15, work package L: `s4 DIR`, `s4 <explicit list>` and the stdin forms are
   the same RUN (same stdout items, same summary totals), as a corollary of the processed lists
   being the same. *)
From Coq Require Import Lia.
From S4.Base Require Import Bytes.
From S4.Model Require Import Classify Walk WalkRun.
From S4.Model Require Program.
From S4.Proofs Require Import WalkProofs WalkLookup WalkStdin.
Open Scope N_scope.

Definition lk_top : tree :=
  Dir [ ([97; 46; 108; 111; 103], File []);
        ([46; 104; 46; 108; 111; 103], File []);
        ([115; 117; 98], Dir [([115; 46; 108; 111; 103], File [])]);
        ([108; 100], Link [[112]; [100]] (Dir [([112; 46; 108; 111; 103], File [])])) ].

Section RunEquiv.
  Variable sfx_table : list (bytes * sfx_action).
  Variable name_table : list (bytes * name_action).
  Variable junk junk_lead : list N.
  Variable file_of : bytes -> ftype -> Program.pfile.
  Variable R : Type.
  Variable prog : list Program.pfile -> R.
  Let kept := kept sfx_table name_table junk junk_lead.
  Let link_agrees := link_agrees sfx_table name_table junk junk_lead.
  Let pps := process_path_s sfx_table name_table junk junk_lead.
  Let xlist := explicit_list sfx_table name_table junk junk_lead.
  Let out := run_output sfx_table name_table junk junk_lead file_of R prog.
  Let fof := files_of file_of.

  Lemma files_of_app a b : fof (a ++ b) = fof a ++ fof b.
  Proof. unfold fof, files_of. apply flat_map_app. Qed.

  Lemma files_of_valids l : fof l = fof (valids l).
  Proof.
    induction l as [|r l IH]; [reflexivity|]. unfold valids in *. cbn [filter].
    destruct r; cbn [is_valid]; try exact IH.
    change (PValid p t :: l) with ([PValid p t] ++ l).
    change (PValid p t :: filter is_valid l) with ([PValid p t] ++ filter is_valid l).
    rewrite !files_of_app. now rewrite IH.
  Qed.

  (* the strings of walk entries are never the stdin marker "-" *)
  Lemma explicit_not_dash typed t0 cp0 root s :
    lookup_str root typed = Found cp0 t0 -> names_proper t0 -> names_unique t0 ->
    In s (xlist typed t0) -> is_dash_b s = false.
  Proof.
    intros Hl Hp Hu Hin. unfold xlist, explicit_list in Hin. apply in_map_iff in Hin.
    destruct Hin as ([p n] & <- & He). apply filter_In in He. destruct He as [He _].
    destruct (walk_components_proper_thm t0 p n Hp Hu He) as (Hne & Hpr & _ & _).
    destruct p as [|n1 rest]; [contradiction|].
    assert (Hb : walk_base typed t0 <> []).
    { unfold walk_base. destruct t0; try (intros ->; discriminate).
      intro E. pose proof (lookup_norm_root root typed) as Hn. rewrite E, Hl in Hn. discriminate. }
    assert (Hsl : In slash (rjoin (walk_base typed t0) (n1 :: rest))).
    { rewrite rjoin_form by assumption. apply in_or_app. right. now left. }
    assert (Hes : In slash (entry_str (walk_base typed t0) (n1 :: rest, n))).
    { unfold entry_str. cbn [fst snd]. destruct n; try exact Hsl. now apply norm_root_keeps_slash. }
    unfold is_dash_b, dash. destruct (beqb (entry_str (walk_base typed t0) (n1 :: rest, n)) [45]) eqn:E; [|exact E].
    apply beqb_eq in E. exfalso. rewrite E in Hes. destruct Hes as [Hes|[]]. discriminate.
  Qed.

  (* THE RUN-LEVEL EQUIVALENCE.  With the working directory at the model root, for a typed string
     that names a directory (directly or through links), whose tree has proper and distinct
     names, whose symlinks to kept files agree on the reader with their targets, and whose
     explicit strings survive stdin (valid UTF-8, no "\n", not ending in "\r"):
       output(s4 DIR) = output(s4 <explicit list in walk order>)
                      = output(s4 l1 - l3 with stdin = l2 joined by "\n", with or without a final "\n")
     for EVERY split l1 ++ l2 ++ l3 of the explicit list. *)
  Theorem run_equiv_thm : forall root typed cp0 t0 cs,
    lookup_str root typed = Found cp0 t0 -> resolve t0 = Dir cs ->
    names_proper t0 -> names_unique t0 ->
    (forall e, In e (walk [] t0) -> kept e = true -> link_agrees e) ->
    is_dash_b typed = false ->
    out root [typed] [] = out root (xlist typed t0) []
    /\ forall l1 l2 l3 final,
         xlist typed t0 = l1 ++ l2 ++ l3 ->
         Forall (fun p => line_safe p = true) l2 ->
         (final = false -> last l2 [0] <> []) ->
         out root (l1 ++ dash :: l3) (join_lines l2 final) = out root [typed] [].
  Proof.
    intros root typed cp0 t0 cs Hl Hd Hp Hu Hag Hnd.
    destruct (dir_equiv_explicit_str_thm sfx_table name_table junk junk_lead root true typed cp0 t0 cs
                Hl Hd Hp Hu Hag) as (_ & _ & Hv & _).
    assert (Hx : forall a, In a (xlist typed t0) -> is_dash_b a = false).
    { intros a Ha. now apply (explicit_not_dash typed t0 cp0 root a). }
    assert (H1 : out root [typed] [] = out root (xlist typed t0) []).
    { unfold out, run_output. f_equal. fold fof.
      rewrite (args_of_nodash [typed]) by (intros a [<-|[]]; exact Hnd).
      rewrite (args_of_nodash (xlist typed t0)) by exact Hx.
      rewrite (files_of_valids (run_s _ _ _ _ root [typed])), (files_of_valids (run_s _ _ _ _ root (xlist typed t0))).
      f_equal. unfold run_s. cbn [flat_map]. rewrite app_nil_r. exact Hv. }
    split; [exact H1|].
    intros l1 l2 l3 final Hsplit Hs Hf. rewrite H1. unfold out, run_output. f_equal. f_equal. f_equal.
    rewrite (args_of_nodash (xlist typed t0)) by exact Hx.
    rewrite stdin_equiv_bytes_thm; try assumption.
    - now symmetry.
    - intros a Ha. apply Hx. rewrite Hsplit. apply in_or_app. now left.
    - intros a Ha. apply Hx. rewrite Hsplit. apply in_or_app. right. apply in_or_app. now right.
  Qed.

  (* the hypotheses of run_equiv_thm are satisfiable, whatever the tables: lk_tree, typed "top"
     (a.log, .h.log hidden, sub/s.log, ld -> pool/d holding p.log): every kept entry is a regular
     file that is not a link, and every rendered string survives stdin *)
  Example run_hypotheses_example :
    exists cs,
      lookup_str lk_tree [116; 111; 112] = Found [[116; 111; 112]] lk_top /\ resolve lk_top = Dir cs
      /\ names_proper lk_top /\ names_unique lk_top
      /\ (forall e, In e (walk [] lk_top) -> kept e = true -> link_agrees e)
      /\ is_dash_b [116; 111; 112] = false
      /\ length (walk [] lk_top) = 5%nat
      /\ Forall (fun p => line_safe p = true)
                (map (entry_str (walk_base [116; 111; 112] lk_top)) (walk [] lk_top)).
  Proof.
    eexists. split; [vm_compute; reflexivity|]. split; [reflexivity|].
    split; [simpl; repeat split|].
    split; [simpl; repeat split; repeat constructor; simpl; intuition discriminate|].
    split.
    - intros e He Hk. unfold link_agrees, WalkProofs.link_agrees.
      vm_compute in He.
      repeat (destruct He as [<-|He];
              [first [reflexivity
                     | (unfold kept, WalkProofs.kept, is_file_entry in Hk; simpl in Hk; discriminate Hk)]|]).
      contradiction.
    - split; [reflexivity|]. split; [vm_compute; reflexivity|].
      vm_compute. repeat constructor.
  Qed.
End RunEquiv.

Theorem run_equiv_spec_thm :
  forall sfx name junk junk_lead (file_of : bytes -> ftype -> Program.pfile)
         (O : spec_oracles) (o : Program.options) root typed cp0 t0 cs,
    lookup_str root typed = Found cp0 t0 -> resolve t0 = Dir cs ->
    names_proper t0 -> names_unique t0 ->
    (forall e, In e (walk [] t0) -> kept sfx name junk junk_lead e = true -> link_agrees sfx name junk junk_lead e) ->
    is_dash_b typed = false ->
    run_output sfx name junk junk_lead file_of _ (spec_prog O o) root [typed] []
    = run_output sfx name junk junk_lead file_of _ (spec_prog O o) root (explicit_list sfx name junk junk_lead typed t0) []
    /\ forall l1 l2 l3 final,
         explicit_list sfx name junk junk_lead typed t0 = l1 ++ l2 ++ l3 ->
         Forall (fun p => line_safe p = true) l2 ->
         (final = false -> last l2 [0] <> []) ->
         run_output sfx name junk junk_lead file_of _ (spec_prog O o) root (l1 ++ dash :: l3) (join_lines l2 final)
         = run_output sfx name junk junk_lead file_of _ (spec_prog O o) root [typed] [].
Proof. intros sfx name junk junk_lead file_of O o. apply run_equiv_thm. Qed.
