(* Proofs/WalkProofs.v — lemmas and theorems for C15 (Model/Walk.v). *)
From Coq Require Import Lia Sorting.Sorted Permutation.
From S4.Base Require Import Bytes.
From S4.Model Require Import Classify Walk.
Open Scope N_scope.

(* ------------------------------------------------------------ byte-lexicographic order *)
Ltac ltb_cases :=
  repeat match goal with
         | |- context [?u <? ?v] => destruct (N.ltb_spec u v)
         | H : context [?u <? ?v] |- _ => destruct (N.ltb_spec u v)
         end.

Lemma bytes_ltb_irrefl a : bytes_ltb a a = false.
Proof. induction a as [|x a IH]; simpl; [reflexivity|]. now rewrite N.ltb_irrefl. Qed.

Lemma bytes_ltb_trans a : forall b c, bytes_ltb a b = true -> bytes_ltb b c = true -> bytes_ltb a c = true.
Proof.
  induction a as [|x a IH]; intros [|y b] [|z c]; simpl; intros H1 H2; try discriminate; try reflexivity.
  ltb_cases; try discriminate; try reflexivity; try lia.
  eapply IH; eassumption.
Qed.

Lemma bytes_ltb_total a : forall b, bytes_ltb a b = false -> bytes_ltb b a = false -> a = b.
Proof.
  induction a as [|x a IH]; intros [|y b]; simpl; intros H1 H2; try discriminate; try reflexivity.
  ltb_cases; try discriminate; try lia.
  assert (x = y) by lia. subst. f_equal. now apply IH.
Qed.

Lemma bytes_ltb_asym a : forall b, bytes_ltb a b = true -> bytes_ltb b a = false.
Proof.
  induction a as [|x a IH]; intros [|y b]; simpl; intros H; try discriminate; try reflexivity.
  ltb_cases; try discriminate; try reflexivity; try lia. now apply IH.
Qed.

Definition blt (a b : bytes) : Prop := bytes_ltb a b = true.
Definition names_sorted (l : list (name * tree)) : Prop := StronglySorted blt (map fst l).

(* ------------------------------------------------------------ insertion sort *)
Lemma In_insert_child x l z : In z (insert_child x l) <-> z = x \/ In z l.
Proof.
  induction l as [|y r IH]; simpl; [intuition|].
  destruct (bytes_ltb (fst y) (fst x)); simpl; rewrite ?IH; intuition.
Qed.

Lemma In_sort_children l z : In z (sort_children l) <-> In z l.
Proof.
  induction l as [|a l IH]; simpl; [tauto|]. rewrite In_insert_child, IH. intuition.
Qed.

Lemma insert_child_sorted x l :
  names_sorted l -> ~ In (fst x) (map fst l) -> names_sorted (insert_child x l).
Proof.
  unfold names_sorted. induction l as [|y r IH]; intros Hs Hn; simpl.
  - repeat constructor.
  - inversion Hs as [|? ? Hr Hy]; subst.
    destruct (bytes_ltb (fst y) (fst x)) eqn:E; simpl.
    + constructor.
      * apply IH; [exact Hr | intro Hc; apply Hn; now right].
      * apply Forall_forall. intros z Hz. apply in_map_iff in Hz. destruct Hz as (w & <- & Hw).
        apply In_insert_child in Hw. destruct Hw as [->|Hw]; [exact E|].
        rewrite Forall_forall in Hy. apply Hy. now apply in_map.
    + assert (Hxy : blt (fst x) (fst y)).
      { unfold blt. destruct (bytes_ltb (fst x) (fst y)) eqn:E2; [reflexivity|].
        exfalso. apply Hn. left. symmetry. now apply bytes_ltb_total. }
      constructor; [exact Hs|]. constructor; [exact Hxy|].
      rewrite Forall_forall in *. intros z Hz. eapply bytes_ltb_trans; [exact Hxy | now apply Hy].
Qed.

Lemma sort_children_names l z : In z (map fst (sort_children l)) <-> In z (map fst l).
Proof.
  split; intro H; apply in_map_iff in H; destruct H as (w & <- & Hw); apply in_map;
    now apply In_sort_children.
Qed.

Lemma sort_children_sorted l : NoDup (map fst l) -> names_sorted (sort_children l).
Proof.
  induction l as [|a l IH]; intro Hnd; simpl; [constructor|].
  inversion Hnd; subst. apply insert_child_sorted; [now apply IH|].
  now rewrite sort_children_names.
Qed.

(* ------------------------------------------------------------ induction on trees *)
Lemma tree_ind' (P : tree -> Prop) :
  (forall ms, P (File ms)) ->
  (forall cs, Forall (fun nc => P (snd nc)) cs -> P (Dir cs)) ->
  (forall c x, P x -> P (Link c x)) ->
  P Other ->
  P Special ->
  forall t, P t.
Proof.
  intros HF HD HL HO HS. fix IH 1. intros [ms|cs|c x| |].
  - apply HF.
  - apply HD. induction cs as [|[n c] cs IHcs]; constructor; [apply IH | exact IHcs].
  - apply HL, IH.
  - exact HO.
  - exact HS.
Qed.

Fixpoint names_unique (t : tree) : Prop :=
  match t with
  | Dir cs => NoDup (map fst cs)
              /\ (fix all (l : list (name * tree)) : Prop :=
                    match l with [] => True | nc :: r => names_unique (snd nc) /\ all r end) cs
  | Link _ x => names_unique x
  | _ => True
  end.

Fixpoint sorted_tree (t : tree) : Prop :=
  match t with
  | Dir cs => names_sorted cs
              /\ (fix all (l : list (name * tree)) : Prop :=
                    match l with [] => True | nc :: r => sorted_tree (snd nc) /\ all r end) cs
  | Link _ x => sorted_tree x
  | _ => True
  end.

Lemma all_unique_Forall cs :
  (fix all (l : list (name * tree)) : Prop :=
     match l with [] => True | nc :: r => names_unique (snd nc) /\ all r end) cs
  <-> Forall (fun nc => names_unique (snd nc)) cs.
Proof.
  induction cs as [|a cs IH]; simpl.
  - split; intro; [constructor | exact I].
  - split.
    + intros [H1 H2]. constructor; [exact H1 | now apply IH].
    + intro H. inversion H; subst. split; [assumption | now apply IH].
Qed.

Lemma all_sorted_Forall cs :
  (fix all (l : list (name * tree)) : Prop :=
     match l with [] => True | nc :: r => sorted_tree (snd nc) /\ all r end) cs
  <-> Forall (fun nc => sorted_tree (snd nc)) cs.
Proof.
  induction cs as [|a cs IH]; simpl.
  - split; intro; [constructor | exact I].
  - split.
    + intros [H1 H2]. constructor; [exact H1 | now apply IH].
    + intro H. inversion H; subst. split; [assumption | now apply IH].
Qed.

Lemma sort_tree_sorted t : names_unique t -> sorted_tree (sort_tree t).
Proof.
  induction t as [ms|cs IH|c x IH| |] using tree_ind'; intro Hu; simpl; try exact I.
  - destruct Hu as [Hnd Hall]. apply all_unique_Forall in Hall.
    set (cs' := map (fun nc : name * tree => let '(n, c) := nc in (n, sort_tree c)) cs).
    assert (Hnames : map fst cs' = map fst cs).
    { subst cs'. rewrite map_map. apply map_ext. now intros [n c]. }
    split.
    + apply sort_children_sorted. now rewrite Hnames.
    + apply all_sorted_Forall. apply Forall_forall. intros nc Hin.
      apply (proj1 (In_sort_children _ _)) in Hin. subst cs'. apply in_map_iff in Hin.
      destruct Hin as ([n c] & <- & Hin). simpl.
      rewrite Forall_forall in IH, Hall. apply (IH (n, c) Hin). apply (Hall (n, c) Hin).
  - now apply IH.
Qed.

(* ------------------------------------------------------------ component-wise path order *)
Lemma path_ltb_app p : forall q1 q2, path_ltb (p ++ q1) (p ++ q2) = path_ltb q1 q2.
Proof. induction p as [|a p IH]; intros; simpl; [reflexivity|]. now rewrite bytes_ltb_irrefl. Qed.

Lemma path_lt_prefix p r : r <> [] -> path_lt p (p ++ r).
Proof.
  intro Hr. unfold path_lt. rewrite <- (app_nil_r p) at 1. rewrite path_ltb_app.
  destruct r; [congruence | reflexivity].
Qed.

Lemma path_lt_diverge p n1 n2 r1 r2 : blt n1 n2 -> path_lt (p ++ n1 :: r1) (p ++ n2 :: r2).
Proof. intro H. unfold path_lt. rewrite path_ltb_app. simpl. now rewrite H. Qed.

Lemma StronglySorted_app {A} (R : A -> A -> Prop) l1 l2 :
  StronglySorted R l1 -> StronglySorted R l2 ->
  (forall x y, In x l1 -> In y l2 -> R x y) -> StronglySorted R (l1 ++ l2).
Proof.
  induction l1 as [|a l1 IH]; intros H1 H2 Hc; simpl; [exact H2|].
  inversion H1; subst. constructor.
  - apply IH; [assumption | assumption | intros; apply Hc; [now right | assumption]].
  - apply Forall_forall. intros z Hz. apply in_app_iff in Hz. destruct Hz as [Hz|Hz].
    + rewrite Forall_forall in H4. now apply H4.
    + apply Hc; [now left | assumption].
Qed.

Lemma below_dir_cons p n c cs :
  below p (Dir ((n, c) :: cs)) = ((p ++ [n], c) :: below (p ++ [n]) c) ++ below p (Dir cs).
Proof. reflexivity. Qed.

Lemma below_under t : forall p x, In x (map fst (below p t)) -> exists r, r <> [] /\ x = p ++ r.
Proof.
  induction t as [ms|cs IH|c x0 IH| |] using tree_ind'; intros p x Hx;
    [simpl in Hx; contradiction | | simpl in Hx | simpl in Hx; contradiction | simpl in Hx; contradiction].
  - induction cs as [|[n c] cs IHcs]; [simpl in Hx; contradiction|].
    rewrite below_dir_cons, map_app in Hx. apply in_app_iff in Hx.
    inversion IH as [|? ? Hc Hcs]; subst. destruct Hx as [Hx|Hx].
    + simpl in Hx. destruct Hx as [<-|Hx].
      * exists [n]. split; [discriminate | reflexivity].
      * destruct (Hc (p ++ [n]) x Hx) as (r & Hr & ->). exists (n :: r). split; [discriminate|].
        now rewrite <- app_assoc.
    + now apply IHcs.
  - now apply IH.
Qed.

Lemma below_dir_form p cs x :
  In x (map fst (below p (Dir cs))) -> exists n r, In n (map fst cs) /\ x = p ++ n :: r.
Proof.
  induction cs as [|[n c] cs IH]; intro Hx; [simpl in Hx; contradiction|].
  rewrite below_dir_cons, map_app in Hx. apply in_app_iff in Hx. destruct Hx as [Hx|Hx].
  - simpl in Hx. destruct Hx as [<-|Hx].
    + exists n, []. split; [now left | reflexivity].
    + destruct (below_under c (p ++ [n]) x Hx) as (r & _ & ->).
      exists n, r. split; [now left | now rewrite <- app_assoc].
  - destruct (IH Hx) as (n' & r & Hin & ->). exists n', r. split; [now right | reflexivity].
Qed.

Lemma below_sorted t : sorted_tree t -> forall p, StronglySorted path_lt (map fst (below p t)).
Proof.
  induction t as [ms|cs IH|c x IH| |] using tree_ind'; intros Hs p; simpl; try constructor.
  - destruct Hs as [Hn Hall]. apply all_sorted_Forall in Hall.
    change (StronglySorted path_lt (map fst (below p (Dir cs)))).
    unfold names_sorted in Hn.
    induction cs as [|[n c] cs IHcs]; [constructor|].
    rewrite below_dir_cons, map_app.
    inversion IH as [|? ? Hc Hcs]; subst. inversion Hall as [|? ? Ha Has]; subst.
    simpl in Hn. inversion Hn as [|? ? Hn' Hlt]; subst.
    apply StronglySorted_app.
    + simpl. constructor; [now apply Hc|].
      apply Forall_forall. intros y Hy. destruct (below_under c (p ++ [n]) y Hy) as (r & Hr & ->).
      apply path_lt_prefix. exact Hr.
    + now apply IHcs.
    + intros x y Hx Hy.
      assert (Hxf : exists r, x = p ++ n :: r).
      { simpl in Hx. destruct Hx as [<-|Hx]; [now exists []|].
        destruct (below_under c (p ++ [n]) x Hx) as (r & _ & ->). exists r. now rewrite <- app_assoc. }
      destruct Hxf as (r1 & ->).
      destruct (below_dir_form p cs y Hy) as (n' & r2 & Hin & ->).
      apply path_lt_diverge. rewrite Forall_forall in Hlt. now apply Hlt.
  - now apply IH.
Qed.

(* dropping hidden entries keeps sibling names distinct *)
Definition prune_child (nc : name * tree) : list (name * tree) :=
  let '(n, c) := nc in if is_hidden n then [] else [(n, prune c)].

Lemma prune_dir cs : prune (Dir cs) = Dir (flat_map prune_child cs).
Proof. reflexivity. Qed.

Lemma In_prune_children cs z :
  In z (flat_map prune_child cs) <-> exists c, In (fst z, c) cs /\ is_hidden (fst z) = false /\ snd z = prune c.
Proof.
  rewrite in_flat_map. split.
  - intros ([n c] & Hin & Hz). unfold prune_child in Hz. destruct (is_hidden n) eqn:E; [contradiction|].
    destruct Hz as [<-|[]]. exists c. auto.
  - intros (c & Hin & Hh & Hz). exists (fst z, c). split; [exact Hin|]. unfold prune_child. rewrite Hh.
    left. destruct z; simpl in *; now subst.
Qed.

Lemma prune_children_names cs n : In n (map fst (flat_map prune_child cs)) -> In n (map fst cs).
Proof.
  intro H. apply in_map_iff in H. destruct H as (z & <- & Hz). apply In_prune_children in Hz.
  destruct Hz as (c & Hin & _). apply in_map_iff. now exists (fst z, c).
Qed.

Lemma prune_children_nodup cs : NoDup (map fst cs) -> NoDup (map fst (flat_map prune_child cs)).
Proof.
  induction cs as [|[n c] cs IH]; intro H; simpl; [constructor|].
  inversion H; subst. destruct (is_hidden n); simpl; [now apply IH|].
  constructor; [|now apply IH]. intro Hc. apply prune_children_names in Hc. contradiction.
Qed.

Lemma prune_unique t : names_unique t -> names_unique (prune t).
Proof.
  induction t as [ms|cs IH|c x IH| |] using tree_ind'; intro Hu; try exact I.
  - destruct Hu as [Hnd Hall]. apply all_unique_Forall in Hall. rewrite prune_dir. split.
    + now apply prune_children_nodup.
    + apply all_unique_Forall. apply Forall_forall. intros z Hz. apply In_prune_children in Hz.
      destruct Hz as (c & Hin & _ & ->). rewrite Forall_forall in IH, Hall.
      apply (IH (fst z, c) Hin). apply (Hall (fst z, c) Hin).
  - simpl. now apply IH.
Qed.

Theorem walk_sorted_thm : forall t p, names_unique t -> StronglySorted path_lt (map fst (walk p t)).
Proof. intros t p H. unfold walk. apply below_sorted. apply sort_tree_sorted. now apply prune_unique. Qed.

(* "sorted path order" is NOT byte order of the joined strings: a sibling whose name continues a
   directory's name with a byte below '/' sorts after the directory's content component-wise and
   before it as a string *)
Theorem path_order_not_string_order_thm :
  exists p q, path_lt p q /\ bytes_ltb (join q) (join p) = true.
Proof.
  exists [[115; 117; 98]; [122]], [[115; 117; 98; 33; 120]].   (* sub/z  vs  sub!x *)
  split; vm_compute; reflexivity.
Qed.

(* ------------------------------------------------------------ the classifier and the flag *)
Section Cls.
  Variable sfx_table : list (bytes * sfx_action).
  Variable name_table : list (bytes * name_action).
  Variable junk junk_lead : list N.
  Let classify' := classify sfx_table name_table junk junk_lead.

  Lemma classify_uat fuel : forall a p,
    classify' fuel false a p = RFile Unparsable \/ classify' fuel false a p = classify' fuel true a p.
  Proof.
    subst classify'. induction fuel as [|f IH]; intros a p; [right; reflexivity|].
    cbn [classify]. destruct (clean junk junk_lead p) as [[c3 f3]|]; [|left; reflexivity].
    destruct (parse_i32_ok (suffix_of c3)); [apply IH|].
    destruct (assoc (suffix_of c3) sfx_table) as [[a'| | | | | |]|];
      try (right; reflexivity); try apply IH; try (left; reflexivity).
    destruct (negb (is_empty (suffix_of c3))); [apply IH|].
    unfold name_result. destruct (is_empty (lower_bytes (to_str_or_empty f3))); [left; reflexivity|].
    right. reflexivity.
  Qed.

  Lemma classify_true_parsable fuel : forall a p, classify' fuel true a p <> RFile Unparsable.
  Proof.
    subst classify'. induction fuel as [|f IH]; intros a p; [discriminate|].
    cbn [classify]. destruct (clean junk junk_lead p) as [[c3 f3]|]; [|discriminate].
    destruct (parse_i32_ok (suffix_of c3)); [apply IH|].
    destruct (assoc (suffix_of c3) sfx_table) as [[a'| | | | | |]|];
      try discriminate; try apply IH.
    destruct (negb (is_empty (suffix_of c3))); [apply IH|].
    unfold name_result. destruct (is_empty (lower_bytes (to_str_or_empty f3))); [discriminate|].
    destruct (assoc _ name_table) as [[| |]|]; discriminate.
  Qed.
End Cls.

(* ------------------------------------------------------------ directory = explicit list *)
Section Equiv.
  Variable sfx_table : list (bytes * sfx_action).
  Variable name_table : list (bytes * name_action).
  Variable junk junk_lead : list N.
  Variable root_str : bytes.
  Let cls := cls sfx_table name_table junk junk_lead.
  Let walked := walked_result sfx_table name_table junk junk_lead root_str.
  Let explicit := explicit_result sfx_table name_table junk junk_lead root_str.

  Definition is_file_entry (e : path * tree) : bool :=
    match resolve (snd e) with File _ => true | _ => false end.
  (* walked-only exclusion: the entry's own name is of a known non-log type *)
  Definition excluded (e : path * tree) : bool :=
    match cls false (last_name (fst e)) with RFile Unparsable => true | _ => false end.
  Definition kept (e : path * tree) : bool := is_file_entry e && negb (excluded e).
  (* a symlink's own name and its target's name select the same reader *)
  Definition link_agrees (e : path * tree) : Prop :=
    cls true (canon_name (last_name (fst e)) (snd e)) = cls true (last_name (fst e)).

  Lemma cls_uat n : cls false n = RFile Unparsable \/ cls false n = cls true n.
  Proof. apply classify_uat. Qed.

  Lemma kept_same uat e : kept e = true -> link_agrees e -> walked uat e = explicit uat e.
  Proof.
    destruct e as [p t]. unfold kept, is_file_entry, excluded, link_agrees, walked, explicit,
      walked_result, explicit_result, walked_gen, explicit_gen. cbn [fst snd].
    destruct (resolve t) as [ms| | | |]; try discriminate. simpl.
    intros Hk Ha. fold cls. rewrite Ha.
    destruct (cls_uat (last_name p)) as [E|E].
    - rewrite E in Hk. discriminate.
    - rewrite <- E. destruct (cls false (last_name p)) as [[| | | |]| |]; try reflexivity. discriminate.
  Qed.

  Lemma dropped_nothing uat e : kept e = false ->
    walked uat e = [] \/ walked uat e = [PNotSupported (pstr root_str (fst e))]
    \/ walked uat e = [PNotAFile (pstr root_str (fst e))].
  Proof.
    destruct e as [p t]. unfold kept, is_file_entry, excluded, walked, walked_result, walked_gen. cbn [fst snd].
    destruct (resolve t) as [ms| | | |]; try (left; reflexivity); [|right; right; reflexivity]. simpl. fold cls.
    destruct (cls false (last_name p)) as [[| | | |]| |]; try discriminate. right. left. reflexivity.
  Qed.

  Theorem dir_equiv_explicit_thm : forall uat (E : list (path * tree)),
    (forall e, In e E -> kept e = true -> link_agrees e) ->
    flat_map (walked uat) (filter kept E) = flat_map (explicit uat) (filter kept E)
    /\ valids (flat_map (walked uat) E) = valids (flat_map (explicit uat) (filter kept E))
    /\ (forall e, In e E -> kept e = false ->
          walked uat e = [] \/ walked uat e = [PNotSupported (pstr root_str (fst e))]
          \/ walked uat e = [PNotAFile (pstr root_str (fst e))]).
  Proof.
    intros uat E Hl.
    assert (H1 : flat_map (walked uat) (filter kept E) = flat_map (explicit uat) (filter kept E)).
    { induction E as [|e E IH]; [reflexivity|]. simpl. destruct (kept e) eqn:Ek.
      - simpl. rewrite (kept_same uat e Ek (Hl e (or_introl eq_refl) Ek)). f_equal.
        apply IH. intros; apply Hl; [now right | assumption].
      - apply IH. intros; apply Hl; [now right | assumption]. }
    split; [exact H1|]. split.
    - rewrite <- H1. clear H1 Hl. induction E as [|e E IH]; [reflexivity|]. simpl.
      unfold valids in *. rewrite filter_app. destruct (kept e) eqn:Ek.
      + simpl. rewrite filter_app. now rewrite IH.
      + destruct (dropped_nothing uat e Ek) as [->|[->| ->]]; simpl; exact IH.
    - intros e _ Hk. now apply dropped_nothing.
  Qed.

  (* a file named explicitly is always attempted, whatever its name *)
  Theorem explicit_always_attempted_thm : forall uat p t ms,
    resolve t = File ms ->
    cls true (canon_name (last_name p) t) <> ROutOfFuel ->
    (exists ft, explicit uat (p, t) = [PValid (pstr root_str p) ft] /\ ft <> Unparsable)
    \/ (exists a, cls true (canon_name (last_name p) t) = RArchiveTar a
                  /\ explicit uat (p, t) = tar_results sfx_table name_table junk junk_lead uat (pstr root_str p) ms).
  Proof.
    intros uat p t ms Hr Hf. unfold explicit, explicit_result, explicit_gen. rewrite Hr. fold cls.
    pose proof (classify_true_parsable sfx_table name_table junk junk_lead
                  (S (length (canon_name (last_name p) t))) Normal (canon_name (last_name p) t)) as Hp.
    fold (classify_top sfx_table name_table junk junk_lead true (canon_name (last_name p) t)) in Hp.
    change (classify_top sfx_table name_table junk junk_lead true) with (cls true) in Hp.
    destruct (cls true (canon_name (last_name p) t)) as [ft|a|] eqn:E.
    - left. exists ft. split; [reflexivity|]. intro; subst. now apply Hp.
    - right. exists a. split; reflexivity.
    - now elim Hf.
  Qed.

  Lemma process_path_dir root uat req t cs :
    lookup req root = Some t -> resolve t = Dir cs ->
    process_path_m sfx_table name_table junk junk_lead root_str root uat req
    = flat_map (walked uat) (walk req t).
  Proof. intros Hl Hr. unfold process_path_m. now rewrite Hl, Hr. Qed.

  Lemma process_path_file root uat req t ms :
    lookup req root = Some t -> resolve t = File ms ->
    process_path_m sfx_table name_table junk junk_lead root_str root uat req = explicit uat (req, t).
  Proof. intros Hl Hr. unfold process_path_m. now rewrite Hl, Hr. Qed.
End Equiv.

(* ------------------------------------------------------------ stdin splice *)
Section Stdin.
  Variable A : Type.
  Variable is_dash : A -> bool.

  Lemma main_paths_aux_nodash seen l stdin :
    (forall a, In a l -> is_dash a = false) -> main_paths_aux A is_dash seen l stdin = l.
  Proof.
    induction l as [|a l IH]; intro H; simpl; [reflexivity|].
    rewrite (H a (or_introl eq_refl)). f_equal. apply IH. intros; apply H; now right.
  Qed.

  Theorem stdin_equiv_thm : forall l1 l2 l3 d,
    is_dash d = true ->
    (forall a, In a l1 -> is_dash a = false) -> (forall a, In a l3 -> is_dash a = false) ->
    main_paths A is_dash (l1 ++ d :: l3) l2 = l1 ++ l2 ++ l3
    /\ main_paths A is_dash (l1 ++ l2 ++ l3) [] = l1 ++ filter (fun a => negb (is_dash a)) l2 ++ l3.
  Proof.
    intros l1 l2 l3 d Hd H1 H3. unfold main_paths. split.
    - induction l1 as [|a l1 IH]; simpl.
      + rewrite Hd. f_equal. now apply main_paths_aux_nodash.
      + rewrite (H1 a (or_introl eq_refl)). f_equal. apply IH. intros; apply H1; now right.
    - induction l1 as [|a l1 IH]; simpl.
      + assert (G : forall seen, main_paths_aux A is_dash seen (l2 ++ l3) []
                                 = filter (fun a => negb (is_dash a)) l2 ++ l3).
        { induction l2 as [|b l2 IH2]; intro seen; simpl; [now apply main_paths_aux_nodash|].
          destruct (is_dash b); simpl; [destruct seen; apply IH2 | f_equal; apply IH2]. }
        apply G.
      + rewrite (H1 a (or_introl eq_refl)). f_equal. apply IH. intros; apply H1; now right.
  Qed.

  (* a second "-" is ignored *)
  Lemma second_dash_ignored l1 l2 l3 stdin d d' :
    is_dash d = true -> is_dash d' = true -> (forall a, In a l1 -> is_dash a = false) ->
    main_paths A is_dash (l1 ++ d :: l2 ++ d' :: l3) stdin = main_paths A is_dash (l1 ++ d :: l2 ++ l3) stdin.
  Proof.
    intros Hd Hd' H1. unfold main_paths. induction l1 as [|a l1 IH]; simpl.
    - rewrite Hd. f_equal. induction l2 as [|b l2 IH2]; simpl; [now rewrite Hd'|].
      destruct (is_dash b); [exact IH2 | f_equal; exact IH2].
    - rewrite (H1 a (or_introl eq_refl)). f_equal. apply IH. intros; apply H1; now right.
  Qed.
End Stdin.

(* ------------------------------------------------------------ satisfiable hypotheses *)
Definition ex_tree : tree :=
  Dir [ ([115; 117; 98; 33; 120], File []);                       (* "sub!x" *)
        ([115; 117; 98], Dir [([122], File []); ([97], File [])]);  (* "sub" / {"z","a"} *)
        ([108], Link [[100]] (Dir [([113], File [])])) ].             (* "l" -> dir "d" / "q" *)

Example walk_example :
  names_unique ex_tree
  /\ map fst (walk [] ex_tree)
     = [ [[108]]; [[108]; [113]]; [[115; 117; 98]]; [[115; 117; 98]; [97]]; [[115; 117; 98]; [122]];
         [[115; 117; 98; 33; 120]] ].
Proof.
  split; [|vm_compute; reflexivity].
  simpl. repeat split; repeat constructor; simpl; intuition discriminate.
Qed.
