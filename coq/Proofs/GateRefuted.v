(* Proofs/GateRefuted.v — the block-zero acceptance gate of the CURRENT code depends on the
   block size: three witness families (DESIGN.md section 9: F3a, F3b; and F3c found while
   building this check), each closed by evaluation of the gate model on a concrete file.
   All block sizes used are permitted ones (>= 64 = SyslogProcessor::BLOCKSZ_MIN in release).

   NOT proved (stated for the record): `gate_independent` — if the first dated line ends,
   newline included, within min(bs,|f|) bytes, block zero passes the byte checks and holds
   fewer than SYSLOG_SZ_MAX bytes at both sizes, then gate bs f = gate blocksz_def f. *)
From S4.Base Require Import Bytes Chunk.
From S4.Gen Require Import BlockConsts.
From S4.Model Require Import Lines Gate.
Open Scope N_scope.

(* a concrete oracle for the witnesses: a line is dated iff it begins with "2020-" *)
Definition dated_w (l : list N) : option Z :=
  match l with
  | 50 :: 48 :: 50 :: 48 :: 45 :: _ => if 19 <=? lenN l then Some 0%Z else None
  | _ => None
  end.

Definition stamp (s : N) : list N :=          (* "2020-01-01T00:00:0s" *)
  [50;48;50;48;45;48;49;45;48;49;84;48;48;58;48;48;58;48;48 + s].
Definition xs (n : nat) : list N := repeat 120 n.

(* F3a: five 121-byte lines dated at column 0 *)
Definition line121 (s : N) : list N := stamp s ++ [32] ++ xs 100 ++ [10].
Definition file_f3a : file := line121 0 ++ line121 1 ++ line121 2 ++ line121 3 ++ line121 4.

Lemma gate_refuted_F3a :
  64 <= 64 /\ gate dated_w 64 file_f3a = FileErrNoSyslinesFound /\ gate dated_w 128 file_f3a = FileOk /\
  gate dated_w blocksz_def file_f3a = FileOk.
Proof. vm_compute. repeat split; discriminate || reflexivity. Qed.

(* F3b: a 100-byte undated first line, then five short dated lines *)
Definition short_line (s : N) : list N := stamp s ++ [32;104;101;108;108;111;10].
Definition file_f3b : file :=
  repeat 117 99 ++ [10] ++ short_line 0 ++ short_line 1 ++ short_line 2 ++ short_line 3 ++ short_line 4.

Lemma gate_refuted_F3b :
  gate dated_w 64 file_f3b = FileErrNoSyslinesFound /\ gate dated_w 128 file_f3b = FileOk /\
  gate dated_w blocksz_def file_f3b = FileOk.
Proof. vm_compute. repeat split; reflexivity. Qed.

(* F3c: two 4050-byte dated lines: accepted with a 4096-byte block, rejected when block zero
   holds >= syslog_sz_max bytes (3 lines / 2 syslines required) *)
Definition line4050 (s : N) : list N := stamp s ++ [32] ++ xs 4029 ++ [10].
Definition file_f3c : file := line4050 0 ++ line4050 1.

Lemma gate_refuted_F3c :
  gate dated_w 4096 file_f3c = FileOk /\ gate dated_w blocksz_def file_f3c = FileErrNoLinesFound.
Proof. vm_compute. repeat split; reflexivity. Qed.

Theorem gate_refuted : exists (dated : list N -> option Z) (f : file) (bs : N),
  64 <= bs /\ bs <= blocksz_max /\ gate dated bs f <> gate dated blocksz_def f.
Proof.
  exists dated_w, file_f3a, 64. split; [discriminate|]. split; [discriminate|].
  destruct gate_refuted_F3a as (_ & A & _ & B). rewrite A, B. discriminate.
Qed.
