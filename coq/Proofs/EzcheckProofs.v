(* Proofs/EzcheckProofs.v — EZCHECK soundness: the pre-filters of find_datetime_in_line (ezcheck_slice with its
   carried-over minima, EZCHECK12 / EZCHECKD2 / EZCHECK12D2) never skip a row whose pattern would match, for every
   line and every try order — hence the analysis as coded equals the analysis over the derived per-row oracle.
   Hypotheses on the oracle (a regex model can discharge them): a match of a row with a four-digit year contains
   '1' or '2'; a match of a row with a two-digit numeric field contains two consecutive digits; and (a table
   fact, Proofs/GateTablesOk.v) every row's slice starts at byte 0 of the line. *)
From S4.Base Require Import Bytes Chunk.
From S4.Gen Require Import BlockConsts.
From S4.Model Require Import Lines Gate GateSpec.
Open Scope N_scope.

(* ---------------------------------------------------------------- the three scans: prefixes and gluing *)
Lemma c12_app a b : contains_12 (a ++ b) = contains_12 a || contains_12 b.
Proof. induction a as [|x a IH]; [reflexivity|]. cbn [app contains_12]. rewrite IH. rewrite !Bool.orb_assoc. reflexivity. Qed.

Lemma cd2_prefix a b : forall last, contains_d2_from last (a ++ b) = false -> contains_d2_from last a = false.
Proof.
  induction a as [|x a IH]; intros last H; [reflexivity|].
  cbn [app contains_d2_from] in *. destruct (is_dig x); [destruct last; [exact H|]|]; apply IH; exact H.
Qed.

Lemma cd2_glue a x b : forall last, contains_d2_from last (a ++ [x]) = false -> contains_d2_from false (x :: b) = false ->
  contains_d2_from last (a ++ x :: b) = false.
Proof.
  induction a as [|y a IH]; intros last H1 H2.
  - cbn [app contains_d2_from] in *. destruct (is_dig x); [destruct last; [discriminate|exact H2]|exact H2].
  - cbn [app contains_d2_from] in *. destruct (is_dig y); [destruct last; [discriminate|]|]; apply IH; assumption.
Qed.

Lemma c12d2_prefix a b : forall last, contains_12_d2_from last (a ++ b) = false -> contains_12_d2_from last a = false.
Proof.
  induction a as [|x a IH]; intros last H; [reflexivity|].
  cbn [app contains_12_d2_from] in *. destruct ((x =? 49) || (x =? 50)); [exact H|].
  destruct (is_dig x); [destruct last; [exact H|]|]; apply IH; exact H.
Qed.

Lemma c12d2_glue a x b : forall last, contains_12_d2_from last (a ++ [x]) = false -> contains_12_d2_from false (x :: b) = false ->
  contains_12_d2_from last (a ++ x :: b) = false.
Proof.
  induction a as [|y a IH]; intros last H1 H2.
  - cbn [app contains_12_d2_from] in *. destruct ((x =? 49) || (x =? 50)); [discriminate|].
    destruct (is_dig x); [destruct last; [discriminate|exact H2]|exact H2].
  - cbn [app contains_12_d2_from] in *. destruct ((y =? 49) || (y =? 50)); [discriminate|].
    destruct (is_dig y); [destruct last; [discriminate|]|]; apply IH; assumption.
Qed.

(* '1' or '2' present, or a digit pair present, makes the combined scan true *)
Lemma c12d2_of_12 s : forall last, contains_12 s = true -> contains_12_d2_from last s = true.
Proof.
  induction s as [|x s IH]; intros last H; [discriminate|].
  cbn [contains_12 contains_12_d2_from] in *. destruct ((x =? 49) || (x =? 50)); [reflexivity|].
  cbn [orb] in H. destruct (is_dig x); [destruct last; [reflexivity|]|]; apply IH; exact H.
Qed.

(* a scan P is "local" when false is closed under prefixes and glues over one shared byte *)
Definition local (P : list N -> bool) : Prop :=
  P [] = false /\
  (forall a b, P (a ++ b) = false -> P a = false) /\
  (forall a x b, P (a ++ [x]) = false -> P (x :: b) = false -> P (a ++ x :: b) = false).

Lemma local_12 : local contains_12.
Proof.
  split; [reflexivity|]. split.
  - intros a b H. rewrite c12_app in H. apply Bool.orb_false_iff in H. tauto.
  - intros a x b H1 H2. rewrite c12_app in *. apply Bool.orb_false_iff in H1 as [A _]. rewrite A, H2. reflexivity.
Qed.
Lemma local_d2 : local contains_d2.
Proof. split; [reflexivity|]. split; [intros a b; apply cd2_prefix|intros a x b; apply cd2_glue]. Qed.
Lemma local_12d2 : local contains_12_d2.
Proof. split; [reflexivity|]. split; [intros a b; apply c12d2_prefix|intros a x b; apply c12d2_glue]. Qed.

(* the carried-over minimum: nothing found in the first m+1 bytes of the line *)
Definition minv (P : list N -> bool) (line : list N) (m : N) : Prop :=
  m < lenN line /\ (m = 0 \/ P (firstnN (m + 1) line) = false).

Lemma firstnN_app_split {A} (l : list A) a b : a <= b -> firstnN b l = firstnN a l ++ firstnN (b - a) (skipnN a l).
Proof.
  intro H. unfold firstnN, skipnN. replace (N.to_nat b) with (N.to_nat a + N.to_nat (b - a))%nat by lia.
  generalize (N.to_nat a) (N.to_nat (b - a)). intros x y. revert l. induction x as [|x IH]; intro l; [reflexivity|].
  destruct l as [|z l]; cbn [plus firstn skipn app]; [rewrite firstn_nil; reflexivity|]. f_equal. apply IH.
Qed.

Lemma firstn1_skipn {A} (l : list A) k x : nth_error l k = Some x -> firstn 1 (skipn k l) = [x].
Proof.
  revert l. induction k as [|k IH]; intros l H; destruct l as [|y l]; try discriminate.
  - cbn in *. congruence.
  - cbn [skipn]. apply IH. exact H.
Qed.

(* the skip decision on the slice [0, se) of the line is right whenever the minimum is *)
Lemma skip_sound P line m se : local P -> minv P line m -> 0 < se -> se <= lenN line ->
  P (skipnN (N.min m se) (firstnN se line)) = false -> P (firstnN se line) = false.
Proof.
  intros (P0 & PP & PG) (ML & MI) S0 SL H.
  destruct (N.le_gt_cases se m) as [C|C].
  - (* the whole slice lies inside the proven prefix *)
    destruct MI as [->|MI]; [lia|].
    rewrite (firstnN_app_split line se (m + 1)) in MI by lia. apply PP in MI. exact MI.
  - rewrite N.min_l in H by lia.
    destruct MI as [->|MI]; [exact H|].
    (* glue over byte m *)
    assert (X : exists a x b, firstnN se line = a ++ x :: b /\ firstnN (m + 1) line = a ++ [x] /\
                              skipnN m (firstnN se line) = x :: b).
    { exists (firstnN m line).
      destruct (nthN_lt_Some line m ML) as (x & Hx). exists x.
      exists (firstnN (se - (m + 1)) (skipnN (m + 1) line)).
      assert (E1 : firstnN (m + 1) line = firstnN m line ++ [x]).
      { rewrite (firstnN_app_split line m (m + 1)) by lia. f_equal. replace (m + 1 - m) with 1 by lia.
        unfold firstnN, skipnN, nthN in *. change (N.to_nat 1) with 1%nat. apply firstn1_skipn. exact Hx. }
      assert (E2 : firstnN se line = firstnN (m + 1) line ++ firstnN (se - (m + 1)) (skipnN (m + 1) line)).
      { apply firstnN_app_split. lia. }
      split; [rewrite E2, E1, <- app_assoc; reflexivity|]. split; [exact E1|].
      rewrite E2, E1, <- app_assoc. cbn [app].
      replace m with (lenN (firstnN m line)) at 1 by (rewrite lenN_firstnN; lia).
      apply skipnN_app_len. }
    destruct X as (a & x & b & E1 & E2 & E3). rewrite E1. rewrite E3 in H. rewrite E2 in MI.
    apply PG; assumption.
Qed.

Section EzSound.
  Variable match_slice : N -> list N -> option Z.
  Variable info : N -> rowinfo.
  (* every row's slice starts at the first byte of the line (the carried-over minima are slice-relative) *)
  Hypothesis Hstart : forall r, ri_start (info r) = 0.
  (* what a match of a row contains: a '1' or '2' when the row has a four-digit year, two
     consecutive digits when it has a two-digit numeric field *)
  Hypothesis H12 : forall r s dt, ri_year4 (info r) = true -> match_slice r s = Some dt -> contains_12 s = true.
  Hypothesis Hd2 : forall r s dt, ri_d2 (info r) = true -> match_slice r s = Some dt -> contains_d2 s = true.

  Notation dbr := (dated_by_row_of match_slice info).

  Definition minvs (line : list N) (m : ezmin) : Prop :=
    minv contains_12 line (m12 m) /\ minv contains_d2 line (md2 m) /\ minv contains_12_d2 line (m12d2 m).

  Lemma minv_update P line m se : minv P line m -> 0 < se -> se <= lenN line -> P (firstnN se line) = false ->
    minv P line (if (0 =? 0) && (m <? se) then se - 1 else m).
  Proof.
    intros MI S0 SL H. cbn [N.eqb andb]. destruct (m <? se); [|exact MI].
    split; [lia|]. right. replace (se - 1 + 1) with se by lia. exact H.
  Qed.

  Lemma ezcheck_sound r line se m c : 0 < se -> se <= lenN line -> minvs line m ->
    let '(skip, m', c') := ezcheck_slice (info r) (firstnN se line) m c in
    minvs line m' /\ (skip = true -> match_slice r (firstnN se line) = None).
  Proof.
    intros S0 SL (M1 & M2 & M3).
    assert (LS : lenN (firstnN se line) = se) by (rewrite lenN_firstnN; lia).
    unfold ezcheck_slice. rewrite (Hstart r), LS.
    destruct (ri_year4 (info r)) eqn:Y4, (ri_d2 (info r)) eqn:D2.
    - (* EZCHECK12D2 *)
      destruct (contains_12_d2 (skipnN (N.min (m12d2 m) se) (firstnN se line))) eqn:X; cbn [negb].
      + split; [exact (conj M1 (conj M2 M3))|discriminate].
      + pose proof (skip_sound _ _ _ _ local_12d2 M3 S0 SL X) as F.
        split; [split; [exact M1|split; [exact M2|]]|].
        * cbn [m12d2]. apply minv_update; assumption.
        * intros _. destruct (match_slice r (firstnN se line)) as [dt|] eqn:MS; [|reflexivity].
          pose proof (H12 r _ dt Y4 MS) as C. apply (c12d2_of_12 _ false) in C.
          unfold contains_12_d2 in F. congruence.
    - (* EZCHECK12 *)
      destruct (contains_12 (skipnN (N.min (m12 m) se) (firstnN se line))) eqn:X; cbn [negb].
      + split; [exact (conj M1 (conj M2 M3))|discriminate].
      + pose proof (skip_sound _ _ _ _ local_12 M1 S0 SL X) as F.
        split; [split; [|split; [exact M2|exact M3]]|].
        * cbn [m12]. apply minv_update; assumption.
        * intros _. destruct (match_slice r (firstnN se line)) as [dt|] eqn:MS; [|reflexivity].
          pose proof (H12 r _ dt Y4 MS) as C. congruence.
    - (* EZCHECKD2 *)
      destruct (contains_d2 (skipnN (N.min (md2 m) se) (firstnN se line))) eqn:X; cbn [negb].
      + split; [exact (conj M1 (conj M2 M3))|discriminate].
      + pose proof (skip_sound _ _ _ _ local_d2 M2 S0 SL X) as F.
        split; [split; [exact M1|split; [|exact M3]]|].
        * cbn [md2]. apply minv_update; assumption.
        * intros _. destruct (match_slice r (firstnN se line)) as [dt|] eqn:MS; [|reflexivity].
          pose proof (Hd2 r _ dt D2 MS) as C. congruence.
    - split; [exact (conj M1 (conj M2 M3))|discriminate].
  Qed.

  Lemma slice0 {A} (l : list A) se : slice l 0 se = firstnN se l.
  Proof. unfold slice. rewrite skipnN_0, N.sub_0_r. reflexivity. Qed.

  Lemma fdl_loop_sound line : forall order m c, 0 < lenN line -> minvs line m ->
    fst (fdl_loop match_slice info order line m c) = find_dt dbr order line.
  Proof.
    induction order as [|r t IH]; intros m c L MI; [reflexivity|].
    cbn [fdl_loop find_dt]. unfold dated_by_row_of at 1. rewrite (Hstart r).
    destruct (N.leb_spec (lenN line) 0); [lia|].
    pose proof MI as ((A1 & _) & (A2 & _) & (A3 & _)).
    destruct (N.leb_spec (lenN line) (m12 m)); [lia|].
    destruct (N.leb_spec (lenN line) (md2 m)); [lia|].
    destruct (N.leb_spec (lenN line) (m12d2 m)); [lia|].
    cbv zeta.
    destruct (N.leb_spec (N.min (lenN line) (ri_end (info r))) 0) as [S0|S0]; [apply IH; assumption|].
    rewrite slice0.
    pose proof (ezcheck_sound r line (N.min (lenN line) (ri_end (info r))) m c S0 ltac:(lia) MI) as ES.
    destruct (ezcheck_slice (info r) (firstnN (N.min (lenN line) (ri_end (info r))) line) m c) as [[skip m'] c'].
    destruct ES as (MI' & SK). destruct skip.
    - rewrite (SK eq_refl). apply IH; assumption.
    - destruct (match_slice r _) as [dt|]; [reflexivity|]. apply IH; assumption.
  Qed.

  (* EZCHECK soundness: the pre-filters never change what find_datetime_in_line finds *)
  Theorem parse_ez_plain c line : parse_ez match_slice info c line = parse_plain dbr c line.
  Proof.
    unfold parse_ez, find_datetime_in_line, parse_plain.
    destruct (N.ltb_spec (lenN line) datetime_str_min) as [S|S]; [reflexivity|].
    assert (L : 0 < lenN line) by (unfold datetime_str_min in S; lia).
    apply fdl_loop_sound; [exact L|].
    repeat split; try exact L; left; reflexivity.
  Qed.
End EzSound.

(* gate2 depends on `parse` only through its values *)
Section Ext.
  Variables p1 p2 : counts -> list N -> option (Z * N).
  Hypothesis EXT : forall c l, p1 c l = p2 c l.

  Lemma parse_cached_ext f st b e1 : parse_cached p1 f st b e1 = parse_cached p2 f st b e1.
  Proof. unfold parse_cached. rewrite EXT. reflexivity. Qed.

  Lemma loop_b_ext fuel : forall bs f st fo sl, sib2_loop_b p1 fuel bs f st fo sl = sib2_loop_b p2 fuel bs f st fo sl.
  Proof.
    induction fuel as [|k IH]; intros; [reflexivity|]. cbn [sib2_loop_b].
    destruct (find_line_in_block_seq bs f fo); try reflexivity.
    rewrite parse_cached_ext. destruct (parse_cached p2 f st beg (e + 1)) as [st' [v|]]; [reflexivity|apply IH].
  Qed.

  Lemma loop_a_ext fuel : forall bs f st fo, sib2_loop_a p1 fuel bs f st fo = sib2_loop_a p2 fuel bs f st fo.
  Proof.
    induction fuel as [|k IH]; intros; [reflexivity|]. cbn [sib2_loop_a].
    destruct (find_line_in_block_seq bs f fo); try reflexivity; rewrite parse_cached_ext; [|reflexivity].
    destruct (parse_cached p2 f st beg (e + 1)) as [st' [v|]]; [|apply IH].
    rewrite loop_b_ext. reflexivity.
  Qed.

  Lemma bz2_ext fuel : forall bs f st fo found m, bz2_syslines p1 fuel bs f st fo found m = bz2_syslines p2 fuel bs f st fo found m.
  Proof.
    induction fuel as [|k IH]; intros; [reflexivity|]. cbn [bz2_syslines].
    destruct (_ && _); [|reflexivity]. rewrite loop_a_ext.
    destruct (sib2_loop_a p2 (S (length f)) bs f st fo) as [st' [x|[|]]]; [apply IH|reflexivity|reflexivity].
  Qed.

  Lemma gate2_ext rows bs f : gate2 p1 rows bs f = gate2 p2 rows bs f.
  Proof.
    unfold gate2. cbv zeta.
    destruct (lenN f =? 0); [reflexivity|].
    destruct (_ <? _); [reflexivity|].
    destruct (all_zero _); [reflexivity|].
    destruct (range_lookup line_min_map _) as [lmin|]; [|reflexivity].
    destruct (range_lookup sysline_min_map _) as [smin|]; [|reflexivity].
    destruct (_ <? lmin); [reflexivity|].
    rewrite bz2_ext.
    destruct (bz2_syslines p2 _ _ _ _ _ _ _) as [st1 found1].
    destruct (found1 =? 0); [reflexivity|].
    destruct (analysis _) as [c1|]; [|reflexivity].
    destruct (1 <? in_use _); [rewrite bz2_ext|]; reflexivity.
  Qed.
End Ext.

(* the analysis as coded (EZCHECK pre-filters on) = the analysis over the derived per-row oracle *)
Theorem gate_ez_rows match_slice info rows bs f :
  (forall r, ri_start (info r) = 0) ->
  (forall r s dt, ri_year4 (info r) = true -> match_slice r s = Some dt -> contains_12 s = true) ->
  (forall r s dt, ri_d2 (info r) = true -> match_slice r s = Some dt -> contains_d2 s = true) ->
  gate_ez match_slice info rows bs f = gate_rows (dated_by_row_of match_slice info) rows bs f.
Proof.
  intros H0 H12 Hd2. unfold gate_ez, gate_rows.
  rewrite (gate2_ext _ _ (parse_ez_plain match_slice info H0 H12 Hd2)). reflexivity.
Qed.
