(* Proofs/StrftimeRoundtrip.v — C13: what the prepended datetime field DENOTES.
   * one calendar: the civil-from-days / days-from-civil of Model/PrintCal.v (printing) are the
     functions of Model/Calendar.v (parsing, C04/C14), whose agreement with the definitional day
     count is proved in Proofs/CalendarProofs.v / CalendarExtra.v;
   * print then parse: the default field "%Y%m%dT%H%M%S%.3f%z" printed by Model/Strftime.v, read
     back by the model of process_dt (Model/CliDt.v, all 76 regenerated patterns in order), gives
     the instant truncated to the printed millisecond — for every instant whose local year is
     0000..9999 and every zone offset that is a whole number of minutes within a day;
   * refuted for offsets with seconds (chrono rounds %z to the nearest minute while the clock
     fields use the exact offset): default_roundtrip_refuted_offset_seconds (finding F18);
   * the generic theorem for every complete format of the supported specifiers is in
     Proofs/StrftimeGeneric.v. *)
From Coq Require Import ZArith Lia List Bool String.
From S4.Base Require Import Bytes.
From S4.Model Require Import Calendar PrintCal Strftime CliDt StrftimeParse Print.
From S4.Gen Require Import CliDtTables.
From S4.Spec Require Import CalendarSpec CliDtRef CliDtSpec.
From S4.Proofs Require Import CalendarProofs CalendarExtra CliDtAbsInfra CliDtAbsProofs CliDtMiscProofs.
Import ListNotations.
Open Scope Z_scope.
Ltac Zify.zify_post_hook ::= Z.div_mod_to_equations.

(* ------------------------------------------------------------------ one calendar, not two *)
Lemma printcal_civil_from_days_eq z : PrintCal.civil_from_days z = Calendar.civil_from_days z.
Proof. reflexivity. Qed.

Lemma printcal_days_from_civil_eq y m d :
  1 <= m <= 12 -> PrintCal.days_from_civil y m d = Calendar.days_from_civil y m d.
Proof.
  intros Hm. unfold PrintCal.days_from_civil, Calendar.days_from_civil.
  assert (E : (if m >? 2 then m - 3 else m + 9) = (m + 9) mod 12).
  { destruct (Z.gtb_spec m 2); lia. }
  rewrite E. reflexivity.
Qed.

Example printcal_days_from_civil_differs_outside :
  PrintCal.days_from_civil 2000 15 1 <> Calendar.days_from_civil 2000 15 1.
Proof. vm_compute. discriminate. Qed.

(* ------------------------------------------------------------------ civil_of *)
Lemma civil_of_spec t off :
  let c := civil_of t off in
  let secs := (t + off * 1000000000) / 1000000000 in
  valid_date (c_year c) (c_mon c) (c_day c) = true /\
  Calendar.days_from_civil (c_year c) (c_mon c) (c_day c) = secs / 86400 /\
  c_hour c * 3600 + c_min c * 60 + c_sec c = secs mod 86400 /\
  0 <= c_hour c <= 23 /\ 0 <= c_min c <= 59 /\ 0 <= c_sec c <= 59 /\
  c_nano c = (t + off * 1000000000) mod 1000000000.
Proof.
  cbv zeta. unfold civil_of. change PrintCal.NS with 1000000000.
  set (secs := (t + off * 1000000000) / 1000000000).
  pose proof (civil_from_days_right_inverse (secs / 86400)) as R.
  rewrite <- printcal_civil_from_days_eq in R.
  destruct (PrintCal.civil_from_days (secs / 86400)) as [[y m] d]. destruct R as [V E].
  cbn [c_year c_mon c_day c_hour c_min c_sec c_nano].
  repeat split; try assumption; try lia.
Qed.

Definition LOCAL_LO : Z := -62167219200.   (* 0000-01-01 00:00:00, seconds *)
Definition LOCAL_HI : Z := 253402300800.   (* 10000-01-01 00:00:00 *)

Lemma year_range z y m d :
  Calendar.civil_from_days z = (y, m, d) -> -719528 <= z < 2932897 -> 0 <= y <= 9999.
Proof.
  intros E Hz. pose proof (year_of_day z y m d E) as [A B].
  assert (S0 : ystart 0 = -719528) by (vm_compute; reflexivity).
  assert (S1 : ystart 10000 = 2932897) by (vm_compute; reflexivity).
  split.
  - destruct (Z_lt_le_dec y 0) as [L|L]; [|assumption].
    pose proof (ystart_mono (y + 1) 0 ltac:(lia)). lia.
  - destruct (Z_lt_le_dec 9999 y) as [L|L]; [|assumption].
    pose proof (ystart_mono 10000 y ltac:(lia)). lia.
Qed.

Lemma civil_of_year t off :
  LOCAL_LO * 1000000000 <= t + off * 1000000000 < LOCAL_HI * 1000000000 ->
  0 <= c_year (civil_of t off) <= 9999.
Proof.
  unfold LOCAL_LO, LOCAL_HI. intros H. unfold civil_of. change PrintCal.NS with 1000000000.
  set (secs := (t + off * 1000000000) / 1000000000).
  destruct (PrintCal.civil_from_days (secs / 86400)) as [[y m] d] eqn:E. cbn [c_year].
  rewrite printcal_civil_from_days_eq in E. eapply year_range; [exact E|]. subst secs. lia.
Qed.

Lemma to_N_48 v : 0 <= v -> Z.to_N (48 + v mod 10) = dg v.
Proof. intros. unfold dg. lia. Qed.

Lemma digits_n_2 v : 0 <= v -> digits_n 2 v = pad2 v.
Proof. intros. cbn [digits_n app]. unfold pad2. rewrite !to_N_48 by lia. reflexivity. Qed.
Lemma digits_n_3 v : 0 <= v -> digits_n 3 v = pad3 v.
Proof.
  intros. cbn [digits_n app]. unfold pad3. rewrite !Z.div_div by lia. rewrite !to_N_48 by lia. reflexivity.
Qed.
Lemma digits_n_4 v : 0 <= v -> digits_n 4 v = pad4 v.
Proof.
  intros. cbn [digits_n app]. unfold pad4. rewrite !Z.div_div by lia. rewrite !to_N_48 by lia. reflexivity.
Qed.

Lemma valid_date_month_len y m d : valid_date y m d = true -> 1 <= m <= 12 /\ 1 <= d <= month_len y m.
Proof. intros H. apply valid_date_inv in H. rewrite month_len_days_in_month. exact H. Qed.

(* the default datetime field, printed by the model and read back by the model of process_dt
   (all 76 regenerated patterns tried in order), whatever the --tz-offset zone: the instant
   truncated to the printed millisecond *)
Theorem default_roundtrip t off tz :
  off mod 60 = 0 -> -86400 < off < 86400 ->
  LOCAL_LO * 1000000000 <= t + off * 1000000000 < LOCAL_HI * 1000000000 ->
  exists s, strftime default_fmt t off = Some s /\
            m_resolve_abs (classify s) tz = Some (t / 1000000 * 1000000).
Proof.
  intros Hm Ho Hr.
  pose proof (civil_of_year t off Hr) as Hy.
  pose proof (civil_of_spec t off) as S. cbv zeta in S.
  set (c := civil_of t off) in *.
  destruct S as [V [Ed [Es [Hh [Hmi [Hs En]]]]]].
  destruct (valid_date_month_len _ _ _ V) as [Hmo Hd].
  set (a := Z.abs off / 60).
  eexists. split; [reflexivity|].
  unfold fmt_items. fold c. cbn [flat_map fmt_item app].
  assert (Hn : 0 <= c_nano c < 1000000000) by (rewrite En; lia).
  assert (Ha : (Z.abs off + 30) / 60 = a) by (unfold a; lia).
  assert (Hrender :
    fmt_year (c_year c) ++ digits_n 2 (c_mon c) ++ digits_n 2 (c_day c) ++ 84%N :: digits_n 2 (c_hour c)
      ++ digits_n 2 (c_min c) ++ digits_n 2 (c_sec c) ++ 46%N :: digits_n 3 (c_nano c / 1000000) ++ fmt_off false off ++ []
    = render (FDateTime LCompact (c_year c) (c_mon c) (c_day c) (c_hour c) (c_min c) (c_sec c)
                        (FMilli (c_nano c / 1000000)) (ZoneNum false ZPlain (off <? 0) (a / 60) (a mod 60)))).
  { unfold fmt_year, fmt_off. rewrite Ha.
    replace ((0 <=? c_year c) && (c_year c <=? 9999)) with true
      by (symmetry; apply andb_true_iff; split; apply Z.leb_le; lia).
    rewrite digits_n_4, !digits_n_2, digits_n_3 by lia.
    cbn [render render_datetime render_date render_frac render_zone app].
    rewrite <- !app_assoc. cbn [app]. destruct (off <? 0); reflexivity. }
  rewrite Hrender.
  rewrite abs_datetime_numeric_resolves.
  - unfold denote, denote_with, zone_secs, instant_with, frac_ns. f_equal.
    rewrite <- days_from_civil_spec by lia. rewrite Ed.
    assert (Eoff : (if off <? 0 then - (a / 60 * 3600 + a mod 60 * 60) else a / 60 * 3600 + a mod 60 * 60) = off).
    { unfold a. destruct (Z.ltb_spec off 0); lia. }
    rewrite Eoff. rewrite En. lia.
  - exact I.
  - cbn [form_ok frac_okb zone_okb zone_space_ok negb]. unfold date_okb, time_okb.
    unfold a. rewrite !andb_true_iff, !Z.leb_le. lia.
Qed.


Example default_roundtrip_hyps_satisfiable :
  (-12600) mod 60 = 0 /\ -86400 < -12600 < 86400
  /\ LOCAL_LO * 1000000000 <= 1704164645123456789 + (-12600) * 1000000000 < LOCAL_HI * 1000000000.
Proof. vm_compute. repeat split; congruence. Qed.

(* the exact range in terms of the instant alone: every instant of the years 0001..9998 (UTC),
   hence in particular 1970..2099, satisfies the hypothesis for every offset within a day *)
Lemma default_roundtrip_range t off :
  -86400 < off < 86400 ->
  -62135596800 * 1000000000 <= t < 253370764800 * 1000000000 ->
  LOCAL_LO * 1000000000 <= t + off * 1000000000 < LOCAL_HI * 1000000000.
Proof. unfold LOCAL_LO, LOCAL_HI. lia. Qed.

(* negative instants (before 1970) are printed and read back like any other *)
Example default_roundtrip_pre_1970 :
  strftime default_fmt (-1500000001) 19800 = Some (s2b "19700101T052958.499+0530")
  /\ m_resolve_abs (cs "19700101T052958.499+0530") 0 = Some (-1501000000)
  /\ (-1500000001) / 1000000 * 1000000 = -1501000000.
Proof. vm_compute. repeat split; reflexivity. Qed.

(* F18: in a zone whose UTC offset has seconds, %z is rounded to the nearest minute (half up) but
   the clock fields use the exact offset, so the printed field denotes another instant
   (reproduced: TZ=FOO-05:30:15 s4 --tz-offset=+00:00 -l prints 20240102T083420.123+0530 for
   2024-01-02T03:04:05.123Z; without --tz-offset the tool does not even start in such a zone) *)
Theorem default_roundtrip_refuted_offset_seconds :
  exists t off s v,
    -86400 < off < 86400 /\ strftime default_fmt t off = Some s /\
    m_resolve_abs (classify s) 0 = Some v /\ v <> t / 1000000 * 1000000 /\ v - t / 1000000 * 1000000 = 15 * 1000000000.
Proof.
  exists 1704164645123456789, 19815. eexists. eexists.
  split; [lia|]. split; [vm_compute; reflexivity|]. split; [vm_compute; reflexivity|]. split; [discriminate|reflexivity].
Qed.

Example offset_seconds_rounding :
  strftime default_fmt 1704164645123456789 19815 = Some (s2b "20240102T083420.123+0530")
  /\ strftime default_fmt 1704164645123456789 19845 = Some (s2b "20240102T083450.123+0531")
  /\ strftime default_fmt 1704164645123456789 (-29) = Some (s2b "20240102T030336.123-0000")
  /\ strftime default_fmt 1704164645123456789 (-30) = Some (s2b "20240102T030335.123-0001").
Proof. vm_compute. repeat split; reflexivity. Qed.

(* the date field is a function of the format, the zone offset and the instant only: two messages
   with the same instant get the same field whatever their text, kind or highlight range *)
Theorem date_field_depends_on_instant_and_zone o o' (m m' : msg) :
  o_fmt o = o_fmt o' -> o_off o = o_off o' -> m_t m = m_t m' ->
  date_field o (m_t m) = date_field o' (m_t m').
Proof. unfold date_field. intros -> -> ->. reflexivity. Qed.
