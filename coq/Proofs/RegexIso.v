(* Proofs/RegexIso.v — C04, regex stage: the universal theorem instantiated with NUMBERS for one notation.
   Row 79 of the regenerated table,
     ^YEAR[ /\-]?MONTH[ /\-]?DAY[ T\-:]?HOUR[:]?MINUTE[:]?SECOND([[:^digit:]]|$)      (slice 0..50)
   For every year 1970..2099, month, day of that month, hour, minute, second, every non-digit ASCII byte c
   after the seconds and every message text:
     bytes_to_regex_to_datetime (model) on  "YYYY-MM-DD HH:MM:SS" ++ c ++ message  =  the instant those
     numbers denote in the fallback zone (definitional day count).
   The per-item facts are finite enumerations over ONE field at a time (vm_compute on the regenerated plan);
   the items compose by Proofs/RegexSim.plan_search, the instant by C04_normalise_denotes. *)
From Coq Require Import Lia String.
From S4.Base Require Import Bytes.
From S4.Model Require Import Calendar Normalise Regex RegexPlan RegexDt.
From S4.Gen Require Import DatetimeTables RegexTables.
From S4.Spec Require Import CalendarSpec TzRef NormaliseSpec.
From S4.Proofs Require Import RegexProofs RegexSim RegexUniv NormaliseTablesOk NormaliseDenotes.
Close Scope string_scope.
Open Scope list_scope.
Open Scope N_scope.

Definition dummy_rx : rx_row := mkRx 0 REps 0 [] 0 0 0 0.
Definition iso_rx : rx_row := match nth_rx' 79 with Some r => r | None => dummy_rx end.
Definition iso_dr : option dt_row := nth_dt' 79.
Definition iso_plan : plan := Eval vm_compute in row_plan iso_rx.
Lemma iso_plan_eq : row_plan iso_rx = iso_plan.
Proof. vm_compute. reflexivity. Qed.
Definition isg (k : nat) : seg := nth k iso_plan [].
Lemma iso_plan_segs : iso_plan = [isg 0; isg 1; isg 2; isg 3; isg 4; isg 5; isg 6; isg 7; isg 8; isg 9; isg 10; isg 11; isg 12].
Proof. vm_compute. reflexivity. Qed.

Lemma iso_in : In iso_rx rx_table /\ rx_index iso_rx = 79 /\ rx_start iso_rx = 0 /\ rx_end iso_rx = 50.
Proof.
  assert (E : nth_rx' 79 = Some iso_rx) by (vm_compute; reflexivity).
  split; [apply (find_some _ _ E)|]. vm_compute. auto.
Qed.

(* ---- the rendering *)
Definition dec4 (y : N) : bytes := [48 + y / 1000; 48 + (y / 100) mod 10; 48 + (y / 10) mod 10; 48 + y mod 10].
Definition dd (n : N) : bytes := [48 + n / 10; 48 + n mod 10].
Definition iso_texts (y mo d h mi s c : N) : list bytes :=
  [[]; dec4 y; [45]; dd mo; [45]; dd d; [32]; dd h; [58]; dd mi; [58]; dd s; [c]].
Definition iso_head (y mo d h mi s : N) : bytes :=
  dec4 y ++ [45] ++ dd mo ++ [45] ++ dd d ++ [32] ++ dd h ++ [58] ++ dd mi ++ [58] ++ dd s.

(* ---- bounded quantification by enumeration *)
Definition rangeN (lo : N) (n : nat) : list N := map (fun k => lo + N.of_nat k) (seq 0 n).
Lemma rangeN_in lo n x : lo <= x -> x < lo + N.of_nat n -> In x (rangeN lo n).
Proof.
  intros H1 H2. unfold rangeN. apply in_map_iff. exists (N.to_nat (x - lo)). split; [lia|].
  apply in_seq. lia.
Qed.
Lemma forall_range (P : N -> bool) lo n : forallb P (rangeN lo n) = true ->
  forall x, lo <= x -> x < lo + N.of_nat n -> P x = true.
Proof. intros H x H1 H2. rewrite forallb_forall in H. apply H. apply rangeN_in; auto. Qed.

(* ---- [pick] looks at the following text only through its first byte *)
Lemma la_holds_head la b l x : la_holds la ((b :: l) ++ x) = la_holds la [b].
Proof. destruct la; reflexivity. Qed.
Lemma pick_head sg t b l x : pick sg t ((b :: l) ++ x) = pick sg t [b].
Proof.
  unfold pick. induction sg as [|a sg IH]; [reflexivity|].
  cbn [find]. unfold alt_fits at 1 3. rewrite la_holds_head.
  destruct (in_shape (a_shape a) t && la_holds (a_la a) [b]); auto.
Qed.
Definition fits (sg : seg) (t : bytes) (nxt : bytes) : bool :=
  match pick sg t nxt with Some _ => true | None => false end.

Lemma fits_cons sg t b x : fits sg t (b :: x) = fits sg t [b].
Proof. unfold fits. change (b :: x) with ((b :: []) ++ x). rewrite pick_head. reflexivity. Qed.
Lemma fits_next sg t b l x : fits sg t (b :: l) = true -> fits sg t (b :: x) = true.
Proof. rewrite (fits_cons sg t b l), (fits_cons sg t b x). auto. Qed.

Lemma texts_ok_cons sg p t ts rest :
  fits sg t (concat ts ++ rest) = true -> texts_ok p ts rest = true -> texts_ok (sg :: p) (t :: ts) rest = true.
Proof. unfold fits. intros H1 H2. simpl. destruct (pick sg t (concat ts ++ rest)); [exact H2|discriminate]. Qed.

(* ---- per-item facts (each a finite enumeration over one field and the first byte of the next item) *)
Definition nondigit_ascii (c : N) : bool := (c <? 128) && negb (in_posix P_digit c).

Lemma it0 : forall y, 1970 <= y -> y <= 2099 -> fits (isg 0) [] (dec4 y) = true.
Proof. intros y H1 H2. apply (forall_range (fun y => fits (isg 0) [] (dec4 y)) 1970 130); [vm_compute; reflexivity|lia|lia]. Qed.
Lemma it1 : forall y, 1970 <= y -> y <= 2099 -> fits (isg 1) (dec4 y) [45] = true.
Proof. intros y H1 H2. apply (forall_range (fun y => fits (isg 1) (dec4 y) [45]) 1970 130); [vm_compute; reflexivity|lia|lia]. Qed.
Lemma it2 : forall mo, 1 <= mo -> mo <= 12 -> fits (isg 2) [45] (dd mo) = true.
Proof. intros mo H1 H2. apply (forall_range (fun mo => fits (isg 2) [45] (dd mo)) 1 12); [vm_compute; reflexivity|lia|lia]. Qed.
Lemma it3 : forall mo, 1 <= mo -> mo <= 12 -> fits (isg 3) (dd mo) [45] = true.
Proof. intros mo H1 H2. apply (forall_range (fun mo => fits (isg 3) (dd mo) [45]) 1 12); [vm_compute; reflexivity|lia|lia]. Qed.
Lemma it4 : forall d, 1 <= d -> d <= 31 -> fits (isg 4) [45] (dd d) = true.
Proof. intros d H1 H2. apply (forall_range (fun d => fits (isg 4) [45] (dd d)) 1 31); [vm_compute; reflexivity|lia|lia]. Qed.
Lemma it5 : forall d, 1 <= d -> d <= 31 -> fits (isg 5) (dd d) [32] = true.
Proof. intros d H1 H2. apply (forall_range (fun d => fits (isg 5) (dd d) [32]) 1 31); [vm_compute; reflexivity|lia|lia]. Qed.
Lemma it6 : forall h, h <= 23 -> fits (isg 6) [32] (dd h) = true.
Proof. intros h H2. apply (forall_range (fun h => fits (isg 6) [32] (dd h)) 0 24); [vm_compute; reflexivity|lia|lia]. Qed.
Lemma it7 : forall h, h <= 23 -> fits (isg 7) (dd h) [58] = true.
Proof. intros h H2. apply (forall_range (fun h => fits (isg 7) (dd h) [58]) 0 24); [vm_compute; reflexivity|lia|lia]. Qed.
Lemma it8 : forall mi, mi <= 59 -> fits (isg 8) [58] (dd mi) = true.
Proof. intros mi H2. apply (forall_range (fun mi => fits (isg 8) [58] (dd mi)) 0 60); [vm_compute; reflexivity|lia|lia]. Qed.
Lemma it9 : forall mi, mi <= 59 -> fits (isg 9) (dd mi) [58] = true.
Proof. intros mi H2. apply (forall_range (fun mi => fits (isg 9) (dd mi) [58]) 0 60); [vm_compute; reflexivity|lia|lia]. Qed.
Lemma it10 : forall s, s <= 59 -> fits (isg 10) [58] (dd s) = true.
Proof. intros s H2. apply (forall_range (fun s => fits (isg 10) [58] (dd s)) 0 60); [vm_compute; reflexivity|lia|lia]. Qed.
(* seconds, followed by any non-digit ASCII byte *)
Lemma it11 : forall s c, s <= 59 -> nondigit_ascii c = true -> fits (isg 11) (dd s) [c] = true.
Proof.
  intros s c H2 Hc.
  assert (Hc' : c < 128). { unfold nondigit_ascii in Hc. apply andb_true_iff in Hc as [A _]. apply N.ltb_lt in A. exact A. }
  pose proof (forall_range (fun s => forallb (fun c => negb (nondigit_ascii c) || fits (isg 11) (dd s) [c]) (rangeN 0 128)) 0 60
                           ltac:(vm_compute; reflexivity) s ltac:(lia) ltac:(lia)) as H.
  cbv beta in H. pose proof (forall_range _ 0 128 H c ltac:(lia) ltac:(lia)) as H'.
  cbv beta in H'. rewrite Hc in H'. exact H'.
Qed.
(* the last item takes the non-digit byte and never looks further *)
Lemma it12 : forall c rest, nondigit_ascii c = true -> fits (isg 12) [c] rest = true.
Proof.
  intros c rest Hc.
  assert (Hc' : c < 128). { unfold nondigit_ascii in Hc. apply andb_true_iff in Hc as [A _]. apply N.ltb_lt in A. exact A. }
  assert (H : match isg 12 with
              | a :: _ => look_eqb (a_la a) LAny &&
                          forallb (fun c => negb (nondigit_ascii c) || in_shape (a_shape a) [c]) (rangeN 0 128)
              | [] => false end = true) by (vm_compute; reflexivity).
  destruct (isg 12) as [|a sg]; [discriminate|]. apply andb_true_iff in H as [Hl Hs].
  pose proof (forall_range _ 0 128 Hs c ltac:(lia) ltac:(lia)) as Hin. cbv beta in Hin. rewrite Hc in Hin. simpl in Hin.
  unfold fits, pick. cbn [find]. unfold alt_fits. rewrite Hin.
  destruct (a_la a); try discriminate Hl. reflexivity.
Qed.

Lemma iso_texts_ok y mo d h mi s c rest :
  1970 <= y -> y <= 2099 -> 1 <= mo -> mo <= 12 -> 1 <= d -> d <= 31 -> h <= 23 -> mi <= 59 -> s <= 59 ->
  nondigit_ascii c = true ->
  texts_ok iso_plan (iso_texts y mo d h mi s c) rest = true.
Proof.
  intros. rewrite iso_plan_segs. unfold iso_texts.
  apply texts_ok_cons. { cbn [concat app dec4 dd]. eapply fits_next. apply it0; auto. }
  apply texts_ok_cons. { cbn [concat app dec4 dd]. eapply fits_next. apply it1; auto. }
  apply texts_ok_cons. { cbn [concat app dec4 dd]. eapply fits_next. apply it2; auto. }
  apply texts_ok_cons. { cbn [concat app dec4 dd]. eapply fits_next. apply it3; auto. }
  apply texts_ok_cons. { cbn [concat app dec4 dd]. eapply fits_next. apply it4; auto. }
  apply texts_ok_cons. { cbn [concat app dec4 dd]. eapply fits_next. apply it5; auto. }
  apply texts_ok_cons. { cbn [concat app dec4 dd]. eapply fits_next. apply it6; auto. }
  apply texts_ok_cons. { cbn [concat app dec4 dd]. eapply fits_next. apply it7; auto. }
  apply texts_ok_cons. { cbn [concat app dec4 dd]. eapply fits_next. apply it8; auto. }
  apply texts_ok_cons. { cbn [concat app dec4 dd]. eapply fits_next. apply it9; auto. }
  apply texts_ok_cons. { cbn [concat app dec4 dd]. eapply fits_next. apply it10; auto. }
  apply texts_ok_cons. { cbn [concat app dec4 dd]. eapply fits_next. apply it11; auto. }
  apply texts_ok_cons. { cbn [concat app]. apply it12; auto. }
  reflexivity.
Qed.

(* ---- the slice of the line *)
Lemma iso_concat y mo d h mi s c : concat (iso_texts y mo d h mi s c) = iso_head y mo d h mi s ++ [c].
Proof. reflexivity. Qed.
Lemma iso_head_len y mo d h mi s : length (iso_head y mo d h mi s) = 19%nat.
Proof. reflexivity. Qed.

Lemma firstn_all_le {X} (l : list X) n : (length l <= n)%nat -> firstn n l = l.
Proof. revert n; induction l; intros [|n] H; simpl in *; auto; try lia. f_equal. apply IHl. lia. Qed.

Lemma iso_slice y mo d h mi s c msg :
  slice_of iso_rx ((concat (iso_texts y mo d h mi s c) ++ firstn 30 msg) ++ skipn 30 msg)
  = Some (concat (iso_texts y mo d h mi s c) ++ firstn 30 msg).
Proof.
  destruct iso_in as (_ & _ & Hs & He). unfold slice_of. rewrite Hs, He.
  assert (La : length (concat (iso_texts y mo d h mi s c)) = 20%nat) by reflexivity.
  remember (concat (iso_texts y mo d h mi s c)) as a eqn:Ea. clear Ea.
  rewrite <- app_assoc, firstn_skipn.
  assert (Ll : length (a ++ msg) = (20 + length msg)%nat) by (rewrite app_length, La; reflexivity).
  rewrite Ll.
  destruct (N.of_nat (20 + length msg) <=? 0) eqn:E0; [apply N.leb_le in E0; lia|].
  destruct (N.min (N.of_nat (20 + length msg)) 50 <=? 0) eqn:E1; [apply N.leb_le in E1; lia|].
  rewrite N.sub_0_r. change (N.to_nat 0) with 0%nat. cbn [skipn]. f_equal.
  rewrite firstn_app, La.
  destruct (Nat.le_gt_cases (length msg) 30) as [Hm|Hm].
  - replace (N.to_nat (N.min (N.of_nat (20 + length msg)) 50)) with (20 + length msg)%nat by lia.
    rewrite (firstn_all_le a) by lia. f_equal.
    replace (20 + length msg - 20)%nat with (length msg) by lia.
    rewrite firstn_all, firstn_all_le; auto.
  - replace (N.to_nat (N.min (N.of_nat (20 + length msg)) 50)) with 50%nat by lia.
    rewrite (firstn_all_le a) by lia. reflexivity.
Qed.

(* ---- which items carry the named groups *)
Definition pf_idx (row : rx_row) (p : plan) (f : N) : option (option nat) :=
  match assocN f (rx_names row) with
  | None => Some None
  | Some g => match group_seg p g with
              | Some j => Some (Some j)
              | None => if group_never p g then Some None else None
              end
  end.
Lemma plan_field_idx row p texts f :
  plan_field row p texts f = match pf_idx row p f with
                             | Some (Some j) => Some (Some (nth j texts []))
                             | Some None => Some None
                             | None => None end.
Proof.
  unfold plan_field, pf_idx. destruct (assocN f (rx_names row)); auto.
  destruct (group_seg p n); auto. destruct (group_never p n); auto.
Qed.
Lemma iso_idx0 : pf_idx iso_rx iso_plan 0 = Some (Some 1%nat). Proof. vm_compute. reflexivity. Qed.
Lemma iso_idx1 : pf_idx iso_rx iso_plan 1 = Some (Some 3%nat). Proof. vm_compute. reflexivity. Qed.
Lemma iso_idx2 : pf_idx iso_rx iso_plan 2 = Some (Some 5%nat). Proof. vm_compute. reflexivity. Qed.
Lemma iso_idx3 : pf_idx iso_rx iso_plan 3 = Some (Some 7%nat). Proof. vm_compute. reflexivity. Qed.
Lemma iso_idx4 : pf_idx iso_rx iso_plan 4 = Some (Some 9%nat). Proof. vm_compute. reflexivity. Qed.
Lemma iso_idx5 : pf_idx iso_rx iso_plan 5 = Some (Some 11%nat). Proof. vm_compute. reflexivity. Qed.
Lemma iso_idx6 : pf_idx iso_rx iso_plan 6 = Some None. Proof. vm_compute. reflexivity. Qed.
Lemma iso_idx7 : pf_idx iso_rx iso_plan 7 = Some None. Proof. vm_compute. reflexivity. Qed.
Lemma iso_idx8 : pf_idx iso_rx iso_plan 8 = Some None. Proof. vm_compute. reflexivity. Qed.

Lemma iso_caps y mo d h mi s c :
  plan_caps iso_rx iso_plan (iso_texts y mo d h mi s c) =
  mkCaps (Some (dec4 y)) (Some (dd mo)) (Some (dd d)) (Some (dd h)) (Some (dd mi)) (Some (dd s)) None None None.
Proof.
  unfold plan_caps. rewrite !plan_field_idx.
  rewrite iso_idx0, iso_idx1, iso_idx2, iso_idx3, iso_idx4, iso_idx5, iso_idx6, iso_idx7, iso_idx8.
  reflexivity.
Qed.

(* ---- what the texts denote *)
Definition dummy_dtfs : dtfs := mkDtfs Y_none Mo_none D_none H_none Mi_none S_none F_none Tz_none E_none "".
Definition iso_d : dtfs := Eval vm_compute in (match nth_dt' 79 with Some r => r_dtfs r | None => dummy_dtfs end).
Lemma iso_dr_ok : exists dr, In dr dt_table /\ r_index dr = 79 /\ r_dtfs dr = iso_d.
Proof.
  destruct (nth_dt' 79) as [dr|] eqn:E; [|vm_compute in E; discriminate].
  exists dr. split; [apply (find_some _ _ E)|]. vm_compute in E. inversion E. split; reflexivity.
Qed.

Lemma dig4 y : 1970 <= y -> y <= 2099 -> digits_n 4 (dec4 y) = Some (Z.of_N y).
Proof.
  intros H1 H2.
  pose proof (forall_range (fun y => match digits_n 4 (dec4 y) with Some v => (v =? Z.of_N y)%Z | None => false end) 1970 130
                           ltac:(vm_compute; reflexivity) y ltac:(lia) ltac:(lia)) as H.
  cbv beta in H. destruct (digits_n 4 (dec4 y)); [|discriminate]. apply Z.eqb_eq in H. subst; reflexivity.
Qed.
Lemma dig2 n : n <= 99 -> digits_n 2 (dd n) = Some (Z.of_N n).
Proof.
  intros H2.
  pose proof (forall_range (fun n => match digits_n 2 (dd n) with Some v => (v =? Z.of_N n)%Z | None => false end) 0 100
                           ltac:(vm_compute; reflexivity) n ltac:(lia) ltac:(lia)) as H.
  cbv beta in H. destruct (digits_n 2 (dd n)); [|discriminate]. apply Z.eqb_eq in H. subst; reflexivity.
Qed.
Definition day_read (t : bytes) : option Z :=
  match t with
  | [a; x] => if a =? 32 then digits_n 1 [x] else digits_1_2 t
  | _ => digits_1_2 t
  end.
Lemma digday n : n <= 99 -> day_read (dd n) = Some (Z.of_N n).
Proof.
  intros H2.
  pose proof (forall_range (fun n => match day_read (dd n) with Some v => (v =? Z.of_N n)%Z | None => false end) 0 100
                           ltac:(vm_compute; reflexivity) n ltac:(lia) ltac:(lia)) as H.
  cbv beta in H. destruct (day_read (dd n)); [|discriminate]. apply Z.eqb_eq in H. subst; reflexivity.
Qed.

Definition iso_valid (y mo d h mi s : Z) : bool :=
  ((0 <=? y) && (1 <=? mo) && (mo <=? 12) && (1 <=? d) && (d <=? month_len y mo)
   && (h <=? 23) && (mi <=? 59) && (s <=? 59))%Z.

Lemma iso_denoted y mo d h mi s yo off :
  1970 <= y -> y <= 2099 -> mo <= 99 -> d <= 99 -> h <= 99 -> mi <= 99 -> s <= 99 ->
  iso_valid (Z.of_N y) (Z.of_N mo) (Z.of_N d) (Z.of_N h) (Z.of_N mi) (Z.of_N s) = true ->
  denoted_instant iso_d
    (mkCaps (Some (dec4 y)) (Some (dd mo)) (Some (dd d)) (Some (dd h)) (Some (dd mi)) (Some (dd s)) None None None) yo off
  = Some (spec_instant (Z.of_N y) (Z.of_N mo) (Z.of_N d) (Z.of_N h) (Z.of_N mi) (Z.of_N s) 0 off).
Proof.
  intros. unfold denoted_instant, iso_d. cbn [f_epoch]. unfold denoted_civil.
  unfold rd_year, rd_month, rd_hour, rd_minute, rd_second, rd_frac, rd_off.
  cbn [f_year f_month f_day f_hour f_minute f_second f_frac f_tz c_year c_month c_day c_hour c_minute c_second c_frac c_tz].
  rewrite dig4 by assumption. rewrite !dig2 by assumption.
  assert (Hd : rd_day (mkDtfs Y_Y Mo_m D_ed H_H Mi_M S_S F_none Tz_fill E_none "%Y%m%dT%H%M%S%:z")
                      (mkCaps (Some (dec4 y)) (Some (dd mo)) (Some (dd d)) (Some (dd h)) (Some (dd mi)) (Some (dd s)) None None None)
               = Some (Z.of_N d)).
  { pose proof (digday d ltac:(assumption)) as E. unfold day_read, dd in E. unfold rd_day, dd. cbn [f_day c_day]. exact E. }
  rewrite Hd. cbn [obind'].
  unfold iso_valid in *. match goal with H : _ = true |- _ => rewrite H end. reflexivity.
Qed.

Lemma month_len_le y m : (month_len y m <= 31)%Z.
Proof.
  unfold month_len.
  destruct m as [|p|p]; try lia.
  do 4 (try destruct p as [p|p|]; try lia); destruct (leap y); lia.
Qed.

(* THE NUMBER-LEVEL THEOREM for row 79:  "YYYY-MM-DD HH:MM:SS" ++ one non-digit ++ any message *)
Theorem iso_row_denotes y mo d h mi s c msg yo off :
  1970 <= y -> y <= 2099 ->
  iso_valid (Z.of_N y) (Z.of_N mo) (Z.of_N d) (Z.of_N h) (Z.of_N mi) (Z.of_N s) = true ->
  nondigit_ascii c = true -> fallback_ok off = true ->
  option_map (fun x => fst (fst x))
             (dated_model month_table tz_table iso_rx iso_d ((iso_head y mo d h mi s ++ [c]) ++ msg) yo off)
  = Some (spec_instant (Z.of_N y) (Z.of_N mo) (Z.of_N d) (Z.of_N h) (Z.of_N mi) (Z.of_N s) 0 off).
Proof.
  intros Hy1 Hy2 Hv Hc Hf.
  assert (Hv' := Hv). unfold iso_valid in Hv'. repeat (apply andb_true_iff in Hv' as [Hv' ?]).
  repeat match goal with H : (_ <=? _)%Z = true |- _ => apply Z.leb_le in H end.
  pose proof (month_len_le (Z.of_N y) (Z.of_N mo)).
  destruct iso_in as (Hin & Hidx & _ & _).
  destruct iso_dr_ok as (dr & Hdr & Hdi & Hdd).
  rewrite <- (firstn_skipn 30 msg), app_assoc, <- iso_concat, <- Hdd.
  apply (covered_dated_denotes iso_rx dr (iso_texts y mo d h mi s c) (firstn 30 msg) (skipn 30 msg) yo off); auto.
  - rewrite Hidx. vm_compute. intros [H'|[H'|[H'|[H'|[H'|[]]]]]]; discriminate.
  - rewrite Hdd. reflexivity.
  - apply iso_slice.
  - rewrite iso_plan_eq. apply iso_texts_ok; auto; lia.
  - rewrite iso_plan_eq, iso_caps, Hdd. apply iso_denoted; auto; lia.
Qed.

(* the hypotheses are satisfiable: 2024-02-29 23:59:59, followed by " up" *)
Example iso_row_example :
  iso_valid 2024 2 29 23 59 59 = true /\ nondigit_ascii 32 = true /\ fallback_ok (-12600) = true /\
  option_map (fun x => fst (fst x))
             (dated_model month_table tz_table iso_rx iso_d (s2b "2024-02-29 23:59:59 up 3 days") None (-12600))
  = Some 1709263799000000000%Z.
Proof. vm_compute. auto. Qed.

(* ------------------------------------------------------------------ pattern competition
   Block-zero analysis keeps, for a file, the row with the highest number of dated lines and, among equals,
   the EARLIEST index.  The universal theorem gives a covered row the full count on its own renderings;
   the tempting complement "no earlier row dates all of them with a different instant" is FALSE of the
   current table, already inside the family proved above:
     "2024-02-29 23:59:59.5 x"  is  iso_head ++ "." ++ "5 x"  (row 79 reads 23:59:59),
   and the earlier row 74 (same notation + fraction) dates it 0.5 s later.  Here the earlier row is the MORE
   specific one (it reads more of what is written); the harmful direction — an earlier LESS specific row —
   is what the known findings F13 (notation split between rows), F14 and F16 (rows 168-170 claimed by the
   year-less row 154) exhibit on the real binary.  No universal non-competition theorem is claimed. *)
Definition dated_by (i : N) (line : bytes) (yo : option Z) (off : Z) : option Z :=
  match nth_rx' i, nth_dt' i with
  | Some row, Some dr => option_map (fun x => fst (fst x)) (dated_model month_table tz_table row (r_dtfs dr) line yo off)
  | _, _ => None
  end.
Theorem competition_refuted :
  exists (r' r : N) (line : bytes),
    r' < r /\ r = 79 /\
    line = (iso_head 2024 2 29 23 59 59 ++ [46]) ++ s2b "5 x" /\ nondigit_ascii 46 = true /\
    dated_by r line None 0 = Some 1709251199000000000%Z /\
    dated_by r' line None 0 = Some 1709251199500000000%Z.
Proof. exists 74, 79, (s2b "2024-02-29 23:59:59.5 x"). vm_compute. repeat split; reflexivity. Qed.

(* hypotheses of plan_search / first_way are satisfiable *)
Example plan_search_example :
  chain_ok OAbs (rx_re iso_rx) iso_plan = true /\
  texts_ok iso_plan (iso_texts 2024 2 29 23 59 59 32) (s2b "up") = true /\
  search (rx_re iso_rx) (concat (iso_texts 2024 2 29 23 59 59 32) ++ s2b "up") =
    Match (0, mkC 20 (s2b "up") (final_caps iso_plan (iso_texts 2024 2 29 23 59 59 32) (s2b "up") 0)).
Proof. vm_compute. repeat split; reflexivity. Qed.

Example first_way_example :
  let r := RRep 1 None true (RClass false (mkCls false [CPosix false P_digit])) in
  let s := mkC 0 (s2b "2024-") [] in
  let s1 := mkC 4 (s2b "-") [] in
  let k := fun s' : cst => cm cst 6 (RBytes [45]) s' accept in
  cm cst 6 r s accept = Match s1 /\ k s1 <> NoMatch /\ cm cst 6 r s k = k s1.
Proof. vm_compute. repeat split; try reflexivity. discriminate. Qed.
