(* Proofs/CachesProofs.v — the reader caches are a refinement of the pure searches.

   Part 1  association lists, LRU lists
   Part 2  spans (spec lines by offset), the two halves of the pure search
   Part 3  LineReader: invariant lr_inv, every cached operation preserves it, every answer is
           the spec line
   (Part 4 onwards: Proofs/CachesSysProofs.v) *)
From S4.Base Require Import Bytes Chunk.
From S4.Spec Require Import LinesSpec.
From S4.Model Require Import Lines Syslines Caches.
From S4.Proofs Require Import LinesProofs.
Open Scope N_scope.

(* ================================================================ Part 1: maps *)

Section MapLemmas.
  Context {V : Type}.
  Implicit Types m c : list (N * V).

  Lemma alookup_In k m v : alookup k m = Some v -> In (k, v) m.
  Proof.
    induction m as [|[k' v'] m IH]; cbn; [discriminate|].
    destruct (N.eqb_spec k k'); intro H.
    - inversion H; subst. left; reflexivity.
    - right; auto.
  Qed.

  Lemma alookup_aremove j k m : alookup j (aremove k m) = if j =? k then None else alookup j m.
  Proof.
    induction m as [|[k' v'] m IH]; cbn; [destruct (j =? k); reflexivity|].
    destruct (N.eqb_spec k k') as [E|E].
    - subst k'. rewrite IH. destruct (N.eqb_spec j k); reflexivity.
    - cbn. rewrite IH. destruct (N.eqb_spec j k'); [|reflexivity].
      subst j. destruct (N.eqb_spec k' k); [congruence|reflexivity].
  Qed.

  Lemma alookup_aremove_Some j k m v : alookup j (aremove k m) = Some v -> alookup j m = Some v.
  Proof. rewrite alookup_aremove. destruct (j =? k); [discriminate|auto]. Qed.

  Lemma alookup_ainsert j k v m : alookup j (ainsert k v m) = if j =? k then Some v else alookup j m.
  Proof.
    induction m as [|[k' v'] m IH]; cbn.
    - destruct (j =? k); reflexivity.
    - destruct (N.ltb_spec k k') as [L|L].
      + cbn. destruct (N.eqb_spec j k); reflexivity.
      + destruct (N.eqb_spec k k') as [E|E].
        * subst k'. cbn. destruct (N.eqb_spec j k); reflexivity.
        * cbn. rewrite IH. destruct (N.eqb_spec j k'); [|reflexivity].
          subst j. destruct (N.eqb_spec k' k); [congruence|reflexivity].
  Qed.

  Lemma In_ainsert x k v m : In x (ainsert k v m) -> x = (k, v) \/ In x m.
  Proof.
    induction m as [|[k' v'] m IH]; cbn.
    - intros [H|[]]; auto.
    - destruct (k <? k').
      + cbn. intros [H|[H|H]]; auto.
      + destruct (k =? k'); cbn.
        * intros [H|H]; auto.
        * intros [H|H]; auto. destruct (IH H); auto.
  Qed.

  Lemma In_ainsert_new k v m : In (k, v) (ainsert k v m).
  Proof.
    induction m as [|[k' v'] m IH]; cbn; [auto|].
    destruct (k <? k'); [left; reflexivity|].
    destruct (k =? k'); [left; reflexivity|right; exact IH].
  Qed.

  Lemma In_ainsert_old k v k' v' m : In (k', v') m -> k' <> k -> In (k', v') (ainsert k v m).
  Proof.
    induction m as [|[k2 v2] m IH]; cbn; [tauto|].
    intros H NE. destruct (k <? k2); [right; exact H|].
    destruct (N.eqb_spec k k2) as [E|E].
    - destruct H as [H|H]; [inversion H; subst; congruence|right; exact H].
    - destruct H as [H|H]; [left; exact H|right; auto].
  Qed.

  Lemma In_aremove x k m : In x (aremove k m) -> In x m.
  Proof.
    induction m as [|[k' v'] m IH]; cbn; [tauto|].
    destruct (k =? k'); cbn; [auto|]. intros [H|H]; auto.
  Qed.

  Lemma afirst_ge_spec k m e v : afirst_ge k m = Some (e, v) ->
    k <= e /\ In (e, v) m /\ forall e' v', In (e', v') m -> k <= e' -> e <= e'.
  Proof.
    revert e v. induction m as [|[k' v'] m IH]; intros e v; cbn; [discriminate|].
    destruct (afirst_ge k m) as [[k2 v2]|] eqn:R.
    - destruct (IH k2 v2 eq_refl) as (A & B & C).
      destruct (N.leb_spec k k') as [L1|L1]; cbn [andb].
      + destruct (N.ltb_spec k' k2) as [L2|L2]; intro H; inversion H; subst.
        * split; [exact L1|]. split; [left; reflexivity|].
          intros e' v'' [I|I] K; [inversion I; subst; lia|]. specialize (C _ _ I K). lia.
        * split; [exact A|]. split; [right; exact B|].
          intros e' v'' [I|I] K; [inversion I; subst; lia|]. exact (C _ _ I K).
      + intro H; inversion H; subst. split; [exact A|]. split; [right; exact B|].
        intros e' v'' [I|I] K; [inversion I; subst; lia|]. exact (C _ _ I K).
    - destruct (N.leb_spec k k') as [L1|L1]; intro H; inversion H; subst.
      split; [exact L1|]. split; [left; reflexivity|].
      intros e' v'' [I|I] K; [inversion I; subst; lia|].
      exfalso. clear - R I K. induction m as [|[a b] m IH]; [destruct I|].
      cbn in R. destruct (afirst_ge k m) as [[? ?]|] eqn:R2.
      + destruct ((k <=? a) && (a <? n)); discriminate.
      + destruct (N.leb_spec k a); [discriminate|].
        destruct I as [I|I]; [inversion I; subst; lia|]. apply IH; auto.
  Qed.

  Lemma afirst_ge_None k m : afirst_ge k m = None -> forall e v, In (e, v) m -> e < k.
  Proof.
    induction m as [|[a b] m IH]; intros R e v I; [destruct I|].
    cbn in R. destruct (afirst_ge k m) as [[? ?]|] eqn:R2.
    - destruct ((k <=? a) && (a <? n)); discriminate.
    - destruct (N.leb_spec k a); [discriminate|].
      destruct I as [I|I]; [inversion I; subst; lia|]. eapply IH; eauto.
  Qed.

  (* LRU lists *)
  Lemma alookup_firstn n j m v : alookup j (firstn n m) = Some v -> alookup j m = Some v.
  Proof.
    revert m; induction n as [|n IH]; intros [|[k' v'] m]; cbn; try discriminate.
    destruct (j =? k'); auto.
  Qed.

  Lemma lru_get_Some k c v c' : lru_get k c = (Some v, c') ->
    alookup k c = Some v /\ forall j w, alookup j c' = Some w -> alookup j c = Some w.
  Proof.
    unfold lru_get. destruct (alookup k c) as [x|] eqn:E; [|discriminate].
    intro H; inversion H; subst. split; [reflexivity|].
    intros j w. cbn. destruct (N.eqb_spec j k).
    - intro X; inversion X; subst. exact E.
    - apply alookup_aremove_Some.
  Qed.

  Lemma lru_get_None k c c' : lru_get k c = (None, c') -> alookup k c = None /\ c' = c.
  Proof.
    unfold lru_get. destruct (alookup k c); [discriminate|]. intro H; inversion H; auto.
  Qed.

  Lemma lru_put_lookup cap k v c j w : alookup j (lru_put cap k v c) = Some w ->
    (j = k /\ w = v) \/ (j <> k /\ alookup j c = Some w).
  Proof.
    unfold lru_put. intro H. apply alookup_firstn in H. cbn in H.
    destruct (N.eqb_spec j k).
    - inversion H; auto.
    - right. split; [assumption|]. eapply alookup_aremove_Some; eauto.
  Qed.

  Lemma lru_pop_lookup k c j w : alookup j (lru_pop k c) = Some w -> alookup j c = Some w.
  Proof. apply alookup_aremove_Some. Qed.
End MapLemmas.

(* ================================================================ Part 2: spans *)

(* b .. e is a spec line of f *)
Definition span (f : file) (b e : N) : Prop :=
  b <= e /\ e < lenN f /\ noNL f b e /\ (nthN f e = Some NL \/ e = lenN f - 1) /\
  (b = 0 \/ nthN f (b - 1) = Some NL).

Lemma span_in (f : file) b e x : span f b e -> b <= x -> x <= e -> line_beg f x = b /\ line_end f x = e.
Proof.
  intros (A & B & C & D & E) L1 L2. split.
  - apply line_beg_char; [lia|]. unfold is_beg. repeat split; [exact L1| |exact E].
    intros k K1 K2. apply C; lia.
  - apply line_end_char. unfold is_end. repeat split; [exact L2|exact B| |exact D].
    intros k K1 K2. apply C; lia.
Qed.

Lemma line_end_is_end (f : file) fo : fo < lenN f -> is_end f fo (line_end f fo).
Proof.
  intro L. unfold line_end. destruct (find_nl (skipnN fo f)) as [d|] eqn:FN.
  - apply find_nl_Some in FN as [A B]. rewrite nthN_skipnN in A.
    unfold is_end. repeat split; [lia|eapply nthN_Some_lt; eauto| |left; exact A].
    intros k K1 K2. specialize (B (k - fo) ltac:(lia)). rewrite nthN_skipnN in B.
    replace (fo + (k - fo)) with k in B by lia. exact B.
  - unfold is_end. repeat split; [lia|lia| |right; reflexivity].
    intros k K1 K2. pose proof (find_nl_None _ FN (k - fo)) as B. rewrite nthN_skipnN in B.
    replace (fo + (k - fo)) with k in B by lia. exact B.
Qed.

Lemma line_beg_is_beg (f : file) fo : fo <= lenN f -> is_beg f fo (line_beg f fo).
Proof.
  intro L. unfold line_beg. destruct (rfind_nl (firstnN fo f)) as [i|] eqn:RF.
  - apply rfind_nl_Some in RF as [A B].
    assert (I : i < fo). { apply nthN_Some_lt in A. rewrite lenN_firstnN in A. lia. }
    rewrite nthN_firstnN in A. destruct (N.ltb_spec i fo); [|lia].
    unfold is_beg. repeat split; [lia| |right; replace (i + 1 - 1) with i by lia; exact A].
    intros k K1 K2. specialize (B k ltac:(lia)). rewrite nthN_firstnN in B.
    destruct (N.ltb_spec k fo); [exact B|lia].
  - unfold is_beg. repeat split; [lia| |left; reflexivity].
    intros k K1 K2. pose proof (rfind_nl_None _ RF k) as B. rewrite nthN_firstnN in B.
    destruct (N.ltb_spec k fo); [exact B|lia].
Qed.

Lemma span_of (f : file) fo : fo < lenN f ->
  span f (line_beg f fo) (line_end f fo) /\ line_beg f fo <= fo /\ fo <= line_end f fo.
Proof.
  intro L. destruct (line_end_is_end f fo L) as (E1 & E2 & E3 & E4).
  destruct (line_beg_is_beg f fo ltac:(lia)) as (B1 & B2 & B3).
  split; [|split; assumption]. unfold span. repeat split; [lia|exact E2| |exact E4|exact B3].
  intros k K1 K2. destruct (N.lt_ge_cases k fo); [apply B2|apply E3]; lia.
Qed.

Lemma span_unique_e (f : file) b e e' : span f b e -> span f b e' -> e = e'.
Proof.
  intros S1 S2.
  destruct (span_in f b e b S1 ltac:(lia) ltac:(destruct S1; lia)) as [_ A].
  destruct (span_in f b e' b S2 ltac:(lia) ltac:(destruct S2; lia)) as [_ B]. congruence.
Qed.

Lemma span_unique_b (f : file) b b' e : span f b e -> span f b' e -> b = b'.
Proof.
  intros S1 S2.
  destruct (span_in f b e e S1 ltac:(destruct S1; lia) ltac:(lia)) as [A _].
  destruct (span_in f b' e e S2 ltac:(destruct S2; lia) ltac:(lia)) as [B _]. congruence.
Qed.

(* a span that ends inside another span ends where that one ends *)
Lemma span_end_inside (f : file) b e b2 e2 : span f b e -> span f b2 e2 -> b <= e2 -> e2 <= e -> e2 = e /\ b2 = b.
Proof.
  intros S1 S2 L1 L2.
  destruct (span_in f b e e2 S1 L1 L2) as [A B].
  destruct (span_in f b2 e2 e2 S2 ltac:(destruct S2; lia) ltac:(lia)) as [C D].
  split; congruence.
Qed.

(* the byte before a line that does not start the file is a newline; the line after a line
   that does not end the file starts right after it *)
Lemma span_next_beg (f : file) b e : span f b e -> e + 1 < lenN f -> line_beg f (e + 1) = e + 1.
Proof.
  intros (A & B & C & D & E) L. apply line_beg_char; [lia|].
  unfold is_beg. repeat split; [lia|intros k K1 K2; lia|right].
  replace (e + 1 - 1) with e by lia. destruct D as [D|D]; [exact D|lia].
Qed.

Definition line_ok (bs : N) (f : file) (ps : line) (b e : N) : Prop :=
  span f b e /\ chain bs ps b (e + 1).

Lemma line_ok_facts bs (f : file) ps b e : line_ok bs f ps b e ->
  line_fo_begin bs ps = Some b /\ line_fo_end bs ps = Some e /\ bytes_of bs f ps = slice f b (e + 1) /\ ps <> [].
Proof.
  intros [S C]. destruct S as (A & B & _).
  split; [eapply chain_begin; [exact C|lia]|].
  split; [rewrite (chain_end bs ps b (e + 1) C ltac:(lia)); f_equal; lia|].
  split; [apply chain_bytes; [exact C|lia]|]. eapply chain_nonempty; [exact C|lia].
Qed.

(* ---------------------------------------------------------------- the two halves *)

Lemma find_line_fuel_split fuel bs (f : file) fo : fo < lenN f ->
  find_line_fuel fuel bs f fo =
  match fwd_search fuel bs f fo with
  | Found (fo_nl_b, after, bme) =>
      if fo =? 0 then
        Found (fo_nl_b + 1,
               (block_offset_at_file_offset 0 bs, block_index_at_file_offset 0 bs, bme + 1) :: after)
      else
        match back_search fuel bs f fo after bme with
        | Found ps => match line_fo_end bs ps with
                      | None => Done
                      | Some fo_end => Found (fo_end + 1, ps)
                      end
        | Done => Done | OutOfFuel => OutOfFuel | Panic => Panic
        end
  | Done => Done | OutOfFuel => OutOfFuel | Panic => Panic
  end.
Proof.
  intro L. unfold find_line_fuel, fwd_search, back_search.
  destruct (N.eqb_spec (lenN f) 0); [lia|].
  destruct (N.ltb_spec (lenN f) fo); [lia|].
  destruct (N.eqb_spec fo (lenN f)); [lia|].
  destruct (nthN (block bs f (block_offset_at_file_offset fo bs)) (block_index_at_file_offset fo bs)); [|reflexivity].
  destruct (match find_nl _ with Some d => _ | None => _ end) as [[found_b fo_nl_b0] bi_mid_end].
  destruct (if found_b then _ else _) as [[fo_nl_b after]| | |]; reflexivity.
Qed.

(* B1 / B2 on their own (the first half of LinesProofs.find_line_fuel_ok) *)
Lemma fwd_search_ok bs (f : file) fo fuel : 0 < bs -> fo < lenN f ->
  (N.to_nat (blockoffset_last (lenN f) bs) + 1 < fuel)%nat ->
  let bo := block_offset_at_file_offset fo bs in
  let bi := block_index_at_file_offset fo bs in
  exists e after bme,
    fwd_search fuel bs f fo = Found (e, after, bme) /\
    is_end f fo e /\ bi <= bme /\ bme < lenN (block bs f bo) /\
    chain bs after (bo * bs + bme + 1) (e + 1) /\
    (forall b0, b0 <= bi -> chain bs ((bo, b0, bme + 1) :: after) (bo * bs + b0) (e + 1)) /\
    (* newline B inside the middle block, or the end of the file in the last block: no parts after *)
    ((exists d, find_nl (skipnN bi (block bs f bo)) = Some d /\ bme = bi + d) \/
     (find_nl (skipnN bi (block bs f bo)) = None /\ bo = blockoffset_last (lenN f) bs /\
      bme = lenN (block bs f bo) - 1) \/
     (find_nl (skipnN bi (block bs f bo)) = None /\ bo <> blockoffset_last (lenN f) bs /\
      bme = lenN (block bs f bo) - 1)) /\
    (bo = blockoffset_last (lenN f) bs \/ find_nl (skipnN bi (block bs f bo)) <> None ->
     after = [] /\ e = bo * bs + bme).
Proof.
  intros H F FU bo0 bi0.
  assert (F0 : 0 < lenN f) by lia.
  set (last := blockoffset_last (lenN f) bs) in *.
  pose proof (div_mod_bs fo bs H) as [EQ BI].
  change (block_offset_at_file_offset fo bs) with (fo / bs) in bo0.
  set (bo := fo / bs) in *. subst bo0. set (bi := block_index_at_file_offset fo bs) in *. subst bi0.
  assert (BOL : bo <= last) by (apply blockoffset_last_ge; assumption).
  pose proof (last_mul_lt bs f H F0) as LL. fold last in LL.
  assert (BL : bo * bs < lenN f) by lia.
  pose proof (lenN_block_le bs f bo) as LB.
  pose proof (block_end_le bs f bo ltac:(lia)) as BE.
  assert (BIL : bi < lenN (block bs f bo)) by (rewrite lenN_block; lia).
  unfold fwd_search.
  change (block_offset_at_file_offset fo bs) with bo. fold bi. fold last.
  destruct (nthN_lt_Some (block bs f bo) bi BIL) as [x0 X0]. rewrite X0.
  assert (MIDL : forall e after bme, bi <= bme -> bme < lenN (block bs f bo) ->
            chain bs after (bo * bs + bme + 1) (e + 1) ->
            forall b0, b0 <= bi -> chain bs ((bo, b0, bme + 1) :: after) (bo * bs + b0) (e + 1)).
  { intros e after bme M1 M2 CA b0 B0. cbn [chain]. unfold part_fo, part_bo, part_beg, part_end,
      file_offset_at_block_offset_index, file_offset_at_block_offset. cbn [fst snd].
    repeat split; [lia|lia|]. replace (bo * bs + (bme + 1)) with (bo * bs + bme + 1) by lia. exact CA. }
  destruct (find_nl (skipnN bi (block bs f bo))) as [d|] eqn:FN.
  - apply find_nl_Some in FN as [A B]. rewrite nthN_skipnN in A.
    assert (D : bi + d < lenN (block bs f bo)) by (eapply nthN_Some_lt; eauto).
    rewrite byte_at_block in A by lia.
    exists (bo * bs + (bi + d)), [], (bi + d). split; [reflexivity|].
    assert (E : is_end f fo (bo * bs + (bi + d))).
    { unfold is_end. repeat split; [lia|lia| |left; exact A].
      intros k K1 K2. specialize (B (k - fo) ltac:(lia)). rewrite nthN_skipnN in B.
      rewrite byte_at_block in B by lia. replace (bo * bs + (bi + (k - fo))) with k in B by lia. exact B. }
    assert (CA : chain bs [] (bo * bs + (bi + d) + 1) (bo * bs + (bi + d) + 1)) by (cbn; lia).
    split; [exact E|]. split; [lia|]. split; [lia|]. split; [exact CA|].
    split; [apply MIDL; [lia|lia|exact CA]|].
    split; [left; exists d; split; reflexivity|]. intros _. split; reflexivity.
  - pose proof (find_nl_None _ FN) as B.
    assert (NN : noNL f fo (bo * bs + lenN (block bs f bo))).
    { intros k K1 K2. specialize (B (k - fo)). rewrite nthN_skipnN in B.
      rewrite byte_at_block in B by lia. replace (bo * bs + (bi + (k - fo))) with k in B by lia. exact B. }
    destruct (N.eqb_spec bo last) as [EL|EL].
    + pose proof (block_last_end bs f H F0) as LE. cbv zeta in LE. fold last in LE. rewrite <- EL in LE.
      exists (lenN f - 1), [], (lenN (block bs f bo) - 1).
      unfold file_offset_at_block_offset_index, file_offset_at_block_offset.
      split; [do 3 f_equal; lia|].
      assert (E : is_end f fo (lenN f - 1)).
      { unfold is_end. repeat split; [lia|lia| |right; reflexivity].
        intros k K1 K2. apply NN; lia. }
      assert (CA : chain bs [] (bo * bs + (lenN (block bs f bo) - 1) + 1) (lenN f - 1 + 1)) by (cbn; lia).
      split; [exact E|]. split; [lia|]. split; [lia|]. split; [exact CA|].
      split; [apply MIDL; [lia|lia|exact CA]|].
      split; [right; left; repeat split; assumption|]. intros _. split; [reflexivity|lia].
    + assert (FB : lenN (block bs f bo) = bs).
      { apply lenN_block_not_last; [assumption|assumption|]. fold last. lia. }
      rewrite FB in *.
      destruct (fwd_blocks_ok bs f fo (bo * bs + bs) H F fuel (bo + 1) [] None (bo * bs + bs))
        as (e & ps & R & C & E).
      * fold last. lia.
      * lia.
      * exact NN.
      * cbn. reflexivity.
      * left. fold last. split; lia.
      * fold last in R. exists e, ps, (bs - 1). split; [rewrite R; reflexivity|].
        assert (CA : chain bs ps (bo * bs + (bs - 1) + 1) (e + 1)).
        { replace (bo * bs + (bs - 1) + 1) with (bo * bs + bs) by lia. exact C. }
        split; [exact E|]. split; [lia|]. split; [lia|]. split; [exact CA|].
        split; [apply MIDL; [lia|lia|exact CA]|].
        split; [right; right; repeat split; assumption|].
        intros [X|X]; [contradiction|congruence].
Qed.

Lemma fuel_ok bs (f : file) : 0 < bs -> 0 < lenN f ->
  (N.to_nat (blockoffset_last (lenN f) bs) + 1 < S (length f))%nat.
Proof.
  intros H F. rewrite blockoffset_last_spec by lia.
  assert ((lenN f - 1) / bs <= lenN f - 1).
  { pose proof (div_le_mul (lenN f - 1) bs H).
    assert ((lenN f - 1) / bs * 1 <= (lenN f - 1) / bs * bs) by (apply N.mul_le_mono_l; lia). lia. }
  unfold lenN in *. lia.
Qed.

(* the full search: the pure find_line, read through its two halves *)
Lemma search_ok bs (f : file) fo : 0 < bs -> 0 < fo -> fo < lenN f ->
  forall e after bme, fwd_search (S (length f)) bs f fo = Found (e, after, bme) ->
  exists ps, back_search (S (length f)) bs f fo after bme = Found ps /\
             line_ok bs f ps (line_beg f fo) (line_end f fo) /\ line_fo_end bs ps = Some (line_end f fo).
Proof.
  intros H P F e after bme FW.
  pose proof (find_line_fuel_ok bs f fo (S (length f)) H F (fuel_ok bs f H ltac:(lia))) as (ps & R & C).
  rewrite find_line_fuel_split in R by exact F. rewrite FW in R.
  destruct (N.eqb_spec fo 0); [lia|].
  destruct (back_search (S (length f)) bs f fo after bme) as [qs| | |]; try discriminate.
  destruct (line_fo_end bs qs) as [fe|] eqn:LE; [|discriminate].
  inversion R; subst. exists ps. split; [reflexivity|].
  destruct (span_of f fo F) as (SP & _ & _).
  split; [split; assumption|]. rewrite LE. f_equal. lia.
Qed.

(* ================================================================ Part 3: LineReader *)

Section LineReaderProofs.
  Variable bs : N.
  Variable f : file.
  Hypothesis Hbs : 0 < bs.

  Definition sline_ok (s : sline) (b e : N) : Prop := line_ok bs f (sl_parts s) b e.

  (* what an LRU entry stored under key k must be *)
  Definition lres_entry_ok (k : N) (r : lres) : Prop :=
    match r with
    | LF n s => exists b e, sline_ok s b e /\ b <= k /\ k <= e /\ n = e + 1
    | LD => False
    end.

  Record lr_inv (st : lr_state) : Prop := mk_lr_inv {
    li_lines : forall k s, alookup k (l_lines st) = Some s -> exists e, sline_ok s k e;
    li_foend : forall e b, In (e, b) (l_foend st) -> span f b e;
    li_link : forall k s e, alookup k (l_lines st) = Some s -> span f k e -> In (e, k) (l_foend st);
    li_lru : forall k r, alookup k (l_lru st) = Some r -> lres_entry_ok k r }.

  Lemma lr_inv_init : lr_inv lr_init.
  Proof. split; cbn; intros; try discriminate; contradiction. Qed.

  (* the answer of find_line at fo *)
  Definition lres_ok (fo : N) (r : res (N * sline)) : Prop :=
    if fo <? lenN f
    then exists s, r = Found (line_end f fo + 1, s) /\ sline_ok s (line_beg f fo) (line_end f fo)
    else r = Done.

  Lemma lr_inv_maps st st' : l_lines st' = l_lines st -> l_foend st' = l_foend st -> l_lru st' = l_lru st ->
    lr_inv st -> lr_inv st'.
  Proof. intros A B C [I1 I2 I3 I4]. split; rewrite ?A, ?B, ?C; assumption. Qed.

  Lemma lr_inv_cnt g st : lr_inv st -> lr_inv (lr_cnt g st).
  Proof. apply lr_inv_maps; reflexivity. Qed.

  Lemma lr_inv_set_lru c st : lr_inv st ->
    (forall k r, alookup k c = Some r -> lres_entry_ok k r) -> lr_inv (lr_set_lru c st).
  Proof. intros [I1 I2 I3 I4] H. split; cbn; assumption. Qed.

  Lemma entry_of_ok fo s : fo < lenN f -> sline_ok s (line_beg f fo) (line_end f fo) ->
    lres_entry_ok fo (LF (line_end f fo + 1) s).
  Proof.
    intros L S. destruct (span_of f fo L) as (_ & A & B).
    exists (line_beg f fo), (line_end f fo). auto.
  Qed.

  Lemma lr_put_inv st fo r : lr_inv st -> lres_entry_ok fo r -> lr_inv (lr_put st fo r).
  Proof.
    intros I R. unfold lr_put. destruct (l_on st); [|exact I].
    apply lr_inv_cnt. apply lr_inv_set_lru; [exact I|].
    intros k x X. apply lru_put_lookup in X as [[-> ->]|[_ X]]; [exact R|].
    eapply li_lru; eauto.
  Qed.

  Lemma entry_result fo r : lres_entry_ok fo r -> fo < lenN f -> lres_ok fo (lres_result r).
  Proof.
    intros R L. unfold lres_ok. destruct (N.ltb_spec fo (lenN f)); [|lia].
    destruct r as [n s|]; [|destruct R]. destruct R as (b & e & S & B1 & B2 & ->).
    destruct S as [SP C]. destruct (span_in f b e fo SP B1 B2) as [-> ->].
    exists s. split; [reflexivity|split; assumption].
  Qed.

  Lemma entry_lt fo r : lres_entry_ok fo r -> fo < lenN f.
  Proof.
    destruct r as [n s|]; [|intros []]. intros (b & e & [SP _] & _ & B2 & _).
    destruct SP as (_ & E & _). lia.
  Qed.

  Lemma lr_check_lru_ok st fo st' o : lr_inv st -> lr_check_lru st fo = (st', o) ->
    lr_inv st' /\ match o with Some r => lres_entry_ok fo r | None => True end.
  Proof.
    intros I. unfold lr_check_lru. destruct (l_on st).
    - destruct (lru_get fo (l_lru st)) as [[r|] c] eqn:G; intro H; inversion H; subst.
      + apply lru_get_Some in G as [A B]. split.
        * apply lr_inv_cnt. apply lr_inv_set_lru; [exact I|]. intros k x X. eapply li_lru; eauto.
        * eapply li_lru; eauto.
      + split; [apply lr_inv_cnt; exact I|exact Logic.I].
    - intro H; inversion H; subst. split; [exact I|exact Logic.I].
  Qed.

  Lemma get_linep_sound st fo s : lr_inv st -> lr_get_linep st fo = Some s ->
    exists b e, sline_ok s b e /\ b <= fo /\ fo <= e /\ alookup b (l_lines st) = Some s /\
                afirst_ge fo (l_foend st) = Some (e, b).
  Proof.
    intros I. unfold lr_get_linep.
    destruct (afirst_ge fo (l_foend st)) as [[e b]|] eqn:A; [|discriminate].
    destruct (N.ltb_spec fo b); [discriminate|]. intro L.
    destruct (afirst_ge_spec _ _ _ _ A) as (A1 & A2 & _).
    pose proof (li_foend st I _ _ A2) as SP.
    destruct (li_lines st I _ _ L) as (e' & S').
    assert (e' = e) by (destruct S' as [SP' _]; eapply span_unique_e; eauto). subst e'.
    exists b, e. auto.
  Qed.

  (* completeness of check_store: a stored line that contains fo is found *)
  Lemma get_linep_complete st fo b e s : lr_inv st -> alookup b (l_lines st) = Some s -> span f b e ->
    b <= fo -> fo <= e -> alookup fo (l_lines st) <> None \/ lr_get_linep st fo <> None.
  Proof.
    intros I L SP B1 B2. right. unfold lr_get_linep.
    pose proof (li_link st I _ _ _ L SP) as IN.
    destruct (afirst_ge fo (l_foend st)) as [[e2 b2]|] eqn:A.
    - destruct (afirst_ge_spec _ _ _ _ A) as (A1 & A2 & A3).
      pose proof (li_foend st I _ _ A2) as SP2.
      specialize (A3 _ _ IN B2).
      destruct (span_end_inside f b e b2 e2 SP SP2 ltac:(lia) A3) as [-> ->].
      destruct (N.ltb_spec fo b); [lia|]. rewrite L. discriminate.
    - pose proof (afirst_ge_None _ _ A _ _ IN). lia.
  Qed.

  Lemma lr_answer_ok st fo s p st' r p' b e : lr_inv st -> sline_ok s b e -> b <= fo -> fo <= e ->
    lr_answer st fo bs s p = (st', r, p') -> lr_inv st' /\ lres_ok fo r.
  Proof.
    intros I S B1 B2. unfold lr_answer.
    destruct (line_ok_facts bs f _ _ _ S) as (_ & LE & _). unfold sl_parts in *. rewrite LE.
    intro H; inversion H; subst. destruct S as [SP C].
    destruct (span_in f b e fo SP B1 B2) as [LB LE'].
    assert (L : fo < lenN f) by (destruct SP as (_ & ? & _); lia).
    split.
    - apply lr_put_inv; [exact I|]. exists b, e. split; [split; assumption|]. repeat split; auto.
    - unfold lres_ok. destruct (N.ltb_spec fo (lenN f)); [|lia]. rewrite LB, LE'.
      exists s. split; [reflexivity|split; assumption].
  Qed.

  Lemma lr_check_store_ok st fo o st2 : lr_inv st -> lr_check_store bs st fo = (o, st2) ->
    match o with
    | Some (st', r, _) => lr_inv st' /\ lres_ok fo r
    | None => lr_inv st2 /\ alookup fo (l_lines st2) = None /\ lr_get_linep st2 fo = None /\
              l_lines st2 = l_lines st /\ l_foend st2 = l_foend st
    end.
  Proof.
    intros I. unfold lr_check_store.
    destruct (alookup fo (l_lines st)) as [s|] eqn:L.
    - intro H. injection H as <- <-. destruct (lr_answer _ _ _ _ _) as [[st' r] p'] eqn:A.
      destruct (li_lines st I _ _ L) as (e & S).
      eapply (lr_answer_ok _ fo s PLines st' r p' fo e); [apply lr_inv_cnt; exact I|exact S|lia| |exact A].
      destruct S as [(? & _) _]. assumption.
    - destruct (lr_get_linep (lr_cnt lc_miss_up st) fo) as [s|] eqn:G.
      + intro H. injection H as <- <-. destruct (lr_answer _ _ _ _ _) as [[st' r] p'] eqn:A.
        assert (I' : lr_inv (lr_cnt lc_miss_up st)) by (apply lr_inv_cnt; exact I).
        destruct (get_linep_sound _ _ _ I' G) as (b & e & S & B1 & B2 & _).
        eapply lr_answer_ok; eauto.
      + intro H. injection H as <- <-. split; [apply lr_inv_cnt; exact I|]. cbn. auto.
  Qed.

  Lemma lr_insert_line_ok st ps b e : lr_inv st -> line_ok bs f ps b e ->
    exists st', lr_insert_line bs st ps = Some (st', (l_nid st, ps)) /\ lr_inv st' /\
                l_on st' = l_on st /\ l_lru st' = l_lru st.
  Proof.
    intros I S. unfold lr_insert_line.
    destruct (line_ok_facts bs f _ _ _ S) as (LB & LE & _). rewrite LB, LE.
    eexists. split; [reflexivity|]. split; [|split; reflexivity].
    destruct S as [SP C]. split; cbn.
    - intros k s. rewrite alookup_ainsert. destruct (N.eqb_spec k b).
      + intro H; inversion H; subst. exists e. split; assumption.
      + apply (li_lines st I).
    - intros e' b' IN. apply In_ainsert in IN as [IN|IN].
      + inversion IN; subst. exact SP.
      + eapply li_foend; eauto.
    - intros k s e'. rewrite alookup_ainsert. destruct (N.eqb_spec k b).
      + intros _ SP'. subst k. rewrite (span_unique_e f b e' e SP' SP). apply In_ainsert_new.
      + intros L SP'. pose proof (li_link st I _ _ _ L SP') as IN.
        destruct (N.eq_dec e' e) as [->|NE].
        * exfalso. apply n. eapply span_unique_b; eauto.
        * apply In_ainsert_old; assumption.
    - apply (li_lru st I).
  Qed.

  Lemma lr_store_found_ok st fo ps p st' r p' : lr_inv st -> fo < lenN f ->
    line_ok bs f ps (line_beg f fo) (line_end f fo) ->
    lr_store_found bs st fo (line_end f fo + 1) ps p = (st', r, p') -> lr_inv st' /\ lres_ok fo r.
  Proof.
    intros I L S. unfold lr_store_found.
    destruct (lr_insert_line_ok st ps _ _ I S) as (st1 & E & I1 & _). rewrite E.
    intro H; inversion H; subst. split.
    - apply lr_put_inv; [exact I1|]. apply entry_of_ok; assumption.
    - unfold lres_ok. destruct (N.ltb_spec fo (lenN f)); [|lia].
      eexists. split; [reflexivity|exact S].
  Qed.

  (* the line that follows a stored line which ends at fo-1 begins at fo *)
  Lemma prev_line_ends st fo : lr_inv st -> 0 < fo -> fo < lenN f ->
    alookup fo (l_lines st) = None -> lr_get_linep st fo = None ->
    (alookup (fo - 1) (l_lines st) <> None \/ lr_get_linep st (fo - 1) <> None) ->
    line_beg f fo = fo.
  Proof.
    intros I P L M1 M2 K.
    assert (X : exists b e s, alookup b (l_lines st) = Some s /\ span f b e /\ b <= fo - 1 /\ fo - 1 <= e).
    { destruct K as [K|K].
      - destruct (alookup (fo - 1) (l_lines st)) as [s|] eqn:A; [|congruence].
        destruct (li_lines st I _ _ A) as (e & [SP _]). exists (fo - 1), e, s.
        split; [exact A|]. split; [exact SP|]. split; [lia|]. destruct SP as (? & _); assumption.
      - destruct (lr_get_linep st (fo - 1)) as [s|] eqn:A; [|congruence].
        destruct (get_linep_sound _ _ _ I A) as (b & e & [SP _] & B1 & B2 & LK & _).
        exists b, e, s. split; [exact LK|]. split; [exact SP|]. split; assumption. }
    destruct X as (b & e & s & LK & SP & B1 & B2).
    destruct (N.eq_dec e (fo - 1)) as [E|E].
    - pose proof (span_next_beg f b e SP ltac:(lia)) as NB. replace (e + 1) with fo in NB by lia. exact NB.
    - exfalso. destruct (get_linep_complete st fo b e s I LK SP ltac:(lia) ltac:(lia)); congruence.
  Qed.

  Lemma first_line_beg fo : fo = 0 -> line_beg f fo = 0.
  Proof.
    intros ->. apply line_beg_char; [lia|]. unfold is_beg. repeat split; [lia| |left; reflexivity].
    intros k K1 K2. lia.
  Qed.

  (* a line built from the forward half alone, when its begin is known to be fo *)
  Lemma mid_line_ok fo e after bme : fo < lenN f -> line_beg f fo = fo ->
    is_end f fo e ->
    chain bs ((block_offset_at_file_offset fo bs, block_index_at_file_offset fo bs, bme + 1) :: after)
          (block_offset_at_file_offset fo bs * bs + block_index_at_file_offset fo bs) (e + 1) ->
    e = line_end f fo /\
    line_ok bs f ((block_offset_at_file_offset fo bs, block_index_at_file_offset fo bs, bme + 1) :: after)
            (line_beg f fo) (line_end f fo).
  Proof.
    intros L LB E C. apply line_end_char in E. subst e. split; [reflexivity|].
    destruct (span_of f fo L) as (SP & _ & _). split; [exact SP|].
    rewrite LB. destruct (div_mod_bs fo bs Hbs) as [EQ _].
    unfold block_offset_at_file_offset in *. rewrite <- EQ in C. exact C.
  Qed.

  Theorem c_find_line_ok st fo st' r p : lr_inv st -> c_find_line bs f st fo = (st', r, p) ->
    lr_inv st' /\ lres_ok fo r.
  Proof.
    intros I. unfold c_find_line.
    destruct (lr_check_lru st fo) as [st1 [x|]] eqn:CL.
    - destruct (lr_check_lru_ok _ _ _ _ I CL) as [I1 R]. intro H; injection H as <- <- <-.
      split; [exact I1|]. apply entry_result; [exact R|eapply entry_lt; eauto].
    - destruct (lr_check_lru_ok _ _ _ _ I CL) as [I1 _].
      destruct (N.eqb_spec (lenN f) 0) as [Z|Z]; cbn [orb].
      { intro H; injection H as <- <- <-. split; [exact I1|]. unfold lres_ok. destruct (N.ltb_spec fo (lenN f)); [lia|reflexivity]. }
      destruct (N.ltb_spec (lenN f) fo) as [Z2|Z2]; cbn [orb].
      { intro H; injection H as <- <- <-. split; [exact I1|]. unfold lres_ok. destruct (N.ltb_spec fo (lenN f)); [lia|reflexivity]. }
      destruct (N.eqb_spec fo (lenN f)) as [Z3|Z3].
      { intro H; injection H as <- <- <-. split; [exact I1|]. unfold lres_ok. destruct (N.ltb_spec fo (lenN f)); [lia|reflexivity]. }
      assert (L : fo < lenN f) by lia.
      destruct (lr_check_store bs st1 fo) as [[[[st2 r2] p2]|] st3] eqn:CS.
      + pose proof (lr_check_store_ok _ _ _ _ I1 CS) as [I2 R2]. intro H; injection H as <- <- <-. auto.
      + pose proof (lr_check_store_ok _ _ _ _ I1 CS) as (I3 & M1 & M2 & _).
        destruct (fwd_search_ok bs f fo (S (length f)) Hbs L (fuel_ok bs f Hbs ltac:(lia)))
          as (e & after & bme & FW & E & _ & _ & _ & MID & _). rewrite FW.
        destruct (N.eqb_spec fo 0) as [Z0|Z0].
        * (* A0 *)
          pose proof (first_line_beg fo Z0) as LB.
          specialize (MID (block_index_at_file_offset fo bs) ltac:(lia)).
          destruct (mid_line_ok fo e after bme L ltac:(lia) E MID) as [-> OK].
          subst fo. intro H. eapply lr_store_found_ok; eauto.
        * assert (MIDOK : line_beg f fo = fo ->
                   e = line_end f fo /\
                   line_ok bs f ((block_offset_at_file_offset fo bs, block_index_at_file_offset fo bs, bme + 1) :: after)
                           (line_beg f fo) (line_end f fo)).
          { intro LB. apply mid_line_ok; [exact L|exact LB|exact E|apply MID; lia]. }
          destruct (alookup (fo - 1) (l_lines st3)) as [sp|] eqn:A1.
          -- (* A1a *)
             assert (LB : line_beg f fo = fo).
             { apply (prev_line_ends st3); auto; [lia|]. left. congruence. }
             destruct (MIDOK LB) as [-> OK]. intro H.
             eapply lr_store_found_ok; [apply lr_inv_cnt; exact I3|exact L|exact OK|exact H].
          -- destruct (lr_get_linep (lr_cnt lc_miss_up st3) (fo - 1)) as [sp|] eqn:A2.
             ++ (* A1b *)
                assert (LB : line_beg f fo = fo).
                { apply (prev_line_ends st3); auto; [lia|]. right. unfold lr_get_linep in *. cbn in A2. congruence. }
                destruct (MIDOK LB) as [-> OK]. intro H.
                eapply lr_store_found_ok; [apply lr_inv_cnt; exact I3|exact L|exact OK|exact H].
             ++ (* full search *)
                destruct (search_ok bs f fo Hbs ltac:(lia) L e after bme FW) as (ps & BK & OK & LE).
                rewrite BK. destruct (line_ok_facts bs f _ _ _ OK) as (_ & _ & _ & NE).
                destruct ps as [|p0 ps]; [congruence|]. rewrite LE. intro H.
                eapply lr_store_found_ok; [apply lr_inv_cnt; exact I3|exact L|exact OK|exact H].
  Qed.

  (* find_line never panics and never runs out of fuel *)
  Corollary c_find_line_total st fo st' r p : lr_inv st -> c_find_line bs f st fo = (st', r, p) ->
    r <> Panic /\ r <> OutOfFuel.
  Proof.
    intros I H. destruct (c_find_line_ok _ _ _ _ _ I H) as [_ R]. unfold lres_ok in R.
    destruct (fo <? lenN f); [destruct R as (s & -> & _)|subst r]; split; discriminate.
  Qed.

  (* ---------------------------------------------------------------- find_line_in_block *)

  Lemma lr_fresh_line_inv st ps st' s : lr_inv st -> lr_fresh_line st ps = (st', s) -> lr_inv st' /\ s = (l_nid st, ps).
  Proof.
    intros I H. unfold lr_fresh_line in H. injection H as <- <-. split; [|reflexivity].
    eapply lr_inv_maps; [| | |exact I]; reflexivity.
  Qed.

  (* what find_line_in_block may answer: the spec line, or Done (the line is not inside the block) *)
  Definition lres_in_block_ok (fo : N) (r : res (N * sline)) : Prop :=
    match r with
    | Found _ => lres_ok fo r
    | Done => True
    | _ => False
    end.

  Lemma lres_ok_in_block fo r : lres_ok fo r -> lres_in_block_ok fo r.
  Proof.
    unfold lres_ok, lres_in_block_ok. destruct (fo <? lenN f) eqn:E.
    - intros (s & -> & S). cbn. unfold lres_ok. rewrite E. eauto.
    - intros ->. exact Logic.I.
  Qed.

  Theorem c_find_line_in_block_ok st fo st' r part p : lr_inv st ->
    c_find_line_in_block bs f st fo = (st', (r, part), p) -> lr_inv st' /\ lres_in_block_ok fo r.
  Proof.
    intros I. unfold c_find_line_in_block.
    destruct (lr_check_lru st fo) as [st1 [x|]] eqn:CL.
    - destruct (lr_check_lru_ok _ _ _ _ I CL) as [I1 R]. intro H; injection H as <- <- <- <-.
      split; [exact I1|]. apply lres_ok_in_block. apply entry_result; [exact R|eapply entry_lt; eauto].
    - destruct (lr_check_lru_ok _ _ _ _ I CL) as [I1 _].
      destruct (N.eqb_spec (lenN f) 0) as [Z|Z]; cbn [orb].
      { intro H; injection H as <- <- <- <-. split; [exact I1|exact Logic.I]. }
      destruct (N.ltb_spec (lenN f) fo) as [Z2|Z2]; cbn [orb].
      { intro H; injection H as <- <- <- <-. split; [exact I1|exact Logic.I]. }
      destruct (N.eqb_spec fo (lenN f)) as [Z3|Z3].
      { intro H; injection H as <- <- <- <-. split; [exact I1|exact Logic.I]. }
      assert (L : fo < lenN f) by lia.
      destruct (lr_check_store bs st1 fo) as [[[[st2 r2] p2]|] st3] eqn:CS.
      + pose proof (lr_check_store_ok _ _ _ _ I1 CS) as [I2 R2]. intro H; injection H as <- <- <- <-.
        split; [exact I2|apply lres_ok_in_block; exact R2].
      + pose proof (lr_check_store_ok _ _ _ _ I1 CS) as (I3 & M1 & M2 & _).
        destruct (fwd_search_ok bs f fo (S (length f)) Hbs L (fuel_ok bs f Hbs ltac:(lia)))
          as (e & after & bme & FW & E & B1 & B2 & _ & MID & CASES & NOAFTER).
        cbv zeta in *.
        set (bo := block_offset_at_file_offset fo bs) in *.
        set (bi := block_index_at_file_offset fo bs) in *.
        destruct (nthN (block bs f bo) bi) as [x0|] eqn:X0.
        2:{ exfalso. unfold fwd_search in FW. fold bo bi in FW. rewrite X0 in FW. discriminate. }
        assert (LE : e = line_end f fo) by (symmetry; apply line_end_char; exact E).
        destruct CASES as [(d & FN & BM)|[(FN & BL & BM)|(FN & BL & BM)]]; rewrite FN.
        1,2: (destruct NOAFTER as [-> EE]; [first [right; congruence|left; assumption]|]).
        3: (destruct (N.eqb_spec bo (blockoffset_last (lenN f) bs)); [contradiction|]).
        1,2: (try (destruct (N.eqb_spec bo (blockoffset_last (lenN f) bs)); [|contradiction]);
              unfold file_offset_at_block_offset_index, file_offset_at_block_offset;
              rewrite <- ?BM; rewrite <- EE;
              (destruct (N.eqb_spec fo 0) as [Z0|Z0];
               [ (* A0 *)
                 pose proof (first_line_beg fo Z0) as LB;
                 destruct (mid_line_ok fo e [] bme L ltac:(lia) E (MID bi ltac:(lia))) as [_ OK];
                 cbn [negb]; destruct (lr_store_found _ _ _ _ _ _) as [[st5 r5] p5] eqn:SF;
                 intro H; injection H as <- <- <- <-; subst fo;
                 rewrite LE in SF;
                 destruct (lr_store_found_ok _ _ _ _ _ _ _ I3 L OK SF) as [I5 R5];
                 split; [exact I5|apply lres_ok_in_block; exact R5]
               | ])).
        * (* newline B inside the block, fo > 0 *)
          destruct (alookup (fo - 1) (l_lines st3)) as [sp|] eqn:A1.
          -- assert (LB : line_beg f fo = fo).
             { apply (prev_line_ends st3); auto; [lia|]. left. congruence. }
             destruct (mid_line_ok fo e [] bme L LB E (MID bi ltac:(lia))) as [_ OK].
             destruct (lr_store_found _ _ _ _ _ _) as [[st5 r5] p5] eqn:SF.
             intro H; injection H as <- <- <- <-. rewrite LE in SF.
             destruct (lr_store_found_ok _ _ _ _ _ _ _ (lr_inv_cnt lc_hits_up _ I3) L OK SF) as [I5 R5].
             split; [exact I5|apply lres_ok_in_block; exact R5].
          -- destruct (lr_get_linep (lr_cnt lc_miss_up st3) (fo - 1)) as [sp|] eqn:A2.
             ++ assert (LB : line_beg f fo = fo).
                { apply (prev_line_ends st3); auto; [lia|]. right. unfold lr_get_linep in *. cbn in A2. congruence. }
                destruct (mid_line_ok fo e [] bme L LB E (MID bi ltac:(lia))) as [_ OK].
                destruct (lr_store_found _ _ _ _ _ _) as [[st5 r5] p5] eqn:SF.
                intro H; injection H as <- <- <- <-. rewrite LE in SF.
                destruct (lr_store_found_ok _ _ _ _ _ _ _ (lr_inv_cnt lc_miss_up _ I3) L OK SF) as [I5 R5].
                split; [exact I5|apply lres_ok_in_block; exact R5].
             ++ destruct (search_ok bs f fo Hbs ltac:(lia) L e [] bme FW) as (ps & BK & OK & _).
                unfold back_search in BK. fold bo bi in BK.
                destruct (N.eqb_spec (block_offset_at_file_offset (fo - 1) bs) bo) as [EB|EB]; cbn [negb].
                2:{ intro H; injection H as <- <- <- <-. split; [apply lr_inv_cnt; exact I3|exact Logic.I]. }
                destruct (rfind_nl (firstnN (block_index_at_file_offset (fo - 1) bs + 1) (block bs f bo))) as [i|] eqn:RF.
                ** injection BK as <-.
                   destruct (lr_fresh_line _ _) as [st5 s5] eqn:FL.
                   destruct (lr_fresh_line_inv _ _ _ _ (lr_inv_cnt lc_miss_up _ I3) FL) as [I5 ->].
                   intro H; injection H as <- <- <- <-. split; [exact I5|].
                   cbn. unfold lres_ok. destruct (N.ltb_spec fo (lenN f)); [|lia].
                   eexists. rewrite LE. split; [reflexivity|exact OK].
                ** destruct (N.eqb_spec (block_offset_at_file_offset (fo - 1) bs) 0) as [Z1|Z1]; cbn [negb] in BK.
                   --- injection BK as <-.
                       destruct (lr_fresh_line _ _) as [st5 s5] eqn:FL.
                       destruct (lr_fresh_line_inv _ _ _ _ (lr_inv_cnt lc_miss_up _ I3) FL) as [I5 ->].
                       intro H; injection H as <- <- <- <-. split; [exact I5|].
                       cbn. unfold lres_ok. destruct (N.ltb_spec fo (lenN f)); [|lia].
                       eexists. rewrite LE. split; [reflexivity|exact OK].
                   --- intro H; injection H as <- <- <- <-. split; [apply lr_inv_cnt; exact I3|exact Logic.I].
        * (* end of file inside the last block, fo > 0 *)
          destruct (alookup (fo - 1) (l_lines st3)) as [sp|] eqn:A1.
          -- assert (LB : line_beg f fo = fo).
             { apply (prev_line_ends st3); auto; [lia|]. left. congruence. }
             destruct (mid_line_ok fo e [] bme L LB E (MID bi ltac:(lia))) as [_ OK].
             destruct (lr_store_found _ _ _ _ _ _) as [[st5 r5] p5] eqn:SF.
             intro H; injection H as <- <- <- <-. rewrite LE in SF.
             destruct (lr_store_found_ok _ _ _ _ _ _ _ (lr_inv_cnt lc_hits_up _ I3) L OK SF) as [I5 R5].
             split; [exact I5|apply lres_ok_in_block; exact R5].
          -- destruct (lr_get_linep (lr_cnt lc_miss_up st3) (fo - 1)) as [sp|] eqn:A2.
             ++ assert (LB : line_beg f fo = fo).
                { apply (prev_line_ends st3); auto; [lia|]. right. unfold lr_get_linep in *. cbn in A2. congruence. }
                destruct (mid_line_ok fo e [] bme L LB E (MID bi ltac:(lia))) as [_ OK].
                destruct (lr_store_found _ _ _ _ _ _) as [[st5 r5] p5] eqn:SF.
                intro H; injection H as <- <- <- <-. rewrite LE in SF.
                destruct (lr_store_found_ok _ _ _ _ _ _ _ (lr_inv_cnt lc_miss_up _ I3) L OK SF) as [I5 R5].
                split; [exact I5|apply lres_ok_in_block; exact R5].
             ++ destruct (search_ok bs f fo Hbs ltac:(lia) L e [] bme FW) as (ps & BK & OK & _).
                unfold back_search in BK. fold bo bi in BK.
                destruct (N.eqb_spec (block_offset_at_file_offset (fo - 1) bs) bo) as [EB|EB]; cbn [negb].
                2:{ intro H; injection H as <- <- <- <-. split; [apply lr_inv_cnt; exact I3|exact Logic.I]. }
                destruct (rfind_nl (firstnN (block_index_at_file_offset (fo - 1) bs + 1) (block bs f bo))) as [i|] eqn:RF.
                ** injection BK as <-.
                   destruct (lr_fresh_line _ _) as [st5 s5] eqn:FL.
                   destruct (lr_fresh_line_inv _ _ _ _ (lr_inv_cnt lc_miss_up _ I3) FL) as [I5 ->].
                   intro H; injection H as <- <- <- <-. split; [exact I5|].
                   cbn. unfold lres_ok. destruct (N.ltb_spec fo (lenN f)); [|lia].
                   eexists. rewrite LE. split; [reflexivity|exact OK].
                ** destruct (N.eqb_spec (block_offset_at_file_offset (fo - 1) bs) 0) as [Z1|Z1]; cbn [negb] in BK.
                   --- injection BK as <-.
                       destruct (lr_fresh_line _ _) as [st5 s5] eqn:FL.
                       destruct (lr_fresh_line_inv _ _ _ _ (lr_inv_cnt lc_miss_up _ I3) FL) as [I5 ->].
                       intro H; injection H as <- <- <- <-. split; [exact I5|].
                       cbn. unfold lres_ok. destruct (N.ltb_spec fo (lenN f)); [|lia].
                       eexists. rewrite LE. split; [reflexivity|exact OK].
                   --- intro H; injection H as <- <- <- <-. split; [apply lr_inv_cnt; exact I3|exact Logic.I].
        * (* partial line: nothing is stored *)
          destruct (N.eqb_spec fo 0) as [Z0|Z0].
          -- destruct (lr_fresh_line _ _) as [st5 s5] eqn:FL.
             destruct (lr_fresh_line_inv _ _ _ _ I3 FL) as [I5 _].
             intro H; injection H as <- <- <- <-. split; [exact I5|exact Logic.I].
          -- destruct (negb (block_offset_at_file_offset (fo - 1) bs =? bo)).
             { intro H; injection H as <- <- <- <-. split; [apply lr_inv_cnt; exact I3|exact Logic.I]. }
             destruct (match rfind_nl _ with Some i => Some (i + 1) | None => _ end) as [b|].
             ++ destruct (lr_fresh_line _ _) as [st5 s5] eqn:FL.
                destruct (lr_fresh_line_inv _ _ _ _ (lr_inv_cnt lc_miss_up _ I3) FL) as [I5 _].
                intro H; injection H as <- <- <- <-. split; [exact I5|exact Logic.I].
             ++ intro H; injection H as <- <- <- <-. split; [apply lr_inv_cnt; exact I3|exact Logic.I].
  Qed.

  (* ---------------------------------------------------------------- drops and switches *)

  Lemma lr_drop_line_inv st s extra : lr_inv st -> lr_inv (lr_drop_line bs st s extra).
  Proof.
    intros I. unfold lr_drop_line. destruct (line_fo_begin bs (sl_parts s)) as [key|]; [|exact I].
    destruct I as [I1 I2 I3 I4]. split; cbn.
    - intros k x X. apply alookup_aremove_Some in X. eauto.
    - exact I2.
    - intros k x e X. apply alookup_aremove_Some in X. eauto.
    - intros k x X. apply lru_pop_lookup in X. eauto.
  Qed.

  Lemma lr_lru_enable_inv st : lr_inv st -> lr_inv (lr_lru_enable st).
  Proof.
    intros I. unfold lr_lru_enable. destruct (l_on st); [exact I|].
    destruct I as [I1 I2 I3 I4]. split; cbn; auto. intros; discriminate.
  Qed.

  Lemma lr_lru_disable_inv st : lr_inv st -> lr_inv (lr_lru_disable st).
  Proof.
    intros [I1 I2 I3 I4]. split; cbn; auto. intros; discriminate.
  Qed.
End LineReaderProofs.
