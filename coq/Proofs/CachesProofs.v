(* Proofs/CachesProofs.v — the reader caches are a refinement of the pure searches.

   Part 1  association lists, LRU lists
   Part 2  spans (spec lines by offset), the two halves of the pure search
   Part 3  LineReader: invariant lr_inv, every cached operation preserves it, every answer is
           the spec line
   (Part 4 onwards: Proofs/CachesSysProofs.v) *)
From S4.Base Require Import Bytes Chunk.
From S4.Spec Require Import LinesSpec.
From S4.Model Require Import Lines Syslines Caches.
From S4.Proofs Require Import LinesProofs.
Open Scope N_scope.

(* ================================================================ Part 1: maps *)

Section MapLemmas.
  Context {V : Type}.
  Implicit Types m c : list (N * V).

  Lemma alookup_In k m v : alookup k m = Some v -> In (k, v) m.
  Proof.
    induction m as [|[k' v'] m IH]; cbn; [discriminate|].
    destruct (N.eqb_spec k k'); intro H.
    - inversion H; subst. left; reflexivity.
    - right; auto.
  Qed.

  Lemma alookup_aremove j k m : alookup j (aremove k m) = if j =? k then None else alookup j m.
  Proof.
    induction m as [|[k' v'] m IH]; cbn; [destruct (j =? k); reflexivity|].
    destruct (N.eqb_spec k k') as [E|E].
    - subst k'. rewrite IH. destruct (N.eqb_spec j k); reflexivity.
    - cbn. rewrite IH. destruct (N.eqb_spec j k'); [|reflexivity].
      subst j. destruct (N.eqb_spec k' k); [congruence|reflexivity].
  Qed.

  Lemma alookup_aremove_Some j k m v : alookup j (aremove k m) = Some v -> alookup j m = Some v.
  Proof. rewrite alookup_aremove. destruct (j =? k); [discriminate|auto]. Qed.

  Lemma alookup_ainsert j k v m : alookup j (ainsert k v m) = if j =? k then Some v else alookup j m.
  Proof.
    induction m as [|[k' v'] m IH]; cbn.
    - destruct (j =? k); reflexivity.
    - destruct (N.ltb_spec k k') as [L|L].
      + cbn. destruct (N.eqb_spec j k); reflexivity.
      + destruct (N.eqb_spec k k') as [E|E].
        * subst k'. cbn. destruct (N.eqb_spec j k); reflexivity.
        * cbn. rewrite IH. destruct (N.eqb_spec j k'); [|reflexivity].
          subst j. destruct (N.eqb_spec k' k); [congruence|reflexivity].
  Qed.

  Lemma In_ainsert x k v m : In x (ainsert k v m) -> x = (k, v) \/ In x m.
  Proof.
    induction m as [|[k' v'] m IH]; cbn.
    - intros [H|[]]; auto.
    - destruct (k <? k').
      + cbn. intros [H|[H|H]]; auto.
      + destruct (k =? k'); cbn.
        * intros [H|H]; auto.
        * intros [H|H]; auto. destruct (IH H); auto.
  Qed.

  Lemma In_ainsert_new k v m : In (k, v) (ainsert k v m).
  Proof.
    induction m as [|[k' v'] m IH]; cbn; [auto|].
    destruct (k <? k'); [left; reflexivity|].
    destruct (k =? k'); [left; reflexivity|right; exact IH].
  Qed.

  Lemma In_ainsert_old k v k' v' m : In (k', v') m -> k' <> k -> In (k', v') (ainsert k v m).
  Proof.
    induction m as [|[k2 v2] m IH]; cbn; [tauto|].
    intros H NE. destruct (k <? k2); [right; exact H|].
    destruct (N.eqb_spec k k2) as [E|E].
    - destruct H as [H|H]; [inversion H; subst; congruence|right; exact H].
    - destruct H as [H|H]; [left; exact H|right; auto].
  Qed.

  Lemma In_aremove x k m : In x (aremove k m) -> In x m.
  Proof.
    induction m as [|[k' v'] m IH]; cbn; [tauto|].
    destruct (k =? k'); cbn; [auto|]. intros [H|H]; auto.
  Qed.

  Lemma afirst_ge_spec k m e v : afirst_ge k m = Some (e, v) ->
    k <= e /\ In (e, v) m /\ forall e' v', In (e', v') m -> k <= e' -> e <= e'.
  Proof.
    revert e v. induction m as [|[k' v'] m IH]; intros e v; cbn; [discriminate|].
    destruct (afirst_ge k m) as [[k2 v2]|] eqn:R.
    - destruct (IH k2 v2 eq_refl) as (A & B & C).
      destruct (N.leb_spec k k') as [L1|L1]; cbn [andb].
      + destruct (N.ltb_spec k' k2) as [L2|L2]; intro H; inversion H; subst.
        * split; [exact L1|]. split; [left; reflexivity|].
          intros e' v'' [I|I] K; [inversion I; subst; lia|]. specialize (C _ _ I K). lia.
        * split; [exact A|]. split; [right; exact B|].
          intros e' v'' [I|I] K; [inversion I; subst; lia|]. exact (C _ _ I K).
      + intro H; inversion H; subst. split; [exact A|]. split; [right; exact B|].
        intros e' v'' [I|I] K; [inversion I; subst; lia|]. exact (C _ _ I K).
    - destruct (N.leb_spec k k') as [L1|L1]; intro H; inversion H; subst.
      split; [exact L1|]. split; [left; reflexivity|].
      intros e' v'' [I|I] K; [inversion I; subst; lia|].
      exfalso. clear - R I K. induction m as [|[a b] m IH]; [destruct I|].
      cbn in R. destruct (afirst_ge k m) as [[? ?]|] eqn:R2.
      + destruct ((k <=? a) && (a <? n)); discriminate.
      + destruct (N.leb_spec k a); [discriminate|].
        destruct I as [I|I]; [inversion I; subst; lia|]. apply IH; auto.
  Qed.

  Lemma afirst_ge_None k m : afirst_ge k m = None -> forall e v, In (e, v) m -> e < k.
  Proof.
    induction m as [|[a b] m IH]; intros R e v I; [destruct I|].
    cbn in R. destruct (afirst_ge k m) as [[? ?]|] eqn:R2.
    - destruct ((k <=? a) && (a <? n)); discriminate.
    - destruct (N.leb_spec k a); [discriminate|].
      destruct I as [I|I]; [inversion I; subst; lia|]. eapply IH; eauto.
  Qed.

  (* LRU lists *)
  Lemma alookup_firstn n j m v : alookup j (firstn n m) = Some v -> alookup j m = Some v.
  Proof.
    revert m; induction n as [|n IH]; intros [|[k' v'] m]; cbn; try discriminate.
    destruct (j =? k'); auto.
  Qed.

  Lemma lru_get_Some k c v c' : lru_get k c = (Some v, c') ->
    alookup k c = Some v /\ forall j w, alookup j c' = Some w -> alookup j c = Some w.
  Proof.
    unfold lru_get. destruct (alookup k c) as [x|] eqn:E; [|discriminate].
    intro H; inversion H; subst. split; [reflexivity|].
    intros j w. cbn. destruct (N.eqb_spec j k).
    - intro X; inversion X; subst. exact E.
    - apply alookup_aremove_Some.
  Qed.

  Lemma lru_get_None k c c' : lru_get k c = (None, c') -> alookup k c = None /\ c' = c.
  Proof.
    unfold lru_get. destruct (alookup k c); [discriminate|]. intro H; inversion H; auto.
  Qed.

  Lemma lru_put_lookup cap k v c j w : alookup j (lru_put cap k v c) = Some w ->
    (j = k /\ w = v) \/ (j <> k /\ alookup j c = Some w).
  Proof.
    unfold lru_put. intro H. apply alookup_firstn in H. cbn in H.
    destruct (N.eqb_spec j k).
    - inversion H; auto.
    - right. split; [assumption|]. eapply alookup_aremove_Some; eauto.
  Qed.

  Lemma lru_pop_lookup k c j w : alookup j (lru_pop k c) = Some w -> alookup j c = Some w.
  Proof. apply alookup_aremove_Some. Qed.
End MapLemmas.

(* ================================================================ Part 2: spans *)

(* b .. e is a spec line of f *)
Definition span (f : file) (b e : N) : Prop :=
  b <= e /\ e < lenN f /\ noNL f b e /\ (nthN f e = Some NL \/ e = lenN f - 1) /\
  (b = 0 \/ nthN f (b - 1) = Some NL).

Lemma span_in (f : file) b e x : span f b e -> b <= x -> x <= e -> line_beg f x = b /\ line_end f x = e.
Proof.
  intros (A & B & C & D & E) L1 L2. split.
  - apply line_beg_char; [lia|]. unfold is_beg. repeat split; [exact L1| |exact E].
    intros k K1 K2. apply C; lia.
  - apply line_end_char. unfold is_end. repeat split; [exact L2|exact B| |exact D].
    intros k K1 K2. apply C; lia.
Qed.

Lemma line_end_is_end (f : file) fo : fo < lenN f -> is_end f fo (line_end f fo).
Proof.
  intro L. unfold line_end. destruct (find_nl (skipnN fo f)) as [d|] eqn:FN.
  - apply find_nl_Some in FN as [A B]. rewrite nthN_skipnN in A.
    unfold is_end. repeat split; [lia|eapply nthN_Some_lt; eauto| |left; exact A].
    intros k K1 K2. specialize (B (k - fo) ltac:(lia)). rewrite nthN_skipnN in B.
    replace (fo + (k - fo)) with k in B by lia. exact B.
  - unfold is_end. repeat split; [lia|lia| |right; reflexivity].
    intros k K1 K2. pose proof (find_nl_None _ FN (k - fo)) as B. rewrite nthN_skipnN in B.
    replace (fo + (k - fo)) with k in B by lia. exact B.
Qed.

Lemma line_beg_is_beg (f : file) fo : fo <= lenN f -> is_beg f fo (line_beg f fo).
Proof.
  intro L. unfold line_beg. destruct (rfind_nl (firstnN fo f)) as [i|] eqn:RF.
  - apply rfind_nl_Some in RF as [A B].
    assert (I : i < fo). { apply nthN_Some_lt in A. rewrite lenN_firstnN in A. lia. }
    rewrite nthN_firstnN in A. destruct (N.ltb_spec i fo); [|lia].
    unfold is_beg. repeat split; [lia| |right; replace (i + 1 - 1) with i by lia; exact A].
    intros k K1 K2. specialize (B k ltac:(lia)). rewrite nthN_firstnN in B.
    destruct (N.ltb_spec k fo); [exact B|lia].
  - unfold is_beg. repeat split; [lia| |left; reflexivity].
    intros k K1 K2. pose proof (rfind_nl_None _ RF k) as B. rewrite nthN_firstnN in B.
    destruct (N.ltb_spec k fo); [exact B|lia].
Qed.

Lemma span_of (f : file) fo : fo < lenN f ->
  span f (line_beg f fo) (line_end f fo) /\ line_beg f fo <= fo /\ fo <= line_end f fo.
Proof.
  intro L. destruct (line_end_is_end f fo L) as (E1 & E2 & E3 & E4).
  destruct (line_beg_is_beg f fo ltac:(lia)) as (B1 & B2 & B3).
  split; [|split; assumption]. unfold span. repeat split; [lia|exact E2| |exact E4|exact B3].
  intros k K1 K2. destruct (N.lt_ge_cases k fo); [apply B2|apply E3]; lia.
Qed.

Lemma span_unique_e (f : file) b e e' : span f b e -> span f b e' -> e = e'.
Proof.
  intros S1 S2.
  destruct (span_in f b e b S1 ltac:(lia) ltac:(destruct S1; lia)) as [_ A].
  destruct (span_in f b e' b S2 ltac:(lia) ltac:(destruct S2; lia)) as [_ B]. congruence.
Qed.

Lemma span_unique_b (f : file) b b' e : span f b e -> span f b' e -> b = b'.
Proof.
  intros S1 S2.
  destruct (span_in f b e e S1 ltac:(destruct S1; lia) ltac:(lia)) as [A _].
  destruct (span_in f b' e e S2 ltac:(destruct S2; lia) ltac:(lia)) as [B _]. congruence.
Qed.

(* a span that ends inside another span ends where that one ends *)
Lemma span_end_inside (f : file) b e b2 e2 : span f b e -> span f b2 e2 -> b <= e2 -> e2 <= e -> e2 = e /\ b2 = b.
Proof.
  intros S1 S2 L1 L2.
  destruct (span_in f b e e2 S1 L1 L2) as [A B].
  destruct (span_in f b2 e2 e2 S2 ltac:(destruct S2; lia) ltac:(lia)) as [C D].
  split; congruence.
Qed.

(* the byte before a line that does not start the file is a newline; the line after a line
   that does not end the file starts right after it *)
Lemma span_next_beg (f : file) b e : span f b e -> e + 1 < lenN f -> line_beg f (e + 1) = e + 1.
Proof.
  intros (A & B & C & D & E) L. apply line_beg_char; [lia|].
  unfold is_beg. repeat split; [lia|intros k K1 K2; lia|right].
  replace (e + 1 - 1) with e by lia. destruct D as [D|D]; [exact D|lia].
Qed.

Definition line_ok (bs : N) (f : file) (ps : line) (b e : N) : Prop :=
  span f b e /\ chain bs ps b (e + 1).

Lemma line_ok_facts bs (f : file) ps b e : line_ok bs f ps b e ->
  line_fo_begin bs ps = Some b /\ line_fo_end bs ps = Some e /\ bytes_of bs f ps = slice f b (e + 1) /\ ps <> [].
Proof.
  intros [S C]. destruct S as (A & B & _).
  split; [eapply chain_begin; [exact C|lia]|].
  split; [rewrite (chain_end bs ps b (e + 1) C ltac:(lia)); f_equal; lia|].
  split; [apply chain_bytes; [exact C|lia]|]. eapply chain_nonempty; [exact C|lia].
Qed.

(* ---------------------------------------------------------------- the two halves *)

Lemma find_line_fuel_split fuel bs (f : file) fo : fo < lenN f ->
  find_line_fuel fuel bs f fo =
  match fwd_search fuel bs f fo with
  | Found (fo_nl_b, after, bme) =>
      if fo =? 0 then
        Found (fo_nl_b + 1,
               (block_offset_at_file_offset 0 bs, block_index_at_file_offset 0 bs, bme + 1) :: after)
      else
        match back_search fuel bs f fo after bme with
        | Found ps => match line_fo_end bs ps with
                      | None => Done
                      | Some fo_end => Found (fo_end + 1, ps)
                      end
        | Done => Done | OutOfFuel => OutOfFuel | Panic => Panic
        end
  | Done => Done | OutOfFuel => OutOfFuel | Panic => Panic
  end.
Proof.
  intro L. unfold find_line_fuel, fwd_search, back_search.
  destruct (N.eqb_spec (lenN f) 0); [lia|].
  destruct (N.ltb_spec (lenN f) fo); [lia|].
  destruct (N.eqb_spec fo (lenN f)); [lia|].
  destruct (nthN (block bs f (block_offset_at_file_offset fo bs)) (block_index_at_file_offset fo bs)); [|reflexivity].
  destruct (match find_nl _ with Some d => _ | None => _ end) as [[found_b fo_nl_b0] bi_mid_end].
  destruct (if found_b then _ else _) as [[fo_nl_b after]| | |]; reflexivity.
Qed.

(* B1 / B2 on their own (the first half of LinesProofs.find_line_fuel_ok) *)
Lemma fwd_search_ok bs (f : file) fo fuel : 0 < bs -> fo < lenN f ->
  (N.to_nat (blockoffset_last (lenN f) bs) + 1 < fuel)%nat ->
  let bo := block_offset_at_file_offset fo bs in
  let bi := block_index_at_file_offset fo bs in
  exists e after bme,
    fwd_search fuel bs f fo = Found (e, after, bme) /\
    is_end f fo e /\ bi <= bme /\ bme < lenN (block bs f bo) /\
    chain bs after (bo * bs + bme + 1) (e + 1) /\
    (forall b0, b0 <= bi -> chain bs ((bo, b0, bme + 1) :: after) (bo * bs + b0) (e + 1)) /\
    (* newline B inside the middle block, or the end of the file in the last block: no parts after *)
    ((exists d, find_nl (skipnN bi (block bs f bo)) = Some d /\ bme = bi + d) \/
     (find_nl (skipnN bi (block bs f bo)) = None /\ bo = blockoffset_last (lenN f) bs /\
      bme = lenN (block bs f bo) - 1) \/
     (find_nl (skipnN bi (block bs f bo)) = None /\ bo <> blockoffset_last (lenN f) bs /\
      bme = lenN (block bs f bo) - 1)) /\
    (bo = blockoffset_last (lenN f) bs \/ find_nl (skipnN bi (block bs f bo)) <> None ->
     after = [] /\ e = bo * bs + bme).
Proof.
  intros H F FU bo0 bi0.
  assert (F0 : 0 < lenN f) by lia.
  set (last := blockoffset_last (lenN f) bs) in *.
  pose proof (div_mod_bs fo bs H) as [EQ BI].
  change (block_offset_at_file_offset fo bs) with (fo / bs) in bo0.
  set (bo := fo / bs) in *. subst bo0. set (bi := block_index_at_file_offset fo bs) in *. subst bi0.
  assert (BOL : bo <= last) by (apply blockoffset_last_ge; assumption).
  pose proof (last_mul_lt bs f H F0) as LL. fold last in LL.
  assert (BL : bo * bs < lenN f) by lia.
  pose proof (lenN_block_le bs f bo) as LB.
  pose proof (block_end_le bs f bo ltac:(lia)) as BE.
  assert (BIL : bi < lenN (block bs f bo)) by (rewrite lenN_block; lia).
  unfold fwd_search.
  change (block_offset_at_file_offset fo bs) with bo. fold bi. fold last.
  destruct (nthN_lt_Some (block bs f bo) bi BIL) as [x0 X0]. rewrite X0.
  assert (MIDL : forall e after bme, bi <= bme -> bme < lenN (block bs f bo) ->
            chain bs after (bo * bs + bme + 1) (e + 1) ->
            forall b0, b0 <= bi -> chain bs ((bo, b0, bme + 1) :: after) (bo * bs + b0) (e + 1)).
  { intros e after bme M1 M2 CA b0 B0. cbn [chain]. unfold part_fo, part_bo, part_beg, part_end,
      file_offset_at_block_offset_index, file_offset_at_block_offset. cbn [fst snd].
    repeat split; [lia|lia|]. replace (bo * bs + (bme + 1)) with (bo * bs + bme + 1) by lia. exact CA. }
  destruct (find_nl (skipnN bi (block bs f bo))) as [d|] eqn:FN.
  - apply find_nl_Some in FN as [A B]. rewrite nthN_skipnN in A.
    assert (D : bi + d < lenN (block bs f bo)) by (eapply nthN_Some_lt; eauto).
    rewrite byte_at_block in A by lia.
    exists (bo * bs + (bi + d)), [], (bi + d). split; [reflexivity|].
    assert (E : is_end f fo (bo * bs + (bi + d))).
    { unfold is_end. repeat split; [lia|lia| |left; exact A].
      intros k K1 K2. specialize (B (k - fo) ltac:(lia)). rewrite nthN_skipnN in B.
      rewrite byte_at_block in B by lia. replace (bo * bs + (bi + (k - fo))) with k in B by lia. exact B. }
    assert (CA : chain bs [] (bo * bs + (bi + d) + 1) (bo * bs + (bi + d) + 1)) by (cbn; lia).
    split; [exact E|]. split; [lia|]. split; [lia|]. split; [exact CA|].
    split; [apply MIDL; [lia|lia|exact CA]|].
    split; [left; exists d; split; reflexivity|]. intros _. split; reflexivity.
  - pose proof (find_nl_None _ FN) as B.
    assert (NN : noNL f fo (bo * bs + lenN (block bs f bo))).
    { intros k K1 K2. specialize (B (k - fo)). rewrite nthN_skipnN in B.
      rewrite byte_at_block in B by lia. replace (bo * bs + (bi + (k - fo))) with k in B by lia. exact B. }
    destruct (N.eqb_spec bo last) as [EL|EL].
    + pose proof (block_last_end bs f H F0) as LE. cbv zeta in LE. fold last in LE. rewrite <- EL in LE.
      exists (lenN f - 1), [], (lenN (block bs f bo) - 1).
      unfold file_offset_at_block_offset_index, file_offset_at_block_offset.
      split; [do 3 f_equal; lia|].
      assert (E : is_end f fo (lenN f - 1)).
      { unfold is_end. repeat split; [lia|lia| |right; reflexivity].
        intros k K1 K2. apply NN; lia. }
      assert (CA : chain bs [] (bo * bs + (lenN (block bs f bo) - 1) + 1) (lenN f - 1 + 1)) by (cbn; lia).
      split; [exact E|]. split; [lia|]. split; [lia|]. split; [exact CA|].
      split; [apply MIDL; [lia|lia|exact CA]|].
      split; [right; left; repeat split; assumption|]. intros _. split; [reflexivity|lia].
    + assert (FB : lenN (block bs f bo) = bs).
      { apply lenN_block_not_last; [assumption|assumption|]. fold last. lia. }
      rewrite FB in *.
      destruct (fwd_blocks_ok bs f fo (bo * bs + bs) H F fuel (bo + 1) [] None (bo * bs + bs))
        as (e & ps & R & C & E).
      * fold last. lia.
      * lia.
      * exact NN.
      * cbn. reflexivity.
      * left. fold last. split; lia.
      * fold last in R. exists e, ps, (bs - 1). split; [rewrite R; reflexivity|].
        assert (CA : chain bs ps (bo * bs + (bs - 1) + 1) (e + 1)).
        { replace (bo * bs + (bs - 1) + 1) with (bo * bs + bs) by lia. exact C. }
        split; [exact E|]. split; [lia|]. split; [lia|]. split; [exact CA|].
        split; [apply MIDL; [lia|lia|exact CA]|].
        split; [right; right; repeat split; assumption|].
        intros [X|X]; [contradiction|congruence].
Qed.

Lemma fuel_ok bs (f : file) : 0 < bs -> 0 < lenN f ->
  (N.to_nat (blockoffset_last (lenN f) bs) + 1 < S (length f))%nat.
Proof.
  intros H F. rewrite blockoffset_last_spec by lia.
  assert ((lenN f - 1) / bs <= lenN f - 1).
  { pose proof (div_le_mul (lenN f - 1) bs H).
    assert ((lenN f - 1) / bs * 1 <= (lenN f - 1) / bs * bs) by (apply N.mul_le_mono_l; lia). lia. }
  unfold lenN in *. lia.
Qed.

(* the full search: the pure find_line, read through its two halves *)
Lemma search_ok bs (f : file) fo : 0 < bs -> 0 < fo -> fo < lenN f ->
  forall e after bme, fwd_search (S (length f)) bs f fo = Found (e, after, bme) ->
  exists ps, back_search (S (length f)) bs f fo after bme = Found ps /\
             line_ok bs f ps (line_beg f fo) (line_end f fo) /\ line_fo_end bs ps = Some (line_end f fo).
Proof.
  intros H P F e after bme FW.
  pose proof (find_line_fuel_ok bs f fo (S (length f)) H F (fuel_ok bs f H ltac:(lia))) as (ps & R & C).
  rewrite find_line_fuel_split in R by exact F. rewrite FW in R.
  destruct (N.eqb_spec fo 0); [lia|].
  destruct (back_search (S (length f)) bs f fo after bme) as [qs| | |]; try discriminate.
  destruct (line_fo_end bs qs) as [fe|] eqn:LE; [|discriminate].
  inversion R; subst. exists ps. split; [reflexivity|].
  destruct (span_of f fo F) as (SP & _ & _).
  split; [split; assumption|]. rewrite LE. f_equal. lia.
Qed.

(* ================================================================ Part 2b: the BlockReader *)

Lemma nmem_nadd x y l : nmem x (nadd y l) = (x =? y) || nmem x l.
Proof.
  unfold nadd. destruct (nmem y l) eqn:E; cbn.
  - destruct (N.eqb_spec x y); [subst; rewrite E; reflexivity|reflexivity].
  - unfold nmem. cbn. rewrite N.eqb_sym. reflexivity.
Qed.

Lemma nmax_acc l : forall a, fold_left N.max l a = N.max a (fold_left N.max l 0).
Proof.
  induction l as [|x l IH]; intro a; cbn; [lia|]. rewrite IH, (IH (N.max 0 x)). lia.
Qed.

Lemma nmax_ge x l : nmem x l = true -> x <= nmax l.
Proof.
  unfold nmax. induction l as [|y l IH]; cbn; [discriminate|].
  rewrite nmax_acc. destruct (N.eqb_spec x y); cbn; [subst; lia|]. intro H. specialize (IH H). lia.
Qed.

Lemma nmax_le k l : (forall x, nmem x l = true -> x <= k) -> nmax l <= k.
Proof.
  unfold nmax. induction l as [|y l IH]; intro H; cbn; [lia|].
  rewrite nmax_acc. assert (y <= k) by (apply H; cbn; rewrite N.eqb_refl; reflexivity).
  assert (fold_left N.max l 0 <= k).
  { apply IH. intros x X. apply H. unfold nmem in *. cbn. rewrite X. apply orb_true_r. }
  lia.
Qed.

(* every block ever read is still stored, and the blocks read are exactly the decoded prefix *)
Definition b_intact (b : bstate) : Prop :=
  (forall x, nmem x (b_read b) = (x <? b_dec b)) /\
  (forall x, nmem x (b_read b) = true -> nmem x (b_blocks b) = true).

(* every block of the file can be read at any time: a plain file, a streamed file (sequential decoder) whose drops
   were disabled before anything was dropped, or a tar member (every miss reads all its blocks again) *)
Definition reads_total (b : bstate) : Prop :=
  b_stream b = false \/ (b_stream b = true /\ b_kind b = 0 /\ b_drop b = false /\ b_intact b) \/
  (b_stream b = true /\ b_kind b = 2).

Lemma reads_total_init_plain : reads_total (b_init false).
Proof. left. reflexivity. Qed.

Lemma reads_total_init_tar : reads_total b_init_tar.
Proof. right. right. split; reflexivity. Qed.

Lemma b_intact_lru_put bo b : b_intact b -> b_intact (b_lru_put bo b).
Proof. intro I. exact I. Qed.

Lemma b_stream_loop_total fuel refd : forall b bo bo_at old,
  b_stream b = true -> b_kind b = 0 -> b_drop b = false -> b_intact b ->
  bo_at <= b_dec b -> b_dec b <= bo_at + 1 -> b_dec b <= bo ->
  (N.to_nat (bo + 1 - bo_at) < fuel)%nat ->
  exists b', b_stream_loop fuel refd b bo bo_at old = (b', BFound) /\
             b_stream b' = true /\ b_kind b' = 0 /\ b_drop b' = false /\ b_intact b'.
Proof.
  induction fuel as [|k IH]; intros b bo bo_at old ST KD DR (I1 & I2) L1 L2 L3 FU; [lia|].
  cbn [b_stream_loop]. destruct (N.leb_spec bo_at bo) as [Q|Q]; [|lia].
  destruct (nmem bo_at (b_read b)) eqn:M.
  - (* already decoded: bo_at = dec - 1 *)
    rewrite I1 in M. apply N.ltb_lt in M.
    destruct (N.eqb_spec bo_at bo); [lia|].
    apply IH; cbn; auto; try lia. split; assumption.
  - rewrite I1 in M. apply N.ltb_ge in M. assert (E : b_dec b = bo_at) by lia.
    cbn [b_cnt_up b_dec b_kind]. rewrite KD. cbn [N.eqb]. rewrite E, N.eqb_refl. cbn [negb].
    set (b1 := b_store bo_at _).
    assert (ST1 : b_stream b1 = true) by exact ST.
    assert (KD1 : b_kind b1 = 0) by reflexivity.
    assert (DR1 : b_drop b1 = false) by exact DR.
    assert (IN1 : b_intact b1).
    { subst b1. unfold b_store, b_lru_put. split; cbn [b_read b_dec b_blocks].
      - intro x. rewrite nmem_nadd, I1, E. destruct (N.eqb_spec x bo_at); destruct (N.ltb_spec x bo_at);
          destruct (N.ltb_spec x (bo_at + 1)); cbn; auto; lia.
      - intro x. rewrite !nmem_nadd. destruct (x =? bo_at); cbn [orb]; [auto|]. apply I2. }
    assert (DB : forall o, (if o <? bo_at then b_drop_block refd b1 o else b1) = b1).
    { intro o. destruct (o <? bo_at); [|reflexivity]. unfold b_drop_block. rewrite DR1. reflexivity. }
    rewrite DB. destruct (N.eqb_spec bo_at bo) as [EQ|NE].
    + exists b1. auto.
    + apply IH; auto; cbn; try lia.
Qed.

Lemma fold_store_only_fields l : forall b,
  b_stream (fold_left (fun st x => b_store_only x st) l b) = b_stream b /\
  b_kind (fold_left (fun st x => b_store_only x st) l b) = b_kind b /\
  b_drop (fold_left (fun st x => b_store_only x st) l b) = b_drop b /\
  b_lru (fold_left (fun st x => b_store_only x st) l b) = b_lru b /\
  b_dec (fold_left (fun st x => b_store_only x st) l b) = b_dec b.
Proof.
  induction l as [|x l IH]; intro b; cbn [fold_left]; [auto|]. destruct (IH (b_store_only x b)) as (A1 & A2 & A3 & A4 & A5).
  rewrite A1, A2, A3, A4, A5. auto.
Qed.

Lemma b_read_block_total refd filesz last b bo : reads_total b -> bo <= last -> 0 < filesz ->
  exists b', b_read_block refd filesz last b bo = (b', BFound) /\ reads_total b'.
Proof.
  intros T L F. unfold b_read_block. destruct (N.ltb_spec last bo); [lia|].
  destruct (nmem bo (b_lru b)) eqn:ML.
  { eexists. split; [reflexivity|].
    destruct T as [T|[(T1 & T2 & T3 & T4)|(T1 & T2)]]; [left; exact T|right; left; repeat split; auto; apply T4|right; right; auto]. }
  destruct (N.eqb_spec filesz 0); [lia|].
  destruct T as [T|[(T1 & KD & T2 & (I1 & I2))|(T1 & KD)]].
  - (* plain *)
    cbn [b_cnt_up b_read b_blocks b_stream]. rewrite T.
    destruct (nmem bo (b_read b)); [destruct (nmem bo (b_blocks b))|]; cbn [b_stream]; rewrite ?T;
      eexists; (split; [reflexivity|left; cbn; rewrite ?T; reflexivity]).
  - cbn [b_cnt_up b_read b_blocks b_stream b_kind]. rewrite T1, KD. cbn [N.eqb].
    destruct (nmem bo (b_read b)) eqn:MR.
    + rewrite (I2 _ MR). eexists. split; [reflexivity|]. right. left. repeat split; auto.
    + pose proof MR as MR'. rewrite I1 in MR'. apply N.ltb_ge in MR'.
      set (b0 := b_cnt_up e_miss (b_cnt_up e_lru_miss b)).
      assert (IN0 : b_intact b0) by (split; assumption).
      set (m := nmax (b_read b0)).
      assert (M1 : m <= b_dec b0 /\ b_dec b0 <= m + 1).
      { subst m. cbn [b_read b0 b_cnt_up b_dec]. destruct (N.eq_dec (b_dec b) 0) as [Z|Z].
        - assert (nmax (b_read b) <= 0); [|lia]. apply nmax_le. intros x X. rewrite I1, Z in X. apply N.ltb_lt in X. lia.
        - assert (A : b_dec b - 1 <= nmax (b_read b)).
          { apply nmax_ge. rewrite I1. apply N.ltb_lt. lia. }
          assert (B : nmax (b_read b) <= b_dec b - 1).
          { apply nmax_le. intros x X. rewrite I1 in X. apply N.ltb_lt in X. lia. }
          lia. }
      destruct (b_stream_loop_total (S (S (N.to_nat (bo - m)))) refd b0 bo m m T1 KD T2 IN0 (proj1 M1) (proj2 M1) MR' ltac:(lia))
        as (b' & E & S' & K' & D' & I').
      exists b'. split; [exact E|]. right. left. auto.
  - (* a tar member *)
    cbn [b_cnt_up b_read b_blocks b_stream b_kind]. rewrite T1, KD. cbn [N.eqb].
    destruct (nmem bo (b_read b)); [destruct (nmem bo (b_blocks b))|]; cbn [b_stream b_kind]; rewrite ?T1, ?KD; cbn [N.eqb];
      eexists; (split; [reflexivity|]); right; right;
      try (match goal with |- context [fold_left ?g ?l ?x] => destruct (fold_store_only_fields l x) as (A1 & A2 & _) end;
           rewrite A1, A2); cbn; auto.
Qed.

(* ================================================================ Part 3: LineReader *)

Section LineReaderProofs.
  Variable bs : N.
  Variable f : file.
  Hypothesis Hbs : 0 < bs.

  Definition sline_ok (s : sline) (b e : N) : Prop := line_ok bs f (sl_parts s) b e.

  (* what an LRU entry stored under key k must be *)
  Definition lres_entry_ok (k : N) (r : lres) : Prop :=
    match r with
    | LF n s => exists b e, sline_ok s b e /\ b <= k /\ k <= e /\ n = e + 1
    | LD => False
    end.

  Record lr_inv0 (st : lr_state) : Prop := mk_lr_inv0 {
    li0_lines : forall k s, alookup k (l_lines st) = Some s -> exists e, sline_ok s k e;
    li0_foend : forall e b, In (e, b) (l_foend st) -> span f b e;
    li0_link : forall k s e, alookup k (l_lines st) = Some s -> span f k e -> In (e, k) (l_foend st);
    li0_lru : forall k r, alookup k (l_lru st) = Some r -> lres_entry_ok k r }.

  Lemma lr_inv0_init : lr_inv0 lr_init.
  Proof. split; cbn; intros; try discriminate; contradiction. Qed.

  (* the answer of find_line at fo *)
  Definition lres_ok (fo : N) (r : res (N * sline)) : Prop :=
    if fo <? lenN f
    then exists s, r = Found (line_end f fo + 1, s) /\ sline_ok s (line_beg f fo) (line_end f fo)
    else r = Done.

  Lemma lr_inv0_maps st st' : l_lines st' = l_lines st -> l_foend st' = l_foend st -> l_lru st' = l_lru st ->
    lr_inv0 st -> lr_inv0 st'.
  Proof. intros A B C [I1 I2 I3 I4]. split; rewrite ?A, ?B, ?C; assumption. Qed.

  Lemma lr_inv0_cnt g st : lr_inv0 st -> lr_inv0 (lr_cnt g st).
  Proof. apply lr_inv0_maps; reflexivity. Qed.

  Lemma lr_inv0_set_lru c st : lr_inv0 st ->
    (forall k r, alookup k c = Some r -> lres_entry_ok k r) -> lr_inv0 (lr_set_lru c st).
  Proof. intros [I1 I2 I3 I4] H. split; cbn; assumption. Qed.

  Lemma entry_of_ok fo s : fo < lenN f -> sline_ok s (line_beg f fo) (line_end f fo) ->
    lres_entry_ok fo (LF (line_end f fo + 1) s).
  Proof.
    intros L S. destruct (span_of f fo L) as (_ & A & B).
    exists (line_beg f fo), (line_end f fo). auto.
  Qed.

  Lemma lr_put_inv st fo r : lr_inv0 st -> lres_entry_ok fo r -> lr_inv0 (lr_put st fo r).
  Proof.
    intros I R. unfold lr_put. destruct (l_on st); [|exact I].
    apply lr_inv0_cnt. apply lr_inv0_set_lru; [exact I|].
    intros k x X. apply lru_put_lookup in X as [[-> ->]|[_ X]]; [exact R|].
    eapply li0_lru; eauto.
  Qed.

  Lemma entry_result fo r : lres_entry_ok fo r -> fo < lenN f -> lres_ok fo (lres_result r).
  Proof.
    intros R L. unfold lres_ok. destruct (N.ltb_spec fo (lenN f)); [|lia].
    destruct r as [n s|]; [|destruct R]. destruct R as (b & e & S & B1 & B2 & ->).
    destruct S as [SP C]. destruct (span_in f b e fo SP B1 B2) as [-> ->].
    exists s. split; [reflexivity|split; assumption].
  Qed.

  Lemma entry_lt fo r : lres_entry_ok fo r -> fo < lenN f.
  Proof.
    destruct r as [n s|]; [|intros []]. intros (b & e & [SP _] & _ & B2 & _).
    destruct SP as (_ & E & _). lia.
  Qed.

  Lemma lr_check_lru_ok0 st fo st' o : lr_inv0 st -> lr_check_lru st fo = (st', o) ->
    lr_inv0 st' /\ match o with Some r => lres_entry_ok fo r | None => True end.
  Proof.
    intros I. unfold lr_check_lru. destruct (l_on st).
    - destruct (lru_get fo (l_lru st)) as [[r|] c] eqn:G; intro H; inversion H; subst.
      + apply lru_get_Some in G as [A B]. split.
        * apply lr_inv0_cnt. apply lr_inv0_set_lru; [exact I|]. intros k x X. eapply li0_lru; eauto.
        * eapply li0_lru; eauto.
      + split; [apply lr_inv0_cnt; exact I|exact Logic.I].
    - intro H; inversion H; subst. split; [exact I|exact Logic.I].
  Qed.

  Lemma get_linep_sound0 st fo s : lr_inv0 st -> lr_get_linep st fo = Some s ->
    exists b e, sline_ok s b e /\ b <= fo /\ fo <= e /\ alookup b (l_lines st) = Some s /\
                afirst_ge fo (l_foend st) = Some (e, b).
  Proof.
    intros I. unfold lr_get_linep.
    destruct (afirst_ge fo (l_foend st)) as [[e b]|] eqn:A; [|discriminate].
    destruct (N.ltb_spec fo b); [discriminate|]. intro L.
    destruct (afirst_ge_spec _ _ _ _ A) as (A1 & A2 & _).
    pose proof (li0_foend st I _ _ A2) as SP.
    destruct (li0_lines st I _ _ L) as (e' & S').
    assert (e' = e) by (destruct S' as [SP' _]; eapply span_unique_e; eauto). subst e'.
    exists b, e. auto.
  Qed.

  (* completeness of check_store: a stored line that contains fo is found *)
  Lemma get_linep_complete0 st fo b e s : lr_inv0 st -> alookup b (l_lines st) = Some s -> span f b e ->
    b <= fo -> fo <= e -> alookup fo (l_lines st) <> None \/ lr_get_linep st fo <> None.
  Proof.
    intros I L SP B1 B2. right. unfold lr_get_linep.
    pose proof (li0_link st I _ _ _ L SP) as IN.
    destruct (afirst_ge fo (l_foend st)) as [[e2 b2]|] eqn:A.
    - destruct (afirst_ge_spec _ _ _ _ A) as (A1 & A2 & A3).
      pose proof (li0_foend st I _ _ A2) as SP2.
      specialize (A3 _ _ IN B2).
      destruct (span_end_inside f b e b2 e2 SP SP2 ltac:(lia) A3) as [-> ->].
      destruct (N.ltb_spec fo b); [lia|]. rewrite L. discriminate.
    - pose proof (afirst_ge_None _ _ A _ _ IN). lia.
  Qed.

  Lemma lr_answer_ok st fo s p st' r p' b e : lr_inv0 st -> sline_ok s b e -> b <= fo -> fo <= e ->
    lr_answer st fo bs s p = (st', r, p') -> lr_inv0 st' /\ lres_ok fo r.
  Proof.
    intros I S B1 B2. unfold lr_answer.
    destruct (line_ok_facts bs f _ _ _ S) as (_ & LE & _). unfold sl_parts in *. rewrite LE.
    intro H; inversion H; subst. destruct S as [SP C].
    destruct (span_in f b e fo SP B1 B2) as [LB LE'].
    assert (L : fo < lenN f) by (destruct SP as (_ & ? & _); lia).
    split.
    - apply lr_put_inv; [exact I|]. exists b, e. split; [split; assumption|]. repeat split; auto.
    - unfold lres_ok. destruct (N.ltb_spec fo (lenN f)); [|lia]. rewrite LB, LE'.
      exists s. split; [reflexivity|split; assumption].
  Qed.

  Lemma lr_check_store_ok st fo o st2 : lr_inv0 st -> lr_check_store bs st fo = (o, st2) ->
    match o with
    | Some (st', r, _) => lr_inv0 st' /\ lres_ok fo r
    | None => lr_inv0 st2 /\ alookup fo (l_lines st2) = None /\ lr_get_linep st2 fo = None /\
              l_lines st2 = l_lines st /\ l_foend st2 = l_foend st
    end.
  Proof.
    intros I. unfold lr_check_store.
    destruct (alookup fo (l_lines st)) as [s|] eqn:L.
    - intro H. injection H as <- <-. destruct (lr_answer _ _ _ _ _) as [[st' r] p'] eqn:A.
      destruct (li0_lines st I _ _ L) as (e & S).
      eapply (lr_answer_ok _ fo s PLines st' r p' fo e); [apply lr_inv0_cnt; exact I|exact S|lia| |exact A].
      destruct S as [(? & _) _]. assumption.
    - destruct (lr_get_linep (lr_cnt lc_miss_up st) fo) as [s|] eqn:G.
      + intro H. injection H as <- <-. destruct (lr_answer _ _ _ _ _) as [[st' r] p'] eqn:A.
        assert (I' : lr_inv0 (lr_cnt lc_miss_up st)) by (apply lr_inv0_cnt; exact I).
        destruct (get_linep_sound0 _ _ _ I' G) as (b & e & S & B1 & B2 & _).
        eapply lr_answer_ok; eauto.
      + intro H. injection H as <- <-. split; [apply lr_inv0_cnt; exact I|]. cbn. auto.
  Qed.

  Lemma lr_insert_line_ok0 st ps b e : lr_inv0 st -> line_ok bs f ps b e ->
    exists st', lr_insert_line bs st ps = Some (st', (l_nid st, ps)) /\ lr_inv0 st' /\
                l_on st' = l_on st /\ l_lru st' = l_lru st.
  Proof.
    intros I S. unfold lr_insert_line.
    destruct (line_ok_facts bs f _ _ _ S) as (LB & LE & _). rewrite LB, LE.
    eexists. split; [reflexivity|]. split; [|split; reflexivity].
    destruct S as [SP C]. split; cbn.
    - intros k s. rewrite alookup_ainsert. destruct (N.eqb_spec k b).
      + intro H; inversion H; subst. exists e. split; assumption.
      + apply (li0_lines st I).
    - intros e' b' IN. apply In_ainsert in IN as [IN|IN].
      + inversion IN; subst. exact SP.
      + eapply li0_foend; eauto.
    - intros k s e'. rewrite alookup_ainsert. destruct (N.eqb_spec k b).
      + intros _ SP'. subst k. rewrite (span_unique_e f b e' e SP' SP). apply In_ainsert_new.
      + intros L SP'. pose proof (li0_link st I _ _ _ L SP') as IN.
        destruct (N.eq_dec e' e) as [->|NE].
        * exfalso. apply n. eapply span_unique_b; eauto.
        * apply In_ainsert_old; assumption.
    - apply (li0_lru st I).
  Qed.

  Lemma lr_store_found_ok st fo ps p st' r p' : lr_inv0 st -> fo < lenN f ->
    line_ok bs f ps (line_beg f fo) (line_end f fo) ->
    lr_store_found bs st fo (line_end f fo + 1) ps p = (st', r, p') -> lr_inv0 st' /\ lres_ok fo r.
  Proof.
    intros I L S. unfold lr_store_found.
    destruct (lr_insert_line_ok0 st ps _ _ I S) as (st1 & E & I1 & _). rewrite E.
    intro H; inversion H; subst. split.
    - apply lr_put_inv; [exact I1|]. apply entry_of_ok; assumption.
    - unfold lres_ok. destruct (N.ltb_spec fo (lenN f)); [|lia].
      eexists. split; [reflexivity|exact S].
  Qed.

  (* the line that follows a stored line which ends at fo-1 begins at fo *)
  Lemma prev_line_ends st fo : lr_inv0 st -> 0 < fo -> fo < lenN f ->
    alookup fo (l_lines st) = None -> lr_get_linep st fo = None ->
    (alookup (fo - 1) (l_lines st) <> None \/ lr_get_linep st (fo - 1) <> None) ->
    line_beg f fo = fo.
  Proof.
    intros I P L M1 M2 K.
    assert (X : exists b e s, alookup b (l_lines st) = Some s /\ span f b e /\ b <= fo - 1 /\ fo - 1 <= e).
    { destruct K as [K|K].
      - destruct (alookup (fo - 1) (l_lines st)) as [s|] eqn:A; [|congruence].
        destruct (li0_lines st I _ _ A) as (e & [SP _]). exists (fo - 1), e, s.
        split; [exact A|]. split; [exact SP|]. split; [lia|]. destruct SP as (? & _); assumption.
      - destruct (lr_get_linep st (fo - 1)) as [s|] eqn:A; [|congruence].
        destruct (get_linep_sound0 _ _ _ I A) as (b & e & [SP _] & B1 & B2 & LK & _).
        exists b, e, s. split; [exact LK|]. split; [exact SP|]. split; assumption. }
    destruct X as (b & e & s & LK & SP & B1 & B2).
    destruct (N.eq_dec e (fo - 1)) as [E|E].
    - pose proof (span_next_beg f b e SP ltac:(lia)) as NB. replace (e + 1) with fo in NB by lia. exact NB.
    - exfalso. destruct (get_linep_complete0 st fo b e s I LK SP ltac:(lia) ltac:(lia)); congruence.
  Qed.

  Lemma first_line_beg fo : fo = 0 -> line_beg f fo = 0.
  Proof.
    intros ->. apply line_beg_char; [lia|]. unfold is_beg. repeat split; [lia| |left; reflexivity].
    intros k K1 K2. lia.
  Qed.

  (* a line built from the forward half alone, when its begin is known to be fo *)
  Lemma mid_line_ok fo e after bme : fo < lenN f -> line_beg f fo = fo ->
    is_end f fo e ->
    chain bs ((block_offset_at_file_offset fo bs, block_index_at_file_offset fo bs, bme + 1) :: after)
          (block_offset_at_file_offset fo bs * bs + block_index_at_file_offset fo bs) (e + 1) ->
    e = line_end f fo /\
    line_ok bs f ((block_offset_at_file_offset fo bs, block_index_at_file_offset fo bs, bme + 1) :: after)
            (line_beg f fo) (line_end f fo).
  Proof.
    intros L LB E C. apply line_end_char in E. subst e. split; [reflexivity|].
    destruct (span_of f fo L) as (SP & _ & _). split; [exact SP|].
    rewrite LB. destruct (div_mod_bs fo bs Hbs) as [EQ _].
    unfold block_offset_at_file_offset in *. rewrite <- EQ in C. exact C.
  Qed.

  (* ---------------------------------------------------------------- reads through the LineReader *)

  Definition lr_tot (st : lr_state) : Prop := reads_total (l_blk st).

  Definition same_maps (st st' : lr_state) : Prop :=
    l_lines st' = l_lines st /\ l_foend st' = l_foend st /\ l_lru st' = l_lru st /\ l_on st' = l_on st /\
    l_nid st' = l_nid st /\ l_cnt st' = l_cnt st /\ l_ext st' = l_ext st.

  Lemma same_maps_refl st : same_maps st st. Proof. repeat split. Qed.
  Lemma same_maps_trans a b c : same_maps a b -> same_maps b c -> same_maps a c.
  Proof. intros (A1 & A2 & A3 & A4 & A5 & A6 & A7) (B1 & B2 & B3 & B4 & B5 & B6 & B7). repeat split; congruence. Qed.

  Lemma same_maps_inv st st' : same_maps st st' -> lr_inv0 st -> lr_inv0 st'.
  Proof. intros (A1 & A2 & A3 & _). apply lr_inv0_maps; assumption. Qed.

  Lemma same_maps_linep st st' x : same_maps st st' -> lr_get_linep st' x = lr_get_linep st x.
  Proof. intros (A1 & A2 & _). unfold lr_get_linep. rewrite A1, A2. reflexivity. Qed.

  Definition blast : N := blockoffset_last (lenN f) bs.

  Lemma lr_read_ok st inprog bo st' r : lr_read bs f st inprog bo = (st', r) ->
    same_maps st st' /\ (lr_tot st -> bo <= blast -> 0 < lenN f -> r = BFound /\ lr_tot st').
  Proof.
    unfold lr_read. destruct (b_read_block _ _ _ _ _) as [b x] eqn:E. intro H; injection H as <- <-.
    split; [repeat split|]. intros T L F.
    destruct (b_read_block_total (lr_refd st inprog) (lenN f) blast (l_blk st) bo T L F) as (b' & E' & T').
    unfold blast in E'. rewrite E in E'. injection E' as -> ->. split; [reflexivity|exact T'].
  Qed.

  Lemma lr_reads_fwd_ok n : forall st lo b st' r, lr_reads_fwd n bs f st lo b = (st', r) ->
    same_maps st st' /\ (lr_tot st -> b + N.of_nat n <= blast + 1 -> 0 < lenN f -> r = BFound /\ lr_tot st').
  Proof.
    induction n as [|n IH]; intros st lo b st' r; cbn [lr_reads_fwd].
    - intro H; injection H as <- <-. split; [apply same_maps_refl|auto].
    - destruct (lr_read bs f st _ b) as [st1 r1] eqn:R.
      destruct (lr_read_ok _ _ _ _ _ R) as (M1 & T1).
      destruct r1.
      + intro H. destruct (IH _ _ _ _ _ H) as (M2 & T2). split; [eapply same_maps_trans; eauto|].
        intros T L F. destruct (T1 T ltac:(lia) F) as (_ & T'). apply T2; auto. lia.
      + intro H; injection H as <- <-. split; [exact M1|]. intros T L F. destruct (T1 T ltac:(lia) F) as (X & _). discriminate.
      + intro H; injection H as <- <-. split; [exact M1|]. intros T L F. destruct (T1 T ltac:(lia) F) as (X & _). discriminate.
      + intro H; injection H as <- <-. split; [exact M1|]. intros T L F. destruct (T1 T ltac:(lia) F) as (X & _). discriminate.
  Qed.

  Lemma lr_reads_bwd_ok n : forall st b st' r, lr_reads_bwd n bs f st b = (st', r) ->
    same_maps st st' /\ (lr_tot st -> b <= blast -> 0 < lenN f -> r = BFound /\ lr_tot st').
  Proof.
    induction n as [|n IH]; intros st b st' r; cbn [lr_reads_bwd].
    - intro H; injection H as <- <-. split; [apply same_maps_refl|auto].
    - destruct (lr_read bs f st _ b) as [st1 r1] eqn:R.
      destruct (lr_read_ok _ _ _ _ _ R) as (M1 & T1).
      destruct r1.
      + intro H. destruct (IH _ _ _ _ H) as (M2 & T2). split; [eapply same_maps_trans; eauto|].
        intros T L F. destruct (T1 T L F) as (_ & T'). apply T2; auto. lia.
      + intro H; injection H as <- <-. split; [exact M1|]. intros T L F. destruct (T1 T L F) as (X & _). discriminate.
      + intro H; injection H as <- <-. split; [exact M1|]. intros T L F. destruct (T1 T L F) as (X & _). discriminate.
      + intro H; injection H as <- <-. split; [exact M1|]. intros T L F. destruct (T1 T L F) as (X & _). discriminate.
  Qed.

  (* the helpers of find_line do not touch the BlockReader *)
  Lemma blk_put st fo r : l_blk (lr_put st fo r) = l_blk st.
  Proof. unfold lr_put. destruct (l_on st); reflexivity. Qed.
  Lemma blk_check_lru st fo st' o : lr_check_lru st fo = (st', o) -> l_blk st' = l_blk st.
  Proof.
    unfold lr_check_lru. destruct (l_on st); [|intro H; injection H as <- _; reflexivity].
    destruct (lru_get fo (l_lru st)) as [[x|] c]; intro H; injection H as <- _; reflexivity.
  Qed.
  Lemma blk_answer st fo s p st' r p' : lr_answer st fo bs s p = (st', r, p') -> l_blk st' = l_blk st.
  Proof.
    unfold lr_answer. destruct (line_fo_end bs (sl_parts s)); intro H; injection H as <- _ _; [apply blk_put|reflexivity].
  Qed.
  Lemma blk_check_store st fo o st2 : lr_check_store bs st fo = (o, st2) ->
    l_blk st2 = l_blk st /\ match o with Some (st', _, _) => l_blk st' = l_blk st | None => True end.
  Proof.
    unfold lr_check_store. destruct (alookup fo (l_lines st)).
    - intro H; injection H as <- <-. split; [reflexivity|]. destruct (lr_answer _ _ _ _ _) as [[a b] c] eqn:E.
      apply blk_answer in E. exact E.
    - destruct (lr_get_linep _ fo).
      + intro H; injection H as <- <-. split; [reflexivity|]. destruct (lr_answer _ _ _ _ _) as [[a b] c] eqn:E.
        apply blk_answer in E. exact E.
      + intro H; injection H as <- <-. auto.
  Qed.
  Lemma blk_store_found st fo n ps p st' r p' : lr_store_found bs st fo n ps p = (st', r, p') -> l_blk st' = l_blk st.
  Proof.
    unfold lr_store_found, lr_insert_line.
    destruct (line_fo_begin bs ps); [destruct (line_fo_end bs ps)|]; intro H; injection H as <- _ _; rewrite ?blk_put; reflexivity.
  Qed.

  (* a block the search needs is gone (streamed file): read_block returned Done, find_line returns Done;
     Panic stands for the two outcomes of read_block_FileXx that StreamProofs shows unreachable *)
  Definition lgone (r : res (N * sline)) (p : lpath) : Prop :=
    (r = Done /\ p = PGone) \/ (r = Panic /\ p = PFail).

  Lemma bfwd_range fo e : fo <= e -> e < lenN f ->
    block_offset_at_file_offset fo bs +
    N.of_nat (S (N.to_nat (block_offset_at_file_offset e bs - block_offset_at_file_offset fo bs))) <= blast + 1.
  Proof.
    intros L1 L2. unfold block_offset_at_file_offset.
    pose proof (div_mono fo e bs Hbs L1). pose proof (blockoffset_last_ge (lenN f) bs e Hbs L2). fold blast in H0.
    rewrite Nat2N.inj_succ, N2Nat.id. lia.
  Qed.

  Theorem c_find_line_ok0 st fo st' r p : lr_inv0 st -> c_find_line bs f st fo = (st', r, p) ->
    lr_inv0 st' /\ (lres_ok fo r \/ lgone r p) /\ (lr_tot st -> lr_tot st' /\ lres_ok fo r).
  Proof.
    intros I. unfold c_find_line.
    destruct (lr_check_lru st fo) as [st1 [x|]] eqn:CL.
    - destruct (lr_check_lru_ok0 _ _ _ _ I CL) as [I1 R]. pose proof (blk_check_lru _ _ _ _ CL) as B1.
      intro H; injection H as <- <- <-.
      assert (RR : lres_ok fo (lres_result x)) by (apply entry_result; [exact R|eapply entry_lt; eauto]).
      split; [exact I1|]. split; [left; exact RR|]. intro T. split; [unfold lr_tot; rewrite B1; exact T|exact RR].
    - destruct (lr_check_lru_ok0 _ _ _ _ I CL) as [I1 _]. pose proof (blk_check_lru _ _ _ _ CL) as B1.
      assert (EOF : lenN f <= fo -> lres_ok fo Done).
      { intro Q. unfold lres_ok. destruct (N.ltb_spec fo (lenN f)); [lia|reflexivity]. }
      destruct (N.eqb_spec (lenN f) 0) as [Z|Z]; cbn [orb].
      { intro H; injection H as <- <- <-. split; [exact I1|]. split; [left; apply EOF; lia|].
        intro T. split; [unfold lr_tot; rewrite B1; exact T|apply EOF; lia]. }
      destruct (N.ltb_spec (lenN f) fo) as [Z2|Z2]; cbn [orb].
      { intro H; injection H as <- <- <-. split; [exact I1|]. split; [left; apply EOF; lia|].
        intro T. split; [unfold lr_tot; rewrite B1; exact T|apply EOF; lia]. }
      destruct (N.eqb_spec fo (lenN f)) as [Z3|Z3].
      { intro H; injection H as <- <- <-. split; [exact I1|]. split; [left; apply EOF; lia|].
        intro T. split; [unfold lr_tot; rewrite B1; exact T|apply EOF; lia]. }
      assert (L : fo < lenN f) by lia.
      destruct (lr_check_store bs st1 fo) as [[[[st2 r2] p2]|] st3] eqn:CS.
      + pose proof (lr_check_store_ok _ _ _ _ I1 CS) as [I2 R2]. destruct (blk_check_store _ _ _ _ CS) as [_ B2].
        intro H; injection H as <- <- <-. split; [exact I2|]. split; [left; exact R2|].
        intro T. split; [unfold lr_tot; rewrite B2, B1; exact T|exact R2].
      + pose proof (lr_check_store_ok _ _ _ _ I1 CS) as (I3 & M1 & M2 & _). destruct (blk_check_store _ _ _ _ CS) as [B3 _].
        destruct (fwd_search_ok bs f fo (S (length f)) Hbs L (fuel_ok bs f Hbs ltac:(lia)))
          as (e & after & bme & FW & E & _ & _ & _ & MID & _). rewrite FW.
        assert (EE : fo <= e /\ e < lenN f) by (destruct E as (? & ? & _); split; assumption).
        destruct (lr_reads_fwd _ bs f st3 _ _) as [st4 rf] eqn:RF.
        destruct (lr_reads_fwd_ok _ _ _ _ _ _ RF) as (SM & TF).
        pose proof (same_maps_inv _ _ SM I3) as I4.
        assert (TF' : lr_tot st -> rf = BFound /\ lr_tot st4).
        { intro T. apply TF; [unfold lr_tot; rewrite B3, B1; exact T| |lia]. apply bfwd_range; lia. }
        assert (M1' : alookup fo (l_lines st4) = None) by (destruct SM as (A & _); rewrite A; exact M1).
        assert (M2' : lr_get_linep st4 fo = None) by (rewrite (same_maps_linep _ _ fo SM); exact M2).
        destruct rf.
        2:{ intro H; injection H as <- <- <-. split; [exact I4|]. split; [right; left; auto|]. intro T. destruct (TF' T) as (X & _). discriminate. }
        2:{ intro H; injection H as <- <- <-. split; [exact I4|]. split; [right; right; auto|]. intro T. destruct (TF' T) as (X & _). discriminate. }
        2:{ intro H; injection H as <- <- <-. split; [exact I4|]. split; [right; right; auto|]. intro T. destruct (TF' T) as (X & _). discriminate. }
        assert (FIN : forall st5 st6 r6 p6 ps, lr_inv0 st5 -> l_blk st5 = l_blk st4 ->
                  line_ok bs f ps (line_beg f fo) (line_end f fo) ->
                  lr_store_found bs st5 fo (line_end f fo + 1) ps p6 = (st6, r6, p) ->
                  lr_inv0 st6 /\ (lres_ok fo r6 \/ lgone r6 p) /\ (lr_tot st -> lr_tot st6 /\ lres_ok fo r6)).
        { intros st5 st6 r6 p6 ps I5 B5 OK SF. destruct (lr_store_found_ok _ _ _ _ _ _ _ I5 L OK SF) as [I6 R6].
          split; [exact I6|]. split; [left; exact R6|]. intro T. split; [|exact R6].
          unfold lr_tot. rewrite (blk_store_found _ _ _ _ _ _ _ _ SF), B5. apply (TF' T). }
        destruct (N.eqb_spec fo 0) as [Z0|Z0].
        * (* A0 *)
          pose proof (first_line_beg fo Z0) as LB.
          specialize (MID (block_index_at_file_offset fo bs) ltac:(lia)).
          destruct (mid_line_ok fo e after bme L ltac:(lia) E MID) as [-> OK].
          subst fo. intro H. eapply FIN; eauto.
        * assert (MIDOK : line_beg f fo = fo ->
                   e = line_end f fo /\
                   line_ok bs f ((block_offset_at_file_offset fo bs, block_index_at_file_offset fo bs, bme + 1) :: after)
                           (line_beg f fo) (line_end f fo)).
          { intro LB. apply mid_line_ok; [exact L|exact LB|exact E|apply MID; lia]. }
          destruct (alookup (fo - 1) (l_lines st4)) as [sp|] eqn:A1.
          -- (* A1a *)
             assert (LB : line_beg f fo = fo).
             { apply (prev_line_ends st4); auto; [lia|]. left. congruence. }
             destruct (MIDOK LB) as [-> OK]. intro H.
             eapply (FIN (lr_cnt lc_hits_up st4)); [apply lr_inv0_cnt; exact I4|reflexivity|exact OK|exact H].
          -- destruct (lr_get_linep (lr_cnt lc_miss_up st4) (fo - 1)) as [sp|] eqn:A2.
             ++ (* A1b *)
                assert (LB : line_beg f fo = fo).
                { apply (prev_line_ends st4); auto; [lia|]. right. unfold lr_get_linep in *. cbn in A2. congruence. }
                destruct (MIDOK LB) as [-> OK]. intro H.
                eapply (FIN (lr_cnt lc_miss_up st4)); [apply lr_inv0_cnt; exact I4|reflexivity|exact OK|exact H].
             ++ (* full search *)
                destruct (search_ok bs f fo Hbs ltac:(lia) L e after bme FW) as (ps & BK & OK & LE).
                rewrite BK. destruct (line_ok_facts bs f _ _ _ OK) as (LBG & _ & _ & NE).
                destruct ps as [|p0 ps]; [congruence|]. rewrite LBG, LE.
                destruct (lr_reads_bwd _ bs f (lr_cnt lc_miss_up st4) _) as [st5 rb] eqn:RB.
                destruct (lr_reads_bwd_ok _ _ _ _ _ RB) as (SM5 & TB).
                pose proof (same_maps_inv _ _ SM5 (lr_inv0_cnt _ _ I4)) as I5.
                assert (TB' : lr_tot st -> rb = BFound /\ lr_tot st5).
                { intro T. apply TB; [exact (proj2 (TF' T))| |lia].
                  pose proof (blockoffset_last_ge (lenN f) bs fo Hbs L) as Q. fold blast in Q.
                  unfold block_offset_at_file_offset. lia. }
                destruct rb.
                ** intro H. destruct (lr_store_found_ok _ _ _ _ _ _ _ I5 L OK H) as [I6 R6].
                   split; [exact I6|]. split; [left; exact R6|]. intro T. split; [|exact R6].
                   unfold lr_tot. rewrite (blk_store_found _ _ _ _ _ _ _ _ H). apply (TB' T).
                ** intro H; injection H as <- <- <-. split; [exact I5|]. split; [right; left; auto|]. intro T. destruct (TB' T) as (X & _). discriminate.
                ** intro H; injection H as <- <- <-. split; [exact I5|]. split; [right; right; auto|]. intro T. destruct (TB' T) as (X & _). discriminate.
                ** intro H; injection H as <- <- <-. split; [exact I5|]. split; [right; right; auto|]. intro T. destruct (TB' T) as (X & _). discriminate.
  Qed.

  (* ---------------------------------------------------------------- find_line_in_block *)

  Lemma lr_fresh_line_inv0 st ps st' s : lr_inv0 st -> lr_fresh_line st ps = (st', s) -> lr_inv0 st' /\ s = (l_nid st, ps).
  Proof.
    intros I H. unfold lr_fresh_line in H. injection H as <- <-. split; [|reflexivity].
    eapply lr_inv0_maps; [| | |exact I]; reflexivity.
  Qed.

  (* what find_line_in_block may answer: the spec line, or Done (the line is not inside the block) *)
  Definition lres_in_block_ok (fo : N) (r : res (N * sline)) : Prop :=
    match r with
    | Found _ => lres_ok fo r
    | Done => True
    | _ => False
    end.

  Lemma lres_ok_in_block fo r : lres_ok fo r -> lres_in_block_ok fo r.
  Proof.
    unfold lres_ok, lres_in_block_ok. destruct (fo <? lenN f) eqn:E.
    - intros (s & -> & S). cbn. unfold lres_ok. rewrite E. eauto.
    - intros ->. exact Logic.I.
  Qed.

  Lemma c_flib_core_blk st fo st' x p : c_flib_core bs f st fo = (st', x, p) -> l_blk st' = l_blk st.
  Proof.
    unfold c_flib_core. cbv zeta.
    repeat match goal with
    | |- context [lr_store_found ?a ?b ?c ?d ?e ?g] => destruct (lr_store_found a b c d e g) as [[? ?] ?] eqn:?SF
    | |- context [lr_fresh_line ?a ?b] => destruct (lr_fresh_line a b) as [? ?] eqn:?FL
    | |- context [if ?X then _ else _] => destruct X
    | |- context [match ?X with _ => _ end] => destruct X
    end;
    intro H; injection H as <- _ _;
    try (match goal with SF : lr_store_found _ _ _ _ _ _ = _ |- _ => apply blk_store_found in SF; exact SF end);
    try (match goal with FL : lr_fresh_line _ _ = _ |- _ => unfold lr_fresh_line in FL; injection FL as <- _; reflexivity end);
    reflexivity.
  Qed.

  Lemma c_flib_core_ok st3 fo st' r part p : lr_inv0 st3 -> fo < lenN f ->
    alookup fo (l_lines st3) = None -> lr_get_linep st3 fo = None ->
    c_flib_core bs f st3 fo = (st', (r, part), p) -> lr_inv0 st' /\ lres_in_block_ok fo r.
  Proof.
    intros I3 L M1 M2. unfold c_flib_core.
    destruct (fwd_search_ok bs f fo (S (length f)) Hbs L (fuel_ok bs f Hbs ltac:(lia)))
      as (e & after & bme & FW & E & B1 & B2 & _ & MID & CASES & NOAFTER).
    cbv zeta in *.
    set (bo := block_offset_at_file_offset fo bs) in *.
    set (bi := block_index_at_file_offset fo bs) in *.
    destruct (nthN (block bs f bo) bi) as [x0|] eqn:X0.
    2:{ exfalso. unfold fwd_search in FW. fold bo bi in FW. rewrite X0 in FW. discriminate. }
    assert (LE : e = line_end f fo) by (symmetry; apply line_end_char; exact E).
    destruct CASES as [(d & FN & BM)|[(FN & BL & BM)|(FN & BL & BM)]]; rewrite FN.
    1,2: (destruct NOAFTER as [-> EE]; [first [right; congruence|left; assumption]|]).
    3: (destruct (N.eqb_spec bo (blockoffset_last (lenN f) bs)); [contradiction|]).
    1,2: (try (destruct (N.eqb_spec bo (blockoffset_last (lenN f) bs)); [|contradiction]);
          unfold file_offset_at_block_offset_index, file_offset_at_block_offset;
          rewrite <- ?BM; rewrite <- EE;
          (destruct (N.eqb_spec fo 0) as [Z0|Z0];
           [ (* A0 *)
             pose proof (first_line_beg fo Z0) as LB;
             destruct (mid_line_ok fo e [] bme L ltac:(lia) E (MID bi ltac:(lia))) as [_ OK];
             cbn [negb]; destruct (lr_store_found _ _ _ _ _ _) as [[st5 r5] p5] eqn:SF;
             intro H; injection H as <- <- <- <-; subst fo;
             rewrite LE in SF;
             destruct (lr_store_found_ok _ _ _ _ _ _ _ I3 L OK SF) as [I5 R5];
             split; [exact I5|apply lres_ok_in_block; exact R5]
           | ])).
    * (* newline B inside the block, fo > 0 *)
      destruct (alookup (fo - 1) (l_lines st3)) as [sp|] eqn:A1.
      -- assert (LB : line_beg f fo = fo).
         { apply (prev_line_ends st3); auto; [lia|]. left. congruence. }
         destruct (mid_line_ok fo e [] bme L LB E (MID bi ltac:(lia))) as [_ OK].
         destruct (lr_store_found _ _ _ _ _ _) as [[st5 r5] p5] eqn:SF.
         intro H; injection H as <- <- <- <-. rewrite LE in SF.
         destruct (lr_store_found_ok _ _ _ _ _ _ _ (lr_inv0_cnt lc_hits_up _ I3) L OK SF) as [I5 R5].
         split; [exact I5|apply lres_ok_in_block; exact R5].
      -- destruct (lr_get_linep (lr_cnt lc_miss_up st3) (fo - 1)) as [sp|] eqn:A2.
         ++ assert (LB : line_beg f fo = fo).
            { apply (prev_line_ends st3); auto; [lia|]. right. unfold lr_get_linep in *. cbn in A2. congruence. }
            destruct (mid_line_ok fo e [] bme L LB E (MID bi ltac:(lia))) as [_ OK].
            destruct (lr_store_found _ _ _ _ _ _) as [[st5 r5] p5] eqn:SF.
            intro H; injection H as <- <- <- <-. rewrite LE in SF.
            destruct (lr_store_found_ok _ _ _ _ _ _ _ (lr_inv0_cnt lc_miss_up _ I3) L OK SF) as [I5 R5].
            split; [exact I5|apply lres_ok_in_block; exact R5].
         ++ destruct (search_ok bs f fo Hbs ltac:(lia) L e [] bme FW) as (ps & BK & OK & _).
            unfold back_search in BK. fold bo bi in BK.
            destruct (N.eqb_spec (block_offset_at_file_offset (fo - 1) bs) bo) as [EB|EB]; cbn [negb].
            2:{ intro H; injection H as <- <- <- <-. split; [apply lr_inv0_cnt; exact I3|exact Logic.I]. }
            destruct (rfind_nl (firstnN (block_index_at_file_offset (fo - 1) bs + 1) (block bs f bo))) as [i|] eqn:RF.
            ** injection BK as <-.
               destruct (lr_fresh_line _ _) as [st5 s5] eqn:FL.
               destruct (lr_fresh_line_inv0 _ _ _ _ (lr_inv0_cnt lc_miss_up _ I3) FL) as [I5 ->].
               intro H; injection H as <- <- <- <-. split; [exact I5|].
               cbn. unfold lres_ok. destruct (N.ltb_spec fo (lenN f)); [|lia].
               eexists. rewrite LE. split; [reflexivity|exact OK].
            ** destruct (N.eqb_spec (block_offset_at_file_offset (fo - 1) bs) 0) as [Z1|Z1]; cbn [negb] in BK.
               --- injection BK as <-.
                   destruct (lr_fresh_line _ _) as [st5 s5] eqn:FL.
                   destruct (lr_fresh_line_inv0 _ _ _ _ (lr_inv0_cnt lc_miss_up _ I3) FL) as [I5 ->].
                   intro H; injection H as <- <- <- <-. split; [exact I5|].
                   cbn. unfold lres_ok. destruct (N.ltb_spec fo (lenN f)); [|lia].
                   eexists. rewrite LE. split; [reflexivity|exact OK].
               --- intro H; injection H as <- <- <- <-. split; [apply lr_inv0_cnt; exact I3|exact Logic.I].
    * (* end of file inside the last block, fo > 0 *)
      destruct (alookup (fo - 1) (l_lines st3)) as [sp|] eqn:A1.
      -- assert (LB : line_beg f fo = fo).
         { apply (prev_line_ends st3); auto; [lia|]. left. congruence. }
         destruct (mid_line_ok fo e [] bme L LB E (MID bi ltac:(lia))) as [_ OK].
         destruct (lr_store_found _ _ _ _ _ _) as [[st5 r5] p5] eqn:SF.
         intro H; injection H as <- <- <- <-. rewrite LE in SF.
         destruct (lr_store_found_ok _ _ _ _ _ _ _ (lr_inv0_cnt lc_hits_up _ I3) L OK SF) as [I5 R5].
         split; [exact I5|apply lres_ok_in_block; exact R5].
      -- destruct (lr_get_linep (lr_cnt lc_miss_up st3) (fo - 1)) as [sp|] eqn:A2.
         ++ assert (LB : line_beg f fo = fo).
            { apply (prev_line_ends st3); auto; [lia|]. right. unfold lr_get_linep in *. cbn in A2. congruence. }
            destruct (mid_line_ok fo e [] bme L LB E (MID bi ltac:(lia))) as [_ OK].
            destruct (lr_store_found _ _ _ _ _ _) as [[st5 r5] p5] eqn:SF.
            intro H; injection H as <- <- <- <-. rewrite LE in SF.
            destruct (lr_store_found_ok _ _ _ _ _ _ _ (lr_inv0_cnt lc_miss_up _ I3) L OK SF) as [I5 R5].
            split; [exact I5|apply lres_ok_in_block; exact R5].
         ++ destruct (search_ok bs f fo Hbs ltac:(lia) L e [] bme FW) as (ps & BK & OK & _).
            unfold back_search in BK. fold bo bi in BK.
            destruct (N.eqb_spec (block_offset_at_file_offset (fo - 1) bs) bo) as [EB|EB]; cbn [negb].
            2:{ intro H; injection H as <- <- <- <-. split; [apply lr_inv0_cnt; exact I3|exact Logic.I]. }
            destruct (rfind_nl (firstnN (block_index_at_file_offset (fo - 1) bs + 1) (block bs f bo))) as [i|] eqn:RF.
            ** injection BK as <-.
               destruct (lr_fresh_line _ _) as [st5 s5] eqn:FL.
               destruct (lr_fresh_line_inv0 _ _ _ _ (lr_inv0_cnt lc_miss_up _ I3) FL) as [I5 ->].
               intro H; injection H as <- <- <- <-. split; [exact I5|].
               cbn. unfold lres_ok. destruct (N.ltb_spec fo (lenN f)); [|lia].
               eexists. rewrite LE. split; [reflexivity|exact OK].
            ** destruct (N.eqb_spec (block_offset_at_file_offset (fo - 1) bs) 0) as [Z1|Z1]; cbn [negb] in BK.
               --- injection BK as <-.
                   destruct (lr_fresh_line _ _) as [st5 s5] eqn:FL.
                   destruct (lr_fresh_line_inv0 _ _ _ _ (lr_inv0_cnt lc_miss_up _ I3) FL) as [I5 ->].
                   intro H; injection H as <- <- <- <-. split; [exact I5|].
                   cbn. unfold lres_ok. destruct (N.ltb_spec fo (lenN f)); [|lia].
                   eexists. rewrite LE. split; [reflexivity|exact OK].
               --- intro H; injection H as <- <- <- <-. split; [apply lr_inv0_cnt; exact I3|exact Logic.I].
    * (* partial line: nothing is stored *)
      destruct (N.eqb_spec fo 0) as [Z0|Z0].
      -- destruct (lr_fresh_line _ _) as [st5 s5] eqn:FL.
         destruct (lr_fresh_line_inv0 _ _ _ _ I3 FL) as [I5 _].
         intro H; injection H as <- <- <- <-. split; [exact I5|exact Logic.I].
      -- destruct (negb (block_offset_at_file_offset (fo - 1) bs =? bo)).
         { intro H; injection H as <- <- <- <-. split; [apply lr_inv0_cnt; exact I3|exact Logic.I]. }
         destruct (match rfind_nl _ with Some i => Some (i + 1) | None => _ end) as [b|].
         ++ destruct (lr_fresh_line _ _) as [st5 s5] eqn:FL.
            destruct (lr_fresh_line_inv0 _ _ _ _ (lr_inv0_cnt lc_miss_up _ I3) FL) as [I5 _].
            intro H; injection H as <- <- <- <-. split; [exact I5|exact Logic.I].
         ++ intro H; injection H as <- <- <- <-. split; [apply lr_inv0_cnt; exact I3|exact Logic.I].
  Qed.

  Theorem c_find_line_in_block_ok0 st fo st' r part p : lr_inv0 st ->
    c_find_line_in_block bs f st fo = (st', (r, part), p) ->
    lr_inv0 st' /\ (lres_in_block_ok fo r \/ lgone r p) /\ (lr_tot st -> lr_tot st' /\ lres_in_block_ok fo r).
  Proof.
    intros I. unfold c_find_line_in_block.
    destruct (lr_check_lru st fo) as [st1 [x|]] eqn:CL.
    - destruct (lr_check_lru_ok0 _ _ _ _ I CL) as [I1 R]. pose proof (blk_check_lru _ _ _ _ CL) as B1.
      intro H; injection H as <- <- <- <-.
      assert (RR : lres_in_block_ok fo (lres_result x)).
      { apply lres_ok_in_block. apply entry_result; [exact R|eapply entry_lt; eauto]. }
      split; [exact I1|]. split; [left; exact RR|]. intro T. split; [unfold lr_tot; rewrite B1; exact T|exact RR].
    - destruct (lr_check_lru_ok0 _ _ _ _ I CL) as [I1 _]. pose proof (blk_check_lru _ _ _ _ CL) as B1.
      destruct (N.eqb_spec (lenN f) 0) as [Z|Z]; cbn [orb].
      { intro H; injection H as <- <- <- <-. split; [exact I1|]. split; [left; exact Logic.I|].
        intro T. split; [unfold lr_tot; rewrite B1; exact T|exact Logic.I]. }
      destruct (N.ltb_spec (lenN f) fo) as [Z2|Z2]; cbn [orb].
      { intro H; injection H as <- <- <- <-. split; [exact I1|]. split; [left; exact Logic.I|].
        intro T. split; [unfold lr_tot; rewrite B1; exact T|exact Logic.I]. }
      destruct (N.eqb_spec fo (lenN f)) as [Z3|Z3].
      { intro H; injection H as <- <- <- <-. split; [exact I1|]. split; [left; exact Logic.I|].
        intro T. split; [unfold lr_tot; rewrite B1; exact T|exact Logic.I]. }
      assert (L : fo < lenN f) by lia.
      destruct (lr_check_store bs st1 fo) as [[[[st2 r2] p2]|] st3] eqn:CS.
      + pose proof (lr_check_store_ok _ _ _ _ I1 CS) as [I2 R2]. destruct (blk_check_store _ _ _ _ CS) as [_ B2].
        intro H; injection H as <- <- <- <-.
        split; [exact I2|]. split; [left; apply lres_ok_in_block; exact R2|].
        intro T. split; [unfold lr_tot; rewrite B2, B1; exact T|apply lres_ok_in_block; exact R2].
      + pose proof (lr_check_store_ok _ _ _ _ I1 CS) as (I3 & M1 & M2 & _). destruct (blk_check_store _ _ _ _ CS) as [B3 _].
        destruct (lr_read bs f st3 (fun _ => false) (block_offset_at_file_offset fo bs)) as [st4 rr] eqn:RD.
        destruct (lr_read_ok _ _ _ _ _ RD) as (SM & TR).
        pose proof (same_maps_inv _ _ SM I3) as I4.
        assert (TR' : lr_tot st -> rr = BFound /\ lr_tot st4).
        { intro T. apply TR; [unfold lr_tot; rewrite B3, B1; exact T| |lia].
          pose proof (blockoffset_last_ge (lenN f) bs fo Hbs L) as Q. exact Q. }
        assert (M1' : alookup fo (l_lines st4) = None) by (destruct SM as (A & _); rewrite A; exact M1).
        assert (M2' : lr_get_linep st4 fo = None) by (rewrite (same_maps_linep _ _ fo SM); exact M2).
        destruct rr.
        * intro H. destruct (c_flib_core_ok _ _ _ _ _ _ I4 L M1' M2' H) as [I5 R5].
          split; [exact I5|]. split; [left; exact R5|]. intro T. split; [|exact R5].
          unfold lr_tot. rewrite (c_flib_core_blk _ _ _ _ _ H). apply (TR' T).
        * intro H; injection H as <- <- <- <-. split; [exact I4|]. split; [right; left; auto|]. intro T. destruct (TR' T) as (X & _). discriminate.
        * intro H; injection H as <- <- <- <-. split; [exact I4|]. split; [right; right; auto|]. intro T. destruct (TR' T) as (X & _). discriminate.
        * intro H; injection H as <- <- <- <-. split; [exact I4|]. split; [right; right; auto|]. intro T. destruct (TR' T) as (X & _). discriminate.
  Qed.

  (* ---------------------------------------------------------------- drops and switches *)

  Lemma fold_set_blk_inv (g : lr_state -> part -> bstate) l : forall st, lr_inv0 st ->
    lr_inv0 (fold_left (fun st p => lr_set_blk (g st p) st) l st).
  Proof.
    induction l as [|p l IH]; intros st I; cbn [fold_left]; [exact I|].
    apply IH. eapply lr_inv0_maps; [| | |exact I]; reflexivity.
  Qed.

  Lemma lr_drop_line_inv0 st s extra : lr_inv0 st -> lr_inv0 (lr_drop_line bs st s extra).
  Proof.
    intros I. unfold lr_drop_line. destruct (line_fo_begin bs (sl_parts s)) as [key|]; [|exact I].
    match goal with |- lr_inv0 (if ?h then ?X else _) => assert (I1 : lr_inv0 X);
      [|destruct h; [exact I1|apply fold_set_blk_inv; exact I1]] end.
    destruct I as [I1 I2 I3 I4]. split; cbn.
    - intros k x X. apply alookup_aremove_Some in X. eauto.
    - exact I2.
    - intros k x e X. apply alookup_aremove_Some in X. eauto.
    - intros k x X. apply lru_pop_lookup in X. eauto.
  Qed.

  Lemma b_drop_block_total refd b bo : reads_total b -> reads_total (b_drop_block refd b bo).
  Proof.
    intros [T|[(T1 & KD & T2 & T3)|(T1 & KD)]]; unfold b_drop_block.
    - destruct (negb (b_drop b)); [left; exact T|left; exact T].
    - rewrite T2. right. left. auto.
    - destruct (negb (b_drop b)); right; right; auto.
  Qed.

  Lemma lr_drop_line_tot st s extra : lr_tot st -> lr_tot (lr_drop_line bs st s extra).
  Proof.
    intros T. unfold lr_drop_line. destruct (line_fo_begin bs (sl_parts s)) as [key|]; [|exact T].
    match goal with |- lr_tot (if ?h then _ else _) => destruct h end; [exact T|].
    match goal with |- lr_tot (fold_left ?g ?l ?x) =>
      assert (E : forall l0 st0, lr_tot st0 -> lr_tot (fold_left g l0 st0));
        [induction l0 as [|a l0 IH]; intros st0 T0; cbn [fold_left]; [exact T0|apply IH; apply b_drop_block_total; exact T0]|] end.
    apply E. exact T.
  Qed.

  Lemma lr_lru_enable_inv0 st : lr_inv0 st -> lr_inv0 (lr_lru_enable st).
  Proof.
    intros I. unfold lr_lru_enable. destruct (l_on st); [exact I|].
    destruct I as [I1 I2 I3 I4]. split; cbn; auto. intros; discriminate.
  Qed.

  Lemma lr_lru_disable_inv0 st : lr_inv0 st -> lr_inv0 (lr_lru_disable st).
  Proof.
    intros [I1 I2 I3 I4]. split; cbn; auto. intros; discriminate.
  Qed.
  (* ---------------------------------------------------------------- every read succeeds
     lr_inv = the cache invariant AND the BlockReader can read every block of the file at any time (a
     plain file; a streamed file with drops disabled before anything was dropped).  The theorems of
     CachesSysProofs / CachesRunProofs / CachesGateProofs are stated for lr_inv. *)

  Definition lr_inv (st : lr_state) : Prop := lr_inv0 st /\ lr_tot st.

  Lemma li_lines st : lr_inv st -> forall k s, alookup k (l_lines st) = Some s -> exists e, sline_ok s k e.
  Proof. intros [I _]. apply (li0_lines st I). Qed.

  Lemma lr_inv_init : lr_inv lr_init.
  Proof. split; [apply lr_inv0_init|left; reflexivity]. Qed.

  Lemma lr_inv_maps st st' : l_lines st' = l_lines st -> l_foend st' = l_foend st -> l_lru st' = l_lru st ->
    l_blk st' = l_blk st -> lr_inv st -> lr_inv st'.
  Proof. intros A B C D [I T]. split; [eapply lr_inv0_maps; eauto|unfold lr_tot; rewrite D; exact T]. Qed.

  Lemma lr_inv_cnt g st : lr_inv st -> lr_inv (lr_cnt g st).
  Proof. intros [I T]. split; [apply lr_inv0_cnt; exact I|exact T]. Qed.

  Lemma lr_check_lru_ok st fo st' o : lr_inv st -> lr_check_lru st fo = (st', o) ->
    lr_inv st' /\ match o with Some r => lres_entry_ok fo r | None => True end.
  Proof.
    intros [I T] H. destruct (lr_check_lru_ok0 _ _ _ _ I H) as [I' R]. split; [|exact R].
    split; [exact I'|unfold lr_tot; rewrite (blk_check_lru _ _ _ _ H); exact T].
  Qed.

  Lemma get_linep_sound st fo s : lr_inv st -> lr_get_linep st fo = Some s ->
    exists b e, sline_ok s b e /\ b <= fo /\ fo <= e /\ alookup b (l_lines st) = Some s /\
                afirst_ge fo (l_foend st) = Some (e, b).
  Proof. intros [I _]. apply get_linep_sound0. exact I. Qed.

  Lemma get_linep_complete st fo b e s : lr_inv st -> alookup b (l_lines st) = Some s -> span f b e ->
    b <= fo -> fo <= e -> alookup fo (l_lines st) <> None \/ lr_get_linep st fo <> None.
  Proof. intros [I _]. apply get_linep_complete0. exact I. Qed.

  Lemma lr_insert_line_ok st ps b e : lr_inv st -> line_ok bs f ps b e ->
    exists st', lr_insert_line bs st ps = Some (st', (l_nid st, ps)) /\ lr_inv st' /\
                l_on st' = l_on st /\ l_lru st' = l_lru st.
  Proof.
    intros [I T] OK. destruct (lr_insert_line_ok0 st ps b e I OK) as (st' & E & I' & A & B).
    exists st'. split; [exact E|]. split; [|split; assumption]. split; [exact I'|].
    unfold lr_insert_line in E. destruct (line_fo_begin bs ps); [|discriminate]. destruct (line_fo_end bs ps); [|discriminate].
    injection E as <-. exact T.
  Qed.

  Lemma lr_fresh_line_inv st ps st' s : lr_inv st -> lr_fresh_line st ps = (st', s) -> lr_inv st' /\ s = (l_nid st, ps).
  Proof.
    intros [I T] H. destruct (lr_fresh_line_inv0 _ _ _ _ I H) as [I' E]. split; [|exact E]. split; [exact I'|].
    unfold lr_fresh_line in H. injection H as <- _. exact T.
  Qed.

  Theorem c_find_line_ok st fo st' r p : lr_inv st -> c_find_line bs f st fo = (st', r, p) ->
    lr_inv st' /\ lres_ok fo r.
  Proof.
    intros [I T] H. destruct (c_find_line_ok0 _ _ _ _ _ I H) as (I' & _ & X). destruct (X T) as [T' R].
    split; [split; assumption|exact R].
  Qed.

  (* find_line never panics and never runs out of fuel *)
  Corollary c_find_line_total st fo st' r p : lr_inv st -> c_find_line bs f st fo = (st', r, p) ->
    r <> Panic /\ r <> OutOfFuel.
  Proof.
    intros I H. destruct (c_find_line_ok _ _ _ _ _ I H) as [_ R]. unfold lres_ok in R.
    destruct (fo <? lenN f); [destruct R as (s & -> & _)|subst r]; split; discriminate.
  Qed.

  Theorem c_find_line_in_block_ok st fo st' r part p : lr_inv st ->
    c_find_line_in_block bs f st fo = (st', (r, part), p) -> lr_inv st' /\ lres_in_block_ok fo r.
  Proof.
    intros [I T] H. destruct (c_find_line_in_block_ok0 _ _ _ _ _ _ I H) as (I' & _ & X). destruct (X T) as [T' R].
    split; [split; assumption|exact R].
  Qed.

  Lemma lr_drop_line_inv st s extra : lr_inv st -> lr_inv (lr_drop_line bs st s extra).
  Proof. intros [I T]. split; [apply lr_drop_line_inv0; exact I|apply lr_drop_line_tot; exact T]. Qed.

  Lemma lr_lru_enable_inv st : lr_inv st -> lr_inv (lr_lru_enable st).
  Proof.
    intros [I T]. split; [apply lr_lru_enable_inv0; exact I|]. unfold lr_lru_enable. destruct (l_on st); exact T.
  Qed.

  Lemma lr_lru_disable_inv st : lr_inv st -> lr_inv (lr_lru_disable st).
  Proof. intros [I T]. split; [apply lr_lru_disable_inv0; exact I|exact T]. Qed.

  Lemma lr_set_ext_inv e st : lr_inv st -> lr_inv (lr_set_ext e st).
  Proof. apply lr_inv_maps; reflexivity. Qed.
End LineReaderProofs.
