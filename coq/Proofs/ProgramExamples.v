(* Proofs/ProgramExamples.v — the hypotheses of program_correct are satisfiable, and the composed
   model evaluates: a 3-file input with cross-file and intra-file ties, a multi-line message, a
   streamed file, a file without final newline, a window that cuts every file, and decoration
   (-n -w, a date field, a separator, --summary), at two block sizes under two schedules. *)
From Coq Require Import List NArith ZArith Bool Arith Lia String.
Import ListNotations.
From S4.Base Require Import Bytes Chunk.
From S4.Spec Require Import LinesSpec WindowSpec.
From S4.Spec Require RecordsSpec JournalSpec.
From S4.Model Require Lines Syslines Search Merge Coord Strftime Print Summary Gate.
From S4.Model Require Calendar Year Records RecordRender LayoutDetect Evtx Journal.
From S4.Gen Require FixedStructTables.
From S4.Model Require Import Program.
From S4.Proofs Require Import ProgramProofs.
From S4.Proofs Require FixedStructTablesOk JournalWindow.

(* a line is dated iff it begins with a digit d: instant d seconds *)
Definition dated_ex (l : list N) : option Z :=
  match l with
  | c :: _ => if ((48 <=? c) && (c <=? 57))%N then Some (Z.of_N (c - 48) * 1000000000)%Z else None
  | [] => None
  end.
Definition dtspan_ex (l : list N) : nat * nat := (0, 1)%nat.
(* year-less notation of the examples: a capital letter A..L = the month, a digit 1..9 = the day, midnight *)
Definition ydate_ex (l : list N) : option Year.ymsg :=
  match l with
  | m :: d :: _ => if ((65 <=? m) && (m <=? 76) && (49 <=? d) && (d <=? 57))%N
                   then Some (Year.mkMsg (Z.of_N (m - 64)) (Z.of_N (d - 48)) 0%Z) else None
  | _ => None
  end.
(* journal entries are rendered as `--journal-output cat` (Model/Journal.render_cat), their merge
   instant is the receive time; libsystemd is the reference oracle of Model/Journal.v *)
Definition O_ex : oracles :=
  mkOracles dated_ex dtspan_ex ydate_ex RecordRender.f32_int_text Journal.render_cat
            (fun e => (Journal.e_time e * 1000)%Z) Journal.ref_seek_head Journal.ref_seek_realtime.

Definition src_ex (n : string) : Summary.source :=
  {| Summary.s_name := s2b n; Summary.s_nchars := String.length n; Summary.s_width := String.length n |}.

Definition nl : string := String (Ascii.ascii_of_nat 10) EmptyString.
Definition f0 : file := s2b ("1 a" ++ nl ++ "2 b" ++ nl ++ " c" ++ nl ++ "2 d" ++ nl ++ "4 e").
Definition f1 : file := s2b ("0 x" ++ nl ++ "2 y" ++ nl ++ "3 z" ++ nl).
Definition f2 : file := s2b ("2 p" ++ nl ++ "5 q" ++ nl).
Definition files_ex : list pfile :=
  [mkPfile (src_ex "a") false f0 KText; mkPfile (src_ex "bb") true f1 KText; mkPfile (src_ex "c") false f2 KText].

Definition cli_ex : Summary.cli :=
  {| Summary.c_colour := false; Summary.c_prepend_file := true; Summary.c_align := true;
     Summary.c_psep := s2b ":"; Summary.c_fmt := Some (s2b "%s"); Summary.c_off := 0%Z;
     Summary.c_sep := s2b "|"; Summary.c_summary := true |}.
Definition opts_ex : options := mkOptions cli_ex (Some 2000000000%Z) (Some 4000000000%Z).

(* two schedulers: at each step the first enabled event of a priority list *)
Fixpoint try_events (cap : nat) (s : Coord.state) (cands : list Coord.event) : option (Coord.event * Coord.state) :=
  match cands with
  | [] => None
  | e :: r => match Coord.step cap s e with Some s' => Some (e, s') | None => try_events cap s r end
  end.
Fixpoint greedy (fuel cap : nat) (cands : list Coord.event) (s : Coord.state) : list Coord.event :=
  match fuel with
  | O => []
  | S k => match try_events cap s cands with
           | Some (e, s') => e :: greedy k cap cands s'
           | None => []
           end
  end.
Definition init_ex := Coord.init (tags_of (spec_sources O_ex opts_ex files_ex)).
(* capacity 1, the coordinator first: workers send only when nothing else can happen *)
Definition sched_lazy : schedule :=
  greedy 200 1 [Coord.Print; Coord.Recv 0; Coord.Recv 1; Coord.Recv 2; Coord.Send 0; Coord.Send 1; Coord.Send 2] init_ex.
(* capacity 5, the workers first, last source first: every channel fills up before a receive *)
Definition sched_eager : schedule :=
  greedy 200 5 [Coord.Send 2; Coord.Send 1; Coord.Send 0; Coord.Recv 2; Coord.Recv 1; Coord.Recv 0; Coord.Print] init_ex.

Definition expected_ex : bytes :=
  s2b ("a :2:2 b" ++ nl ++ "a :2: c" ++ nl ++ "|a :2:2 d" ++ nl ++ "|bb:2:2 y" ++ nl ++ "|c :2:2 p" ++ nl
       ++ "|bb:3:3 z" ++ nl ++ "|a :4:4 e|" ++ nl).

Lemma ex_domain :
  domain O_ex opts_ex files_ex /\
  gate_passed O_ex 3 files_ex /\ gate_passed O_ex 64 files_ex /\
  complete O_ex 1 opts_ex files_ex sched_lazy /\
  complete O_ex 5 opts_ex files_ex sched_eager /\
  sched_lazy <> sched_eager.
Proof.
  split; [|split; [|split; [|split; [|split]]]].
  - split; [intro l; cbn; lia|].
    repeat constructor; try (vm_compute; reflexivity); try (vm_compute; discriminate).
  - repeat constructor; vm_compute; reflexivity.
  - repeat constructor; vm_compute; reflexivity.
  - eexists. split; vm_compute; reflexivity.
  - eexists. split; vm_compute; reflexivity.
  - vm_compute. discriminate.
Qed.

(* the composed code-level model evaluates to the specification, at block size 3 under the lazy
   schedule and at block size 64 under the eager one; and this is the output *)
Lemma ex_program :
  program_m O_ex 1 3 sched_lazy opts_ex files_ex = POk (program_spec O_ex opts_ex files_ex) /\
  program_m O_ex 5 64 sched_eager opts_ex files_ex = POk (program_spec O_ex opts_ex files_ex) /\
  fst (program_spec O_ex opts_ex files_ex) = Print.obs expected_ex /\
  let t := snd (program_spec O_ex opts_ex files_ex) in
  Summary.u_bytes t = 68%N /\ Summary.u_lines t = 7%N /\ Summary.u_sys t = 6%N /\
  Summary.u_first t = Some 2000000000%Z /\ Summary.u_last t = Some 4000000000%Z.
Proof. vm_compute. repeat split; reflexivity. Qed.

(* the same two equations as instances of the theorem *)
Lemma ex_program_by_theorem :
  program_m O_ex 1 3 sched_lazy opts_ex files_ex = POk (program_spec O_ex opts_ex files_ex) /\
  program_m O_ex 5 64 sched_eager opts_ex files_ex = POk (program_spec O_ex opts_ex files_ex).
Proof.
  destruct ex_domain as (D & G3 & G64 & C1 & C5 & _).
  split; apply program_correct; assumption || reflexivity.
Qed.

(* an incomplete schedule is reported, not silently accepted *)
Lemma ex_incomplete :
  program_m O_ex 1 3 (firstn 10 sched_lazy) opts_ex files_ex = PNotFinal /\
  program_m O_ex 1 3 [Coord.Print] opts_ex files_ex = PSchedule.
Proof. vm_compute. split; reflexivity. Qed.

(* a file the block-zero gate rejects sends no message (not in the domain of program_correct) *)
Definition f_small : file := s2b "1 a".
Definition files_small : list pfile := [mkPfile (src_ex "a") false f_small KText].
Lemma ex_gate_rejects :
  Gate.gate dated_ex 64 f_small = Gate.FileErrTooSmall /\
  exists out t, program_m O_ex 1 64 [Coord.Send 0; Coord.Recv 0; Coord.Send 0; Coord.Recv 0]
                          (mkOptions cli_ex None None) files_small = POk (out, t) /\ out = [].
Proof. split; [vm_compute; reflexivity|]. eexists. eexists. vm_compute. split; reflexivity. Qed.

(* ---------------------------------------------------------------- the hypotheses are needed *)
(* a non-chronological file: the program prints file order, the specification sorts *)
Definition f_uns : file := s2b ("3 aaa" ++ nl ++ "1 bbb" ++ nl ++ "2 ccc" ++ nl).
Definition files_uns : list pfile := [mkPfile (src_ex "a") false f_uns KText].
Definition opts_plain : options := mkOptions (undecorated cli_ex) None None.
Definition sched_uns : schedule :=
  greedy 200 1 [Coord.Print; Coord.Recv 0; Coord.Send 0]
         (Coord.init (tags_of (spec_sources O_ex opts_plain files_uns))).

Definition sorted_uns : bytes := s2b ("1 bbb" ++ nl ++ "2 ccc" ++ nl ++ "3 aaa" ++ nl).

Lemma ex_chronological_needed :
  file_chronological dated_ex f_uns -> False.
Proof. unfold file_chronological. vm_compute. discriminate. Qed.

Lemma ex_unsorted_refuted :
  span_ok dtspan_ex /\ file_msgs_2bytes dated_ex f_uns /\ gate_passed O_ex 64 files_uns /\
  complete O_ex 1 opts_plain files_uns sched_uns /\
  exists out t, program_m O_ex 1 64 sched_uns opts_plain files_uns = POk (out, t) /\
                Print.payload out = f_uns /\
                Print.payload (fst (program_spec O_ex opts_plain files_uns)) = sorted_uns /\
                program_m O_ex 1 64 sched_uns opts_plain files_uns
                <> POk (program_spec O_ex opts_plain files_uns).
Proof.
  split; [intro l; cbn; lia|]. split; [repeat constructor; vm_compute; discriminate|].
  split; [repeat constructor; vm_compute; reflexivity|].
  split; [eexists; split; vm_compute; reflexivity|].
  eexists. eexists. split; [vm_compute; reflexivity|]. split; [vm_compute; reflexivity|].
  split; [vm_compute; reflexivity|]. vm_compute. discriminate.
Qed.

(* a file that stage 1 rejects at this block size: the specification has a message, the program prints none *)
Lemma ex_gate_needed :
  domain O_ex (mkOptions cli_ex None None) files_small /\
  Gate.gate dated_ex 64 f_small <> Gate.FileOk /\
  complete O_ex 1 (mkOptions cli_ex None None) files_small
           [Coord.Send 0; Coord.Recv 0; Coord.Send 0; Coord.Recv 0; Coord.Print; Coord.Send 0; Coord.Recv 0] /\
  length (spec_events O_ex (mkOptions cli_ex None None) files_small) = 1%nat /\
  program_m O_ex 1 64 [Coord.Send 0; Coord.Recv 0; Coord.Send 0; Coord.Recv 0]
            (mkOptions cli_ex None None) files_small <> POk (program_spec O_ex (mkOptions cli_ex None None) files_small).
Proof.
  split; [split; [intro l; cbn; lia|repeat constructor; vm_compute; reflexivity || discriminate]|].
  split; [vm_compute; discriminate|].
  split; [eexists; split; vm_compute; reflexivity|].
  split; [vm_compute; reflexivity|]. vm_compute. discriminate.
Qed.

(* a 1-byte message (only an oracle that dates an empty line produces one before another message):
   the binary search hands the too-early message to find_between, which ends the file with the
   "BeforeRange ... unexpected" error exit; the specification prints the later message *)
Definition dated_nl (l : list N) : option Z :=
  match l with
  | [10%N] => Some 1000000000%Z
  | _ => dated_ex l
  end.
Definition O_nl : oracles :=
  mkOracles dated_nl dtspan_ex ydate_ex RecordRender.f32_int_text Journal.render_cat
            (fun e => (Journal.e_time e * 1000)%Z) Journal.ref_seek_head Journal.ref_seek_realtime.
Definition f_len1 : file := s2b (nl ++ "8 xyz" ++ nl).
Definition files_len1 : list pfile := [mkPfile (src_ex "a") false f_len1 KText].
Definition opts_len1 : options := mkOptions (undecorated cli_ex) (Some 2000000000%Z) None.

Definition len1_expected : bytes := s2b ("8 xyz" ++ nl).

Lemma ex_len1_refuted :
  file_chronological dated_nl f_len1 /\ span_ok dtspan_ex /\ gate_passed O_nl 64 files_len1 /\
  (file_msgs_2bytes dated_nl f_len1 -> False) /\
  Print.payload (fst (program_spec O_nl opts_len1 files_len1)) = len1_expected /\
  forall sched, program_m O_nl 1 64 sched opts_len1 files_len1 = PWorker 0 (GErr 3).
Proof.
  split; [vm_compute; reflexivity|]. split; [intro l; cbn; lia|].
  split; [repeat constructor; vm_compute; reflexivity|].
  split; [intro H; inversion H as [|? ? H1 _]; vm_compute in H1; apply H1; reflexivity|].
  split; [vm_compute; reflexivity|]. intro sched. vm_compute. reflexivity.
Qed.

(* ================================================================ a MIXED-KIND invocation *)
(* five sources: a text file (no final newline); a lastlog file of two records with EQUAL times
   (layout found by score_file); an event log whose enumeration is not in time order and holds an
   undecodable record; a journal with two entries of equal time; a streamed year-less text log that
   crosses a year boundary (mtime in January 2021: "L9" = 9 Dec is dated 2020, "A2" = 2 Jan 2021).
   Records, the event and the journal entries TIE at T0: source order decides. *)
Definition recf : file := FixedStructTablesOk.lx86_lastlog_rec ++ FixedStructTablesOk.lx86_lastlog_rec.
Definition T0 : Z := 1700000000.
Definition evs_mx : list (option (Z * bytes)) :=
  [Some ((T0 * 1000000000 + 5)%Z, s2b ("ev late" ++ nl)); None;
   Some ((T0 * 1000000000)%Z, s2b ("ev tie" ++ nl ++ " more" ++ nl))].
Definition jr (t : Z) (m : string) : Journal.entry :=
  Journal.mkEntry t (s2b "c") None [(Journal.k_message, s2b m)].
Definition j_mx : Journal.journal :=
  [jr (T0 * 1000000 - 1) "j early"; jr (T0 * 1000000) "j tie"; jr (T0 * 1000000) "j tie2"].
Definition fy : file := s2b ("L9 dec" ++ nl ++ " cont" ++ nl ++ "A2 jan" ++ nl).
Definition mtime_mx : Z := 1609459200 + 86400 * 10.
Definition ftxt : file := s2b ("1 a" ++ nl ++ "2 b").
Definition lastlog_name : bytes := s2b "Fs_Linux_x86_Lastlog".
Definition files_mx : list pfile :=
  [mkPfile (src_ex "t") false ftxt KText;
   mkPfile (src_ex "rec") false recf (KRecords 2 lastlog_name);
   mkPfile (src_ex "e") false [] (KEvtxFile evs_mx);
   mkPfile (src_ex "jj") false [] (KJournalFile j_mx);
   mkPfile (src_ex "y") true fy (KYearless 0 mtime_mx)].
Definition cli_mx : Summary.cli :=
  {| Summary.c_colour := false; Summary.c_prepend_file := true; Summary.c_align := true;
     Summary.c_psep := s2b ":"; Summary.c_fmt := None; Summary.c_off := 0%Z;
     Summary.c_sep := s2b "|"; Summary.c_summary := true |}.
Definition opts_mx : options := mkOptions cli_mx (Some 2000000000%Z) None.
Definition sched_mx : schedule :=
  greedy 400 2 [Coord.Send 4; Coord.Send 3; Coord.Send 2; Coord.Send 1; Coord.Send 0;
                Coord.Recv 0; Coord.Recv 1; Coord.Recv 2; Coord.Recv 3; Coord.Recv 4; Coord.Print]
         (Coord.init (tags_of (spec_sources O_ex opts_mx files_mx))).

Definition recline : string := "ll_time 1700000000 ll_line 'pts/1' ll_host 'h1.example'".
Definition expected_mx : bytes :=
  s2b ("t  :2 b|" ++ nl ++ "y  :L9 dec" ++ nl ++ "y  : cont" ++ nl ++ "|y  :A2 jan" ++ nl ++ "|jj :j early" ++ nl ++ "|"
       ++ "rec:" ++ recline ++ nl) ++ [0%N] ++ s2b ("|rec:" ++ recline ++ nl) ++ [0%N]
  ++ s2b ("|e  :ev tie" ++ nl ++ "e  : more" ++ nl ++ "|jj :j tie" ++ nl ++ "|jj :j tie2" ++ nl ++ "|e  :ev late" ++ nl ++ "|").

Lemma forallb_Forall {A} (p : A -> bool) (P : A -> Prop) l : (forall x, p x = true -> P x) -> forallb p l = true -> Forall P l.
Proof. intros H E. apply Forall_forall. intros x Hx. apply H. exact (proj1 (forallb_forall p l) E x Hx). Qed.

Lemma ex_mixed_domain :
  domain O_ex opts_mx files_mx /\ gate_passed O_ex 64 files_mx /\ gate_passed O_ex 8 files_mx /\
  complete O_ex 2 opts_mx files_mx sched_mx.
Proof.
  split; [|split; [|split]].
  - split; [intro l; cbn; lia|].
    constructor; [|constructor; [|constructor; [|constructor; [|constructor; [|constructor]]]]].
    + unfold src_ok; cbn [pf_kind pf_data op_after op_before opts_mx]. split; [vm_compute; reflexivity|]. repeat constructor; vm_compute; discriminate.
    + unfold src_ok; cbn [pf_kind pf_data op_after op_before opts_mx]. split; [eexists; vm_compute; reflexivity|].
      split; [eexists; eexists; split; [vm_compute; reflexivity|split; [vm_compute; reflexivity|]];
              apply (forallb_Forall (fun r => (0 <=? snd (RecordsSpec.r_tv r))%Z && (snd (RecordsSpec.r_tv r) <? 1000000)%Z));
              [intros x Hx; apply andb_true_iff in Hx as [H1 H2]; apply Z.leb_le in H1; apply Z.ltb_lt in H2; lia|vm_compute; reflexivity]|].
      split; [apply (forallb_Forall (fun b => (b <? 256)%N)); [intros x Hx; apply N.ltb_lt; exact Hx|vm_compute; reflexivity]|].
      exact FixedStructTablesOk.f32_int_text_len.
    + unfold src_ok; cbn [pf_kind pf_data op_after op_before opts_mx].
      apply Forall_cons; [apply nl_terminated_b_ok; vm_compute; reflexivity|].
      apply Forall_cons; [exact I|]. apply Forall_cons; [apply nl_terminated_b_ok; vm_compute; reflexivity|constructor].
    + unfold src_ok; cbn [pf_kind pf_data op_after op_before opts_mx]. split; [exact JournalWindow.ref_oracle_J1|].
      split; [cbn; lia|]. split; [intros t [<-|[<-|[<-|[]]]]; vm_compute; reflexivity|].
      split; [vm_compute; reflexivity|]. split; [exact I|].
      split; [repeat (apply Forall_cons; [apply nl_terminated_b_ok; vm_compute; reflexivity|]); constructor|].
      vm_compute. repeat constructor; discriminate.
    + unfold src_ok; cbn [pf_kind pf_data op_after op_before opts_mx]. eexists. split; [vm_compute; reflexivity|].
      split; [vm_compute; reflexivity|]. repeat constructor; vm_compute; discriminate.
  - repeat constructor; try (vm_compute; reflexivity).
    intros tab E. vm_compute in E. inversion E; subst tab. vm_compute. reflexivity.
  - repeat constructor; try (vm_compute; reflexivity).
    intros tab E. vm_compute in E. inversion E; subst tab. vm_compute. reflexivity.
  - eexists. split; vm_compute; reflexivity.
Qed.

Lemma ex_mixed_program :
  program_m O_ex 2 64 sched_mx opts_mx files_mx = POk (program_spec O_ex opts_mx files_mx) /\
  program_m O_ex 2 8 sched_mx opts_mx files_mx = POk (program_spec O_ex opts_mx files_mx) /\
  fst (program_spec O_ex opts_mx files_mx) = Print.obs expected_mx /\
  let t := snd (program_spec O_ex opts_mx files_mx) in
  Summary.u_bytes t = Print.blen expected_mx /\ Summary.u_sys t = 3%N /\ Summary.u_fixed t = 2%N /\
  Summary.u_evtx t = 2%N /\ Summary.u_journal t = 3%N /\ Summary.u_lines t = 4%N /\
  Summary.u_first t = Some 2000000000%Z /\ Summary.u_last t = Some (T0 * 1000000000 + 5)%Z.
Proof. vm_compute. repeat split; reflexivity. Qed.

Lemma ex_mixed_by_theorem :
  program_m O_ex 2 64 sched_mx opts_mx files_mx = POk (program_spec O_ex opts_mx files_mx).
Proof. destruct ex_mixed_domain as (D & G & _ & C). apply program_correct; assumption || reflexivity. Qed.

(* the year-less source: the instants the window and the merge use are those assign_years infers,
   here the true ones (9 Dec 2020, 2 Jan 2021) *)
Lemma ex_yearless :
  NoDup (yl_heads O_ex fy) /\
  Year.assign_years 2 0 (Year.year_of_seconds 0 mtime_mx) (yl_msgs O_ex fy) = Some [(2020, 1607472000000000000); (2021, 1609545600000000000)]%Z.
Proof. split; [repeat constructor; vm_compute; intuition discriminate|vm_compute; reflexivity]. Qed.
