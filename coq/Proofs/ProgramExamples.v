(* Proofs/ProgramExamples.v — the hypotheses of program_correct are satisfiable, and the composed
   model evaluates: a 3-file input with cross-file and intra-file ties, a multi-line message, a
   streamed file, a file without final newline, a window that cuts every file, and decoration
   (-n -w, a date field, a separator, --summary), at two block sizes under two schedules. *)
From Coq Require Import List NArith ZArith Bool Arith Lia String.
Import ListNotations.
From S4.Base Require Import Bytes Chunk.
From S4.Spec Require Import LinesSpec WindowSpec.
From S4.Spec Require RecordsSpec JournalSpec.
From S4.Model Require Lines Syslines Search Merge Coord Strftime Print Summary Gate.
From S4.Model Require Calendar Year Records RecordRender LayoutDetect Evtx Journal JournalRender.
From S4.Gen Require JournalTables.
From S4.Gen Require FixedStructTables.
From S4.Model Require Import Program.
From S4.Proofs Require Import ProgramProofs.
From S4.Proofs Require FixedStructTablesOk JournalWindow.

(* a line is dated iff it begins with a digit d: instant d seconds *)
Definition dated_ex (l : list N) : option Z :=
  match l with
  | c :: _ => if ((48 <=? c) && (c <=? 57))%N then Some (Z.of_N (c - 48) * 1000000000)%Z else None
  | [] => None
  end.
Definition dtspan_ex (l : list N) : nat * nat := (0, 1)%nat.
(* year-less notation of the examples: a capital letter A..L = the month, a digit 1..9 = the day, midnight *)
Definition ydate_ex (l : list N) : option Year.ymsg :=
  match l with
  | m :: d :: _ => if ((65 <=? m) && (m <=? 76) && (49 <=? d) && (d <=? 57))%N
                   then Some (Year.mkMsg (Z.of_N (m - 64)) (Z.of_N (d - 48)) 0%Z) else None
  | _ => None
  end.
(* libsystemd is the reference oracle of Model/Journal.v; journal entries are rendered by
   Model/JournalRender.v with the regenerated configuration (the examples select `cat`) *)
Definition jenv_ex : JournalRender.env := JournalRender.mkEnv 0%Z true.
Definition O_ex : oracles :=
  mkOracles dated_ex dtspan_ex ydate_ex RecordRender.f32_int_text Journal.ref_seek_head Journal.ref_seek_realtime.

(* reader parameters of the examples: PathId i made 1+i find_line_in_block and 2 find_sysline_in_block calls in
   block-zero analysis; of every three drop_data_try opportunities the first and the third ran *)
Definition rps_ex : nat -> rparams := fun i => mkRp (1 + i) 2 [true; false; true] Caches.KSeq.

(* dated_ex looks at the first byte only: the oracle hypothesis of block-zero analysis holds for every file *)
Lemma fb_ex (f : file) : first_byte_ok dated_ex f.
Proof. apply first_byte_ok_head. intros c r r'. reflexivity. Qed.

Definition src_ex (n : string) : Summary.source :=
  {| Summary.s_name := s2b n; Summary.s_nchars := String.length n; Summary.s_width := String.length n |}.

Definition nl : string := String (Ascii.ascii_of_nat 10) EmptyString.
Definition f0 : file := s2b ("1 a" ++ nl ++ "2 b" ++ nl ++ " c" ++ nl ++ "2 d" ++ nl ++ "4 e").
Definition f1 : file := s2b ("0 x" ++ nl ++ "2 y" ++ nl ++ "3 z" ++ nl).
Definition f2 : file := s2b ("2 p" ++ nl ++ "5 q" ++ nl).
Definition files_ex : list pfile :=
  [mkPfile (src_ex "a") false f0 KText; mkPfile (src_ex "bb") true f1 KText; mkPfile (src_ex "c") false f2 KText].

Definition cli_ex : Summary.cli :=
  {| Summary.c_colour := false; Summary.c_prepend_file := true; Summary.c_align := true;
     Summary.c_psep := s2b ":"; Summary.c_fmt := Some (s2b "%s"); Summary.c_off := 0%Z;
     Summary.c_sep := s2b "|"; Summary.c_summary := true |}.
Definition opts_ex : options := mkOptions cli_ex (Some 2000000000%Z) (Some 4000000000%Z) JournalRender.OCat jenv_ex.

(* two schedulers: at each step the first enabled event of a priority list *)
Fixpoint try_events (cap : nat) (s : Coord.state) (cands : list Coord.event) : option (Coord.event * Coord.state) :=
  match cands with
  | [] => None
  | e :: r => match Coord.step cap s e with Some s' => Some (e, s') | None => try_events cap s r end
  end.
Fixpoint greedy (fuel cap : nat) (cands : list Coord.event) (s : Coord.state) : list Coord.event :=
  match fuel with
  | O => []
  | S k => match try_events cap s cands with
           | Some (e, s') => e :: greedy k cap cands s'
           | None => []
           end
  end.
Definition init_ex := Coord.init (tags_of (spec_sources O_ex opts_ex files_ex)).
(* capacity 1, the coordinator first: workers send only when nothing else can happen *)
Definition sched_lazy : schedule :=
  greedy 200 1 [Coord.Print; Coord.Recv 0; Coord.Recv 1; Coord.Recv 2; Coord.Send 0; Coord.Send 1; Coord.Send 2] init_ex.
(* capacity 5, the workers first, last source first: every channel fills up before a receive *)
Definition sched_eager : schedule :=
  greedy 200 5 [Coord.Send 2; Coord.Send 1; Coord.Send 0; Coord.Recv 2; Coord.Recv 1; Coord.Recv 0; Coord.Print] init_ex.

Definition expected_ex : bytes :=
  s2b ("a :2:2 b" ++ nl ++ "a :2: c" ++ nl ++ "|a :2:2 d" ++ nl ++ "|bb:2:2 y" ++ nl ++ "|c :2:2 p" ++ nl
       ++ "|bb:3:3 z" ++ nl ++ "|a :4:4 e|" ++ nl).

Lemma ex_domain :
  domain O_ex opts_ex files_ex /\
  gate_passed O_ex 3 opts_ex files_ex /\ gate_passed O_ex 64 opts_ex files_ex /\
  complete O_ex 1 opts_ex files_ex sched_lazy /\
  complete O_ex 5 opts_ex files_ex sched_eager /\
  sched_lazy <> sched_eager.
Proof.
  split; [|split; [|split; [|split; [|split]]]].
  - split; [intro l; cbn; lia|].
    repeat (apply Forall_cons; [split; [|apply fb_ex]|]); try apply Forall_nil;
      (split; [vm_compute; reflexivity|repeat constructor; vm_compute; discriminate]).
  - repeat constructor; vm_compute; reflexivity.
  - repeat constructor; vm_compute; reflexivity.
  - eexists. split; vm_compute; reflexivity.
  - eexists. split; vm_compute; reflexivity.
  - vm_compute. discriminate.
Qed.

(* the composed code-level model evaluates to the specification, at block size 3 under the lazy
   schedule and at block size 64 under the eager one; and this is the output *)
Lemma ex_program :
  program_m O_ex 1 3 rps_ex sched_lazy opts_ex files_ex = POk (program_spec O_ex opts_ex files_ex) /\
  program_m O_ex 5 64 rps_ex sched_eager opts_ex files_ex = POk (program_spec O_ex opts_ex files_ex) /\
  fst (program_spec O_ex opts_ex files_ex) = Print.obs expected_ex /\
  let t := snd (program_spec O_ex opts_ex files_ex) in
  Summary.u_bytes t = 68%N /\ Summary.u_lines t = 7%N /\ Summary.u_sys t = 6%N /\
  Summary.u_first t = Some 2000000000%Z /\ Summary.u_last t = Some 4000000000%Z.
Proof. vm_compute. repeat split; reflexivity. Qed.

(* the same two equations as instances of the theorem *)
Lemma ex_program_by_theorem :
  program_m O_ex 1 3 rps_ex sched_lazy opts_ex files_ex = POk (program_spec O_ex opts_ex files_ex) /\
  program_m O_ex 5 64 rps_ex sched_eager opts_ex files_ex = POk (program_spec O_ex opts_ex files_ex).
Proof.
  destruct ex_domain as (D & G3 & G64 & C1 & C5 & _).
  split; apply program_correct; assumption || reflexivity.
Qed.

(* an incomplete schedule is reported, not silently accepted *)
Lemma ex_incomplete :
  program_m O_ex 1 3 rps_ex (firstn 10 sched_lazy) opts_ex files_ex = PNotFinal /\
  program_m O_ex 1 3 rps_ex [Coord.Print] opts_ex files_ex = PSchedule.
Proof. vm_compute. split; reflexivity. Qed.

(* a file the block-zero gate rejects sends no message (not in the domain of program_correct) *)
Definition f_small : file := s2b "1 a".
Definition files_small : list pfile := [mkPfile (src_ex "a") false f_small KText].
Lemma ex_gate_rejects :
  Gate.gate dated_ex 64 f_small = Gate.FileErrTooSmall /\
  exists out t, program_m O_ex 1 64 rps_ex [Coord.Send 0; Coord.Recv 0; Coord.Send 0; Coord.Recv 0]
                          (mkOptions cli_ex None None JournalRender.OCat jenv_ex) files_small = POk (out, t) /\ out = [].
Proof. split; [vm_compute; reflexivity|]. eexists. eexists. vm_compute. split; reflexivity. Qed.

(* ---------------------------------------------------------------- the hypotheses are needed *)
(* a non-chronological file: the program prints file order, the specification sorts *)
Definition f_uns : file := s2b ("3 aaa" ++ nl ++ "1 bbb" ++ nl ++ "2 ccc" ++ nl).
Definition files_uns : list pfile := [mkPfile (src_ex "a") false f_uns KText].
Definition opts_plain : options := mkOptions (undecorated cli_ex) None None JournalRender.OCat jenv_ex.
Definition sched_uns : schedule :=
  greedy 200 1 [Coord.Print; Coord.Recv 0; Coord.Send 0]
         (Coord.init (tags_of (spec_sources O_ex opts_plain files_uns))).

Definition sorted_uns : bytes := s2b ("1 bbb" ++ nl ++ "2 ccc" ++ nl ++ "3 aaa" ++ nl).

Lemma ex_chronological_needed :
  file_chronological dated_ex f_uns -> False.
Proof. unfold file_chronological. vm_compute. discriminate. Qed.

Lemma ex_unsorted_refuted :
  span_ok dtspan_ex /\ file_msgs_2bytes dated_ex f_uns /\ gate_passed O_ex 64 opts_plain files_uns /\
  complete O_ex 1 opts_plain files_uns sched_uns /\
  exists out t, program_m O_ex 1 64 rps_ex sched_uns opts_plain files_uns = POk (out, t) /\
                Print.payload out = f_uns /\
                Print.payload (fst (program_spec O_ex opts_plain files_uns)) = sorted_uns /\
                program_m O_ex 1 64 rps_ex sched_uns opts_plain files_uns
                <> POk (program_spec O_ex opts_plain files_uns).
Proof.
  split; [intro l; cbn; lia|]. split; [repeat constructor; vm_compute; discriminate|].
  split; [repeat constructor; vm_compute; reflexivity|].
  split; [eexists; split; vm_compute; reflexivity|].
  eexists. eexists. split; [vm_compute; reflexivity|]. split; [vm_compute; reflexivity|].
  split; [vm_compute; reflexivity|]. vm_compute. discriminate.
Qed.

(* a file that stage 1 rejects at this block size: the specification has a message, the program prints none *)
Lemma ex_gate_needed :
  domain O_ex (mkOptions cli_ex None None JournalRender.OCat jenv_ex) files_small /\
  Gate.gate dated_ex 64 f_small <> Gate.FileOk /\
  complete O_ex 1 (mkOptions cli_ex None None JournalRender.OCat jenv_ex) files_small
           [Coord.Send 0; Coord.Recv 0; Coord.Send 0; Coord.Recv 0; Coord.Print; Coord.Send 0; Coord.Recv 0] /\
  length (spec_events O_ex (mkOptions cli_ex None None JournalRender.OCat jenv_ex) files_small) = 1%nat /\
  program_m O_ex 1 64 rps_ex [Coord.Send 0; Coord.Recv 0; Coord.Send 0; Coord.Recv 0]
            (mkOptions cli_ex None None JournalRender.OCat jenv_ex) files_small <> POk (program_spec O_ex (mkOptions cli_ex None None JournalRender.OCat jenv_ex) files_small).
Proof.
  split; [split; [intro l; cbn; lia|apply Forall_cons; [split; [split; [vm_compute; reflexivity|repeat constructor; vm_compute; discriminate]|apply fb_ex]|constructor]]|].
  split; [vm_compute; discriminate|].
  split; [eexists; split; vm_compute; reflexivity|].
  split; [vm_compute; reflexivity|]. vm_compute. discriminate.
Qed.

(* a 1-byte message (only an oracle that dates an empty line produces one before another message):
   the binary search hands the too-early message to find_between, which ends the file with the
   "BeforeRange ... unexpected" error exit; the specification prints the later message *)
Definition dated_nl (l : list N) : option Z :=
  match l with
  | [10%N] => Some 1000000000%Z
  | _ => dated_ex l
  end.
Definition O_nl : oracles :=
  mkOracles dated_nl dtspan_ex ydate_ex RecordRender.f32_int_text Journal.ref_seek_head Journal.ref_seek_realtime.
Definition f_len1 : file := s2b (nl ++ "8 xyz" ++ nl).
Definition files_len1 : list pfile := [mkPfile (src_ex "a") false f_len1 KText].
Definition opts_len1 : options := mkOptions (undecorated cli_ex) (Some 2000000000%Z) None JournalRender.OCat jenv_ex.

Definition len1_expected : bytes := s2b ("8 xyz" ++ nl).

Lemma ex_len1_refuted :
  file_chronological dated_nl f_len1 /\ span_ok dtspan_ex /\ gate_passed O_nl 64 opts_len1 files_len1 /\
  (file_msgs_2bytes dated_nl f_len1 -> False) /\
  Print.payload (fst (program_spec O_nl opts_len1 files_len1)) = len1_expected /\
  forall sched, program_m O_nl 1 64 rps_ex sched opts_len1 files_len1 = PWorker 0 (GErr 3).
Proof.
  split; [vm_compute; reflexivity|]. split; [intro l; cbn; lia|].
  split; [repeat constructor; vm_compute; reflexivity|].
  split; [intro H; inversion H as [|? ? H1 _]; vm_compute in H1; apply H1; reflexivity|].
  split; [vm_compute; reflexivity|]. intro sched. vm_compute. reflexivity.
Qed.

(* ================================================================ a MIXED-KIND invocation *)
(* five sources: a text file (no final newline); a lastlog file of two records with EQUAL times
   (layout found by score_file); an event log whose enumeration is not in time order and holds an
   undecodable record; a journal with two entries of equal time; a streamed year-less text log that
   crosses a year boundary (mtime in January 2021: "L9" = 9 Dec is dated 2020, "A2" = 2 Jan 2021).
   Records, the event and the journal entries TIE at T0: source order decides. *)
Definition recf : file := FixedStructTablesOk.lx86_lastlog_rec ++ FixedStructTablesOk.lx86_lastlog_rec.
Definition T0 : Z := 1700000000.
Definition evs_mx : list (option (Z * bytes)) :=
  [Some ((T0 * 1000000000 + 5)%Z, s2b ("ev late" ++ nl)); None;
   Some ((T0 * 1000000000)%Z, s2b ("ev tie" ++ nl ++ " more" ++ nl))].
Definition jr (t : Z) (m : string) : Journal.entry :=
  Journal.mkEntry t (s2b "c") None [(Journal.k_message, s2b m)].
Definition j_mx : Journal.journal :=
  [jr (T0 * 1000000 - 1) "j early"; jr (T0 * 1000000) "j tie"; jr (T0 * 1000000) "j tie2"].
Definition fy : file := s2b ("L9 dec" ++ nl ++ " cont" ++ nl ++ "A2 jan" ++ nl).
Definition mtime_mx : Z := 1609459200 + 86400 * 10.
Definition ftxt : file := s2b ("1 a" ++ nl ++ "2 b").
Definition lastlog_name : bytes := s2b "Fs_Linux_x86_Lastlog".
Definition files_mx : list pfile :=
  [mkPfile (src_ex "t") false ftxt KText;
   mkPfile (src_ex "rec") false recf (KRecords 2 lastlog_name);
   mkPfile (src_ex "e") false [] (KEvtxFile evs_mx);
   mkPfile (src_ex "jj") false [] (KJournalFile j_mx);
   mkPfile (src_ex "y") true fy (KYearless 0 mtime_mx)].
Definition cli_mx : Summary.cli :=
  {| Summary.c_colour := false; Summary.c_prepend_file := true; Summary.c_align := true;
     Summary.c_psep := s2b ":"; Summary.c_fmt := None; Summary.c_off := 0%Z;
     Summary.c_sep := s2b "|"; Summary.c_summary := true |}.
Definition opts_mx : options := mkOptions cli_mx (Some 2000000000%Z) None JournalRender.OCat jenv_ex.
Definition sched_mx : schedule :=
  greedy 400 2 [Coord.Send 4; Coord.Send 3; Coord.Send 2; Coord.Send 1; Coord.Send 0;
                Coord.Recv 0; Coord.Recv 1; Coord.Recv 2; Coord.Recv 3; Coord.Recv 4; Coord.Print]
         (Coord.init (tags_of (spec_sources O_ex opts_mx files_mx))).

Definition recline : string := "ll_time 1700000000 ll_line 'pts/1' ll_host 'h1.example'".
Definition expected_mx : bytes :=
  s2b ("t  :2 b|" ++ nl ++ "y  :L9 dec" ++ nl ++ "y  : cont" ++ nl ++ "|y  :A2 jan" ++ nl ++ "|jj :j early" ++ nl ++ "|"
       ++ "rec:" ++ recline ++ nl) ++ [0%N] ++ s2b ("|rec:" ++ recline ++ nl) ++ [0%N]
  ++ s2b ("|e  :ev tie" ++ nl ++ "e  : more" ++ nl ++ "|jj :j tie" ++ nl ++ "|jj :j tie2" ++ nl ++ "|e  :ev late" ++ nl ++ "|").

Lemma forallb_Forall {A} (p : A -> bool) (P : A -> Prop) l : (forall x, p x = true -> P x) -> forallb p l = true -> Forall P l.
Proof. intros H E. apply Forall_forall. intros x Hx. apply H. exact (proj1 (forallb_forall p l) E x Hx). Qed.

Lemma ex_mixed_domain :
  domain O_ex opts_mx files_mx /\ gate_passed O_ex 64 opts_mx files_mx /\ gate_passed O_ex 8 opts_mx files_mx /\
  complete O_ex 2 opts_mx files_mx sched_mx.
Proof.
  split; [|split; [|split]].
  - split; [intro l; cbn; lia|].
    constructor; [|constructor; [|constructor; [|constructor; [|constructor; [|constructor]]]]].
    + unfold src_ok; cbn [pf_kind pf_data op_after op_before opts_mx]. split; [|apply fb_ex]. split; [vm_compute; reflexivity|]. repeat constructor; vm_compute; discriminate.
    + unfold src_ok; cbn [pf_kind pf_data op_after op_before opts_mx]. split; [eexists; vm_compute; reflexivity|].
      split; [eexists; eexists; split; [vm_compute; reflexivity|split; [vm_compute; reflexivity|]];
              apply (forallb_Forall (fun r => (0 <=? snd (RecordsSpec.r_tv r))%Z && (snd (RecordsSpec.r_tv r) <? 1000000)%Z));
              [intros x Hx; apply andb_true_iff in Hx as [H1 H2]; apply Z.leb_le in H1; apply Z.ltb_lt in H2; lia|vm_compute; reflexivity]|].
      split; [apply (forallb_Forall (fun b => (b <? 256)%N)); [intros x Hx; apply N.ltb_lt; exact Hx|vm_compute; reflexivity]|].
      exact FixedStructTablesOk.f32_int_text_len.
    + unfold src_ok; cbn [pf_kind pf_data op_after op_before opts_mx].
      apply Forall_cons; [apply nl_terminated_b_ok; vm_compute; reflexivity|].
      apply Forall_cons; [exact I|]. apply Forall_cons; [apply nl_terminated_b_ok; vm_compute; reflexivity|constructor].
    + unfold src_ok; cbn [pf_kind pf_data op_after op_before opts_mx]. split; [exact JournalWindow.ref_oracle_J1|].
      split; [cbn; lia|]. split; [intros t [<-|[<-|[<-|[]]]]; vm_compute; reflexivity|].
      split; [vm_compute; reflexivity|]. split; [exact I|].
      repeat (apply Forall_cons; [apply nl_terminated_b_ok; vm_compute; reflexivity|]); constructor.
    + unfold src_ok; cbn [pf_kind pf_data op_after op_before opts_mx].
      split; [eexists; split; [vm_compute; reflexivity|]; split; [vm_compute; reflexivity|]; repeat constructor; vm_compute; discriminate|].
      split; [eexists; split; [vm_compute; reflexivity|]; split; [vm_compute; reflexivity|]; repeat constructor; vm_compute; discriminate|].
      split; [repeat constructor; vm_compute; intuition discriminate|].
      intros av A w WU. vm_compute in WU. injection WU as <-.
      match goal with |- Forall _ ?l => replace l with (@nil Year.ymsg) by (vm_compute; reflexivity) end. constructor.
  - repeat constructor; try (vm_compute; reflexivity).
    intros tab E. vm_compute in E. inversion E; subst tab. vm_compute. reflexivity.
  - repeat constructor; try (vm_compute; reflexivity).
    intros tab E. vm_compute in E. inversion E; subst tab. vm_compute. reflexivity.
  - eexists. split; vm_compute; reflexivity.
Qed.

Lemma ex_mixed_program :
  program_m O_ex 2 64 rps_ex sched_mx opts_mx files_mx = POk (program_spec O_ex opts_mx files_mx) /\
  program_m O_ex 2 8 rps_ex sched_mx opts_mx files_mx = POk (program_spec O_ex opts_mx files_mx) /\
  fst (program_spec O_ex opts_mx files_mx) = Print.obs expected_mx /\
  let t := snd (program_spec O_ex opts_mx files_mx) in
  Summary.u_bytes t = Print.blen expected_mx /\ Summary.u_sys t = 3%N /\ Summary.u_fixed t = 2%N /\
  Summary.u_evtx t = 2%N /\ Summary.u_journal t = 3%N /\ Summary.u_lines t = 4%N /\
  Summary.u_first t = Some 2000000000%Z /\ Summary.u_last t = Some (T0 * 1000000000 + 5)%Z.
Proof. vm_compute. repeat split; reflexivity. Qed.

Lemma ex_mixed_by_theorem :
  program_m O_ex 2 64 rps_ex sched_mx opts_mx files_mx = POk (program_spec O_ex opts_mx files_mx).
Proof. destruct ex_mixed_domain as (D & G & _ & C). apply program_correct; assumption || reflexivity. Qed.

(* the year-less source: the instants the window and the merge use are those assign_years infers,
   here the true ones (9 Dec 2020, 2 Jan 2021) *)
Lemma ex_yearless :
  NoDup (yl_heads O_ex fy) /\
  Year.assign_years 2 0 (Year.year_of_seconds 0 mtime_mx) (yl_msgs O_ex fy) = Some [(2020, 1607472000000000000); (2021, 1609545600000000000)]%Z.
Proof. split; [repeat constructor; vm_compute; intuition discriminate|vm_compute; reflexivity]. Qed.

(* ================================================================ finding F17 at program level *)
(* a year-less log whose true dates are 1 Mar 1971, 1 Dec 1971, 1 Feb 1972 (mtime Feb 1972) with
   --dt-after 1972-01-01: the walk dates February 1972 and December 1971, stops there (before the
   bound) and never reaches March, which keeps the filler year: 1 Mar 1972 — inside the window.
   The program prints March and February; the specification (inferred dates) only February. *)
Definition f17 : file := s2b ("C1 march" ++ nl ++ "L1 december" ++ nl ++ "B1 february" ++ nl).
Definition mt17 : Z := 63072000 + 86400 * 40.
Definition files17 : list pfile := [mkPfile (src_ex "y") false f17 (KYearless 0 mt17)].
Definition opts17 : options :=
  mkOptions (undecorated cli_ex) (Some (63072000 * 1000000000)%Z) None JournalRender.OCat jenv_ex.
Definition sched17 : schedule :=
  [Coord.Send 0; Coord.Recv 0; Coord.Send 0; Coord.Recv 0; Coord.Print; Coord.Send 0; Coord.Recv 0; Coord.Print; Coord.Send 0; Coord.Recv 0].

Definition f17_spec_out : bytes := s2b ("B1 february" ++ nl).
Definition f17_prog_out : bytes := s2b ("C1 march" ++ nl ++ "B1 february" ++ nl).

Lemma ex_f17_refuted :
  (* the inferred instants are the true ones, the file is chronological under them ... *)
  (exists tab, yl_table O_ex 0 mt17 f17 = Some tab /\ file_ok (yl_dated O_ex tab) f17 /\
               map snd tab = [36633600000000000; 60393600000000000; 65750400000000000]%Z) /\
  NoDup (yl_heads O_ex f17) /\
  (* ... the stopped walk leaves March in the filler year, inside the window ... *)
  (exists tes, yl_table_es O_ex (op_after opts17) 0 mt17 f17 = Some tes /\
               map snd tes = [68256000000000000; 60393600000000000; 65750400000000000]%Z) /\
  (* ... and the program prints it, the specification does not *)
  Print.payload (fst (program_spec O_ex opts17 files17)) = f17_spec_out /\
  exists out t, program_m O_ex 1 64 rps_ex sched17 opts17 files17 = POk (out, t) /\
                Print.payload out = f17_prog_out.
Proof.
  split; [eexists; split; [vm_compute; reflexivity|]; split; [|vm_compute; reflexivity];
          split; [vm_compute; reflexivity|repeat constructor; vm_compute; discriminate]|].
  split; [repeat constructor; vm_compute; intuition discriminate|].
  split; [eexists; split; vm_compute; reflexivity|].
  split; [vm_compute; reflexivity|].
  eexists. eexists. split; vm_compute; reflexivity.
Qed.

(* ================================================================ the cached reader machine at work *)
(* a 46-byte file of six messages at block size 4 (12 blocks), no window.  Seekable, no drop: all 12 blocks and
   6 Syslines stay stored; seekable, drop_data_try after every message: 4 blocks dropped, 4 Syslines left;
   streamed .gz (look-behind drop of the block reader): the decoder went through the 12 blocks, 1 is stored;
   .xz (sliced at open) and a tar member likewise end normally.
   The worker sends the same six messages in every case - those of the pure block-wise reader. *)
Definition f_six : file :=
  s2b ("1 aaaa" ++ nl ++ "2 bbbb" ++ nl ++ " cc" ++ nl ++ "3 dddd" ++ nl ++ "4 eeee" ++ nl ++ "5 ffff" ++ nl ++ "6 gggg" ++ nl).
Definition reader_seen (st : Caches.sr_state) : N * N * N :=
  (Caches.b_dec (Caches.l_blk (Caches.s_lr st)), lenN (Caches.b_blocks (Caches.l_blk (Caches.s_lr st))),
   lenN (Caches.s_syslines st)).
Example ex_cached_reader :
  let st streamed plan := fst (cached_driver dated_ex 4 (mkRp 2 1 plan Caches.KSeq) None None streamed f_six) in
  reader_seen (st false []) = (0, 12, 6)%N /\ reader_seen (st false [true]) = (0, 8, 4)%N /\
  reader_seen (st true [true]) = (12, 1, 4)%N /\
  let pure := text_worker dated_ex dtspan_ex 4 None None false f_six in
  length (fst pure) = 6%nat /\
  cached_text_worker dated_ex dtspan_ex 4 (mkRp 2 1 [] Caches.KSeq) None None false f_six = pure /\
  cached_text_worker dated_ex dtspan_ex 4 (mkRp 2 1 [true] Caches.KSeq) None None false f_six = pure /\
  cached_text_worker dated_ex dtspan_ex 4 (mkRp 2 1 [true] Caches.KSeq) None None true f_six = pure /\
  cached_text_worker dated_ex dtspan_ex 4 (mkRp 2 1 [true] Caches.KXz) None None true f_six = pure /\
  cached_text_worker dated_ex dtspan_ex 4 (mkRp 2 1 [true] Caches.KTar) None None true f_six = pure.
Proof. vm_compute. repeat split; reflexivity. Qed.

(* the same file, seekable, with the window 3 .. 5: the binary search threaded through the cached machine makes 10
   find_sysline calls (3 answered from the range map); with drop_data_try after every message one block and two
   Syslines are dropped; the three messages sent are those of the pure reader *)
Example ex_cached_window :
  let A := Some 3000000000%Z in let B := Some 5000000000%Z in
  reader_seen (fst (cached_win_driver dated_ex 4 (mkRp 2 1 [] Caches.KSeq) A B f_six)) = (0, 12, 6)%N /\
  reader_seen (fst (cached_win_driver dated_ex 4 (mkRp 2 1 [true] Caches.KSeq) A B f_six)) = (0, 11, 4)%N /\
  (let c := Caches.s_cnt (fst (cached_win_driver dated_ex 4 (mkRp 2 1 [true] Caches.KSeq) A B f_six)) in
   (Caches.sc_lru_miss c, Caches.sc_range_hit c) = (10, 3)%N) /\
  length (fst (text_worker dated_ex dtspan_ex 4 A B false f_six)) = 3%nat /\
  cached_win_worker dated_ex dtspan_ex 4 (mkRp 2 1 [true] Caches.KSeq) A B f_six = text_worker dated_ex dtspan_ex 4 A B false f_six.
Proof. vm_compute. repeat split; reflexivity. Qed.
