(* Proofs/ProgramExamples.v — the hypotheses of program_correct are satisfiable, and the composed
   model evaluates: a 3-file input with cross-file and intra-file ties, a multi-line message, a
   streamed file, a file without final newline, a window that cuts every file, and decoration
   (-n -w, a date field, a separator, --summary), at two block sizes under two schedules. *)
From Coq Require Import List NArith ZArith Bool Arith Lia String.
Import ListNotations.
From S4.Base Require Import Bytes Chunk.
From S4.Spec Require Import LinesSpec WindowSpec.
From S4.Model Require Lines Syslines Search Merge Coord Strftime Print Summary Gate.
From S4.Model Require Import Program.
From S4.Proofs Require Import ProgramProofs.

(* a line is dated iff it begins with a digit d: instant d seconds *)
Definition dated_ex (l : list N) : option Z :=
  match l with
  | c :: _ => if ((48 <=? c) && (c <=? 57))%N then Some (Z.of_N (c - 48) * 1000000000)%Z else None
  | [] => None
  end.
Definition dtspan_ex (l : list N) : nat * nat := (0, 1)%nat.

Definition src_ex (n : string) : Summary.source :=
  {| Summary.s_name := s2b n; Summary.s_nchars := String.length n; Summary.s_width := String.length n |}.

Definition nl : string := String (Ascii.ascii_of_nat 10) EmptyString.
Definition f0 : file := s2b ("1 a" ++ nl ++ "2 b" ++ nl ++ " c" ++ nl ++ "2 d" ++ nl ++ "4 e").
Definition f1 : file := s2b ("0 x" ++ nl ++ "2 y" ++ nl ++ "3 z" ++ nl).
Definition f2 : file := s2b ("2 p" ++ nl ++ "5 q" ++ nl).
Definition files_ex : list pfile :=
  [mkPfile (src_ex "a") false f0; mkPfile (src_ex "bb") true f1; mkPfile (src_ex "c") false f2].

Definition cli_ex : Summary.cli :=
  {| Summary.c_colour := false; Summary.c_prepend_file := true; Summary.c_align := true;
     Summary.c_psep := s2b ":"; Summary.c_fmt := Some (s2b "%s"); Summary.c_off := 0%Z;
     Summary.c_sep := s2b "|"; Summary.c_summary := true |}.
Definition opts_ex : options := mkOptions cli_ex (Some 2000000000%Z) (Some 4000000000%Z).

(* two schedulers: at each step the first enabled event of a priority list *)
Fixpoint try_events (cap : nat) (s : Coord.state) (cands : list Coord.event) : option (Coord.event * Coord.state) :=
  match cands with
  | [] => None
  | e :: r => match Coord.step cap s e with Some s' => Some (e, s') | None => try_events cap s r end
  end.
Fixpoint greedy (fuel cap : nat) (cands : list Coord.event) (s : Coord.state) : list Coord.event :=
  match fuel with
  | O => []
  | S k => match try_events cap s cands with
           | Some (e, s') => e :: greedy k cap cands s'
           | None => []
           end
  end.
Definition init_ex := Coord.init (tags_of (spec_sources dated_ex dtspan_ex opts_ex files_ex)).
(* capacity 1, the coordinator first: workers send only when nothing else can happen *)
Definition sched_lazy : schedule :=
  greedy 200 1 [Coord.Print; Coord.Recv 0; Coord.Recv 1; Coord.Recv 2; Coord.Send 0; Coord.Send 1; Coord.Send 2] init_ex.
(* capacity 5, the workers first, last source first: every channel fills up before a receive *)
Definition sched_eager : schedule :=
  greedy 200 5 [Coord.Send 2; Coord.Send 1; Coord.Send 0; Coord.Recv 2; Coord.Recv 1; Coord.Recv 0; Coord.Print] init_ex.

Definition expected_ex : bytes :=
  s2b ("a :2:2 b" ++ nl ++ "a :2: c" ++ nl ++ "|a :2:2 d" ++ nl ++ "|bb:2:2 y" ++ nl ++ "|c :2:2 p" ++ nl
       ++ "|bb:3:3 z" ++ nl ++ "|a :4:4 e|" ++ nl).

Lemma ex_domain :
  domain dated_ex dtspan_ex files_ex /\
  gate_passed dated_ex 3 files_ex /\ gate_passed dated_ex 64 files_ex /\
  complete dated_ex dtspan_ex 1 opts_ex files_ex sched_lazy /\
  complete dated_ex dtspan_ex 5 opts_ex files_ex sched_eager /\
  sched_lazy <> sched_eager.
Proof.
  split; [|split; [|split; [|split; [|split]]]].
  - split; [intro l; cbn; lia|].
    repeat constructor; try (vm_compute; reflexivity); try (vm_compute; discriminate).
  - repeat constructor; vm_compute; reflexivity.
  - repeat constructor; vm_compute; reflexivity.
  - eexists. split; vm_compute; reflexivity.
  - eexists. split; vm_compute; reflexivity.
  - vm_compute. discriminate.
Qed.

(* the composed code-level model evaluates to the specification, at block size 3 under the lazy
   schedule and at block size 64 under the eager one; and this is the output *)
Lemma ex_program :
  program_m dated_ex dtspan_ex 1 3 sched_lazy opts_ex files_ex = POk (program_spec dated_ex dtspan_ex opts_ex files_ex) /\
  program_m dated_ex dtspan_ex 5 64 sched_eager opts_ex files_ex = POk (program_spec dated_ex dtspan_ex opts_ex files_ex) /\
  fst (program_spec dated_ex dtspan_ex opts_ex files_ex) = Print.obs expected_ex /\
  let t := snd (program_spec dated_ex dtspan_ex opts_ex files_ex) in
  Summary.u_bytes t = 68%N /\ Summary.u_lines t = 7%N /\ Summary.u_sys t = 6%N /\
  Summary.u_first t = Some 2000000000%Z /\ Summary.u_last t = Some 4000000000%Z.
Proof. vm_compute. repeat split; reflexivity. Qed.

(* the same two equations as instances of the theorem *)
Lemma ex_program_by_theorem :
  program_m dated_ex dtspan_ex 1 3 sched_lazy opts_ex files_ex = POk (program_spec dated_ex dtspan_ex opts_ex files_ex) /\
  program_m dated_ex dtspan_ex 5 64 sched_eager opts_ex files_ex = POk (program_spec dated_ex dtspan_ex opts_ex files_ex).
Proof.
  destruct ex_domain as (D & G3 & G64 & C1 & C5 & _).
  split; apply program_correct; assumption || reflexivity.
Qed.

(* an incomplete schedule is reported, not silently accepted *)
Lemma ex_incomplete :
  program_m dated_ex dtspan_ex 1 3 (firstn 10 sched_lazy) opts_ex files_ex = PNotFinal /\
  program_m dated_ex dtspan_ex 1 3 [Coord.Print] opts_ex files_ex = PSchedule.
Proof. vm_compute. split; reflexivity. Qed.

(* a file the block-zero gate rejects sends no message (not in the domain of program_correct) *)
Definition f_small : file := s2b "1 a".
Definition files_small : list pfile := [mkPfile (src_ex "a") false f_small].
Lemma ex_gate_rejects :
  Gate.gate dated_ex 64 f_small = Gate.FileErrTooSmall /\
  exists out t, program_m dated_ex dtspan_ex 1 64 [Coord.Send 0; Coord.Recv 0; Coord.Send 0; Coord.Recv 0]
                          (mkOptions cli_ex None None) files_small = POk (out, t) /\ out = [].
Proof. split; [vm_compute; reflexivity|]. eexists. eexists. vm_compute. split; reflexivity. Qed.

(* ---------------------------------------------------------------- the hypotheses are needed *)
(* a non-chronological file: the program prints file order, the specification sorts *)
Definition f_uns : file := s2b ("3 aaa" ++ nl ++ "1 bbb" ++ nl ++ "2 ccc" ++ nl).
Definition files_uns : list pfile := [mkPfile (src_ex "a") false f_uns].
Definition opts_plain : options := mkOptions (undecorated cli_ex) None None.
Definition sched_uns : schedule :=
  greedy 200 1 [Coord.Print; Coord.Recv 0; Coord.Send 0]
         (Coord.init (tags_of (spec_sources dated_ex dtspan_ex opts_plain files_uns))).

Definition sorted_uns : bytes := s2b ("1 bbb" ++ nl ++ "2 ccc" ++ nl ++ "3 aaa" ++ nl).

Lemma ex_chronological_needed :
  file_chronological dated_ex f_uns -> False.
Proof. unfold file_chronological. vm_compute. discriminate. Qed.

Lemma ex_unsorted_refuted :
  span_ok dtspan_ex /\ file_msgs_2bytes dated_ex f_uns /\ gate_passed dated_ex 64 files_uns /\
  complete dated_ex dtspan_ex 1 opts_plain files_uns sched_uns /\
  exists out t, program_m dated_ex dtspan_ex 1 64 sched_uns opts_plain files_uns = POk (out, t) /\
                Print.payload out = f_uns /\
                Print.payload (fst (program_spec dated_ex dtspan_ex opts_plain files_uns)) = sorted_uns /\
                program_m dated_ex dtspan_ex 1 64 sched_uns opts_plain files_uns
                <> POk (program_spec dated_ex dtspan_ex opts_plain files_uns).
Proof.
  split; [intro l; cbn; lia|]. split; [repeat constructor; vm_compute; discriminate|].
  split; [repeat constructor; vm_compute; reflexivity|].
  split; [eexists; split; vm_compute; reflexivity|].
  eexists. eexists. split; [vm_compute; reflexivity|]. split; [vm_compute; reflexivity|].
  split; [vm_compute; reflexivity|]. vm_compute. discriminate.
Qed.

(* a file that stage 1 rejects at this block size: the specification has a message, the program prints none *)
Lemma ex_gate_needed :
  domain dated_ex dtspan_ex files_small /\
  Gate.gate dated_ex 64 f_small <> Gate.FileOk /\
  complete dated_ex dtspan_ex 1 (mkOptions cli_ex None None) files_small
           [Coord.Send 0; Coord.Recv 0; Coord.Send 0; Coord.Recv 0; Coord.Print; Coord.Send 0; Coord.Recv 0] /\
  length (spec_events dated_ex dtspan_ex (mkOptions cli_ex None None) files_small) = 1%nat /\
  program_m dated_ex dtspan_ex 1 64 [Coord.Send 0; Coord.Recv 0; Coord.Send 0; Coord.Recv 0]
            (mkOptions cli_ex None None) files_small <> POk (program_spec dated_ex dtspan_ex (mkOptions cli_ex None None) files_small).
Proof.
  split; [split; [intro l; cbn; lia|repeat constructor; vm_compute; reflexivity || discriminate]|].
  split; [vm_compute; discriminate|].
  split; [eexists; split; vm_compute; reflexivity|].
  split; [vm_compute; reflexivity|]. vm_compute. discriminate.
Qed.

(* a 1-byte message (only an oracle that dates an empty line produces one before another message):
   the binary search hands the too-early message to find_between, which ends the file with the
   "BeforeRange ... unexpected" error exit; the specification prints the later message *)
Definition dated_nl (l : list N) : option Z :=
  match l with
  | [10%N] => Some 1000000000%Z
  | _ => dated_ex l
  end.
Definition f_len1 : file := s2b (nl ++ "8 xyz" ++ nl).
Definition files_len1 : list pfile := [mkPfile (src_ex "a") false f_len1].
Definition opts_len1 : options := mkOptions (undecorated cli_ex) (Some 2000000000%Z) None.

Definition len1_expected : bytes := s2b ("8 xyz" ++ nl).

Lemma ex_len1_refuted :
  file_chronological dated_nl f_len1 /\ span_ok dtspan_ex /\ gate_passed dated_nl 64 files_len1 /\
  (file_msgs_2bytes dated_nl f_len1 -> False) /\
  Print.payload (fst (program_spec dated_nl dtspan_ex opts_len1 files_len1)) = len1_expected /\
  forall sched, program_m dated_nl dtspan_ex 1 64 sched opts_len1 files_len1 = PWorker 0 (GErr 3).
Proof.
  split; [vm_compute; reflexivity|]. split; [intro l; cbn; lia|].
  split; [repeat constructor; vm_compute; reflexivity|].
  split; [intro H; inversion H as [|? ? H1 _]; vm_compute in H1; apply H1; reflexivity|].
  split; [vm_compute; reflexivity|]. intro sched. vm_compute. reflexivity.
Qed.
