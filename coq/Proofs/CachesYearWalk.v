(* Proofs/CachesYearWalk.v — the reverse pass of a year-less log IS the walk of Model/Year.v (piece (b)).

   gwalk: Year.redate / Year.walk with the instant function, the tolerance and the early stop as parameters
          (Year.walk = gwalk (with_year off) TOL (no stop): walk_gwalk).
   The loop c_year_loop (Model/Caches.v), started after clear_syslines at the last byte of the file, visits the
   messages from the last one upwards; every call is a MISS of check_store (everything stored lies at or below the
   message just accepted: Abv), so the message is built with the current year (CachesYearDriver.yi_find), the jump test is
   gredate's test, a jump removes the message and clears the LRU caches (yi_remove), and the message accepted stays in
   `syslines` with the instant of the year it was accepted with.  Result (year_loop_walk, yearless_walk): the loop ends
   with Found (the year of the topmost message walked) and `syslines` holds at the begin of every message walked the
   instant gwalk gives it. *)
From S4.Base Require Import Bytes Chunk.
From S4.Spec Require Import LinesSpec.
From S4.Model Require Import Lines Syslines Caches.
From S4.Model Require Year.
From S4.Proofs Require Import LinesProofs SyslinesProofs CachesProofs CachesSysProofs CachesRunProofs CachesYearProofs
  CachesYearParam CachesYearDriver.
Open Scope N_scope.

(* ---------------------------------------------------------------- the generic walk *)
Section GWalk.
  Context {M : Type}.
  Variable inst : Z -> M -> option Z.     (* the instant of a message dated with a year *)
  Variable tol : Z.
  Variable stop : Z -> bool.              (* the early stop at --dt-after *)

  Fixpoint gredate (fuel : nat) (year : Z) (prev : option Z) (m : M) : Year.outcome :=
    match fuel with
    | O => Year.OutOfFuel
    | Datatypes.S k =>
        match inst year m with
        | None => Year.Undatable
        | Some t =>
            match prev with
            | Some p => if ((p <? t) && (tol <? t - p))%Z then gredate k (year - 1)%Z prev m else Year.Dated year t
            | None => Year.Dated year t
            end
        end
    end.

  Fixpoint gwalk (fuel : nat) (year : Z) (prev : option Z) (rmsgs : list M) : option (list (Z * Z)) :=
    match rmsgs with
    | [] => Some []
    | m :: r =>
        match gredate fuel year prev m with
        | Year.Dated y t => if stop t then Some [(y, t)] else option_map (cons (y, t)) (gwalk fuel y (Some t) r)
        | _ => None
        end
    end.

  (* the year the walk ends with *)
  Fixpoint fin (y : Z) (l : list (Z * Z)) : Z := match l with [] => y | (y1, _) :: r => fin y1 r end.

  Lemma gwalk_length fuel : (forall t, stop t = false) -> forall r year prev l,
    gwalk fuel year prev r = Some l -> length l = length r.
  Proof.
    intros NS. induction r as [|m r IH]; intros year prev l; cbn [gwalk].
    - intro H; injection H as <-. reflexivity.
    - destruct (gredate fuel year prev m) as [y t| |]; try discriminate. rewrite NS.
      destruct (gwalk fuel y (Some t) r) as [l'|] eqn:W; [|discriminate]. intro H; injection H as <-.
      cbn [length]. f_equal. eapply IH; eauto.
  Qed.
End GWalk.

Lemma redate_gredate off fuel : forall year prev m,
  Year.redate fuel off year prev m = gredate (Year.with_year off) Year.TOL fuel year prev m.
Proof.
  induction fuel as [|k IH]; intros year prev m; cbn [Year.redate gredate]; [reflexivity|].
  destruct (Year.with_year off year m); [|reflexivity]. destruct prev; [|reflexivity].
  destruct (_ && _)%bool; [apply IH|reflexivity].
Qed.

Lemma walk_gwalk off fuel : forall r year prev,
  Year.walk fuel off year prev r = gwalk (Year.with_year off) Year.TOL (fun _ => false) fuel year prev r.
Proof.
  induction r as [|m r IH]; intros year prev; cbn [Year.walk gwalk]; [reflexivity|].
  rewrite redate_gredate. destruct (gredate _ _ fuel year prev m); try reflexivity. rewrite IH. reflexivity.
Qed.

(* the walk over other names of the same messages *)
Lemma gwalk_rename {M1 M2} (i1 : Z -> M1 -> option Z) (i2 : Z -> M2 -> option Z) tol stop fuel :
  forall r1 r2, Forall2 (fun a b => forall y, i1 y a = i2 y b) r1 r2 ->
  forall year prev, gwalk i1 tol stop fuel year prev r1 = gwalk i2 tol stop fuel year prev r2.
Proof.
  assert (RD : forall a b, (forall y, i1 y a = i2 y b) -> forall k year prev,
            gredate i1 tol k year prev a = gredate i2 tol k year prev b).
  { intros a b E. induction k as [|k IH]; intros year prev; cbn [gredate]; [reflexivity|].
    rewrite E. destruct (i2 year b); [|reflexivity]. destruct prev; [|reflexivity].
    destruct (_ && _)%bool; [apply IH|reflexivity]. }
  induction 1 as [|a b r1 r2 E _ IH]; intros year prev; cbn [gwalk]; [reflexivity|].
  rewrite (RD a b E). destruct (gredate i2 tol fuel year prev b); try reflexivity.
  rewrite IH. reflexivity.
Qed.

(* ---------------------------------------------------------------- the keys of the find_sysline LRU cache *)
Section LruFrame.
  Variable dated : list N -> option Z.
  Variable bs : N.
  Variable f : file.
  Variable Q : N -> Prop.

  Definition lruQ (st : sr_state) : Prop := forall k v, In (k, v) (s_lru st) -> Q k.

  Lemma parse_lru st s : s_lru (fst (sr_parse dated bs f st s)) = s_lru st.
  Proof.
    unfold sr_parse. destruct (s_parse_on st); [|reflexivity]. destruct (line_fo_begin bs (sl_parts s)); [|reflexivity].
    destruct (lru_get _ _) as [[z|] c]; [reflexivity|]. destruct (dated _); reflexivity.
  Qed.
  Lemma find_line_lru st acc fo : s_lru (fst (sr_find_line bs f st acc fo)) = s_lru st.
  Proof. unfold sr_find_line. destruct (c_find_line _ _ _ _) as [[l r] p]. reflexivity. Qed.

  Lemma In_firstn {A} (x : A) n l : In x (firstn n l) -> In x l.
  Proof. revert l; induction n as [|n IH]; intros [|a l]; cbn; try tauto. intros [E|I]; [left; exact E|right; apply IH; exact I]. Qed.

  Lemma put_always_lruQ st fo r : Q fo -> lruQ st -> lruQ (sr_put_always st fo r).
  Proof.
    intros QF L k v IN. unfold sr_put_always in IN. cbn [sr_cnt sr_set_lru s_lru] in IN.
    unfold lru_put in IN. apply In_firstn in IN. destruct IN as [E|IN]; [inversion E; subst; exact QF|].
    apply In_aremove in IN. eapply L; eauto.
  Qed.
  Lemma put_lruQ st fo r : Q fo -> lruQ st -> lruQ (sr_put st fo r).
  Proof. intros QF L. unfold sr_put. destruct (s_on st); [apply put_always_lruQ; assumption|exact L]. Qed.

  Lemma lruQ_eq st st' : s_lru st' = s_lru st -> lruQ st -> lruQ st'.
  Proof. intros E L k v IN. rewrite E in IN. eapply L; eauto. Qed.

  Lemma loop_a_lruQ fuel : forall st fo fo1 tried mx, Q fo -> lruQ st ->
    lruQ (fst (c_loop_a dated fuel bs f st fo fo1 tried mx)).
  Proof.
    induction fuel as [|k IH]; intros st fo fo1 tried mx QF L; cbn [c_loop_a]; [exact L|].
    pose proof (find_line_lru st [] fo1) as E1. destruct (sr_find_line bs f st [] fo1) as [st1 r1]. cbn [fst] in E1.
    assert (L1 : lruQ st1) by (eapply lruQ_eq; eauto).
    destruct r1 as [[fo2 ln]| | |]; try exact L1; [|cbn [fst]; apply put_lruQ; assumption].
    pose proof (parse_lru st1 ln) as E2. destruct (sr_parse dated bs f st1 ln) as [st2 o]. cbn [fst] in E2.
    assert (L2 : lruQ st2) by (eapply lruQ_eq; eauto).
    destruct o as [dt|].
    - destruct (line_fo_end bs (sl_parts ln)); cbn [fst]; exact L2.
    - destruct (line_fo_begin bs (sl_parts ln)) as [lb|]; [|cbn [fst]; exact L2].
      destruct tried; [apply IH; assumption|]. destruct (1 <? lb); [|apply IH; assumption].
      destruct (range_get (s_range st2) (lb - 1)); apply IH; assumption.
  Qed.

  Lemma loop_b_lru fuel : forall st fo1 acc, s_lru (fst (c_loop_b dated fuel bs f st fo1 acc)) = s_lru st.
  Proof.
    induction fuel as [|k IH]; intros st fo1 acc; cbn [c_loop_b]; [reflexivity|].
    pose proof (find_line_lru st acc fo1) as E1. destruct (sr_find_line bs f st acc fo1) as [st1 r1]. cbn [fst] in E1.
    destruct r1 as [[fo2 ln]| | |]; try exact E1.
    pose proof (parse_lru st1 ln) as E2. destruct (sr_parse dated bs f st1 ln) as [st2 o]. cbn [fst] in E2.
    destruct o; [cbn [fst]; congruence|rewrite IH; congruence].
  Qed.

  (* a call that neither the LRU cache nor the range map nor `syslines` can answer: a search; if it finds a message
     it is the one built and inserted by this call *)
  Lemma find_sysline_miss st fo st' r p : c_find_sysline dated bs f st fo = (st', r, p) ->
    alookup fo (s_lru st) = None -> range_get (s_range st) fo = None -> alookup fo (s_syslines st) = None ->
    Q fo -> lruQ st ->
    lruQ st' /\
    forall n s, r = Found (n, s) ->
      p = QSearch /\ exists b, ss_begin bs s = Some b /\ s_syslines st' = ainsert b s (s_syslines st).
  Proof.
    intros C A1 A2 A3 QF L. unfold c_find_sysline in C.
    assert (CS : exists stm, sr_check_store bs f st fo = (None, stm) /\ s_lru stm = s_lru st /\ s_syslines stm = s_syslines st).
    { unfold sr_check_store. unfold lru_get. rewrite A1.
      destruct (s_on st); cbn [sr_cnt s_range s_syslines]; rewrite A2; cbn [sr_cnt s_range s_syslines]; rewrite A3;
        eexists; split; reflexivity || (split; reflexivity). }
    destruct CS as (stm & CS & E1 & E2). rewrite CS in C.
    assert (Lm : lruQ stm) by (eapply lruQ_eq; eauto).
    pose proof (loop_a_lruQ (2 * length f + 3) stm fo fo false 0 QF Lm) as LA.
    pose proof (loop_a_sys dated bs f (2 * length f + 3) stm fo fo false 0) as SA.
    destruct (c_loop_a dated _ bs f stm fo fo false 0) as [st3 ra]. cbn [fst] in LA, SA.
    destruct ra as [[[dt ln] fo1]| | |]; try (injection C as <- <- <-; split; [exact LA|intros; discriminate]).
    pose proof (loop_b_lru (2 * length f + 3) st3 fo1 [ln]) as LB.
    pose proof (loop_b_sys dated bs f (2 * length f + 3) st3 fo1 [ln]) as SB.
    destruct (c_loop_b dated _ bs f st3 fo1 [ln]) as [st4 rb]. cbn [fst] in LB, SB.
    assert (L4 : lruQ st4) by (eapply lruQ_eq; eauto).
    destruct rb as [[fo_b lns]| | |]; try (injection C as <- <- <-; split; [exact L4|intros; discriminate]).
    unfold sr_store_found, sr_insert in C.
    destruct (ss_begin bs (s_nid st4, dt, lns)) as [b|] eqn:B; [|injection C as <- <- <-; split; [exact L4|intros; discriminate]].
    destruct (ss_end bs (s_nid st4, dt, lns)) as [e|]; [|injection C as <- <- <-; split; [exact L4|intros; discriminate]].
    injection C as <- <- <-. split.
    - apply put_lruQ; [exact QF|]. intros k v IN. cbn [s_lru] in IN. eapply L4; eauto.
    - intros n s H. injection H as <- <-. split; [reflexivity|]. exists b. split; [exact B|].
      rewrite put_sys. cbn [s_syslines]. congruence.
  Qed.
  (* the same with a predicate on the entries *)
  Variable E : N -> sres -> Prop.
  Definition lruE (st : sr_state) : Prop := forall k v, In (k, v) (s_lru st) -> E k v.

  Lemma put_always_lruE st fo r : E fo r -> lruE st -> lruE (sr_put_always st fo r).
  Proof.
    intros QF L k v IN. unfold sr_put_always in IN. cbn [sr_cnt sr_set_lru s_lru] in IN.
    unfold lru_put in IN. apply In_firstn in IN. destruct IN as [X|IN]; [inversion X; subst; exact QF|].
    apply In_aremove in IN. eapply L; eauto.
  Qed.
  Lemma put_lruE st fo r : E fo r -> lruE st -> lruE (sr_put st fo r).
  Proof. intros QF L. unfold sr_put. destruct (s_on st); [apply put_always_lruE; assumption|exact L]. Qed.
  Lemma lruE_eq st st' : s_lru st' = s_lru st -> lruE st -> lruE st'.
  Proof. intros X L k v IN. rewrite X in IN. eapply L; eauto. Qed.

  Lemma loop_a_lruE fuel : forall st fo fo1 tried mx, E fo SD -> lruE st ->
    lruE (fst (c_loop_a dated fuel bs f st fo fo1 tried mx)).
  Proof.
    induction fuel as [|k IH]; intros st fo fo1 tried mx QF L; cbn [c_loop_a]; [exact L|].
    pose proof (find_line_lru st [] fo1) as E1. destruct (sr_find_line bs f st [] fo1) as [st1 r1]. cbn [fst] in E1.
    assert (L1 : lruE st1) by (eapply lruE_eq; eauto).
    destruct r1 as [[fo2 ln]| | |]; try exact L1; [|cbn [fst]; apply put_lruE; assumption].
    pose proof (parse_lru st1 ln) as E2. destruct (sr_parse dated bs f st1 ln) as [st2 o]. cbn [fst] in E2.
    assert (L2 : lruE st2) by (eapply lruE_eq; eauto).
    destruct o as [dt|].
    - destruct (line_fo_end bs (sl_parts ln)); cbn [fst]; exact L2.
    - destruct (line_fo_begin bs (sl_parts ln)) as [lb|]; [|cbn [fst]; exact L2].
      destruct tried; [apply IH; assumption|]. destruct (1 <? lb); [|apply IH; assumption].
      destruct (range_get (s_range st2) (lb - 1)); apply IH; assumption.
  Qed.
End LruFrame.

(* the entries of the find_sysline LRU cache after a miss: the old ones, and under the requested offset Done or the answer *)

Lemma find_sysline_miss_entries dated bs (f : file) st fo st' r p : c_find_sysline dated bs f st fo = (st', r, p) ->
  alookup fo (s_lru st) = None -> range_get (s_range st) fo = None -> alookup fo (s_syslines st) = None ->
  forall k v, In (k, v) (s_lru st') ->
    In (k, v) (s_lru st) \/ (k = fo /\ (v = SD \/ exists n s, v = SF n s /\ r = Found (n, s))).
Proof.
  intros C A1 A2 A3. unfold c_find_sysline in C.
  assert (CS : exists stm, sr_check_store bs f st fo = (None, stm) /\ s_lru stm = s_lru st).
  { unfold sr_check_store. unfold lru_get. rewrite A1.
    destruct (s_on st); cbn [sr_cnt s_range s_syslines]; rewrite A2; cbn [sr_cnt s_range s_syslines]; rewrite A3;
      eexists; split; reflexivity. }
  destruct CS as (stm & CS & E1). rewrite CS in C.
  set (E := fun k v => In (k, v) (s_lru st) \/ (k = fo /\ v = SD)).
  assert (Lm : lruE E stm) by (intros k v IN; left; rewrite <- E1; exact IN).
  pose proof (loop_a_lruE dated bs f (fun _ => True) E (2 * length f + 3) stm fo fo false 0 (or_intror (conj eq_refl eq_refl)) Lm) as LA.
  destruct (c_loop_a dated _ bs f stm fo fo false 0) as [st3 ra]. cbn [fst] in LA.
  assert (FIN : forall stx, lruE E stx -> forall k v, In (k, v) (s_lru stx) ->
            In (k, v) (s_lru st) \/ (k = fo /\ (v = SD \/ exists n s, v = SF n s /\ r = Found (n, s)))).
  { intros stx L k v IN. destruct (L k v IN) as [X|[X Y]]; [left; exact X|right; split; [exact X|left; exact Y]]. }
  destruct ra as [[[dt ln] fo1]| | |]; try (injection C as <- <- <-; apply FIN; exact LA).
  pose proof (loop_b_lru dated bs f (2 * length f + 3) st3 fo1 [ln]) as LB.
  destruct (c_loop_b dated _ bs f st3 fo1 [ln]) as [st4 rb]. cbn [fst] in LB.
  assert (L4 : lruE E st4) by (eapply lruE_eq; eauto).
  destruct rb as [[fo_b lns]| | |]; try (injection C as <- <- <-; apply FIN; exact L4).
  unfold sr_store_found, sr_insert in C.
  destruct (ss_begin bs (s_nid st4, dt, lns)) as [b|] eqn:B; [|injection C as <- <- <-; apply FIN; exact L4].
  destruct (ss_end bs (s_nid st4, dt, lns)) as [e|]; [|injection C as <- <- <-; apply FIN; exact L4].
  injection C as <- <- <-. intros k v IN.
  unfold sr_put in IN. cbn [s_on] in IN. destruct (s_on st4).
  - unfold sr_put_always, lru_put in IN. cbn [sr_cnt sr_set_lru s_lru] in IN. apply (In_firstn dated bs f (fun _ => True)) in IN.
    destruct IN as [X|IN]; [inversion X; subst; right; split; [reflexivity|right; eexists _, _; split; reflexivity]|].
    apply In_aremove in IN. exact (FIN st4 L4 k v IN).
  - cbn [s_lru] in IN. exact (FIN st4 L4 k v IN).
Qed.

Lemma Forall2_rev {A B} (P : A -> B -> Prop) l1 l2 : Forall2 P l1 l2 -> Forall2 P (rev l1) (rev l2).
Proof. induction 1 as [|a b l1 l2 H _ IH]; cbn [rev]; [constructor|]. apply Forall2_app; [exact IH|constructor; [exact H|constructor]]. Qed.

Lemma In_aremove_neq {V} k k' (v : V) m : In (k', v) (aremove k m) -> k' <> k.
Proof.
  induction m as [|[k2 v2] m IH]; cbn [aremove]; [tauto|].
  destruct (N.eqb_spec k k2) as [->|NE]; [exact IH|]. intros [E|I]; [inversion E; subst; congruence|apply IH; exact I].
Qed.

(* before the first message: the first message *)
Lemma spec_before_first dated (f : file) b g x : is_group dated f b g ->
  (forall b' g', is_group dated f b' g' -> b <= b') -> x < b + glen g ->
  spec_find_sysline dated f x = Some (b + glen g, b, g).
Proof.
  intros G MIN LT. destruct (is_group_pos dated f _ _ G) as (PG & _).
  assert (HP : forall b' g', is_group dated f b' g' -> 0 < glen g') by (intros b' g' G'; exact (proj1 (is_group_pos dated f _ _ G'))).
  unfold spec_find_sysline. unfold is_group in G, MIN, HP. unfold syslines_at in *.
  set (o := first_dated_offset dated f) in *.
  destruct (syslines dated f) as [|g1 gs]; [contradiction|].
  assert (I1 : In (o, g1) (with_offsets o (g1 :: gs))) by (left; reflexivity).
  pose proof (MIN _ _ I1) as L1. pose proof (with_offsets_ge _ _ _ _ G) as L2. assert (b = o) by lia. subst b.
  pose proof (HP _ _ I1) as P1.
  assert (g = g1).
  { destruct G as [E|IN]; [congruence|]. apply with_offsets_ge in IN. unfold glen in P1. lia. }
  subst g1. cbn [with_offsets pick_group]. unfold glen in LT. destruct (N.ltb_spec x (o + lenN (group_bytes g))); [reflexivity|lia].
Qed.

(* ---------------------------------------------------------------- the loop *)
Section Walk.
  Variable dated_y : option Z -> list N -> option Z.
  Variable bs : N.
  Variable f : file.
  Hypothesis Hbs : 0 < bs.
  Hypothesis Hind : forall y y' l, dated_y (Some y) l = None <-> dated_y (Some y') l = None.
  Variable tol : Z.
  Variable fa : option Z.
  Variable y0 : Z.                        (* the year the structure of the file is read with: any *)

  Local Notation Dy := (D dated_y).
  Local Notation ph := (phi dated_y f).
  Local Notation YIy := (YI dated_y bs f).

  (* the instant of year y on the line that begins at b *)
  Definition inst (y : Z) (b : N) : option Z := Dy y (slice f b (line_end f b + 1)).

  (* everything stored lies at or after x *)
  Definition Abv (x : N) (st : sr_state) : Prop :=
    lruQ (fun k => x <= k) st /\ forall k s, In (k, s) (s_syslines st) -> x <= k.

  Definition stored (st : sr_state) (b : N) (yt : Z * Z) : Prop :=
    exists s, alookup b (s_syslines st) = Some s /\ ss_begin bs s = Some b /\ ss_dt s = snd yt.

  (* every message in the find_sysline LRU cache is stored in `syslines` with that instant *)
  Definition lruS (st : sr_state) : Prop := forall k n s, In (k, SF n s) (s_lru st) ->
    exists b s', ss_begin bs s = Some b /\ alookup b (s_syslines st) = Some s' /\ ss_dt s' = ss_dt s.

  Lemma inst_group y b g : is_group (Dy y0) f b g -> inst y b = Some (ph y b).
  Proof.
    intro G0. pose proof (is_group_year dated_y bs f Hbs Hind y0 y b g G0) as G.
    destruct (syslines_at_fact (Dy y) f _ _ G) as ((l & rest & SG & DL & PL & LT & LB & LE & SL) & _).
    unfold inst. rewrite LE. replace (b + lenN l - 1 + 1) with (b + lenN l) by lia. rewrite SL, DL. reflexivity.
  Qed.

  Lemma abv_miss y x st fo : YIy y st -> Abv x st -> fo < x ->
    alookup fo (s_lru st) = None /\ range_get (s_range st) fo = None /\ alookup fo (s_syslines st) = None.
  Proof.
    intros [[I _] ND] [AL AS] LT. split; [|split].
    - destruct (alookup fo (s_lru st)) as [v|] eqn:E; [|reflexivity]. apply alookup_In in E. apply AL in E. lia.
    - destruct (range_get (s_range st) fo) as [v|] eqn:E; [|reflexivity]. exfalso.
      apply range_get_Some in E as (a & b & IN & L1 & L2).
      destruct (si_range _ _ _ _ I a b v IN) as (g & G & -> & ->).
      destruct (alookup v (s_syslines st)) as [s|] eqn:LK.
      + apply alookup_In in LK. apply AS in LK. lia.
      + specialize (ND _ _ _ IN LK). lia.
    - destruct (alookup fo (s_syslines st)) as [v|] eqn:E; [|reflexivity]. apply alookup_In in E. apply AS in E. lia.
  Qed.

  (* one call of the reverse pass *)
  Lemma attempt y x z fo b g st st1 r p : YIy y st -> Abv x st -> fo < x -> z <= fo -> z <= b -> z <= x ->
    spec_find_sysline (Dy y) f fo = Some (b + glen g, b, g) ->
    c_find_sysline (Dy y) bs f st fo = (st1, r, p) ->
    exists n s, r = Found (n, s) /\ ss_begin bs s = Some b /\ ss_dt s = ph y b /\ YIy y st1 /\
                s_syslines st1 = ainsert b s (s_syslines st) /\ Abv z st1.
  Proof.
    intros W A LT Z1 Z2 Z3 SP C.
    destruct (yi_find dated_y bs f Hbs y _ _ _ _ _ W C) as (W1 & NP & R1 & _ & FACT).
    destruct (abv_miss y x st fo W A LT) as (M1 & M2 & M3).
    destruct A as [AL AS].
    assert (QL : lruQ (fun k => z <= k) st) by (intros k v IN; apply AL in IN; lia).
    destruct (find_sysline_miss (Dy y) bs f (fun k => z <= k) _ _ _ _ _ C M1 M2 M3 Z1 QL) as (L1 & FR).
    destruct r as [[n s]| | |]; [|cbn in R1; congruence|cbn in R1; contradiction|congruence].
    cbn in R1. destruct R1 as (b' & g' & G & OK & SP'). rewrite SP in SP'. inversion SP'; subst b' g'. clear SP'.
    destruct (is_group_pos (Dy y) f _ _ G) as (PG & _).
    destruct (ssl_ok_facts bs f Hbs _ _ _ OK PG) as (BG & _). rewrite rd_begin in BG.
    destruct (FR n s eq_refl) as (-> & b2 & B2 & INS). rewrite BG in B2. inversion B2; subst b2.
    pose proof (FACT n s eq_refl eq_refl) as FX.
    eexists _, s. split; [reflexivity|]. split; [exact BG|]. split.
    { unfold rd_ssl in FX. rewrite BG in FX. destruct s as [[i d] l]. cbn in FX. cbn. congruence. }
    split; [exact W1|]. split; [exact INS|]. split; [exact L1|].
    intros k s' IN. rewrite INS in IN. apply In_ainsert in IN as [E|IN]; [inversion E; subst; exact Z2|].
    apply AS in IN. lia.
  Qed.

  Lemma attempt_lru y x fo b st st1 p n s : YIy y st -> Abv x st -> fo < x -> b <= fo -> lruS st ->
    c_find_sysline (Dy y) bs f st fo = (st1, Found (n, s), p) -> ss_begin bs s = Some b ->
    s_syslines st1 = ainsert b s (s_syslines st) -> lruS st1.
  Proof.
    intros W A LT LB LS C BG INS k n' s' IN.
    destruct (abv_miss y x st fo W A LT) as (M1 & M2 & M3).
    destruct (find_sysline_miss_entries (Dy y) bs f _ _ _ _ _ C M1 M2 M3 _ _ IN) as [OLD|[-> [X|(n2 & s2 & X & Y)]]].
    - destruct (LS _ _ _ OLD) as (b' & s2 & B' & LK & DT). exists b', s2. split; [exact B'|]. split; [|exact DT].
      rewrite INS, alookup_ainsert. destruct (N.eqb_spec b' b) as [->|NE]; [|exact LK].
      apply alookup_In in LK. apply (proj2 A) in LK. lia.
    - discriminate X.
    - assert (ES : s' = s) by congruence. subst s'. exists b, s. split; [exact BG|]. split; [|reflexivity].
      rewrite INS, alookup_ainsert, N.eqb_refl. reflexivity.
  Qed.

  Lemma lruS_remove st b : lruS (c_remove_sysline bs st b).
  Proof. intros k n s IN. rewrite (proj1 (remove_empty bs st b)) in IN. contradiction. Qed.

  Lemma lruS_clear st : lruS (c_clear_syslines st).
  Proof.
    intros k n s IN. unfold c_clear_syslines, sr_lru_disable, sr_lru_enable in IN. destruct (s_on st); cbn in IN; contradiction.
  Qed.

  Lemma remove_sys st b : s_syslines (c_remove_sysline bs st b) =
    match alookup b (s_syslines st) with Some _ => aremove b (s_syslines st) | None => s_syslines st end.
  Proof.
    unfold c_remove_sysline, sr_lru_disable, sr_lru_enable. cbn [s_syslines s_on s_lru s_parse s_parse_on].
    destruct (alookup b (s_syslines st)); destruct (s_on st); reflexivity.
  Qed.

  Lemma remove_lookup st b k : k <> b ->
    alookup k (s_syslines (c_remove_sysline bs st b)) = alookup k (s_syslines st).
  Proof.
    intro NE. rewrite remove_sys. destruct (alookup b (s_syslines st)); [|reflexivity].
    rewrite alookup_aremove. destruct (N.eqb_spec k b); [contradiction|reflexivity].
  Qed.

  Lemma abv_remove e b s st st1 : Abv e st -> s_syslines st1 = ainsert b s (s_syslines st) -> b < e ->
    Abv e (c_remove_sysline bs st1 b).
  Proof.
    intros [AL AS] INS LT. split.
    - intros k v IN. rewrite (proj1 (remove_empty bs st1 b)) in IN. contradiction.
    - intros k s' IN. rewrite remove_sys, INS, alookup_ainsert, N.eqb_refl in IN.
      pose proof (In_aremove_neq _ _ _ _ IN) as NE. apply In_aremove in IN.
      apply In_ainsert in IN as [E|IN]; [inversion E; subst; congruence|]. eapply AS; eauto.
  Qed.

  (* the attempts at one message: gredate *)
  Lemma redate_loop e b g0 : is_group (Dy y0) f b g0 -> b + glen g0 = e ->
    forall fm st y prev y1 t1, YIy y st -> Abv e st ->
    gredate inst tol fm y (option_map ss_dt prev) b = Year.Dated y1 t1 ->
    forall fuel, (fm <= fuel)%nat ->
    exists fuel' st1 s, (fuel <= fuel' + fm)%nat /\
      c_year_loop dated_y fuel bs f tol fa st y (e - 1) prev =
        (if b <? 1 then (st1, Found y1) else if dt_before fa t1 then (st1, Found y1)
         else c_year_loop dated_y fuel' bs f tol fa st1 y1 (b - 1) (Some s)) /\
      YIy y1 st1 /\ Abv b st1 /\ alookup b (s_syslines st1) = Some s /\ ss_dt s = t1 /\ ss_begin bs s = Some b /\
      (forall k, e <= k -> alookup k (s_syslines st1) = alookup k (s_syslines st)) /\ (lruS st -> lruS st1).
  Proof.
    intros G0 EE. destruct (is_group_pos (Dy y0) f _ _ G0) as (PG0 & _).
    induction fm as [|k IH]; intros st y prev y1 t1 W A RD fuel FL; [discriminate RD|].
    destruct fuel as [|fuel0]; [lia|].
    cbn [gredate] in RD. rewrite (inst_group y b g0 G0) in RD.
    pose proof (is_group_year dated_y bs f Hbs Hind y0 y b g0 G0) as G.
    assert (GL : glen (ph y b, snd g0) = glen g0) by (apply glen_snd; reflexivity).
    assert (SP : spec_find_sysline (Dy y) f (e - 1) = Some (b + glen (ph y b, snd g0), b, (ph y b, snd g0))).
    { apply spec_at_group; [exact G|lia|lia]. }
    cbn [c_year_loop].
    destruct (c_find_sysline (dated_y (Some y)) bs f st (e - 1)) as [[st1 r] p] eqn:C.
    destruct (attempt y e b (e - 1) b _ st st1 r p W A ltac:(lia) ltac:(lia) ltac:(lia) ltac:(lia) SP C)
      as (n & s & -> & BG & DT & W1 & INS & A1).
    rewrite BG.
    assert (KEEP : forall k0, e <= k0 -> alookup k0 (s_syslines st1) = alookup k0 (s_syslines st)).
    { intros k0 L0. rewrite INS, alookup_ainsert. destruct (N.eqb_spec k0 b); [lia|reflexivity]. }
    assert (ACC : exists fuel' st2 s2, (Datatypes.S fuel0 <= fuel' + Datatypes.S k)%nat /\
              (if b <? 1 then (st1, Found y)
               else if dt_before fa (ss_dt s) then (st1, Found y)
               else if e - 1 <=? b - 1 then (st1, Found y)
               else c_year_loop dated_y fuel0 bs f tol fa st1 y (b - 1) (Some s)) =
              (if b <? 1 then (st2, Found y) else if dt_before fa (ph y b) then (st2, Found y)
               else c_year_loop dated_y fuel' bs f tol fa st2 y (b - 1) (Some s2)) /\
              YIy y st2 /\ Abv b st2 /\ alookup b (s_syslines st2) = Some s2 /\ ss_dt s2 = ph y b /\
              ss_begin bs s2 = Some b /\
              (forall k0, e <= k0 -> alookup k0 (s_syslines st2) = alookup k0 (s_syslines st)) /\ (lruS st -> lruS st2)).
    { exists fuel0, st1, s. split; [lia|]. split.
      - rewrite DT. destruct (N.ltb_spec b 1); [reflexivity|]. destruct (dt_before fa (ph y b)); [reflexivity|].
        destruct (N.leb_spec (e - 1) (b - 1)); [lia|reflexivity].
      - split; [exact W1|]. split; [exact A1|]. split; [rewrite INS, alookup_ainsert, N.eqb_refl; reflexivity|].
        split; [exact DT|]. split; [exact BG|]. split; [exact KEEP|].
        intro LS. exact (attempt_lru y e (e - 1) b st st1 p n s W A ltac:(lia) ltac:(lia) LS C BG INS). }
    destruct prev as [p0|]; cbn [option_map] in RD.
    - rewrite DT. destruct ((ss_dt p0 <? ph y b)%Z && (tol <? ph y b - ss_dt p0)%Z)%bool eqn:J.
      + destruct (yi_remove dated_y bs f Hbs Hind y (y - 1)%Z st1 b W1) as [W2 _].
        pose proof (abv_remove e b s st st1 A INS ltac:(lia)) as A2.
        destruct (IH _ _ (Some p0) _ _ W2 A2 RD fuel0 ltac:(lia)) as (fuel' & st2 & s2 & F2 & EQ & W3 & A3 & LK & D2 & B2 & K2 & LR2).
        exists fuel', st2, s2. split; [lia|]. split; [exact EQ|]. split; [exact W3|]. split; [exact A3|].
        split; [exact LK|]. split; [exact D2|]. split; [exact B2|]. split; [|intros _; apply LR2; apply lruS_remove].
        intros k0 L0. rewrite K2 by exact L0. rewrite remove_lookup by lia. apply KEEP. exact L0.
      + inversion RD; subst y1 t1.
        destruct ACC as (fuel' & st2 & s2 & F2 & EQ & REST).
        exists fuel', st2, s2. split; [exact F2|]. split; [|exact REST].
        rewrite <- EQ. rewrite DT. reflexivity.
    - inversion RD; subst y1 t1.
      destruct ACC as (fuel' & st2 & s2 & F2 & EQ & REST).
      exists fuel', st2, s2. split; [exact F2|]. split; [|exact REST]. rewrite <- EQ. reflexivity.
  Qed.

  Lemma gredate_phi b g0 : is_group (Dy y0) f b g0 -> forall fm y prev y1 t1,
    gredate inst tol fm y prev b = Year.Dated y1 t1 -> t1 = ph y1 b.
  Proof.
    intro G0. induction fm as [|k IH]; intros y prev y1 t1; cbn [gredate]; [discriminate|].
    rewrite (inst_group y b g0 G0). destruct prev as [p|]; [|intro H; inversion H; reflexivity].
    destruct (_ && _)%bool; [apply IH|intro H; inversion H; reflexivity].
  Qed.

  (* the call above the first message (undated lines lead the file): the first message again, and the loop ends *)
  Lemma tail_call lo g0 : is_group (Dy y0) f lo g0 -> (forall b g, is_group (Dy y0) f b g -> lo <= b) -> 1 <= lo ->
    forall st y p fuel, YIy y st -> Abv lo st -> ss_dt p = ph y lo -> (1 <= fuel)%nat ->
    exists st' s, c_year_loop dated_y fuel bs f tol fa st y (lo - 1) (Some p) = (st', Found y) /\ YIy y st' /\
      alookup lo (s_syslines st') = Some s /\ ss_begin bs s = Some lo /\ ss_dt s = ss_dt p /\
      (forall k, k <> lo -> alookup k (s_syslines st') = alookup k (s_syslines st)).
  Proof.
    intros G0 MIN L1 st y p fuel W A DP FL. destruct fuel as [|fuel0]; [lia|].
    pose proof (is_group_year dated_y bs f Hbs Hind y0 y lo g0 G0) as G.
    destruct (is_group_pos (Dy y) f _ _ G) as (PG & _).
    assert (MINy : forall b g, is_group (Dy y) f b g -> lo <= b).
    { intros b g Gy. apply (MIN b (ph y0 b, snd g)). apply (is_group_year dated_y bs f Hbs Hind y y0). exact Gy. }
    assert (SP : spec_find_sysline (Dy y) f (lo - 1) = Some (lo + glen (ph y lo, snd g0), lo, (ph y lo, snd g0))).
    { apply spec_before_first; [exact G|exact MINy|lia]. }
    cbn [c_year_loop].
    destruct (c_find_sysline (dated_y (Some y)) bs f st (lo - 1)) as [[st1 r] q] eqn:C.
    destruct (attempt y lo (lo - 1) (lo - 1) lo _ st st1 r q W A ltac:(lia) ltac:(lia) ltac:(lia) ltac:(lia) SP C)
      as (n & s & -> & BG & DT & W1 & INS & A1).
    rewrite BG. exists st1, s. split.
    - rewrite DT, DP. rewrite Z.ltb_irrefl. cbn [andb].
      destruct (N.ltb_spec lo 1); [lia|]. destruct (dt_before fa (ph y lo)); [reflexivity|].
      destruct (N.leb_spec (lo - 1) (lo - 1)); [reflexivity|lia].
    - split; [exact W1|]. split; [rewrite INS, alookup_ainsert, N.eqb_refl; reflexivity|]. split; [exact BG|].
      split; [congruence|]. intros k NE. rewrite INS, alookup_ainsert. destruct (N.eqb_spec k lo); [contradiction|reflexivity].
  Qed.

  (* the begins of the messages from a message upwards: each ends where the one below begins; lo = begin of the first *)
  Fixpoint rchain (lo e : N) (R : list N) : Prop :=
    match R with
    | [] => e = lo
    | b :: R' => (exists g, is_group (Dy y0) f b g /\ b + glen g = e) /\ rchain lo b R'
    end.

  Lemma rchain_list lo : forall gs o Rlow, rchain lo o Rlow ->
    (forall b g, In (b, g) (with_offsets o gs) -> is_group (Dy y0) f b g) ->
    rchain lo (o + lenN (concat (map group_bytes gs))) (rev (map fst (with_offsets o gs)) ++ Rlow).
  Proof.
    induction gs as [|g gs IH]; intros o Rlow RC ALL.
    - cbn. rewrite N.add_0_r. exact RC.
    - cbn [with_offsets map rev concat]. rewrite lenN_app, N.add_assoc, <- app_assoc. cbn [app].
      apply IH.
      + cbn [rchain]. split; [|exact RC]. exists g. split; [apply ALL; left; reflexivity|reflexivity].
      + intros b g' IN. apply ALL. right. exact IN.
  Qed.

  Lemma rchain_top : rchain (first_dated_offset (Dy y0) f) (lenN f) (rev (map fst (syslines_at (Dy y0) f))).
  Proof.
    pose proof (rchain_list (first_dated_offset (Dy y0) f) (syslines (Dy y0) f) (first_dated_offset (Dy y0) f) []
                  eq_refl (fun b g IN => IN)) as RC.
    rewrite app_nil_r in RC.
    replace (lenN f) with (first_dated_offset (Dy y0) f + lenN (concat (map group_bytes (syslines (Dy y0) f)))); [exact RC|].
    unfold first_dated_offset, leading, syslines. rewrite <- lenN_app, groups_concat, lines_concat. reflexivity.
  Qed.

  Local Notation gw := (gwalk inst tol (dt_before fa)).

  (* THE LOOP IS THE WALK *)
  Lemma year_loop_walk fm lo : (forall b g, is_group (Dy y0) f b g -> lo <= b) ->
    forall R e, rchain lo e R -> R <> [] ->
    forall st y prev l fuel, YIy y st -> Abv e st ->
    gw fm y (option_map ss_dt prev) R = Some l -> (fm * length R + 1 <= fuel)%nat ->
    exists st', c_year_loop dated_y fuel bs f tol fa st y (e - 1) prev = (st', Found (fin y l)) /\
      YIy (fin y l) st' /\ Forall2 (stored st') (firstn (length l) R) l /\
      (forall k, e <= k -> alookup k (s_syslines st') = alookup k (s_syslines st)) /\ (lo = 0 -> lruS st -> lruS st').
  Proof.
    intro MIN. induction R as [|b R' IH]; intros e RC NE st y prev l fuel W A GW FL; [congruence|]. clear NE.
    destruct RC as [(g0 & G0 & EE) RC'].
    destruct (is_group_pos (Dy y0) f _ _ G0) as (PG0 & _).
    cbn [gwalk] in GW. destruct (gredate inst tol fm y (option_map ss_dt prev) b) as [y1 t1| |] eqn:RD; try discriminate.
    cbn [length] in FL.
    destruct (redate_loop e b g0 G0 EE fm st y prev y1 t1 W A RD fuel ltac:(nia))
      as (fuel' & st1 & s & F1 & EQ & W1 & A1 & LK & DT & BG & KEEP & LR1).
    rewrite EQ. clear EQ.
    assert (ONE : Forall2 (stored st1) (firstn (length [(y1, t1)]) (b :: R')) [(y1, t1)]).
    { cbn. constructor; [|constructor]. exists s. cbn [snd]. auto. }
    destruct (N.ltb_spec b 1) as [B0|B1].
    { (* the message begins the file *)
      assert (R' = []).
      { destruct R' as [|b' R'']; [reflexivity|]. destruct RC' as [(g' & G' & E') _].
        destruct (is_group_pos (Dy y0) f _ _ G') as (PG' & _). lia. }
      subst R'.
      assert (l = [(y1, t1)]).
      { destruct (dt_before fa t1); [congruence|]. cbn in GW. congruence. }
      subst l. exists st1. cbn [fin]. split; [reflexivity|]. split; [exact W1|]. split; [exact ONE|]. split; [exact KEEP|intros _; exact LR1]. }
    destruct (dt_before fa t1) eqn:STOP.
    { injection GW as <-. exists st1. cbn [fin]. split; [reflexivity|]. split; [exact W1|]. split; [exact ONE|]. split; [exact KEEP|intros _; exact LR1]. }
    destruct (gw fm y1 (Some t1) R') as [l'|] eqn:GW'; [|discriminate]. cbn [option_map] in GW. injection GW as <-.
    cbn [fin length firstn].
    destruct R' as [|b' R''].
    - (* undated lines lead the file *)
      cbn in GW'. injection GW' as <-. cbn [fin]. cbn [rchain] in RC'. subst b.
      destruct (tail_call lo g0 G0 MIN B1 st1 y1 s fuel' W1 A1 ltac:(rewrite DT; exact (gredate_phi lo g0 G0 _ _ _ _ _ RD)) ltac:(cbn [length] in FL; lia))
        as (st' & s2 & EQ & W2 & LK2 & BG2 & DT2 & K2).
      exists st'. split; [exact EQ|]. split; [exact W2|]. split.
      + constructor; [|constructor]. exists s2. cbn [snd]. split; [exact LK2|]. split; [exact BG2|congruence].
      + split; [intros k L0; rewrite K2 by lia; apply KEEP; exact L0|intros Z0; lia].
    - destruct (IH b RC' ltac:(discriminate) st1 y1 (Some s) l' fuel' W1 A1
                  ltac:(cbn [option_map]; rewrite DT; exact GW') ltac:(cbn [length] in *; nia))
        as (st' & EQ & W2 & F2 & K2 & LR2).
      exists st'. split; [exact EQ|]. split; [exact W2|]. split.
      + constructor; [|exact F2]. exists s. cbn [snd]. split; [rewrite K2 by lia; exact LK|]. auto.
      + split; [intros k L0; rewrite K2 by lia; apply KEEP; exact L0|intros Z0 LS; apply (LR2 Z0); apply LR1; exact LS].
  Qed.

  Lemma abv_clear x st : Abv x (c_clear_syslines st).
  Proof.
    unfold c_clear_syslines, sr_lru_disable, sr_lru_enable.
    destruct (s_on st); split; intros k v IN; cbn in IN; contradiction.
  Qed.

  (* a file without any message: the first call answers Done *)
  Lemma no_groups_loop st y fo prev fuel : syslines_at (Dy y0) f = [] -> YIy y st -> (1 <= fuel)%nat ->
    exists st', c_year_loop dated_y fuel bs f tol fa st y fo prev = (st', Found y) /\ YIy y st'.
  Proof.
    intros NG W FL. destruct fuel as [|k]; [lia|]. cbn [c_year_loop].
    destruct (c_find_sysline (dated_y (Some y)) bs f st fo) as [[st1 r] p] eqn:C.
    destruct (yi_find dated_y bs f Hbs y _ _ _ _ _ W C) as (W1 & NP & R1 & _).
    destruct r as [[n s]| | |]; [|exists st1; auto|cbn in R1; contradiction|congruence].
    exfalso. cbn in R1. destruct R1 as (b & g & G & _).
    pose proof (is_group_year dated_y bs f Hbs Hind y y0 b g G) as G0. unfold is_group in G0. rewrite NG in G0. exact G0.
  Qed.

  Definition offs : list N := map fst (syslines_at (Dy y0) f).

  Theorem yearless_walk0 fm st Y l fuel : lr_inv bs f (s_lr st) ->
    gw fm Y None (rev offs) = Some l -> (fm * length offs + 1 <= fuel)%nat ->
    exists st', c_year_loop dated_y fuel bs f tol fa (c_clear_syslines st) Y (lenN f - 1) None = (st', Found (fin Y l)) /\
      YIy (fin Y l) st' /\ Forall2 (stored st') (firstn (length l) (rev offs)) l /\
      (first_dated_offset (Dy y0) f = 0 -> offs <> [] -> lruS st').
  Proof.
    intros L GW FL. destruct (yi_clear dated_y bs f Y st L) as [W _].
    destruct (rev offs) as [|b R'] eqn:ER.
    - assert (NG : syslines_at (Dy y0) f = []).
      { apply (f_equal (@rev N)) in ER. rewrite rev_involutive in ER. cbn in ER. unfold offs in ER.
        destruct (syslines_at (Dy y0) f); [reflexivity|discriminate]. }
      cbn in GW. injection GW as <-. cbn [fin length firstn].
      destruct (no_groups_loop (c_clear_syslines st) Y (lenN f - 1) None fuel NG W ltac:(lia)) as (st' & EQ & W').
      exists st'. split; [exact EQ|]. split; [exact W'|]. split; [constructor|].
      intros _ NE. exfalso. apply NE. unfold offs. rewrite NG. reflexivity.
    - pose proof rchain_top as RC. fold offs in RC. rewrite ER in RC.
      assert (MIN : forall b0 g, is_group (Dy y0) f b0 g -> first_dated_offset (Dy y0) f <= b0).
      { intros b0 g G. exact (with_offsets_ge _ _ _ _ G). }
      assert (LEN : length (b :: R') = length offs) by (rewrite <- ER; apply rev_length).
      destruct (year_loop_walk fm _ MIN (b :: R') (lenN f) RC ltac:(discriminate) (c_clear_syslines st) Y None l fuel W
                  (abv_clear _ _) GW ltac:(rewrite LEN; exact FL)) as (st' & EQ & W' & F2 & _ & LR).
      exists st'. split; [exact EQ|]. split; [exact W'|]. split; [exact F2|].
      intros Z0 _. apply (LR Z0). apply lruS_clear.
  Qed.
End Walk.

(* ---------------------------------------------------------------- the statements Props/C02.v uses *)

Lemma Forall2_len {A B} (P : A -> B -> Prop) l1 l2 : Forall2 P l1 l2 -> length l1 = length l2.
Proof. induction 1; cbn; congruence. Qed.

Lemma fin_last y l y1 t1 : fin y (l ++ [(y1, t1)]) = y1.
Proof. revert y; induction l as [|[a b] l IH]; intro y; cbn; [reflexivity|apply IH]. Qed.

(* (b) the reverse pass is the generic walk: it ends with the year of the topmost message walked, in the invariant of
   that year, and `syslines` holds every message walked with the instant the walk gave it *)
Theorem yearless_walk_gwalk_lru dated_y bs (f : file) tol fa fm st Y l fuel : 0 < bs ->
  (forall y y' l, dated_y (Some y) l = None <-> dated_y (Some y') l = None) ->
  lr_inv bs f (s_lr st) ->
  let begins := map fst (syslines_at (dated_y (Some Y)) f) in
  gwalk (inst dated_y f) tol (dt_before fa) fm Y None (rev begins) = Some l ->
  (fm * length begins + 1 <= fuel)%nat ->
  let res := c_year_loop dated_y fuel bs f tol fa (c_clear_syslines st) Y (lenN f - 1) None in
  snd res = Found (fin Y l) /\ YI dated_y bs f (fin Y l) (fst res) /\
  Forall2 (stored bs (fst res)) (firstn (length l) (rev begins)) l /\
  (first_dated_offset (dated_y (Some Y)) f = 0 -> begins <> [] -> lruS bs (fst res)).
Proof.
  intros H HI L begins GW FL res.
  destruct (yearless_walk0 dated_y bs f H HI tol fa Y fm st Y l fuel L GW FL) as (st' & EQ & W & F2 & LR).
  subst res. rewrite EQ. auto.
Qed.

Theorem yearless_walk_gwalk dated_y bs (f : file) tol fa fm st Y l fuel : 0 < bs ->
  (forall y y' l, dated_y (Some y) l = None <-> dated_y (Some y') l = None) ->
  lr_inv bs f (s_lr st) ->
  let begins := map fst (syslines_at (dated_y (Some Y)) f) in
  gwalk (inst dated_y f) tol (dt_before fa) fm Y None (rev begins) = Some l ->
  (fm * length begins + 1 <= fuel)%nat ->
  let res := c_year_loop dated_y fuel bs f tol fa (c_clear_syslines st) Y (lenN f - 1) None in
  snd res = Found (fin Y l) /\ YI dated_y bs f (fin Y l) (fst res) /\
  Forall2 (stored bs (fst res)) (firstn (length l) (rev begins)) l.
Proof.
  intros H HI L begins GW FL res.
  destruct (yearless_walk_gwalk_lru dated_y bs f tol fa fm st Y l fuel H HI L GW FL) as (A & B & C & _). auto.
Qed.

(* ... and with the oracle's years being calendar years (every message has a month, a day and a time of day, read in the
   zone off), 25 h tolerance and no --dt-after: the loop computes Model/Year.v assign_years (C11) *)
Theorem yearless_walk_assign_years_lru dated_y bs (f : file) off msgs fm st Y ys fuel : 0 < bs ->
  (forall y y' l, dated_y (Some y) l = None <-> dated_y (Some y') l = None) ->
  lr_inv bs f (s_lr st) ->
  let begins := map fst (syslines_at (dated_y (Some Y)) f) in
  Forall2 (fun b m => forall y, inst dated_y f y b = Year.with_year off y m) begins msgs ->
  Year.assign_years fm off Y msgs = Some ys ->
  (fm * length msgs + 1 <= fuel)%nat ->
  let res := c_year_loop dated_y fuel bs f Year.TOL None (c_clear_syslines st) Y (lenN f - 1) None in
  snd res = Found (match ys with [] => Y | (y, _) :: _ => y end) /\
  YI dated_y bs f (match ys with [] => Y | (y, _) :: _ => y end) (fst res) /\
  Forall2 (stored bs (fst res)) begins ys /\
  (first_dated_offset (dated_y (Some Y)) f = 0 -> begins <> [] -> lruS bs (fst res)).
Proof.
  intros H HI L begins F2 AY FL res.
  unfold Year.assign_years in AY. rewrite walk_gwalk in AY.
  destruct (gwalk (Year.with_year off) Year.TOL (fun _ => false) fm Y None (rev msgs)) as [l|] eqn:GW; [|discriminate].
  cbn [option_map] in AY. injection AY as <-.
  rewrite <- (gwalk_rename (inst dated_y f) (Year.with_year off) Year.TOL (fun _ => false) fm (rev begins) (rev msgs)
                (Forall2_rev _ _ _ F2)) in GW.
  pose proof (Forall2_len _ _ _ F2) as LEN.
  destruct (yearless_walk_gwalk_lru dated_y bs f Year.TOL None fm st Y l fuel H HI L GW ltac:(fold begins; rewrite LEN; exact FL))
    as (R1 & R2 & R3 & R4).
  fold begins in R3, R4. fold res in R1, R2, R3, R4.
  pose proof (gwalk_length (inst dated_y f) Year.TOL (fun _ => false) fm (fun _ => eq_refl) _ _ _ _ GW) as LL.
  rewrite firstn_all2 in R3 by lia.
  assert (FY : fin Y l = match rev l with [] => Y | (y, _) :: _ => y end).
  { destruct (rev l) as [|[y t] r] eqn:ER.
    - apply (f_equal (@rev _)) in ER. rewrite rev_involutive in ER. subst l. reflexivity.
    - apply (f_equal (@rev _)) in ER. rewrite rev_involutive in ER. subst l. cbn [rev]. apply fin_last. }
  rewrite <- FY. split; [exact R1|]. split; [exact R2|]. split; [|exact R4].
  apply Forall2_rev in R3. rewrite rev_involutive in R3. exact R3.
Qed.

Theorem yearless_walk_assign_years dated_y bs (f : file) off msgs fm st Y ys fuel : 0 < bs ->
  (forall y y' l, dated_y (Some y) l = None <-> dated_y (Some y') l = None) ->
  lr_inv bs f (s_lr st) ->
  let begins := map fst (syslines_at (dated_y (Some Y)) f) in
  Forall2 (fun b m => forall y, inst dated_y f y b = Year.with_year off y m) begins msgs ->
  Year.assign_years fm off Y msgs = Some ys ->
  (fm * length msgs + 1 <= fuel)%nat ->
  let res := c_year_loop dated_y fuel bs f Year.TOL None (c_clear_syslines st) Y (lenN f - 1) None in
  snd res = Found (match ys with [] => Y | (y, _) :: _ => y end) /\
  YI dated_y bs f (match ys with [] => Y | (y, _) :: _ => y end) (fst res) /\
  Forall2 (stored bs (fst res)) begins ys.
Proof.
  intros H HI L begins F2 AY FL res.
  destruct (yearless_walk_assign_years_lru dated_y bs f off msgs fm st Y ys fuel H HI L F2 AY FL) as (A & B & C & _). auto.
Qed.

(* ---------------------------------------------------------------- the driver: stages 1-2 leave to stage 3 a reader that
   holds every message with the instant assign_years gives it *)
Lemma with_offsets_length o gs : length (with_offsets o gs) = length gs.
Proof. revert o; induction gs as [|g gs IH]; intro o; cbn; [reflexivity|]. rewrite IH. reflexivity. Qed.

Lemma begins_len dated (f : file) : (length (map fst (syslines_at dated f)) <= length f)%nat.
Proof.
  rewrite map_length. unfold syslines_at. rewrite with_offsets_length. unfold syslines.
  pose proof (wf_lines_len _ (lines_wf f)) as X. rewrite lines_concat in X.
  assert (H : forall ls, (length (snd (groups dated ls)) <= length ls)%nat).
  { induction ls as [|l ls IHl]; [cbn; lia|]. rewrite groups_cons. destruct (dated l); cbn [snd length]; lia. }
  specialize (H (lines f)). lia.
Qed.

Theorem yearless_stage2_lru dated_y bs (f : file) off msgs Y ys fb plan st : 0 < bs ->
  (forall y y' l, dated_y (Some y) l = None <-> dated_y (Some y') l = None) ->
  let stream := b_stream (l_blk (s_lr st)) in
  let st1 := if stream then sr_set_lr (lr_set_blk (b_disable_drop (l_blk (s_lr st))) (s_lr st)) st else st in
  lr_inv bs f (s_lr st1) -> 0 < lenN f ->
  let begins := map fst (syslines_at (dated_y (Some Y)) f) in
  Forall2 (fun b m => forall y, inst dated_y f y b = Year.with_year off y m) begins msgs ->
  Year.assign_years 2 off Y msgs = Some ys ->
  exists st', c_stream_year dated_y bs f Year.TOL Y None fb plan st =
                c_stream_win (dated_y None) bs f None fb (if stream then [] else plan) st' /\
              YI dated_y bs f (match ys with [] => Y | (y, _) :: _ => y end) st' /\
              Forall2 (stored bs st') begins ys /\
              (first_dated_offset (dated_y (Some Y)) f = 0 -> begins <> [] -> lruS bs st').
Proof.
  intros H HI stream st1 L PF begins F2 AY.
  pose proof (Forall2_len _ _ _ F2) as LEN. pose proof (begins_len (dated_y (Some Y)) f) as BL. fold begins in BL.
  destruct (yearless_walk_assign_years_lru dated_y bs f off msgs 2 st1 Y ys (Datatypes.S (2 * length f)) H HI L F2 AY ltac:(lia))
    as (R1 & R2 & R3 & R4).
  unfold c_stream_year. fold stream. fold st1. unfold fileoffset_last.
  destruct (N.eqb_spec (lenN f) 0) as [E|_]; [lia|].
  destruct (c_year_loop dated_y (Datatypes.S (2 * length f)) bs f Year.TOL None (c_clear_syslines st1) Y (lenN f - 1) None)
    as [st' r]. cbn [fst snd] in R1, R2, R3, R4. subst r. exists st'. auto.
Qed.

Theorem yearless_stage2 dated_y bs (f : file) off msgs Y ys fb plan st : 0 < bs ->
  (forall y y' l, dated_y (Some y) l = None <-> dated_y (Some y') l = None) ->
  let stream := b_stream (l_blk (s_lr st)) in
  let st1 := if stream then sr_set_lr (lr_set_blk (b_disable_drop (l_blk (s_lr st))) (s_lr st)) st else st in
  lr_inv bs f (s_lr st1) -> 0 < lenN f ->
  let begins := map fst (syslines_at (dated_y (Some Y)) f) in
  Forall2 (fun b m => forall y, inst dated_y f y b = Year.with_year off y m) begins msgs ->
  Year.assign_years 2 off Y msgs = Some ys ->
  exists st', c_stream_year dated_y bs f Year.TOL Y None fb plan st =
                c_stream_win (dated_y None) bs f None fb (if stream then [] else plan) st' /\
              YI dated_y bs f (match ys with [] => Y | (y, _) :: _ => y end) st' /\
              Forall2 (stored bs st') begins ys.
Proof.
  intros H HI stream st1 L PF begins F2 AY.
  destruct (yearless_stage2_lru dated_y bs f off msgs Y ys fb plan st H HI L PF F2 AY) as (st' & A & B & C & _).
  exists st'. auto.
Qed.

(* the hypotheses are satisfiable and the conclusion says something: the toy oracle dy2 on "2z\n2b\n", tolerance 10:
   the walk dates the second message with 7 and the first with 6, and that is what the reverse pass leaves in `syslines` *)
Example yearless_walk_example :
  let begins := map fst (syslines_at (dy2 (Some 7%Z)) fyj) in
  begins = [0; 3] /\
  gwalk (inst dy2 fyj) 10 (dt_before None) 2 7 None (rev begins) = Some [(7%Z, 7098%Z); (6%Z, 6122%Z)] /\
  let res := c_year_loop dy2 5 2 fyj 10 None (c_clear_syslines (sr_init_b (b_init false))) 7 5 None in
  snd res = Found 6%Z /\ map (fun ks => (fst ks, ss_dt (snd ks))) (s_syslines (fst res)) = [(0, 6122%Z); (3, 7098%Z)].
Proof. vm_compute. repeat split; reflexivity. Qed.

(* FINDING (latent): stage 3 begins with find_sysline(0).  When undated lines lead the file, offset 0 lies in no stored
   message, so the first message is searched and built AGAIN, with the filler year of stage 3; it keeps the instant the
   reverse pass gave it only because the parser's answer for its head line is still in the parse_datetime LRU cache
   (or, with one leading byte, because the pass's last call, at offset 0, is in the find_sysline LRU cache).  With the
   LRU caches disabled (SyslineReader::LRU_cache_disable; SyslogProcessor::LRU_CACHE_ENABLE = false) the first message
   of such a file is emitted with the filler year: yearless_driver_complete does NOT hold for a reader whose caches are
   off.  "\n2z\n2b\n", tolerance 10, mtime year 7: *)
Definition fyu : file := [10; 50; 122; 10; 50; 98; 10].
Example yearless_caches_off_witness :
  gwalk (inst dy2 fyu) 10 (dt_before None) 2 7 None (rev (map fst (syslines_at (dy2 (Some 7%Z)) fyu))) =
    Some [(7%Z, 7098%Z); (6%Z, 6122%Z)] /\
  option_map (map ss_dt) (match snd (c_stream_year dy2 2 fyu 10 7 None None [] (sr_init_b (b_init false)))
                          with Found l => Some l | _ => None end) = Some [6122%Z; 7098%Z] /\
  option_map (map ss_dt) (match snd (c_stream_year dy2 2 fyu 10 7 None None [] (sr_lru_disable (sr_init_b (b_init false))))
                          with Found l => Some l | _ => None end) = Some [122%Z; 7098%Z].
Proof. vm_compute. repeat split; reflexivity. Qed.
