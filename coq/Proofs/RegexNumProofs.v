(* Proofs/RegexNumProofs.v — C04, regex stage: from numbers to the instant, for every row whose family
   checks ([row_numeric], decidable on the regenerated AST):
     family_sound   : item-by-item membership in a closed family implies the plan's [texts_ok]
     denoted_fread  : the admitted standard renderings read back as their values, so the texts denote the
                      instant of the numbers
     row_numbers    : composed with Proofs/RegexUniv.covered_row_dated and C04_normalise_denotes. *)
From Coq Require Import Lia String.
From S4.Base Require Import Bytes.
From S4.Model Require Import Calendar Normalise Regex RegexPlan RegexDt RegexNum.
From S4.Gen Require Import DatetimeTables RegexTables.
From S4.Spec Require Import CalendarSpec TzRef NormaliseSpec.
From S4.Proofs Require Import RegexProofs RegexSim RegexUniv NormaliseTablesOk NormaliseDenotes.
Close Scope string_scope.
Open Scope list_scope.
Open Scope N_scope.

(* ------------------------------------------------------------------ subsumption *)
Lemma list_eqb_eq a : forall b, list_eqb a b = true -> a = b.
Proof.
  induction a as [|x a IH]; intros [|y b]; simpl; try discriminate; auto.
  intros H. apply andb_true_iff in H as [H1 H2]. apply N.eqb_eq in H1. subst. f_equal. auto.
Qed.
Lemma sym_eqb_eq a b : sym_eqb a b = true -> a = b.
Proof.
  destruct a, b; simpl; try discriminate.
  - intros H. apply N.eqb_eq in H. subst; auto.
  - intros H. apply list_eqb_eq in H. subst; auto.
Qed.
Lemma sym_inb_bytes y x : sym_inb y x = true -> In x (sym_bytes_of y).
Proof.
  destruct y; simpl.
  - intros H. apply N.eqb_eq in H. auto.
  - intros H. apply existsb_exists in H as (z & Hz & E). apply N.eqb_eq in E. subst; auto.
Qed.
Lemma sym_sub_in a b x : sym_sub a b = true -> sym_inb a x = true -> sym_inb b x = true.
Proof.
  unfold sym_sub. destruct (sym_eqb a b) eqn:E.
  - apply sym_eqb_eq in E. subst. auto.
  - intros H Hx. rewrite forallb_forall in H. apply H. apply sym_inb_bytes. exact Hx.
Qed.
Lemma shape_sub_in a : forall b t, shape_sub a b = true -> in_shape a t = true -> in_shape b t = true.
Proof.
  induction a as [|x a IH]; intros [|y b] [|c t]; simpl; try discriminate; auto.
  destruct (sym_sub x y) eqn:E; [|discriminate]. intros Hs Hi.
  apply andb_true_iff in Hi as [H1 H2]. rewrite (sym_sub_in _ _ _ E H1). simpl. eauto.
Qed.

(* ------------------------------------------------------------------ next bytes *)
Lemma la_has_holds la l : la_has la (hd_opt l) = la_holds la l.
Proof. destruct la, l; reflexivity. Qed.

Lemma onext_eqb_eq a b : onext_eqb a b = true -> a = b.
Proof. destruct a, b; simpl; try discriminate; auto. intros H. apply N.eqb_eq in H. subst; auto. Qed.
Lemma onext_eqb_refl a : onext_eqb a a = true.
Proof. destruct a; simpl; auto. apply N.eqb_refl. Qed.
Lemma add_next_in x y acc : In x (add_next y acc) <-> x = y \/ In x acc.
Proof.
  unfold add_next. destruct (existsb (onext_eqb y) acc) eqn:E.
  - split; auto. intros [->|H]; auto. apply existsb_exists in E as (z & Hz & Ez). apply onext_eqb_eq in Ez. subst; auto.
  - simpl. split; intros [H|H]; auto.
Qed.
Lemma fold_add_in (l : list onext) acc x : In x (fold_right add_next acc l) <-> In x l \/ In x acc.
Proof.
  induction l as [|y l IH]; simpl.
  - split; auto. intros [[]|H]; auto.
  - rewrite add_next_in, IH. split; intros H; intuition.
Qed.
Lemma fold_add_some_in (l : list N) acc x :
  In x (fold_right (fun b a => add_next (Some b) a) acc l) <-> (exists b, In b l /\ x = Some b) \/ In x acc.
Proof.
  induction l as [|y l IH]; simpl.
  - split; auto. intros [(b & [] & _)|H]; auto.
  - rewrite add_next_in, IH. split.
    + intros [E|[(b & Hb & E)|H]].
      * left. exists y; auto.
      * left. exists b; auto.
      * right; auto.
    + intros [(b & [E|Hb] & E')|H].
      * left. subst; auto.
      * right. left. exists b; auto.
      * right. right; auto.
Qed.
Lemma nexts_step_in fj nx x :
  In x (nexts_step fj nx) <->
  exists st, In st fj /\ match st with [] => In x nx | y :: _ => exists b, In b (sym_bytes_of y) /\ x = Some b end.
Proof.
  unfold nexts_step. induction fj as [|st fj IH]; simpl.
  - split; [intros []|intros (st & [] & _)].
  - destruct st as [|y st'].
    + rewrite fold_add_in, IH. split.
      * intros [H|(st & Hs & H)]; [exists []; auto|exists st; auto].
      * intros (st & [<-|Hs] & H); auto. right. eauto.
    + rewrite fold_add_some_in, IH. split.
      * intros [H|(st & Hs & H)]; [exists (y :: st'); auto|exists st; auto].
      * intros (st & [<-|Hs] & H); auto. right. eauto.
Qed.

Lemma in_shape_nil st : in_shape st [] = true -> st = [].
Proof. destruct st; simpl; auto; discriminate. Qed.

Lemma find_existsb {X} (f : X -> bool) l : existsb f l = true -> exists a, find f l = Some a.
Proof.
  induction l as [|x l IH]; simpl; [discriminate|]. destruct (f x); eauto.
Qed.

(* ------------------------------------------------------------------ family_sound *)
Lemma closed_fits sg nx st t following :
  shape_closed sg nx st = true -> in_shape st t = true -> In (hd_opt following) nx ->
  exists a, pick sg t following = Some a.
Proof.
  unfold shape_closed, pick. intros Hc Hs Hn. apply find_existsb.
  destruct (existsb (fun a => if la_any (a_la a) then shape_sub st (a_shape a) else false) sg) eqn:E.
  - apply existsb_exists in E as (a & Ha & E). apply existsb_exists. exists a; split; auto.
    destruct (la_any (a_la a)) eqn:El; [|discriminate]. unfold alt_fits.
    rewrite (shape_sub_in _ _ _ E Hs). destruct (a_la a); try discriminate. reflexivity.
  - rewrite forallb_forall in Hc. specialize (Hc _ Hn). unfold closed_for in Hc.
    apply existsb_exists in Hc as (a & Ha & Hc). apply existsb_exists. exists a; split; auto.
    destruct (la_has (a_la a) (hd_opt following)) eqn:El; [|discriminate]. unfold alt_fits.
    rewrite (shape_sub_in _ _ _ Hc Hs), <- la_has_holds, El. reflexivity.
Qed.

Lemma family_nexts_sound rf re : forall p fs nx,
  family_nexts p fs rf re = Some nx ->
  forall texts rest, in_family fs texts = true -> rest_ok rf re rest = true ->
    In (hd_opt (concat texts ++ rest)) nx /\ texts_ok p texts rest = true.
Proof.
  induction p as [|sg p IH]; intros fs nx H texts rest Hf Hr; destruct fs as [|fj fs]; simpl in H; try discriminate.
  - inversion H; subst. destruct texts; [|discriminate]. simpl. split; auto.
    unfold nexts_end. apply in_or_app. destruct rest as [|b rest]; simpl in *.
    + right. rewrite Hr. simpl; auto.
    + left. apply in_map. apply existsb_exists in Hr as (z & Hz & E). apply N.eqb_eq in E. subst; auto.
  - destruct (family_nexts p fs rf re) as [nx0|] eqn:E; [|discriminate].
    destruct (forallb (shape_closed sg nx0) fj) eqn:Ec; [|discriminate]. inversion H; subst; clear H.
    destruct texts as [|t ts]; [discriminate|]. simpl in Hf. apply andb_true_iff in Hf as [Ht Hts].
    destruct (IH fs nx0 E ts rest Hts Hr) as [Hn Hok].
    unfold in_fam in Ht. apply existsb_exists in Ht as (st & Hst & Hin).
    split.
    + apply nexts_step_in. exists st; split; auto. destruct t as [|b t].
      * apply in_shape_nil in Hin. subst. simpl. exact Hn.
      * destruct st as [|y st]; [discriminate|]. simpl in Hin. apply andb_true_iff in Hin as [Hy _].
        simpl. exists b; split; auto. apply sym_inb_bytes; auto.
    + rewrite forallb_forall in Ec. specialize (Ec _ Hst).
      destruct (closed_fits sg nx0 st t (concat ts ++ rest) Ec Hin Hn) as (a & Ha).
      simpl. rewrite Ha. exact Hok.
Qed.

(* THEOREM: membership item by item in a closed family (no lookahead condition) puts the texts in the
   plan's domain *)
Theorem family_sound p fs rf re texts rest :
  family_ok p fs rf re = true -> in_family fs texts = true -> rest_ok rf re rest = true ->
  texts_ok p texts rest = true.
Proof.
  unfold family_ok. destruct (family_nexts p fs rf re) as [nx|] eqn:E; [|discriminate].
  intros _ Hf Hr. apply (family_nexts_sound rf re p fs nx E texts rest Hf Hr).
Qed.

(* ------------------------------------------------------------------ reading the admitted renderings back *)
Lemma oZ_eqb_eq a b : RegexNum.oZ_eqb a b = true -> a = b.
Proof. destruct a, b; simpl; try discriminate; auto. intros H. apply Z.eqb_eq in H. subst; auto. Qed.
Lemma ooZ_eqb_eq a b : RegexNum.ooZ_eqb a b = true -> a = b.
Proof.
  destruct a as [x|], b as [y|]; simpl; intros H; try discriminate H; auto.
  apply oZ_eqb_eq in H. rewrite H. reflexivity.
Qed.

Lemma mem_adm fj rd tab tv : mem_tab tv (adm_tab fj rd tab) = true ->
  rd (fst tv) = Some (snd tv) /\ in_fam fj (fst tv) = true.
Proof.
  unfold mem_tab, adm_tab. intros H. apply existsb_exists in H as (x & Hx & E).
  apply filter_In in Hx as [_ Hx]. apply andb_true_iff in Hx as [H1 H2]. apply andb_true_iff in E as [E1 E2].
  apply beqb_eq in E1. apply Z.eqb_eq in E2. apply oZ_eqb_eq in H2. rewrite <- E1, <- E2. auto.
Qed.
Lemma mem_adm_tz fj d tv : mem_tz_tab tv (adm_tz_tab fj d) = true ->
  read_tz d (fst tv) = Some (snd tv) /\ in_fam fj (fst tv) = true.
Proof.
  unfold mem_tz_tab, adm_tz_tab. intros H. apply existsb_exists in H as (x & Hx & E).
  apply filter_In in Hx as [_ Hx]. apply andb_true_iff in Hx as [H1 H2]. apply andb_true_iff in E as [E1 E2].
  apply beqb_eq in E1. apply oZ_eqb_eq in E2. apply ooZ_eqb_eq in H2. rewrite <- E1, <- E2. auto.
Qed.

Lemma rd_year_cap d c yo t : c_year c = Some t -> rd_year d c yo = read_year d t.
Proof. intros H. unfold read_year, rd_year. simpl. rewrite H. destruct (f_year d); reflexivity. Qed.
Lemma rd_month_cap d c t : c_month c = Some t -> rd_month d c = read_month d t.
Proof. intros H. unfold read_month, rd_month. simpl. rewrite H. reflexivity. Qed.
Lemma rd_day_cap d c t : c_day c = Some t -> rd_day d c = read_day d t.
Proof. intros H. unfold read_day, rd_day. simpl. rewrite H. reflexivity. Qed.
Lemma rd_hour_cap d c t : c_hour c = Some t -> rd_hour d c = read_hour d t.
Proof. intros H. unfold read_hour, rd_hour. simpl. rewrite H. reflexivity. Qed.
Lemma rd_minute_cap d c t : c_minute c = Some t -> rd_minute d c = read_minute d t.
Proof. intros H. unfold read_minute, rd_minute. simpl. rewrite H. reflexivity. Qed.
Lemma rd_second_cap d c t : c_second c = Some t -> rd_second d c = read_second d t.
Proof. intros H. unfold read_second, rd_second. simpl. rewrite H. reflexivity. Qed.
Lemma rd_off_cap d c fb t v : c_tz c = Some t -> read_tz d t = Some v ->
  rd_off d c fb = Some (match v with Some o => o | None => fb end).
Proof.
  intros H Hr. unfold rd_off, read_tz in *. rewrite H.
  destruct (f_tz d); try discriminate.
  - destruct (off_of_text Tz_z t); inversion Hr; reflexivity.
  - destruct (off_of_text Tz_zc t); inversion Hr; reflexivity.
  - destruct (off_of_text Tz_zp t); inversion Hr; reflexivity.
  - rewrite Hr. destruct v; reflexivity.
Qed.

Lemma frac_ns_digits f : (1 <= length f <= 9)%nat -> forallb digit f = true ->
  frac_ns f = Some (num_of f 0 * 10 ^ Z.of_nat (9 - length f))%Z.
Proof.
  intros [H1 H2] Hd. unfold frac_ns. rewrite Hd.
  apply Nat.leb_le in H1. apply Nat.leb_le in H2. rewrite H1, H2. reflexivity.
Qed.
Lemma adm_frac_len_bound fj n : In n (adm_frac_len fj) -> (1 <= n <= 9)%nat.
Proof.
  unfold adm_frac_len. intros H. apply filter_In in H as [H _]. simpl in H.
  repeat (destruct H as [<-|H]; [lia|]). destruct H.
Qed.

Lemma denoted_fread row d p fs r yo off :
  fread_admitted row d p fs r = true -> fread_valid r yo = true ->
  denoted_instant d (fread_caps r) yo off = Some (fread_instant r yo off).
Proof.
  unfold fread_admitted. intros Ha Hv.
  repeat (apply andb_true_iff in Ha as [Ha ?]).
  rename H into Hep, H0 into Htz, H1 into Hfr, H2 into Hse, H3 into Hmi, H4 into Hho, H5 into Hda, H6 into Hmo.
  destruct (f_epoch d) eqn:Eep; [discriminate|]. unfold denoted_instant. rewrite Eep. unfold denoted_civil.
  apply mem_adm in Hmo as [Hmo _]. apply mem_adm in Hda as [Hda _]. apply mem_adm in Hho as [Hho _].
  apply mem_adm in Hmi as [Hmi _].
  rewrite (rd_month_cap d (fread_caps r) (fst (r_month r)) eq_refl), Hmo.
  rewrite (rd_day_cap d (fread_caps r) (fst (r_day r)) eq_refl), Hda.
  rewrite (rd_hour_cap d (fread_caps r) (fst (r_hour r)) eq_refl), Hho.
  rewrite (rd_minute_cap d (fread_caps r) (fst (r_minute r)) eq_refl), Hmi.
  (* year *)
  assert (Hy : rd_year d (fread_caps r) yo = Some (fr_year r yo)).
  { unfold fr_year. destruct (r_year r) as [tv|] eqn:Ey.
    - apply mem_adm in Ha as [Ha _]. rewrite (rd_year_cap d (fread_caps r) yo (fst tv)); auto.
      unfold fread_caps. rewrite Ey. reflexivity.
    - unfold rd_year, fread_caps. rewrite Ey. simpl. destruct (f_year d); try discriminate.
      unfold fread_valid in Hv. rewrite Ey in Hv. apply andb_true_iff in Hv as [_ Hv].
      destruct yo as [y'|]; [rewrite Hv|]; reflexivity. }
  rewrite Hy.
  (* second *)
  assert (Hs : rd_second d (fread_caps r) = Some (fr_second r)).
  { unfold fr_second. destruct (r_second r) as [tv|] eqn:Es.
    - apply mem_adm in Hse as [Hse _]. rewrite (rd_second_cap d (fread_caps r) (fst tv)); auto.
      unfold fread_caps. rewrite Es. reflexivity.
    - unfold rd_second. destruct (f_second d); try discriminate; reflexivity. }
  rewrite Hs.
  (* fraction *)
  assert (Hf : rd_frac d (fread_caps r) = Some (fr_frac r)).
  { unfold fr_frac, rd_frac. destruct (r_frac r) as [f|] eqn:Ef.
    - repeat (apply andb_true_iff in Hfr as [Hfr ?]).
      destruct (f_frac d); [|discriminate]. unfold fread_caps. rewrite Ef. simpl.
      apply frac_ns_digits; auto.
      apply existsb_exists in Hfr as (n & Hn & En). apply Nat.eqb_eq in En. rewrite En.
      apply (adm_frac_len_bound _ _ Hn).
    - destruct (f_frac d); [discriminate|reflexivity]. }
  rewrite Hf.
  (* zone *)
  assert (Ho : rd_off d (fread_caps r) off = Some (fr_off r off)).
  { unfold fr_off. destruct (r_tz r) as [[t v]|] eqn:Et.
    - apply mem_adm_tz in Htz as [Htz _]. simpl in Htz.
      rewrite (rd_off_cap d (fread_caps r) off t v); auto. unfold fread_caps. rewrite Et. reflexivity.
    - unfold rd_off. destruct (f_tz d); try discriminate. reflexivity. }
  rewrite Ho. cbn [obind'].
  unfold fread_valid in Hv. apply andb_true_iff in Hv as [Hv _]. rewrite Hv. reflexivity.
Qed.

(* ------------------------------------------------------------------ the number-level theorem, generic in the plan
   (o = OAbs: the timestamp starts the slice, pre = []; o = ONz: a non-empty dead prefix in front of it) *)
Theorem plan_numbers o row dr p r pre texts rest tail yo off :
  In row rx_table -> In dr dt_table ->
  plan_numeric o row p (r_dtfs dr) = true ->
  fread_admitted row (r_dtfs dr) p (fam_of p) r = true ->
  fread_valid r yo = true -> fallback_ok off = true ->
  in_family (fam_of p) texts = true -> rest_ok (rf_of p) true rest = true ->
  plan_caps row p texts = fread_caps r ->
  match o with OAbs => pre = [] | ONz => pre <> [] | OUnk => False end ->
  pre_ok (rx_re row) OAbs pre (hd_opt (concat texts ++ rest)) = true ->
  slice_of row ((pre ++ concat texts ++ rest) ++ tail) = Some (pre ++ concat texts ++ rest) ->
  option_map (fun x => fst (fst x))
             (dated_model month_table tz_table row (r_dtfs dr) ((pre ++ concat texts ++ rest) ++ tail) yo off)
  = Some (fread_instant r yo off).
Proof.
  intros Hin Hdr Hn Ha Hv Hfb Hfam Hrest Hcaps Horg Hpre Hslice.
  unfold plan_numeric in Hn. apply andb_true_iff in Hn as [Hn Hep]. apply andb_true_iff in Hn as [Hn Hne].
  apply andb_true_iff in Hn as [Hn Hfo].
  assert (Hr : names_in_range row = true).
  { pose proof names_in_range_ok as E. unfold names_in_range_b in E. rewrite forallb_forall in E. auto. }
  pose proof (family_sound _ _ _ _ _ _ Hfo Hfam Hrest) as Hok.
  rewrite (covered_at_dated row p o Hn Hr pre texts rest tail _ Horg Hpre Hslice eq_refl Hok).
  rewrite Hcaps. apply normalise_denotes_rows; auto.
  - destruct (f_epoch (r_dtfs dr)); [discriminate|reflexivity].
  - apply (denoted_fread row (r_dtfs dr) p (fam_of p)); auto.
Qed.

Theorem row_numbers row dr r texts rest tail yo off :
  In row rx_table -> In dr dt_table ->
  row_numeric row (r_dtfs dr) = true ->
  fread_admitted row (r_dtfs dr) (row_plan row) (row_fam row) r = true ->
  fread_valid r yo = true -> fallback_ok off = true ->
  in_family (row_fam row) texts = true -> rest_ok (row_rf row) true rest = true ->
  plan_caps row (row_plan row) texts = fread_caps r ->
  slice_of row ((concat texts ++ rest) ++ tail) = Some (concat texts ++ rest) ->
  option_map (fun x => fst (fst x))
             (dated_model month_table tz_table row (r_dtfs dr) ((concat texts ++ rest) ++ tail) yo off)
  = Some (fread_instant r yo off).
Proof.
  intros Hin Hdr Hn Ha Hv Hfb Hfam Hrest Hcaps Hslice.
  exact (plan_numbers OAbs row dr (row_plan row) r [] texts rest tail yo off Hin Hdr Hn Ha Hv Hfb Hfam Hrest Hcaps
                      eq_refl eq_refl Hslice).
Qed.

(* ------------------------------------------------------------------ the same with the family condition only on the
   items that are NOT fields: the field items are in the family because they are admitted renderings *)
Definition field_items (row : rx_row) (p : plan) : list nat :=
  flat_map (fun f => match field_item row p f with Some j => [j] | None => [] end) [0; 1; 2; 3; 4; 5; 6; 7].
Fixpoint in_family_sel (skip : list nat) (j : nat) (fs : fam) (texts : list bytes) : bool :=
  match fs, texts with
  | [], [] => true
  | fj :: fs', t :: ts => (if existsb (Nat.eqb j) skip then true else in_fam fj t) && in_family_sel skip (S j) fs' ts
  | _, _ => false
  end.
Definition seps_in_fam (row : rx_row) (p : plan) (texts : list bytes) : bool :=
  in_family_sel (field_items row p) 0 (fam_of p) texts.
Definition seps_in_family (row : rx_row) (texts : list bytes) : bool := seps_in_fam row (row_plan row) texts.

Lemma in_family_sel_full skip : forall fs texts j0,
  in_family_sel skip j0 fs texts = true ->
  (forall k, In (j0 + k)%nat skip -> (k < length fs)%nat -> in_fam (nth k fs []) (nth k texts []) = true) ->
  in_family fs texts = true.
Proof.
  induction fs as [|fj fs IH]; intros [|t ts] j0 H Hs; simpl in *; try discriminate; auto.
  apply andb_true_iff in H as [H1 H2]. apply andb_true_iff; split.
  - destruct (existsb (Nat.eqb j0) skip) eqn:E; auto.
    apply existsb_exists in E as (x & Hx & Ex). apply Nat.eqb_eq in Ex. subst x.
    apply (Hs O); [rewrite Nat.add_0_r; auto|lia].
  - apply (IH ts (S j0) H2). intros k Hk Hl. apply (Hs (S k)); [replace (j0 + S k)%nat with (S j0 + k)%nat by lia; auto|lia].
Qed.

Lemma plan_field_item row p texts f j : field_item row p f = Some j ->
  plan_field row p texts f = Some (Some (nth j texts [])).
Proof.
  unfold field_item, plan_field. destruct (assocN f (rx_names row)); [|discriminate]. intros ->. reflexivity.
Qed.

Lemma digit_in_DIG b : digit b = true -> sym_inb DIG b = true.
Proof.
  unfold digit. intros H1. apply andb_true_iff in H1 as [A B]. apply N.leb_le in A. apply N.leb_le in B.
  assert (E : b = 48 \/ b = 49 \/ b = 50 \/ b = 51 \/ b = 52 \/ b = 53 \/ b = 54 \/ b = 55 \/ b = 56 \/ b = 57) by lia.
  repeat (destruct E as [->|E]; [reflexivity|]). subst; reflexivity.
Qed.
Lemma digits_in_shape f : forallb digit f = true -> in_shape (repeat DIG (length f)) f = true.
Proof.
  induction f as [|b f IH]; auto. intros H. cbn [forallb] in H. apply andb_true_iff in H as [H1 H2].
  cbn [length repeat in_shape]. rewrite (IH H2), (digit_in_DIG _ H1). reflexivity.
Qed.
Lemma frac_in_fam fj f : existsb (Nat.eqb (length f)) (adm_frac_len fj) = true -> forallb digit f = true ->
  in_fam fj f = true.
Proof.
  intros H Hd. apply existsb_exists in H as (n & Hn & E). apply Nat.eqb_eq in E. subst n.
  unfold adm_frac_len in Hn. apply filter_In in Hn as [_ Hn]. apply existsb_exists in Hn as (st & Hst & Hs).
  unfold in_fam. apply existsb_exists. exists st; split; auto.
  apply (shape_sub_in _ _ _ Hs). apply digits_in_shape; auto.
Qed.

Lemma fields_in_family row d p fs r texts :
  fread_admitted row d p fs r = true -> plan_caps row p texts = fread_caps r ->
  forall j, In j (field_items row p) -> in_fam (nth j fs []) (nth j texts []) = true.
Proof.
  unfold fread_admitted. intros Ha Hc j Hj.
  repeat (apply andb_true_iff in Ha as [Ha ?]).
  rename H into Hep, H0 into Htz, H1 into Hfr, H2 into Hse, H3 into Hmi, H4 into Hho, H5 into Hda, H6 into Hmo.
  unfold field_items in Hj. apply in_flat_map in Hj as (f & Hf & Hj).
  destruct (field_item row p f) as [j'|] eqn:Ef; [|destruct Hj]. destruct Hj as [->|[]].
  pose proof (plan_field_item row p texts f j Ef) as Hp.
  unfold plan_caps, fread_caps in Hc.
  injection Hc as E0 E1 E2 E3 E4 E5 E6 E7.
  simpl in Hf. destruct Hf as [<-|[<-|[<-|[<-|[<-|[<-|[<-|[<-|[]]]]]]]]].
  - rewrite Hp in E0. cbn [oo] in E0. rewrite Ef in Ha. cbn [fam_at] in Ha.
    destruct (r_year r) as [tv|]; [|discriminate]. cbn [option_map] in E0. injection E0 as E0; rewrite E0. apply mem_adm in Ha as [_ Ha]. exact Ha.
  - rewrite Hp in E1. cbn [oo] in E1. rewrite Ef in Hmo. cbn [fam_at] in Hmo.
    injection E1 as E1; rewrite E1. apply mem_adm in Hmo as [_ Hmo]. exact Hmo.
  - rewrite Hp in E2. cbn [oo] in E2. rewrite Ef in Hda. cbn [fam_at] in Hda.
    injection E2 as E2; rewrite E2. apply mem_adm in Hda as [_ Hda]. exact Hda.
  - rewrite Hp in E3. cbn [oo] in E3. rewrite Ef in Hho. cbn [fam_at] in Hho.
    injection E3 as E3; rewrite E3. apply mem_adm in Hho as [_ Hho]. exact Hho.
  - rewrite Hp in E4. cbn [oo] in E4. rewrite Ef in Hmi. cbn [fam_at] in Hmi.
    injection E4 as E4; rewrite E4. apply mem_adm in Hmi as [_ Hmi]. exact Hmi.
  - rewrite Hp in E5. cbn [oo] in E5. rewrite Ef in Hse. cbn [fam_at] in Hse.
    destruct (r_second r) as [tv|]; [|discriminate]. cbn [option_map] in E5. injection E5 as E5; rewrite E5. apply mem_adm in Hse as [_ Hse]. exact Hse.
  - rewrite Hp in E6. cbn [oo] in E6. rewrite Ef in Hfr. cbn [fam_at] in Hfr.
    rewrite <- E6 in Hfr. repeat (apply andb_true_iff in Hfr as [Hfr ?]). apply frac_in_fam; auto.
  - rewrite Hp in E7. cbn [oo] in E7. rewrite Ef in Htz. cbn [fam_at] in Htz.
    destruct (r_tz r) as [tv|]; [|discriminate]. cbn [option_map] in E7. injection E7 as E7; rewrite E7. apply mem_adm_tz in Htz as [_ Htz]. exact Htz.
Qed.

(* THE NUMBER-LEVEL THEOREM: numbers (admitted standard renderings) at the field items, ANY texts of the
   family at the other items, any admissible rest; generic in the plan / prefix *)
Theorem plan_numbers_fields o row dr p r pre texts rest tail yo off :
  In row rx_table -> In dr dt_table ->
  plan_numeric o row p (r_dtfs dr) = true ->
  fread_admitted row (r_dtfs dr) p (fam_of p) r = true ->
  fread_valid r yo = true -> fallback_ok off = true ->
  plan_caps row p texts = fread_caps r ->
  seps_in_fam row p texts = true -> rest_ok (rf_of p) true rest = true ->
  match o with OAbs => pre = [] | ONz => pre <> [] | OUnk => False end ->
  pre_ok (rx_re row) OAbs pre (hd_opt (concat texts ++ rest)) = true ->
  slice_of row ((pre ++ concat texts ++ rest) ++ tail) = Some (pre ++ concat texts ++ rest) ->
  option_map (fun x => fst (fst x))
             (dated_model month_table tz_table row (r_dtfs dr) ((pre ++ concat texts ++ rest) ++ tail) yo off)
  = Some (fread_instant r yo off).
Proof.
  intros Hin Hdr Hn Ha Hv Hfb Hcaps Hsep Hrest Horg Hpre Hslice.
  apply (plan_numbers o row dr p r pre texts rest tail yo off); auto.
  apply (in_family_sel_full _ _ _ _ Hsep). intros k Hk _. simpl in Hk.
  apply (fields_in_family row (r_dtfs dr) p (fam_of p) r texts Ha Hcaps k Hk).
Qed.

(* every numeric row, timestamp at the start of the slice *)
Theorem row_numbers_fields row dr r texts rest tail yo off :
  In row rx_table -> In dr dt_table ->
  row_numeric row (r_dtfs dr) = true ->
  fread_admitted row (r_dtfs dr) (row_plan row) (row_fam row) r = true ->
  fread_valid r yo = true -> fallback_ok off = true ->
  plan_caps row (row_plan row) texts = fread_caps r ->
  seps_in_family row texts = true -> rest_ok (row_rf row) true rest = true ->
  slice_of row ((concat texts ++ rest) ++ tail) = Some (concat texts ++ rest) ->
  option_map (fun x => fst (fst x))
             (dated_model month_table tz_table row (r_dtfs dr) ((concat texts ++ rest) ++ tail) yo off)
  = Some (fread_instant r yo off).
Proof.
  intros Hin Hdr Hn Ha Hv Hfb Hcaps Hsep Hrest Hslice.
  exact (plan_numbers_fields OAbs row dr (row_plan row) r [] texts rest tail yo off Hin Hdr Hn Ha Hv Hfb Hcaps Hsep Hrest
                             eq_refl eq_refl Hslice).
Qed.

(* unanchored rows: a non-empty dead prefix in front of the timestamp *)
Theorem row_numbers_prefixed row dr r pre texts rest tail yo off :
  In row rx_table -> In dr dt_table ->
  row_numeric_nz row (r_dtfs dr) = true ->
  fread_admitted row (r_dtfs dr) (row_plan_nz row) (fam_of (row_plan_nz row)) r = true ->
  fread_valid r yo = true -> fallback_ok off = true ->
  plan_caps row (row_plan_nz row) texts = fread_caps r ->
  seps_in_fam row (row_plan_nz row) texts = true -> rest_ok (rf_of (row_plan_nz row)) true rest = true ->
  pre <> [] -> pre_ok (rx_re row) OAbs pre (hd_opt (concat texts ++ rest)) = true ->
  slice_of row ((pre ++ concat texts ++ rest) ++ tail) = Some (pre ++ concat texts ++ rest) ->
  option_map (fun x => fst (fst x))
             (dated_model month_table tz_table row (r_dtfs dr) ((pre ++ concat texts ++ rest) ++ tail) yo off)
  = Some (fread_instant r yo off).
Proof.
  intros Hin Hdr Hn Ha Hv Hfb Hcaps Hsep Hrest Hne Hpre Hslice.
  exact (plan_numbers_fields ONz row dr (row_plan_nz row) r pre texts rest tail yo off Hin Hdr Hn Ha Hv Hfb Hcaps Hsep Hrest
                             Hne Hpre Hslice).
Qed.

(* ------------------------------------------------------------------ which rows: all but the uncovered and the epoch rows *)
Definition not_numeric_rows : list N := [65; 66; 67; 68; 69; 96; 97; 98; 99; 100].
Lemma numeric_ok :
  forallb (fun row => match nth_dt' (rx_index row) with
                      | Some dr => row_numeric row (r_dtfs dr) || existsb (N.eqb (rx_index row)) not_numeric_rows
                      | None => false end) rx_table = true.
Proof. vm_cast_no_check (eq_refl true). Qed.

Lemma numeric_rows_all row dr : In row rx_table -> nth_dt' (rx_index row) = Some dr ->
  ~ In (rx_index row) not_numeric_rows -> row_numeric row (r_dtfs dr) = true.
Proof.
  intros Hin Hd Hn. pose proof numeric_ok as H. rewrite forallb_forall in H. specialize (H _ Hin).
  rewrite Hd in H. apply orb_true_iff in H as [H|H]; auto.
  exfalso. apply Hn. apply existsb_exists in H as (x & Hx & E). apply N.eqb_eq in E. rewrite E. exact Hx.
Qed.
